#!/usr/bin/env python3
"""Regenerates MANIFEST.json from the table below (run by hand after adding a property check)."""
import json, os
HERE = os.path.dirname(os.path.abspath(__file__))
props = [json.loads(l) for l in open(os.path.join(HERE, 'properties.jsonl'))]

CLAIMED = {
 'C02': dict(
   text=('Lean 4 theorems (PbVerif.Props.C02) prove for every core algorithm, every x with distinct values, every y, optional '
         'weights and EVERY permutation that the sort/unsort wrapper of Baseline/Baseline2D returns the correspondingly permuted '
         'baseline and per-point parameters (1-D and 2-D, rows/columns/both), plus the inverse-sort laws, the stable-argsort '
         'specification, the skip-sorting test and the extended sort order of optimize_extended_range. The hand-written model is tied '
         'to the code by a correspondence check: every public method (95) is run on pre-sorted and on consistently permuted inputs and '
         'the model-predicted un-sorting of the sorted run must equal the permuted run bit for bit (with/without user weights/alpha, '
         'max_iter in {0,1,2,default}, five permutation kinds, x-only/z-only/both in 2-D). Also: single-parameter variants of every method, every non-empty subset of the per-point arguments (alpha alone, weights alone, both); differences within 1000x the effect of a 1e-14 data perturbation are attributed to conditioning.'),
   note=('Trusted: Lean kernel; axioms propext, Classical.choice, Quot.sound; the correspondence harness; np.argsort(mergesort) is '
         'a stable sort and fancy indexing selects elements. The wrapped numerical cores are black boxes (no hypothesis on them is '
         'needed). Conformance of each method to the wrapper (every per-point input sorted once, every per-point output un-sorted once) '
         'is decided by the correspondence on explored inputs, not by a theorem. Distinct x is required by the theorem (ties are ordered by position).'),
   technique='Lean 4 proof of permutation equivariance of a hand-written wrapper model + bit-exact model/implementation correspondence over all methods',
   design='4.C02'),
 'C11': dict(
   text=('Lean 4 theorems (PbVerif.Props.C11): the coefficient loop of difference_matrix yields the signed binomials of the d-fold '
         'forward difference for every d; the band specification equals the dense D\'D (windowed-sum lemma), which is symmetric and '
         'banded; the slice-assignment tables of _diff_1/2/3_diags are REGENERATED FROM THE SOURCE on every run (translator, Route A) '
         'and proved equal to D\'D in lower and full LAPACK layout for EVERY N >= 2d+1 via a clamp lemma for the table interpreter plus '
         'kernel-checked `decide` at one reduced size and the finitely many small sizes; padding adds only zero rows; lower->full and '
         'full->lower conversions are exact; and for EVERY history of reconfigurations (diff_order, allow_lower, reverse_diags, '
         'allow_pentapy, padding; pentapy installed or not; every N) the re-used PenalizedSystem equals a fresh one. Correspondence: '
         'translated tables vs the real functions, diff_penalty_diagonals/diff_penalty_matrix/difference_matrix vs the model for d=0..6 '
         'over all branches and paddings, random reconfiguration histories of real PenalizedSystem/PSpline objects vs the model state '
         'machine and vs fresh objects; the penalties of the 2-D systems (Kronecker, 2-D P-spline, eigendecomposition mode), built as the '
         'methods build them and over (lam, order) histories, against the model\'s exact D\'D: lam_r kron(D\'D, I) + lam_c kron(I, D\'D) '
         'bit-exactly, retained eigenpairs by orthonormality / residual / smallest eigenvalues, reused == fresh.'),
   note=('Trusted: Lean kernel; axioms propext, Classical.choice, Quot.sound; translate.py (AST fragment -> table; cross-checked against '
         'the real functions each run); the correspondence harness. SciPy sparse path for d>3 or N<2d+1 is tied by the correspondence '
         'only (exact integer comparison on explored sizes), not by a theorem.'),
   technique='Lean 4 proof over tables translated from the source on every run (clamp lemma + kernel decide) + state-machine refinement proof + exact correspondence',
   design='4.C11'),
 'C14': dict(
   text=('Lean 4 theorems (PbVerif.Props.C14) about a model of SciPy\'s reflect-mode flat grey morphology validated bit-for-bit against '
         'scipy.ndimage: reflection commutes with symmetric-window erosion/dilation; hence for every length >= 1 and every half window '
         '(also windows longer than the data) opening <= data, opening is idempotent and commutes with shifts; mor <= data and commutes '
         'with shifts; every imor iterate <= data; the snip clipping loop (all filter orders 2-8, per-side windows, increasing or '
         'decreasing schedule, any padding) returns the data\'s length, is <= data, and commutes with shifts. Correspondence: real '
         'tophat/mor/imor (1-D and 2-D) and snip vs the model, bit-exact on integer/half-integer data, windows from 1 to beyond N; the '
         'rubberband mask is checked by a decidable lower-convex-hull certificate evaluated by the model driver in exact rationals; the '
         'property inequalities, idempotence and shift laws are also evaluated directly on the real code.'),
   note=('Trusted: Lean kernel; axioms propext, Classical.choice, Quot.sound; harness. 2-D laws and the hull certificate are checked by '
         'correspondence/certificate on explored inputs, not proved; Qhull is a black box whose output is certified; snip with smoothing '
         'is outside the <=-data clause; shift/idempotence laws are stated for an explicit half_window.'),
   technique='Lean 4 proof of lattice laws of reflect-mode morphology and of the snip loop + bit-exact correspondence + exact hull certificate',
   design='4.C14'),
 'C03': dict(
   text=('Lean 4 refinement proof (PbVerif.Props.C03): a state machine of everything a Baseline/Baseline2D object caches or lazily '
         'creates (1-D/2-D polynomial helper: order, Vandermonde columns/key, pinv_stale, source of the cached pseudo-inverse; spline '
         'basis key; validated-x flag; lazily created x; banded/pentapy solver) with the coherence invariant proved for init and every '
         'step, and the theorem that for EVERY finite history of operations (orders up/down, weighted/unweighted, Vandermonde-only fits, '
         'spline bases, unique-x methods, wrong-length calls, calls failing before or after a cache write, valid/invalid solver '
         'assignments) and every probe call the probe\'s outcome equals the outcome on a fresh object with the same x. Correspondence: '
         'random and directed histories on real objects (unique x, duplicate x, no x; 1-D and 2-D); after every operation the observable '
         'state incl. content fingerprints of the cached Vandermonde/pseudo-inverse is diffed with the model, and the probe result is '
         'compared with a fresh real object. Also: directed histories on objects with duplicate x (a call that raised must not change what later unique-x calls do).'),
   note=('Trusted: Lean kernel; axioms propext, Classical.choice, Quot.sound; harness. Numerical equality of reused/fresh results is '
         'compared to 1e-8 relative on explored histories; which real method maps to which model operation is fixed in the harness.'),
   technique='Lean 4 invariant + refinement proof of the cache state machine, tied by state-by-state correspondence on real objects',
   design='4.C03'),
 'C05': dict(
   text=('Lean 4 theorems (PbVerif.Props.C05): for every size and for ARBITRARY outcomes of the floating-point comparisons (NaN, '
         'unsorted or repeated values), under the preconditions the Python callers establish, every index used by _find_interval, '
         '_de_boor, __make_design_matrix, _numba_btb_bty, _determine_fits (+ the windows/skip ranges it hands to the three loess kernels '
         'and _fill_skips/_interp_inplace), _directional_min_moving_avg and _rolling_std is inside its array; loop fuel proved sufficient. '
         'Tie: index traces of the kernels\' Python source recorded with logging arrays are diffed with the Lean index models; '
         '_determine_fits outputs are compared exactly. Direct evaluation: ~6000 boundary-heavy public and direct kernel calls are run '
         'with the Python source of the kernels substituted, so an out-of-range scalar index raises inside a kernel frame.'),
   note=('Trusted: Lean kernel; axioms propext, Classical.choice, Quot.sound; Numba compiles the Python source faithfully (slices clip, '
         'scalar indices in [-n,n) wrap); harness. _quadratic_bezier_spline, _numba_banded_dot_banded and the loess solver are covered '
         'by the direct monitor only (no Lean index model yet).'),
   technique='Lean 4 proof of index bounds of kernel models under arbitrary comparison oracles + recorded index-trace correspondence + Python-source kernel monitor',
   design='4.C05'),
 'C12': dict(
   text=('Lean 4 theorems (PbVerif.Props.C12) about the B-spline kernels modelled in exact rationals: every design-matrix row has '
         'degree+1 entries in consecutive columns inside the matrix; de Boor values are non-negative and sum to one for every degree, '
         'non-decreasing knot vector and x in a non-degenerate interval; they equal the Cox-de Boor basis functions; _find_interval returns '
         'the interval containing x whatever the previous interval was; the banded B\'WB and B\'Wy accumulated by _numba_btb_bty equal '
         'the explicit products for every weight vector; knot-vector length and basis-midpoint count. Correspondence: real SplineBasis '
         '(compiled path) vs the exact model on the real knots vs scipy BSpline.design_matrix vs the slow fallback path, x on knots/ends/'
         'repeated/clustered/unsorted, num_knots 2..200, degree 0..6; captured B\'WB/B\'Wy of PSpline.solve_pspline (compiled and sparse '
         'fallback) vs explicit products, zero and gap weights; histories of (num_knots, degree) requests on one 1-D / 2-D fitter object: '
         'the basis handed to the method is the B-spline basis of the request and the method result equals a fresh fitter\'s.'),
   note=('Trusted: Lean kernel; axioms propext, Classical.choice, Quot.sound; harness; float de Boor vs exact within 64*eps*(degree+1); '
         'scipy BSpline as third witness.'),
   technique='Lean 4 proof (partition of unity, Cox-de Boor equality, interval search, exact normal equations) + three-way correspondence',
   design='4.C12'),
 'C19': dict(
   text=('Lean 4 theorems (PbVerif.Props.C19) about a model of _determine_fits/_fill_skips validated exactly against the Python source: '
         'first and last points always fitted, fits strictly increasing; delta <= 0 fits every point; every window is exactly total_points '
         'indices inside the data and (sorted distinct x) contains its fitted point; skip ranges with interior are exactly the gaps between '
         'consecutive fits; skipped points lie on the chord of their fitted neighbours. Correspondence/direct evaluation on the real loess: '
         'conserve_memory True vs False (baseline, weights, coef, tol_history), compiled vs Python-source kernels on well-posed fits, chord '
         'law at skipped points, polynomial reproduction, over x kinds, total_points poly_order+1..N, delta 0..beyond range, max_iter 0..10. Also: caller-supplied non-uniform weights in the strategy equivalence.'),
   note=('Trusted: Lean kernel; axioms propext, Classical.choice, Quot.sound; harness. Equality of the two memory strategies and polynomial '
         'reproduction are decided on explored inputs (np.linalg.solve is a black box); rank-deficient local fits are excluded from the '
         'compiled/uncompiled comparison.'),
   technique='Lean 4 proof of the fit/window/skip selection postconditions + exact model correspondence + strategy-equivalence differential test',
   design='4.C19'),
 'C06': dict(
   text=('Lean 4 theorems (PbVerif.Props.C06): the band arrays every Whittaker method hands to its solver (lower, full, reversed '
         'layouts; asls-family, iasls with its D1 terms and right-hand side, the row-shifted products of drpls and aspls) denote, for '
         'EVERY size, difference order and weights, exactly the documented matrix W + lam D\'D (+ extras); the O(d) formula for D\'D used '
         'by the certificate equals the dense definition. Correspondence/certificates: every baseline along the iteration (captured at '
         'PenalizedSystem.solve, all four banded_solver values, N from d+2 upward, lam over ten decades, user weights/alpha) is checked in '
         'exact rational arithmetic against the DOCUMENTED system with the weights in force at that step (recorded at the reweighting '
         'rule): exact normwise backward error <= 1e-11 (measured ~2e-16); captured band arrays vs the Lean assembly model; converged '
         'pairs; utils.whittaker_smooth; 2-D direct Kronecker system (exact) and eigen-decomposition path (Galerkin certificate).'),
   note=('Trusted: Lean kernel; axioms propext, Classical.choice, Quot.sound; harness. The linear solvers (LAPACK, pentapy, SuperLU) are '
         'black boxes certified per output by the exact backward error, not proved; the 2-D eigen path is certified numerically '
         '(independent dense eigenvectors), not exactly.'),
   technique='Lean 4 proof of band assembly = documented matrix + exact-rational backward-error certificate of every captured solve',
   design='4.C06'),
 'C07': dict(
   text=('Lean 4 theorems (PbVerif.Props.C07): _add_diagonals adds the denoted matrices whichever array has fewer rows (diff_order '
         'smaller or larger than the degree); the banded scatter loop of _numba_btb_bty plus the padded penalty denote exactly '
         'B\'WB + lam D\'D and B\'Wy for every degree, basis size, weights and x order; _basis_midpoints returns the centre of each basis '
         'function\'s support on equally spaced knots (odd and even degree); np.interp model: node values, constants, bounds. '
         'Correspondence/certificates: coefficients and returned spline captured at PSpline.solve_pspline / PSpline2D.solve for every '
         'penalised-spline method (asls-family, iasls, drpls, aspls extras; mixture_model, irsqr, mpls, brpls at solve level; '
         'utils.pspline_smooth with unsorted x; 2-D Kronecker form incl. the 2-D pspline_iasls extras) are checked in exact rational arithmetic against the documented '
         'system built from the Cox-de Boor definition with the weights in force at that step: backward error <= 1e-11 (measured '
         '~2e-16); returned spline vs exact B c; knots vs equally spaced grid over the x-range; converged pairs.'),
   note=('Trusted: Lean kernel; axioms propext, Classical.choice, Quot.sound; harness. Linear solvers are black boxes certified per '
         'output by the exact backward error.'),
   technique='Lean 4 proof of P-spline band assembly = documented matrix + exact-rational backward-error certificate of every captured solve',
   design='4.C07'),
 'C20': dict(
   text=('Lean 4 theorems (PbVerif.Props.C20): _make_btwb (face-splitting + rearrangement) equals the Kronecker definition '
         '(B_r (x) B_c)\'W(B_r (x) B_c) for every shape, incl. non-square bases; the right-hand side and the reconstruction B_r C B_c\' '
         'equal their Kronecker forms; in the eigen basis the penalty is diagonal with lam_r e_r[i] + lam_c e_c[k] (each axis\' lam and '
         'eigenvalues on its own index); the truncated eigen solve is the Galerkin solution of the documented system, and with all '
         'eigenvectors it equals the direct solve (Mathlib matrices, any index types). Correspondence: 2-D systems with distinct per-axis '
         'lam / diff_order / num_eigens / knots / degree on square and non-square grids compared with the dense Kronecker definition; '
         'axis-swap symmetry; Galerkin certificate of the eigen path with independently computed eigenvectors. Also: long grids (one axis 90-500 points, lam 1e6-1e8) with a conditioning-aware Galerkin tolerance.'),
   note=('Trusted: Lean kernel; axioms propext, Classical.choice, Quot.sound; harness. Eigen-decomposition (LAPACK) is a black box '
         'certified by the Galerkin residual against independently computed eigenvectors.'),
   technique='Lean 4 proof of Kronecker/array-algebra index identities + dense-definition differential check with per-axis distinct parameters',
   design='4.C20'),
 'C10': dict(
   text=('Lean 4 theorems (PbVerif.Props.C10): for EVERY banded_solver value 1..4, pentapy importable or not, every size, difference '
         'order and weights, the array each Whittaker method (asls family, iasls, aspls, drpls) hands to the solver it is routed to '
         'denotes, under THAT solver\'s storage convention (LAPACK lower for solveh_banded, LAPACK full for solve_banded, pentapy '
         'row-wise), the same documented matrix (backend_independent); routing: pentapy iff importable and solver < 3 and diff_order = 2 '
         '(variant = solver), solveh_banded iff the method allows lower storage and solver < 4 and not pentapy; layout flags of a fresh '
         'system; row-wise storage = reversed transpose of LAPACK; compiled scatter loop and explicit product assemble the same B\'WB. '
         'Correspondence: every public method plus parameter sweeps (Whittaker diff_order 1..3, spline degrees, beads banded vs sparse '
         'with filter_type / cost_function / eps_0 != eps_1, loess, rolling std, Bezier, interpolation kernels, 2-D, utils) executed in '
         '16 configurations in worker processes where numba / pentapy are genuinely unimportable; all 16 baselines must agree within a '
         'conditioning-calibrated tolerance (200 x the change under a 1e-12 relative perturbation of data and lam, floor 1e-11) and no '
         'configuration may raise where another returns; recorded routes / layouts vs the Lean dispatch model; pentapy storage '
         'convention and solve vs the Lean denotation.'),
   note=('Trusted: Lean kernel; axioms propext, Classical.choice, Quot.sound; harness. Numerical agreement of the solvers and of '
         'compiled vs uncompiled kernels is decided on explored cases only (floating point), with at most 3 reweighting iterations; '
         'the proof covers layout selection and routing (the logic), not LAPACK / pentapy / numba themselves.'),
   technique='Lean 4 proof of solver routing and per-route band denotation (all 8 solver x pentapy configurations) + 16-configuration differential execution in import-blocked worker processes',
   design='4.C10'),
 'C04': dict(
   text=('Lean 4 theorems (PbVerif.Props.C04) about interleaving models of the shared-state protocols, for ANY number of threads and '
         'EVERY schedule (invariant proofs over the generic runSched): first call on a fitter created without x (1-D: size, shape, then '
         'x; 2-D for each of the four ways x / z are given: complete shape, size, then z, x) never fails; the 1-D and the 2-D '
         'Vandermonde / pseudo-inverse caches (cold, or warmed by ANY earlier parameters) give every call with the same parameters '
         'its serial outcome (no error, every use sees its own Vandermonde, the returned pseudo-inverse is its own); spline-basis '
         'cache (whole-object publication); every call terminates within a bounded number of its own steps; negative theorems with '
         'witness schedules: the publication orders before the repairs fail, and different polynomial orders on one object (what '
         'adaptive_minmax did within one call) break a call. Correspondence: (a) single-thread access traces of every public '
         'method / start state against the model programs (and any write to a shared field the models do not cover is reported); '
         '(b) a deterministic scheduler runs REAL threads through thousands of interleavings per run (pre-emption before every access '
         'to state reachable from the shared object; every early single pre-emption point, random double pre-emptions, random 3-thread '
         'schedules; created with / without x; cold / warm / differently-warm caches) and compares every outcome bit-for-bit with the '
         'serial one; (c) model schedules, incl. the negative witnesses, replayed on the real polynomial cache: predicted vs real outcome; '
         '(d) every array reachable from a warmed-up shared fitter is frozen (read-only) and each method called again: an in-place write into '
         'shared array contents is located and turned into a concrete failing schedule by line-level pre-emption.'),
   note=('Trusted: Lean kernel; axioms propext, Classical.choice, Quot.sound; harness. PARTIAL with respect to the runtime: values '
         'are abstracted by provenance; pre-emption inside NumPy / LAPACK calls on thread-private arrays, the free-threaded build\'s '
         'memory model beyond sequentially consistent attribute accesses, and the idempotent _validated_x / _validated_z flags are '
         'argued, not modelled. Methods whose cache traffic is not one of the proven programs are covered by scheduler exploration only.'),
   technique='Lean 4 invariant proofs over an interleaving semantics of the shared-cache protocols (any thread count, any schedule) + access-trace correspondence + deterministic real-thread scheduler exploration',
   design='4.C04'),
 'C08': dict(
   text=('Lean 4 theorems (PbVerif.Props.C08) in exact rationals: coefficients converted by _poly_transform_matrix/_convert_coef evaluate '
         'to the fitted polynomial for EVERY domain, order and x (binomial theorem), incl. the special-cased offset == 0 branch; the 2-D '
         'version T_x C T_z\'; mapparms maps the intervals; and a coefficient vector satisfying the weighted normal equations minimises '
         'the weighted squared distance, uniquely under full column rank (so "the unique least-squares polynomial" is a checkable '
         'equation). Correspondence/certificates: transform matrices vs the exact model; for every polynomial method (poly, modpoly, '
         'imodpoly, penalized_poly x 5 cost functions, quant_reg, goldindec, dietrich, loess coefficients, 2-D versions with max_cross, '
         'fitter objects reused across orders) the returned coefficients are evaluated EXACTLY in rationals on the user\'s x (and z) and '
         'must reproduce the returned baseline within a rounding budget derived from sum|c_j||x|^j; for poly the exact weighted normal-'
         'equation residual must vanish relative to its scale; domains with offsets up to 1e12, scales 1e-9..1e5, negative, unsorted. Also: loess coefficients under both memory strategies, with skipped points and several robust iterations; and every other keyword of every 1-D / 2-D polynomial method moved, one at a time, to its alternative values (iteration limits 0/1/5, tolerances, thresholds, cost functions) under the same exact coefficient-evaluation check.'),
   note=('Trusted: Lean kernel; axioms propext, Classical.choice, Quot.sound; harness. np.linalg.pinv/lstsq are black boxes certified only '
         'on explored inputs; the mapped variable is taken as numpy computes it.'),
   technique='Lean 4 proof of the coefficient transform and of normal-equations => unique minimiser + exact-rational certificates of real outputs',
   design='4.C08'),
 'C18': dict(
   text=('Lean 4 theorems (PbVerif.Props.C18) about exact-rational models of pad_edges (extrapolate mode), padded_convolve, kernel '
         'normalisation and optimize_window: length N+2*pad and unchanged interior; window 1 repeats the edge value; the least-squares '
         'line through exactly linear points is that line, hence linear data is continued exactly for every N >= 2, pad length and '
         'windows >= 2 (also longer than the data); padded_convolve returns N points, p >= 1, and leaves constant data unchanged for any '
         'normalised kernel no longer than the data; normalising a non-negative symmetric kernel keeps these and makes it sum to one; '
         'optimize_window >= 1 for every outcome of its tests. Correspondence: pad_edges/pad_edges2d(extrapolate)/padded_convolve vs the '
         'models; all NumPy modes for length/interior; planar continuation in 2-D; Gaussian/mollifier kernels; optimize_window values. Also: the same integer-valued numbers as int64 / int32 / list / float32 are padded with the same values.'),
   note=('Trusted: Lean kernel; axioms propext, Classical.choice, Quot.sound; harness. np.pad modes, Polynomial.fit/pinv and '
         'scipy.signal.convolve are checked against the models on explored inputs; kernels\' exp values are float (laws checked directly).'),
   technique='Lean 4 proof over exact-rational models of padding/convolution + correspondence',
   design='4.C18'),
 'C15': dict(
   text=('Lean 4 theorems (PbVerif.Props.C15) about decision-function models of the checkers of _validation.py over an abstraction of '
         'Python values (numbers, nan, +-inf, None, strings, flat and nested sequences): an accepted half window is a positive integer '
         'equal to what the caller passed (one value AND the two-value path); every non-positive or non-integer half window, every '
         'lam <= 0 (also inside a pair), every sequence where one value is required, every wrong-length pair, every negative integer '
         'parameter is rejected; a non-finite entry at ANY position makes a finiteness-checked array raise; a wrong-length per-point '
         'array is rejected for every length and orientation; solver setter and interval guards characterised. Correspondence: the real '
         'checkers vs the model on every value-class representative x flags (exhaustive finite product); every public method (95) x '
         'every listed scalar parameter it has x out-of-domain values, non-finite data at first/last/random positions, wrong-length and '
         'non-finite data/weights/alpha, invalid solver and method names, with sorted and unsorted x (and z): must raise '
         'ValueError/TypeError. Also: non-finite data through every input path (fitter with x, fitter without x on its first and second call, module-level function with and without x_data).'),
   note=('Trusted: Lean kernel; axioms propext, Classical.choice, Quot.sound; harness; NumPy conversions are modelled. Which method '
         'parameter is bound to which checker is decided by the exhaustive method-level run, not by a theorem. Exclusions stated in '
         'the evidence assumptions (inactive lam of rubberband/custom_bc, smooth_half_window, closed p interval of the mpls family, '
         'classification half windows).'),
   technique='Lean 4 proof over decision-function models of the validators + exhaustive finite correspondence over value classes and all methods',
   design='4.C15'),
 'C17': dict(
   text=('Lean 4 theorems (PbVerif.Props.C17) about the index plumbing of the optimizers: cut-back after padding is the identity and '
         'gives the data\'s length for every side and width; np.roll(...)[:added] picks exactly the added right block then the added '
         'left block; the chosen index is a first minimiser; custom_bc with one full region and unit sampling plans x_fit = x, '
         'y_fit = y; adaptive_minmax\'s constrained weights and point-wise maximum (dominates each fit, attained by one) and the order '
         'of its four fits. Correspondence = re-execution of the documented composition on the real code: collab_pls baselines vs '
         'single-pass wrapped fits with the reported average weights/alpha (21 wrapped methods, both averaging modes, any letter case), '
         'adaptive_minmax vs the maximum of the four fits from the reported orders and weights, custom_bc identity vs the wrapped method '
         '(13 methods) and general region plans vs the Lean planner, optimize_extended_range vs a direct fit of the re-built extended '
         'data with the reported optimal parameter, cut-back weights, min_rmse; class and functional interfaces, sorted/rotated/shuffled x. Also: one-sided and zero constrained fractions of adaptive_minmax.'),
   note=('Trusted: Lean kernel; axioms propext, Classical.choice, Quot.sound; harness (incl. its reference construction of the extended '
         'data set). The wrapped method is a black box by design. Observation (not claimed as violation): for polynomial methods the '
         'reported rmse array is integer-typed and therefore truncated.'),
   technique='Lean 4 proof of the planners\' index algebra + recomposition of every optimizer output from direct calls of the real wrapped method',
   design='4.C17'),
 'C13': dict(
   text=('Lean 4 theorems (PbVerif.Props.C13): soundness of an ownership discipline over a small-step calculus of NumPy buffers (views '
         'alias, copies/fancy indexing/conversions create fresh buffers, in-place writes bump a version): if every write hits a buffer '
         'created during the call, no caller buffer is ever written, returning or raising; exact characterisation of when the numerical '
         'core receives the caller\'s own buffer (ndarray, no dtype conversion, ravel is a view, no copy_input, no sort order); and a '
         'TABLE OBLIGATION re-checked on every run against an AST scan of the current source (translator): every in-place write '
         '(setitem, augmented assignment, out=, overwrite_*, mutating methods) found in a registered method targets a fresh local or an '
         'input that `_setup_*` was asked to copy. Correspondence: every method (1-D/2-D) x every array/dict argument x layouts '
         '(contiguous, strided view, read-only, list, column, row, float32) x sorted/unsorted x x returning/raising calls with byte '
         'snapshots of all caller objects (incl. backing stores and dict contents); observed np.shares_memory between caller arrays and '
         'what the core receives vs the Lean aliasing model. Also: every banded_solver value, single-parameter variants (optional pre-smoothing etc.) and noise-free data kinds.'),
   note=('Trusted: Lean kernel; axioms propext, Quot.sound; translate.gen_inplace (scanner; helper functions outside the registered '
         'method bodies are covered only dynamically); harness. Partial: completeness of the scan is not proved.'),
   technique='Lean 4 soundness proof of an ownership calculus + decide over an in-place-write table translated from the source each run + snapshot correspondence',
   design='4.C13'),
 'C16': dict(
   text=('Lean 4 theorems (PbVerif.Props.C16): shape canonicalisation maps (N,), (N,1), (1,N) (2-D: (M,N), (M,N,1), (1,M,N), (M,1,N)) to '
         'the same canonical shape, is idempotent and keeps the values in order; dtype rule; after its first call an x-less object '
         'behaves exactly like one built with linspace(-1,1,N) (refinement theorem of the cache model), which is strictly increasing '
         'from -1 to 1; the module-level wrapper forwards the same bound arguments for every positional/keyword split; name lookup is '
         'case-insensitive and total on the registry. Correspondence over all 95 methods: list/tuple/column/row/strided/Fortran/'
         'float32/int64 data, x and z as list/float32/column/strided, per-point arguments as list/column/float32/strided/int, explicit '
         'output_dtype, omitted x (and z), method names in other letter cases (also the wrapped-method names of optimizers), the '
         'functional interface with positional and keyword data: each variant must equal the reference call cast to the documented '
         'dtype bit for bit (memory-layout variants and explicit output dtypes: to rounding). Also: parameter variants, functional-vs-method equivalence on rotated / shuffled x, per-point arguments inside method_kwargs in every container, omitted x for float32 / integer data.'),
   note=('Trusted: Lean kernel; axioms propext, Classical.choice, Quot.sound; harness; NumPy conversions and casts themselves.'),
   technique='Lean 4 proof of the container-independent wrapper logic + bit-exact differential correspondence over input variants of every method',
   design='4.C16'),
 'C01': dict(
   text=('Lean 4 theorems (PbVerif.Props.C01): the wrapper returns the baseline (and per-point parameters) in the canonical shape of the '
         'data (rows/columns one-dimensional, (M,N,1)-type stacks as (M,N)), in the caller\'s order (un-sorting after sorting is the '
         'identity), in the documented dtype; the loop skeleton shared by the iterative methods records at most `budget` entries and its '
         'three stop reasons (below tol / budget exhausted / early exit) are exhaustive and exactly characterised. Correspondence over all '
         '95 methods x data kinds (noise+peaks, 1e6 offset, 1e-6 scale, negative, integer-valued, float32, int64, row/column/stack shapes, '
         'unsorted x) x sizes 10..2000 x max_iter variations: shape, dtype, per-point parameter shapes, tol_history bound, finiteness, '
         'ordering against the sorted run; trajectory replay: the tol=0 difference stream of each iterative method is fed to the Lean '
         'skeleton, which predicts len(tol_history) and the stop reason for a (max_iter, tol) grid that the real method must reproduce. Also: every optional parameter of every method moved to non-default values derived from the signature (single-parameter variants), noise-free data kinds, and the honest-stop clause (a convergence record shorter than the budget ends below the requested tol unless a rule signalled the early exit).'),
   note=('Partial: that each numerical core preserves the length of its input and yields finite numbers on noisy finite data is floating-'
         'point behaviour of 95 NumPy bodies; it is decided on the explored inputs only. Trusted: Lean kernel; axioms propext, '
         'Classical.choice, Quot.sound; harness; golden/loop_budget.json (iterations allowed per method, derived from the unchanged tree).'),
   technique='Lean 4 proof of wrapper shape/order/dtype rule and loop-skeleton theorems + trajectory-replay correspondence + exhaustive method sweep',
   design='4.C01'),
 'C09': dict(
   text=('Lean 4 theorems (PbVerif.Props.C09): every reweighting rule of _weighting.py (asls, airpls, arpls, drpls/lsrpls, iarpls, aspls, '
         'psalsa, derpsalsa, quantile, brpls) is defined ONCE over an arbitrary number type and proved, over every linear ordered field '
         'with any positive monotone exp, any sqrt with its defining properties and |.|, to map into [0, 1] (airPLS: after normalisation; '
         'quantile: positive and bounded by max(q,1-q)/sqrt(eps), as documented) and to never increase as the residual increases (asls/'
         'psalsa/derpsalsa iff p <= 1-p, proved necessary); stop rule: first recorded value below tol, or budget exhausted, or early '
         'exit, never earlier or later; history prefix; weights/baseline pairing at convergence and exhaustion. Correspondence: the SAME '
         'definitions instantiated at Float are run by the driver against the real _weighting functions on residual vectors of size '
         '3..2000, magnitudes 1e-100..1e100, all-positive/all-negative/ties/<2 negatives, iteration 1..200 (early-exit flag and zero '
         'pattern exact, weights to 1e-9); direct range/monotonicity checks on the real outputs; hosts (1-D and 2-D): (max_iter, tol) grid '
         'replay through the Lean skeleton on noisy data, early-exit hunting on noise-free data with the invariant len(tol_history) = '
         'number of completed reweighting steps, and weights = rule(returned baseline) at exhaustion.'),
   note=('Partial: brpls monotonicity (no erf in Mathlib; range proved for any erf value in [-1,1]); libm exp/expit/erf are trusted. '
         'Trusted: Lean kernel; axioms propext, Classical.choice, Quot.sound; harness; Gen/Consts (_MIN_FLOAT read from the package each run).'),
   technique='Lean 4 proof over abstract ordered fields of polymorphic rule definitions that are also executed at Float against the real code + loop-skeleton replay',
   design='4.C09'),
}


# sentences appended to the claims by later extensions (kept apart from the original texts so that the history stays readable)
EXTRA_TEXT = {
 'C01': ' Route A for the loops: the allocation, range header, write index, break tests and final slice of all 65 iterative functions are parsed from the source on every run (Gen/Loops); for every row and all inputs `loops_writes_in_bounds`, `loops_slice_initialised` (the returned record contains only written entries on every path), `loops_record_len` (<= max_iter + 1), `loops_stop_reason`, `loops_raise_iff_empty_range`, `loops_eq_skeleton`, `loops_budget_code`, and for the two-level loops `nest_memory_safe`, `nest_no_overwrite`; the real allocation / written set / slice are observed by tracing the method\'s frame and every row is replayed on real trajectories. Histories of calls on one long-lived fitter (hist.py) against a fresh fitter. Route A table obligation `registry_perpoint_keys_shaped` over Gen/Registry (closure cells of the wrapper and one probe call per method, regenerated on every run): no public method hands back a flat per-point array and every 2-D reshape key is also un-sorted.',
 'C02': ' Route A table obligation `registry_perpoint_keys_sorted` over Gen/Registry (regenerated on every run from the imported package): every method that lets the wrapper sort declares every per-point output for un-sorting, so it inherits the equivariance theorem; when the obligation breaks the flagged methods are driven first, on larger data and with every single-parameter variant. The conditioning excuse is granted per output (an output is excused only if its own difference is within 1000x its own movement under the perturbation).',
 'C05': ' Histories of calls on one long-lived fitter (also created without x and later given data of another length) run with the kernels\' Python source: cached objects carried from call to call must not make a kernel index outside its arrays. Further theorems: `_numba_banded_dot_banded` (all band counts and N, with the caller lemmas for `_banded_dot_banded` and the three calls of beads), `_quadratic_bezier` / `_quadratic_bezier_spline` (arbitrary argmin outcomes), `_interp_inplace` (through `_fill_skips` and `_find_peak_segments`), `_loess_solver` and the loop indices of the three loess kernels, and caller lemmas deriving each precondition from the guards of loess, the spline set-up, peak_filling, corner_cutting and the rolling-std padding; exact access traces of the kernels\' Python source against the models and precondition monitors on every kernel call made by the public methods.',
 'C03': ' Besides the modelled cache state machine: an object-history fuzzer over ALL public methods (random and systematic histories on one long-lived fitter: the same method with the same arguments, with one argument — one axis of a pair in 2-D, the wrapped method, each value of a string option — changed, two integer arguments moved in opposite directions, same-module methods in sequence; fitters created with / without x; the caller re-using its buffers) in which every call must give what a fresh fitter gives.',
 'C06': ' Further theorems: `kron_penalty_vec`, `doc2d_is_kron_sum`, `asm2d_den`, `doc2d_apply_vec` (the 2-D documented system is diag(w) + the Kronecker sum and acts on the row-major vec as row / column operators), `jbcd_asm_den` (+ `jbcd_signal_ne_documented`: the coded signal system differs from the documented one by the factor 2 on gamma — observation), `converged_pair_solves`, `exhausted_returns_fresh_state`, `stateful_refines_skeleton`, `brpls_pair_solves`, `jbcd_pair_solves`; captured 2-D sparse systems and jbcd band systems against the Lean assembly, loop models fed with the decisions of real runs. The 2-D returned-pair certificates run with the data and the weights in every memory layout (C / Fortran order, transposed and strided views), independently.',
 'C07': ' `pspline_system_magnitude_free`, `pspline_iasls_system_magnitude_free`, `pspline_system_of_scaled_x` (the assembled system does not depend on the magnitude of the x-axis). Every section also on x-axes of unusual magnitude; all cases have a working replay. Further theorems: `pspline_iasls_extra` (+ `_full`, `_rhs`), `pspline_drpls_asm_den`, `pspline_aspls_asm_den` (+ `_midpoints`), `pspline_drpls_aspls_rhs`, `lowerToFull_den`, `addDiagonalsFull_den`, `shiftRows_reverse_colscale_any`; the systems captured at `PenalizedSystem.solve` for pspline_iasls / drpls / aspls are compared with the Lean assembly over solvers 1-4.',
 'C08': ' 2-D max_cross modelled and proved: `maxCross_kept_iff`, `colIndex_bijection`, `maxCross_none_iff`, `maxCross_zero`, `maxCross_mono`, `allowed_downward_closed`, `vander_masked_apply`, `convertCoef2d_preserves_exclusion`, `maxCross_returned_coef`; the kept-column pattern of the real _PolyHelper2D (fresh and re-used) against the model for all order pairs <= 4 and every max_cross. 2-D max_cross: the documented monomial set, written down independently of the code, for all five 2-D polynomial methods over unequal order pairs and every max_cross: excluded coefficients are zero, the baseline lies in the allowed span, exact normal equations for poly.',
 'C09': ' Route A for the stop rule: `loops_stop_first`, `loops_tol_tested` over the loops translated from the source. Route A: the final weight expression of ten of the eleven rules is parsed from the source text of _weighting.py on every run (Gen/WeightExprs); `gen_<rule>_eq_model` proves it equal to the hand model and `src_<rule>_range` / `src_<rule>_antitone` / `src_quantile_bounds` transfer the theorems to the source expression (a changed constant, sign or cap breaks a named theorem); the translated expression is also evaluated in Float against the real functions. Histories on one long-lived fitter whose caller re-uses its data buffer: the weights of every call against a fresh fitter.',
 'C10': ' Every 1-D method is also run on x-axes of unusual magnitude (scaled by 2^-30 / 2^30, offset by 1.7e9) in all configurations. Every 1-D method is also run on data with a 1e6 offset and little noise and on data scaled by 1e-6 / 1e6 in all configurations (a fall-back must be as accurate as the accelerated path, not only algebraically equal).',
 'C11': ' In the reconfiguration histories the real systems are USED in place between reconfigurations (add_diagonal + solve with and without overwrite_ab; solve_pspline), as the methods use them.',
 'C12': ' Magnitude invariance proved over Q for t -> a t + b: `deBoor_affine_invariant`, `findInterval_affine_invariant`, `designRows_affine_invariant`, `splineKnots_affine`, `basis_magnitude_free`, `normal_equations_magnitude_free` (an absolute tolerance on knots contradicts them). Every case also on x-axes of unusual magnitude (scales 1e-30 ... 1e30, large offsets with a narrow range, negative ranges).',
 'C13': ' Histories on one long-lived fitter in which the SAME caller objects (data buffer overwritten in place, weights array, keyword dictionaries) are handed to several calls, every ordered pair of same-module methods that take weights included. method_kwargs dictionaries are also given keys that shadow the optimizer\'s own arguments or that it treats specially (weights, alpha, tol, lam, max_iter, x_data), with the explicit argument omitted.',
 'C14': ' Data on pedestals of 1e6 ... 1e9 and shifts of that size for every method. 2-D: `erode2d_rect_min` / `dilate2d_rect_max`, `tophat2d_le`, `tophat2d_idem`, `tophat2d_shift`, `mor2d_le`, `mor2d_shift`, `imor2d_le` and the shape lemmas are proved for every rectangular matrix and every pair of half windows; the 2-D correspondence covers unequal windows, windows longer than an axis and thin shapes. Rubberband: theorems `lowerHull_cert_sound` (the interpolant through a certified mask is <= the data, touches it at the vertices, is convex), `lowerHull_greatest` / `lowerHull_unique` (it is THE greatest convex minorant, whatever collinear points the mask keeps), `lowerHull_shift`, `rubberband_segments_interp`; the real baseline is compared with the model\'s exact np.interp through the returned mask (bit-exact at the vertices, a derived ulp bound elsewhere), per segment, with weights, and on shifted data.',
 'C15': ' For every parameter that accepts two values: the classes with exactly one invalid entry at either position (tuple, list, array), and every out-of-domain scalar as numpy scalar, 0-d array and length-one sequence.',
 'C16': ' Route A table obligation `wrappers_match` over Gen/Wrappers (regenerated on every run): every public 1-D method has a module-level function that takes x_data and otherwise the same parameters, defaults and order (interp_pts being the documented exception to the order) — the premise of `classWrapper_forwards`. Histories of calls on one long-lived Baseline against the module-level function with x_data.',
 'C17': ' Histories of optimizer calls on one long-lived fitter (the wrapped method, the side and other options changing one at a time) against a fresh fitter. collab_pls: planner model of every call it makes (first pass, final fits, overridden keys per method family, averaging order, error order) with theorems `collab_kwargs`, `collab_calls_average_dataset`, `collab_calls_average_weights`, `collab_final_fit_kwargs`, `collab_errors`, `collab_reported_weights_are_used`, `collab_single_dataset`; the Lean plan is executed with the real wrapped method and the calls the real collab_pls makes are recorded and compared with the plan (count, data, keyword names in order, values bit-exact).',
 'C18': ' 2-D theorems: `pad2d_shape`, `pad2d_interior`, `pad2d_rows_are_1d` / `pad2d_cols_are_1d` / `pad2d_all_rows_are_1d` (the 2-D result is the 1-D model applied along each axis, in either order: `extrap2d_corner_orders_agree`), `extrap2d_planar_exact` and `extrap2d_planar_clamped` (every entry, corners included, for every window combination), `extrap2d_window_one(_sides)`, and the argument resolution of pad_edges2d (`pad2d_args_*`); correspondence over every argument form (scalar / pair / four values, nested windows, malformed), single-row and single-column data, and against compositions of the real 1-D pad_edges.',
 'C19': ' Magnitude invariance proved: `determineFits_affine_invariant`, `determineFits_congr`, `fillSkips_affine_invariant`, `kernel_affine_invariant`. loess, kernel and history cases also on exact dyadic images of the axis (2^-100 ... 2^99, offset windows). Theorems `strategies_equal_first`, `strategies_equal`, `strategies_equal_loop`, `strategies_equal_loess` (the two memory strategies end in the same state for every interpretation of the scalar operations and every solver, for every max_iter), `baseline_written_iff`, `kernel_den_pos`, `poly_reproduction` (under the numeric-layer hypothesis that the local solver satisfies its normal equations); the real kernels\' Python source is compared with the model bit-exactly on the kernel vectors and in exact rationals on two passes; histories of loess calls on ONE re-used fitter (delta, total_points, poly_order, budget and strategy changing from call to call) against a fresh fitter.',
 'C20': ' individual_axes: planner model with theorems `individualAxes_plan`, `individualAxes_kwargs_pairing`, `individualAxes_errors`, `individualAxes_shape`, `individualAxes_one_axis_coords`, `individualAxes_two_is_one_then_one`, `individualAxes_reorder`; the plan is executed with the real 1-D methods and compared fit by fit. The degrees of freedom reported in the eigenbasis (`return_dof`) are recomputed densely from the system\'s own eigenvectors for the RETURNED weights.',
}

checks = []
na = []
for p in props:
    pid = p['id']
    if pid in CLAIMED:
        c = CLAIMED[pid]
        checks.append({
            'property_id': pid,
            'quick_cmd': f'./check {pid} --tier quick',
            'thorough_cmd': f'./check {pid} --tier thorough',
            'evidence_file': f'evidence/{pid}.json',
            'replay_cmd_template': f'./check {pid} --replay {{path}}',
            'engine': 'lean4-proof+correspondence',
            'level_claimed': {'category': 'proof', 'text': c['text'] + EXTRA_TEXT.get(pid, ''), 'design_ref': c['design']},
            'level_note': c['note'],
            'technique': c['technique'],
        })
    else:
        na.append({'property_id': pid, 'reason': 'check not built yet in this revision (design in DESIGN.md section 4.' + pid + '); will be claimed once its Lean model, theorems and correspondence exist'})

manifest = {
 'version': 1,
 'setup_cmd': './check --setup',
 'hooks': {
   'guard': 'PYBASELINES_VERIF',
   'enable': 'no source hooks are needed: every capture point is installed from the harness by wrapping attributes of the imported modules (DESIGN.md section 7)',
   'baseline_off_cmd': 'cd /repo && /venv/bin/python -m pytest -ra -q -p no:cacheprovider --timeout=900 --continue-on-collection-errors',
   'source_commits': [],
   'add_only': True,
 },
 'engines': [{
   'name': 'lean4-proof+correspondence', 'path': 'check',
   'serves_properties': [c['property_id'] for c in checks],
   'kind_free_text': 'Lean 4.33 theorems about executable models (lean/PbVerif), tables regenerated from /repo by harness/pbv/translate.py, '
                     'and a differential correspondence between the compiled Lean model driver and the real code (harness/pbv)'}],
 'checks': checks,
 'not_applicable': na,
 'notes': 'See DESIGN.md. Fix commits in /repo are listed in known_findings.json.',
}
json.dump(manifest, open(os.path.join(HERE, 'MANIFEST.json'), 'w'), indent=1)
print('claimed', [c['property_id'] for c in checks])
