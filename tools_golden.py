#!/usr/bin/env python3
"""Derives golden/loop_budget.json (how many iterations max_iter allows per method) from the tree it is run on.
Run by hand on the UNCHANGED tree only; the file is committed and used as the documented budget by C01/C09."""
import json, os, sys, warnings
sys.path.insert(0, os.path.join(os.path.dirname(os.path.abspath(__file__)), 'harness'))
warnings.simplefilter('ignore')
import numpy as np
from pbv import methods as M, traj

out = {}
rng = np.random.default_rng(0)
for two_d in (False, True):
    for name, e in traj.iterative_methods(two_d).items():
        lens = {}
        for rep in range(3):
            if two_d:
                x, z, y = M.make_data2d(rng, 14, 11)
            else:
                x, y = M.make_data(rng, 60)
                z = None
            for m in (2, 3, 5):
                try:
                    b, p = traj.run_method(two_d, name, e, x, z, y, m, 0)
                    th = np.asarray(p['tol_history'])
                    if th.ndim == 1:
                        lens.setdefault(m, []).append(len(th))
                except Exception as ex:
                    pass
        if not lens:
            continue
        diffs = {max(v) - m for m, v in lens.items()}
        code = {1: 'N+1', 0: 'N', -1: 'N-1'}.get(max(diffs))
        out[('2d.' if two_d else '') + name] = code
        print(name, two_d, lens, code)
json.dump(out, open(os.path.join(os.path.dirname(os.path.abspath(__file__)), 'golden', 'loop_budget.json'), 'w'), indent=1, sort_keys=True)
