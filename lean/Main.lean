import PbVerif.Model.Proto
import PbVerif.Drv.C01
import PbVerif.Drv.C02
import PbVerif.Drv.C03
import PbVerif.Drv.C04
import PbVerif.Drv.C05
import PbVerif.Drv.C06
import PbVerif.Drv.C07
import PbVerif.Drv.C10
import PbVerif.Drv.C08
import PbVerif.Drv.C09
import PbVerif.Drv.C11
import PbVerif.Drv.C12
import PbVerif.Drv.C13
import PbVerif.Drv.C14
import PbVerif.Drv.C15
import PbVerif.Drv.C16
import PbVerif.Drv.C17
import PbVerif.Drv.C18
import PbVerif.Drv.C19
import PbVerif.Drv.C20
open PbVerif

def handlers : List (List String → Option String) := [Drv.C01.handle, Drv.C02.handle, Drv.C03.handle, Drv.C04.handle, Drv.C05.handle, Drv.C06.handle, Drv.C07.handle, Drv.C10.handle, Drv.C08.handle, Drv.C09.handle, Drv.C11.handle, Drv.C12.handle, Drv.C13.handle, Drv.C14.handle, Drv.C15.handle, Drv.C16.handle, Drv.C17.handle, Drv.C18.handle, Drv.C19.handle, Drv.C20.handle]

def step (line : String) : String :=
  let toks := line.trimAscii.toString.splitOn " "
  match toks with
  | ["ping"] => "pong"
  | _ => match handlers.findSome? (fun h => h toks) with
    | some r => r
    | none => "bad-op"

partial def loop (h : IO.FS.Stream) (out : IO.FS.Stream) : IO Unit := do
  let line ← h.getLine
  if line.isEmpty then return ()
  out.putStrLn (step line)
  loop h out

def main : IO Unit := do
  let out ← IO.getStdout
  loop (← IO.getStdin) out
