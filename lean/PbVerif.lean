import PbVerif.Model.Proto
