import PbVerif.Lemmas.Wrapper
import PbVerif.Gen.Wrappers
/-! C16 — equivalent ways of supplying the same inputs give the same result: the container- and
layout-independent part of the wrapper (the numerical core sees the canonical array in every case). -/
namespace PbVerif.C16
open PbVerif.Wrapper PbVerif.Lemmas PbVerif.Cache

theorem canon_shape_variants (n : Nat) (hn : 2 ≤ n) :
    canon1d [n] = some [n] ∧ canon1d [n, 1] = some [n] ∧ canon1d [1, n] = some [n] := canon1d_variants n hn
theorem canon_idem (s t : List Nat) (h : canon1d s = some t) : canon1d t = some t := canon1d_idem s t h
theorem canon2d_shape_variants (m n : Nat) (hm : 2 ≤ m) (hn : 2 ≤ n) :
    canon2d [m, n] = some [m, n] ∧ canon2d [m, n, 1] = some [m, n] ∧ canon2d [1, m, n] = some [m, n] ∧
    canon2d [m, 1, n] = some [m, n] := canon2d_variants m n hm hn
theorem canon_keeps_values (twoD : Bool) (a b : Arr) (h : canonArr twoD a = some b) : b.data = a.data := canonArr_data twoD a b h
theorem dtype_rule (d i : DType) : outDtype (some d) i = d ∧ outDtype none i = i := Lemmas.dtype_rule d i

/-- omitting x: after its first call an x-less object answers every later call exactly like an object
constructed with `linspace(-1, 1, N)` (which is strictly increasing, so unique) -/
theorem lazy_x_eq_given_linspace (twoD : Bool) (first : Call) (history : List Op) (probe : Call) :
    (callStep (run (init twoD none) (.call first :: history)) probe).2 =
      freshOutcome (run (init twoD none) (.call first :: history)) probe :=
  callStep_refines _ probe (coherent_run _ _ (coherent_init twoD none (fun _ _ => trivial)))
theorem linspace_strict (n i j : Nat) (hij : i < j) (hj : j < n) : (linspaceX n).getD i 0 < (linspaceX n).getD j 0 :=
  linspaceX_strict n i j hij hj
theorem linspace_ends (n : Nat) (hn : 2 ≤ n) : (linspaceX n).getD 0 0 = -1 ∧ (linspaceX n).getD (n - 1) 0 = 1 := linspaceX_ends n hn

/-- the module-level function forwards the same bound arguments for every positional/keyword split -/
theorem classWrapper_forwards (params : List String) (vals : List Rat) (k : Nat) (hp : params.Nodup) (hl : vals.length ≤ params.length) (hk : k ≤ vals.length) :
    forward params (vals.take k) (((params.zip vals).drop k)) = forward params vals [] := forward_split params vals k hp hl hk

/-- name lookup is case-insensitive and total on the registry -/
theorem getMethod_case (lower : String → String) (hl : ∀ s, lower (lower s) = lower s) (reg : List String) (name : String) :
    getMethod lower reg name = getMethod lower reg (lower name) := Lemmas.getMethod_case lower hl reg name
theorem getMethod_total (lower : String → String) (reg : List String) (name : String) (h : lower name ∈ reg) :
    getMethod lower reg name = some (lower name) := Lemmas.getMethod_total lower reg name h

example : forward ["data", "lam", "p", "x_data"] [5, 7] [("x_data", 3), ("p", 1)] = some (some 3, [("data", 5), ("lam", 7), ("p", 1)]) := by decide +kernel

/-! ### table obligation over the regenerated table of module-level functions (Route A, `Gen/Wrappers`)
`classWrapper_forwards` says that binding by NAME makes the positional / keyword split irrelevant — provided the function and
the method name their parameters alike. That premise is read from the imported package on every run. -/
/-- the one documented exception to the common ORDER: `interp_pts(x_data, baseline_points, …, data=None)` -/
def orderFree : List String := ["interp_pts"]

open PbVerif.Gen in
def wrapperOk (r : WrapperRow) : Bool :=
  r.hasFunction && r.hasXData && r.fnSorted == r.methSorted && (orderFree.contains r.name || r.fnParams == r.methParams) &&
  r.methParams.Nodup

open PbVerif.Gen in
/-- every public 1-D method has a module-level function taking `x_data` whose other parameters are the method's: the same names
with the same defaults, in the same order (so a positional call means the same for both) -/
theorem wrappers_match : wrappers.all wrapperOk = true ∧ wrappersTranslated = true ∧ 60 ≤ wrappers.length := by decide +kernel

end PbVerif.C16
