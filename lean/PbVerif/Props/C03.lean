import PbVerif.Lemmas.Cache
/-! C03 — a reused fitter object gives the same answers as a fresh one. Property theorems only. -/
namespace PbVerif.C03
open PbVerif.Cache PbVerif.Lemmas

theorem coherent_init (twoD : Bool) (given : Option (Nat × Bool)) : Coherent (init twoD given) :=
  Lemmas.coherent_init twoD given (fun _ _ => trivial)

theorem coherent_step (s : St) (o : Op) (h : Coherent s) : Coherent (step s o).1 := Lemmas.coherent_step s o h

/-- **Refinement.** For every object (1-D or 2-D, with or without x at construction), every finite
history of operations — polynomial orders going up and down, weighted and unweighted fits, fits
that only build the Vandermonde, spline bases, methods needing unique x, calls that raise (wrong
length, failing bodies, non-unique x), valid and invalid solver assignments — and every probe call:
the probe's outcome (returned/raised, and which cached matrices its result is computed from) is the
outcome of the same call on a fresh object with the same x-values. -/
theorem reuse_refines_fresh (twoD : Bool) (given : Option (Nat × Bool)) (history : List Op) (probe : Call) :
    (callStep (run (init twoD given) history) probe).2 = freshOutcome (run (init twoD given) history) probe :=
  callStep_refines _ probe (coherent_run _ history (Lemmas.coherent_init twoD given (fun _ _ => trivial)))

/-- the fresh outcome of a polynomial fit uses exactly the Vandermonde of the requested order and a
pseudo-inverse computed from it -/
theorem fresh_poly_outcome (n k : Nat) (u : Bool) :
    (callStep (init false (some (n, u))) ⟨n, false, .poly k false true⟩).2 = .ok (.poly (k + 1) (some (k + 1))) := by
  simp [callStep, init, body, recalc, getPinv]

/-- the x-values of an object never change once they exist -/
theorem x_fixed (s : St) (o : Op) (n : Nat) (u : Bool) (h : xOf s = some (n, u)) : xOf (step s o).1 = some (n, u) :=
  xOf_step s o n u h

/-- `polyvander` column-prefix law used for the sliced Vandermonde (order going down) -/
theorem vander_prefix (x : Rat) (k K : Nat) (h : k ≤ K) : (vanderRow x K).take (k + 1) = vanderRow x k :=
  vanderRow_prefix x k K h

/-- non-vacuity: order 6 → 3 → weighted 3 → 1 → 4, then probe order 2: same as fresh -/
example : (callStep (run (init false (some (50, true)))
      [.call ⟨50, false, .poly 6 false true⟩, .call ⟨50, false, .poly 3 false true⟩,
       .call ⟨50, false, .poly 3 true true⟩, .call ⟨49, false, .poly 9 false true⟩, .setSolver 7 false,
       .call ⟨50, false, .poly 1 false false⟩, .call ⟨50, true, .spline 10 3 false⟩, .call ⟨50, false, .spline 4 3 true⟩, .call ⟨50, false, .poly 4 false true⟩])
      ⟨50, false, .poly 2 false true⟩).2 = .ok (.poly 3 (some 3)) := by decide

end PbVerif.C03
