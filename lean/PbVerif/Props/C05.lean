import PbVerif.Lemmas.BSpline
namespace PbVerif.C05
end PbVerif.C05
