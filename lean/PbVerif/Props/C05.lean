import PbVerif.Lemmas.BSpline
import PbVerif.Lemmas.Loess
import PbVerif.Lemmas.Kernels
/-! C05 — no input makes the compiled kernels read or write outside their arrays.
Each theorem: under the precondition the Python callers establish, for ALL sizes and for ARBITRARY
outcomes of the floating-point comparisons (so NaN, unsorted or repeated values cannot matter),
every index the kernel uses is inside its array. -/
namespace PbVerif.C05
open PbVerif.BSpline PbVerif.Loess PbVerif.Kernels PbVerif.Lemmas

/-- `_find_interval`: `knots.size = num_bases + degree + 1`, `degree < num_bases` (i.e. `num_knots ≥ 2`):
every knot index read is `≤ num_bases < knots.size`, the result is in `[degree, num_bases)` -/
theorem findInterval_inb (lt ge : Nat → Bool) (deg lastLeft nb : Nat) (h : deg < nb) :
    deg ≤ (findIntervalT lt ge deg lastLeft nb).1 ∧ (findIntervalT lt ge deg lastLeft nb).1 < nb ∧
    ∀ i ∈ (findIntervalT lt ge deg lastLeft nb).2, i ≤ nb := findIntervalT_inb lt ge deg lastLeft nb h
/-- the loops of the model are the `while` loops: the fuel is sufficient -/
theorem findInterval_fuel_down (lt : Nat → Bool) (deg f left : Nat) (hl : deg ≤ left) (h : left - deg + 1 ≤ f) :
    down lt deg f left = down lt deg (left - deg + 1) left := down_fuel lt deg f left hl h
theorem findInterval_fuel_up (ge : Nat → Bool) (nb f left : Nat) (h : nb - left + 1 ≤ f) (hl : left ≤ nb) :
    up ge nb f left = up ge nb (nb - left + 1) left := up_fuel ge nb f left h hl

/-- `_de_boor`: knot reads in `[0, knots.size)`, work/temp indices `< 2·(degree+1)` -/
theorem deBoor_inb (deg left nb : Nat) (h1 : deg ≤ left) (h2 : left < nb) :
    (∀ i ∈ deBoorKnotReads deg left, 0 ≤ i ∧ i < ((nb + deg + 1 : Nat) : Int)) ∧
    (∀ i ∈ deBoorWorkTouch deg, i < 2 * (deg + 1)) :=
  ⟨deBoorKnotReads_inb deg left nb h1 h2, deBoorWorkTouch_inb deg⟩

/-- `__make_design_matrix`: every row is `degree+1` values in columns `left-degree … left < num_bases` -/
theorem designMatrix_inb (knots : List Rat) (deg : Nat) (xs : List Rat) (h : deg < knots.length - (deg + 1)) :
    RowsWf deg (knots.length - (deg + 1)) (designRows knots deg xs) ∧ (designRows knots deg xs).length = xs.length :=
  designRows_wf knots deg xs h

/-- `_numba_btb_bty`: writes to `ab : (degree+1) × num_bases` and `rhs : num_bases` stay inside -/
theorem btbBty_inb (deg left nb : Nat) (h1 : deg ≤ left) (h2 : left < nb) :
    (∀ p ∈ accRowAbWrites deg left, p.1 < deg + 1 ∧ 0 ≤ p.2 ∧ p.2 < (nb : Int)) ∧
    (∀ i ∈ accRowRhsWrites deg left, 0 ≤ i ∧ i < (nb : Int)) :=
  ⟨accRowAbWrites_inb deg left nb h1 h2, accRowRhsWrites_inb deg left nb h1 h2⟩

/-- `_determine_fits`, arbitrary comparison outcomes, `1 ≤ total_points ≤ N` (what `loess` checks):
all writes to `fits`, `windows`, `skips` are inside the length-N arrays … -/
theorem determineFits_inb (o : Oracle) (n tp : Nat) (check : Bool) (hn : 1 ≤ n) :
    (determineFits o n tp check).2.1.length ≤ n ∧ (determineFits o n tp check).1.length ≤ n ∧
    (determineFits o n tp check).2.2.length ≤ n ∧ ∀ f ∈ (determineFits o n tp check).2.1, f < n :=
  ⟨determineFits_count o n tp check hn, by rw [determineFits_lengths]; exact determineFits_count o n tp check hn,
   determineFits_skips_count o n tp check hn, determineFits_fits_lt o n tp check hn⟩
/-- … and every window it returns is exactly `total_points ≥ 1` indices inside `[0, N)`, so the slices
`x[left:right]`, `vander_fit[:, left:right]`, the row assignment `kernels[i] = kernel` and the scalar
reads `difference[0]`, `difference[-1]` of the three loess kernels are in bounds -/
theorem loessWindows_inb (o : Oracle) (n tp : Nat) (check : Bool) (hn : 1 ≤ n) (htp : 1 ≤ tp) (htpn : tp ≤ n) :
    ∀ w ∈ (determineFits o n tp check).1, 0 ≤ w.1 ∧ w.2 ≤ (n : Int) ∧ w.2 - w.1 = (tp : Int) :=
  determineFits_windows_inb o n tp check hn htp htpn
/-- `_fill_skips` / `_interp_inplace`: every skip range is a non-empty slice inside the data, so `x[0]`,
`x[-1]` of the slice exist -/
theorem fillSkips_inb (o : Oracle) (n tp : Nat) (check : Bool) (hn : 1 ≤ n) :
    ∀ s ∈ (determineFits o n tp check).2.2, s.1 + 2 < s.2 + 1 ∧ s.2 ≤ n := determineFits_skips_inb o n tp check hn

/-- `_directional_min_moving_avg` (peak_filling): any `half_window ≥ 0`, `data_len ≥ 1` -/
theorem dirMinMovingAvg_inb (dataLen hw : Nat) (h : 1 ≤ dataLen) :
    ∀ i ∈ dirMinMovAvgIdx dataLen hw, 0 ≤ i ∧ i < (dataLen : Int) := dirMinMovAvg_inb dataLen hw h
/-- `_rolling_std` on data padded by `half_window` on both sides (std_distribution, fastchrom) -/
theorem rollingStd_inb (n hw : Nat) (h : 1 ≤ n) :
    (∀ i ∈ rollingStdDataIdx (n + 2 * hw) hw, 0 ≤ i ∧ i < ((n + 2 * hw : Nat) : Int)) ∧
    (∀ i ∈ rollingStdSqIdx (n + 2 * hw) hw, 0 ≤ i ∧ i < ((n + 2 * hw : Nat) : Int)) :=
  ⟨rollingStdData_inb n hw h, rollingStdSq_inb n hw h⟩

/-- non-vacuity: the repaired `total_points = N` corner and a NaN-like oracle (every comparison false) -/
example : (determineFits ⟨fun _ _ => true, fun _ _ _ => false, false⟩ 3 3 true).1 = [(0, 3), (0, 3), (0, 3)] := by decide
example : (findIntervalT (fun _ => false) (fun _ => false) 3 9 6).2 = [3, 4] := by decide

end PbVerif.C05
