import PbVerif.Lemmas.BSpline
import PbVerif.Lemmas.Loess
import PbVerif.Lemmas.Kernels
import PbVerif.Lemmas.Kernels2
import PbVerif.Lemmas.Kernels3
/-! C05 — no input makes the compiled kernels read or write outside their arrays.
Each theorem: under the precondition the Python callers establish, for ALL sizes and for ARBITRARY
outcomes of the floating-point comparisons (so NaN, unsorted or repeated values cannot matter),
every index the kernel uses is inside its array. -/
namespace PbVerif.C05
open PbVerif.BSpline PbVerif.Loess PbVerif.Kernels PbVerif.Lemmas

/-- `_find_interval`: `knots.size = num_bases + degree + 1`, `degree < num_bases` (i.e. `num_knots ≥ 2`):
every knot index read is `≤ num_bases < knots.size`, the result is in `[degree, num_bases)` -/
theorem findInterval_inb (lt ge : Nat → Bool) (deg lastLeft nb : Nat) (h : deg < nb) :
    deg ≤ (findIntervalT lt ge deg lastLeft nb).1 ∧ (findIntervalT lt ge deg lastLeft nb).1 < nb ∧
    ∀ i ∈ (findIntervalT lt ge deg lastLeft nb).2, i ≤ nb := findIntervalT_inb lt ge deg lastLeft nb h
/-- the loops of the model are the `while` loops: the fuel is sufficient -/
theorem findInterval_fuel_down (lt : Nat → Bool) (deg f left : Nat) (hl : deg ≤ left) (h : left - deg + 1 ≤ f) :
    down lt deg f left = down lt deg (left - deg + 1) left := down_fuel lt deg f left hl h
theorem findInterval_fuel_up (ge : Nat → Bool) (nb f left : Nat) (h : nb - left + 1 ≤ f) (hl : left ≤ nb) :
    up ge nb f left = up ge nb (nb - left + 1) left := up_fuel ge nb f left h hl

/-- `_de_boor`: knot reads in `[0, knots.size)`, work/temp indices `< 2·(degree+1)` -/
theorem deBoor_inb (deg left nb : Nat) (h1 : deg ≤ left) (h2 : left < nb) :
    (∀ i ∈ deBoorKnotReads deg left, 0 ≤ i ∧ i < ((nb + deg + 1 : Nat) : Int)) ∧
    (∀ i ∈ deBoorWorkTouch deg, i < 2 * (deg + 1)) :=
  ⟨deBoorKnotReads_inb deg left nb h1 h2, deBoorWorkTouch_inb deg⟩

/-- `__make_design_matrix`: every row is `degree+1` values in columns `left-degree … left < num_bases` -/
theorem designMatrix_inb (knots : List Rat) (deg : Nat) (xs : List Rat) (h : deg < knots.length - (deg + 1)) :
    RowsWf deg (knots.length - (deg + 1)) (designRows knots deg xs) ∧ (designRows knots deg xs).length = xs.length :=
  designRows_wf knots deg xs h

/-- `_numba_btb_bty`: writes to `ab : (degree+1) × num_bases` and `rhs : num_bases` stay inside -/
theorem btbBty_inb (deg left nb : Nat) (h1 : deg ≤ left) (h2 : left < nb) :
    (∀ p ∈ accRowAbWrites deg left, p.1 < deg + 1 ∧ 0 ≤ p.2 ∧ p.2 < (nb : Int)) ∧
    (∀ i ∈ accRowRhsWrites deg left, 0 ≤ i ∧ i < (nb : Int)) :=
  ⟨accRowAbWrites_inb deg left nb h1 h2, accRowRhsWrites_inb deg left nb h1 h2⟩

/-- `_determine_fits`, arbitrary comparison outcomes, `1 ≤ total_points ≤ N` (what `loess` checks):
all writes to `fits`, `windows`, `skips` are inside the length-N arrays … -/
theorem determineFits_inb (o : Oracle) (n tp : Nat) (check : Bool) (hn : 1 ≤ n) :
    (determineFits o n tp check).2.1.length ≤ n ∧ (determineFits o n tp check).1.length ≤ n ∧
    (determineFits o n tp check).2.2.length ≤ n ∧ ∀ f ∈ (determineFits o n tp check).2.1, f < n :=
  ⟨determineFits_count o n tp check hn, by rw [determineFits_lengths]; exact determineFits_count o n tp check hn,
   determineFits_skips_count o n tp check hn, determineFits_fits_lt o n tp check hn⟩
/-- … and every window it returns is exactly `total_points ≥ 1` indices inside `[0, N)`, so the slices
`x[left:right]`, `vander_fit[:, left:right]`, the row assignment `kernels[i] = kernel` and the scalar
reads `difference[0]`, `difference[-1]` of the three loess kernels are in bounds -/
theorem loessWindows_inb (o : Oracle) (n tp : Nat) (check : Bool) (hn : 1 ≤ n) (htp : 1 ≤ tp) (htpn : tp ≤ n) :
    ∀ w ∈ (determineFits o n tp check).1, 0 ≤ w.1 ∧ w.2 ≤ (n : Int) ∧ w.2 - w.1 = (tp : Int) :=
  determineFits_windows_inb o n tp check hn htp htpn
/-- `_fill_skips` / `_interp_inplace`: every skip range is a non-empty slice inside the data, so `x[0]`,
`x[-1]` of the slice exist -/
theorem fillSkips_inb (o : Oracle) (n tp : Nat) (check : Bool) (hn : 1 ≤ n) :
    ∀ s ∈ (determineFits o n tp check).2.2, s.1 + 2 < s.2 + 1 ∧ s.2 ≤ n := determineFits_skips_inb o n tp check hn

/-- `_directional_min_moving_avg` (peak_filling): any `half_window ≥ 0`, `data_len ≥ 1` -/
theorem dirMinMovingAvg_inb (dataLen hw : Nat) (h : 1 ≤ dataLen) :
    ∀ i ∈ dirMinMovAvgIdx dataLen hw, 0 ≤ i ∧ i < (dataLen : Int) := dirMinMovAvg_inb dataLen hw h
/-- `_rolling_std` on data padded by `half_window` on both sides (std_distribution, fastchrom) -/
theorem rollingStd_inb (n hw : Nat) (h : 1 ≤ n) :
    (∀ i ∈ rollingStdDataIdx (n + 2 * hw) hw, 0 ≤ i ∧ i < ((n + 2 * hw : Nat) : Int)) ∧
    (∀ i ∈ rollingStdSqIdx (n + 2 * hw) hw, 0 ≤ i ∧ i < ((n + 2 * hw : Nat) : Int)) :=
  ⟨rollingStdData_inb n hw h, rollingStdSq_inb n hw h⟩

/-- non-vacuity: the repaired `total_points = N` corner and a NaN-like oracle (every comparison false) -/
example : (determineFits ⟨fun _ _ => true, fun _ _ _ => false, false⟩ 3 3 true).1 = [(0, 3), (0, 3), (0, 3)] := by decide
example : (findIntervalT (fun _ => false) (fun _ => false) 3 9 6).2 = [3, 4] := by decide

/-! ## the remaining kernels and the caller lemmas -/

/-- `_numba_banded_dot_banded` (misc.py): under the shapes the wrapper allocates (`BandPre`), every `(row, column)`
used on `a`, `b` and `c` is non-negative and inside the array — all band counts, all `N`, symmetric or full output.
In particular `row_c = c_upper + o_c` is never negative although `o_c` starts at `-(a_upper + b_upper)` and
`c_upper = min(a_upper + b_upper, N - 1)`: the diagonals beyond the matrix have an empty `frame` range. -/
theorem bandedDotBanded_inb (rowsA colsA rowsB colsB rowsC colsC al au bl bu : Nat) (cu : Int) (n lb : Nat)
    (h : BandPre rowsA colsA rowsB colsB rowsC colsC al au bl bu cu n lb) :
    ∀ t ∈ bandDotIdx al au bl bu cu n lb, t.InB rowsA colsA rowsB colsB rowsC colsC :=
  bandDotIdx_inb rowsA colsA rowsB colsB rowsC colsC al au bl bu cu n lb h
example : (bandDotIdx 1 1 1 1 2 3 0).length = 12 ∧ BandPre 3 3 3 3 5 3 1 1 1 1 2 3 0 ∧
    (⟨2, 0, 0, 1, 2, 1⟩ : BandAcc) ∈ bandDotIdx 1 1 1 1 2 3 0 := by decide
/-- caller lemma: `_banded_dot_banded` establishes `BandPre` for band arrays of `lower + upper + 1` rows, `N ≥ 1`
columns and full shapes `(N, N)` -/
theorem pre_bandedDotBanded_of_guards (al au bl bu n : Nat) (sym : Bool) (hn : 1 ≤ n) :
    BandPre (al + au + 1) n (bl + bu + 1) n (bdbRows al au bl bu n n).toNat n al au bl bu
      (bdbArgs al au bl bu n n sym).1 n (bdbArgs al au bl bu n n sym).2.2 :=
  pre_bandedDotBanded_of_wrapper al au bl bu n sym hn
/-- caller lemma: the three `_banded_dot_banded` calls of `_banded_beads`; the nested call needs
`num_y ≥ 4·filter_type + 1`, which SciPy's `gbmv` wrapper has enforced before the loop is entered -/
theorem pre_bandedDotBanded_of_beads_guards (ft n : Nat) (hft : 1 ≤ ft) :
    (1 ≤ n → BandPre (2 * ft + 1) n (2 * ft + 1) n (bdbRows ft ft ft ft n n).toNat n ft ft ft ft
        (bdbArgs ft ft ft ft n n true).1 n (bdbArgs ft ft ft ft n n true).2.2) ∧
    (4 * ft + 1 ≤ n →
      BandPre (2 * ft + 1) n 5 n (bdbRows ft ft 2 2 n n).toNat n ft ft 2 2
        (bdbArgs ft ft 2 2 n n false).1 n (bdbArgs ft ft 2 2 n n false).2.2 ∧
      BandPre (bdbRows ft ft 2 2 n n).toNat n (2 * ft + 1) n (bdbRows (ft + 2) (ft + 2) ft ft n n).toNat n
        (ft + 2) (ft + 2) ft ft
        (bdbArgs (ft + 2) (ft + 2) ft ft n n true).1 n (bdbArgs (ft + 2) (ft + 2) ft ft n n true).2.2) :=
  pre_bandedDotBanded_of_beads ft n hft
/-- … and that guard is needed: with `num_y = 3`, `filter_type = 1` the nested call would hand a 5-row array as a
`(3, 3)`-banded matrix (7 rows) -/
example : ¬ BandPre (bdbRows 1 1 2 2 3 3).toNat 3 3 3
    (bdbRows 3 3 1 1 3 3).toNat 3 3 3 1 1 (bdbArgs 3 3 1 1 3 3 true).1 3 (bdbArgs 3 3 1 1 3 3 true).2.2 :=
  beads_third_call_needs_guard

/-- `_quadratic_bezier_spline` (and `_quadratic_bezier`, whose three reads `y_points[0..2]` are of a 3-element list):
control indices inside `x` and non-decreasing ⇒ every scalar index on `x`, `y`, `indices` is inside its array, no
slice is clipped (so `output[lo:hi] = f(x[lo:hi])` has matching lengths), and every `argmin` sees a non-empty slice —
for EVERY outcome of `argmin` and of the `right_x - left_x == 0` test, every number of control points, every `N` -/
theorem bezierSpline_inb {N ny : Nat} {ix : List Int} (h : BezPre N ix) (am : Nat → Nat) (eq : Nat → Bool) :
    ∀ e ∈ bezierTrace N ny ix am eq, e.Ok N ny ix.length := bezierTrace_ok h am eq
/-- `_quadratic_bezier(y_points, t)`: both call sites pass the 3-element list `[left_y, center_y, right_y]` -/
theorem quadraticBezier_inb : ∀ i ∈ quadBezierIdx, 0 ≤ i ∧ i < (([0, 0, 0] : List Rat).length : Int) := by decide
/-- the precondition is decidable as stated (what the harness' pre-monitor evaluates) -/
theorem bezPre_decidable (N : Nat) (ix : List Int) : bezPreB N ix = true ↔ BezPre N ix := bezPreB_iff N ix
example : bezPreB 8 [0, 2, 4, 5, 7] = true ∧
    bezierTrace 8 8 [0, 2, 4, 5, 7] (fun k => [1, 0, 9].getD k 0) (fun _ => false) =
      [.ix 1, .ix 2, .ix 0, .x 0, .x 2, .am 2 5, .x 4, .x 3, .ix 0, .y 0, .y 2, .y 4, .x 4, .xs 0 5, .os 0 5,
       .ix 3, .x 4, .am 4 6, .x 5, .x 4, .y 4, .y 5, .x 5, .xs 3 5, .os 3 5,
       .ix (-2), .y 5, .ix (-1), .y 7, .xs 4 8, .ix (-1), .x 7, .os 4 8] := by decide
/-- the hypothesis matters: with decreasing control indices `np.argmin` gets an empty slice -/
example : bezPreB 8 [0, 5, 3, 7] = false ∧
    ¬ (∀ e ∈ bezierTrace 8 8 [0, 5, 3, 7] (fun _ => 0) (fun _ => false), e.Ok 8 8 4) := by decide
/-- caller lemma, `corner_cutting`: `indices = np.flatnonzero(mask)` for a mask with one entry per data point -/
theorem pre_bezierSpline_of_guards (mask : List Bool) : BezPre mask.length (flatnonzero mask) :=
  pre_bezierSpline_of_flatnonzero mask
example : flatnonzero [true, false, true, true, false, true] = [0, 2, 3, 5] := by decide

/-- `_interp_inplace(x, y, …)` with `len(x) = len(y) ≥ 1`: `x[0]`, `x[-1]` exist, the slice assignment
`y[1:-1] = f(x[1:-1])` has matching lengths -/
theorem interpInplace_inb (nx ny : Nat) (h1 : 1 ≤ nx) (hxy : nx = ny) :
    (∀ i ∈ interpScalarIdx, -(nx : Int) ≤ i ∧ i < nx) ∧ (interpSliceLens nx ny).1 = (interpSliceLens nx ny).2 :=
  interpInplace_inb' nx ny h1 hxy
example : interpSliceLens 5 5 = (3, 3) ∧ interpSliceLens 1 1 = (0, 0) ∧ interpSliceLens 5 4 = (2, 3) := by decide
/-- caller lemma, `_fill_skips`: each skip range of `_determine_fits` gives in-range scalar reads of `baseline` and two
equally long slices of ≥ 2 points for `_interp_inplace` (which therefore satisfies `interpInplace_inb`'s hypotheses) -/
theorem pre_interpInplace_of_guards (o : Oracle) (n tp : Nat) (check : Bool) (hn : 1 ≤ n) :
    ∀ s ∈ (determineFits o n tp check).2.2,
      (∀ i ∈ (fillSkipsCall n n (s.1 : Int) (s.2 : Int)).1, 0 ≤ i ∧ i < (n : Int)) ∧
      (fillSkipsCall n n (s.1 : Int) (s.2 : Int)).2.1 = (fillSkipsCall n n (s.1 : Int) (s.2 : Int)).2.2 ∧
      2 ≤ (fillSkipsCall n n (s.1 : Int) (s.2 : Int)).2.1 := pre_interpInplace_of_fillSkips' o n tp check hn
example : fillSkipsCall 9 9 2 6 = ([2, 5], 4, 4) := by decide
/-- caller lemma, the other caller of `_interp_inplace` — `_averaged_interp` with `_find_peak_segments` (golotvin, dietrich,
std_distribution, fastchrom, cwt_br, fabc, rubberband): for EVERY Boolean mask the `(start, end)` pairs satisfy
`0 ≤ start ≤ end ≤ N - 1`, so `x[start:end+1]` and `output[start:end+1]` are unclipped, equally long and non-empty -/
theorem pre_interpInplace_of_averagedInterp (mask : List Bool) :
    ∀ p ∈ averagedInterpCalls mask, 0 ≤ p.1 ∧ p.1 ≤ p.2 ∧ p.2 < (mask.length : Int) ∧
      1 ≤ sliceLen p.1 (p.2 + 1) mask.length ∧ ((sliceLen p.1 (p.2 + 1) mask.length : Nat) : Int) = p.2 + 1 - p.1 := by
  intro p hp
  have h1 := averagedInterp_calls_inb mask p hp
  have h2 := pre_interpInplace_of_averagedInterp' mask p hp
  exact ⟨h1.1, h1.2.1, h1.2.2, h2.2.1, h2.2.2⟩
example : averagedInterpCalls [false, false, true, false, true, true, false] = [(0, 2), (2, 4), (5, 6)] ∧
    averagedInterpCalls [false, false] = [(0, 1)] ∧ averagedInterpCalls [true, true] = [] := by decide

/-- `_loess_solver(AT, b)`: with `AT : m × w` and `len(b) = w` both products are conformable, every element read by
them is inside its array, and `np.linalg.solve` gets an `m × m` system -/
theorem loessSolver_inb (m w wb : Nat) (h : w = wb) :
    loessSolverShape m w wb = some m ∧ (∀ p ∈ (loessSolverIdx m w).1, p.1 < m ∧ p.2 < w) ∧
    ∀ k ∈ (loessSolverIdx m w).2, k < wb := loessSolver_inb' m w wb h
example : loessSolverShape 2 3 3 = some 2 ∧ loessSolverShape 2 3 4 = none ∧ (loessSolverIdx 2 3).2 = [0, 1, 2, 0, 1, 2] := by decide
/-- caller lemma for `_loess_solver` and the scalar indices of `_loess_low_memory` / `_loess_first_loop` /
`_loess_nonfirst_loops`: a window of exactly `total_points ≥ 1` indices inside `[0, N)` (`loessWindows_inb`) and a fit
index in `[0, N)` (`determineFits_inb`) give slices of `total_points` elements, a kernel row of that length,
conformable solver arguments, and `difference[0]`, `difference[-1]`, `x[i]`, `vander[i]`, `coefs[i]`, `kernels[i]` in range -/
theorem pre_loessSolver_of_guards (N po tp : Nat) (cached : Bool) (i left right : Int)
    (hl : 0 ≤ left) (hr : right ≤ N) (hw : right - left = tp) (htp : 1 ≤ tp) (hi : 0 ≤ i ∧ i < N) :
    (loessIter N po tp cached i left right).wlen = tp ∧
    (loessIter N po tp cached i left right).kernelLen = tp ∧
    (loessIter N po tp cached i left right).solver = some (po + 1) ∧
    (∀ d ∈ (loessIter N po tp cached i left right).diffIdx, -(tp : Int) ≤ d ∧ d < tp) ∧
    0 ≤ (loessIter N po tp cached i left right).rowIdx ∧ (loessIter N po tp cached i left right).rowIdx < N :=
  pre_loessSolver_of_window' N po tp cached i left right hl hr hw htp hi
/-- the repaired corner: the window `(-1, N-1)` (before fix dc14c47) gives a clipped, EMPTY slice — `difference[0]` out of bounds -/
example : (loessIter 3 1 3 false 1 0 3).solver = some 2 ∧ (loessIter 3 1 3 false 1 (-1) 2).wlen = 0 := by decide
/-- caller lemma, `loess`: the `raise` guards give `1 ≤ total_points ≤ N` -/
theorem pre_loess_of_guards (N : Nat) (tp po : Int) (h : loessGuards N tp po = true) :
    1 ≤ tp ∧ tp ≤ N ∧ 1 ≤ N ∧ ((tp.toNat : Nat) : Int) = tp := pre_loess_of_guards' N tp po h
example : loessGuards 5 5 2 = true ∧ loessGuards 5 6 2 = false ∧ loessGuards 5 0 (-1) = false ∧ loessGuards 5 2 2 = false := by decide

/-- caller lemma, P-spline family: `num_knots ≥ 2` ⇒ `degree < num_bases`, `knots.size = num_bases + degree + 1` — the
hypotheses of `findInterval_inb`, `deBoor_inb`, `designMatrix_inb`, `btbBty_inb` -/
theorem pre_spline_of_guards (a b : Rat) (nk deg : Nat) (h : 2 ≤ nk) :
    deg < (splineKnots a b nk deg).length - (deg + 1) ∧
    (splineKnots a b nk deg).length = ((splineKnots a b nk deg).length - (deg + 1)) + deg + 1 ∧
    (splineKnots a b nk deg).length - (deg + 1) = nk + deg - 1 := pre_spline_of_guards' a b nk deg h
example : (splineKnots 0 1 2 3).length = 8 := by decide
/-- caller lemma, `peak_filling` (scalar `sections`; array-valued `sections` never reach the compiled kernel):
`1 ≤ data_len ≤ len(y_truncated)`, half window `≥ 0`, hence all indices inside `y_truncated` for every later half window too -/
theorem pre_dirMinMovingAvg_of_guards (sections : Int) (lp rp : Nat) (halfWin : Int)
    (hs : 1 ≤ sections) (hh : 1 ≤ halfWin) :
    1 ≤ (peakFillingArgs sections lp rp halfWin).2.1 ∧
    (peakFillingArgs sections lp rp halfWin).2.1 ≤ (peakFillingArgs sections lp rp halfWin).1 ∧
    0 ≤ (peakFillingArgs sections lp rp halfWin).2.2 ∧
    ∀ hw : Nat, ∀ i ∈ dirMinMovAvgIdx (peakFillingArgs sections lp rp halfWin).2.1.toNat hw,
      0 ≤ i ∧ i < (peakFillingArgs sections lp rp halfWin).1 :=
  pre_dirMinMovingAvg_of_guards' sections lp rp halfWin hs hh
example : peakFillingArgs 2 1 1 7 = (4, 2, 0) ∧ peakFillingArgs 9 0 1 3 = (10, 9, 3) := by decide
/-- caller lemma, `_padded_rolling_std` (std_distribution, fastchrom): a successful `np.pad(data, half_window, 'reflect')`
hands `_rolling_std` `N + 2·half_window` points, `N ≥ 1`, `half_window ≥ 0`: all its indices are inside -/
theorem pre_rollingStd_of_guards (n : Nat) (hw L : Int) (h : paddedLen n hw = some L) :
    0 ≤ hw ∧ 1 ≤ n ∧ L = ((n + 2 * hw.toNat : Nat) : Int) ∧
    (∀ i ∈ rollingStdDataIdx (n + 2 * hw.toNat) hw.toNat, 0 ≤ i ∧ i < L) ∧
    (∀ i ∈ rollingStdSqIdx (n + 2 * hw.toNat) hw.toNat, 0 ≤ i ∧ i < L) := pre_rollingStd_of_guards' n hw L h
example : paddedLen 4 3 = some 10 ∧ paddedLen 4 (-1) = none ∧ paddedLen 0 2 = none := by decide

end PbVerif.C05
