import PbVerif.Lemmas.Kron
import PbVerif.Lemmas.Axes
/-! C20 — 2-D eigendecomposition and array algebra agree with the full 2-D system. -/
namespace PbVerif.C20
open PbVerif.Kron PbVerif.Lemmas

theorem makeBtwb_eq_kron (Br Bc W : Mat) (a b : Nat) (hr : Rect Br a) (hc : Rect Bc b) (ha : 0 < Br.length) (hb : 0 < Bc.length)
    (r c : Nat) (hr' : r < a * b) (hc' : c < a * b) :
    makeBtwb Br Bc W r c = kronBtwb Br Bc W r c := Lemmas.makeBtwb_eq_kron Br Bc W a b hr hc ha hb r c hr' hc'
theorem rhs_eq_kron (Br Bc WY : Mat) (r : Nat) : rhsCode Br Bc WY r = kronRhs Br Bc WY r := Lemmas.rhs_eq_kron Br Bc WY r
theorem reconstruct_eq_kron (Br Bc : Mat) (coef : List Rat) (m n : Nat) (hb : 0 < Bc.ncols) :
    reconstruct Br Bc coef m n = kronApply Br Bc coef m n := Lemmas.reconstruct_eq_kron Br Bc coef m n hb
theorem eig_penalty_diag (lamr lamc : Rat) (er ec : List Rat) (i k : Nat) (hi : i < er.length) (hk : k < ec.length) :
    eigPenalty lamr lamc er ec (i * ec.length + k) = lamr * er.getD i 0 + lamc * ec.getD k 0 :=
  eigPenalty_entry lamr lamc er ec i k hi hk

open Matrix in
theorem truncated_is_galerkin {N K : Type} [Fintype N] [Fintype K] [DecidableEq N] [DecidableEq K]
    (B : Matrix N K ℚ) (W P : Matrix N N ℚ) (L : Matrix K K ℚ) (y : N → ℚ) (c : K → ℚ)
    (hL : Bᵀ * P * B = L) (hc : (Bᵀ * W * B + L).mulVec c = Bᵀ.mulVec (W.mulVec y)) :
    Bᵀ.mulVec (W.mulVec (y - B.mulVec c) - P.mulVec (B.mulVec c)) = 0 := Lemmas.truncated_is_galerkin B W P L y c hL hc
open Matrix in
theorem full_eigen_eq_direct {N : Type} [Fintype N] [DecidableEq N]
    (B : Matrix N N ℚ) (W P : Matrix N N ℚ) (y v : N → ℚ) (hB : B * Bᵀ = 1)
    (hg : Bᵀ.mulVec (W.mulVec (y - v) - P.mulVec v) = 0) :
    (W + P).mulVec v = W.mulVec y := Lemmas.full_eigen_eq_direct B W P y v hB hg

example : makeBtwb [[1, 2], [3, 4]] [[1, 0, 2], [0, 1, 1]] [[1, 2], [3, 4]] 4 2 = kronBtwb [[1, 2], [3, 4]] [[1, 0, 2], [0, 1, 1]] [[1, 2], [3, 4]] 4 2
    ∧ kronBtwb [[1, 2], [3, 4]] [[1, 0, 2], [0, 1, 1]] [[1, 2], [3, 4]] 4 2 = 52 := by decide +kernel


/-! ### `Baseline2D.individual_axes` (`two_d/optimizers.py:_Optimizers.individual_axes`): the plan and its meaning
for an arbitrary 1-D method `fit : coordinates → kwargs → data → baseline` -/
section individual_axes
open PbVerif.Axes

/-- individualAxes_plan: for valid `axes` and `method_kwargs`, step i works along `axes[i]`, its 1-D fitter gets
`(x, z)[axes[i]]` (the caller's vectors), its keyword arguments are `method_kwargs[i]` after the pairing, and its
results are stored under 'rows' (axis 0) / 'columns' (axis 1).  `AxisOk`: the axes are the documented 0 / 1 (the code
does not check this: 2 raises IndexError at `(x, z)[axis]`, negative values wrap around) -/
theorem individualAxes_plan {α : Type} (empty : α) (axes : AxesArg) (_hok : AxisOk axes) (kw : KwArg α) (ax : List Nat) (kws : List α)
    (ha : normAxes axes = .ok ax) (hk : pairKwargs empty ax.length kw = .ok kws) (i : Nat) (hi : i < ax.length) :
    ∃ steps, individualAxesPlan empty axes kw = .ok steps ∧ steps.length = ax.length ∧
      ∃ hs : i < steps.length, steps[i].axis = ax[i] ∧ steps[i].coord = coordOf ax[i] ∧ steps[i].key = keyOf ax[i] ∧
        steps[i].kw = kws[i]'(by rw [pairKwargs_length empty _ kw kws hk]; exact hi) :=
  plan_step empty axes kw ax kws ha hk i hi

/-- how `method_kwargs` is paired with the axes: `None`, an empty sequence → `{}` for every axis; one dict or a
sequence of one dict → that dict for every axis; a longer sequence must have one dict per axis (used by position),
otherwise ValueError -/
theorem individualAxes_kwargs_pairing {α : Type} (empty : α) (num : Nat) :
    pairKwargs empty num .none = .ok (List.replicate num empty) ∧
    (∀ d, pairKwargs empty num (.dict d) = .ok (List.replicate num d)) ∧
    pairKwargs empty num (.seq []) = .ok (List.replicate num empty) ∧
    (∀ d, pairKwargs empty num (.seq [d]) = .ok (List.replicate num d)) ∧
    (∀ l : List α, 2 ≤ l.length → l.length = num → pairKwargs empty num (.seq l) = .ok l) ∧
    (∀ l : List α, 2 ≤ l.length → l.length ≠ num → pairKwargs empty num (.seq l) = .error .valueError) :=
  pairKwargs_spec empty num

example : AxisOk (.two 1 0) ∧ AxisOk (.one 1) := by simp [AxisOk]
/-- the same axis twice is rejected whatever `method_kwargs` is; a scalar axis with two dicts is rejected -/
theorem individualAxes_errors {α : Type} (empty : α) (a : Nat) (kw : KwArg α) (d0 d1 : α) :
    individualAxesPlan empty (.two a a) kw = .error .valueError ∧
    individualAxesPlan empty (.one a) (.seq [d0, d1]) = .error .valueError := by
  constructor <;> simp [individualAxesPlan, normAxes, pairKwargs]

/-- shape preservation: for a 1-D method that returns as many points as it gets, the baseline and every partial
baseline have the shape (M, N) of the data -/
theorem individualAxes_shape {α : Type} (fit : Fit1 α) (hf : LenPres1 fit) (empty : α) (x z : List Rat) (data : Axes.Mat) (m n : Nat)
    (hD : RectMN data m n) (hm : 0 < m) (hn : 0 < n) (axes : AxesArg) (_hok : AxisOk axes) (kw : KwArg α) (out : Axes.Mat × List (String × Axes.Mat))
    (h : individualAxes fit empty x z data axes kw = .ok out) :
    RectMN out.1 m n ∧ ∀ kp ∈ out.2, RectMN kp.2 m n := by
  unfold individualAxes at h
  cases hp : individualAxesPlan empty axes kw with
  | error e => simp [hp] at h
  | ok steps =>
    simp only [hp, Except.ok.injEq] at h
    rw [← h]
    exact runSteps_shape fit hf x z data m n hD hm hn steps

/-- `axes=a` (one axis) uses only that axis' coordinates: the other vector may be anything -/
theorem individualAxes_one_axis_coords {α : Type} (fit : Fit1 α) (empty : α) (x z x' z' : List Rat) (data : Axes.Mat) (a : Nat) (_ha : a ≤ 1)
    (kw : KwArg α) (h : if a = 0 then x = x' else z = z') :
    individualAxes fit empty x z data (.one a) kw = individualAxes fit empty x' z' data (.one a) kw :=
  one_axis_coord fit empty x z x' z' data a kw h

/-- `axes=(a, b)` with kwargs `[k0, k1]` is `axes=a` with `k0` on the data followed by `axes=b` with `k1` on the data
minus the first baseline: the baselines add up and the partial baselines are those of the two single-axis calls -/
theorem individualAxes_two_is_one_then_one {α : Type} (fit : Fit1 α) (hf : LenPres1 fit) (empty : α) (x z : List Rat) (data : Axes.Mat)
    (m n : Nat) (hD : RectMN data m n) (hm : 0 < m) (hn : 0 < n) (a b : Nat) (_ha : a ≤ 1) (_hb : b ≤ 1) (hab : a ≠ b) (k0 k1 : α) :
    ∃ (B0 B1 : Axes.Mat) (P0 P1 : List (String × Axes.Mat)),
      individualAxes fit empty x z data (.one a) (.dict k0) = .ok (B0, P0) ∧
      individualAxes fit empty x z (sub data B0) (.one b) (.dict k1) = .ok (B1, P1) ∧
      individualAxes fit empty x z data (.two a b) (.seq [k0, k1]) = .ok (add B0 B1, P0 ++ P1) :=
  two_eq_one_then_one fit hf empty x z data m n hD hm hn a b hab k0 k1

/-- giving x, z and the data in another order (rows taken in the order `p`, columns in the order `s`) re-orders the
baseline and every partial baseline the same way, provided the 1-D method itself commutes with re-ordering its
coordinates and data together (C02) -/
theorem individualAxes_reorder {α : Type} (fit : Fit1 α) (hf : LenPres1 fit) (empty : α) (x z : List Rat) (data : Axes.Mat) (m n : Nat)
    (hD : RectMN data m n) (hm : 0 < m) (hn : 0 < n) (p s : List Nat) (hp : p.length = m) (hs : s.length = n)
    (hpm : ∀ i ∈ p, i < m) (hsn : ∀ j ∈ s, j < n) (hx : Equivariant fit p x) (hz : Equivariant fit s z)
    (axes : AxesArg) (_hok : AxisOk axes) (kw : KwArg α) :
    individualAxes fit empty (take1 p x) (take1 s z) (take2 p s data) axes kw =
      (individualAxes fit empty x z data axes kw).map (reorder p s) :=
  individualAxes_take2 fit hf empty x z data m n hD hm hn p s hp hs hpm hsn hx hz axes kw

/-- a 1-D "method" for the examples: baseline_i = c_i · v_i + k -/
def exFit : Fit1 Rat := fun c k v => List.zipWith (fun ci vi => ci * vi + k) c v

example : (individualAxesPlan "{}" (.two 1 0) (.seq ["A", "B"])).toOption.map (·.map fun s => (s.axis, s.coord, s.kw, s.key)) =
      some [(1, .z, "A", "columns"), (0, .x, "B", "rows")] ∧
    (individualAxesPlan "{}" (.one 1) .none).toOption.map (·.map fun s => (s.axis, s.coord, s.kw, s.key)) = some [(1, .z, "{}", "columns")] := by
  decide
example : individualAxes exFit 0 [1, 2] [1, 0, 2] [[1, 2, 3], [4, 5, 6]] (.two 0 1) (.seq [1, 0]) =
    .ok ([[1, 3, 2], [4, 11, -1]], [("rows", [[2, 3, 4], [9, 11, 13]]), ("columns", [[-1, 0, -2], [-5, 0, -14]])]) := by
  decide +kernel
example : individualAxes exFit 0 [2, 1] [2, 1, 0] (take2 [1, 0] [2, 0, 1] [[1, 2, 3], [4, 5, 6]]) (.two 0 1) (.seq [1, 0]) =
    .ok (reorder [1, 0] [2, 0, 1] ([[1, 3, 2], [4, 11, -1]], [("rows", [[2, 3, 4], [9, 11, 13]]), ("columns", [[-1, 0, -2], [-5, 0, -14]])])) := by
  decide +kernel
example : LenPres1 (fun (_ : List Rat) (k : Rat) v => v.map (· + k)) ∧ RectMN [[1, 2, 3], [4, 5, 6]] 2 3 ∧
    Equivariant (fun (_ : List Rat) (k : Rat) v => v.map (· + k)) [1, 0] [1, 2] := by
  refine ⟨fun _ _ v => by simp, ⟨rfl, by simp⟩, ?_⟩
  intro k v hv
  match v, hv with
  | [a, b], _ => simp [take1]

end individual_axes

end PbVerif.C20
