import PbVerif.Lemmas.Kron
/-! C20 — 2-D eigendecomposition and array algebra agree with the full 2-D system. -/
namespace PbVerif.C20
open PbVerif.Kron PbVerif.Lemmas

theorem makeBtwb_eq_kron (Br Bc W : Mat) (a b : Nat) (hr : Rect Br a) (hc : Rect Bc b) (ha : 0 < Br.length) (hb : 0 < Bc.length)
    (r c : Nat) (hr' : r < a * b) (hc' : c < a * b) :
    makeBtwb Br Bc W r c = kronBtwb Br Bc W r c := Lemmas.makeBtwb_eq_kron Br Bc W a b hr hc ha hb r c hr' hc'
theorem rhs_eq_kron (Br Bc WY : Mat) (r : Nat) : rhsCode Br Bc WY r = kronRhs Br Bc WY r := Lemmas.rhs_eq_kron Br Bc WY r
theorem reconstruct_eq_kron (Br Bc : Mat) (coef : List Rat) (m n : Nat) (hb : 0 < Bc.ncols) :
    reconstruct Br Bc coef m n = kronApply Br Bc coef m n := Lemmas.reconstruct_eq_kron Br Bc coef m n hb
theorem eig_penalty_diag (lamr lamc : Rat) (er ec : List Rat) (i k : Nat) (hi : i < er.length) (hk : k < ec.length) :
    eigPenalty lamr lamc er ec (i * ec.length + k) = lamr * er.getD i 0 + lamc * ec.getD k 0 :=
  eigPenalty_entry lamr lamc er ec i k hi hk

open Matrix in
theorem truncated_is_galerkin {N K : Type} [Fintype N] [Fintype K] [DecidableEq N] [DecidableEq K]
    (B : Matrix N K ℚ) (W P : Matrix N N ℚ) (L : Matrix K K ℚ) (y : N → ℚ) (c : K → ℚ)
    (hL : Bᵀ * P * B = L) (hc : (Bᵀ * W * B + L).mulVec c = Bᵀ.mulVec (W.mulVec y)) :
    Bᵀ.mulVec (W.mulVec (y - B.mulVec c) - P.mulVec (B.mulVec c)) = 0 := Lemmas.truncated_is_galerkin B W P L y c hL hc
open Matrix in
theorem full_eigen_eq_direct {N : Type} [Fintype N] [DecidableEq N]
    (B : Matrix N N ℚ) (W P : Matrix N N ℚ) (y v : N → ℚ) (hB : B * Bᵀ = 1)
    (hg : Bᵀ.mulVec (W.mulVec (y - v) - P.mulVec v) = 0) :
    (W + P).mulVec v = W.mulVec y := Lemmas.full_eigen_eq_direct B W P y v hB hg

example : makeBtwb [[1, 2], [3, 4]] [[1, 0, 2], [0, 1, 1]] [[1, 2], [3, 4]] 4 2 = kronBtwb [[1, 2], [3, 4]] [[1, 0, 2], [0, 1, 1]] [[1, 2], [3, 4]] 4 2
    ∧ kronBtwb [[1, 2], [3, 4]] [[1, 0, 2], [0, 1, 1]] [[1, 2], [3, 4]] 4 2 = 52 := by decide +kernel

end PbVerif.C20
