import PbVerif.Lemmas.Perm
import PbVerif.Gen.Registry
/-! C02 — results do not depend on the order in which x (and z) are supplied.
Property theorems only; helper lemmas live in `PbVerif.Lemmas.Perm`. -/
namespace PbVerif.C02
open PbVerif.Perm

/-- `_inverted_sort` left-inverts the sort order, entry by entry. -/
theorem invertedSort_left (σ : List Nat) (hσ : σ.Perm (List.range σ.length)) (i : Nat) (hi : i < σ.length) :
    (invertedSort σ).getD (σ.getD i 0) 0 = i := Lemmas.invertedSort_left σ hσ i hi

/-- `a[σ][σ⁻¹] = a`: un-sorting after sorting returns the caller's array. -/
theorem take_take_inverted {α} (a : List α) (d : α) (σ : List Nat) (hσ : σ.Perm (List.range σ.length))
    (ha : a.length = σ.length) : takeL (takeL a d σ) d (invertedSort σ) = a :=
  Lemmas.take_take_inverted a d σ hσ ha

/-- `a[σ⁻¹][σ] = a`. -/
theorem take_inverted_take {α} (a : List α) (d : α) (σ : List Nat) (hσ : σ.Perm (List.range σ.length))
    (ha : a.length = σ.length) : takeL (takeL a d (invertedSort σ)) d σ = a :=
  Lemmas.take_inverted_take a d σ hσ ha

/-- the stable argsort is a permutation of the index set and sorts x -/
theorem argsort_perm (x : List Rat) : (argsort x).Perm (List.range x.length) := Lemmas.argsort_perm x
theorem argsort_sorted (x : List Rat) : (takeL x 0 (argsort x)).Pairwise (· ≤ ·) := Lemmas.argsort_sorted x

/-- `_determine_sorts` skips sorting exactly when x is already non-decreasing -/
theorem determineSorts_none_iff (x : List Rat) : determineSorts x = none ↔ x.Pairwise (· ≤ ·) :=
  Lemmas.determineSorts_none_iff x

/-- **Main theorem (1-D).** For every core algorithm that returns per-point arrays, every x with
pairwise distinct values, every y, optional weights and every permutation π of the index set:
calling the wrapped method on consistently permuted inputs returns the correspondingly permuted
baseline and per-point parameters. No hypothesis on what `core` computes is needed: both calls hand
`core` the same sorted arrays. -/
theorem run1d_equivariant
    (core : List Rat → List Rat → Option (List Rat) → List Rat × List (List Rat))
    (hcore : ∀ xs ys ws, (core xs ys ws).1.length = xs.length ∧ ∀ a ∈ (core xs ys ws).2, a.length = xs.length)
    (x y : List Rat) (w : Option (List Rat)) (π : List Nat)
    (hx : x.Nodup) (hy : y.length = x.length) (hw : ∀ v, w = some v → v.length = x.length)
    (hπ : π.Perm (List.range x.length)) :
    run1d core (takeL x 0 π) (takeL y 0 π) (w.map (takeL · 0 π)) =
      ((takeL (run1d core x y w).1 0 π), (run1d core x y w).2.map (takeL · 0 π)) :=
  Lemmas.run1d_equivariant core hcore x y w π hx hy hw hπ

/-- non-vacuity: a concrete unsorted x, a permutation and a core that really uses its inputs -/
example : run1d (fun xs ys _ => (List.zipWith (· * ·) xs ys, [ys])) [3, 1, 2] [30, 10, 20] none
    = ([90, 10, 40], [[30, 10, 20]]) := by decide +kernel

/-- **Main theorem (2-D)**: rows permuted by πx and columns by πz (either may be the identity). -/
theorem run2d_equivariant
    (core : List Rat → List Rat → List (List Rat) → Option (List (List Rat)) →
      List (List Rat) × List (List (List Rat)))
    (hcore : ∀ xs zs ys ws, let r := core xs zs ys ws
        (r.1.length = xs.length ∧ ∀ row ∈ r.1, row.length = zs.length) ∧
        ∀ a ∈ r.2, a.length = xs.length ∧ ∀ row ∈ a, row.length = zs.length)
    (x z : List Rat) (y : List (List Rat)) (w : Option (List (List Rat))) (πx πz : List Nat)
    (hx : x.Nodup) (hz : z.Nodup)
    (hy : y.length = x.length ∧ ∀ row ∈ y, row.length = z.length)
    (hw : ∀ v, w = some v → v.length = x.length ∧ ∀ row ∈ v, row.length = z.length)
    (hπx : πx.Perm (List.range x.length)) (hπz : πz.Perm (List.range z.length)) :
    run2d core (takeL x 0 πx) (takeL z 0 πz) (sort2d y (some πx) (some πz))
        (w.map (sort2d · (some πx) (some πz))) =
      (sort2d (run2d core x z y w).1 (some πx) (some πz),
       (run2d core x z y w).2.map (sort2d · (some πx) (some πz))) :=
  Lemmas.run2d_equivariant core hcore x z y w πx πz hx hz hy hw hπx hπz

/-- `optimize_extended_range`'s extended sort order is a permutation of the extended index set -/
theorem extendSortOrder_perm (σ : List Nat) (side k : Nat) (hσ : σ.Perm (List.range σ.length)) :
    (extendSortOrder σ side k).Perm (List.range (extendSortOrder σ side k).length) :=
  Lemmas.extendSortOrder_perm σ side k hσ

/-- … which sorts the extended x: it restricts to σ (shifted) on the original block and is the
identity on the added, already ordered, blocks. -/
theorem extendSortOrder_left (σ : List Nat) (k i : Nat) (hi : i < k) :
    (extendSortOrder σ 1 k).getD i 0 = i ∧ (extendSortOrder σ 0 k).getD i 0 = i :=
  Lemmas.extendSortOrder_left σ k i hi
theorem extendSortOrder_mid (σ : List Nat) (k i : Nat) (hi : i < σ.length) :
    (extendSortOrder σ 1 k).getD (k + i) 0 = σ.getD i 0 + k ∧
    (extendSortOrder σ 0 k).getD (k + i) 0 = σ.getD i 0 + k ∧
    (extendSortOrder σ 2 k).getD i 0 = σ.getD i 0 :=
  Lemmas.extendSortOrder_mid σ k i hi

/-! ### table obligation over the regenerated method registry (Route A, `Gen/Registry`)
`run1d_equivariant` / `run2d_equivariant` un-sort EVERY per-point array the core hands back. A real method inherits them
only if every per-point entry of its parameter dictionary is declared in the wrapper's `sort_keys`. The registry is read
from the imported package on every run (closure cells of `_register.inner` + one probe call per method). -/
open PbVerif.Gen in
def rowSorted (r : MethodRow) : Bool := r.skipSorting || r.perPoint.all fun k => r.sortKeys.contains k

open PbVerif.Gen in
/-- every method that lets the wrapper sort its inputs declares every per-point output for un-sorting; methods with
`skip_sorting` (the optimizers, which delegate to wrapped methods) are covered by the correspondence only -/
theorem registry_perpoint_keys_sorted :
    registry.all rowSorted = true ∧ registryTranslated = true ∧ 90 ≤ registry.length := by decide +kernel

end PbVerif.C02
