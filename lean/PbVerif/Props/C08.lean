import PbVerif.Lemmas.Poly
/-! C08 — polynomial baselines are least-squares polynomials with usable coefficients. -/
namespace PbVerif.C08
open PbVerif.Poly PbVerif.Lemmas

/-- coefficients converted to the user's x domain evaluate to the fitted polynomial, for every domain
(offset and scale of any magnitude and sign), every order and every x -/
theorem convertCoef_eval (c : List Rat) (offset scale x : Rat) (hs : scale ≠ 0) :
    evalPoly (convertCoef c offset scale) x = evalPoly c ((x - offset) / scale) :=
  Lemmas.convertCoef_eval c offset scale x hs
/-- the special-cased `offset == 0` branch is the general formula -/
theorem convertCoef_offset_zero_branch (scale : Rat) (i j : Nat) :
    polyTransformAt 0 scale i j =
      if i ≤ j then (binom j i : Nat) * (1 / scale) ^ j * (-(0 : Rat)) ^ (j - i) else 0 :=
  polyTransformAt_offset_zero scale i j
/-- 2-D: `T_x C T_z'` -/
theorem convertCoef2d_eval (c : List (List Rat)) (nz : Nat) (hrect : ∀ row ∈ c, row.length = nz)
    (ox sx oz sz x z : Rat) (hsx : sx ≠ 0) (hsz : sz ≠ 0) :
    evalPoly2 (convertCoef2d c ox sx oz sz) x z = evalPoly2 c ((x - ox) / sx) ((z - oz) / sz) :=
  Lemmas.convertCoef2d_eval c nz hrect ox sx oz sz x z hsx hsz
theorem mapparms_maps (o0 o1 n0 n1 : Rat) (h : o1 ≠ o0) :
    let p := mapparms o0 o1 n0 n1
    p.1 + p.2 * o0 = n0 ∧ p.1 + p.2 * o1 = n1 := Lemmas.mapparms_maps o0 o1 n0 n1 h

/-- "the unique polynomial minimising the weighted squared distance" is characterised by a checkable
equation: a coefficient vector satisfying the weighted normal equations is a minimiser, and the only
one when the weighted design matrix has full column rank -/
theorem normal_eq_minimiser (n k : Nat) (A : Fin n → Fin k → Rat) (w b : Fin n → Rat) (c c' : Fin k → Rat)
    (hw : ∀ i, 0 ≤ w i)
    (hne : ∀ j, (Finset.univ.sum fun i => w i * A i j * (b i - Finset.univ.sum fun l => A i l * c l)) = 0) :
    (Finset.univ.sum fun i => w i * (b i - Finset.univ.sum fun l => A i l * c l) ^ 2) ≤
    (Finset.univ.sum fun i => w i * (b i - Finset.univ.sum fun l => A i l * c' l) ^ 2) :=
  Lemmas.normal_eq_minimiser n k A w b c c' hw hne
theorem normal_eq_unique (n k : Nat) (A : Fin n → Fin k → Rat) (w b : Fin n → Rat) (c c' : Fin k → Rat)
    (hw : ∀ i, 0 ≤ w i)
    (hne : ∀ j, (Finset.univ.sum fun i => w i * A i j * (b i - Finset.univ.sum fun l => A i l * c l)) = 0)
    (hinj : ∀ d : Fin k → Rat, (Finset.univ.sum fun i => w i * (Finset.univ.sum fun l => A i l * d l) ^ 2) = 0 → d = 0)
    (heq : (Finset.univ.sum fun i => w i * (b i - Finset.univ.sum fun l => A i l * c' l) ^ 2) =
           (Finset.univ.sum fun i => w i * (b i - Finset.univ.sum fun l => A i l * c l) ^ 2)) :
    c' = c := Lemmas.normal_eq_unique n k A w b c c' hw hne hinj heq

/-- non-vacuity: p(t) = 1 + 2t + 3t² on the domain [10, 14] (offset 12, scale 2), evaluated at x = 13 -/
example : evalPoly (convertCoef [1, 2, 3] 12 2) 13 = evalPoly [1, 2, 3] (1/2) ∧ convertCoef [1, 2, 3] 12 2 = [97, -17, 3/4] := by
  decide +kernel

end PbVerif.C08
