import PbVerif.Lemmas.Poly
import PbVerif.Lemmas.Poly2d
/-! C08 — polynomial baselines are least-squares polynomials with usable coefficients. -/
namespace PbVerif.C08
open PbVerif.Poly PbVerif.Poly2d PbVerif.Lemmas

/-- coefficients converted to the user's x domain evaluate to the fitted polynomial, for every domain
(offset and scale of any magnitude and sign), every order and every x -/
theorem convertCoef_eval (c : List Rat) (offset scale x : Rat) (hs : scale ≠ 0) :
    evalPoly (convertCoef c offset scale) x = evalPoly c ((x - offset) / scale) :=
  Lemmas.convertCoef_eval c offset scale x hs
/-- the special-cased `offset == 0` branch is the general formula -/
theorem convertCoef_offset_zero_branch (scale : Rat) (i j : Nat) :
    polyTransformAt 0 scale i j =
      if i ≤ j then (binom j i : Nat) * (1 / scale) ^ j * (-(0 : Rat)) ^ (j - i) else 0 :=
  polyTransformAt_offset_zero scale i j
/-- 2-D: `T_x C T_z'` -/
theorem convertCoef2d_eval (c : List (List Rat)) (nz : Nat) (hrect : ∀ row ∈ c, row.length = nz)
    (ox sx oz sz x z : Rat) (hsx : sx ≠ 0) (hsz : sz ≠ 0) :
    evalPoly2 (convertCoef2d c ox sx oz sz) x z = evalPoly2 c ((x - ox) / sx) ((z - oz) / sz) :=
  Lemmas.convertCoef2d_eval c nz hrect ox sx oz sz x z hsx hsz
theorem mapparms_maps (o0 o1 n0 n1 : Rat) (h : o1 ≠ o0) :
    let p := mapparms o0 o1 n0 n1
    p.1 + p.2 * o0 = n0 ∧ p.1 + p.2 * o1 = n1 := Lemmas.mapparms_maps o0 o1 n0 n1 h

/-- "the unique polynomial minimising the weighted squared distance" is characterised by a checkable
equation: a coefficient vector satisfying the weighted normal equations is a minimiser, and the only
one when the weighted design matrix has full column rank -/
theorem normal_eq_minimiser (n k : Nat) (A : Fin n → Fin k → Rat) (w b : Fin n → Rat) (c c' : Fin k → Rat)
    (hw : ∀ i, 0 ≤ w i)
    (hne : ∀ j, (Finset.univ.sum fun i => w i * A i j * (b i - Finset.univ.sum fun l => A i l * c l)) = 0) :
    (Finset.univ.sum fun i => w i * (b i - Finset.univ.sum fun l => A i l * c l) ^ 2) ≤
    (Finset.univ.sum fun i => w i * (b i - Finset.univ.sum fun l => A i l * c' l) ^ 2) :=
  Lemmas.normal_eq_minimiser n k A w b c c' hw hne
theorem normal_eq_unique (n k : Nat) (A : Fin n → Fin k → Rat) (w b : Fin n → Rat) (c c' : Fin k → Rat)
    (hw : ∀ i, 0 ≤ w i)
    (hne : ∀ j, (Finset.univ.sum fun i => w i * A i j * (b i - Finset.univ.sum fun l => A i l * c l)) = 0)
    (hinj : ∀ d : Fin k → Rat, (Finset.univ.sum fun i => w i * (Finset.univ.sum fun l => A i l * d l) ^ 2) = 0 → d = 0)
    (heq : (Finset.univ.sum fun i => w i * (b i - Finset.univ.sum fun l => A i l * c' l) ^ 2) =
           (Finset.univ.sum fun i => w i * (b i - Finset.univ.sum fun l => A i l * c l) ^ 2)) :
    c' = c := Lemmas.normal_eq_unique n k A w b c c' hw hne hinj heq

/-- non-vacuity: p(t) = 1 + 2t + 3t² on the domain [10, 14] (offset 12, scale 2), evaluated at x = 13 -/
example : evalPoly (convertCoef [1, 2, 3] 12 2) 13 = evalPoly [1, 2, 3] (1/2) ∧ convertCoef [1, 2, 3] 12 2 = [97, -17, 3/4] := by
  decide +kernel

/-! ### 2-D `max_cross` (`_PolyHelper2D.recalc_vandermonde`), every order pair `(a, b)`, every `max_cross` incl. `None` -/

/-- the flags produced by the loop over `enumerate(itertools.product(range(a+1), range(b+1)))` are, column by
column, the flag computed from `val = divmod(idx, b + 1)`; there is one flag per column -/
theorem maxCross_loop_eq (a b : Nat) (mc : Option Nat) :
    keptCols a b mc = (List.range ((a + 1) * (b + 1))).map (keptCol a b mc) ∧
    (keptCols a b mc).length = (a + 1) * (b + 1) :=
  ⟨keptCols_eq a b mc, keptCols_length a b mc⟩

/-- column `idx` survives the loop iff the monomial it holds, `x^(idx / (b+1)) z^(idx % (b+1))`, is in the
documented set (a pure power, or both exponents ≤ max_cross; everything for `None`) -/
theorem maxCross_kept_iff (a b : Nat) (mc : Option Nat) (idx : Nat) (d : Bool) (h : idx < (a + 1) * (b + 1)) :
    (keptCols a b mc).getD idx d = allowed mc (idx / (b + 1)) (idx % (b + 1)) := by
  rw [keptCols_getD a b mc idx d h, keptCol_eq_allowed]

/-- in terms of exponents: the column of `x^i z^j` (i ≤ a, j ≤ b) is kept iff `(i, j)` is allowed -/
theorem maxCross_kept_monomial (a b : Nat) (mc : Option Nat) (i j : Nat) (d : Bool) (hi : i ≤ a) (hj : j ≤ b) :
    (keptCols a b mc).getD (colIndex a b i j) d = allowed mc i j := by
  rw [maxCross_kept_iff a b mc _ d (colIndex_lt a b i j hi hj), colIndex_div a b i j hj, colIndex_mod a b i j hj]

/-- `(i, j) ↦ i (b+1) + j` is a bijection between exponent pairs `i ≤ a, j ≤ b` and column indices
`< (a+1)(b+1)`, with inverse `idx ↦ (idx / (b+1), idx % (b+1))` -/
theorem colIndex_bijection (a b : Nat) :
    (∀ i j, i ≤ a → j ≤ b → colIndex a b i j < (a + 1) * (b + 1) ∧
        colIndex a b i j / (b + 1) = i ∧ colIndex a b i j % (b + 1) = j) ∧
    (∀ idx, idx < (a + 1) * (b + 1) → idx / (b + 1) ≤ a ∧ idx % (b + 1) ≤ b ∧
        colIndex a b (idx / (b + 1)) (idx % (b + 1)) = idx) :=
  ⟨fun i j hi hj => ⟨colIndex_lt a b i j hi hj, colIndex_div a b i j hj, colIndex_mod a b i j hj⟩,
   fun idx h => ⟨div_le_of_lt_mul a b idx h, by have := Nat.mod_lt idx (show b + 1 > 0 by omega); omega, colIndex_divmod a b idx⟩⟩

/-- `max_cross` at or above both orders zeroes nothing: the matrix is the one `None` gives -/
theorem maxCross_none_of_large (a b m : Nat) (h : max a b ≤ m) : keptCols a b (some m) = keptCols a b none :=
  (keptCols_some_eq_none_iff a b m).2 (Or.inr (Or.inr ⟨by omega, by omega⟩))

/-- … and that is sharp: an integer `max_cross` leaves the matrix untouched exactly when one of the orders is 0
or `max_cross ≥ max a b` (so for `(1, 3)`, `max_cross = 1 ≥ min` still removes columns) -/
theorem maxCross_none_iff (a b m : Nat) :
    keptCols a b (some m) = keptCols a b none ↔ a = 0 ∨ b = 0 ∨ max a b ≤ m := by
  rw [keptCols_some_eq_none_iff]; omega

/-- `max_cross = 0` keeps exactly the pure powers -/
theorem maxCross_zero (i j : Nat) : allowed (some 0) i j = true ↔ i = 0 ∨ j = 0 := by
  rw [allowed_iff]; omega

/-- the allowed sets grow with `max_cross`, and `None` allows everything -/
theorem maxCross_mono (m m' i j : Nat) (hm : m ≤ m') (h : allowed (some m) i j = true) :
    allowed (some m') i j = true ∧ allowed none i j = true :=
  ⟨allowed_mono m m' i j hm h, rfl⟩

/-- lowering either exponent of an allowed monomial gives an allowed monomial -/
theorem allowed_downward_closed (mc : Option Nat) (i j k l : Nat) (h : allowed mc i j = true) (hk : k ≤ i) (hl : l ≤ j) :
    allowed mc k l = true := allowed_down mc i j k l h hk hl

/-- a row of the Vandermonde matrix with its columns zeroed, times ANY coefficient vector, is `polyval2d` of
the reshaped coefficient matrix with the excluded entries set to zero: every surface `V c` is a polynomial of
orders ≤ (a, b) whose excluded monomials have coefficient 0, whatever the solver returned in those slots -/
theorem vander_masked_apply (a b : Nat) (mc : Option Nat) (coef : List Rat) (x z : Rat) :
    dot (vanderRowMasked a b mc x z) coef = evalPoly2 (maskCoef mc (reshapeCoef a b coef)) x z :=
  Lemmas.vander_masked_apply a b mc coef x z

/-- without zeroing: the column order of the reshaped `polyvander2d` is the order in which `polyval2d` reads
`coef.reshape(a+1, b+1)` -/
theorem vander_apply (a b : Nat) (coef : List Rat) (x z : Rat) :
    dot (vanderRow a b x z) coef = evalPoly2 (reshapeCoef a b coef) x z :=
  Lemmas.vander_apply a b coef x z

/-- masking does what it says, entry by entry (inside the matrix) -/
theorem maskCoef_spec (mc : Option Nat) (c : List (List Rat)) (i j : Nat) (hi : i < c.length)
    (hj : j < (c.getD i []).length) :
    ((maskCoef mc c).getD i []).getD j 0 = if allowed mc i j then (c.getD i []).getD j 0 else 0 :=
  maskCoef_entry mc c i j hi hj

/-- `_convert_coef2d` = `T_x C T_z'` keeps excluded monomials at zero: `T[i, k] = 0` unless `i ≤ k`, and the
allowed set is downward closed, so a coefficient matrix that vanishes on the excluded monomials in the
mapped domain vanishes on them in the user's domain — for every domain (no hypothesis on offset or scale) -/
theorem convertCoef2d_preserves_exclusion (mc : Option Nat) (c : List (List Rat)) (nz : Nat)
    (hrect : ∀ row ∈ c, row.length = nz) (ox sx oz sz : Rat)
    (hex : ∀ k l, k < c.length → l < nz → allowed mc k l = false → (c.getD k []).getD l 0 = 0)
    (i j : Nat) (hi : i < c.length) (hj : j < nz) (hij : allowed mc i j = false) :
    ((convertCoef2d c ox sx oz sz).getD i []).getD j 0 = 0 := by
  have h0 : (c.getD 0 []).length = nz := by
    apply hrect
    have : 0 < c.length := by omega
    simp [List.getD_eq_getElem?_getD, this]
  exact convertCoef2d_excluded mc c ox sx oz sz (by rw [h0]; exact hex) i j hi (by rw [h0]; exact hj) hij

/-- the whole 2-D chain with `max_cross`: for ANY solver output `coef`, the coefficient matrix with its excluded
entries zero, converted to the user's domains, (1) evaluates on the user's `(x, z)` to the row of the zeroed
Vandermonde matrix at the mapped point times `coef` — the returned baseline — and (2) is zero at every excluded
monomial, so the exclusion can be checked on the returned coefficients -/
theorem maxCross_returned_coef (a b : Nat) (mc : Option Nat) (coef : List Rat) (ox sx oz sz x z : Rat)
    (hsx : sx ≠ 0) (hsz : sz ≠ 0) :
    evalPoly2 (convertCoef2d (maskCoef mc (reshapeCoef a b coef)) ox sx oz sz) x z =
      dot (vanderRowMasked a b mc ((x - ox) / sx) ((z - oz) / sz)) coef ∧
    ∀ i j, i ≤ a → j ≤ b → allowed mc i j = false →
      ((convertCoef2d (maskCoef mc (reshapeCoef a b coef)) ox sx oz sz).getD i []).getD j 0 = 0 := by
  have hrect := maskCoef_reshape_rect a b mc coef
  have hlen : (maskCoef mc (reshapeCoef a b coef)).length = a + 1 := by
    rw [maskCoef_length, reshapeCoef_length]
  refine ⟨?_, ?_⟩
  · rw [Lemmas.convertCoef2d_eval _ (b + 1) hrect ox sx oz sz x z hsx hsz, Lemmas.vander_masked_apply]
  · intro i j hi hj hij
    refine convertCoef2d_preserves_exclusion mc _ (b + 1) hrect ox sx oz sz ?_ i j (by omega) (by omega) hij
    intro k l hk hl hkl
    rw [hlen] at hk
    have hk' : k < (reshapeCoef a b coef).length := by rw [reshapeCoef_length]; exact hk
    refine maskCoef_excluded mc _ k l hk' ?_ hkl
    rw [reshapeCoef_row a b coef k hk, List.length_map, List.length_range]; exact hl

/-- non-vacuity, (a, b) = (1, 3), max_cross = 1: columns of x z² and x z³ go, x z stays -/
example : keptCols 1 3 (some 1) = [true, true, true, true, true, true, false, false] ∧
    keptCols 1 3 none = List.replicate 8 true ∧ keptCols 1 3 (some 3) = keptCols 1 3 none ∧
    keptCols 1 3 (some 2) ≠ keptCols 1 3 none ∧ colIndex 1 3 1 2 = 6 := by decide
/-- (2, 2), max_cross = 0: only 1, z, z², x, x² -/
example : keptCols 2 2 (some 0) = [true, true, true, true, false, false, true, false, false] ∧
    allowedRows 2 2 (some 0) = [[true, true, true], [true, false, false], [true, false, false]] := by decide
/-- the masked product really drops the excluded terms and nothing else: at (x, z) = (2, 3), orders (1, 3) -/
example : dot (vanderRowMasked 1 3 (some 1) 2 3) [1, 2, 3, 4, 5, 6, 7, 8] = 188 ∧
    dot (vanderRow 1 3 2 3) [1, 2, 3, 4, 5, 6, 7, 8] = 746 ∧
    maskCoef (some 1) (reshapeCoef 1 3 [1, 2, 3, 4, 5, 6, 7, 8]) = [[1, 2, 3, 4], [5, 6, 0, 0]] := by decide +kernel
/-- a matrix with zeros at the excluded places of (1, 3), max_cross = 1, converted to the domains [10, 14] × [-7/2, -5/2]:
the excluded entries stay 0, the allowed cross term x z does not vanish -/
example : convertCoef2d [[1, 2, 3, 4], [5, 6, 0, 0]] 12 2 (-3) (1/2) =
    [[739, 868, 300, 32], [41/2, 6, 0, 0]] := by decide +kernel
/-- the chain on a concrete point: user domains [10, 14] × [-7/2, -5/2], (x, z) = (13, -11/4) ↦ (1/2, 1/2) -/
example : evalPoly2 (convertCoef2d (maskCoef (some 1) (reshapeCoef 1 3 [1, 2, 3, 4, 5, 6, 7, 8])) 12 2 (-3) (1/2)) 13 (-11/4) =
      dot (vanderRowMasked 1 3 (some 1) (1/2) (1/2)) [1, 2, 3, 4, 5, 6, 7, 8] ∧
    dot (vanderRowMasked 1 3 (some 1) (1/2) (1/2)) [1, 2, 3, 4, 5, 6, 7, 8] = 29/4 := by decide +kernel

end PbVerif.C08
