import PbVerif.Lemmas.Optim
import PbVerif.Lemmas.Collab
/-! C17 — optimizer methods are the documented composition of the underlying method: the index
plumbing (the wrapped method itself is a black box; the composition is re-executed on the real code by
the correspondence). -/
namespace PbVerif.C17
open PbVerif.Optim PbVerif.Lemmas

theorem pad_cut_id (side : Side) (k : Nat) (v : List Rat) : cutBack side k (padSide side k v) = v :=
  cutBack_padSide side k v
theorem cut_length (side : Side) (k : Nat) (v : List Rat) (n : Nat)
    (h : v.length = n + (if side = .both then 2 * k else k)) : (cutBack side k v).length = n := cutBack_length side k v n h

theorem roll_slice_picks_added_both (k : Nat) (l m r : List Rat) (hl : l.length = k) (hr : r.length = k) (hk : 0 < k) :
    addedPart .both k (l ++ m ++ r) = r ++ l := addedPart_both k l m r hl hr hk
theorem roll_slice_picks_added_right (k : Nat) (m r : List Rat) (hr : r.length = k) (hk : 0 < k) :
    addedPart .right k (m ++ r) = r := addedPart_right k m r hr hk
theorem roll_slice_picks_added_left (k : Nat) (l m : List Rat) (hl : l.length = k) (hk : 0 < k) :
    addedPart .left k (l ++ m) = l := addedPart_left k l m hl hk

theorem argmin_first (l : List Rat) (h : l ≠ []) :
    argminFirst l < l.length ∧ (∀ j, j < l.length → l.getD (argminFirst l) 0 ≤ l.getD j 0) ∧
    (∀ j, j < argminFirst l → l.getD (argminFirst l) 0 < l.getD j 0) := argminFirst_spec l h

theorem customBc_identity_plan (n : Nat) (hn : 2 ≤ n) :
    (customBcPlan n [(0, n, 1)]).sections = (List.range n).map (fun i => (i, i + 1)) ∧
    (customBcPlan n [(0, n, 1)]).mask = List.replicate n false := Lemmas.customBc_identity_plan n hn

theorem minmax_constraints (w : List Rat) (c0 c1 : Nat) (w0 w1 : Rat) (i : Nat) (hi : i < w.length) :
    (constrainedWeights w c0 c1 w0 w1).getD i 0 =
      if w.length - c1 ≤ i then w1 else if i < c0 then w0 else w.getD i 0 := constrainedWeights_spec w c0 c1 w0 w1 i hi
theorem minmax_is_max (bs : List (List Rat)) (n : Nat) (h : ∀ b ∈ bs, b.length = n) (hne : bs ≠ [])
    (i : Nat) (hi : i < n) :
    (∀ b ∈ bs, b.getD i 0 ≤ (pointwiseMax bs).getD i 0) ∧ ∃ b ∈ bs, (pointwiseMax bs).getD i 0 = b.getD i 0 :=
  ⟨fun b hb => pointwiseMax_ge bs n h b hb i hi, pointwiseMax_attained bs n h hne i hi⟩
/-- the four fits are the product of the two orders with (weights, constrained weights), in that order -/
theorem minmax_four_product (o0 o1 : Nat) : fourFits o0 o1 = [(o0, false), (o0, true), (o1, false), (o1, true)] := rfl

example : addedPart .both 2 [1, 2, 3, 4, 5, 6, 7, 8] = [7, 8, 1, 2] ∧ argminFirst [3, 1, 4, 1, 5] = 1 := by decide +kernel


/-! ### collab_pls (`optimizers.py:_Optimizers.collab_pls`, `two_d/optimizers.py:_Optimizers.collab_pls`,
`_algorithm_setup.py:_setup_optimizer`): the calls made to the wrapped method -/
section collab
open PbVerif.Collab

/-- collab_kwargs: every call of the wrapped method (first pass and final fits, both settings of
`average_dataset`, 1-D and 2-D) receives under every key that is not overridden for the method family
exactly what the user's `method_kwargs` holds under that key (nothing, when the user gave nothing) -/
theorem collab_kwargs (twoD : Bool) (method : String) (k : Nat) (avg : Bool) (user : Kw) (c : Call)
    (hc : c ∈ (collabPlan twoD method k avg user).calls) (key : String) (hk : key ∉ overridden (family twoD method)) :
    kwGet c.kw key = kwGet user key := plan_forwarded twoD method k avg user c hc key hk

/-- `average_dataset=True`: k+1 calls — the mean data set with the user's dictionary untouched (also its
`weights`), then the k data sets in order; the fits reported are calls 1..k; the reported weights / alpha are
the ones returned by call 0 -/
theorem collab_calls_average_dataset (twoD : Bool) (method : String) (k : Nat) (user : Kw) :
    (collabPlan twoD method k true user).calls =
      ⟨.mean, user⟩ :: (List.range k).map (fun i => ⟨.entry i, finalKw (family twoD method) k true user⟩) ∧
    (collabPlan twoD method k true user).results = (List.range k).map (· + 1) ∧
    (collabPlan twoD method k true user).avgWeights = .fitWeights 0 ∧
    (collabPlan twoD method k true user).avgAlpha = (if (family twoD method).calcAlpha then some (.fitAlpha 0) else none) :=
  ⟨rfl, rfl, rfl, rfl⟩

/-- `average_dataset=False`: 2k calls — every data set in order with the user's dictionary untouched, then
every data set in order with the final dictionary; the fits reported are calls k..2k-1; the reported
weights / alpha are the mean over the first k fits, rows in the order 0..k-1 -/
theorem collab_calls_average_weights (twoD : Bool) (method : String) (k : Nat) (user : Kw) :
    (collabPlan twoD method k false user).calls =
      (List.range k).map (fun i => ⟨.entry i, user⟩) ++
      (List.range k).map (fun i => ⟨.entry i, finalKw (family twoD method) k false user⟩) ∧
    (collabPlan twoD method k false user).results = (List.range k).map (· + k) ∧
    (collabPlan twoD method k false user).avgWeights = .meanWeights (List.range k) ∧
    (collabPlan twoD method k false user).avgAlpha =
      (if (family twoD method).calcAlpha then some (.meanAlpha (List.range k)) else none) := by
  refine ⟨rfl, ?_, rfl, rfl⟩
  simp [collabPlan, firstPass]

/-- the fit reported for data set i is made on data set i; its `weights` are the reported `average_weights`,
its `alpha` the reported `average_alpha` (aspls family; otherwise no `average_alpha` is reported), and
`tol` / `tol_2` / `weights_as_mask` are written exactly for the families the code names -/
theorem collab_final_fit_kwargs (twoD : Bool) (method : String) (k : Nat) (avg : Bool) (user : Kw) (i : Nat) (hi : i < k) :
    ∃ c : Call, (collabPlan twoD method k avg user).calls.getD ((collabPlan twoD method k avg user).results.getD i 0) ⟨.mean, []⟩ = c ∧
      c.data = .entry i ∧
      kwGet c.kw "weights" = some (collabPlan twoD method k avg user).avgWeights ∧
      ((family twoD method).calcAlpha = true → kwGet c.kw "alpha" = (collabPlan twoD method k avg user).avgAlpha) ∧
      ((family twoD method).calcAlpha = false → (collabPlan twoD method k avg user).avgAlpha = none) ∧
      ((family twoD method).setTol = true → kwGet c.kw "tol" = some .inf) ∧
      ((family twoD method).setTol2 = true → kwGet c.kw "tol_2" = some .inf) ∧
      ((family twoD method).asMask = true → kwGet c.kw "weights_as_mask" = some .true_) := by
  obtain ⟨h1, h2⟩ := plan_result_call twoD method k avg user i hi
  refine ⟨_, rfl, ?_⟩
  rw [h1, h2]
  refine ⟨rfl, finalKw_weights _ _ _ _, ?_, ?_, finalKw_tol _ _ _ _, finalKw_tol2 _ _ _ _, finalKw_mask _ _ _ _⟩
  · intro hc
    simp [collabPlan, hc, finalKw_alpha _ _ _ _ hc]
  · intro hc
    simp [collabPlan, hc]

/-- what is raised before any fit, in the order the code checks: unknown method, then (1-D only) an `x_data`
key in `method_kwargs`, then the number of dimensions of the data -/
theorem collab_errors (twoD known : Bool) (ndim : Nat) (method : String) (k : Nat) (avg : Bool) (user : Kw) :
    collabCall twoD known ndim method k avg user =
      if known = false then .error .attributeError
      else if twoD = false ∧ (kwGet user "x_data").isSome then .error .keyError
      else if ndim ≠ (if twoD then 3 else 2) then .error .valueError
      else .ok (collabPlan twoD method k avg user) := by
  cases known <;> cases twoD <;> simp [collabCall]

/-- meaning of the plan for ANY wrapped method `f` (stateful or not): one dictionary `kw` serves all reported
fits; its `weights` / `alpha` are what `params` reports, and every key that is not overridden holds the
user's value.  (`_hk`: the data set is not empty — the mean over zero rows is NaN in the code and the first fit
raises; `hu`: the user's dictionary holds the user's own values) -/
theorem collab_reported_weights_are_used (f : Method) (twoD : Bool) (method : String) (avg : Bool) (user : Kw)
    (ds : List (List Rat)) (_hk : 0 < ds.length) (hu : UserKw user) :
    ∃ kw : List (String × Arg),
      getArg kw "weights" = some (runCollab f twoD method avg user ds).avgWeights ∧
      ((family twoD method).calcAlpha = true → getArg kw "alpha" = (runCollab f twoD method avg user ds).avgAlpha) ∧
      ((family twoD method).calcAlpha = false → (runCollab f twoD method avg user ds).avgAlpha = none) ∧
      ((family twoD method).setTol = true → getArg kw "tol" = some .inf) ∧
      ((family twoD method).setTol2 = true → getArg kw "tol_2" = some .inf) ∧
      ((family twoD method).asMask = true → getArg kw "weights_as_mask" = some .true_) ∧
      (∀ key, key ∉ overridden (family twoD method) → getArg kw key = getArg (resolveKw [] user) key) ∧
      ∀ i, i < ds.length →
        (runCollab f twoD method avg user ds).trace.getD ((if avg then 1 else ds.length) + i) default =
          ⟨ds.getD i [], kw, f ((if avg then 1 else ds.length) + i) (ds.getD i []) kw⟩ ∧
        (runCollab f twoD method avg user ds).baselines.getD i [] =
          (f ((if avg then 1 else ds.length) + i) (ds.getD i []) kw).baseline :=
  runCollab_spec f twoD method avg user ds hu

/-- a data set with a single entry: both settings of `average_dataset` make the same two fits with the same
arguments and report the same baselines, weights and alpha (the mean of one row is the row) -/
theorem collab_single_dataset (f : Method) (twoD : Bool) (method : String) (user : Kw) (d : List Rat) (hu : UserKw user) :
    runCollab f twoD method true user [d] = runCollab f twoD method false user [d] :=
  runCollab_single f twoD method user d hu

example : family false "fabc" = ⟨false, false, false, true⟩ ∧ family false "pspline_brpls" = ⟨false, true, true, false⟩ ∧
    family false "aspls" = ⟨true, true, false, false⟩ ∧ family false "mpls" = ⟨false, false, false, false⟩ ∧
    family true "mpls" = ⟨false, true, false, false⟩ := by decide
example : (collabPlan false "aspls" 2 false [("lam", .user "a"), ("weights", .user "w")]).calls =
    [⟨.entry 0, [("lam", .user "a"), ("weights", .user "w")]⟩, ⟨.entry 1, [("lam", .user "a"), ("weights", .user "w")]⟩,
     ⟨.entry 0, [("lam", .user "a"), ("weights", .meanWeights [0, 1]), ("alpha", .meanAlpha [0, 1]), ("tol", .inf)]⟩,
     ⟨.entry 1, [("lam", .user "a"), ("weights", .meanWeights [0, 1]), ("alpha", .meanAlpha [0, 1]), ("tol", .inf)]⟩] ∧
    "lam" ∉ overridden (family false "aspls") ∧ UserKw [("lam", .user "a"), ("weights", .user "w")] := by
  refine ⟨by decide, by decide, ?_⟩
  intro p hp
  simp only [List.mem_cons, List.not_mem_nil, or_false] at hp
  rcases hp with rfl | rfl <;> exact ⟨_, rfl⟩
example : collabCall false true 2 "asls" 1 true [("x_data", .user "x")] = .error .keyError ∧
    (collabCall true true 3 "asls" 1 true [("x_data", .user "x")]).isOk = true := by decide
example : meanRows [[1, 2], [3, 6], [5, 1]] = [3, 3] ∧
    (runCollab (fun n d _ => ⟨d, d.map (· + n), d⟩) false "asls" false [] [[1, 2], [3, 6]]).avgWeights = .arr [2 + 1/2, 4 + 1/2] := by
  decide +kernel

end collab

end PbVerif.C17
