import PbVerif.Lemmas.Optim
/-! C17 — optimizer methods are the documented composition of the underlying method: the index
plumbing (the wrapped method itself is a black box; the composition is re-executed on the real code by
the correspondence). -/
namespace PbVerif.C17
open PbVerif.Optim PbVerif.Lemmas

theorem pad_cut_id (side : Side) (k : Nat) (v : List Rat) : cutBack side k (padSide side k v) = v :=
  cutBack_padSide side k v
theorem cut_length (side : Side) (k : Nat) (v : List Rat) (n : Nat)
    (h : v.length = n + (if side = .both then 2 * k else k)) : (cutBack side k v).length = n := cutBack_length side k v n h

theorem roll_slice_picks_added_both (k : Nat) (l m r : List Rat) (hl : l.length = k) (hr : r.length = k) (hk : 0 < k) :
    addedPart .both k (l ++ m ++ r) = r ++ l := addedPart_both k l m r hl hr hk
theorem roll_slice_picks_added_right (k : Nat) (m r : List Rat) (hr : r.length = k) (hk : 0 < k) :
    addedPart .right k (m ++ r) = r := addedPart_right k m r hr hk
theorem roll_slice_picks_added_left (k : Nat) (l m : List Rat) (hl : l.length = k) (hk : 0 < k) :
    addedPart .left k (l ++ m) = l := addedPart_left k l m hl hk

theorem argmin_first (l : List Rat) (h : l ≠ []) :
    argminFirst l < l.length ∧ (∀ j, j < l.length → l.getD (argminFirst l) 0 ≤ l.getD j 0) ∧
    (∀ j, j < argminFirst l → l.getD (argminFirst l) 0 < l.getD j 0) := argminFirst_spec l h

theorem customBc_identity_plan (n : Nat) (hn : 2 ≤ n) :
    (customBcPlan n [(0, n, 1)]).sections = (List.range n).map (fun i => (i, i + 1)) ∧
    (customBcPlan n [(0, n, 1)]).mask = List.replicate n false := Lemmas.customBc_identity_plan n hn

theorem minmax_constraints (w : List Rat) (c0 c1 : Nat) (w0 w1 : Rat) (i : Nat) (hi : i < w.length) :
    (constrainedWeights w c0 c1 w0 w1).getD i 0 =
      if w.length - c1 ≤ i then w1 else if i < c0 then w0 else w.getD i 0 := constrainedWeights_spec w c0 c1 w0 w1 i hi
theorem minmax_is_max (bs : List (List Rat)) (n : Nat) (h : ∀ b ∈ bs, b.length = n) (hne : bs ≠ [])
    (i : Nat) (hi : i < n) :
    (∀ b ∈ bs, b.getD i 0 ≤ (pointwiseMax bs).getD i 0) ∧ ∃ b ∈ bs, (pointwiseMax bs).getD i 0 = b.getD i 0 :=
  ⟨fun b hb => pointwiseMax_ge bs n h b hb i hi, pointwiseMax_attained bs n h hne i hi⟩
/-- the four fits are the product of the two orders with (weights, constrained weights), in that order -/
theorem minmax_four_product (o0 o1 : Nat) : fourFits o0 o1 = [(o0, false), (o0, true), (o1, false), (o1, true)] := rfl

example : addedPart .both 2 [1, 2, 3, 4, 5, 6, 7, 8] = [7, 8, 1, 2] ∧ argminFirst [3, 1, 4, 1, 5] = 1 := by decide +kernel

end PbVerif.C17
