import PbVerif.Lemmas.Banded
import PbVerif.Gen.Diags
/-! C11 — the difference-penalty matrix and its banded layouts are exact for every size.
Property theorems only. `Gen.diff1/2/3` are regenerated from `_banded_utils.py` on every run; the
`decide` obligations below are therefore re-checked against what the source says now. -/
namespace PbVerif.C11
open PbVerif.Banded PbVerif.Lemmas

/-- (1) the coefficient loop of `difference_matrix` yields the signed binomials `coef d`, which are
the coefficients of the d-fold forward difference (`np.diff(np.eye(n), d, axis=0)`), for every d -/
theorem diffCoef_eq_signed_binom (d : Nat) : diffCoefCode d = (List.range (d+1)).map (coef d) :=
  diffCoefCode_eq d
theorem coef_is_iterated_difference (d : Nat) (f : Nat → Int) (k : Nat) :
    fdiffIter d f k = ((List.range (d+1)).map fun m => coef d m * f (k + m)).sum :=
  fdiffIter_eq_coef d f k

/-- (2) windowed-sum lemma: the band specification used below is the dense `D'D`, which is
symmetric and has bandwidth d -/
theorem spec_is_DtD (n d i t : Nat) (h : i + t < n) : dtdOff n d i t = DtD n d i (i + t) :=
  dtdOff_eq_DtD n d i t h
theorem DtD_symmetric (n d i j : Nat) : DtD n d i j = DtD n d j i := DtD_symm n d i j
theorem DtD_banded (n d i j : Nat) (h : i + d < j) : DtD n d i j = 0 := DtD_band n d i j h

/-- (3) clamp lemma for the interpreter of generated tables -/
theorem bandAt_clamp (K : Nat) (init : Int) (tbl : List Assign) (ht : tbl.all (Assign.boundedB K) = true)
    (rows n n' r c : Nat) (hn : 2 * K + 1 ≤ n) (hn' : 2 * K + 1 ≤ n') (hc : c < n) :
    bandAt init tbl rows n r c = bandAt init tbl rows n' r (clamp K n n' c) :=
  Lemmas.bandAt_clamp K init tbl ht rows n n' r c hn hn' hc

/-- (4) **the hard-coded bands are D'D for every N ≥ 2d+1, lower and full layout** -/
theorem diff1_bands_eq : ∀ n, 3 ≤ n → ∀ lo : Bool, Gen.diff1.toRows lo n = specRows n 1 lo :=
  table_eq_spec_of_decide Gen.diff1 1 2 (by decide) (by decide) (by decide) (by decide)
    (by decide) (by decide)
theorem diff2_bands_eq : ∀ n, 5 ≤ n → ∀ lo : Bool, Gen.diff2.toRows lo n = specRows n 2 lo :=
  table_eq_spec_of_decide Gen.diff2 2 4 (by decide) (by decide) (by decide) (by decide)
    (by decide) (by decide)
theorem diff3_bands_eq : ∀ n, 7 ≤ n → ∀ lo : Bool, Gen.diff3.toRows lo n = specRows n 3 lo :=
  table_eq_spec_of_decide Gen.diff3 3 6 (by decide) (by decide) (by decide) (by decide)
    (by decide) (by decide)

example : Gen.diff2.toRows true 7 = [[1, 5, 6, 6, 6, 5, 1], [-2, -4, -4, -4, -4, -2, 0], [1, 1, 1, 1, 1, 0, 0]] := by
  decide

/-- (5) padding adds only zero rows: below for lower storage, above and below for full storage -/
theorem padDiagonals_lower (ab : List (List Int)) (p : Nat) (n : Nat) (hp : 0 < p) :
    padDiagonals ab p true n = ab ++ List.replicate p (List.replicate n 0) := Lemmas.padDiagonals_lower ab p n hp
theorem padDiagonals_full (ab : List (List Int)) (p : Nat) (n : Nat) (hp : 0 < p) :
    padDiagonals ab p false n = List.replicate p (List.replicate n 0) ++ ab ++ List.replicate p (List.replicate n 0) :=
  Lemmas.padDiagonals_full ab p n hp
theorem padDiagonals_nonpos (ab : List (List Int)) (p : Int) (lo : Bool) (n : Nat) (hp : p ≤ 0) :
    padDiagonals ab p lo n = ab := Lemmas.padDiagonals_nonpos ab p lo n hp

/-- (6) layout conversions used by `reset_diagonals` are exact -/
theorem lowerToFull_spec (n d : Nat) : lowerToFull (specRows n d true) = specRows n d false :=
  Lemmas.lowerToFull_spec n d
theorem drop_full_eq_lower (n d : Nat) : (specRows n d false).drop d = specRows n d true :=
  Lemmas.drop_full_eq_lower n d

/-- (7) **a re-used penalized system equals a fresh one, for every history of reconfigurations**
(any sequence over diff_order, allow_lower, reverse_diags, allow_pentapy, padding; with or without
pentapy installed; every size) -/
theorem reset_eq_fresh (n : Nat) (hp : Bool) (cs : List Cfg) (c : Cfg) :
    reset (cs.foldl reset (initSys n hp)) c = fresh n hp c := Lemmas.reset_eq_fresh n hp cs c

/-- non-vacuity: a history passing through the lower∧reversed layout -/
example : (reset (reset (fresh 7 false ⟨2, true, some true, false, 0⟩) ⟨2, false, some false, true, 1⟩)
    ⟨2, true, none, true, 0⟩).orig = some (specRows 7 2 true) := by decide

end PbVerif.C11
