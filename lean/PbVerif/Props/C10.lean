import PbVerif.Lemmas.Backend
import PbVerif.Lemmas.PSpline
import PbVerif.Lemmas.BandMul
/-! C10 — answers do not depend on the linear-algebra back end: the part that is logic (layout selection, solver routing, the
matrix each solver reads from the array it is handed) is proved for all 4 × 2 configurations and every size; the numerical
agreement of the solvers and of the compiled / uncompiled kernels is the correspondence (worker processes with the optional
packages genuinely unimportable). -/
namespace PbVerif.C10
open PbVerif.Banded PbVerif.Whittaker PbVerif.Backend PbVerif.Lemmas

theorem route_pentapy_iff (n : Nat) (hasPentapy : Bool) (solver d : Nat) (al : Bool) (rev : Option Bool) (v : Nat) :
    route (setup n hasPentapy solver d al rev) solver = .pentapy v ↔ (hasPentapy = true ∧ solver < 3 ∧ d = 2 ∧ v = pentapyVariant solver) :=
  Lemmas.route_pentapy_iff n hasPentapy solver d al rev v
theorem route_solveh_iff (n : Nat) (hasPentapy : Bool) (solver d : Nat) (al : Bool) (rev : Option Bool) :
    route (setup n hasPentapy solver d al rev) solver = .solveh ↔ (al = true ∧ solver < 4 ∧ ¬ (hasPentapy = true ∧ solver < 3 ∧ d = 2)) :=
  Lemmas.route_solveh_iff n hasPentapy solver d al rev
theorem setup_flags (n : Nat) (hasPentapy : Bool) (solver d : Nat) (al : Bool) (rev : Option Bool) :
    let s := setup n hasPentapy solver d al rev
    s.usingPentapy = (decide (solver < 3) && hasPentapy && decide (d = 2)) ∧
    s.lower = (al && decide (solver < 4) && !s.usingPentapy) ∧
    s.reversed = (match rev with | some b => b | none => s.usingPentapy) ∧ s.diffOrder = d :=
  Lemmas.setup_flags n hasPentapy solver d al rev
theorem rowwise_is_reversed_transpose (ab : List (List Rat)) (u i j : Nat) (h : ab.length = 2 * u + 1) :
    denRowwise ab.reverse u i j = denFull ab u j i := denRowwise_reverse ab u i j h
theorem backend_independent (kind : Kind) (solver : Nat) (hs : 1 ≤ solver ∧ solver ≤ 4) (hasPentapy : Bool) (n d : Nat) (lam p1 : Rat)
    (w alpha : List Rat) (hw : w.length = n) (ha : alpha.length = n) (hd : 1 ≤ d) (i j : Nat) (hi : i < n) (hj : j < n) :
    denRoute (route (setup n hasPentapy solver d (methodFlags kind).1 (methodFlags kind).2) solver)
      (asmOf kind n d lam p1 w alpha (setup n hasPentapy solver d (methodFlags kind).1 (methodFlags kind).2)) d i j
      = docOf kind n d lam p1 w alpha i j :=
  Lemmas.backend_independent kind solver hs hasPentapy n d lam p1 w alpha hw ha hd i j hi hj
/-- numba present or absent: the compiled scatter loop and the explicit sparse product assemble the same `B'WB + λD'D` (C07) -/
theorem btb_paths_agree (deg nb d : Nat) (lam : Rat) (rows : List BSpline.Row) (ys ws : List Rat) (h : RowsWf deg nb rows)
    (hy : ys.length = rows.length) (hw : ws.length = rows.length) (i j : Nat) (hi : i < nb) (hj : j < nb) :
    denLower (PSpline.asmPspline deg nb d lam rows ys ws).1 i j = PSpline.btwbAt deg rows ws i j + lam * dtdQ nb d i j := by
  rw [Lemmas.pspline_asm_den deg nb d lam rows ys ws h hy hw i j hi hj, PSpline.docPspline, Lemmas.btbSpec_dense]

/-- the banded `beads` implementation (numba present) forms its matrices with `_banded_dot_banded`; the sparse implementation
(numba absent) with sparse matrix products: the band product IS the matrix product, for all band widths and sizes -/
theorem banded_product (a b : BandMul.Tbl) (al au bl bu n : Nat) (ha : BandShape a al au n) (hb : BandShape b bl bu n)
    (i j : Nat) (hi : i < n) (hj : j < n) :
    BandMul.den (BandMul.bandedDotBanded a b al au bl bu n) (al + bl) (au + bu) n i j = BandMul.prodAt a b al au bl bu n i j :=
  bandedDotBanded_den a b al au bl bu n ha hb i j hi hj
theorem banded_product_shape (a b : BandMul.Tbl) (al au bl bu n : Nat) :
    BandShape (BandMul.bandedDotBanded a b al au bl bu n) (al + bl) (au + bu) n := bandedDotBanded_shape a b al au bl bu n

example : BandMul.bandedDotBanded [[0,1,2,3,4],[5,6,7,8,9],[1,1,1,1,0]] [[0,2,2,2,2],[3,3,3,3,3],[4,4,4,4,0],[5,5,5,0,0]] 1 1 2 1 5 =
    [[0, 0, 2, 4, 6], [0, 13, 18, 23, 28], [19, 28, 35, 42, 29], [37, 46, 55, 39, 0], [39, 44, 49, 0, 0], [5, 5, 0, 0, 0]] := by decide +kernel
example : route (setup 7 true 1 2 true none) 1 = .pentapy 1 ∧ route (setup 7 true 2 2 true none) 2 = .pentapy 2 ∧
    route (setup 7 true 3 2 true none) 3 = .solveh ∧ route (setup 7 true 4 2 true none) 4 = .solveBanded ∧
    route (setup 7 false 1 2 true none) 1 = .solveh ∧ route (setup 7 true 1 3 true none) 1 = .solveh ∧
    route (setup 7 true 1 2 false (some true)) 1 = .pentapy 1 ∧ route (setup 7 false 2 2 false (some true)) 2 = .solveBanded := by decide +kernel

end PbVerif.C10
