import PbVerif.Lemmas.Wrapper
import PbVerif.Lemmas.Perm
import PbVerif.Gen.Registry
/-! C01 — every call returns a well-formed (baseline, params) pair or raises: shape / order / dtype
rule of the wrapper and length / stop-reason theorems of the loop skeleton. That each of the 95
numerical cores preserves the length of its input and yields finite numbers on noisy finite data is
outside the model (partial); it is evaluated on the real code by the correspondence. -/
namespace PbVerif.C01
open PbVerif.Wrapper PbVerif.Loop PbVerif.Lemmas PbVerif.Perm

/-- shape: the baseline (and every per-point parameter) has the canonical shape of the data: length-N
rows and columns come back one-dimensional; (M,N,1)-type stacks come back (M,N) -/
theorem wrapper_shape (n : Nat) (hn : 2 ≤ n) :
    resultShape false [n] = some [n] ∧ resultShape false [n, 1] = some [n] ∧ resultShape false [1, n] = some [n] :=
  canon1d_variants n hn
theorem wrapper_shape2d (m n : Nat) (hm : 2 ≤ m) (hn : 2 ≤ n) :
    resultShape true [m, n] = some [m, n] ∧ resultShape true [m, n, 1] = some [m, n] ∧ resultShape true [1, m, n] = some [m, n] ∧
    resultShape true [m, 1, n] = some [m, n] := canon2d_variants m n hm hn
/-- dtype: `output_dtype` if given, otherwise the data's dtype -/
theorem wrapper_dtype (d i : DType) : outDtype (some d) i = d ∧ outDtype none i = i := Lemmas.dtype_rule d i
/-- order: whatever the core returns in sorted order is handed back in the caller's order
(un-sorting after sorting is the identity on a length-N array) -/
theorem wrapper_order {α} (a : List α) (dflt : α) (σ : List Nat) (hσ : σ.Perm (List.range σ.length)) (ha : a.length = σ.length) :
    takeL (takeL a dflt σ) dflt (invertedSort σ) = a := take_take_inverted a dflt σ hσ ha

/-- the convergence record has at most `budget` (= max_iter + 1) entries … -/
theorem loop_hist_len (budget : Nat) (tol : Rat) (d : Nat → Rat) (exit : Nat → Bool) :
    (history budget tol d exit).length ≤ budget := by
  simp [history]; exact loop_len_le budget tol d exit
/-- … and ends below tol unless the budget or the early exit was hit; the three cases are exhaustive -/
theorem loop_stop_reason (budget : Nat) (tol : Rat) (d : Nat → Rat) (exit : Nat → Bool) :
    match runLoop budget tol d exit with
    | (len, .converged) => 1 ≤ len ∧ d (len - 1) < tol
    | (len, .exhausted) => len = budget
    | (len, .early) => exit len = true := by
  generalize h : runLoop budget tol d exit = r
  obtain ⟨len, s⟩ := r
  cases s
  · exact ⟨(loop_converged budget tol d exit len h).1, (loop_converged budget tol d exit len h).2.2.1⟩
  · exact (loop_exhausted budget tol d exit len h).1
  · exact (loop_early budget tol d exit len h).2.1

example : runLoop 5 (1/10) (fun k => 1 / ((k : Rat) + 1)) (fun _ => false) = (5, .exhausted) ∧
    runLoop 20 (1/10) (fun k => 1 / ((k : Rat) + 1)) (fun _ => false) = (11, .converged) ∧
    runLoop 20 (1/10) (fun k => 1 / ((k : Rat) + 1)) (fun k => k == 3) = (3, .early) := by decide +kernel

/-! ### table obligation over the regenerated method registry (Route A, `Gen/Registry`) -/
open PbVerif.Gen in
/-- a 2-D method whose core works on flattened arrays (`reshape_baseline`) names its per-point outputs in `reshape_keys`,
and no public method hands back a flat per-point array (observed on one probe call per method, every run) -/
def rowShaped (r : MethodRow) : Bool :=
  r.probed && r.flatKeys.isEmpty && (!r.twoD || r.skipSorting || r.reshapeKeys.all fun k => r.sortKeys.contains k)

open PbVerif.Gen in
theorem registry_perpoint_keys_shaped :
    registry.all rowShaped = true ∧ registryTranslated = true ∧ 90 ≤ registry.length := by decide +kernel

end PbVerif.C01
