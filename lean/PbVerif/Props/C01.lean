import PbVerif.Lemmas.Wrapper
import PbVerif.Lemmas.Perm
import PbVerif.Gen.Registry
import PbVerif.Lemmas.LoopTbl
import PbVerif.Lemmas.LoopNest
import PbVerif.Gen.Loops
/-! C01 — every call returns a well-formed (baseline, params) pair or raises: shape / order / dtype
rule of the wrapper and length / stop-reason theorems of the loop skeleton. That each of the 95
numerical cores preserves the length of its input and yields finite numbers on noisy finite data is
outside the model (partial); it is evaluated on the real code by the correspondence. -/
namespace PbVerif.C01
open PbVerif.Wrapper PbVerif.Loop PbVerif.Lemmas PbVerif.Perm

/-- shape: the baseline (and every per-point parameter) has the canonical shape of the data: length-N
rows and columns come back one-dimensional; (M,N,1)-type stacks come back (M,N) -/
theorem wrapper_shape (n : Nat) (hn : 2 ≤ n) :
    resultShape false [n] = some [n] ∧ resultShape false [n, 1] = some [n] ∧ resultShape false [1, n] = some [n] :=
  canon1d_variants n hn
theorem wrapper_shape2d (m n : Nat) (hm : 2 ≤ m) (hn : 2 ≤ n) :
    resultShape true [m, n] = some [m, n] ∧ resultShape true [m, n, 1] = some [m, n] ∧ resultShape true [1, m, n] = some [m, n] ∧
    resultShape true [m, 1, n] = some [m, n] := canon2d_variants m n hm hn
/-- dtype: `output_dtype` if given, otherwise the data's dtype -/
theorem wrapper_dtype (d i : DType) : outDtype (some d) i = d ∧ outDtype none i = i := Lemmas.dtype_rule d i
/-- order: whatever the core returns in sorted order is handed back in the caller's order
(un-sorting after sorting is the identity on a length-N array) -/
theorem wrapper_order {α} (a : List α) (dflt : α) (σ : List Nat) (hσ : σ.Perm (List.range σ.length)) (ha : a.length = σ.length) :
    takeL (takeL a dflt σ) dflt (invertedSort σ) = a := take_take_inverted a dflt σ hσ ha

/-- the convergence record has at most `budget` (= max_iter + 1) entries … -/
theorem loop_hist_len (budget : Nat) (tol : Rat) (d : Nat → Rat) (exit : Nat → Bool) :
    (history budget tol d exit).length ≤ budget := by
  simp [history]; exact loop_len_le budget tol d exit
/-- … and ends below tol unless the budget or the early exit was hit; the three cases are exhaustive -/
theorem loop_stop_reason (budget : Nat) (tol : Rat) (d : Nat → Rat) (exit : Nat → Bool) :
    match runLoop budget tol d exit with
    | (len, .converged) => 1 ≤ len ∧ d (len - 1) < tol
    | (len, .exhausted) => len = budget
    | (len, .early) => exit len = true := by
  generalize h : runLoop budget tol d exit = r
  obtain ⟨len, s⟩ := r
  cases s
  · exact ⟨(loop_converged budget tol d exit len h).1, (loop_converged budget tol d exit len h).2.2.1⟩
  · exact (loop_exhausted budget tol d exit len h).1
  · exact (loop_early budget tol d exit len h).2.1

example : runLoop 5 (1/10) (fun k => 1 / ((k : Rat) + 1)) (fun _ => false) = (5, .exhausted) ∧
    runLoop 20 (1/10) (fun k => 1 / ((k : Rat) + 1)) (fun _ => false) = (11, .converged) ∧
    runLoop 20 (1/10) (fun k => 1 / ((k : Rat) + 1)) (fun k => k == 3) = (3, .early) := by decide +kernel

/-! ### table obligation over the regenerated method registry (Route A, `Gen/Registry`) -/
open PbVerif.Gen in
/-- a 2-D method whose core works on flattened arrays (`reshape_baseline`) names its per-point outputs in `reshape_keys`,
and no public method hands back a flat per-point array (observed on one probe call per method, every run) -/
def rowShaped (r : MethodRow) : Bool :=
  r.probed && r.flatKeys.isEmpty && (!r.twoD || r.skipSorting || r.reshapeKeys.all fun k => r.sortKeys.contains k)

open PbVerif.Gen in
theorem registry_perpoint_keys_shaped :
    registry.all rowShaped = true ∧ registryTranslated = true ∧ 90 ≤ registry.length := by decide +kernel

/-! ### the iteration loops as they are written in the source (Route A, `Gen/Loops`, regenerated on every run)

`harness/pbv/translate_loops.py` reads, from every function of the algorithm modules that assigns `tol_history`, the allocation
`np.empty(…)`, the header `for i in range(…)`, every write `tol_history[i + c] = …`, the break tests and the final slice
`tol_history[:i + c]`; `LoopTbl.run` is the meaning of such a row for ARBITRARY numeric behaviour (`d k` = the value recorded in
step k, `fl k p` = the opaque condition tested at position p of the body in step k).  The statements below hold for every row of
the regenerated table, every `max_iter ≥ guard` (guard ≠ 0 only for dietrich, whose loop sits under `if max_iter > 1`), every
tol and every `d`, `fl`: one lemma for the generic row shape (`Lemmas.LoopTbl.ok_safe`) + `decide` over the table. -/
section Loops
open PbVerif.Gen PbVerif.LoopTbl PbVerif.Lemmas.LoopTbl

/-- every function that assigns `tol_history` was inside the translated fragment (no `translationFailed` marker) -/
theorem loops_translated : loopFailed = [] ∧ loopsTranslated = true ∧ 55 ≤ loopTable.length ∧ 5 ≤ nestTable.length := by decide +kernel

/-- the decidable row conditions hold for every translated method -/
theorem loops_rows_ok : loopTable.all Row.ok = true := by decide +kernel

theorem loops_row_ok {r : Row} (hr : r ∈ loopTable) : r.ok = true := List.all_eq_true.mp loops_rows_ok r hr

/-- `max_iter = 0` and the other empty ranges: the run raises (the loop variable is unbound when the slice is taken — an ordinary
exception, allowed by the property) exactly when `range(lo, hi(max_iter))` is empty; otherwise it returns -/
theorem loops_raise_iff_empty_range (r : Row) (hr : r ∈ loopTable) (n : Nat) (hn : r.guard ≤ n) (tol : Rat) (d : Nat → Rat)
    (fl : Nat → Nat → Bool) : (run r n tol d fl).raised = true ↔ r.budget n = 0 :=
  (ok_safe r (loops_row_ok hr) n hn tol d fl).raised_iff

/-- (a) every write `tol_history[i + c] = …` lands inside the allocation: no IndexError, and no silent wrap-around through a
negative index either -/
theorem loops_writes_in_bounds (r : Row) (hr : r ∈ loopTable) (n : Nat) (hn : r.guard ≤ n) (hb : r.budget n ≠ 0) (tol : Rat)
    (d : Nat → Rat) (fl : Nat → Nat → Bool) :
    ∀ x ∈ (run r n tol d fl).writes, 0 ≤ x.1 ∧ x.1 < r.alloc.eval n :=
  ((ok_safe r (loops_row_ok hr) n hn tol d fl).ran hb).writes_in

/-- (b) the final slice `tol_history[:i + c]` has a bound within the allocation, and EVERY entry it hands back was written (entry j
in step j): no uninitialised `np.empty` memory reaches the caller — on the converged, exhausted and early-exit paths alike; and
nothing that was recorded is cut off -/
theorem loops_slice_initialised (r : Row) (hr : r ∈ loopTable) (n : Nat) (hn : r.guard ≤ n) (hb : r.budget n ≠ 0) (tol : Rat)
    (d : Nat → Rat) (fl : Nat → Nat → Bool) :
    (0 ≤ (run r n tol d fl).slice ∧ (run r n tol d fl).slice ≤ r.alloc.eval n) ∧
    (∀ j : Nat, j < sliceLen (r.alloc.eval n) (run r n tol d fl).slice → ((j : Int), j) ∈ (run r n tol d fl).writes) ∧
    (∀ x ∈ (run r n tol d fl).writes, x.1 < (run r n tol d fl).slice) :=
  have s := (ok_safe r (loops_row_ok hr) n hn tol d fl).ran hb
  ⟨s.slice_in, s.slice_written, s.written_in_slice⟩

/-- (c) the returned record has at most `budget ≤ max_iter + 1` entries … -/
theorem loops_record_len (r : Row) (hr : r ∈ loopTable) (n : Nat) (hn : r.guard ≤ n) (hb : r.budget n ≠ 0) (tol : Rat)
    (d : Nat → Rat) (fl : Nat → Nat → Bool) :
    sliceLen (r.alloc.eval n) (run r n tol d fl).slice ≤ r.budget n ∧ r.budget n ≤ n + 1 :=
  have s := ok_safe r (loops_row_ok hr) n hn tol d fl
  ⟨by rw [(s.ran hb).slice_len]; exact (s.ran hb).len_le, s.budget_le⟩

/-- … and ends below tol unless the budget was exhausted or an early exit fired (the three reasons are exhaustive) -/
theorem loops_stop_reason (r : Row) (hr : r ∈ loopTable) (n : Nat) (hn : r.guard ≤ n) (hb : r.budget n ≠ 0) (tol : Rat)
    (d : Nat → Rat) (fl : Nat → Nat → Bool) :
    match (run r n tol d fl).stop with
    | .converged => 1 ≤ (run r n tol d fl).slice.toNat ∧ d ((run r n tol d fl).slice.toNat - 1) < tol
    | .exhausted => (run r n tol d fl).slice.toNat = r.budget n
    | .early => ∃ q, fl (run r n tol d fl).steps q = true := by
  have g := ((ok_safe r (loops_row_ok hr) n hn tol d fl).ran hb).good
  generalize hs : (run r n tol d fl).stop = s
  cases s
  · exact ⟨(g.conv hs).1, (g.conv hs).2.1⟩
  · simpa using (g.exh hs).1
  · exact (g.early hs).1

/-- (d) a row whose final test is `x < tol` behaves exactly as the hand skeleton `Loop.runLoop` with the row's own budget, fed with the
same difference stream and the row's early-exit flag — so `loop_hist_len`, `loop_stop_reason` and C09's `stop_*` / `hist_prefix` transfer
to each such method; the record is the skeleton's history -/
theorem loops_eq_skeleton (r : Row) (hr : r ∈ loopTable) (b : Bool) (hs : r.shape = some (b, .tol)) (n : Nat) (hn : r.guard ≤ n)
    (hb : r.budget n ≠ 0) (tol : Rat) (d : Nat → Rat) (fl : Nat → Nat → Bool) :
    ((run r n tol d fl).slice.toNat, (run r n tol d fl).stop) = runLoop (r.budget n) tol d (r.exitOf fl) ∧
    (run r n tol d fl).writes.map (fun x => d x.2) = history (r.budget n) tol d (r.exitOf fl) := by
  have h := run_eq_runLoop r (loops_row_ok hr) b hs n hb tol d fl
  refine ⟨h, ?_⟩
  have g := ((ok_safe r (loops_row_ok hr) n hn tol d fl).ran hb).good
  rw [g.writes_eq, history, ← h]
  simp [pairs, Function.comp_def]

/-- every translated single loop has the skeleton's shape ([flag exit,] record, test) -/
theorem loops_all_shaped : loopTable.all (fun r => r.shape.isSome) = true := by decide +kernel

/-- the other final tests (`x < tol or e`: ria; `x < tol and e`: jbcd): the same LENGTH as the skeleton run on the outcomes of that test -/
theorem loops_len_eq_skeleton (r : Row) (hr : r ∈ loopTable) (b : Bool) (t : Test) (hs : r.shape = some (b, t)) (n : Nat)
    (hb : r.budget n ≠ 0) (tol : Rat) (d : Nat → Rat) (fl : Nat → Nat → Bool) :
    (run r n tol d fl).slice.toNat = (runLoop (r.budget n) tol (r.enc t tol d fl) (r.exitOf fl)).1 ∧
    ((run r n tol d fl).stop = .exhausted ↔ (runLoop (r.budget n) tol (r.enc t tol d fl) (r.exitOf fl)).2 = .exhausted) :=
  run_len_eq_runLoop r (loops_row_ok hr) b t hs n hb tol d fl

/-- the budget code of `golden/loop_budget.json` ("N+1" / "N" / "N-1") is a corollary of the table: the number of iterations max_iter
allows is `max_iter + code`, `code = hi.const - lo` read off the loop header -/
theorem loops_budget_code (r : Row) (hr : r ∈ loopTable) (n : Nat) : r.hi.coef = 1 ∧ r.budget n = ((n : Int) + r.code).toNat := by
  have hc : r.hi.coef = 1 := by
    have : loopTable.all (fun r => r.hi.coef == 1) = true := by decide +kernel
    simpa using List.all_eq_true.mp this r hr
  exact ⟨hc, budget_code r hc n⟩

-- non-vacuity: rows of the regenerated table run on concrete streams (airpls: 1-based loop with the early exit; modpoly: range(max_iter))
example : (loopTable.find? (·.key == "airpls")).map (fun r => (r.budget 5,
      run r 5 (1/10) (fun k => 1 / ((k : Rat) + 1)) (fun _ _ => false),
      run r 20 (1/10) (fun k => 1 / ((k : Rat) + 1)) (fun _ _ => false),
      run r 20 (1/10) (fun k => 1 / ((k : Rat) + 1)) (fun k p => k == 3 && p == 0),
      run r 0 (1/10) (fun _ => 1) (fun k _ => k == 0))) =
    some (6, ⟨false, [(0,0),(1,1),(2,2),(3,3),(4,4),(5,5)], 6, 6, .exhausted⟩,
      ⟨false, [(0,0),(1,1),(2,2),(3,3),(4,4),(5,5),(6,6),(7,7),(8,8),(9,9),(10,10)], 11, 10, .converged⟩,
      ⟨false, [(0,0),(1,1),(2,2)], 3, 3, .early⟩,
      ⟨false, [], 0, 0, .early⟩) := by decide +kernel
example : (loopTable.find? (·.key == "modpoly")).map (fun r => ((run r 0 1 (fun _ => 0) (fun _ _ => false)).raised,
      run r 1 1 (fun _ => 0) (fun _ _ => false))) = some (true, ⟨false, [(0,0)], 1, 0, .converged⟩) := by decide +kernel

/-! #### the two-level loops (brpls, pspline_brpls and their 2-D versions; goldindec): `tol_history` is a `np.zeros` matrix with one
row per outer iteration; `d a k` = the value recorded in inner step k of outer step a, `fl a k p` / `ofl a p` the opaque conditions -/
open PbVerif.Lemmas.LoopNest in
theorem nest_rows_ok : nestTable.all NestRow.ok = true := by decide +kernel

open PbVerif.Lemmas.LoopNest in
/-- for every max_iter, max_iter_2, tol and numeric behaviour: the call raises exactly when one of the two ranges is empty (a loop
variable is unbound when read — an ordinary exception); otherwise every write `tol_history[i + r, j + c]` / `tol_history[r, i + c]`
is inside the allocation `(max_iter_2 + R, max(max_iter, max_iter_2) + C)`, the final slice `[:i + S, :max(i, j_max) + T]` is within
the allocation (so the record has at most max_iter_2 + R rows and max(max_iter, max_iter_2) + C columns), every recorded entry is
inside the slice, and the matrix was zero-initialised — nothing uninitialised can be handed back -/
theorem nest_memory_safe (r : NestRow) (hr : r ∈ nestTable) (m m2 : Nat) (tol : Rat) (d : Nat → Nat → Rat)
    (fl : Nat → Nat → Nat → Bool) (ofl : Nat → Nat → Bool) :
    r.zeroed = true ∧
    ((nrun r m m2 tol d fl ofl).raised = true ↔ ((m2 : Int) + r.ohi ≤ 0 ∨ (m : Int) + r.ihi ≤ 0)) ∧
    ((nrun r m m2 tol d fl ofl).raised = false →
      (∀ x ∈ (nrun r m m2 tol d fl ofl).writes, (0 ≤ x.1 ∧ x.1 < r.allocRows m2) ∧ (0 ≤ x.2 ∧ x.2 < r.allocCols m m2) ∧
        x.1 < (nrun r m m2 tol d fl ofl).srow ∧ x.2 < (nrun r m m2 tol d fl ofl).scol) ∧
      (0 ≤ (nrun r m m2 tol d fl ofl).srow ∧ (nrun r m m2 tol d fl ofl).srow ≤ r.allocRows m2) ∧
      (0 ≤ (nrun r m m2 tol d fl ofl).scol ∧ (nrun r m m2 tol d fl ofl).scol ≤ r.allocCols m m2)) := by
  have hok : r.ok = true := List.all_eq_true.mp nest_rows_ok r hr
  have s := ok_nsafe r hok m m2 tol d fl ofl
  refine ⟨?_, s.raised_iff, fun h => ?_⟩
  · simp only [NestRow.ok, Bool.and_eq_true] at hok
    exact hok.1.1.1.1.1.1.1.1.1
  · have g := s.ran h
    exact ⟨fun x hx => by have := g.writes x hx; tauto, g.srow_in, g.scol_in⟩

open PbVerif.Lemmas.LoopNest in
/-- no entry of a two-level record is written twice (no recorded value overwrites another): the inner loop fills row `i + r` left to right,
the outer writes go to their own constant rows below `r`, one column per outer step -/
theorem nest_no_overwrite (r : NestRow) (hr : r ∈ nestTable) (m m2 : Nat) (tol : Rat) (d : Nat → Nat → Rat)
    (fl : Nat → Nat → Nat → Bool) (ofl : Nat → Nat → Bool) : (nrun r m m2 tol d fl ofl).writes.Nodup :=
  nrun_nodup r (List.all_eq_true.mp nest_rows_ok r hr)
    (List.all_eq_true.mp (by decide +kernel : nestTable.all NestRow.distinct = true) r hr) m m2 tol d fl ofl

-- non-vacuity: brpls' row with max_iter = 2, max_iter_2 = 1: the inner loop converges in its third step in outer step 0 and takes the
-- early exit at once in outer step 1; goldindec's row raises for max_iter = 0
example : (nestTable.find? (·.key == "brpls")).map (fun r =>
      nrun r 2 1 (1/2) (fun _ k => 1 / ((k : Rat) + 1)) (fun a k p => a == 1 && k == 0 && p == 0) (fun _ _ => false)) =
    some ⟨false, [(1, 0), (1, 1), (1, 2), (0, 0), (0, 1)], 3, 3, 2⟩ := by decide +kernel
example : (nestTable.find? (·.key == "goldindec")).map (fun r =>
      ((nrun r 0 3 1 (fun _ _ => 0) (fun _ _ _ => false) (fun _ _ => false)).raised,
       nrun r 3 2 1 (fun _ _ => 0) (fun _ _ _ => false) (fun a p => a == 1 && p == 5))) =
    some (true, ⟨false, [(2, 0), (0, 0), (1, 0), (3, 0), (0, 1), (1, 1)], 4, 2, 2⟩) := by decide +kernel

end Loops

end PbVerif.C01
