import PbVerif.Lemmas.Own
import PbVerif.Gen.Inplace
/-! C13 — calls never modify the caller's arrays or dictionaries. -/
namespace PbVerif.C13
open PbVerif.Own PbVerif.Lemmas PbVerif.Gen

theorem own_sound (s : St) (prog : List Op) (h : writesFresh s prog = true) (k : Nat) :
    versionOf (run s prog) (.user k) = versionOf s (.user k) := Lemmas.own_sound s prog h k

theorem wrapper_alias_char (c : InCfg) (copyInput : Bool) :
    aliasesUser c copyInput = true ↔
      (c.isNdarray = true ∧ c.dtypeOk = true ∧ (c.needsRavel = true → c.ravelIsView = true) ∧ copyInput = false ∧ c.sorted = false) :=
  aliasesUser_iff c copyInput
theorem sorted_or_copy_fresh (c : InCfg) (copyInput : Bool) (h : c.sorted = true ∨ copyInput = true) :
    aliasesUser c copyInput = false := Lemmas.sorted_or_copy_fresh c copyInput h
theorem write_after_path (c : InCfg) (copyInput : Bool) :
    writesFresh (initSt 1) (arrayPath c copyInput ++ [.write 1]) = !aliasesUser c copyInput := Lemmas.write_after_path c copyInput

/-- a scanned in-place write is acceptable if its target cannot be one of the caller's objects:
it is a fresh local, or it comes from a `_setup_*` call that was asked to copy -/
def rowOk (r : InplaceRow) : Bool :=
  r.tkind == .other || r.origin == .fresh || r.origin == .setupCopy

/-- **table obligation** (re-checked against the scan of the current source on every run): every
in-place write found in a registered method hits a fresh buffer or a copied input -/
theorem inplace_table_fresh : inplaceTable.all rowOk = true ∧ inplaceTranslated = true := by decide

/-- non-vacuity: the configurations in which the core really works on the caller's buffer exist, and the
(N,1)-column case aliases too -/
example : aliasesUser ⟨true, true, false, false, false⟩ false = true ∧ aliasesUser ⟨true, true, true, true, false⟩ false = true ∧
    aliasesUser ⟨true, true, true, true, false⟩ true = false := by decide

end PbVerif.C13
