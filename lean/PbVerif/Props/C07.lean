import PbVerif.Lemmas.PSpline
/-! C07 — penalised-spline baselines solve the documented P-spline system: assembly theorems (the
solver is certified per output by an exact backward error in the correspondence). -/
namespace PbVerif.C07
open PbVerif.BSpline PbVerif.Whittaker PbVerif.PSpline PbVerif.Lemmas

theorem addDiagonals_den (a b : List (List Rat)) (n : Nat) (ha : RowsLen a n) (hb : RowsLen b n) (i j : Nat) (hi : i < n) (hj : j < n) :
    denLower (addDiagonalsLower a b n) i j = denLower a i j + denLower b i j := addDiagonalsLower_den a b n ha hb i j hi hj
theorem btb_is_dense_product (deg : Nat) (rows : List Row) (ws : List Rat) (i j : Nat) :
    btbSpec deg rows ws (max i j - min i j) (min i j) = btwbAt deg rows ws i j := btbSpec_dense deg rows ws i j
theorem pspline_asm_den (deg nb d : Nat) (lam : Rat) (rows : List Row) (ys ws : List Rat) (h : RowsWf deg nb rows)
    (hy : ys.length = rows.length) (hw : ws.length = rows.length) (i j : Nat) (hi : i < nb) (hj : j < nb) :
    denLower (asmPspline deg nb d lam rows ys ws).1 i j = docPspline deg nb d lam rows ws i j :=
  Lemmas.pspline_asm_den deg nb d lam rows ys ws h hy hw i j hi hj
theorem pspline_asm_rhs (deg nb d : Nat) (lam : Rat) (rows : List Row) (ys ws : List Rat) (h : RowsWf deg nb rows)
    (hy : ys.length = rows.length) (hw : ws.length = rows.length) (c : Nat) (hc : c < nb) :
    (asmPspline deg nb d lam rows ys ws).2.getD c 0 = btySpec deg rows ys ws c := Lemmas.pspline_asm_rhs deg nb d lam rows ys ws h hy hw c hc
/-- the rows B used by the certificate are the B-spline basis (partition of unity and Cox–de Boor equality are C12's theorems) -/
theorem basis_rows_wf (knots : List Rat) (deg : Nat) (xs : List Rat) (h : deg < knots.length - (deg + 1)) :
    RowsWf deg (knots.length - (deg + 1)) (designRows knots deg xs) ∧ (designRows knots deg xs).length = xs.length :=
  designRows_wf knots deg xs h
theorem basisMidpoints_length (numKnots deg : Nat) (h : 2 ≤ numKnots) :
    basisMidpointsCount (numKnots + 2 * deg) deg = numKnots + deg - 1 := basisMidpointsCount_eq numKnots deg h

example : (asmPspline 1 3 2 10 (designRows [-1, 0, 1, 2, 3] 1 [0, 1/2, 1]) [1, 2, 3] [1, 1, 1]).1 =
    [[45/4, 165/4, 10], [-79/4, -20, 0], [10, 0, 0]] := by decide +kernel

end PbVerif.C07
