import PbVerif.Lemmas.PSpline
import PbVerif.Lemmas.PSplineX
import PbVerif.Lemmas.BSplineAffine
/-! C07 — penalised-spline baselines solve the documented P-spline system: assembly theorems (the
solver is certified per output by an exact backward error in the correspondence). -/
namespace PbVerif.C07
open PbVerif.BSpline PbVerif.Whittaker PbVerif.PSpline PbVerif.Lemmas

theorem addDiagonals_den (a b : List (List Rat)) (n : Nat) (ha : RowsLen a n) (hb : RowsLen b n) (i j : Nat) (hi : i < n) (hj : j < n) :
    denLower (addDiagonalsLower a b n) i j = denLower a i j + denLower b i j := addDiagonalsLower_den a b n ha hb i j hi hj
theorem btb_is_dense_product (deg : Nat) (rows : List Row) (ws : List Rat) (i j : Nat) :
    btbSpec deg rows ws (max i j - min i j) (min i j) = btwbAt deg rows ws i j := btbSpec_dense deg rows ws i j
theorem pspline_asm_den (deg nb d : Nat) (lam : Rat) (rows : List Row) (ys ws : List Rat) (h : RowsWf deg nb rows)
    (hy : ys.length = rows.length) (hw : ws.length = rows.length) (i j : Nat) (hi : i < nb) (hj : j < nb) :
    denLower (asmPspline deg nb d lam rows ys ws).1 i j = docPspline deg nb d lam rows ws i j :=
  Lemmas.pspline_asm_den deg nb d lam rows ys ws h hy hw i j hi hj
theorem pspline_asm_rhs (deg nb d : Nat) (lam : Rat) (rows : List Row) (ys ws : List Rat) (h : RowsWf deg nb rows)
    (hy : ys.length = rows.length) (hw : ws.length = rows.length) (c : Nat) (hc : c < nb) :
    (asmPspline deg nb d lam rows ys ws).2.getD c 0 = btySpec deg rows ys ws c := Lemmas.pspline_asm_rhs deg nb d lam rows ys ws h hy hw c hc
/-- the rows B used by the certificate are the B-spline basis (partition of unity and Cox–de Boor equality are C12's theorems) -/
theorem basis_rows_wf (knots : List Rat) (deg : Nat) (xs : List Rat) (h : deg < knots.length - (deg + 1)) :
    RowsWf deg (knots.length - (deg + 1)) (designRows knots deg xs) ∧ (designRows knots deg xs).length = xs.length :=
  designRows_wf knots deg xs h
theorem basisMidpoints_length (numKnots deg : Nat) (h : 2 ≤ numKnots) :
    basisMidpointsCount (numKnots + 2 * deg) deg = numKnots + deg - 1 := basisMidpointsCount_eq numKnots deg h

/-- the drpls / aspls penalties are scaled by the weights interpolated at the centre of each basis function's support -/
theorem midpoints_are_support_centres (a h : Rat) (K deg i : Nat) (hi : i + deg + 1 < K) :
    (basisMidpoints (apKnots a h K) deg).getD i 0 = ((apKnots a h K).getD i 0 + (apKnots a h K).getD (i + deg + 1) 0) / 2 :=
  basisMidpoints_ap a h K deg i hi
theorem midpoints_length (knots : List Rat) (deg : Nat) :
    (basisMidpoints knots deg).length = basisMidpointsCount knots.length deg := Lemmas.basisMidpoints_length knots deg
theorem interp_node (xs vs : List Rat) (hx : xs.Pairwise (· < ·)) (hl : vs.length = xs.length) (j : Nat) (hj : j < xs.length) :
    npInterp xs vs (xs.getD j 0) = vs.getD j 0 := npInterp_node xs vs hx hl j hj
theorem interp_const (xs : List Rat) (v t : Rat) (hx : xs.Pairwise (· < ·)) (hn : 0 < xs.length) :
    npInterp xs (List.replicate xs.length v) t = v := npInterp_const xs v t hx hn
theorem interp_bounds (xs vs : List Rat) (lo hi t : Rat) (hx : xs.Pairwise (· < ·)) (hl : vs.length = xs.length) (hn : 0 < xs.length)
    (hb : ∀ v ∈ vs, lo ≤ v ∧ v ≤ hi) : lo ≤ npInterp xs vs t ∧ npInterp xs vs t ≤ hi := npInterp_bounds xs vs lo hi t hx hl hn hb

example : basisMidpoints (apKnots 0 1 9) 3 = [2, 3, 4, 5, 6] ∧ basisMidpoints (apKnots 0 1 7) 2 = [3/2, 5/2, 7/2, 9/2] := by decide +kernel
example : (asmPspline 1 3 2 10 (designRows [-1, 0, 1, 2, 3] 1 [0, 1/2, 1]) [1, 2, 3] [1, 1, 1]).1 =
    [[45/4, 165/4, 10], [-79/4, -20, 0], [10, 0, 0]] := by decide +kernel

/-! ### full-band layout (`PSpline.lower = False`) and the systems of `pspline_iasls`, `pspline_drpls`, `pspline_aspls`
(`spline.py`; the arrays are the `lhs`, `rhs` that `PSpline.solve_pspline` hands to `PenalizedSystem.solve`) -/

/-- `_lower_to_full` keeps the matrix -/
theorem lowerToFull_den (ab : List (List Rat)) (R n : Nat) (h : TblShape ab R n) (hR : 1 ≤ R) (i j : Nat) (hi : i < n) (hj : j < n) :
    denFull (lowerToFullQ ab) (R - 1) i j = denLower ab i j := denFull_lowerToFullQ ab R n h hR i j hi hj
/-- `_add_diagonals(a, b, lower_only=False)` adds the denoted matrices (odd row counts: the code raises on an odd mismatch) -/
theorem addDiagonalsFull_den (a b : List (List Rat)) (ua ub n : Nat) (ha : TblShape a (2 * ua + 1) n) (hb : TblShape b (2 * ub + 1) n) (i j : Nat) :
    denFull (addDiagonalsFull a b n) (max ua ub) i j = denFull a ua i j + denFull b ub i j := Lemmas.addDiagonalsFull_den a b ua ub n ha hb i j
/-- `_shift_rows(P[::-1] * w, u, u)` denotes `diag(w)·Pᵀ` for EVERY full-band table with `2u+1` rows (padded or not) -/
theorem shiftRows_reverse_colscale_any (P : List (List Rat)) (u n : Nat) (w : List Rat) (h : TblShape P (2 * u + 1) n) (hw : w.length = n)
    (i j : Nat) (hi : i < n) (hj : j < n) :
    denFull (shiftRows (colScale P.reverse w) u u) u i j = w.getD i 0 * denFull P u j i := denFull_shift_rev_colScale P u n w h hw i j hi hj

/-- **pspline_iasls** (lower bands, `banded_solver` 1–3): `lhs` denotes `B'W²B + λ₁ B'D₁'D₁B + λ D'D`, the extra penalty being the dense
double sum `Σ_k Σ_l B[k,i] (D₁'D₁)[k,l] B[l,j]` over the N ≥ 2 data points -/
theorem pspline_iasls_extra (deg nb d : Nat) (lam lam1 : Rat) (rows : List Row) (ys ws : List Rat) (h : RowsWf deg nb rows)
    (hy : ys.length = rows.length) (hw : ws.length = rows.length) (hN : 2 ≤ rows.length) (i j : Nat) (hi : i < nb) (hj : j < nb) :
    denLower (asmPIasls deg nb d lam lam1 rows ys ws true).1 i j = docPIasls deg nb d lam lam1 rows ws i j :=
  piasls_asm_den_lower deg nb d lam lam1 rows ys ws h hy hw hN i j hi hj
/-- … full bands (`banded_solver = 4`); `d < nb` is the `ValueError` guard of `PSpline.__init__`, `deg < nb` holds as `nb = num_knots + deg − 1` -/
theorem pspline_iasls_extra_full (deg nb d : Nat) (lam lam1 : Rat) (rows : List Row) (ys ws : List Rat) (h : RowsWf deg nb rows)
    (hy : ys.length = rows.length) (hw : ws.length = rows.length) (hN : 2 ≤ rows.length) (hdeg : deg < nb) (hd : d < nb)
    (i j : Nat) (hi : i < nb) (hj : j < nb) :
    denFull (asmPIasls deg nb d lam lam1 rows ys ws false).1 (nb - 1) i j = docPIasls deg nb d lam lam1 rows ws i j :=
  piasls_asm_den_full deg nb d lam lam1 rows ys ws h hy hw hN hdeg hd i j hi hj
/-- … and the right-hand side is `B'W²y + λ₁ B'D₁'D₁y` -/
theorem pspline_iasls_extra_rhs (deg nb d : Nat) (lam lam1 : Rat) (rows : List Row) (ys ws : List Rat) (lower : Bool) (h : RowsWf deg nb rows)
    (hy : ys.length = rows.length) (hw : ws.length = rows.length) (hN : 2 ≤ rows.length) (c : Nat) (hc : c < nb) :
    (asmPIasls deg nb d lam lam1 rows ys ws lower).2.getD c 0 = btySpec deg rows ys (ws.map fun v => v * v) c + lam1 * btd1yAt deg rows ys c :=
  piasls_asm_rhs deg nb d lam lam1 rows ys ws lower h hy hw hN c hc

/-- **pspline_drpls**: `lhs` denotes `B'WB + D₁'D₁ + λ (I − η W̃) D'D` for any vector `wt` with one entry per basis function -/
theorem pspline_drpls_asm_den (deg nb d : Nat) (lam eta : Rat) (rows : List Row) (ys ws wt : List Rat) (h : RowsWf deg nb rows)
    (hy : ys.length = rows.length) (hw : ws.length = rows.length) (hwt : wt.length = nb) (hd : 1 ≤ d)
    (i j : Nat) (hi : i < nb) (hj : j < nb) :
    denFull (asmPDrpls deg nb d lam eta rows ys ws wt).1 (d + (deg - d)) i j = docPDrpls deg nb d lam eta rows ws wt i j :=
  pdrpls_asm_den deg nb d lam eta rows ys ws wt h hy hw hwt hd i j hi hj
/-- … in particular with `W̃ = np.interp(_basis_midpoints(knots, deg), x, w)` on a knot vector of `num_knots + 2·deg` knots -/
theorem pspline_drpls_asm_den_midpoints (deg d numKnots : Nat) (lam eta : Rat) (knots xs ys ws : List Rat)
    (hk : knots.length = numKnots + 2 * deg) (h2 : 2 ≤ numKnots) (hy : ys.length = xs.length) (hw : ws.length = xs.length) (hd : 1 ≤ d)
    (i j : Nat) (hi : i < knots.length - (deg + 1)) (hj : j < knots.length - (deg + 1)) :
    denFull (asmPDrpls deg (knots.length - (deg + 1)) d lam eta (designRows knots deg xs) ys ws (interpMid knots xs ws deg)).1 (d + (deg - d)) i j
      = docPDrpls deg (knots.length - (deg + 1)) d lam eta (designRows knots deg xs) ws (interpMid knots xs ws deg) i j := by
  have hwf := designRows_wf knots deg xs (by omega)
  exact pdrpls_asm_den deg _ d lam eta _ ys ws _ hwf.1 (by rw [hwf.2, hy]) (by rw [hwf.2, hw])
    (interpMid_length knots xs ws deg numKnots hk h2) hd i j hi hj
/-- **pspline_aspls**: `lhs` denotes `B'WB + λ diag(α̃) D'D` -/
theorem pspline_aspls_asm_den (deg nb d : Nat) (lam : Rat) (rows : List Row) (ys ws at_ : List Rat) (h : RowsWf deg nb rows)
    (hy : ys.length = rows.length) (hw : ws.length = rows.length) (hat : at_.length = nb)
    (i j : Nat) (hi : i < nb) (hj : j < nb) :
    denFull (asmPAspls deg nb d lam rows ys ws at_).1 (d + (deg - d)) i j = docPAspls deg nb d lam rows ws at_ i j :=
  paspls_asm_den deg nb d lam rows ys ws at_ h hy hw hat i j hi hj
theorem pspline_aspls_asm_den_midpoints (deg d numKnots : Nat) (lam : Rat) (knots xs ys ws alpha : List Rat)
    (hk : knots.length = numKnots + 2 * deg) (h2 : 2 ≤ numKnots) (hy : ys.length = xs.length) (hw : ws.length = xs.length)
    (i j : Nat) (hi : i < knots.length - (deg + 1)) (hj : j < knots.length - (deg + 1)) :
    denFull (asmPAspls deg (knots.length - (deg + 1)) d lam (designRows knots deg xs) ys ws (interpMid knots xs alpha deg)).1 (d + (deg - d)) i j
      = docPAspls deg (knots.length - (deg + 1)) d lam (designRows knots deg xs) ws (interpMid knots xs alpha deg) i j := by
  have hwf := designRows_wf knots deg xs (by omega)
  exact paspls_asm_den deg _ d lam _ ys ws _ hwf.1 (by rw [hwf.2, hy]) (by rw [hwf.2, hw])
    (interpMid_length knots xs alpha deg numKnots hk h2) i j hi hj
/-- the right-hand side of both is `B'Wy` -/
theorem pspline_drpls_aspls_rhs (deg nb d : Nat) (lam eta : Rat) (rows : List Row) (ys ws wt : List Rat) (h : RowsWf deg nb rows)
    (hy : ys.length = rows.length) (hw : ws.length = rows.length) (c : Nat) (hc : c < nb) :
    (asmPDrpls deg nb d lam eta rows ys ws wt).2.getD c 0 = btySpec deg rows ys ws c ∧
    (asmPAspls deg nb d lam rows ys ws wt).2.getD c 0 = btySpec deg rows ys ws c :=
  ⟨bty_eq deg nb rows ys ws h hy hw c hc, bty_eq deg nb rows ys ws h hy hw c hc⟩

example : asmPIasls 1 3 2 10 (1/2) (designRows [-1, 0, 1, 2, 3] 1 [0, 1/2, 1]) [1, 2, 3] [1, 1/2, 1] true =
    ([[181/16, 661/16, 10], [-323/16, -20, 0], [10, 0, 0]], [3/4, 15/4, 0]) := by decide +kernel
example : (asmPIasls 1 3 2 10 (1/2) (designRows [-1, 0, 1, 2, 3] 1 [0, 1/2, 1]) [1, 2, 3] [1, 1/2, 1] false).1 =
    [[0, 0, 10], [0, -323/16, -20], [181/16, 661/16, 10], [-323/16, -20, 0], [10, 0, 0]] := by decide +kernel
example : (asmPDrpls 1 3 2 10 (1/2) (designRows [-1, 0, 1, 2, 3] 1 [0, 1/2, 1]) [1, 2, 3] [1, 1/2, 1] (interpMid [-1, 0, 1, 2, 3] [0, 1/2, 1] [1, 1/2, 1] 1)).1 =
    [[0, 0, 5], [0, -87/8, -11], [57/8, 185/8, 6], [-87/8, -11, 0], [5, 0, 0]] := by decide +kernel
example : (asmPAspls 1 3 2 10 (designRows [-1, 0, 1, 2, 3] 1 [0, 1/2, 1]) [1, 2, 3] [1, 1, 1] (interpMid [-1, 0, 1, 2, 3] [0, 1/2, 1] [1, 1/2, 1/4] 1)).1 =
    [[0, 0, 10], [0, -79/4, -5], [45/4, 45/4, 5/2], [-19/4, -5, 0], [5/2, 0, 0]] := by decide +kernel

/-! ### the P-spline system does not depend on the magnitude of the x-axis

Corollaries of C12's `basis_magnitude_free` (knots from the extremes of x, `_find_interval`, `_de_boor` are invariant under
`x ↦ a·x + b`, `a > 0`) and the assembly theorems above: what `PSpline.solve_pspline` hands to the solver for the data
`(a·x + b, y, w)` is, entry for entry, what it hands over for `(x, y, w)`; the penalty `λ D'D` never sees x. -/

/-- the assembled arrays `lhs`, `rhs` (lower bands) are identical, for every penalty order, `λ`, data and weights -/
theorem pspline_system_magnitude_free (a b : Rat) (ha : 0 < a) (xs : List Rat) (hx : xs ≠ []) (nk deg : Nat) (hnk : 2 ≤ nk)
    (nb d : Nat) (lam : Rat) (ys ws : List Rat) :
    asmPspline deg nb d lam (pSplineBasis (xs.map (fun t => a * t + b)) nk deg) ys ws =
      asmPspline deg nb d lam (pSplineBasis xs nk deg) ys ws := by
  rw [show pSplineBasis (xs.map (fun t => a * t + b)) nk deg = pSplineBasis xs nk deg from
    Affine.pSplineBasis_aff a b ha xs hx nk deg hnk]
/-- … so do those of `pspline_iasls` (both band layouts), which depend on x through the basis only -/
theorem pspline_iasls_system_magnitude_free (a b : Rat) (ha : 0 < a) (xs : List Rat) (hx : xs ≠ []) (nk deg : Nat) (hnk : 2 ≤ nk)
    (nb d : Nat) (lam lam1 : Rat) (ys ws : List Rat) (lower : Bool) :
    asmPIasls deg nb d lam lam1 (pSplineBasis (xs.map (fun t => a * t + b)) nk deg) ys ws lower =
      asmPIasls deg nb d lam lam1 (pSplineBasis xs nk deg) ys ws lower := by
  rw [show pSplineBasis (xs.map (fun t => a * t + b)) nk deg = pSplineBasis xs nk deg from
    Affine.pSplineBasis_aff a b ha xs hx nk deg hnk]
/-- … and they denote the documented system `B'WB + λ D'D`, `B'Wy` of the basis `B` OF `x` (`nb = num_knots + deg − 1` basis functions) -/
theorem pspline_system_of_scaled_x (a b : Rat) (ha : 0 < a) (xs : List Rat) (hx : xs ≠ []) (nk deg : Nat) (hnk : 2 ≤ nk)
    (d : Nat) (lam : Rat) (ys ws : List Rat) (hy : ys.length = xs.length) (hw : ws.length = xs.length) :
    let sys := asmPspline deg (nk + deg - 1) d lam (pSplineBasis (xs.map (fun t => a * t + b)) nk deg) ys ws
    (∀ i j, i < nk + deg - 1 → j < nk + deg - 1 →
      denLower sys.1 i j = docPspline deg (nk + deg - 1) d lam (pSplineBasis xs nk deg) ws i j) ∧
    (∀ c, c < nk + deg - 1 → sys.2.getD c 0 = btySpec deg (pSplineBasis xs nk deg) ys ws c) := by
  intro sys
  have hsys : sys = asmPspline deg (nk + deg - 1) d lam (pSplineBasis xs nk deg) ys ws :=
    pspline_system_magnitude_free a b ha xs hx nk deg hnk _ d lam ys ws
  have hlen : (xKnots xs nk deg).length = nk + 2 * deg := splineKnots_length _ _ nk deg
  have hnb : (xKnots xs nk deg).length - (deg + 1) = nk + deg - 1 := by omega
  have hwf := designRows_wf (xKnots xs nk deg) deg xs (by omega)
  rw [hnb] at hwf
  rw [hsys]
  exact ⟨fun i j hi hj => Lemmas.pspline_asm_den deg _ d lam _ ys ws hwf.1 (by rw [hy]; exact hwf.2.symm) (by rw [hw]; exact hwf.2.symm) i j hi hj,
    fun c hc => Lemmas.pspline_asm_rhs deg _ d lam _ ys ws hwf.1 (by rw [hy]; exact hwf.2.symm) (by rw [hw]; exact hwf.2.symm) c hc⟩

/-- non-vacuity: 5 points, 3 knots, linear basis, second-order penalty: the systems for `x`, `10⁻³⁰·x` and `x + 1.7·10⁹` coincide
and are not trivial -/
example :
    asmPspline 1 3 2 10 (pSplineBasis ([0, 1/4, 1/2, 7/10, 1].map (fun t => (1 / 1000000000000000000000000000000 : Rat) * t + 0)) 3 1) [1, 2, 3, 2, 1] [1, 1, 1/2, 1, 1] =
      asmPspline 1 3 2 10 (pSplineBasis [0, 1/4, 1/2, 7/10, 1] 3 1) [1, 2, 3, 2, 1] [1, 1, 1/2, 1, 1] ∧
    asmPspline 1 3 2 10 (pSplineBasis ([0, 1/4, 1/2, 7/10, 1].map (fun t => 1 * t + 1700000000)) 3 1) [1, 2, 3, 2, 1] [1, 1, 1/2, 1, 1] =
      asmPspline 1 3 2 10 (pSplineBasis [0, 1/4, 1/2, 7/10, 1] 3 1) [1, 2, 3, 2, 1] [1, 1, 1/2, 1, 1] ∧
    (asmPspline 1 3 2 10 (pSplineBasis [0, 1/4, 1/2, 7/10, 1] 3 1) [1, 2, 3, 2, 1] [1, 1, 1/2, 1, 1]).2 = [2, 37/10, 9/5] := by
  refine ⟨by decide +kernel, by decide +kernel, by decide +kernel⟩

end PbVerif.C07
