import PbVerif.Lemmas.PSpline
/-! C07 — penalised-spline baselines solve the documented P-spline system: assembly theorems (the
solver is certified per output by an exact backward error in the correspondence). -/
namespace PbVerif.C07
open PbVerif.BSpline PbVerif.Whittaker PbVerif.PSpline PbVerif.Lemmas

theorem addDiagonals_den (a b : List (List Rat)) (n : Nat) (ha : RowsLen a n) (hb : RowsLen b n) (i j : Nat) (hi : i < n) (hj : j < n) :
    denLower (addDiagonalsLower a b n) i j = denLower a i j + denLower b i j := addDiagonalsLower_den a b n ha hb i j hi hj
theorem btb_is_dense_product (deg : Nat) (rows : List Row) (ws : List Rat) (i j : Nat) :
    btbSpec deg rows ws (max i j - min i j) (min i j) = btwbAt deg rows ws i j := btbSpec_dense deg rows ws i j
theorem pspline_asm_den (deg nb d : Nat) (lam : Rat) (rows : List Row) (ys ws : List Rat) (h : RowsWf deg nb rows)
    (hy : ys.length = rows.length) (hw : ws.length = rows.length) (i j : Nat) (hi : i < nb) (hj : j < nb) :
    denLower (asmPspline deg nb d lam rows ys ws).1 i j = docPspline deg nb d lam rows ws i j :=
  Lemmas.pspline_asm_den deg nb d lam rows ys ws h hy hw i j hi hj
theorem pspline_asm_rhs (deg nb d : Nat) (lam : Rat) (rows : List Row) (ys ws : List Rat) (h : RowsWf deg nb rows)
    (hy : ys.length = rows.length) (hw : ws.length = rows.length) (c : Nat) (hc : c < nb) :
    (asmPspline deg nb d lam rows ys ws).2.getD c 0 = btySpec deg rows ys ws c := Lemmas.pspline_asm_rhs deg nb d lam rows ys ws h hy hw c hc
/-- the rows B used by the certificate are the B-spline basis (partition of unity and Cox–de Boor equality are C12's theorems) -/
theorem basis_rows_wf (knots : List Rat) (deg : Nat) (xs : List Rat) (h : deg < knots.length - (deg + 1)) :
    RowsWf deg (knots.length - (deg + 1)) (designRows knots deg xs) ∧ (designRows knots deg xs).length = xs.length :=
  designRows_wf knots deg xs h
theorem basisMidpoints_length (numKnots deg : Nat) (h : 2 ≤ numKnots) :
    basisMidpointsCount (numKnots + 2 * deg) deg = numKnots + deg - 1 := basisMidpointsCount_eq numKnots deg h

/-- the drpls / aspls penalties are scaled by the weights interpolated at the centre of each basis function's support -/
theorem midpoints_are_support_centres (a h : Rat) (K deg i : Nat) (hi : i + deg + 1 < K) :
    (basisMidpoints (apKnots a h K) deg).getD i 0 = ((apKnots a h K).getD i 0 + (apKnots a h K).getD (i + deg + 1) 0) / 2 :=
  basisMidpoints_ap a h K deg i hi
theorem midpoints_length (knots : List Rat) (deg : Nat) :
    (basisMidpoints knots deg).length = basisMidpointsCount knots.length deg := Lemmas.basisMidpoints_length knots deg
theorem interp_node (xs vs : List Rat) (hx : xs.Pairwise (· < ·)) (hl : vs.length = xs.length) (j : Nat) (hj : j < xs.length) :
    npInterp xs vs (xs.getD j 0) = vs.getD j 0 := npInterp_node xs vs hx hl j hj
theorem interp_const (xs : List Rat) (v t : Rat) (hx : xs.Pairwise (· < ·)) (hn : 0 < xs.length) :
    npInterp xs (List.replicate xs.length v) t = v := npInterp_const xs v t hx hn
theorem interp_bounds (xs vs : List Rat) (lo hi t : Rat) (hx : xs.Pairwise (· < ·)) (hl : vs.length = xs.length) (hn : 0 < xs.length)
    (hb : ∀ v ∈ vs, lo ≤ v ∧ v ≤ hi) : lo ≤ npInterp xs vs t ∧ npInterp xs vs t ≤ hi := npInterp_bounds xs vs lo hi t hx hl hn hb

example : basisMidpoints (apKnots 0 1 9) 3 = [2, 3, 4, 5, 6] ∧ basisMidpoints (apKnots 0 1 7) 2 = [3/2, 5/2, 7/2, 9/2] := by decide +kernel
example : (asmPspline 1 3 2 10 (designRows [-1, 0, 1, 2, 3] 1 [0, 1/2, 1]) [1, 2, 3] [1, 1, 1]).1 =
    [[45/4, 165/4, 10], [-79/4, -20, 0], [10, 0, 0]] := by decide +kernel

end PbVerif.C07
