import PbVerif.Lemmas.ThreadsLazy
import PbVerif.Lemmas.ThreadsPoly
import PbVerif.Lemmas.ThreadsPoly2
/-! C04 — one fitter object may be shared by concurrent threads: protocol theorems for every number of threads and every
schedule, and the witnesses showing that the orders before the repairs (and different polynomial orders) do fail. -/
namespace PbVerif.C04
open PbVerif.Threads PbVerif.Lemmas

theorem lazy1_fixed_safe (n : Nat) (sched : List Nat) :
    ∀ pc ∈ (runSched (Lazy1.proto true) Lazy1.init (List.replicate n Lazy1.PC.start) sched).2, pc ≠ Lazy1.PC.fail :=
  Lemmas.lazy1_fixed_safe n sched
theorem lazy1_given_safe (xLast : Bool) (n : Nat) (sched : List Nat) :
    ∀ pc ∈ (runSched (Lazy1.proto xLast) ⟨true, true, true⟩ (List.replicate n Lazy1.PC.start) sched).2, pc ≠ Lazy1.PC.fail :=
  Lemmas.lazy1_given_safe xLast n sched
theorem lazy1_terminates (xLast : Bool) (s : Lazy1.Sh) (pcs : List Lazy1.PC) (sched : List Nat) (i : Nat) (hi : i < pcs.length)
    (h0 : pcs[i]? = some Lazy1.PC.start) (hc : 4 ≤ sched.count i) :
    (runSched (Lazy1.proto xLast) s pcs sched).2[i]? = some Lazy1.PC.ok ∨ (runSched (Lazy1.proto xLast) s pcs sched).2[i]? = some Lazy1.PC.fail :=
  Lemmas.lazy1_terminates xLast s pcs sched i hi h0 hc
/-- the order before the repair (x published first) fails: thread 0 publishes x, thread 1 reads x and then the missing size -/
theorem lazy1_old_unsafe : Lazy1.PC.fail ∈ (runSched (Lazy1.proto false) Lazy1.init [.start, .start] [0, 0, 1, 1]).2 := by decide +kernel
theorem lazy2_fixed_safe (hasX hasZ : Bool) (n : Nat) (sched : List Nat) :
    ∀ pc ∈ (runSched (Lazy2.proto true) (Lazy2.init hasX hasZ) (List.replicate n Lazy2.PC.start) sched).2, pc ≠ Lazy2.PC.fail :=
  Lemmas.lazy2_fixed_safe hasX hasZ n sched
theorem lazy2_old_unsafe : Lazy2.PC.fail ∈ (runSched (Lazy2.proto false) (Lazy2.init false false) [.start, .start] [0, 0, 0, 0, 1, 1, 1]).2 := by
  decide +kernel
theorem basis_safe (p : Nat × Nat) (s0 : Basis.Sh) (n : Nat) (sched : List Nat) :
    ∀ pc ∈ (runSched (Basis.proto p) s0 (List.replicate n Basis.PC.start) sched).2, ∀ g, pc = Basis.PC.done g → g = some p :=
  Lemmas.basis_safe p s0 n sched
theorem poly_cold_safe (k : Nat) (cfg : List (Bool × Nat)) (sched : List Nat) :
    ∀ t ∈ (runSched Poly.proto Poly.cold (polyThreads k cfg) sched).2, t.serialOutcome := Lemmas.poly_cold_safe k cfg sched
theorem poly_warm_safe (j k : Nat) (pinvDone : Bool) (cfg : List (Bool × Nat)) (sched : List Nat) :
    ∀ t ∈ (runSched Poly.proto (Poly.warm j pinvDone) (polyThreads k cfg) sched).2, t.serialOutcome :=
  Lemmas.poly_warm_safe j k pinvDone cfg sched
theorem poly_terminates (s : Poly.Sh) (ts : List Poly.Thr) (sched : List Nat) (i : Nat) (t : Poly.Thr) (h0 : ts[i]? = some t)
    (hs : t.pc = .start) (hc : 20 + 2 * t.uses ≤ sched.count i) :
    ∃ t', (runSched Poly.proto s ts sched).2[i]? = some t' ∧ (t'.pc = .done ∨ t'.pc = .error) :=
  Lemmas.poly_terminates s ts sched i t h0 hs hc
theorem poly2_cold_safe (a b : Nat) (cfg : List (Bool × Nat)) (sched : List Nat) :
    ∀ t ∈ (runSched Poly2.proto Poly2.cold (poly2Threads a b cfg) sched).2, t.serialOutcome := Lemmas.poly2_cold_safe a b cfg sched
theorem poly2_warm_safe (a0 b0 a b : Nat) (pinvDone : Bool) (cfg : List (Bool × Nat)) (sched : List Nat) :
    ∀ t ∈ (runSched Poly2.proto (Poly2.warm a0 b0 pinvDone) (poly2Threads a b cfg) sched).2, t.serialOutcome :=
  Lemmas.poly2_warm_safe a0 b0 a b pinvDone cfg sched
theorem poly2_terminates (s : Poly2.Sh) (ts : List Poly2.Thr) (sched : List Nat) (i : Nat) (t : Poly2.Thr) (h0 : ts[i]? = some t)
    (hs : t.pc = .start) (hc : 20 + 2 * t.uses ≤ sched.count i) :
    ∃ t', (runSched Poly2.proto s ts sched).2[i]? = some t' ∧ (t'.pc = .done ∨ t'.pc = .error) :=
  Lemmas.poly2_terminates s ts sched i t h0 hs hc
/-- the documented condition (identical non-data arguments) is necessary: with two polynomial orders on one object — which is
what adaptive_minmax did inside a single call before its repair — a call multiplies by the other call's Vandermonde -/
theorem poly_different_orders_unsafe :
    ∃ t ∈ (runSched Poly.proto (Poly.warm 2 true) [Poly.thread 2 true 1, Poly.thread 3 true 1]
      [0, 0, 0, 0, 0, 0, 0, 0, 0, 0, 1, 1, 1, 1, 1, 1, 1, 0, 0, 0]).2, ¬ t.serialOutcome := by decide +kernel

/-- the spline-basis cache must be REPLACED as a whole (what `basis_safe` models): if it were reset field by field, a second
call could pass the `same_basis` test on the new key and then use the old design matrix -/
theorem basis_inplace_unsafe :
    BasisInPlace.PC.done (9, 3) ∈ (runSched (BasisInPlace.proto (5, 3)) ⟨(9, 3), (9, 3)⟩ [.same, .same] [0, 0, 1, 1]).2 := by decide +kernel

-- the serial runs themselves end well (the hypotheses above are not vacuous)
example : (runSched (Lazy1.proto true) Lazy1.init [.start, .start] [0, 0, 0, 0, 1, 1]).2 = [.ok, .ok] := by decide +kernel
example : (runSched (Lazy2.proto true) (Lazy2.init false false) [.start] (List.replicate 12 0)).2 = [.ok] := by decide +kernel
example : ((runSched Poly.proto Poly.cold [Poly.thread 3 true 2] (List.replicate 30 0)).2.map fun t => (t.pc, t.gotPinv, t.usedOk))
    = [(.done, some (some 3), true)] := by decide +kernel

example : ((runSched Poly2.proto (Poly2.warm 1 0 true) [Poly2.thread 2 1 true 1] (List.replicate 30 0)).2.map fun t => (t.pc, t.gotPinv, t.usedOk))
    = [(.done, some (some (2, 1)), true)] := by decide +kernel

end PbVerif.C04
