import PbVerif.Lemmas.Morph
import PbVerif.Lemmas.Morph2d
import PbVerif.Lemmas.Hull
/-! C14 — morphological baselines never exceed the data and commute with shifts.
Property theorems only (model: `PbVerif.Model.Morph`, SciPy's reflect-mode flat morphology). -/
namespace PbVerif.C14
open PbVerif.Morph PbVerif.Lemmas PbVerif.Lemmas.Hull

/-- reflection commutes with symmetric-window erosion and dilation (any length ≥ 1, any h, also
windows longer than the data) — the lemma that lets the finite-signal laws be read off the
lattice laws of the infinite extension -/
theorem refl_erode_comm (h : Nat) (f : List Rat) (hf : f ≠ []) (i : Int) :
    ext (erode h f) i = winMin (ext f) h i := ext_erode h f hf i
theorem refl_dilate_comm (h : Nat) (f : List Rat) (hf : f ≠ []) (i : Int) :
    ext (dilate h f) i = winMax (ext f) h i := ext_dilate h f hf i

/-- tophat: the opening lies at or below the data, for every size and every half window -/
theorem tophat_le (h : Nat) (f : List Rat) : LeL (tophat h f) f := opening_le h f
/-- tophat of its own output changes nothing -/
theorem tophat_idem (h : Nat) (f : List Rat) : tophat h (tophat h f) = tophat h f := opening_idem h f
/-- adding a constant to the data adds it to the tophat baseline -/
theorem tophat_shift (h : Nat) (f : List Rat) (c : Rat) : tophat h (f.map (· + c)) = (tophat h f).map (· + c) :=
  opening_shift h f c

theorem mor_le (h : Nat) (f : List Rat) : LeL (mor h f) f := Lemmas.mor_le h f
theorem mor_shift (h : Nat) (f : List Rat) (c : Rat) : mor h (f.map (· + c)) = (mor h f).map (· + c) :=
  Lemmas.mor_shift h f c
/-- every imor iterate (hence the returned one, whatever max_iter/tol) is at or below the data -/
theorem imor_le (h : Nat) (y : List Rat) (k : Nat) : LeL (imorIter h y k) y := Lemmas.imor_le h y k

/-- snip without smoothing: for EVERY padding of width M = max half window, every filter order,
per-side windows and both window orders, the result has the data's length and is ≤ the data -/
theorem snip_length (order hwL hwR : Nat) (dec : Bool) (padded : List Rat) :
    (snipCore order hwL hwR dec padded).length = padded.length - 2 * max hwL hwR :=
  snipCore_length order hwL hwR dec padded
theorem snip_le (order hwL hwR : Nat) (dec : Bool) (pl data pr : List Rat)
    (hl : pl.length = max hwL hwR) (hr : pr.length = max hwL hwR) :
    LeL (snipCore order hwL hwR dec (pl ++ data ++ pr)) data := snipCore_le order hwL hwR dec pl data pr hl hr
/-- … and commutes with shifts of the (padded) data: each filter's coefficients sum to one -/
theorem snip_shift (order hwL hwR : Nat) (dec : Bool) (padded : List Rat) (c : Rat) :
    snipCore order hwL hwR dec (padded.map (· + c)) = (snipCore order hwL hwR dec padded).map (· + c) :=
  snipCore_shift order hwL hwR dec padded c

/-- non-vacuity / sanity: concrete signals where the window exceeds the data length -/
example : tophat 3 [3, 1, 4] = [1, 1, 1] ∧ mor 1 [3, 1, 4, 1, 5] = [1, 1, 1, 1, 1] := by decide +kernel
example : snipCore 4 2 2 false [5, 5, 5, 7, 9, 6, 5, 5, 5] = [5, 7, 7, 6, 5] := by decide +kernel

/-! ### 2-D: `pybaselines/two_d/morphological.py` (`tophat`, `mor`, `imor`, `_avg_opening`)
`scipy.ndimage.grey_erosion/grey_dilation/grey_opening(y, 2*half_wind + 1)` with a 2-D size: a flat
(2hr+1)×(2hc+1) window, `mode='reflect'` on both axes; model `erode2d/dilate2d/opening2d hr hc` = a pass along the rows
(`hc`) followed by a pass down the columns (`hr`).  A matrix is a list of rows; the hypotheses `∀ row ∈ m, row.length = N`,
`0 < m.length`, `0 < N` say that it is an M×N array with M, N ≥ 1 (a 2-D NumPy array is rectangular; the model's `transpose`
loses the shape of a ragged or column-less list, so the hypotheses are needed and are stated, never supplied by `getD`).
All statements hold for EVERY shape and EVERY pair of half windows, equal or not, also windows longer than an axis.
`LeM a b`: same number of rows and `LeL` row by row; `shiftM c m` = `m + c`; `ext2 m` = the doubly reflected extension. -/

/-- `transpose` is an involution on M×N matrices -/
theorem transpose_transpose (m : List (List Rat)) (N : Nat) (hrect : ∀ row ∈ m, row.length = N)
    (hM : 0 < m.length) (hN : 0 < N) : transpose (transpose m) = m :=
  Lemmas.transpose_transpose ⟨rfl, hrect⟩ hM hN
/-- … onto N×M matrices -/
theorem transpose_shape (m : List (List Rat)) (N : Nat) (hrect : ∀ row ∈ m, row.length = N) (hM : 0 < m.length) :
    (transpose m).length = N ∧ ∀ row ∈ transpose m, row.length = m.length :=
  rect_transpose ⟨rfl, hrect⟩ hM

/-- shape: erosion, dilation, opening, mor and every imor iterate are M×N again -/
theorem erode2d_shape (hr hc : Nat) (m : List (List Rat)) (N : Nat) (hrect : ∀ row ∈ m, row.length = N)
    (hM : 0 < m.length) (hN : 0 < N) :
    (erode2d hr hc m).length = m.length ∧ ∀ row ∈ erode2d hr hc m, row.length = N :=
  rect_erode2d hr hc ⟨rfl, hrect⟩ hM hN
theorem dilate2d_shape (hr hc : Nat) (m : List (List Rat)) (N : Nat) (hrect : ∀ row ∈ m, row.length = N)
    (hM : 0 < m.length) (hN : 0 < N) :
    (dilate2d hr hc m).length = m.length ∧ ∀ row ∈ dilate2d hr hc m, row.length = N :=
  rect_dilate2d hr hc ⟨rfl, hrect⟩ hM hN
theorem opening2d_shape (hr hc : Nat) (m : List (List Rat)) (N : Nat) (hrect : ∀ row ∈ m, row.length = N)
    (hM : 0 < m.length) (hN : 0 < N) :
    (opening2d hr hc m).length = m.length ∧ ∀ row ∈ opening2d hr hc m, row.length = N :=
  rect_opening2d hr hc ⟨rfl, hrect⟩ hM hN
theorem mor2d_shape (hr hc : Nat) (m : List (List Rat)) (N : Nat) (hrect : ∀ row ∈ m, row.length = N)
    (hM : 0 < m.length) (hN : 0 < N) :
    (mor2d hr hc m).length = m.length ∧ ∀ row ∈ mor2d hr hc m, row.length = N :=
  rect_mor2d hr hc ⟨rfl, hrect⟩ hM hN
theorem imor2d_shape (hr hc : Nat) (m : List (List Rat)) (N : Nat) (hrect : ∀ row ∈ m, row.length = N)
    (hM : 0 < m.length) (hN : 0 < N) (k : Nat) :
    (imorIter2d hr hc m k).length = m.length ∧ ∀ row ∈ imorIter2d hr hc m k, row.length = N :=
  rect_imorIter2d hr hc ⟨rfl, hrect⟩ hM hN k

/-- what the two passes compute: on the doubly reflected extension `erode2d` is THE minimum over the
(2hr+1)×(2hc+1) rectangle centred at (i, j) — a lower bound of every cell of the rectangle and the greatest one —
for all integer (i, j), i.e. reflection commutes with the 2-D erosion; dually for `dilate2d` -/
theorem erode2d_rect_min (hr hc : Nat) (m : List (List Rat)) (N : Nat) (hrect : ∀ row ∈ m, row.length = N)
    (hM : 0 < m.length) (hN : 0 < N) (i j : Int) :
    (∀ a b : Int, -(hr:Int) ≤ a → a ≤ hr → -(hc:Int) ≤ b → b ≤ hc → ext2 (erode2d hr hc m) i j ≤ ext2 m (i + a) (j + b)) ∧
    (∀ c : Rat, (∀ a b : Int, -(hr:Int) ≤ a → a ≤ hr → -(hc:Int) ≤ b → b ≤ hc → c ≤ ext2 m (i + a) (j + b)) →
      c ≤ ext2 (erode2d hr hc m) i j) := by
  rw [ext2_erode2d hr hc ⟨rfl, hrect⟩ hM hN]
  exact ⟨fun a b => E2_le hr hc _ i j a b, fun c H => le_E2 hr hc _ i j c H⟩
theorem dilate2d_rect_max (hr hc : Nat) (m : List (List Rat)) (N : Nat) (hrect : ∀ row ∈ m, row.length = N)
    (hM : 0 < m.length) (hN : 0 < N) (i j : Int) :
    (∀ a b : Int, -(hr:Int) ≤ a → a ≤ hr → -(hc:Int) ≤ b → b ≤ hc → ext2 m (i + a) (j + b) ≤ ext2 (dilate2d hr hc m) i j) ∧
    (∀ c : Rat, (∀ a b : Int, -(hr:Int) ≤ a → a ≤ hr → -(hc:Int) ≤ b → b ≤ hc → ext2 m (i + a) (j + b) ≤ c) →
      ext2 (dilate2d hr hc m) i j ≤ c) := by
  rw [ext2_dilate2d hr hc ⟨rfl, hrect⟩ hM hN]
  exact ⟨fun a b => le_D2 hr hc _ i j a b, fun c H => D2_le hr hc _ i j c H⟩
/-- the extension restricted to the index range is the matrix itself (so the two theorems above speak about the entries) -/
theorem ext2_entry (m : List (List Rat)) (N : Nat) (hrect : ∀ row ∈ m, row.length = N) (i j : Nat)
    (hi : i < m.length) (hj : j < N) : ext2 m (i : Int) (j : Int) = (m.getD i []).getD j 0 :=
  ext2_of_lt ⟨rfl, hrect⟩ i j hi hj

/-- 2-D tophat: the opening lies at or below the data at every entry -/
theorem tophat2d_le (hr hc : Nat) (m : List (List Rat)) (N : Nat) (hrect : ∀ row ∈ m, row.length = N)
    (hM : 0 < m.length) (hN : 0 < N) : LeM (opening2d hr hc m) m :=
  opening2d_le hr hc ⟨rfl, hrect⟩ hM hN
/-- 2-D tophat of its own output changes nothing -/
theorem tophat2d_idem (hr hc : Nat) (m : List (List Rat)) (N : Nat) (hrect : ∀ row ∈ m, row.length = N)
    (hM : 0 < m.length) (hN : 0 < N) : opening2d hr hc (opening2d hr hc m) = opening2d hr hc m :=
  opening2d_idem hr hc ⟨rfl, hrect⟩ hM hN
/-- adding a constant to the data adds it to the 2-D tophat baseline -/
theorem tophat2d_shift (hr hc : Nat) (m : List (List Rat)) (N : Nat) (c : Rat) (hrect : ∀ row ∈ m, row.length = N)
    (hM : 0 < m.length) (hN : 0 < N) : opening2d hr hc (shiftM c m) = shiftM c (opening2d hr hc m) :=
  opening2d_shift hr hc c ⟨rfl, hrect⟩ hM hN
/-- 2-D mor = `np.minimum(opening, _avg_opening(y, half_wind, opening))` is at or below the data -/
theorem mor2d_le (hr hc : Nat) (m : List (List Rat)) (N : Nat) (hrect : ∀ row ∈ m, row.length = N)
    (hM : 0 < m.length) (hN : 0 < N) : LeM (mor2d hr hc m) m :=
  Lemmas.mor2d_le hr hc ⟨rfl, hrect⟩ hM hN
theorem mor2d_shift (hr hc : Nat) (m : List (List Rat)) (N : Nat) (c : Rat) (hrect : ∀ row ∈ m, row.length = N)
    (hM : 0 < m.length) (hN : 0 < N) : mor2d hr hc (shiftM c m) = shiftM c (mor2d hr hc m) :=
  Lemmas.mor2d_shift hr hc c ⟨rfl, hrect⟩ hM hN
/-- every 2-D imor iterate `np.minimum(y, _avg_opening(baseline, half_wind))` (hence the returned one, whatever
max_iter/tol) is at or below the data -/
theorem imor2d_le (hr hc : Nat) (m : List (List Rat)) (N : Nat) (hrect : ∀ row ∈ m, row.length = N)
    (hM : 0 < m.length) (hN : 0 < N) (k : Nat) : LeM (imorIter2d hr hc m k) m :=
  Lemmas.imor2d_le hr hc ⟨rfl, hrect⟩ hM hN k

/-- non-vacuity / sanity on a 3×4 matrix with unequal windows, the row window 2·2+1 = 5 longer than the 4 columns,
(and (2, 1): the column window longer than the 3 rows; (1, 0): a pure column pass): the hypotheses hold, the baselines
are not the data, `mor` and `imor` produce values that are not entries of the data -/
example : (∀ row ∈ [[3, 1, 4, 1], [5, 9, 7, 6], [5, 8, 9, 8]], row.length = 4) ∧
    0 < [[(3 : Rat), 1, 4, 1], [5, 9, 7, 6], [5, 8, 9, 8]].length := by decide
example : opening2d 1 2 [[3, 1, 4, 1], [5, 9, 7, 6], [5, 8, 9, 8]] = [[1, 1, 1, 1], [5, 6, 6, 6], [5, 6, 6, 6]] ∧
    erode2d 1 2 [[3, 1, 4, 1], [5, 9, 7, 6], [5, 8, 9, 8]] = [[1, 1, 1, 1], [1, 1, 1, 1], [5, 5, 5, 6]] ∧
    opening2d 2 1 [[3, 1, 4, 1], [5, 9, 7, 6], [5, 8, 9, 8]] = [[1, 1, 1, 1], [1, 1, 1, 1], [1, 1, 1, 1]] ∧
    opening2d 1 0 [[3, 1, 4, 1], [5, 9, 2, 6], [5, 3, 5, 8]] = [[3, 1, 2, 1], [5, 3, 2, 6], [5, 3, 2, 6]] ∧
    opening2d 0 1 [[3, 1, 4, 1], [5, 9, 2, 6], [5, 3, 5, 8]] = [[1, 1, 1, 1], [5, 5, 2, 2], [3, 3, 5, 5]] := by
  decide +kernel
example : mor2d 1 2 [[3, 1, 4, 1], [5, 9, 7, 6], [5, 8, 9, 8]] = [[1, 1, 1, 1], [7/2, 7/2, 7/2, 7/2], [5, 11/2, 11/2, 6]] ∧
    imorIter2d 1 2 [[3, 1, 4, 1], [5, 9, 7, 6], [5, 8, 9, 8]] 2
      = [[9/4, 1, 9/4, 1], [9/4, 9/4, 9/4, 9/4], [7/2, 7/2, 7/2, 7/2]] := by decide +kernel
example : opening2d 1 2 (shiftM 7 [[3, 1, 4, 1], [5, 9, 7, 6], [5, 8, 9, 8]]) = [[8, 8, 8, 8], [12, 13, 13, 13], [12, 13, 13, 13]] ∧
    transpose [[3, 1, 4, 1], [5, 9, 7, 6], [5, 8, 9, 8]] = [[3, 5, 5], [1, 9, 8], [4, 7, 9], [1, 6, 8]] := by decide +kernel
/-- the shape hypotheses are needed: on a ragged list the model's `transpose` pads with `getD`'s default and the
result does not even have the shape of the "data" (so `LeM` fails); a column-less list loses its rows -/
example : opening2d 0 0 [[1, 2], [3]] = [[1, 2], [3, 0]] ∧ opening2d 1 1 [[], []] = [] := by decide +kernel
/-- a row dilation and a column erosion do NOT commute (which is why the proofs go through the per-axis adjunctions
and the commutation of the two erosions / the two dilations only) -/
example : rowsThenCols (erode 1) (dilate 1) [[0, 1], [1, 0]] = [[1, 1], [1, 1]] ∧
    ((transpose [[0, 1], [1, 0]]).map (erode 1) |> transpose).map (dilate 1) = [[0, 0], [0, 0]] := by decide +kernel

/-! ### rubberband without smoothing = THE lower convex hull
`pybaselines/classification.py:_Classification.rubberband` (`lam` None/0): Qhull's vertices become `mask`, the
baseline is `np.interp(x, x[mask], y[mask])` = `hullInterp pts mask` with `pts = zip x y`.  Qhull is a black box;
the harness evaluates `isLowerHull pts mask` on every real output, and these theorems say what an accepted
certificate implies.  `XInc pts` (x strictly increasing) is the code's guard `require_unique_x=True` after the
wrapper's sort; `px pts i`/`py pts i` are the coordinates of the i-th point. -/

/-- certificate accepted ⇒ the baseline has the data's length, is (a) at or below the data everywhere, (b) equal
to the data at every masked vertex, and (c) convex: for every triple i<j<k of the grid the middle value lies on or
below the chord of the outer two -/
theorem lowerHull_cert_sound (pts : List (Rat × Rat)) (mask : List Bool) (hx : XInc pts)
    (hc : isLowerHull pts mask = true) :
    (hullInterp pts mask).length = pts.length ∧
    (∀ i, i < pts.length → (hullInterp pts mask).getD i 0 ≤ py pts i) ∧
    (∀ i, i < pts.length → mask.getD i false = true → (hullInterp pts mask).getD i 0 = py pts i) ∧
    (∀ i j k, i < j → j < k → k < pts.length →
      (px pts k - px pts i) * (hullInterp pts mask).getD j 0
        ≤ (px pts k - px pts j) * (hullInterp pts mask).getD i 0 + (px pts j - px pts i) * (hullInterp pts mask).getD k 0) :=
  ⟨hullInterp_length pts mask, fun _ hi => cert_le pts mask hx hc hi, fun _ hi hm => cert_touch pts mask hx hi hm,
    cert_convex pts mask hx hc⟩

/-- (c) in slope form: the slope from i to j never exceeds the slope from j to k -/
theorem lowerHull_slopes_mono (pts : List (Rat × Rat)) (mask : List Bool) (hx : XInc pts)
    (hc : isLowerHull pts mask = true) (i j k : Nat) (hij : i < j) (hjk : j < k) (hk : k < pts.length) :
    ((hullInterp pts mask).getD j 0 - (hullInterp pts mask).getD i 0) / (px pts j - px pts i)
      ≤ ((hullInterp pts mask).getD k 0 - (hullInterp pts mask).getD j 0) / (px pts k - px pts j) :=
  (convex3_slopes (g := fun i => (hullInterp pts mask).getD i 0) (xinc_F hx i j hij (by omega)) (xinc_F hx j k hjk hk)).mp
    (cert_convex pts mask hx hc i j k hij hjk hk)

/-- the certified baseline is the GREATEST convex minorant of the data on the grid: every `g` that is convex
(three-point inequality for all i<j<k, `Convex3`) and at or below the data is at or below the baseline -/
theorem lowerHull_greatest (pts : List (Rat × Rat)) (mask : List Bool) (hx : XInc pts)
    (hc : isLowerHull pts mask = true) (g : Nat → Rat) (hg : Convex3 pts g)
    (hle : ∀ i, i < pts.length → g i ≤ py pts i) :
    ∀ i, i < pts.length → g i ≤ (hullInterp pts mask).getD i 0 :=
  fun _ hi => cert_greatest pts mask hx hc g hg hle hi

/-- hence "the" lower convex hull: two masks that both pass the certificate (they may differ in collinear points)
give the same baseline -/
theorem lowerHull_unique (pts : List (Rat × Rat)) (m1 m2 : List Bool) (hx : XInc pts)
    (h1 : isLowerHull pts m1 = true) (h2 : isLowerHull pts m2 = true) : hullInterp pts m1 = hullInterp pts m2 :=
  cert_unique pts m1 m2 hx h1 h2

/-- adding a constant to the data: the certificate accepts exactly the same masks, and the baseline moves by the
constant (guard of the real code: `np.interp` raises on an empty `x[mask]`, so at least one masked point) -/
theorem lowerHull_shift (c : Rat) (pts : List (Rat × Rat)) (mask : List Bool) :
    isLowerHull (shiftPts c pts) mask = isLowerHull pts mask ∧
    ((∃ i, i < pts.length ∧ mask.getD i false = true) →
      hullInterp (shiftPts c pts) mask = (hullInterp pts mask).map (· + c)) :=
  ⟨isLowerHull_shift c pts mask, hullInterp_shift c pts mask⟩

/-- non-vacuity: a five-point hull with one point strictly above it (the interpolated value 1/3 is not a datum);
a mask that skips the lowest point is rejected -/
example : XInc [(0, 2), (1, 0), (2, 3), (4, 1), (5, 4)] := by unfold XInc; decide +kernel
example : isLowerHull [(0, 2), (1, 0), (2, 3), (4, 1), (5, 4)] [true, true, false, true, true] = true ∧
    hullInterp [(0, 2), (1, 0), (2, 3), (4, 1), (5, 4)] [true, true, false, true, true] = [2, 0, 1/3, 1, 4] ∧
    isLowerHull [(0, 2), (1, 0), (2, 3), (4, 1), (5, 4)] [true, false, false, false, true] = false ∧
    isLowerHull [(0, 2), (1, 0), (2, 3), (4, 1), (5, 4)] [true, true, true, true, true] = false := by decide +kernel
/-- a convex minorant strictly below the hull somewhere: the hypothesis of `lowerHull_greatest` is satisfiable by
something other than the hull itself -/
example : Convex3 [(0, 2), (1, 0), (2, 3), (4, 1), (5, 4)] (fun i => [2, 0, 0, 0, 0].getD i 0) ∧
    (∀ i, i < 5 → (fun i => [2, 0, 0, 0, 0].getD i 0) i ≤ py [(0, 2), (1, 0), (2, 3), (4, 1), (5, 4)] i) := by
  constructor
  · intro i j k hij hjk hk
    exact (by decide +kernel : ∀ k, k < 5 → ∀ j, j < k → ∀ i, i < j →
      (px [(0, 2), (1, 0), (2, 3), (4, 1), (5, 4)] k - px [(0, 2), (1, 0), (2, 3), (4, 1), (5, 4)] i) * [2, 0, 0, 0, 0].getD j 0
        ≤ (px [(0, 2), (1, 0), (2, 3), (4, 1), (5, 4)] k - px [(0, 2), (1, 0), (2, 3), (4, 1), (5, 4)] j) * [2, 0, 0, 0, 0].getD i 0
          + (px [(0, 2), (1, 0), (2, 3), (4, 1), (5, 4)] j - px [(0, 2), (1, 0), (2, 3), (4, 1), (5, 4)] i) * [2, 0, 0, 0, 0].getD k 0)
      k hk j hjk i hij
  · decide +kernel
/-- two different accepted masks (a collinear point kept or dropped) with the same baseline -/
example : isLowerHull [(0, 0), (1, 1), (2, 2), (3, 5)] [true, false, true, true] = true ∧
    isLowerHull [(0, 0), (1, 1), (2, 2), (3, 5)] [true, true, true, true] = true ∧
    hullInterp [(0, 0), (1, 1), (2, 2), (3, 5)] [true, false, true, true] = [0, 1, 2, 5] ∧
    hullInterp [(0, 0), (1, 1), (2, 2), (3, 5)] [true, true, true, true] = [0, 1, 2, 5] := by decide +kernel
example : hullInterp (shiftPts 7 [(0, 2), (1, 0), (2, 3), (4, 1), (5, 4)]) [true, true, false, true, true]
    = [9, 7, 22/3, 8, 11] := by decide +kernel
/-- the guard of the shift law is needed only because the model totalises `np.interp` on an empty sample list -/
example : hullInterp (shiftPts 7 [(0, 2)]) [false] ≠ (hullInterp [(0, 2)] [false]).map (· + 7) := by decide +kernel

/-- `segments`: `rubberband` takes the hull of each segment separately, marks all their vertices in ONE mask and calls
`np.interp` once over the whole mask.  The last point of a segment and the first point of the next are hull vertices
(the certificate demands both ends), so the baseline is the concatenation of the per-segment interpolants — each of which
the theorems above describe.  (Two segments; any number follows by repeating the split.) -/
theorem rubberband_segments_interp (A B : List (Rat × Rat)) (mA mB : List Bool) (hx : XInc (A ++ B))
    (hlen : mA.length = A.length) (hA : 0 < A.length) (hlastA : mA.getD (A.length - 1) false = true)
    (hB : 0 < B.length) (hfirstB : mB.getD 0 false = true) :
    hullInterp (A ++ B) (mA ++ mB) = hullInterp A mA ++ hullInterp B mB :=
  hullInterp_append A B mA mB hx hlen hA hlastA hB hfirstB
example : isLowerHull [(0, 2), (1, 0), (2, 3)] [true, true, true] = true ∧
    isLowerHull [(4, 1), (5, 4), (6, 3)] [true, false, true] = true ∧
    hullInterp ([(0, 2), (1, 0), (2, 3)] ++ [(4, 1), (5, 4), (6, 3)]) ([true, true, true] ++ [true, false, true])
      = [2, 0, 3, 1, 2, 3] ∧
    isLowerHull ([(0, 2), (1, 0), (2, 3)] ++ [(4, 1), (5, 4), (6, 3)]) ([true, true, true] ++ [true, false, true]) = false := by
  decide +kernel

end PbVerif.C14
