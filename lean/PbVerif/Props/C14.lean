import PbVerif.Lemmas.Morph
/-! C14 — morphological baselines never exceed the data and commute with shifts.
Property theorems only (model: `PbVerif.Model.Morph`, SciPy's reflect-mode flat morphology). -/
namespace PbVerif.C14
open PbVerif.Morph PbVerif.Lemmas

/-- reflection commutes with symmetric-window erosion and dilation (any length ≥ 1, any h, also
windows longer than the data) — the lemma that lets the finite-signal laws be read off the
lattice laws of the infinite extension -/
theorem refl_erode_comm (h : Nat) (f : List Rat) (hf : f ≠ []) (i : Int) :
    ext (erode h f) i = winMin (ext f) h i := ext_erode h f hf i
theorem refl_dilate_comm (h : Nat) (f : List Rat) (hf : f ≠ []) (i : Int) :
    ext (dilate h f) i = winMax (ext f) h i := ext_dilate h f hf i

/-- tophat: the opening lies at or below the data, for every size and every half window -/
theorem tophat_le (h : Nat) (f : List Rat) : LeL (tophat h f) f := opening_le h f
/-- tophat of its own output changes nothing -/
theorem tophat_idem (h : Nat) (f : List Rat) : tophat h (tophat h f) = tophat h f := opening_idem h f
/-- adding a constant to the data adds it to the tophat baseline -/
theorem tophat_shift (h : Nat) (f : List Rat) (c : Rat) : tophat h (f.map (· + c)) = (tophat h f).map (· + c) :=
  opening_shift h f c

theorem mor_le (h : Nat) (f : List Rat) : LeL (mor h f) f := Lemmas.mor_le h f
theorem mor_shift (h : Nat) (f : List Rat) (c : Rat) : mor h (f.map (· + c)) = (mor h f).map (· + c) :=
  Lemmas.mor_shift h f c
/-- every imor iterate (hence the returned one, whatever max_iter/tol) is at or below the data -/
theorem imor_le (h : Nat) (y : List Rat) (k : Nat) : LeL (imorIter h y k) y := Lemmas.imor_le h y k

/-- snip without smoothing: for EVERY padding of width M = max half window, every filter order,
per-side windows and both window orders, the result has the data's length and is ≤ the data -/
theorem snip_length (order hwL hwR : Nat) (dec : Bool) (padded : List Rat) :
    (snipCore order hwL hwR dec padded).length = padded.length - 2 * max hwL hwR :=
  snipCore_length order hwL hwR dec padded
theorem snip_le (order hwL hwR : Nat) (dec : Bool) (pl data pr : List Rat)
    (hl : pl.length = max hwL hwR) (hr : pr.length = max hwL hwR) :
    LeL (snipCore order hwL hwR dec (pl ++ data ++ pr)) data := snipCore_le order hwL hwR dec pl data pr hl hr
/-- … and commutes with shifts of the (padded) data: each filter's coefficients sum to one -/
theorem snip_shift (order hwL hwR : Nat) (dec : Bool) (padded : List Rat) (c : Rat) :
    snipCore order hwL hwR dec (padded.map (· + c)) = (snipCore order hwL hwR dec padded).map (· + c) :=
  snipCore_shift order hwL hwR dec padded c

/-- non-vacuity / sanity: concrete signals where the window exceeds the data length -/
example : tophat 3 [3, 1, 4] = [1, 1, 1] ∧ mor 1 [3, 1, 4, 1, 5] = [1, 1, 1, 1, 1] := by decide +kernel
example : snipCore 4 2 2 false [5, 5, 5, 7, 9, 6, 5, 5, 5] = [5, 7, 7, 6, 5] := by decide +kernel

end PbVerif.C14
