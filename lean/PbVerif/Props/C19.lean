import PbVerif.Lemmas.Loess
/-! C19 — LOESS: which points are fitted, with which windows, and how skipped points are filled.
(The equality of the memory strategies is decided by the correspondence; see DESIGN.md.) -/
namespace PbVerif.C19
open PbVerif.Loess PbVerif.Lemmas

/-- the first and last points are always fitted; fitted indices strictly increase -/
theorem fits_sorted_ends (x : List Rat) (tp : Nat) (delta : Rat) (hn : 2 ≤ x.length) :
    let fits := (determineFitsX x tp delta).2.1
    fits.Pairwise (· < ·) ∧ fits.head? = some 0 ∧ fits.getLast? = some (x.length - 1) :=
  Lemmas.fits_sorted_ends x tp delta hn

/-- with `delta = 0` (or negative) every point is fitted individually -/
theorem delta0_all (x : List Rat) (tp : Nat) (delta : Rat) (hd : delta ≤ 0) (hn : 1 ≤ x.length) :
    (determineFitsX x tp delta).2.1 = List.range x.length ∧ (determineFitsX x tp delta).2.2 = [] :=
  Lemmas.delta0_all x tp delta hd hn

/-- every local fit uses exactly `total_points` neighbouring points inside the data … -/
theorem windows_size (x : List Rat) (tp : Nat) (delta : Rat) (hn : 1 ≤ x.length) (htp : 1 ≤ tp) (htpn : tp ≤ x.length) :
    ∀ w ∈ (determineFitsX x tp delta).1, 0 ≤ w.1 ∧ w.2 ≤ (x.length : Int) ∧ w.2 - w.1 = (tp : Int) :=
  determineFits_windows_inb _ x.length tp _ hn htp htpn
/-- … that contain the point being fitted (sorted, pairwise distinct x) -/
theorem windows_contain_fit (x : List Rat) (tp : Nat) (delta : Rat) (hx : StrictMonoL x)
    (hn : 1 ≤ x.length) (htp : 1 ≤ tp) (htpn : tp ≤ x.length) :
    let r := determineFitsX x tp delta
    ∀ k, k < r.2.1.length → (r.1.getD k (0, 0)).1 ≤ ((r.2.1.getD k 0 : Nat) : Int) ∧
      ((r.2.1.getD k 0 : Nat) : Int) < (r.1.getD k (0, 0)).2 :=
  Lemmas.windows_contain_fit x tp delta hx hn htp htpn

/-- skipped points are exactly the gaps between consecutive fits … -/
theorem skips_are_gaps (x : List Rat) (tp : Nat) (delta : Rat) (hn : 2 ≤ x.length) :
    let r := determineFitsX x tp delta
    r.2.2.filter (fun s => s.1 + 2 < s.2) =
      ((r.2.1.zip r.2.1.tail).filter (fun p => p.1 + 1 < p.2)).map (fun p => (p.1, p.2 + 1)) :=
  Lemmas.skips_are_gaps x tp delta hn
/-- … and each is put on the straight line between its two fitted neighbours -/
theorem fillSkips_chord (x b : List Rat) (l r k : Nat) (hlen : x.length = b.length) (hk : l < k ∧ k + 1 < r) (hr : r ≤ b.length) :
    (fillSkips x b [(l, r)]).getD k 0 =
      b.getD l 0 + (x.getD k 0 - x.getD l 0) * ((b.getD (r - 1) 0 - b.getD l 0) / (x.getD (r - 1) 0 - x.getD l 0)) :=
  Lemmas.fillSkips_chord x b l r k hlen hk hr
theorem fillSkips_fixed (x b : List Rat) (l r k : Nat) (hk : ¬ (l < k ∧ k + 1 < r)) (hkb : k < b.length) :
    (fillSkips x b [(l, r)]).getD k 0 = b.getD k 0 := Lemmas.fillSkips_fixed x b l r k hk hkb

/-- non-vacuity: 7 equally spaced points, 3-point windows, delta = 2.1 -/
example : determineFitsX [0, 1, 2, 3, 4, 5, 6] 3 (21/10) =
    ([(0, 3), (1, 4), (3, 6), (3, 6), (4, 7)], [0, 2, 4, 5, 6], [(0, 3), (2, 5), (4, 6)]) := by decide +kernel
/-- the repaired corner: `total_points = N` with a skipped tail keeps the window inside the data -/
example : determineFitsX [0, 1, 2] 3 (21/10) = ([(0, 3), (0, 3), (0, 3)], [0, 1, 2], [(0, 2)]) := by decide +kernel

end PbVerif.C19
