import PbVerif.Lemmas.Loess
import PbVerif.Lemmas.LoessKern
import PbVerif.Lemmas.LoessRepro
import PbVerif.Lemmas.LoessAffine
/-! C19 — LOESS: which points are fitted, with which windows, and how skipped points are filled; the two memory
strategies (`conserve_memory`) compute the same baseline and coefficients; data on a polynomial of degree
≤ poly_order is reproduced at every fitted point. -/
namespace PbVerif.C19
open PbVerif.Loess PbVerif.Lemmas PbVerif.LoessKern PbVerif.Lemmas.LoessKern PbVerif.Poly

/-- the first and last points are always fitted; fitted indices strictly increase -/
theorem fits_sorted_ends (x : List Rat) (tp : Nat) (delta : Rat) (hn : 2 ≤ x.length) :
    let fits := (determineFitsX x tp delta).2.1
    fits.Pairwise (· < ·) ∧ fits.head? = some 0 ∧ fits.getLast? = some (x.length - 1) :=
  Lemmas.fits_sorted_ends x tp delta hn

/-- with `delta = 0` (or negative) every point is fitted individually -/
theorem delta0_all (x : List Rat) (tp : Nat) (delta : Rat) (hd : delta ≤ 0) (hn : 1 ≤ x.length) :
    (determineFitsX x tp delta).2.1 = List.range x.length ∧ (determineFitsX x tp delta).2.2 = [] :=
  Lemmas.delta0_all x tp delta hd hn

/-- every local fit uses exactly `total_points` neighbouring points inside the data … -/
theorem windows_size (x : List Rat) (tp : Nat) (delta : Rat) (hn : 1 ≤ x.length) (htp : 1 ≤ tp) (htpn : tp ≤ x.length) :
    ∀ w ∈ (determineFitsX x tp delta).1, 0 ≤ w.1 ∧ w.2 ≤ (x.length : Int) ∧ w.2 - w.1 = (tp : Int) :=
  determineFits_windows_inb _ x.length tp _ hn htp htpn
/-- … that contain the point being fitted (sorted, pairwise distinct x) -/
theorem windows_contain_fit (x : List Rat) (tp : Nat) (delta : Rat) (hx : StrictMonoL x)
    (hn : 1 ≤ x.length) (htp : 1 ≤ tp) (htpn : tp ≤ x.length) :
    let r := determineFitsX x tp delta
    ∀ k, k < r.2.1.length → (r.1.getD k (0, 0)).1 ≤ ((r.2.1.getD k 0 : Nat) : Int) ∧
      ((r.2.1.getD k 0 : Nat) : Int) < (r.1.getD k (0, 0)).2 :=
  Lemmas.windows_contain_fit x tp delta hx hn htp htpn

/-- skipped points are exactly the gaps between consecutive fits … -/
theorem skips_are_gaps (x : List Rat) (tp : Nat) (delta : Rat) (hn : 2 ≤ x.length) :
    let r := determineFitsX x tp delta
    r.2.2.filter (fun s => s.1 + 2 < s.2) =
      ((r.2.1.zip r.2.1.tail).filter (fun p => p.1 + 1 < p.2)).map (fun p => (p.1, p.2 + 1)) :=
  Lemmas.skips_are_gaps x tp delta hn
/-- … and each is put on the straight line between its two fitted neighbours -/
theorem fillSkips_chord (x b : List Rat) (l r k : Nat) (hlen : x.length = b.length) (hk : l < k ∧ k + 1 < r) (hr : r ≤ b.length) :
    (fillSkips x b [(l, r)]).getD k 0 =
      b.getD l 0 + (x.getD k 0 - x.getD l 0) * ((b.getD (r - 1) 0 - b.getD l 0) / (x.getD (r - 1) 0 - x.getD l 0)) :=
  Lemmas.fillSkips_chord x b l r k hlen hk hr
theorem fillSkips_fixed (x b : List Rat) (l r k : Nat) (hk : ¬ (l < k ∧ k + 1 < r)) (hkb : k < b.length) :
    (fillSkips x b [(l, r)]).getD k 0 = b.getD k 0 := Lemmas.fillSkips_fixed x b l r k hk hkb

/-- non-vacuity: 7 equally spaced points, 3-point windows, delta = 2.1 -/
example : determineFitsX [0, 1, 2, 3, 4, 5, 6] 3 (21/10) =
    ([(0, 3), (1, 4), (3, 6), (3, 6), (4, 7)], [0, 2, 4, 5, 6], [(0, 3), (2, 5), (4, 6)]) := by decide +kernel
/-- the repaired corner: `total_points = N` with a skipped tail keeps the window inside the data -/
example : determineFitsX [0, 1, 2] 3 (21/10) = ([(0, 3), (0, 3), (0, 3)], [0, 1, 2], [(0, 2)]) := by decide +kernel

/-! ### invariance under the magnitude of the x-axis

`x ↦ a·x + b` with `a > 0`, and `delta ↦ a·delta` (`delta` is a length on the x-axis; the public default is
`0.01·(max x - min x)`, which scales by itself).  Every test of `_determine_fits` compares differences of
x-values with each other or with `delta`; an absolute slack in any of them (`+ _MIN_FLOAT`, `isclose`) contradicts
the statements below on an axis of small or large magnitude. -/

/-- **which points are fitted, with which windows, and which ranges are skipped does not depend on the offset
or scale of x.**  Guards of the real code: at least one point, `total_points ≥ 1` (the second-to-last test reads
`x[num_x - total_points]`; with `total_points = 0` that index is out of range and the statement is false for the
totalised model). -/
theorem determineFits_affine_invariant (a b : Rat) (ha : 0 < a) (x : List Rat) (tp : Nat) (delta : Rat)
    (hn : 1 ≤ x.length) (htp : 1 ≤ tp) :
    determineFitsX (x.map (fun t => a * t + b)) tp (a * delta) = determineFitsX x tp delta :=
  LoessAffine.determineFitsX_aff a b ha x tp delta hn htp

/-- the selection depends on the data only through the answers to the comparisons it can ask (`skip` with
`lastFit < i`, `adv` with `left ≤ right < N`, `tail`), for arbitrary oracles -/
theorem determineFits_congr (o o' : Oracle) (n tp : Nat) (check : Bool) (h : LoessAffine.Agree n o o') :
    determineFits o n tp check = determineFits o' n tp check := LoessAffine.determineFits_congr o o' n tp check h

/-- `_fill_skips` / `_interp_inplace`: the chord interpolation is invariant too (any `a ≠ 0`).  Guards: every skip
range lies inside the data (`C05.determineFits_skips_inb`), the two ends of each chord have distinct abscissae (the
real code divides by their difference). -/
theorem fillSkips_affine_invariant (a b : Rat) (ha : a ≠ 0) (x y : List Rat) (skips : List (Nat × Nat))
    (hlen : x.length = y.length) (hs : ∀ p ∈ skips, p.1 < p.2 ∧ p.2 ≤ x.length)
    (hdist : ∀ p ∈ skips, x.getD (p.2 - 1) 0 ≠ x.getD p.1 0) :
    fillSkips (x.map (fun t => a * t + b)) y skips = fillSkips x y skips :=
  have _ := hdist; LoessAffine.fillSkips_aff a b ha x y skips hlen hs

/-- non-vacuity: 7 unevenly spaced points, `a = 10⁻³⁰, b = 0` and `a = 1, b = 1.7·10⁹`; the selection is the
non-trivial one (skips present), and moving x WITHOUT scaling delta does change it -/
example :
    determineFitsX ([0, 1, 2, 7/2, 4, 5, 6].map (fun t => (1 / 1000000000000000000000000000000 : Rat) * t + 0)) 3
        ((1 / 1000000000000000000000000000000 : Rat) * (21/10)) = determineFitsX [0, 1, 2, 7/2, 4, 5, 6] 3 (21/10) ∧
    determineFitsX ([0, 1, 2, 7/2, 4, 5, 6].map (fun t => 1 * t + 1700000000)) 3 (1 * (21/10)) =
      determineFitsX [0, 1, 2, 7/2, 4, 5, 6] 3 (21/10) ∧
    determineFitsX [0, 1, 2, 7/2, 4, 5, 6] 3 (21/10) =
      ([(0, 3), (1, 4), (3, 6), (3, 6), (4, 7)], [0, 2, 4, 5, 6], [(0, 3), (2, 5), (4, 6)]) ∧
    determineFitsX ([0, 1, 2, 7/2, 4, 5, 6].map (fun t => (1 / 1000 : Rat) * t + 0)) 3 (21/10) ≠
      determineFitsX [0, 1, 2, 7/2, 4, 5, 6] 3 (21/10) := by
  refine ⟨by decide +kernel, by decide +kernel, by decide +kernel, by decide +kernel⟩
example :
    fillSkips ([0, 1, 2, 7/2, 4, 5, 6].map (fun t => (1 / 1000000000000000000000000000000 : Rat) * t + 5)) [3, 0, 1, 4, 0, 2, 2] [(0, 3), (3, 6)] =
      fillSkips [0, 1, 2, 7/2, 4, 5, 6] [3, 0, 1, 4, 0, 2, 2] [(0, 3), (3, 6)] ∧
    fillSkips [0, 1, 2, 7/2, 4, 5, 6] [3, 0, 1, 4, 0, 2, 2] [(0, 3), (3, 6)] = [3, 2, 1, 4, 10/3, 2, 2] := by
  refine ⟨by decide +kernel, by decide +kernel⟩

/-- the distance kernel of a local fit (`difference / max(difference[0], difference[-1])`, tricube, `sqrt`) is the
same on `a·x + b`, for ANY `sqrt`: it depends on ratios of differences only.  Guards: the fit index is a data
index, and the kernel is computed without dividing by zero (`kernel_den_pos` below gives this for the windows of
`_determine_fits` on sorted distinct x; the proof does not use it, `a·d / (a·0) = d / 0` in the totalised model). -/
theorem kernel_affine_invariant (sqrt : Rat → Rat) (a b : Rat) (ha : 0 < a) (x : List Rat) (i left right : Nat)
    (hi : i < x.length) (hden : kernelDen (ratNum sqrt) x i left right ≠ 0) :
    kernelOf (ratNum sqrt) (x.map (fun t => a * t + b)) i left right = kernelOf (ratNum sqrt) x i left right :=
  have _ := hden; LoessAffine.kernelOf_aff sqrt a b ha x i left right hi
example :
    kernelOf (ratNum (sqrtApprox 16)) ([-1, -1/2, 0, 3/4, 1].map (fun t => (1 / 1000000000000000000000000000000 : Rat) * t + 0)) 2 0 4 =
      kernelOf (ratNum (sqrtApprox 16)) [-1, -1/2, 0, 3/4, 1] 2 0 4 ∧
    kernelOf (ratNum (sqrtApprox 16)) ([-1, -1/2, 0, 3/4, 1].map (fun t => 1 * t + 1700000000)) 2 0 4 =
      kernelOf (ratNum (sqrtApprox 16)) [-1, -1/2, 0, 3/4, 1] 2 0 4 ∧
    kernelDen (ratNum (sqrtApprox 16)) [-1, -1/2, 0, 3/4, 1] 2 0 4 = 1 ∧
    (kernelOf (ratNum (sqrtApprox 16)) [-1, -1/2, 0, 3/4, 1] 2 0 4).getD 2 0 = 1 ∧
    (kernelOf (ratNum (sqrtApprox 16)) [-1, -1/2, 0, 3/4, 1] 2 0 4).getD 0 1 = 0 := by
  refine ⟨by decide +kernel, by decide +kernel, by decide +kernel, by decide +kernel, by decide +kernel⟩

/-! ### the memory strategies

`Num α` interprets `+ - * / abs < sqrt` and `Solver α` is the body of `_loess_solver`: the statements hold for
EVERY interpretation (exact rationals, IEEE doubles with any rounding, a solver that fails), because both
strategies evaluate the same expressions on the same operands in the same order. -/

/-- first iteration: `_loess_first_loop` returns the baseline and leaves the `coefs` that `_loess_low_memory`
does, whatever `np.empty` left in `kernels` -/
theorem strategies_equal_first {α : Type} (o : Num α) (solver : Solver α) (x y w : List α)
    (coefs vander : List (List α)) (n : Nat) (windows : List (Nat × Nat)) (fits : List Nat) (junk : List (List α)) :
    (firstLoop o solver x y w coefs vander n windows fits junk).2 =
      lowMemory o solver x y w coefs vander n windows fits := by
  rw [firstLoop_eq]

/-- later iterations: `_loess_nonfirst_loops` on the kernels stored by `_loess_first_loop` (run on ANY earlier
data `y, w, coefs`) returns the baseline and coefficients of `_loess_low_memory` on the current data
`y', w', coefs'`.  Guards: fit indices are distinct (`kernels` has ONE row per point, a repeated index would
overwrite it; `fits_sorted_ends` proves distinctness for the real selection) and index the `num_x` rows of
`kernels`; one window per fit; every window has `total_points` entries (shape of `kernels[i] = kernel`). -/
theorem strategies_equal {α : Type} (o : Num α) (solver : Solver α) (x y w y' w' : List α)
    (coefs coefs' vander : List (List α)) (n tp : Nat) (windows : List (Nat × Nat)) (fits : List Nat)
    (junk : List (List α)) (hnd : fits.Nodup) (hlt : ∀ i ∈ fits, i < n) (hjunk : junk.length = n)
    (hlen : windows.length = fits.length) (hshape : ∀ v ∈ windows, v.1 + tp = v.2 ∧ v.2 ≤ n) :
    nonfirstLoops o solver y' w' coefs' vander
        (firstLoop o solver x y w coefs vander n windows fits junk).1 windows n fits =
      lowMemory o solver x y' w' coefs' vander n windows fits := by
  have _ := hlen; have _ := hshape
  exact nonfirst_eq_lowMemory o solver x y' w' coefs' vander _ n windows fits
    (firstLoop_stored o solver x y w coefs vander n windows fits junk hnd (fun i hi => hjunk ▸ hlt i hi))

/-- **`conserve_memory` does not change what `loess` computes**: for every number of iterations
(`fuel = max_iter + 1`) and every rule `upd` for the rest of an iteration (`_fill_skips`, the tolerance test
and `break`, thresholding or `_tukey_square` re-weighting), the loop with `_loess_low_memory` and the loop with
`_loess_first_loop` / `_loess_nonfirst_loops` end in the same state (data, weights, coefficients, history) -/
theorem strategies_equal_loop {α β : Type} (o : Num α) (solver : Solver α) (x : List α) (vander : List (List α))
    (n : Nat) (windows : List (Nat × Nat)) (fits : List Nat) (upd : Update α β) (fuel : Nat) (s : LState α β)
    (junk : List (List α)) (hnd : fits.Nodup) (hlt : ∀ i ∈ fits, i < n) (hjunk : junk.length = n) :
    loessLoop true o solver x vander n windows fits upd fuel 0 s junk =
      loessLoop false o solver x vander n windows fits upd fuel 0 s junk :=
  loop_strategies o solver x vander n windows fits upd fuel s junk hnd (fun i hi => hjunk ▸ hlt i hi)

/-- … in particular with the windows and fits `_determine_fits` produces from ANY `x` (sorted or not) of at least
two points: the guards hold by `fits_sorted_ends` and the index bounds of the selection -/
theorem strategies_equal_loess {α β : Type} (o : Num α) (solver : Solver α) (xm : List α) (vander : List (List α))
    (x : List Rat) (tp : Nat) (delta : Rat) (upd : Update α β) (maxIter : Nat) (s : LState α β)
    (junk : List (List α)) (hn : 2 ≤ x.length) (hjunk : junk.length = x.length) :
    let d := determineFitsX x tp delta
    loessLoop true o solver xm vander x.length (natWindows d.1) d.2.1 upd (maxIter + 1) 0 s junk =
      loessLoop false o solver xm vander x.length (natWindows d.1) d.2.1 upd (maxIter + 1) 0 s junk := by
  intro d
  have h1 := (Lemmas.fits_sorted_ends x tp delta hn).1
  have hnd : d.2.1.Nodup := List.Pairwise.imp (fun h => Nat.ne_of_lt h) h1
  exact strategies_equal_loop o solver xm vander x.length _ _ upd _ s junk hnd
    (determineFits_fits_lt _ x.length tp _ (by omega)) hjunk

/-- which entries a pass writes: `baseline[i]` exactly for the fitted `i`; `coefs` rows of skipped points keep
their zeros (the documented "coefficients for any skipped x-value will all be 0") -/
theorem baseline_written_iff {α : Type} (o : Num α) (solver : Solver α) (x y w : List α) (coefs vander : List (List α))
    (n : Nat) (windows : List (Nat × Nat)) (fits : List Nat) (hlen : windows.length = fits.length)
    (hlt : ∀ i ∈ fits, i < n) (j : Nat) (hj : j < n) :
    let r := lowMemory o solver x y w coefs vander n windows fits
    r.baseline.length = n ∧ (r.baseline.getD j none ≠ none ↔ j ∈ fits) ∧
      (j ∉ fits → r.coefs.getD j [] = coefs.getD j []) :=
  lowMemory_written o solver x y w coefs vander n windows fits hlen hlt j hj

/-- non-vacuity: 5 points, 4-point windows, every second point fitted; a second pass with other data and
weights through the cache equals the recomputation, and is not trivial (three entries written, two not) -/
example :
    let o := ratNum (sqrtApprox 16)
    let x : List Rat := [-1, -1/2, 0, 1/2, 1]
    let z := List.replicate 5 [(0 : Rat), 0]
    let ks := (firstLoop o solveExact x [1, 2, 4, 2, 3] [1, 1, 1, 1, 1] z (vanderOf x 1) 5 [(0, 4), (0, 4), (1, 5)] [0, 2, 4]
      (List.replicate 5 [])).1
    let r := nonfirstLoops o solveExact [1, 2, 3, 2, 3] [1, 1/2, 1, 1, 3/4] z (vanderOf x 1) ks [(0, 4), (0, 4), (1, 5)] 5 [0, 2, 4]
    r = lowMemory o solveExact x [1, 2, 3, 2, 3] [1, 1/2, 1, 1, 3/4] z (vanderOf x 1) 5 [(0, 4), (0, 4), (1, 5)] [0, 2, 4] ∧
      r.baseline.map Option.isSome = [true, false, true, false, true] ∧ r.coefs.getD 1 [] = [0, 0] ∧
      r.coefs.getD 2 [] ≠ [0, 0] := by decide +kernel

/-! ### polynomial reproduction -/

/-- the kernel is computed without dividing by zero on the windows `_determine_fits` yields for sorted distinct
`x` and `total_points ≥ 2` (they contain their fit point: `windows_contain_fit`) -/
theorem kernel_den_pos (sqrt : Rat → Rat) (x : List Rat) (i left right : Nat) (hx : StrictMonoL x)
    (hli : left ≤ i) (hir : i < right) (h2 : left + 2 ≤ right) (hr : right ≤ x.length) :
    0 < kernelDen (ratNum sqrt) x i left right :=
  kernelDen_pos sqrt x i left right hx hli hir h2 hr

/-- **LOESS reproduces polynomials.**  Data exactly on a polynomial `p` of degree ≤ `poly_order`
(`p.length ≤ po + 1` coefficients), `x` strictly increasing, `vander` the Vandermonde matrix of `x`, and for every
(fit, window) pair `FitOk`: window inside the data around its fit point, MORE than `poly_order` window points
with non-zero weight `kernel·sqrt_w`, and (numeric layer, hypothesis `NormalEq`) `_loess_solver`'s answer solves the
normal equations it was handed.  Then `baseline[i] = p(x[i])` and `coefs[i] = p` at every fitted point — for
any robustness weights `w`, any `sqrt`, hence in every iteration and (by `strategies_equal`) for both strategies. -/
theorem poly_reproduction (sqrt : Rat → Rat) (solver : Solver Rat) (x y w p : List Rat)
    (coefs : List (List Rat)) (po : Nat) (windows : List (Nat × Nat)) (fits : List Nat)
    (hx : StrictMonoL x) (hy : y.length = x.length) (hw : w.length = x.length) (hc : coefs.length = x.length)
    (hp : p.length ≤ po + 1)
    (hdata : ∀ k, k < x.length → y.getD k 0 = evalPoly p (x.getD k 0))
    (hfit : ∀ q ∈ fits.zip windows, FitOk sqrt solver x y w po q) :
    let r := lowMemory (ratNum sqrt) solver x y w coefs (vanderOf x po) x.length windows fits
    ∀ q ∈ fits.zip windows,
      r.baseline.getD q.1 none = some (evalPoly p (x.getD q.1 0)) ∧
      r.coefs.getD q.1 [] = (List.range (po + 1)).map (fun l => p.getD l 0) :=
  lowMemory_reproduces sqrt solver x y w p coefs po windows fits hx hy hw hc hp hdata hfit

/-- non-vacuity: `y = 1 + 2x` on 5 points, straight-line fits on 4-point windows (3 points carry weight), the exact
solver; the hypotheses hold and the fitted values are `1 + 2x` -/
example :
    let x : List Rat := [-1, -1/2, 0, 1/2, 1]
    let y : List Rat := [-1, 0, 1, 2, 3]
    let w : List Rat := [1, 1, 1/2, 1, 1]
    (∀ q ∈ [0, 2, 3, 4].zip [(0, 4), (0, 4), (1, 5), (1, 5)], FitOk (sqrtApprox 16) solveExact x y w 1 q) ∧
    (lowMemory (ratNum (sqrtApprox 16)) solveExact x y w (List.replicate 5 [0, 0]) (vanderOf x 1) 5
      [(0, 4), (0, 4), (1, 5), (1, 5)] [0, 2, 3, 4]).baseline = [some (-1), none, some 1, some 2, some 3] := by
  decide +kernel
/-- the weight-count hypothesis is needed: with `total_points = poly_order + 1` the farthest window point has kernel
weight 0, the local system is singular and nothing is reproduced (the real code raises `LinAlgError` or returns
whatever LAPACK leaves) -/
example : ¬ FitOk (sqrtApprox 16) solveExact [-1, -1/2, 0, 1/2, 1] [-1, 0, 1, 2, 3] [1, 1, 1, 1, 1] 1 (0, 0, 2) := by
  decide +kernel

end PbVerif.C19
