import PbVerif.Lemmas.Weighting
import PbVerif.Lemmas.WExpr
import PbVerif.Lemmas.WeightingReal
import PbVerif.Lemmas.Wrapper
import PbVerif.Lemmas.LoopTbl
import PbVerif.Gen.Loops
/-! C09 — each reweighting step follows the documented rule and the stop rule is honest.
The rules are the definitions of `Model/Weighting.lean` (the same definitions the driver runs at
`Float`), proved here over every linear ordered field with any positive monotone `exp`, any `sqrt`
with its defining properties and the field's absolute value. -/
namespace PbVerif.C09
open PbVerif.Weighting PbVerif.Lemmas PbVerif.Loop PbVerif.WExpr PbVerif.Gen

variable {α : Type} [Field α] [LinearOrder α] [IsStrictOrderedRing α] [T : Transc α] (hT : TranscOk T)
include hT

theorem asls_range (p r : α) (hp : 0 ≤ p ∧ p ≤ 1) : 0 ≤ aslsW p r ∧ aslsW p r ≤ 1 := Lemmas.asls_range hT p r hp
theorem asls_antitone (p r₁ r₂ : α) (hp : p ≤ 1 - p) (h : r₁ ≤ r₂) : aslsW p r₂ ≤ aslsW p r₁ := Lemmas.asls_antitone hT p r₁ r₂ hp h
/-- documented regime p ≤ ½: necessary, not a loosening — for p > 1 − p the rule is not antitone -/
theorem asls_not_antitone (p : α) (hp : 1 - p < p) : aslsW p (-1) < aslsW p 1 := Lemmas.asls_not_antitone hT p hp

theorem arpls_range (std mean r : α) : 0 ≤ arplsW std mean r ∧ arplsW std mean r ≤ 1 := Lemmas.arpls_range hT std mean r
theorem arpls_antitone (std mean r₁ r₂ : α) (hs : 0 < std) (h : r₁ ≤ r₂) : arplsW std mean r₂ ≤ arplsW std mean r₁ :=
  Lemmas.arpls_antitone hT std mean r₁ r₂ hs h
theorem aspls_range (k std r : α) : 0 ≤ asplsW k std r ∧ asplsW k std r ≤ 1 := Lemmas.aspls_range hT k std r
theorem aspls_antitone (k std r₁ r₂ : α) (hk : 0 ≤ k) (hs : 0 < std) (h : r₁ ≤ r₂) : asplsW k std r₂ ≤ asplsW k std r₁ :=
  Lemmas.aspls_antitone hT k std r₁ r₂ hk hs h
/-- drpls and lsrpls -/
theorem drpls_range (K std mean r : α) : 0 ≤ drplsW K std mean r ∧ drplsW K std mean r ≤ 1 := Lemmas.drpls_range hT K std mean r
theorem drpls_antitone (K std mean r₁ r₂ : α) (hK : 0 ≤ K) (hs : 0 < std) (h : r₁ ≤ r₂) :
    drplsW K std mean r₂ ≤ drplsW K std mean r₁ := Lemmas.drpls_antitone hT K std mean r₁ r₂ hK hs h
theorem iarpls_range (K std r : α) : 0 ≤ iarplsW K std r ∧ iarplsW K std r ≤ 1 := Lemmas.iarpls_range hT K std r
theorem iarpls_antitone (K std r₁ r₂ : α) (hK : 0 ≤ K) (hs : 0 < std) (h : r₁ ≤ r₂) : iarplsW K std r₂ ≤ iarplsW K std r₁ :=
  Lemmas.iarpls_antitone hT K std r₁ r₂ hK hs h
theorem psalsa_range (p k r : α) (hp : 0 ≤ p ∧ p ≤ 1) (hk : 0 < k) : 0 ≤ psalsaW p k r ∧ psalsaW p k r ≤ 1 := Lemmas.psalsa_range hT p k r hp hk
theorem psalsa_antitone (p k r₁ r₂ : α) (hp : 0 ≤ p ∧ p ≤ 1 - p) (hk : 0 < k) (h : r₁ ≤ r₂) : psalsaW p k r₂ ≤ psalsaW p k r₁ :=
  Lemmas.psalsa_antitone hT p k r₁ r₂ hp hk h
theorem derpsalsa_range (p k pw r : α) (hp : 0 ≤ p ∧ p ≤ 1) (hk : 0 < k) (hpw : 0 ≤ pw ∧ pw ≤ 1) :
    0 ≤ derpsalsaW p k pw r ∧ derpsalsaW p k pw r ≤ 1 := Lemmas.derpsalsa_range hT p k pw r hp hk hpw
theorem derpsalsa_antitone (p k pw r₁ r₂ : α) (hp : 0 ≤ p ∧ p ≤ 1 - p) (hk : 0 < k) (hpw : 0 ≤ pw) (h : r₁ ≤ r₂) :
    derpsalsaW p k pw r₂ ≤ derpsalsaW p k pw r₁ := Lemmas.derpsalsa_antitone hT p k pw r₁ r₂ hp hk hpw h
/-- airPLS: non-negative and antitone; in [0, 1] once divided by its maximum (the `normalize_weights` option);
without the option it is the documented un-normalised exception of the property -/
theorem airpls_nonneg (t S M r : α) : 0 ≤ airplsRaw t S M r := Lemmas.airpls_nonneg hT t S M r
theorem airpls_antitone (t S M r₁ r₂ : α) (ht : 0 ≤ t) (hS : S < 0) (hM : 0 ≤ M) (h : r₁ ≤ r₂) :
    airplsRaw t S M r₂ ≤ airplsRaw t S M r₁ := Lemmas.airpls_antitone hT t S M r₁ r₂ ht hS hM h
theorem airpls_normalised_range (t S M r mx : α) (hmx : 0 < mx) (hle : airplsRaw t S M r ≤ mx) :
    0 ≤ airplsRaw t S M r / mx ∧ airplsRaw t S M r / mx ≤ 1 := Lemmas.airpls_normalised_le_one hT t S M r mx hmx hle
/-- quantile-loss weight: positive and bounded by max(q, 1−q)/√eps (documented rule; not confined to [0, 1]) -/
theorem quantile_bounds (q eps r : α) (hq : 0 < q ∧ q < 1) (he : 0 < eps) :
    0 < quantileW q eps r ∧ quantileW q eps r * Transc.sqrt eps ≤ max q (1 - q) :=
  ⟨Lemmas.quantile_pos hT q eps r hq he, Lemmas.quantile_bound hT q eps r hq he⟩
/-- brpls: range for any erf value in [−1, 1] (partial: monotonicity needs analytic facts about erf not available in Mathlib) -/
theorem brpls_range_partial (m u e : α) (hm : 0 ≤ m) (he : -1 ≤ e ∧ e ≤ 1) : 0 < brplsW m u e ∧ brplsW m u e ≤ 1 :=
  Lemmas.brpls_range hT m u e hm he

/-! ### Route A: the same statements about the expressions TRANSLATED FROM THE SOURCE on every run

`Gen.Src.<rule>` (`Gen/WeightExprs.lean`) is the final weight expression of `_weighting._<rule>` parsed from the working
tree by `harness/pbv/translate_weights.py` (local names inlined, `r` = the point's `y - baseline`, the step statistics
`std`, `meanNeg`, `sumNeg`, `maxNegW`, the machine constants `clipMax`, `minFloat` and the scalar arguments as named
inputs of the environment).  `gen_<rule>_eq_model` says that it denotes the hand model's per-point function, so an edit of
a constant, a sign or an operator of the source makes it fail; `src_<rule>_range` / `src_<rule>_antitone` carry the
theorems above over to the source expression.  `atR env r` is `env` at another residual.  brpls is not translated
(erf, finfo-derived clips). -/
section source
omit hT
set_option linter.unusedSectionVars false

theorem gen_asls_eq_model (env : Env α) : eval env Src.asls = aslsW (env.s "p") env.r := Lemmas.gen_asls_eq_model env
theorem gen_arpls_eq_model (env : Env α) : eval env Src.arpls = arplsW (env.s "std") (env.s "meanNeg") env.r :=
  Lemmas.gen_arpls_eq_model env
theorem gen_aspls_eq_model (env : Env α) : eval env Src.aspls = asplsW (env.s "asymmetric_coef") (env.s "std") env.r :=
  Lemmas.gen_aspls_eq_model env
/-- `expK it = exp(min(it, 100))`: the cap is part of the statement -/
theorem gen_drpls_eq_model (env : Env α) :
    eval env Src.drpls = drplsW (expK (env.n "iteration")) (env.s "std") (env.s "meanNeg") env.r := Lemmas.gen_drpls_eq_model env
/-- `tenK it = 10 ^ min(it, 100)` -/
theorem gen_lsrpls_eq_model (env : Env α) :
    eval env Src.lsrpls = drplsW (tenK (env.n "iteration")) (env.s "std") (env.s "meanNeg") env.r := Lemmas.gen_lsrpls_eq_model env
theorem gen_iarpls_eq_model (env : Env α) :
    eval env Src.iarpls = iarplsW (expK (env.n "iteration")) (env.s "std") env.r := Lemmas.gen_iarpls_eq_model env
theorem gen_psalsa_eq_model (env : Env α) : eval env Src.psalsa = psalsaW (env.s "p") (env.s "k") env.r :=
  Lemmas.gen_psalsa_eq_model env
theorem gen_derpsalsa_eq_model (env : Env α) :
    eval env Src.derpsalsa = derpsalsaW (env.s "p") (env.s "k") (env.s "partial_weights") env.r := Lemmas.gen_derpsalsa_eq_model env
/-- the source guards the denominator with `max(eps, _MIN_FLOAT)` -/
theorem gen_quantile_eq_model (env : Env α) :
    eval env Src.quantile = quantileW (env.s "quantile") (max (env.s "eps") (env.s "minFloat")) env.r :=
  Lemmas.gen_quantile_eq_model env
/-- `airplsT it = min(it, 50)`; `0 ≤ clipMax` (≈ 709.78 in the source) makes `np.clip(·, 0, clipMax)` the model's clip -/
theorem gen_airpls_eq_model (env : Env α) (hM : 0 ≤ env.s "clipMax") :
    eval env Src.airpls = airplsRaw (airplsT (env.n "iteration")) (env.s "sumNeg") (env.s "clipMax") env.r :=
  Lemmas.gen_airpls_eq_model env hM
theorem gen_airplsNorm_eq_model (env : Env α) (hM : 0 ≤ env.s "clipMax") :
    eval env Src.airplsNorm =
      airplsRaw (airplsT (env.n "iteration")) (env.s "sumNeg") (env.s "clipMax") env.r / env.s "maxNegW" :=
  Lemmas.gen_airplsNorm_eq_model env hM

include hT

theorem src_asls_range (env : Env α) (hp : 0 ≤ env.s "p" ∧ env.s "p" ≤ 1) :
    0 ≤ eval env Src.asls ∧ eval env Src.asls ≤ 1 := Lemmas.src_asls_range hT env hp
theorem src_asls_antitone (env : Env α) (r₁ r₂ : α) (hp : env.s "p" ≤ 1 - env.s "p") (h : r₁ ≤ r₂) :
    eval (atR env r₂) Src.asls ≤ eval (atR env r₁) Src.asls := Lemmas.src_asls_antitone hT env r₁ r₂ hp h
theorem src_arpls_range (env : Env α) : 0 ≤ eval env Src.arpls ∧ eval env Src.arpls ≤ 1 := Lemmas.src_arpls_range hT env
theorem src_arpls_antitone (env : Env α) (r₁ r₂ : α) (hs : 0 < env.s "std") (h : r₁ ≤ r₂) :
    eval (atR env r₂) Src.arpls ≤ eval (atR env r₁) Src.arpls := Lemmas.src_arpls_antitone hT env r₁ r₂ hs h
theorem src_aspls_range (env : Env α) : 0 ≤ eval env Src.aspls ∧ eval env Src.aspls ≤ 1 := Lemmas.src_aspls_range hT env
theorem src_aspls_antitone (env : Env α) (r₁ r₂ : α) (hk : 0 ≤ env.s "asymmetric_coef") (hs : 0 < env.s "std")
    (h : r₁ ≤ r₂) : eval (atR env r₂) Src.aspls ≤ eval (atR env r₁) Src.aspls := Lemmas.src_aspls_antitone hT env r₁ r₂ hk hs h
theorem src_drpls_range (env : Env α) : 0 ≤ eval env Src.drpls ∧ eval env Src.drpls ≤ 1 := Lemmas.src_drpls_range hT env
theorem src_drpls_antitone (env : Env α) (r₁ r₂ : α) (hs : 0 < env.s "std") (h : r₁ ≤ r₂) :
    eval (atR env r₂) Src.drpls ≤ eval (atR env r₁) Src.drpls := Lemmas.src_drpls_antitone hT env r₁ r₂ hs h
theorem src_lsrpls_range (env : Env α) : 0 ≤ eval env Src.lsrpls ∧ eval env Src.lsrpls ≤ 1 := Lemmas.src_lsrpls_range hT env
theorem src_lsrpls_antitone (env : Env α) (r₁ r₂ : α) (hs : 0 < env.s "std") (h : r₁ ≤ r₂) :
    eval (atR env r₂) Src.lsrpls ≤ eval (atR env r₁) Src.lsrpls := Lemmas.src_lsrpls_antitone hT env r₁ r₂ hs h
theorem src_iarpls_range (env : Env α) : 0 ≤ eval env Src.iarpls ∧ eval env Src.iarpls ≤ 1 := Lemmas.src_iarpls_range hT env
theorem src_iarpls_antitone (env : Env α) (r₁ r₂ : α) (hs : 0 < env.s "std") (h : r₁ ≤ r₂) :
    eval (atR env r₂) Src.iarpls ≤ eval (atR env r₁) Src.iarpls := Lemmas.src_iarpls_antitone hT env r₁ r₂ hs h
theorem src_psalsa_range (env : Env α) (hp : 0 ≤ env.s "p" ∧ env.s "p" ≤ 1) (hk : 0 < env.s "k") :
    0 ≤ eval env Src.psalsa ∧ eval env Src.psalsa ≤ 1 := Lemmas.src_psalsa_range hT env hp hk
theorem src_psalsa_antitone (env : Env α) (r₁ r₂ : α) (hp : 0 ≤ env.s "p" ∧ env.s "p" ≤ 1 - env.s "p")
    (hk : 0 < env.s "k") (h : r₁ ≤ r₂) : eval (atR env r₂) Src.psalsa ≤ eval (atR env r₁) Src.psalsa :=
  Lemmas.src_psalsa_antitone hT env r₁ r₂ hp hk h
theorem src_derpsalsa_range (env : Env α) (hp : 0 ≤ env.s "p" ∧ env.s "p" ≤ 1) (hk : 0 < env.s "k")
    (hpw : 0 ≤ env.s "partial_weights" ∧ env.s "partial_weights" ≤ 1) :
    0 ≤ eval env Src.derpsalsa ∧ eval env Src.derpsalsa ≤ 1 := Lemmas.src_derpsalsa_range hT env hp hk hpw
theorem src_derpsalsa_antitone (env : Env α) (r₁ r₂ : α) (hp : 0 ≤ env.s "p" ∧ env.s "p" ≤ 1 - env.s "p")
    (hk : 0 < env.s "k") (hpw : 0 ≤ env.s "partial_weights") (h : r₁ ≤ r₂) :
    eval (atR env r₂) Src.derpsalsa ≤ eval (atR env r₁) Src.derpsalsa := Lemmas.src_derpsalsa_antitone hT env r₁ r₂ hp hk hpw h
/-- airPLS (the un-normalised exception): non-negative, antitone; `sumNeg < 0` holds whenever the early-exit guard passed -/
theorem src_airpls_nonneg (env : Env α) (hM : 0 ≤ env.s "clipMax") : 0 ≤ eval env Src.airpls := Lemmas.src_airpls_nonneg hT env hM
theorem src_airpls_antitone (env : Env α) (r₁ r₂ : α) (hS : env.s "sumNeg" < 0) (hM : 0 ≤ env.s "clipMax") (h : r₁ ≤ r₂) :
    eval (atR env r₂) Src.airpls ≤ eval (atR env r₁) Src.airpls := Lemmas.src_airpls_antitone hT env r₁ r₂ hS hM h
/-- with `normalize_weights`: in [0, 1] when `maxNegW` bounds the raw weight of the point (it is the maximum over the points) -/
theorem src_airplsNorm_range (env : Env α) (hM : 0 ≤ env.s "clipMax") (hmx : 0 < env.s "maxNegW")
    (hle : eval env Src.airpls ≤ env.s "maxNegW") : 0 ≤ eval env Src.airplsNorm ∧ eval env Src.airplsNorm ≤ 1 :=
  Lemmas.src_airplsNorm_range hT env hM hmx hle
theorem src_airplsNorm_antitone (env : Env α) (r₁ r₂ : α) (hS : env.s "sumNeg" < 0) (hM : 0 ≤ env.s "clipMax")
    (hmx : 0 < env.s "maxNegW") (h : r₁ ≤ r₂) : eval (atR env r₂) Src.airplsNorm ≤ eval (atR env r₁) Src.airplsNorm :=
  Lemmas.src_airplsNorm_antitone hT env r₁ r₂ hS hM hmx h
/-- quantile-loss weight of the source: positive and bounded because `_MIN_FLOAT > 0` keeps the denominator away from 0 -/
theorem src_quantile_bounds (env : Env α) (hq : 0 < env.s "quantile" ∧ env.s "quantile" < 1) (hmin : 0 < env.s "minFloat") :
    0 < eval env Src.quantile ∧
      eval env Src.quantile * Transc.sqrt (max (env.s "eps") (env.s "minFloat")) ≤ max (env.s "quantile") (1 - env.s "quantile") :=
  Lemmas.src_quantile_bounds hT env hq hmin

end source

/-! non-vacuity.  (1) The hypotheses `TranscOk` are those of the real functions.  (2) Every translated expression is the
source's (not the failure marker) and genuinely depends on the residual: at concrete inputs satisfying the hypotheses of
the `src_*` theorems (`envQ`: std 2, meanNeg −1, sumNeg −4, p 1/100, k 2, iteration 3 …; a computable stand-in for exp over ℚ)
the weight at a larger residual is strictly smaller, inside [0, 1]. -/
section nonvacuity
omit hT
example : TranscOk realTransc := realTranscOk
attribute [local instance] realTransc in
example (env : Env ℝ) (r₁ r₂ : ℝ) (hs : 0 < env.s "std") (h : r₁ ≤ r₂) :
    eval (atR env r₂) Src.arpls ≤ eval (atR env r₁) Src.arpls := src_arpls_antitone realTranscOk env r₁ r₂ hs h
attribute [local instance] ratTransc
example : Src.aslsTranslated = true ∧ eval (envQ 3) Src.asls = 1 / 100 ∧ eval (envQ (-3)) Src.asls = 99 / 100 := by decide +kernel
example : Src.arplsTranslated = true ∧ 0 ≤ eval (envQ 7) Src.arpls ∧ eval (envQ 7) Src.arpls < eval (envQ (-1)) Src.arpls ∧
    eval (envQ (-1)) Src.arpls ≤ 1 := by decide +kernel
example : Src.asplsTranslated = true ∧ 0 ≤ eval (envQ 7) Src.aspls ∧ eval (envQ 7) Src.aspls < eval (envQ (-1)) Src.aspls ∧
    eval (envQ (-1)) Src.aspls ≤ 1 := by decide +kernel
example : Src.drplsTranslated = true ∧ 0 ≤ eval (envQ 7) Src.drpls ∧ eval (envQ 7) Src.drpls < eval (envQ (-1)) Src.drpls ∧
    eval (envQ (-1)) Src.drpls ≤ 1 := by decide +kernel
example : Src.lsrplsTranslated = true ∧ 0 ≤ eval (envQ 7) Src.lsrpls ∧ eval (envQ 7) Src.lsrpls < eval (envQ (-1)) Src.lsrpls ∧
    eval (envQ (-1)) Src.lsrpls ≤ 1 := by decide +kernel
example : Src.iarplsTranslated = true ∧ eval (envQ 7) Src.iarpls ≠ eval (envQ (-1)) Src.iarpls := by decide +kernel
example : Src.psalsaTranslated = true ∧ 0 ≤ eval (envQ 7) Src.psalsa ∧ eval (envQ 7) Src.psalsa < eval (envQ 1) Src.psalsa ∧
    eval (envQ 1) Src.psalsa < eval (envQ (-1)) Src.psalsa ∧ eval (envQ (-1)) Src.psalsa ≤ 1 := by decide +kernel
example : Src.derpsalsaTranslated = true ∧ 0 ≤ eval (envQ 7) Src.derpsalsa ∧ eval (envQ 7) Src.derpsalsa < eval (envQ 1) Src.derpsalsa ∧
    eval (envQ 1) Src.derpsalsa < eval (envQ (-1)) Src.derpsalsa ∧ eval (envQ (-1)) Src.derpsalsa ≤ 1 := by decide +kernel
example : Src.airplsTranslated = true ∧ eval (envQ 7) Src.airpls = 0 ∧ eval (envQ (-1)) Src.airpls < eval (envQ (-4)) Src.airpls ∧
    1 < eval (envQ (-4)) Src.airpls := by decide +kernel
example : Src.airplsNormTranslated = true ∧ eval (envQ 7) Src.airplsNorm = 0 ∧
    eval (envQ (-1)) Src.airplsNorm < eval (envQ (-4)) Src.airplsNorm ∧ eval (envQ (-4)) Src.airplsNorm ≤ 1 := by decide +kernel
example : Src.quantileTranslated = true ∧ 0 < eval (envQ 2) Src.quantile ∧ eval (envQ 2) Src.quantile ≠ eval (envQ (-2)) Src.quantile := by
  decide +kernel
end nonvacuity

omit hT in
/-- **stop rule** (all hosts share the skeleton `Loop.runLoop`): the iteration stops at the FIRST recorded
value below tol, or when the budget is exhausted, or at the documented early exit — never earlier or later -/
theorem stop_first_below_tol (budget : Nat) (tol : Rat) (d : Nat → Rat) (exit : Nat → Bool) (len : Nat)
    (h : runLoop budget tol d exit = (len, .converged)) :
    1 ≤ len ∧ len ≤ budget ∧ d (len - 1) < tol ∧ (∀ k, k + 1 < len → ¬ d k < tol) ∧ (∀ k, k < len → exit k = false) :=
  loop_converged budget tol d exit len h
omit hT in
theorem stop_exhausted (budget : Nat) (tol : Rat) (d : Nat → Rat) (exit : Nat → Bool) (len : Nat)
    (h : runLoop budget tol d exit = (len, .exhausted)) :
    len = budget ∧ (∀ k, k < len → ¬ d k < tol) ∧ (∀ k, k < len → exit k = false) := loop_exhausted budget tol d exit len h
omit hT in
theorem stop_early (budget : Nat) (tol : Rat) (d : Nat → Rat) (exit : Nat → Bool) (len : Nat)
    (h : runLoop budget tol d exit = (len, .early)) :
    len < budget ∧ exit len = true ∧ (∀ k, k < len → ¬ d k < tol) ∧ (∀ k, k < len → exit k = false) := loop_early budget tol d exit len h
omit hT in
theorem hist_prefix (b : Nat) (tol : Rat) (d : Nat → Rat) (exit : Nat → Bool) :
    (history b tol d exit) <+: (history (b + 1) tol d exit) := history_prefix b tol d exit
omit hT in
/-- at exhaustion the returned weights are the rule applied to the returned baseline; at convergence the
returned baseline was computed from the returned weights -/
theorem exhausted_weights_rule (budget : Nat) (tol : Rat) (d : Nat → Rat) (exit : Nat → Bool) :
    let r := returned budget tol d exit
    ((runLoop budget tol d exit).2 = .converged → r.2 = some r.1) ∧
    ((runLoop budget tol d exit).2 = .early → r.2 = some r.1) ∧
    ((runLoop budget tol d exit).2 = .exhausted → 0 < budget → r.2 = some (r.1 - 1) ∧ r.1 = budget) := returned_pairing budget tol d exit

/-! ### the stop rule of each method's loop AS WRITTEN (Route A, `Gen/Loops`, regenerated on every run)

For every row of the translated table, every `max_iter ≥ guard` with a non-empty range, every tol and every numeric behaviour
(`d k` = value recorded in step k, `fl k p` = the opaque flag tested at position p of the body in step k). `steps` is the step
(0-based iteration) in which the loop stopped. -/
section Loops
open PbVerif.Gen PbVerif.LoopTbl PbVerif.Lemmas.LoopTbl

omit hT in
/-- the decidable row conditions hold for every translated method (re-checked against the regenerated table) -/
theorem loops_rows_ok {r : Row} (hr : r ∈ loopTable) : r.ok = true :=
  List.all_eq_true.mp (by decide +kernel : loopTable.all Row.ok = true) r hr

omit hT in
/-- never later: the loop of a method that tests `x < tol` (alone or `or`-ed with a second criterion) is still running only if no
earlier recorded value was below tol — it stops at the FIRST such index; never earlier: it stops only because the value recorded in
that very step is below tol (`converged`: that value is the last entry of the record), because all `budget` steps were used
(`exhausted`), or because a flag tested in that step was set (`early`) -/
theorem loops_stop_first (r : Row) (hr : r ∈ loopTable) (n : Nat) (hn : r.guard ≤ n) (hb : r.budget n ≠ 0) (tol : Rat)
    (d : Nat → Rat) (fl : Nat → Nat → Bool) :
    (hasTol r.body = true → ∀ j, j < (run r n tol d fl).steps → ¬ d j < tol) ∧
    ((run r n tol d fl).stop = .converged →
      (run r n tol d fl).steps + 1 = (run r n tol d fl).slice.toNat ∧ d (run r n tol d fl).steps < tol) ∧
    ((run r n tol d fl).stop = .exhausted →
      (run r n tol d fl).steps = r.budget n ∧ (run r n tol d fl).slice.toNat = r.budget n) ∧
    ((run r n tol d fl).stop = .early →
      (∃ q, fl (run r n tol d fl).steps q = true) ∧ (run r n tol d fl).steps < r.budget n ∧
      (run r n tol d fl).slice.toNat ≤ (run r n tol d fl).steps + 1 ∧ (run r n tol d fl).steps ≤ (run r n tol d fl).slice.toNat) := by
  have g := ((ok_safe r (loops_rows_ok hr) n hn tol d fl).ran hb).good
  refine ⟨fun ht j hj => g.first ht j (Nat.zero_le _) hj, fun h => ?_, fun h => ?_, fun h => ?_⟩
  · obtain ⟨h1, h2, h3⟩ := g.conv h
    rw [h3]
    exact ⟨by omega, h2⟩
  · obtain ⟨h1, h2⟩ := g.exh h
    exact ⟨by omega, by omega⟩
  · obtain ⟨h1, h2, h3, h4⟩ := g.early h
    exact ⟨h1, by omega, h3, h4⟩

omit hT in
/-- which methods that covers: every translated loop tests `x < tol` on the value it has just recorded, except those keeping a
two-column record with a conjunction of two criteria (jbcd: `calc_tol_1 < tol and calc_tol_2 < tol_2`), which stop at the first step
where BOTH hold (`loops_len_eq_skeleton` in C01) -/
theorem loops_tol_tested : loopTable.all (fun r => hasTol r.body || (r.cols == 2 && r.shape.map (·.2) == some .tolAnd)) = true := by
  decide +kernel

-- non-vacuity: arpls' row (0-based, early exit before the record) on a stream crossing tol = 1/4 at step 3
example : (loopTable.find? (·.key == "arpls")).map (fun r =>
      (hasTol r.body, (run r 9 (1/4) (fun k => 1 / ((k : Rat) + 1)) (fun _ _ => false)).steps,
       (run r 9 (1/4) (fun k => 1 / ((k : Rat) + 1)) (fun _ _ => false)).stop,
       (run r 2 (1/4) (fun k => 1 / ((k : Rat) + 1)) (fun _ _ => false)).stop,
       run r 9 (1/4) (fun k => 1 / ((k : Rat) + 1)) (fun k _ => k == 2))) =
    some (true, 4, .converged, .exhausted, ⟨false, [(0, 0), (1, 1)], 2, 2, .early⟩) := by decide +kernel

end Loops

end PbVerif.C09
