import PbVerif.Lemmas.Validate
/-! C15 — invalid inputs are rejected with ValueError/TypeError, never silently used.
Theorems about the decision functions of the checkers (model of `_validation.py`); which parameter of
which method is bound to which checker is decided by the correspondence over all methods. -/
namespace PbVerif.C15
open PbVerif.Validate PbVerif.Lemmas

theorem halfWindow_ok_dom (v : Val) (twoD : Bool) (es : List El) (sc : Bool)
    (h : checkHalfWindow v false twoD = .ok es sc) :
    ∀ e ∈ es, ∃ q : Rat, e = .fin q ∧ 0 < q ∧ q.den = 1 ∧ (.num q) ∈ origEls v := Lemmas.halfWindow_ok_dom v twoD es sc h
theorem halfWindow_rejects (q : Rat) (h : q ≤ 0 ∨ q.den ≠ 1) (twoD : Bool) :
    (checkHalfWindow (.sc (.num q)) false twoD).rejected = true := Lemmas.halfWindow_rejects q h twoD
theorem halfWindow_rejects_in_pair (a b : Rat) (h : a ≤ 0 ∨ a.den ≠ 1 ∨ b ≤ 0 ∨ b.den ≠ 1) :
    (checkHalfWindow (.arr [.num a, .num b]) false true).rejected = true := Lemmas.halfWindow_rejects_in_pair a b h

theorem lam_ok_dom (v : Val) (twoD : Bool) (es : List El) (sc : Bool) (h : checkLam v false twoD = .ok es sc) :
    ∀ e ∈ es, e.leZero = false := Lemmas.lam_ok_dom v twoD es sc h
theorem lam_rejects_nonpos (q : Rat) (hq : q ≤ 0) (twoD : Bool) : (checkLam (.sc (.num q)) false twoD).rejected = true :=
  Lemmas.lam_rejects_nonpos q hq twoD
theorem lam_rejects_nonpos_in_pair (a b : Rat) (h : a ≤ 0 ∨ b ≤ 0) : (checkLam (.arr [.num a, .num b]) false true).rejected = true :=
  Lemmas.lam_rejects_nonpos_in_pair a b h

theorem scalar_rejects_sequence (l : List Sc) (hl : 2 ≤ l.length) (az dt : Bool) :
    (checkScalarVariable (.arr l) az false dt).rejected = true := Lemmas.scalar_rejects_sequence l hl az dt
theorem pair_rejects_wrong_length (l : List Sc) (hl : l.length ≠ 1 ∧ l.length ≠ 2) (az dt : Bool) :
    (checkScalarVariable (.arr l) az true dt).rejected = true := Lemmas.pair_rejects_wrong_length l hl az dt
theorem intVariable_rejects (q : Rat) (az : Bool) (h : truncQ q < 0 ∨ (az = false ∧ truncQ q ≤ 0)) (twoD : Bool) :
    (checkScalarVariable (.sc (.num q)) az twoD true).rejected = true := Lemmas.intVariable_rejects q az h twoD

theorem nonfinite_any_pos (pre post : List El) (e : El) (he : ∀ q, e ≠ .fin q) (s : List Nat) (e1 e2 td : Bool) :
    anyNonFinite (pre ++ e :: post) = true ∧
    checkArray s (anyNonFinite (pre ++ e :: post)) true e1 e2 td = .valueError := Lemmas.nonfinite_any_pos pre post e he s e1 e2 td
theorem len_mismatch_rejected (n m : Nat) (h : n ≠ m) (nf cf : Bool) :
    checkSized [n] nf cf m = .valueError ∧ checkSized [n, 1] nf cf m = .valueError ∧ checkSized [1, n] nf cf m = .valueError :=
  Lemmas.len_mismatch_rejected n m h nf cf
theorem len_match_accepted (n : Nat) (hn : 2 ≤ n) :
    checkSized [n] false true n = .ok [n] ∧ checkSized [n, 1] false true n = .ok [n] ∧ checkSized [1, n] false true n = .ok [n] :=
  Lemmas.len_match_accepted n hn

theorem solver_setter_rejects (isBool : Bool) (v : Rat) :
    solverAccepted isBool v = true ↔ isBool = false ∧ (v = 1 ∨ v = 2 ∨ v = 3 ∨ v = 4) := solver_accepted_iff isBool v
theorem open_interval_guard (q : Rat) : inOpen01 q = true ↔ 0 < q ∧ q < 1 := inOpen01_iff q
theorem closed_interval_guard (q : Rat) : inClosed01 q = true ↔ 0 ≤ q ∧ q ≤ 1 := inClosed01_iff q

example : checkHalfWindow (.sc (.num (5/2))) false true = .typeError ∧ checkHalfWindow (.arr [.num 2, .num 3]) false true = .ok [.fin 2, .fin 3] false
    ∧ checkLam (.sc (.num 0)) false false = .valueError := by decide +kernel

end PbVerif.C15
