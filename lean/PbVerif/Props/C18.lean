import PbVerif.Lemmas.Pad2dLin
/-! C18 — padding and kernel helpers preserve the data and its length. -/
namespace PbVerif.C18
open PbVerif.Pad PbVerif.Lemmas

/-- exactly `pad_length` extra points on both sides, interior unchanged ('extrapolate' mode) -/
theorem pad_len (ys : List Rat) (pad wl wr : Nat) : (padEdges ys pad wl wr).length = ys.length + 2 * pad :=
  padEdges_length ys pad wl wr
theorem pad_interior (ys : List Rat) (pad wl wr i : Nat) (hi : i < ys.length) :
    (padEdges ys pad wl wr).getD (pad + i) 0 = ys.getD i 0 := padEdges_interior ys pad wl wr i hi

/-- window 1 = the edge value -/
theorem pad_window_one (ys : List Rat) (pad k : Nat) (hk : k < pad) (hn : 1 ≤ ys.length) :
    (padEdges ys pad 1 1).getD k 0 = ys.getD 0 0 ∧
    (padEdges ys pad 1 1).getD (pad + ys.length + k) 0 = ys.getD (ys.length - 1) 0 := padEdges_window_one ys pad k hk hn

/-- exactly linear data is continued exactly -/
theorem extrap_linear_exact (a b : Rat) (n pad wl wr : Nat) (hn : 2 ≤ n) (hwl : 2 ≤ wl) (hwr : 2 ≤ wr) :
    padEdges ((List.range n).map fun (i : Nat) => a + b * (((pad + i : Nat) : Int) : Rat)) pad wl wr =
      (List.range (n + 2 * pad)).map fun (k : Nat) => a + b * (((k : Nat) : Int) : Rat) :=
  padEdges_linear_exact a b n pad wl wr hn hwl hwr

/-- `padded_convolve` returns the data's length … -/
theorem paddedConvolve_len (padded kernel : List Rat) (p : Nat) :
    (paddedConvolveCore padded kernel p).length = padded.length - 2 * p := paddedConvolveCore_length padded kernel p
theorem convPadding_pos (n k : Nat) (hn : 1 ≤ n) (hk : 1 ≤ k) : 1 ≤ convPadding n k := Lemmas.convPadding_pos n k hn hk
/-- … and leaves constant data unchanged for any normalised kernel no longer than the data -/
theorem paddedConvolve_const (c : Rat) (n : Nat) (kernel : List Rat) (hk : 1 ≤ kernel.length) (hkn : kernel.length ≤ n)
    (hsum : sumL kernel = 1) (i : Nat) (hi : i < n) :
    (paddedConvolveCore (List.replicate (n + 2 * convPadding n kernel.length) c) kernel (convPadding n kernel.length)).getD i 0 = c :=
  Lemmas.paddedConvolve_const c n kernel hk hkn hsum i hi

/-- dividing a non-negative symmetric kernel by its sum keeps it non-negative and symmetric and makes it sum to one -/
theorem kernel_norm (l : List Rat) (h : sumL l ≠ 0) : sumL (normalize l) = 1 := normalize_sum l h
theorem kernel_nonneg (l : List Rat) (h : ∀ v ∈ l, 0 ≤ v) : ∀ v ∈ normalize l, 0 ≤ v := normalize_nonneg l h
theorem kernel_sym (l : List Rat) (h : l.reverse = l) : (normalize l).reverse = normalize l := normalize_symm l h

/-- `optimize_window` returns an integer of at least 1, whatever the data make the tests do -/
theorem optimizeWindow_ge_one (hit : Nat → Bool) (inc maxHits minHw maxHw : Nat) :
    1 ≤ optimizeWindow hit inc maxHits minHw maxHw := Lemmas.optimizeWindow_ge_one hit inc maxHits minHw maxHw

example : padEdges [3, 5, 7] 2 3 2 = [-1, 1, 3, 5, 7, 9, 11] := by decide +kernel
example : paddedConvolveCore (List.replicate 9 4) [1/4, 1/4, 1/4, 1/4] 2 = [4, 4, 4, 4, 4] := by decide +kernel

/-! ### 2-D: `utils.pad_edges2d(…, mode='extrapolate')` / `utils._extrapolate2d`

`y` is an `M × N` matrix (`hM`, `hrect`), `M, N ≥ 1`; `pr`/`pc` are the pad lengths along the rows
axis (top and bottom) / the columns axis (left and right), `wt wb wl wr` the four windows.  The real
code refuses a pad length of 0 (`NotImplementedError`), hence `hpr`, `hpc`.
`ent m i j = (m.getD i []).getD j 0`. -/

/-- exactly `pr` extra rows above and below and `pc` extra entries left and right of every row -/
theorem pad2d_shape (y : List (List Rat)) (M N pr pc wt wb wl wr : Nat) (hM : y.length = M)
    (hrect : ∀ row ∈ y, row.length = N) (hM1 : 1 ≤ M) (hN1 : 1 ≤ N) (hpr : 1 ≤ pr) (hpc : 1 ≤ pc) :
    (extrapolate2d y pr pc wt wb wl wr).length = M + 2 * pr ∧
      ∀ row ∈ extrapolate2d y pr pc wt wb wl wr, row.length = N + 2 * pc :=
  have _ := hpr; have _ := hpc
  extrapolate2d_shape y M N pr pc wt wb wl wr hM hrect hM1 hN1

/-- the central `M × N` block is the input, for all windows -/
theorem pad2d_interior (y : List (List Rat)) (M N pr pc wt wb wl wr : Nat) (hM : y.length = M)
    (hrect : ∀ row ∈ y, row.length = N) (hM1 : 1 ≤ M) (hN1 : 1 ≤ N) (hpr : 1 ≤ pr) (hpc : 1 ≤ pc)
    (i j : Nat) (hi : i < M) (hj : j < N) :
    ent (extrapolate2d y pr pc wt wb wl wr) (pr + i) (pc + j) = ent y i j :=
  have _ := hpr; have _ := hpc
  extrapolate2d_interior y M N pr pc wt wb wl wr hM hrect hM1 hN1 i j hi hj

/-- the rows `pr … pr+M-1` of the result (left strip, interior, right strip) are the 1-D `padEdges` of the
rows of the data, with the windows truncated to the row length as the 2-D code does … -/
theorem pad2d_rows_are_1d (y : List (List Rat)) (M N pr pc wt wb wl wr : Nat) (hM : y.length = M)
    (hrect : ∀ row ∈ y, row.length = N) (hM1 : 1 ≤ M) (hN1 : 1 ≤ N) (hpr : 1 ≤ pr) (hpc : 1 ≤ pc)
    (i : Nat) (hi : i < M) :
    (extrapolate2d y pr pc wt wb wl wr).getD (pr + i) [] = padEdges (y.getD i []) pc (min wl N) (min wr N) :=
  have _ := hpr; have _ := hpc
  extrapolate2d_row y M N pr pc wt wb wl wr hM hrect hM1 hN1 i hi

/-- … and the columns `pc … pc+N-1` (top strip, interior, bottom strip) are the 1-D `padEdges` of the columns -/
theorem pad2d_cols_are_1d (y : List (List Rat)) (M N pr pc wt wb wl wr : Nat) (hM : y.length = M)
    (hrect : ∀ row ∈ y, row.length = N) (hM1 : 1 ≤ M) (hN1 : 1 ≤ N) (hpr : 1 ≤ pr) (hpc : 1 ≤ pc)
    (j : Nat) (hj : j < N) :
    colOf (extrapolate2d y pr pc wt wb wl wr) (pc + j) = padEdges (colOf y j) pr (min wt M) (min wb M) :=
  have _ := hpr; have _ := hpc
  extrapolate2d_col y M N pr pc wt wb wl wr hM hrect hM1 hN1 j hj

/-- the truncation of the windows is invisible to the 1-D rule as soon as the axis has two points:
`pad_edges(row, pc, 'extrapolate', (wl, wr))` itself -/
theorem pad_min_window (ys : List Rat) (pad wl wr : Nat) (hn : 2 ≤ ys.length) :
    padEdges ys pad (min wl ys.length) (min wr ys.length) = padEdges ys pad wl wr := padEdges_min_window ys pad wl wr hn

/-- **exactly planar data are continued exactly** — the four strips AND the four corners — for every
size ≥ 2, every pad length per axis and all windows ≥ 2 (also windows longer than the data) -/
theorem extrap2d_planar_exact (a b c : Rat) (M N pr pc wt wb wl wr : Nat) (hM : 2 ≤ M) (hN : 2 ≤ N)
    (hpr : 1 ≤ pr) (hpc : 1 ≤ pc) (hwt : 2 ≤ wt) (hwb : 2 ≤ wb) (hwl : 2 ≤ wl) (hwr : 2 ≤ wr) :
    extrapolate2d ((List.range M).map fun (i : Nat) => (List.range N).map fun (j : Nat) => a + b * (i : Rat) + c * (j : Rat))
        pr pc wt wb wl wr =
      (List.range (M + 2 * pr)).map fun (k : Nat) => (List.range (N + 2 * pc)).map fun (l : Nat) =>
        a + b * ((k : Rat) - (pr : Rat)) + c * ((l : Rat) - (pc : Rat)) :=
  have _ := hpr; have _ := hpc
  extrapolate2d_planar_exact a b c M N pr pc wt wb wl wr hM hN hwt hwb hwl hwr

/-- planar data under EVERY combination of windows ≥ 1 and sizes ≥ 1 (global coordinates: the data sit at
rows `pr …`, columns `pc …`): along an axis whose effective window `min w n` is a single point the nearest
edge value is repeated (`clampIdx` = the edge position there, the identity elsewhere), along the other
axis the plane is continued; the corners are the same expression in both coordinates:
`planarClamped … [k][l] = a + b·clampIdx pr M wt wb k + c·clampIdx pc N wl wr l` -/
theorem extrap2d_planar_clamped (a b c : Rat) (M N pr pc wt wb wl wr : Nat) (hM : 1 ≤ M) (hN : 1 ≤ N)
    (hpr : 1 ≤ pr) (hpc : 1 ≤ pc) (hwt : 1 ≤ wt) (hwb : 1 ≤ wb) (hwl : 1 ≤ wl) (hwr : 1 ≤ wr) :
    extrapolate2d ((List.range M).map fun i => (List.range N).map fun j =>
        a + b * (((pr + i : Nat) : Int) : Rat) + c * (((pc + j : Nat) : Int) : Rat)) pr pc wt wb wl wr =
      planarClamped a b c M N pr pc wt wb wl wr :=
  have _ := hpr; have _ := hpc
  extrapolate2d_planar_clamped a b c M N pr pc wt wb wl wr hM hN hwt hwb hwl hwr
theorem clampIdx_id (pad n wl wr k : Nat) (hn : 2 ≤ n) (hwl : 2 ≤ wl) (hwr : 2 ≤ wr) : clampIdx pad n wl wr k = k :=
  Lemmas.clampIdx_id pad n wl wr k hn hwl hwr
theorem clampIdx_one (pad n wl wr k : Nat) (hn : 1 ≤ n) (hl : min wl n = 1) (hr : min wr n = 1) :
    clampIdx pad n wl wr k = max pad (min k (pad + n - 1)) := Lemmas.clampIdx_one pad n wl wr k hn hl hr

/-- window 1 (the case repaired by eac5f8d), ARBITRARY data: a side whose effective window is one point
(window 1, or an axis of length 1) repeats the nearest edge row / column in its strip, whatever the other
three windows are … -/
theorem extrap2d_window_one_sides (y : List (List Rat)) (M N pr pc wt wb wl wr : Nat) (hM : y.length = M)
    (hrect : ∀ row ∈ y, row.length = N) (hM1 : 1 ≤ M) (hN1 : 1 ≤ N) :
    (min wt M = 1 → ∀ k j, k < pr → j < N → ent (extrapolate2d y pr pc wt wb wl wr) k (pc + j) = ent y 0 j) ∧
    (min wb M = 1 → ∀ k j, k < pr → j < N →
      ent (extrapolate2d y pr pc wt wb wl wr) (pr + M + k) (pc + j) = ent y (M - 1) j) ∧
    (min wl N = 1 → ∀ i l, i < M → l < pc → ent (extrapolate2d y pr pc wt wb wl wr) (pr + i) l = ent y i 0) ∧
    (min wr N = 1 → ∀ i l, i < M → l < pc →
      ent (extrapolate2d y pr pc wt wb wl wr) (pr + i) (pc + N + l) = ent y i (N - 1)) :=
  extrapolate2d_one_sides y M N pr pc wt wb wl wr hM hrect hM1 hN1

/-- … and when all four are one point the whole result, corners included, is the data indexed at the
nearest row and column (`np.pad(y, …, 'edge')`): every corner block is the corner value of the data -/
theorem extrap2d_window_one (y : List (List Rat)) (M N pr pc wt wb wl wr : Nat) (hM : y.length = M)
    (hrect : ∀ row ∈ y, row.length = N) (hM1 : 1 ≤ M) (hN1 : 1 ≤ N) (hpr : 1 ≤ pr) (hpc : 1 ≤ pc)
    (ht : min wt M = 1) (hb : min wb M = 1) (hl : min wl N = 1) (hr : min wr N = 1) :
    extrapolate2d y pr pc wt wb wl wr =
      (List.range (M + 2 * pr)).map fun k => (List.range (N + 2 * pc)).map fun l =>
        ent y (max pr (min k (pr + M - 1)) - pr) (max pc (min l (pc + N - 1)) - pc) :=
  have _ := hpr; have _ := hpc
  extrapolate2d_one y M N pr pc wt wb wl wr hM hrect hM1 hN1 ht hb hl hr

/-- `pad_edges2d`'s arguments: `pad_length` a scalar `[p]` or a pair `[p, q]` (rows, columns), windows
default (`none`), scalar, pair or four values — whenever `_get_row_col_values` resolves them to positive
numbers the result is `_extrapolate2d` with the FIRST row value and the FIRST column value of the padding
(`pb` and `pr` only have to be positive: a four-valued `pad_length` is accepted and its second and fourth
entries are ignored, DESIGN/report) -/
theorem pad2d_args_ok (y : List (List Rat)) (pad : List Int) (win : Option (List Int))
    (pt pb pl pr wt wb wl wr : Nat) (hp : rowColValues pad = some ((pt : Int), (pb : Int), (pl : Int), (pr : Int)))
    (hw : windows2d ((pt : Int), (pb : Int), (pl : Int), (pr : Int)) win =
      some ((wt : Int), (wb : Int), (wl : Int), (wr : Int)))
    (h1 : 1 ≤ pt) (h2 : 1 ≤ pb) (h3 : 1 ≤ pl) (h4 : 1 ≤ pr) (h5 : 1 ≤ wt) (h6 : 1 ≤ wb) (h7 : 1 ≤ wl) (h8 : 1 ≤ wr) :
    padEdges2dExtrap y pad win = .ok (extrapolate2d y pt pl wt wb wl wr) :=
  padEdges2dExtrap_ok y pad win pt pb pl pr wt wb wl wr hp hw h1 h2 h3 h4 h5 h6 h7 h8
/-- scalar and pair-valued `pad_length` with the default windows: exactly `p` rows / `q` columns per side -/
theorem pad2d_args_pair (y : List (List Rat)) (p q : Nat) (hp : 1 ≤ p) (hq : 1 ≤ q) :
    padEdges2dExtrap y [(p : Int), (q : Int)] none = .ok (extrapolate2d y p q p p q q) ∧
    padEdges2dExtrap y [(p : Int)] none = .ok (extrapolate2d y p p p p p p) :=
  ⟨padEdges2dExtrap_ok y _ none p p q q p p q q rfl rfl hp hp hq hq hp hp hq hq,
   padEdges2dExtrap_ok y _ none p p p p p p p p rfl rfl hp hp hp hp hp hp hp hp⟩
/-- a pad length of 0 on any side is refused (`NotImplementedError`), before anything else is looked at -/
theorem pad2d_args_zero (y : List (List Rat)) (pad : List Int) (win : Option (List Int))
    (pt pb pl pr : Int) (hp : rowColValues pad = some (pt, pb, pl, pr)) (h0 : pt = 0 ∨ pb = 0 ∨ pl = 0 ∨ pr = 0) :
    padEdges2dExtrap y pad win = .notImplemented := padEdges2dExtrap_zero y pad win pt pb pl pr hp h0

example : extrapolate2d [[0, 1, 2], [10, 11, 12]] 1 2 2 2 2 3 =
    [[-12, -11, -10, -9, -8, -7, -6], [-2, -1, 0, 1, 2, 3, 4], [8, 9, 10, 11, 12, 13, 14], [18, 19, 20, 21, 22, 23, 24]] := by
  decide +kernel
example : extrapolate2d [[1, 2], [3, 5]] 1 1 1 1 1 1 = [[1, 1, 2, 2], [1, 1, 2, 2], [3, 3, 5, 5], [3, 3, 5, 5]] := by decide +kernel
example : extrapolate2d [[1, 2], [3, 5]] 1 1 2 2 2 2 = [[-1, -1, -1, -1], [0, 1, 2, 3], [1, 3, 5, 7], [2, 5, 8, 11]] := by decide +kernel
/-- a single row: the column direction has one point, so it is repeated whatever `wt`, `wb` say -/
example : extrapolate2d [[1, 2, 4]] 2 1 5 5 2 1 =
    [[0, 1, 2, 4, 4], [0, 1, 2, 4, 4], [0, 1, 2, 4, 4], [0, 1, 2, 4, 4], [0, 1, 2, 4, 4]] := by decide +kernel
example : clampIdx 2 3 1 4 0 = 2 ∧ clampIdx 2 3 1 4 6 = 6 ∧ clampIdx 2 1 7 7 4 = 2 := by decide
example : padEdges2dExtrap [[1, 2], [3, 5]] [1, 0] none = .notImplemented := by decide +kernel
example : padEdges2dExtrap [[1, 2], [3, 5]] [1, -1] none = .valueError := by decide +kernel
example : padEdges2dExtrap [[1, 2], [3, 5]] [1, 2, 1, 9] (some [2]) =
    .ok [[-1, -1, -1, -1], [0, 1, 2, 3], [1, 3, 5, 7], [2, 5, 8, 11]] := by decide +kernel

/-- **the two corner estimates are the same number**: padding the rows and padding the columns commute
(each is a multiplication by a fixed matrix, on the right and on the left), so the mean taken in the four
corners by `_extrapolate2d` is the mean of a value with itself and the whole result is
"pad the columns, then pad the rows" = "pad the rows, then pad the columns"; all data, sizes, windows -/
theorem extrap2d_corner_orders_agree (y : List (List Rat)) (M N pr pc wt wb wl wr : Nat) (hM : y.length = M)
    (hrect : ∀ row ∈ y, row.length = N) (hM1 : 1 ≤ M) (hN1 : 1 ≤ N) :
    padCols (padRows y pc wl wr) pr wt wb = padRows (padCols y pr wt wb) pc wl wr ∧
    extrapolate2d y pr pc wt wb wl wr = padRows (padCols y pr wt wb) pc wl wr :=
  extrapolate2d_eq_orders y M N pr pc wt wb wl wr hM hrect hM1 hN1
/-- so every row of the result, the top and bottom strips with the corners included, is the 1-D `padEdges`
of the corresponding row of the column-padded data: a corner IS the 1-D extension of a strip -/
theorem pad2d_all_rows_are_1d (y : List (List Rat)) (M N pr pc wt wb wl wr : Nat) (hM : y.length = M)
    (hrect : ∀ row ∈ y, row.length = N) (hM1 : 1 ≤ M) (hN1 : 1 ≤ N) (k : Nat) (hk : k < M + 2 * pr) :
    (extrapolate2d y pr pc wt wb wl wr).getD k [] =
      padEdges ((padCols y pr wt wb).getD k []) pc (min wl N) (min wr N) :=
  extrapolate2d_all_rows y M N pr pc wt wb wl wr hM hrect hM1 hN1 k hk
example : padCols (padRows [[1, 2, 4], [0, 5, 3]] 2 3 2) 1 2 1 = padRows (padCols [[1, 2, 4], [0, 5, 3]] 1 2 1) 2 3 2 ∧
    (extrapolate2d [[1, 2, 4], [0, 5, 3]] 1 2 2 1 3 2).getD 0 [] = [-5/2, -1, 2, -1, 5, 11, 17] := by decide +kernel

end PbVerif.C18
