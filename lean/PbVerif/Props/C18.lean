import PbVerif.Lemmas.Pad
/-! C18 — padding and kernel helpers preserve the data and its length. -/
namespace PbVerif.C18
open PbVerif.Pad PbVerif.Lemmas

/-- exactly `pad_length` extra points on both sides, interior unchanged ('extrapolate' mode) -/
theorem pad_len (ys : List Rat) (pad wl wr : Nat) : (padEdges ys pad wl wr).length = ys.length + 2 * pad :=
  padEdges_length ys pad wl wr
theorem pad_interior (ys : List Rat) (pad wl wr i : Nat) (hi : i < ys.length) :
    (padEdges ys pad wl wr).getD (pad + i) 0 = ys.getD i 0 := padEdges_interior ys pad wl wr i hi

/-- window 1 = the edge value -/
theorem pad_window_one (ys : List Rat) (pad k : Nat) (hk : k < pad) (hn : 1 ≤ ys.length) :
    (padEdges ys pad 1 1).getD k 0 = ys.getD 0 0 ∧
    (padEdges ys pad 1 1).getD (pad + ys.length + k) 0 = ys.getD (ys.length - 1) 0 := padEdges_window_one ys pad k hk hn

/-- exactly linear data is continued exactly -/
theorem extrap_linear_exact (a b : Rat) (n pad wl wr : Nat) (hn : 2 ≤ n) (hwl : 2 ≤ wl) (hwr : 2 ≤ wr) :
    padEdges ((List.range n).map fun (i : Nat) => a + b * (((pad + i : Nat) : Int) : Rat)) pad wl wr =
      (List.range (n + 2 * pad)).map fun (k : Nat) => a + b * (((k : Nat) : Int) : Rat) :=
  padEdges_linear_exact a b n pad wl wr hn hwl hwr

/-- `padded_convolve` returns the data's length … -/
theorem paddedConvolve_len (padded kernel : List Rat) (p : Nat) :
    (paddedConvolveCore padded kernel p).length = padded.length - 2 * p := paddedConvolveCore_length padded kernel p
theorem convPadding_pos (n k : Nat) (hn : 1 ≤ n) (hk : 1 ≤ k) : 1 ≤ convPadding n k := Lemmas.convPadding_pos n k hn hk
/-- … and leaves constant data unchanged for any normalised kernel no longer than the data -/
theorem paddedConvolve_const (c : Rat) (n : Nat) (kernel : List Rat) (hk : 1 ≤ kernel.length) (hkn : kernel.length ≤ n)
    (hsum : sumL kernel = 1) (i : Nat) (hi : i < n) :
    (paddedConvolveCore (List.replicate (n + 2 * convPadding n kernel.length) c) kernel (convPadding n kernel.length)).getD i 0 = c :=
  Lemmas.paddedConvolve_const c n kernel hk hkn hsum i hi

/-- dividing a non-negative symmetric kernel by its sum keeps it non-negative and symmetric and makes it sum to one -/
theorem kernel_norm (l : List Rat) (h : sumL l ≠ 0) : sumL (normalize l) = 1 := normalize_sum l h
theorem kernel_nonneg (l : List Rat) (h : ∀ v ∈ l, 0 ≤ v) : ∀ v ∈ normalize l, 0 ≤ v := normalize_nonneg l h
theorem kernel_sym (l : List Rat) (h : l.reverse = l) : (normalize l).reverse = normalize l := normalize_symm l h

/-- `optimize_window` returns an integer of at least 1, whatever the data make the tests do -/
theorem optimizeWindow_ge_one (hit : Nat → Bool) (inc maxHits minHw maxHw : Nat) :
    1 ≤ optimizeWindow hit inc maxHits minHw maxHw := Lemmas.optimizeWindow_ge_one hit inc maxHits minHw maxHw

example : padEdges [3, 5, 7] 2 3 2 = [-1, 1, 3, 5, 7, 9, 11] := by decide +kernel
example : paddedConvolveCore (List.replicate 9 4) [1/4, 1/4, 1/4, 1/4] 2 = [4, 4, 4, 4, 4] := by decide +kernel

end PbVerif.C18
