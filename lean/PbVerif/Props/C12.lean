import PbVerif.Lemmas.BSpline
import PbVerif.Lemmas.BSplineAffine
/-! C12 — the spline design matrix is the B-spline basis; its normal equations are exact. -/
namespace PbVerif.C12
open PbVerif.BSpline PbVerif.Lemmas

/-- every row of the design matrix has `degree+1` entries, placed in consecutive columns
`left-degree … left` inside the matrix (CSR shape `N·(degree+1)`) -/
theorem csr_shape (knots : List Rat) (deg : Nat) (xs : List Rat) (h : deg < knots.length - (deg + 1)) :
    RowsWf deg (knots.length - (deg + 1)) (designRows knots deg xs) ∧ (designRows knots deg xs).length = xs.length :=
  designRows_wf knots deg xs h

/-- entries are non-negative and each row sums to one (partition of unity), for every degree, every
non-decreasing knot vector and every x in a non-degenerate knot interval -/
theorem deBoor_nonneg (knots : List Rat) (x : Rat) (deg left : Nat) (h : InInterval knots x left)
    (hd : deg ≤ left) (hk : left + deg < knots.length) : ∀ v ∈ deBoor knots x deg left, 0 ≤ v :=
  Lemmas.deBoor_nonneg knots x deg left h hd hk
theorem deBoor_sum_one (knots : List Rat) (x : Rat) (deg left : Nat) (h : InInterval knots x left)
    (hd : deg ≤ left) (hk : left + deg < knots.length) : (deBoor knots x deg left).sum = 1 :=
  Lemmas.deBoor_sum_one knots x deg left h hd hk

/-- the entries are the values of the B-spline basis functions defined by the Cox–de Boor recursion -/
theorem deBoor_eq_coxDeBoor (knots : List Rat) (x : Rat) (deg left : Nat) (h : InInterval knots x left)
    (hx : x < knots.getD (left + 1) 0) (hd : deg ≤ left) (hk : left + deg < knots.length) (j : Nat) (hj : j ≤ deg) :
    (deBoor knots x deg left).getD j 0 = cox knots deg (left - deg + j) x :=
  Lemmas.deBoor_eq_cox knots x deg left h hx hd hk j hj

/-- the interval search is correct for every x at or right of the first inner knot, independently of
the interval found for the previous point (repeated, clustered, decreasing x) -/
theorem findInterval_spec (knots : List Rat) (deg nb : Nat) (x : Rat) (lastLeft : Nat)
    (hs : knots.Pairwise (· ≤ ·)) (hlen : knots.length = nb + deg + 1) (hd : deg < nb)
    (hlo : knots.getD deg 0 ≤ x) :
    let r := findInterval knots deg x lastLeft nb
    deg ≤ r ∧ r < nb ∧ knots.getD r 0 ≤ x ∧ (x < knots.getD (r + 1) 0 ∨ r + 1 = nb) :=
  Lemmas.findInterval_spec knots deg nb x lastLeft hs hlen hd hlo

/-- the banded `B'WB` and `B'Wy` equal the explicit products for every weight vector -/
theorem btb_eq (deg nb : Nat) (rows : List Row) (ys ws : List Rat) (h : RowsWf deg nb rows)
    (hy : ys.length = rows.length) (hw : ws.length = rows.length) (r c : Nat) (hr : r ≤ deg) (hc : c + r < nb) :
    ((btbBty deg nb rows ys ws).1.getD r []).getD c 0 = btbSpec deg rows ws r c :=
  Lemmas.btb_eq deg nb rows ys ws h hy hw r c hr hc
theorem bty_eq (deg nb : Nat) (rows : List Row) (ys ws : List Rat) (h : RowsWf deg nb rows)
    (hy : ys.length = rows.length) (hw : ws.length = rows.length) (c : Nat) (hc : c < nb) :
    (btbBty deg nb rows ys ws).2.getD c 0 = btySpec deg rows ys ws c :=
  Lemmas.bty_eq deg nb rows ys ws h hy hw c hc

/-- knot vector length and the number of basis mid-points (used to interpolate weights onto the
coefficient grid) for odd and even degree -/
theorem splineKnots_length (a b : Rat) (nk deg : Nat) : (splineKnots a b nk deg).length = nk + 2 * deg :=
  Lemmas.splineKnots_length a b nk deg
theorem basisMidpoints_count (numKnots deg : Nat) (h : 2 ≤ numKnots) :
    basisMidpointsCount (numKnots + 2 * deg) deg = numKnots + deg - 1 := basisMidpointsCount_eq numKnots deg h

/-- non-vacuity: quadratic basis on knots -1,-1/2,…,2 at x = 1/4 -/
example : deBoor (splineKnots 0 1 3 2) (1/4) 2 2 = [1/8, 3/4, 1/8] ∧
    InInterval (splineKnots 0 1 3 2) (1/4) 2 := by
  refine ⟨by decide +kernel, ⟨by decide +kernel, by decide +kernel, by decide +kernel, by decide +kernel, by decide +kernel⟩⟩

/-! ### invariance under the magnitude of the x-axis

`t ↦ a·t + b` with `a > 0` (any offset `b`, any scale over any number of decades) applied to the abscissae AND
the knot vector changes nothing, exactly: `_find_interval` only compares `x` with knots, `_de_boor` only forms
ratios `(x - knot)/(knot - knot)`, and `_spline_knots` builds the knots from `min`, `max` and their difference.
An absolute tolerance anywhere in these (e.g. `isclose(left_knot, right_knot)` for `left_knot == right_knot`)
contradicts the statements below at small `a`. -/

/-- `_de_boor`: all `degree+1` values are unchanged.  The degenerate branch `left_knot == right_knot → continue`
is taken for the mapped knots exactly when it is taken for the original ones; this (and the whole statement)
needs only `a ≠ 0`.  Guards of the real code: `deg ≤ left` (no negative knot index), `left + deg < len(knots)`. -/
theorem deBoor_affine_invariant (a b : Rat) (ha : a ≠ 0) (knots : List Rat) (x : Rat) (deg left : Nat)
    (hd : deg ≤ left) (hk : left + deg < knots.length) :
    deBoor (knots.map (fun t => a * t + b)) (a * x + b) deg left = deBoor knots x deg left :=
  have _ := hd; Affine.deBoorUpTo_aff a b ha knots x left deg hk

/-- `_find_interval`: the same interval index, for every starting guess `lastLeft` (needs `a > 0`: the map must
preserve `<`); `len(knots) = num_bases + deg + 1` as in `_make_design_matrix` -/
theorem findInterval_affine_invariant (a b : Rat) (ha : 0 < a) (knots : List Rat) (deg : Nat) (x : Rat)
    (lastLeft nb : Nat) (hd : deg < nb) (hlen : knots.length = nb + deg + 1) :
    findInterval (knots.map (fun t => a * t + b)) deg (a * x + b) lastLeft nb = findInterval knots deg x lastLeft nb :=
  Affine.findInterval_aff a b ha knots deg x lastLeft nb hd (by omega)

/-- `__make_design_matrix`: the whole design matrix (interval indices and values of every row) is unchanged when
x and the knot vector are mapped by the same increasing affine map -/
theorem designRows_affine_invariant (a b : Rat) (ha : 0 < a) (knots : List Rat) (deg : Nat) (xs : List Rat)
    (h : deg < knots.length - (deg + 1)) :
    designRows (knots.map (fun t => a * t + b)) deg (xs.map (fun t => a * t + b)) = designRows knots deg xs :=
  Affine.designRows_aff a b ha knots deg xs h

/-- `_spline_knots(…, penalized=True)` commutes with the map: knots of `a·x + b` are `a·knots(x) + b`
(`num_knots ≥ 2` is the guard of the real code, `ValueError` otherwise; the extremes of `a·x + b` are the images of
the extremes of `x` for `a > 0`, `xKnots_affine`) -/
theorem splineKnots_affine (a b xmin xmax : Rat) (nk deg : Nat) (hnk : 2 ≤ nk) :
    splineKnots (a * xmin + b) (a * xmax + b) nk deg = (splineKnots xmin xmax nk deg).map (fun t => a * t + b) :=
  have _ := hnk; Affine.splineKnots_aff a b xmin xmax nk deg
theorem xKnots_affine (a b : Rat) (ha : 0 < a) (xs : List Rat) (hx : xs ≠ []) (nk deg : Nat) (hnk : 2 ≤ nk) :
    xKnots (xs.map (fun t => a * t + b)) nk deg = (xKnots xs nk deg).map (fun t => a * t + b) :=
  have _ := hnk; Affine.xKnots_aff a b ha xs hx nk deg

/-- **the P-spline basis does not depend on the magnitude of x**: knots built from `a·x + b`, basis evaluated at
`a·x + b` — the same matrix as for `x`; hence the same `B'WB` and `B'Wy` for all data and weights -/
theorem basis_magnitude_free (a b : Rat) (ha : 0 < a) (xs : List Rat) (hx : xs ≠ []) (nk deg : Nat) (hnk : 2 ≤ nk) :
    pSplineBasis (xs.map (fun t => a * t + b)) nk deg = pSplineBasis xs nk deg :=
  Affine.pSplineBasis_aff a b ha xs hx nk deg hnk
theorem normal_equations_magnitude_free (a b : Rat) (ha : 0 < a) (xs : List Rat) (hx : xs ≠ []) (nk deg : Nat)
    (hnk : 2 ≤ nk) (nb : Nat) (ys ws : List Rat) :
    btbBty deg nb (pSplineBasis (xs.map (fun t => a * t + b)) nk deg) ys ws =
      btbBty deg nb (pSplineBasis xs nk deg) ys ws := by
  rw [basis_magnitude_free a b ha xs hx nk deg hnk]

/-- non-vacuity: 6 unevenly spaced points, 3 knots, quadratic; `a = 10⁻³⁰, b = 0` and `a = 1, b = 1.7·10⁹`: the
hypotheses hold and the common value is a genuine basis (second row), the knots really move -/
example :
    (pSplineBasis ([0, 1/3, 1/2, 7/10, 9/10, 1].map (fun t => (1 / 1000000000000000000000000000000 : Rat) * t + 0)) 3 2).map
        (fun r => (r.left, r.vals)) = (pSplineBasis [0, 1/3, 1/2, 7/10, 9/10, 1] 3 2).map (fun r => (r.left, r.vals)) ∧
    (pSplineBasis ([0, 1/3, 1/2, 7/10, 9/10, 1].map (fun t => 1 * t + 1700000000)) 3 2).map
        (fun r => (r.left, r.vals)) = (pSplineBasis [0, 1/3, 1/2, 7/10, 9/10, 1] 3 2).map (fun r => (r.left, r.vals)) ∧
    ((pSplineBasis [0, 1/3, 1/2, 7/10, 9/10, 1] 3 2).map (fun r => (r.left, r.vals))).getD 1 (0, []) = (2, [1/18, 13/18, 2/9]) ∧
    xKnots ([0, 1/3, 1/2, 7/10, 9/10, 1].map (fun t => 1 * t + 1700000000)) 3 2 =
      [1699999999, 3399999999/2, 1700000000, 3400000001/2, 1700000001, 3400000003/2, 1700000002] := by
  refine ⟨by decide +kernel, by decide +kernel, by decide +kernel, by decide +kernel⟩
/-- a degenerate (repeated-knot) interval: the `left_knot == right_knot` branch is taken on both sides -/
example : deBoor ([0, 0, 0, 1, 1, 1].map (fun t => (1 / 1000000000000000000000000000000 : Rat) * t + 5)) ((1 / 1000000000000000000000000000000 : Rat) * (1/4) + 5) 2 2 =
    deBoor [0, 0, 0, 1, 1, 1] (1/4) 2 2 ∧ deBoor [0, 0, 0, 1, 1, 1] (1/4) 2 2 = [9/16, 3/8, 1/16] := by decide +kernel

end PbVerif.C12
