import PbVerif.Lemmas.BSpline
/-! C12 — the spline design matrix is the B-spline basis; its normal equations are exact. -/
namespace PbVerif.C12
open PbVerif.BSpline PbVerif.Lemmas

/-- every row of the design matrix has `degree+1` entries, placed in consecutive columns
`left-degree … left` inside the matrix (CSR shape `N·(degree+1)`) -/
theorem csr_shape (knots : List Rat) (deg : Nat) (xs : List Rat) (h : deg < knots.length - (deg + 1)) :
    RowsWf deg (knots.length - (deg + 1)) (designRows knots deg xs) ∧ (designRows knots deg xs).length = xs.length :=
  designRows_wf knots deg xs h

/-- entries are non-negative and each row sums to one (partition of unity), for every degree, every
non-decreasing knot vector and every x in a non-degenerate knot interval -/
theorem deBoor_nonneg (knots : List Rat) (x : Rat) (deg left : Nat) (h : InInterval knots x left)
    (hd : deg ≤ left) (hk : left + deg < knots.length) : ∀ v ∈ deBoor knots x deg left, 0 ≤ v :=
  Lemmas.deBoor_nonneg knots x deg left h hd hk
theorem deBoor_sum_one (knots : List Rat) (x : Rat) (deg left : Nat) (h : InInterval knots x left)
    (hd : deg ≤ left) (hk : left + deg < knots.length) : (deBoor knots x deg left).sum = 1 :=
  Lemmas.deBoor_sum_one knots x deg left h hd hk

/-- the entries are the values of the B-spline basis functions defined by the Cox–de Boor recursion -/
theorem deBoor_eq_coxDeBoor (knots : List Rat) (x : Rat) (deg left : Nat) (h : InInterval knots x left)
    (hx : x < knots.getD (left + 1) 0) (hd : deg ≤ left) (hk : left + deg < knots.length) (j : Nat) (hj : j ≤ deg) :
    (deBoor knots x deg left).getD j 0 = cox knots deg (left - deg + j) x :=
  Lemmas.deBoor_eq_cox knots x deg left h hx hd hk j hj

/-- the interval search is correct for every x at or right of the first inner knot, independently of
the interval found for the previous point (repeated, clustered, decreasing x) -/
theorem findInterval_spec (knots : List Rat) (deg nb : Nat) (x : Rat) (lastLeft : Nat)
    (hs : knots.Pairwise (· ≤ ·)) (hlen : knots.length = nb + deg + 1) (hd : deg < nb)
    (hlo : knots.getD deg 0 ≤ x) :
    let r := findInterval knots deg x lastLeft nb
    deg ≤ r ∧ r < nb ∧ knots.getD r 0 ≤ x ∧ (x < knots.getD (r + 1) 0 ∨ r + 1 = nb) :=
  Lemmas.findInterval_spec knots deg nb x lastLeft hs hlen hd hlo

/-- the banded `B'WB` and `B'Wy` equal the explicit products for every weight vector -/
theorem btb_eq (deg nb : Nat) (rows : List Row) (ys ws : List Rat) (h : RowsWf deg nb rows)
    (hy : ys.length = rows.length) (hw : ws.length = rows.length) (r c : Nat) (hr : r ≤ deg) (hc : c + r < nb) :
    ((btbBty deg nb rows ys ws).1.getD r []).getD c 0 = btbSpec deg rows ws r c :=
  Lemmas.btb_eq deg nb rows ys ws h hy hw r c hr hc
theorem bty_eq (deg nb : Nat) (rows : List Row) (ys ws : List Rat) (h : RowsWf deg nb rows)
    (hy : ys.length = rows.length) (hw : ws.length = rows.length) (c : Nat) (hc : c < nb) :
    (btbBty deg nb rows ys ws).2.getD c 0 = btySpec deg rows ys ws c :=
  Lemmas.bty_eq deg nb rows ys ws h hy hw c hc

/-- knot vector length and the number of basis mid-points (used to interpolate weights onto the
coefficient grid) for odd and even degree -/
theorem splineKnots_length (a b : Rat) (nk deg : Nat) : (splineKnots a b nk deg).length = nk + 2 * deg :=
  Lemmas.splineKnots_length a b nk deg
theorem basisMidpoints_count (numKnots deg : Nat) (h : 2 ≤ numKnots) :
    basisMidpointsCount (numKnots + 2 * deg) deg = numKnots + deg - 1 := basisMidpointsCount_eq numKnots deg h

/-- non-vacuity: quadratic basis on knots -1,-1/2,…,2 at x = 1/4 -/
example : deBoor (splineKnots 0 1 3 2) (1/4) 2 2 = [1/8, 3/4, 1/8] ∧
    InInterval (splineKnots 0 1 3 2) (1/4) 2 := by
  refine ⟨by decide +kernel, ⟨by decide +kernel, by decide +kernel, by decide +kernel, by decide +kernel, by decide +kernel⟩⟩

end PbVerif.C12
