import PbVerif.Lemmas.Whittaker
import PbVerif.Lemmas.Kron2d
import PbVerif.Lemmas.Jbcd
import PbVerif.Lemmas.LoopS
/-! C06 — Whittaker baselines solve the documented penalised least-squares system: the band arrays
the methods assemble DENOTE the documented matrices, for every size, order, weight vector and
storage layout (the solvers themselves are outside the model: each of their outputs is certified by an
exact backward error in the correspondence). -/
namespace PbVerif.C06
open PbVerif.Banded PbVerif.Whittaker PbVerif.Lemmas PbVerif.Loop

theorem std_asm_den_lower (n d : Nat) (lam : Rat) (w : List Rat) (hw : w.length = n) (i j : Nat) (hi : i < n) (hj : j < n) :
    denLower (asmStd n d lam w true false) i j = docStd n d lam w i j := Lemmas.std_asm_den_lower n d lam w hw i j hi hj
theorem std_asm_den_full (n d : Nat) (lam : Rat) (w : List Rat) (hw : w.length = n) (i j : Nat) (hi : i < n) (hj : j < n) :
    denFull (asmStd n d lam w false false) d i j = docStd n d lam w i j := Lemmas.std_asm_den_full n d lam w hw i j hi hj
theorem std_asm_reversed (n d : Nat) (lam : Rat) (w : List Rat) :
    (asmStd n d lam w false true).reverse = asmStd n d lam w false false := Lemmas.std_asm_reversed n d lam w
theorem iasls_asm_den_lower (n d : Nat) (lam lam1 : Rat) (w : List Rat) (hw : w.length = n) (hd : 1 ≤ d) (i j : Nat) (hi : i < n) (hj : j < n) :
    denLower (asmIasls n d lam lam1 w true false) i j = docIasls n d lam lam1 w i j := Lemmas.iasls_asm_den_lower n d lam lam1 w hw hd i j hi hj
theorem iasls_asm_den_full (n d : Nat) (lam lam1 : Rat) (w : List Rat) (hw : w.length = n) (hd : 1 ≤ d) (i j : Nat) (hi : i < n) (hj : j < n) :
    denFull (asmIasls n d lam lam1 w false false) d i j = docIasls n d lam lam1 w i j := Lemmas.iasls_asm_den_full n d lam lam1 w hw hd i j hi hj
theorem iasls_rhs (y : List Rat) (hn : 2 ≤ y.length) (i : Nat) (hi : i < y.length) :
    (d1y y).getD i 0 = sumL ((List.range y.length).map fun (j : Nat) => dtdQ y.length 1 i j * y.getD j 0) := Lemmas.iasls_rhs y hn i hi
theorem shiftRows_reverse_colscale (n d : Nat) (w : List Rat) (hw : w.length = n) (i j : Nat) (hi : i < n) (hj : j < n) :
    denFull (shiftRows (colScale (bandsQ n d false).reverse w) d d) d i j = w.getD i 0 * dtdQ n d i j :=
  Lemmas.shiftRows_reverse_colscale n d w hw i j hi hj
theorem aspls_asm_den (n d : Nat) (lam : Rat) (w alpha : List Rat) (hw : w.length = n) (ha : alpha.length = n)
    (i j : Nat) (hi : i < n) (hj : j < n) :
    denFull (asmAspls n d lam w alpha false) d i j = docAspls n d lam w alpha i j := Lemmas.aspls_asm_den n d lam w alpha hw ha i j hi hj
theorem drpls_asm_den (n d : Nat) (lam eta : Rat) (w : List Rat) (hw : w.length = n) (hd : 1 ≤ d)
    (i j : Nat) (hi : i < n) (hj : j < n) :
    denFull (asmDrpls n d lam eta w false) d i j = docDrpls n d lam eta w i j := Lemmas.drpls_asm_den n d lam eta w hw hd i j hi hj
/-- the documented matrices evaluated by the certificate (fast offset form) are the dense definitions -/
theorem certificate_uses_DtD (n d i j : Nat) (hi : i < n) (hj : j < n) : dtdFastQ n d i j = dtdQ n d i j := dtdFastQ_eq n d i j hi hj

example : asmStd 5 2 1 [1, 2, 3, 4, 5] true false = [[2, 7, 9, 9, 6], [-2, -4, -4, -2, 0], [1, 1, 1, 0, 0]] := by decide +kernel
example : denFull (asmAspls 5 2 1 [0, 0, 0, 0, 0] [1, 2, 3, 4, 5] false) 2 1 2 = 2 * -4 := by decide +kernel

/-! ### 2-D: Kronecker-sum penalty (`two_d/_whittaker_utils.py: PenalizedSystem2D`) -/

/-- **`kron_penalty_vec`**: over any commutative ring, for the row-major vec of an `M × N` array `V`,
`(λ_r P_r ⊗ I_N + I_M ⊗ λ_c P_c) vec(V) = vec(λ_r P_r V + λ_c V P_cᵀ)`, entry `(i, j)`, for all `M`, `N` (Kronecker entries
`(A ⊗ B)[a,b] = A[a/N, b/N]·B[a%N, b%N]` as `scipy.sparse.kron` lays them out) -/
theorem kron_penalty_vec {α : Type} [CommRing α] (M N : Nat) (lr lc : α) (Pr Pc V : Nat → Nat → α) (i j : Nat) (hi : i < M) (hj : j < N) :
    (∑ b ∈ Finset.range (M * N), (kronG (fun p q => lr * Pr p q) idG N (i * N + j) b + kronG idG (fun p q => lc * Pc p q) N (i * N + j) b)
        * V (b / N) (b % N))
      = lr * ∑ i' ∈ Finset.range M, Pr i i' * V i' j + lc * ∑ j' ∈ Finset.range N, V i j' * Pc j j' :=
  kron_penalty_vec_G M N lr lc Pr Pc V i j hi hj
/-- the documented 2-D matrix the certificate evaluates is exactly `diag(w) + λ_r D_r'D_r ⊗ I_n + I_m ⊗ λ_c D_c'D_c` -/
theorem doc2d_is_kron_sum (m n dr dc : Nat) (lamr lamc : Rat) (w : List Rat) (a b : Nat) (ha : a < m * n) (hb : b < m * n) :
    doc2d m n dr dc lamr lamc w a b = delta a b (w.getD a 0)
      + (kronG (fun p q => lamr * dtdQ m dr p q) idG n a b + kronG idG (fun p q => lamc * dtdQ n dc p q) n a b) := by
  rw [doc2d_eq_kron, pen2d_eq_kron_DtD m n dr dc lamr lamc a b ha hb]
/-- the matrix assembled by `reset_diagonals` + `add_diagonal(w)` (what `direct_solve` receives) is the documented one -/
theorem asm2d_den (m n dr dc : Nat) (lamr lamc : Rat) (w : List Rat) (a b : Nat) :
    asm2d m n dr dc lamr lamc w a b = doc2d m n dr dc lamr lamc w a b := asm2d_eq_doc2d m n dr dc lamr lamc w a b
/-- row `(i, j)` of the documented 2-D system applied to a row-major vec `v` (`V[p,q] = v[p·n+q]`):
`w∘v + λ_r (D_r'D_r V) + λ_c (V D_c'D_c)` — the form of docs/algorithms_2d/whittaker -/
theorem doc2d_apply_vec (m n dr dc : Nat) (lamr lamc : Rat) (w v : List Rat) (i j : Nat) (hi : i < m) (hj : j < n) :
    sumL ((List.range (m * n)).map fun b => doc2d m n dr dc lamr lamc w (i * n + j) b * v.getD b 0)
      = w.getD (i * n + j) 0 * v.getD (i * n + j) 0
        + lamr * sumL ((List.range m).map fun i' => dtdQ m dr i i' * v.getD (i' * n + j) 0)
        + lamc * sumL ((List.range n).map fun j' => v.getD (i * n + j') 0 * dtdQ n dc j j') := doc2d_mulVec m n dr dc lamr lamc w v i j hi hj

example : asm2dRows 2 2 1 1 2 3 [1, 1, 1, 1] = [[6, -3, -2, 0], [-3, 6, 0, -2], [-2, 0, 6, -3], [0, -2, -3, 6]] := by decide +kernel
example : (∑ b ∈ Finset.range (2 * 2), (kronG (fun p q => (2:Int) * (if p = q then 1 else -1)) idG 2 (1 * 2 + 0) b
    + kronG idG (fun p q => (3:Int) * (if p = q then 1 else -1)) 2 (1 * 2 + 0) b) * ((fun p q => ((p + 2 * q : Nat) : Int)) (b / 2) (b % 2))) = -4 := by decide +kernel

/-! ### jbcd (`morphological.py`): the two banded systems of every iteration -/

/-- **`jbcd_asm_den`** (lower bands, `banded_solver = 3`, or 1–2 when `diff_order ≠ 2` / no pentapy): `c·penalty` with `diag` added to the
main row denotes `diag·I + c·D'D`; signal step `(c, diag) = (γ, 1)`, baseline step `(2β, 1 + 2α)` -/
theorem jbcd_asm_den_lower (n d : Nat) (c diag : Rat) (i j : Nat) (hi : i < n) (hj : j < n) :
    denLower (asmJbcd n d c diag true false) i j = docJbcd n d c diag i j := Lemmas.jbcd_asm_den_lower n d c diag i j hi hj
/-- … full bands (`banded_solver = 4`) -/
theorem jbcd_asm_den_full (n d : Nat) (c diag : Rat) (i j : Nat) (hi : i < n) (hj : j < n) :
    denFull (asmJbcd n d c diag false false) d i j = docJbcd n d c diag i j := Lemmas.jbcd_asm_den_full n d c diag i j hi hj
/-- … reversed full bands (pentapy, `diff_order = 2`): the same array upside down -/
theorem jbcd_asm_reversed (n d : Nat) (c diag : Rat) :
    (asmJbcd n d c diag false true).reverse = asmJbcd n d c diag false false := Lemmas.jbcd_asm_reversed n d c diag
/-- **`jbcd_asm_den`**: both systems of a pass, in both solver layouts: signal `I + γ D'D`, baseline `(1 + 2α) I + 2β D'D` -/
theorem jbcd_asm_den (n d : Nat) (alpha beta gamma : Rat) (i j : Nat) (hi : i < n) (hj : j < n) :
    denLower (asmJbcdSignal n d gamma true false) i j = docJbcd n d gamma 1 i j ∧
    denFull (asmJbcdSignal n d gamma false false) d i j = docJbcd n d gamma 1 i j ∧
    denLower (asmJbcdBaseline n d alpha beta true false) i j = docJbcd n d (2 * beta) (1 + 2 * alpha) i j ∧
    denFull (asmJbcdBaseline n d alpha beta false false) d i j = docJbcd n d (2 * beta) (1 + 2 * alpha) i j :=
  ⟨Lemmas.jbcd_asm_den_lower n d gamma 1 i j hi hj, Lemmas.jbcd_asm_den_full n d gamma 1 i j hi hj,
   Lemmas.jbcd_asm_den_lower n d (2 * beta) (1 + 2 * alpha) i j hi hj, Lemmas.jbcd_asm_den_full n d (2 * beta) (1 + 2 * alpha) i j hi hj⟩
/-- the baseline step is the documented `(I + 2αI + 2β D'D)` -/
theorem jbcd_baseline_den (n d : Nat) (alpha beta : Rat) (i j : Nat) (hi : i < n) (hj : j < n) :
    denLower (asmJbcdBaseline n d alpha beta true false) i j = delta i j 1 + 2 * alpha * delta i j 1 + 2 * beta * dtdQ n d i j := by
  rw [show asmJbcdBaseline n d alpha beta true false = asmJbcd n d (2 * beta) (1 + 2 * alpha) true false from rfl,
    Lemmas.jbcd_asm_den_lower n d _ _ i j hi hj]
  unfold docJbcd delta
  split <;> ring
/-- the signal step as coded is `I + γ D'D` … -/
theorem jbcd_signal_den (n d : Nat) (gamma : Rat) (i j : Nat) (hi : i < n) (hj : j < n) :
    denLower (asmJbcdSignal n d gamma true false) i j = delta i j 1 + gamma * dtdQ n d i j :=
  Lemmas.jbcd_asm_den_lower n d gamma 1 i j hi hj
/-- … which is NOT the documented `I + 2γ D'D` (docs/algorithms/morphological.rst, also the stationarity condition of the documented
objective) for any `γ ≠ 0` and `d < n`: the (0,0) entries differ.  (FALSE as planned: `jbcd_asm_den` for the signal system with `2γ`.) -/
theorem jbcd_signal_ne_documented (n d : Nat) (gamma : Rat) (hg : gamma ≠ 0) (h : d < n) :
    denLower (asmJbcdSignal n d gamma true false) 0 0 ≠ docJbcd n d (2 * gamma) 1 0 0 := by
  rw [show asmJbcdSignal n d gamma true false = asmJbcd n d gamma 1 true false from rfl,
    Lemmas.jbcd_asm_den_lower n d gamma 1 0 0 (by omega) (by omega)]
  exact Lemmas.jbcd_signal_ne_documented n d gamma hg h

example : asmJbcdSignal 4 1 3 true false = [[4, 7, 7, 4], [-3, -3, -3, 0]] ∧
    asmJbcdBaseline 4 1 (1/2) 3 false false = [[0, -6, -6, -6], [8, 14, 14, 8], [-6, -6, -6, 0]] := by decide +kernel
example : denLower (asmJbcdSignal 4 1 3 true false) 0 0 = 4 ∧ docJbcd 4 1 (2 * 3) 1 0 0 = 7 := by decide +kernel

/-! ### which weights the returned baseline was solved with (`Model/LoopS`: the loops with their state, abstract `solve` / `rule`) -/

/-- **`converged_pair_solves`** — single-loop skeleton (asls, iasls, airpls, arpls, drpls, iarpls, aspls, psalsa, derpsalsa, lsrpls and
their spline / 2-D versions): when the loop stops because the recorded difference fell below `tol` (at pass `len − 1`) or because the
rule signalled the early exit (at pass `len`), the returned state (`weights`, and `alpha` for aspls) is the one the returned baseline
was solved with, and it is the iterate of that pass -/
theorem converged_pair_solves {S B : Type} (solve : S → B) (rule : B → Nat → S → S × Bool × Rat) (tol : Rat) (budget : Nat) (s0 : S) :
    let R := run solve rule tol budget s0
    ((R.stop = .converged ∨ R.stop = .early) → R.base = some (solve R.state)) ∧
    (R.stop = .converged → 1 ≤ R.len ∧ R.state = stateSeq solve rule s0 (R.len - 1)) ∧
    (R.stop = .early → R.state = stateSeq solve rule s0 R.len) := by
  obtain ⟨-, h1, h2, -⟩ := run_spec solve rule tol s0 budget
  refine ⟨fun h => ?_, fun h => ⟨(h1 h).1, (h1 h).2.1⟩, fun h => (h2 h).1⟩
  rcases h with h | h
  · exact (h1 h).2.2
  · exact (h2 h).2
/-- … at exhaustion (`budget` passes done, `budget > 0`) the returned baseline was solved with the PREVIOUS iterate and the returned
state is the freshly computed one, `rule(returned baseline)` — not a solve pair in general (what C09 `exhausted_weights_rule` uses) -/
theorem exhausted_returns_fresh_state {S B : Type} (solve : S → B) (rule : B → Nat → S → S × Bool × Rat) (tol : Rat) (budget : Nat) (s0 : S)
    (hb : 0 < budget) (hx : (run solve rule tol budget s0).stop = .exhausted) :
    (run solve rule tol budget s0).len = budget ∧
    (run solve rule tol budget s0).base = some (solve (stateSeq solve rule s0 (budget - 1))) ∧
    (run solve rule tol budget s0).state
      = (rule (solve (stateSeq solve rule s0 (budget - 1))) (budget - 1) (stateSeq solve rule s0 (budget - 1))).1 := by
  obtain ⟨-, -, -, h3⟩ := run_spec solve rule tol s0 budget
  obtain ⟨a, b, c⟩ := h3 hx
  refine ⟨a, c hb, ?_⟩
  rw [b]
  obtain ⟨m, rfl⟩ : ∃ m, budget = m + 1 := ⟨budget - 1, by omega⟩
  rfl
/-- the loop with state takes exactly the decisions of the skeleton `Loop.runLoop` that C01 / C09 reason about -/
theorem stateful_refines_skeleton {S B : Type} (solve : S → B) (rule : B → Nat → S → S × Bool × Rat) (tol : Rat) (budget : Nat) (s0 : S) :
    ((run solve rule tol budget s0).len, (run solve rule tol budget s0).stop)
      = runLoop budget tol (dOf solve rule s0) (exitOf solve rule s0) := (run_spec solve rule tol s0 budget).1
/-- brpls (nested loops): the returned `baseline` is `solve(params['weights'])` (`baseline_weights`) whatever the two loops decide —
unless the rule signals the early exit on the very first solve, when the data themselves are returned (`none`) -/
theorem brpls_pair_solves {W B P : Type} (solve : W → B) (rule : B → P → W × Bool) (conv : Option B → B → Bool) (crit : P → W → Bool → Bool)
    (nextBeta : W → P) (maxIter maxIter2 : Nat) (beta0 : P) (w0 : W) :
    let r := brRun solve rule conv crit nextBeta maxIter maxIter2 beta0 w0
    (r.1 = none ∨ r.1 = some (solve r.2)) ∧ ((rule (solve w0) beta0).2 = false → r.1 = some (solve r.2)) :=
  brRun_pair solve rule conv crit nextBeta maxIter maxIter2 beta0 w0
/-- jbcd: the returned baseline is the baseline system of the LAST pass solved with the returned signal (`params['signal']`), with the
parameters `γ·gamma_mult^(len−1)`, `β·beta_mult^(len−1)` of that pass -/
theorem jbcd_pair_solves {Sg V P : Type} (solveS : P → V → Sg) (solveB : P → Sg → V) (crit : Sg → Sg → V → V → Bool) (gm bm : P → P)
    (budget : Nat) (hb : 0 < budget) (s : JbSt Sg V P) :
    1 ≤ (jbRun solveS solveB crit gm bm budget 0 s none).2.1 ∧ (jbRun solveS solveB crit gm bm budget 0 s none).2.1 ≤ budget ∧
    ∃ v sg, (jbRun solveS solveB crit gm bm budget 0 s none).1
        = some (v, sg, gm^[(jbRun solveS solveB crit gm bm budget 0 s none).2.1 - 1] s.gamma,
                 bm^[(jbRun solveS solveB crit gm bm budget 0 s none).2.1 - 1] s.beta) ∧
      v = solveB (bm^[(jbRun solveS solveB crit gm bm budget 0 s none).2.1 - 1] s.beta) sg :=
  jbRun_top solveS solveB crit gm bm budget hb s

example : (let r := runIdx 5 (1/10) (fun k => 1 / ((k : Rat) + 1)) (fun _ => false); (r.state, r.base, r.len, r.stop)) = (5, some 4, 5, .exhausted) ∧
    (let r := runIdx 20 (1/10) (fun k => 1 / ((k : Rat) + 1)) (fun _ => false); (r.state, r.base, r.len, r.stop)) = (10, some 10, 11, .converged) ∧
    (let r := runIdx 20 (1/10) (fun k => 1 / ((k : Rat) + 1)) (fun k => k == 3); (r.state, r.base, r.len, r.stop)) = (3, some 3, 3, .early) := by decide +kernel
example : brIdx 3 2 (fun t => if t = 2 then 1 else 0) (fun w => w == 3) = (some 1, 1) ∧
    brIdx 3 2 (fun _ => 2) (fun _ => true) = (none, 0) ∧ brIdx 0 1 (fun _ => 0) (fun _ => false) = (some 1, 1) := by decide +kernel
example : jbIdx 4 (fun k => k == 2) = (some (2, 2, 2, 2), 3, .converged) ∧ jbIdx 2 (fun _ => false) = (some (1, 1, 1, 1), 2, .exhausted) := by decide +kernel

end PbVerif.C06
