import PbVerif.Lemmas.Whittaker
/-! C06 — Whittaker baselines solve the documented penalised least-squares system: the band arrays
the methods assemble DENOTE the documented matrices, for every size, order, weight vector and
storage layout (the solvers themselves are outside the model: each of their outputs is certified by an
exact backward error in the correspondence). -/
namespace PbVerif.C06
open PbVerif.Banded PbVerif.Whittaker PbVerif.Lemmas

theorem std_asm_den_lower (n d : Nat) (lam : Rat) (w : List Rat) (hw : w.length = n) (i j : Nat) (hi : i < n) (hj : j < n) :
    denLower (asmStd n d lam w true false) i j = docStd n d lam w i j := Lemmas.std_asm_den_lower n d lam w hw i j hi hj
theorem std_asm_den_full (n d : Nat) (lam : Rat) (w : List Rat) (hw : w.length = n) (i j : Nat) (hi : i < n) (hj : j < n) :
    denFull (asmStd n d lam w false false) d i j = docStd n d lam w i j := Lemmas.std_asm_den_full n d lam w hw i j hi hj
theorem std_asm_reversed (n d : Nat) (lam : Rat) (w : List Rat) :
    (asmStd n d lam w false true).reverse = asmStd n d lam w false false := Lemmas.std_asm_reversed n d lam w
theorem iasls_asm_den_lower (n d : Nat) (lam lam1 : Rat) (w : List Rat) (hw : w.length = n) (hd : 1 ≤ d) (i j : Nat) (hi : i < n) (hj : j < n) :
    denLower (asmIasls n d lam lam1 w true false) i j = docIasls n d lam lam1 w i j := Lemmas.iasls_asm_den_lower n d lam lam1 w hw hd i j hi hj
theorem iasls_asm_den_full (n d : Nat) (lam lam1 : Rat) (w : List Rat) (hw : w.length = n) (hd : 1 ≤ d) (i j : Nat) (hi : i < n) (hj : j < n) :
    denFull (asmIasls n d lam lam1 w false false) d i j = docIasls n d lam lam1 w i j := Lemmas.iasls_asm_den_full n d lam lam1 w hw hd i j hi hj
theorem iasls_rhs (y : List Rat) (hn : 2 ≤ y.length) (i : Nat) (hi : i < y.length) :
    (d1y y).getD i 0 = sumL ((List.range y.length).map fun (j : Nat) => dtdQ y.length 1 i j * y.getD j 0) := Lemmas.iasls_rhs y hn i hi
theorem shiftRows_reverse_colscale (n d : Nat) (w : List Rat) (hw : w.length = n) (i j : Nat) (hi : i < n) (hj : j < n) :
    denFull (shiftRows (colScale (bandsQ n d false).reverse w) d d) d i j = w.getD i 0 * dtdQ n d i j :=
  Lemmas.shiftRows_reverse_colscale n d w hw i j hi hj
theorem aspls_asm_den (n d : Nat) (lam : Rat) (w alpha : List Rat) (hw : w.length = n) (ha : alpha.length = n)
    (i j : Nat) (hi : i < n) (hj : j < n) :
    denFull (asmAspls n d lam w alpha false) d i j = docAspls n d lam w alpha i j := Lemmas.aspls_asm_den n d lam w alpha hw ha i j hi hj
theorem drpls_asm_den (n d : Nat) (lam eta : Rat) (w : List Rat) (hw : w.length = n) (hd : 1 ≤ d)
    (i j : Nat) (hi : i < n) (hj : j < n) :
    denFull (asmDrpls n d lam eta w false) d i j = docDrpls n d lam eta w i j := Lemmas.drpls_asm_den n d lam eta w hw hd i j hi hj
/-- the documented matrices evaluated by the certificate (fast offset form) are the dense definitions -/
theorem certificate_uses_DtD (n d i j : Nat) (hi : i < n) (hj : j < n) : dtdFastQ n d i j = dtdQ n d i j := dtdFastQ_eq n d i j hi hj

example : asmStd 5 2 1 [1, 2, 3, 4, 5] true false = [[2, 7, 9, 9, 6], [-2, -4, -4, -2, 0], [1, 1, 1, 0, 0]] := by decide +kernel
example : denFull (asmAspls 5 2 1 [0, 0, 0, 0, 0] [1, 2, 3, 4, 5] false) 2 1 2 = 2 * -4 := by decide +kernel

end PbVerif.C06
