import PbVerif.Lemmas.Whittaker
import PbVerif.Lemmas.Kron2d
/-! C06 — Whittaker baselines solve the documented penalised least-squares system: the band arrays
the methods assemble DENOTE the documented matrices, for every size, order, weight vector and
storage layout (the solvers themselves are outside the model: each of their outputs is certified by an
exact backward error in the correspondence). -/
namespace PbVerif.C06
open PbVerif.Banded PbVerif.Whittaker PbVerif.Lemmas

theorem std_asm_den_lower (n d : Nat) (lam : Rat) (w : List Rat) (hw : w.length = n) (i j : Nat) (hi : i < n) (hj : j < n) :
    denLower (asmStd n d lam w true false) i j = docStd n d lam w i j := Lemmas.std_asm_den_lower n d lam w hw i j hi hj
theorem std_asm_den_full (n d : Nat) (lam : Rat) (w : List Rat) (hw : w.length = n) (i j : Nat) (hi : i < n) (hj : j < n) :
    denFull (asmStd n d lam w false false) d i j = docStd n d lam w i j := Lemmas.std_asm_den_full n d lam w hw i j hi hj
theorem std_asm_reversed (n d : Nat) (lam : Rat) (w : List Rat) :
    (asmStd n d lam w false true).reverse = asmStd n d lam w false false := Lemmas.std_asm_reversed n d lam w
theorem iasls_asm_den_lower (n d : Nat) (lam lam1 : Rat) (w : List Rat) (hw : w.length = n) (hd : 1 ≤ d) (i j : Nat) (hi : i < n) (hj : j < n) :
    denLower (asmIasls n d lam lam1 w true false) i j = docIasls n d lam lam1 w i j := Lemmas.iasls_asm_den_lower n d lam lam1 w hw hd i j hi hj
theorem iasls_asm_den_full (n d : Nat) (lam lam1 : Rat) (w : List Rat) (hw : w.length = n) (hd : 1 ≤ d) (i j : Nat) (hi : i < n) (hj : j < n) :
    denFull (asmIasls n d lam lam1 w false false) d i j = docIasls n d lam lam1 w i j := Lemmas.iasls_asm_den_full n d lam lam1 w hw hd i j hi hj
theorem iasls_rhs (y : List Rat) (hn : 2 ≤ y.length) (i : Nat) (hi : i < y.length) :
    (d1y y).getD i 0 = sumL ((List.range y.length).map fun (j : Nat) => dtdQ y.length 1 i j * y.getD j 0) := Lemmas.iasls_rhs y hn i hi
theorem shiftRows_reverse_colscale (n d : Nat) (w : List Rat) (hw : w.length = n) (i j : Nat) (hi : i < n) (hj : j < n) :
    denFull (shiftRows (colScale (bandsQ n d false).reverse w) d d) d i j = w.getD i 0 * dtdQ n d i j :=
  Lemmas.shiftRows_reverse_colscale n d w hw i j hi hj
theorem aspls_asm_den (n d : Nat) (lam : Rat) (w alpha : List Rat) (hw : w.length = n) (ha : alpha.length = n)
    (i j : Nat) (hi : i < n) (hj : j < n) :
    denFull (asmAspls n d lam w alpha false) d i j = docAspls n d lam w alpha i j := Lemmas.aspls_asm_den n d lam w alpha hw ha i j hi hj
theorem drpls_asm_den (n d : Nat) (lam eta : Rat) (w : List Rat) (hw : w.length = n) (hd : 1 ≤ d)
    (i j : Nat) (hi : i < n) (hj : j < n) :
    denFull (asmDrpls n d lam eta w false) d i j = docDrpls n d lam eta w i j := Lemmas.drpls_asm_den n d lam eta w hw hd i j hi hj
/-- the documented matrices evaluated by the certificate (fast offset form) are the dense definitions -/
theorem certificate_uses_DtD (n d i j : Nat) (hi : i < n) (hj : j < n) : dtdFastQ n d i j = dtdQ n d i j := dtdFastQ_eq n d i j hi hj

example : asmStd 5 2 1 [1, 2, 3, 4, 5] true false = [[2, 7, 9, 9, 6], [-2, -4, -4, -2, 0], [1, 1, 1, 0, 0]] := by decide +kernel
example : denFull (asmAspls 5 2 1 [0, 0, 0, 0, 0] [1, 2, 3, 4, 5] false) 2 1 2 = 2 * -4 := by decide +kernel

/-! ### 2-D: Kronecker-sum penalty (`two_d/_whittaker_utils.py: PenalizedSystem2D`) -/

/-- **`kron_penalty_vec`**: over any commutative ring, for the row-major vec of an `M × N` array `V`,
`(λ_r P_r ⊗ I_N + I_M ⊗ λ_c P_c) vec(V) = vec(λ_r P_r V + λ_c V P_cᵀ)`, entry `(i, j)`, for all `M`, `N` (Kronecker entries
`(A ⊗ B)[a,b] = A[a/N, b/N]·B[a%N, b%N]` as `scipy.sparse.kron` lays them out) -/
theorem kron_penalty_vec {α : Type} [CommRing α] (M N : Nat) (lr lc : α) (Pr Pc V : Nat → Nat → α) (i j : Nat) (hi : i < M) (hj : j < N) :
    (∑ b ∈ Finset.range (M * N), (kronG (fun p q => lr * Pr p q) idG N (i * N + j) b + kronG idG (fun p q => lc * Pc p q) N (i * N + j) b)
        * V (b / N) (b % N))
      = lr * ∑ i' ∈ Finset.range M, Pr i i' * V i' j + lc * ∑ j' ∈ Finset.range N, V i j' * Pc j j' :=
  kron_penalty_vec_G M N lr lc Pr Pc V i j hi hj
/-- the documented 2-D matrix the certificate evaluates is exactly `diag(w) + λ_r D_r'D_r ⊗ I_n + I_m ⊗ λ_c D_c'D_c` -/
theorem doc2d_is_kron_sum (m n dr dc : Nat) (lamr lamc : Rat) (w : List Rat) (a b : Nat) (ha : a < m * n) (hb : b < m * n) :
    doc2d m n dr dc lamr lamc w a b = delta a b (w.getD a 0)
      + (kronG (fun p q => lamr * dtdQ m dr p q) idG n a b + kronG idG (fun p q => lamc * dtdQ n dc p q) n a b) := by
  rw [doc2d_eq_kron, pen2d_eq_kron_DtD m n dr dc lamr lamc a b ha hb]
/-- the matrix assembled by `reset_diagonals` + `add_diagonal(w)` (what `direct_solve` receives) is the documented one -/
theorem asm2d_den (m n dr dc : Nat) (lamr lamc : Rat) (w : List Rat) (a b : Nat) :
    asm2d m n dr dc lamr lamc w a b = doc2d m n dr dc lamr lamc w a b := asm2d_eq_doc2d m n dr dc lamr lamc w a b
/-- row `(i, j)` of the documented 2-D system applied to a row-major vec `v` (`V[p,q] = v[p·n+q]`):
`w∘v + λ_r (D_r'D_r V) + λ_c (V D_c'D_c)` — the form of docs/algorithms_2d/whittaker -/
theorem doc2d_apply_vec (m n dr dc : Nat) (lamr lamc : Rat) (w v : List Rat) (i j : Nat) (hi : i < m) (hj : j < n) :
    sumL ((List.range (m * n)).map fun b => doc2d m n dr dc lamr lamc w (i * n + j) b * v.getD b 0)
      = w.getD (i * n + j) 0 * v.getD (i * n + j) 0
        + lamr * sumL ((List.range m).map fun i' => dtdQ m dr i i' * v.getD (i' * n + j) 0)
        + lamc * sumL ((List.range n).map fun j' => v.getD (i * n + j') 0 * dtdQ n dc j j') := doc2d_mulVec m n dr dc lamr lamc w v i j hi hj

example : asm2dRows 2 2 1 1 2 3 [1, 1, 1, 1] = [[6, -3, -2, 0], [-3, 6, 0, -2], [-2, 0, 6, -3], [0, -2, -3, 6]] := by decide +kernel
example : (∑ b ∈ Finset.range (2 * 2), (kronG (fun p q => (2:Int) * (if p = q then 1 else -1)) idG 2 (1 * 2 + 0) b
    + kronG idG (fun p q => (3:Int) * (if p = q then 1 else -1)) 2 (1 * 2 + 0) b) * ((fun p q => ((p + 2 * q : Nat) : Int)) (b / 2) (b % 2))) = -4 := by decide +kernel

end PbVerif.C06
