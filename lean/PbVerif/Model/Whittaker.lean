import PbVerif.Model.Banded
/-! M4 (second part): assembly of the Whittaker linear systems in banded storage as `whittaker.py`
builds them, the matrices the documentation states, denotations of band arrays, and exact residuals.
Over `Rat` (every finite double is a rational).  Import-free. -/
namespace PbVerif.Whittaker
open PbVerif.Banded

def sumL (l : List Rat) : Rat := l.foldl (· + ·) 0

/-- the integer bands of D'D as rationals -/
def bandsQ (n d : Nat) (lowerOnly : Bool) : List (List Rat) := (specRows n d lowerOnly).map fun r => r.map fun (v : Int) => (v : Rat)

def scale (c : Rat) (ab : List (List Rat)) : List (List Rat) := ab.map fun r => r.map (c * ·)
def addB (a b : List (List Rat)) : List (List Rat) := List.zipWith (List.zipWith (· + ·)) a b
/-- multiply column j by `w[j]` (`bands * weight_array`) -/
def colScale (ab : List (List Rat)) (w : List Rat) : List (List Rat) := ab.map fun r => List.zipWith (· * ·) r w
/-- add a vector to one row (`lhs[main_diag_idx] += w`) -/
def addRow (ab : List (List Rat)) (k : Nat) (w : List Rat) : List (List Rat) := ab.modify k fun r => List.zipWith (· + ·) r w
/-- add a scalar to one row -/
def addRowC (ab : List (List Rat)) (k : Nat) (c : Rat) : List (List Rat) := ab.modify k fun r => r.map (· + c)
/-- zero rows on top and bottom (`_pad_diagonals(…, lower_only=False)`) / bottom only -/
def padFull (ab : List (List Rat)) (p n : Nat) : List (List Rat) :=
  List.replicate p (List.replicate n 0) ++ ab ++ List.replicate p (List.replicate n 0)
def padLower (ab : List (List Rat)) (p n : Nat) : List (List Rat) := ab ++ List.replicate p (List.replicate n 0)

def shiftRightQ (s : Nat) (row : List Rat) : List Rat := List.replicate (min s row.length) 0 ++ row.take (row.length - s)
def shiftLeftQ (s : Nat) (row : List Rat) : List Rat := row.drop s ++ List.replicate (min s row.length) 0

/-- `_shift_rows(matrix, u, l)`: row r < u is shifted right by u − r; the t-th row from the bottom
(t = 1 … l) is shifted left by l − t + 1 -/
def shiftRows (ab : List (List Rat)) (u l : Nat) : List (List Rat) :=
  ab.zipIdx.map fun (row, r) =>
    if r < u then shiftRightQ (u - r) row
    else if ab.length - l ≤ r then shiftLeftQ (r + 1 - (ab.length - l)) row
    else row

/-! ### denotations -/
/-- LAPACK lower storage of a symmetric matrix: `A[i,j] = ab[|i−j|, min(i,j)]` -/
def denLower (ab : List (List Rat)) (i j : Nat) : Rat := (ab.getD (max i j - min i j) []).getD (min i j) 0
/-- LAPACK full storage with u upper bands: `A[i,j] = ab[u + i − j, j]` when that row exists -/
def denFull (ab : List (List Rat)) (u i j : Nat) : Rat :=
  if j ≤ i + u ∧ u + i - j < ab.length then (ab.getD (u + i - j) []).getD j 0 else 0

/-! ### documented matrices -/
def dtdQ (n d i j : Nat) : Rat := ((DtD n d i j : Int) : Rat)
def delta (i j : Nat) (v : Rat) : Rat := if i = j then v else 0

/-- `W + λ D'D` -/
def docStd (n d : Nat) (lam : Rat) (w : List Rat) (i j : Nat) : Rat := delta i j (w.getD i 0) + lam * dtdQ n d i j
/-- iasls: `W'W + λ₁ D₁'D₁ + λ D'D` -/
def docIasls (n d : Nat) (lam lam1 : Rat) (w : List Rat) (i j : Nat) : Rat :=
  delta i j (w.getD i 0 * w.getD i 0) + lam1 * dtdQ n 1 i j + lam * dtdQ n d i j
/-- drpls: `W + D₁'D₁ + λ (I − η W) D'D` -/
def docDrpls (n d : Nat) (lam eta : Rat) (w : List Rat) (i j : Nat) : Rat :=
  delta i j (w.getD i 0) + dtdQ n 1 i j + lam * (1 - eta * w.getD i 0) * dtdQ n d i j
/-- aspls: `W + λ diag(α) D'D` -/
def docAspls (n d : Nat) (lam : Rat) (w alpha : List Rat) (i j : Nat) : Rat :=
  delta i j (w.getD i 0) + lam * alpha.getD i 0 * dtdQ n d i j

/-! ### assemblies, as coded -/
/-- asls & co.: `whittaker_system.add_diagonal(w)` on `lam * penalty` (lower or full, reversed or not) -/
def asmStd (n d : Nat) (lam : Rat) (w : List Rat) (lower reversed : Bool) : List (List Rat) :=
  let pen := scale lam (bandsQ n d lower)
  let pen := if reversed then pen.reverse else pen
  let mainIdx := if lower then (if reversed then d else 0) else d
  addRow pen mainIdx w

/-- iasls: penalty + λ₁·(first-order bands padded to the same number of rows), main row + w² -/
def asmIasls (n d : Nat) (lam lam1 : Rat) (w : List Rat) (lower reversed : Bool) : List (List Rat) :=
  let pen := scale lam (bandsQ n d lower)
  let pen := if reversed then pen.reverse else pen
  let d1 := scale lam1 (if lower then padLower (bandsQ n 1 true) (d - 1) n else padFull (bandsQ n 1 false) (d - 1) n)
  let d1 := if reversed then d1.reverse else d1
  let mainIdx := if lower then (if reversed then d else 0) else d
  addRow (addB pen d1) mainIdx (w.map fun v => v * v)

/-- aspls (SciPy branch): `_shift_rows((penalty_reversed * alpha) with main row + w, d, d)`;
pentapy branch: the same array without the shift (row-wise storage) -/
def asmAspls (n d : Nat) (lam : Rat) (w alpha : List Rat) (pentapy : Bool) : List (List Rat) :=
  let lhs := addRow (colScale (scale lam (bandsQ n d false)).reverse alpha) d w
  if pentapy then lhs else shiftRows lhs d d

/-- drpls (SciPy branch): `(penalty + D1 padded) + _shift_rows(((−η·penalty)[::-1] with main + 1) * w, d, d)` -/
def asmDrpls (n d : Nat) (lam eta : Rat) (w : List Rat) (pentapy : Bool) : List (List Rat) :=
  let pen := scale lam (bandsQ n d false)
  let diffn := addRowC (scale (-eta) pen).reverse d 1
  let base := addB pen (padFull (bandsQ n 1 false) (d - 1) n)
  if pentapy then addB base.reverse (colScale diffn w)
  else addB base (shiftRows (colScale diffn w) d d)

/-- iasls right-hand side helper: the closed form used for `D₁'D₁ y` -/
def d1y (y : List Rat) : List Rat :=
  let n := y.length
  (List.range n).map fun (i : Nat) =>
    if n < 2 then y.getD i 0
    else if i = 0 then y.getD 0 0 - y.getD 1 0
    else if i = n - 1 then y.getD (n - 1) 0 - y.getD (n - 2) 0
    else 2 * y.getD i 0 - y.getD (i - 1) 0 - y.getD (i + 1) 0

/-! ### exact residuals of a returned baseline against the DOCUMENTED system (not the captured bands) -/
def absQ (q : Rat) : Rat := if q < 0 then -q else q
def maxL (l : List Rat) : Rat := l.foldl (fun a b => if a < b then b else a) 0

/-- rows of a banded documented matrix applied to v: only columns within bandwidth b of i -/
def applyBanded (doc : Nat → Nat → Rat) (n b : Nat) (v : List Rat) : List Rat :=
  (List.range n).map fun (i : Nat) =>
    sumL ((List.range (2 * b + 1)).map fun (t : Nat) =>
      if i + t < b then 0 else let j := i + t - b; if j < n then doc i j * v.getD j 0 else 0)
def rowAbsSums (doc : Nat → Nat → Rat) (n b : Nat) : List Rat :=
  (List.range n).map fun (i : Nat) =>
    sumL ((List.range (2 * b + 1)).map fun (t : Nat) =>
      if i + t < b then 0 else let j := i + t - b; if j < n then absQ (doc i j) else 0)

/-- normwise backward error pieces: (‖A v − b‖∞, ‖A‖∞ ‖v‖∞ + ‖b‖∞) -/
def backwardError (doc : Nat → Nat → Rat) (n b : Nat) (v rhs : List Rat) : Rat × Rat :=
  let av := applyBanded doc n b v
  let r := maxL ((List.zipWith (· - ·) av rhs).map absQ)
  (r, maxL (rowAbsSums doc n b) * maxL (v.map absQ) + maxL (rhs.map absQ))

end PbVerif.Whittaker

namespace PbVerif.Whittaker
open PbVerif.Banded

/-- `(D'D)[i,j]` through the O(d) offset form (proved equal to the dense definition in `Lemmas/Whittaker`) -/
def dtdFastQ (n d i j : Nat) : Rat :=
  if i ≤ j then ((dtdOff n d i (j - i) : Int) : Rat) else ((dtdOff n d j (i - j) : Int) : Rat)

inductive Kind | std | iasls | drpls | aspls
deriving DecidableEq, Repr

/-- the documented matrix of each kind with the fast D'D (what the driver evaluates) -/
def docFast (k : Kind) (n d : Nat) (lam p1 : Rat) (w alpha : List Rat) (i j : Nat) : Rat :=
  match k with
  | .std => delta i j (w.getD i 0) + lam * dtdFastQ n d i j
  | .iasls => delta i j (w.getD i 0 * w.getD i 0) + p1 * dtdFastQ n 1 i j + lam * dtdFastQ n d i j
  | .drpls => delta i j (w.getD i 0) + dtdFastQ n 1 i j + lam * (1 - p1 * w.getD i 0) * dtdFastQ n d i j
  | .aspls => delta i j (w.getD i 0) + lam * alpha.getD i 0 * dtdFastQ n d i j

/-- the documented right-hand side -/
def rhsDoc (k : Kind) (p1 : Rat) (w y : List Rat) : List Rat :=
  match k with
  | .iasls => List.zipWith (· + ·) (List.zipWith (fun a b => a * a * b) w y) ((d1y y).map (p1 * ·))
  | _ => List.zipWith (· * ·) w y

/-- 2-D: `W + λ_r (D_r'D_r ⊗ I) + λ_c (I ⊗ D_c'D_c)` acting on the row-major vec of an M×N array -/
def doc2d (m n dr dc : Nat) (lamr lamc : Rat) (w : List Rat) (a b : Nat) : Rat :=
  let (i, j) := (a / n, a % n)
  let (i', j') := (b / n, b % n)
  delta a b (w.getD a 0) + (if j = j' then lamr * dtdFastQ m dr i i' else 0) + (if i = i' then lamc * dtdFastQ n dc j j' else 0)

def backwardErrorDense (doc : Nat → Nat → Rat) (n : Nat) (v rhs : List Rat) : Rat × Rat :=
  let av := (List.range n).map fun (i : Nat) => sumL ((List.range n).map fun (j : Nat) => doc i j * v.getD j 0)
  let rs := (List.range n).map fun (i : Nat) => sumL ((List.range n).map fun (j : Nat) => absQ (doc i j))
  (maxL ((List.zipWith (· - ·) av rhs).map absQ), maxL rs * maxL (v.map absQ) + maxL (rhs.map absQ))

end PbVerif.Whittaker

namespace PbVerif.Whittaker

/-! ### the 2-D penalty as `two_d/_whittaker_utils.py: PenalizedSystem2D.reset_diagonals` builds it
(`kron(lam_r·P_r, identity(n)) + kron(identity(m), lam_c·P_c)`), and `add_diagonal`
(`penalty.setdiag(main_diagonal + w)`) -/

/-- entry (a, b) of `scipy.sparse.kron(A, B)` for an `n × n` right factor: `A[a // n, b // n] · B[a % n, b % n]` -/
def kronE (A B : Nat → Nat → Rat) (n a b : Nat) : Rat := A (a / n) (b / n) * B (a % n) (b % n)
/-- `scipy.sparse.identity` -/
def idE (i j : Nat) : Rat := if i = j then 1 else 0

/-- `self.penalty = P_rows + P_columns` -/
def pen2d (m n dr dc : Nat) (lamr lamc : Rat) (a b : Nat) : Rat :=
  kronE (fun p q => lamr * dtdFastQ m dr p q) idE n a b + kronE idE (fun p q => lamc * dtdFastQ n dc p q) n a b

/-- the `lhs` handed to `direct_solve`: the penalty with `main_diagonal + weights` on the diagonal -/
def asm2d (m n dr dc : Nat) (lamr lamc : Rat) (w : List Rat) (a b : Nat) : Rat :=
  if a = b then pen2d m n dr dc lamr lamc a a + w.getD a 0 else pen2d m n dr dc lamr lamc a b

def asm2dRows (m n dr dc : Nat) (lamr lamc : Rat) (w : List Rat) : List (List Rat) :=
  (List.range (m * n)).map fun (a : Nat) => (List.range (m * n)).map fun (b : Nat) => asm2d m n dr dc lamr lamc w a b

end PbVerif.Whittaker

namespace PbVerif.Whittaker
open PbVerif.Banded

/-! ### jbcd (`morphological.py: _Morphological.jbcd`): two banded systems per iteration, both `c · penalty` with a constant added to
the main row (`_setup_whittaker(y, lam=1, diff_order)`, so `whittaker_system.penalty` is `1 · D'D` in the layout of the solver:
lower, full, or full reversed under pentapy) -/

/-- `lhs = c * whittaker_system.penalty; lhs[main_diag_idx] += diag` -/
def asmJbcd (n d : Nat) (c diag : Rat) (lower reversed : Bool) : List (List Rat) :=
  let pen := scale c (scale 1 (bandsQ n d lower))
  let pen := if reversed then pen.reverse else pen
  let mainIdx := if lower then 0 else d
  addRowC pen mainIdx diag

/-- `lhs_1 = gamma * penalty; lhs_1[main] += 1` (signal step) — NOTE the code uses `gamma`, the documentation `2·gamma` -/
def asmJbcdSignal (n d : Nat) (gamma : Rat) (lower reversed : Bool) : List (List Rat) := asmJbcd n d gamma 1 lower reversed
/-- `lhs_2 = (2 * beta) * penalty; lhs_2[main] += 1 + 2 * alpha` (baseline step) -/
def asmJbcdBaseline (n d : Nat) (alpha beta : Rat) (lower reversed : Bool) : List (List Rat) :=
  asmJbcd n d (2 * beta) (1 + 2 * alpha) lower reversed

/-- `diag·I + c·D'D` -/
def docJbcd (n d : Nat) (c diag : Rat) (i j : Nat) : Rat := delta i j diag + c * dtdQ n d i j

end PbVerif.Whittaker
