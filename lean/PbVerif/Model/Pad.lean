/-! M8: `utils._get_edges` / `pad_edges` (mode 'extrapolate'), `_extrapolate2d`, `padded_convolve`,
kernel normalisation and `optimize_window`'s loop, in exact rational arithmetic.  Import-free. -/
namespace PbVerif.Pad

def sumL (l : List Rat) : Rat := l.foldl (· + ·) 0

/-- least-squares line through the points `(x0 + i, ys[i])`, `i < ys.length`: (intercept, slope) with
respect to the global x coordinate. What `np.polynomial.Polynomial.fit(x, y, 1)` evaluates to. -/
def lsLine (ys : List Rat) (x0 : Int) : Rat × Rat :=
  let w : Rat := (ys.length : Nat)
  let xs : List Rat := (List.range ys.length).map fun (i : Nat) => (((x0 + (i : Int)) : Int) : Rat)
  let s1 := sumL xs
  let s2 := sumL (xs.map fun x => x * x)
  let t0 := sumL ys
  let t1 := sumL (List.zipWith (· * ·) xs ys)
  let den := w * s2 - s1 * s1
  let b := (w * t1 - s1 * t0) / den
  ((t0 - b * s1) / w, b)

def evalLine (ab : Rat × Rat) (x : Int) : Rat := ab.1 + ab.2 * ((x : Int) : Rat)

/-- `_get_edges(data, pad, 'extrapolate', (wl, wr))` for `pad > 0`: x = arange(N + 2·pad), the data
sit at x = pad … pad+N-1; a window of 1 repeats the edge value; longer windows are truncated to N -/
def getEdges (ys : List Rat) (pad wl wr : Nat) : List Rat × List Rat :=
  let n := ys.length
  let left :=
    if wl = 1 then List.replicate pad (ys.getD 0 0)
    else
      let seg := ys.take wl
      let ab := lsLine seg (pad : Int)
      (List.range pad).map fun (k : Nat) => evalLine ab (k : Int)
  let right :=
    if wr = 1 then List.replicate pad (ys.getD (n - 1) 0)
    else
      let seg := ys.drop (n - wr)
      let ab := lsLine seg ((pad + (n - seg.length) : Nat) : Int)
      (List.range pad).map fun (k : Nat) => evalLine ab ((pad + n + k : Nat) : Int)
  (left, right)

/-- `pad_edges(data, pad, 'extrapolate', (wl, wr))` -/
def padEdges (ys : List Rat) (pad wl wr : Nat) : List Rat :=
  if pad = 0 then ys else
    let e := getEdges ys pad wl wr
    e.1 ++ ys ++ e.2

/-! ### `padded_convolve`: `convolve(pad_edges(data, p), kernel, 'same')[p:-p]` -/

def ceilHalf (m : Nat) : Nat := (m + 1) / 2
def convPadding (n k : Nat) : Nat := ceilHalf (min n k)

/-- `scipy.signal.convolve(a, kernel, mode='same')[i]` = full convolution at `i + (K-1)//2`, terms
whose index falls outside `a` are absent (zero) -/
def convSame (a kernel : List Rat) (i : Nat) : Rat :=
  let m : Int := (i : Int) + (((kernel.length - 1) / 2 : Nat) : Int)
  sumL ((List.range kernel.length).map fun (j : Nat) =>
    let t : Int := m - (j : Int)
    if 0 ≤ t ∧ t < (a.length : Int) then kernel.getD j 0 * a.getD t.toNat 0 else 0)

/-- the convolution of an already padded array, cut back by `p` on both sides -/
def paddedConvolveCore (padded kernel : List Rat) (p : Nat) : List Rat :=
  (List.range (padded.length - 2 * p)).map fun (i : Nat) => convSame padded kernel (i + p)

/-! ### kernels -/
def normalize (l : List Rat) : List Rat := l.map (· / sumL l)

/-! ### `optimize_window`: the half-window search with the data-dependent test as an oracle
(`hit h` = the opening with half window h is within `window_tol` of the previous one) -/
structure OwSt where
  hits : Nat
  best : Nat
  halfWindow : Nat
  done : Bool

def owStep (hit : Nat → Bool) (inc maxHits : Nat) (s : OwSt) (h : Nat) : OwSt :=
  if s.done then s else
    if hit h then
      let best := if s.hits = 0 then h - inc else s.best
      let hits := s.hits + 1
      if hits ≥ maxHits then { hits := hits, best := best, halfWindow := best, done := true }
      else { hits := hits, best := best, halfWindow := h, done := false }
    else { hits := 0, best := s.best, halfWindow := h, done := false }

/-- returns `max(half_window, 1)`; the loop runs over `range(min + inc, max, inc)` -/
def optimizeWindow (hit : Nat → Bool) (inc maxHits minHw maxHw : Nat) : Nat :=
  let hs := (List.range ((maxHw - (minHw + inc) + inc - 1) / inc)).map fun (t : Nat) => minHw + inc + t * inc
  let s := hs.foldl (owStep hit inc maxHits) { hits := 0, best := minHw, halfWindow := 1, done := false }
  max s.halfWindow 1

/-! ### 2-D extrapolation: strips by per-column / per-row least-squares lines, corners as the mean
of the two possible extensions; a window of 1 repeats the edge row/column -/

def colOf (m : List (List Rat)) (j : Nat) : List Rat := m.map fun row => row.getD j 0
def transposeR (m : List (List Rat)) : List (List Rat) :=
  match m with
  | [] => []
  | r :: _ => (List.range r.length).map (colOf m)

/-- pad every row of `m` left and right (along axis 1).  `utils._extrapolate2d` fits with
`_extrapolate_pinv(vander[pad:-pad][:w])`, a Vandermonde matrix of `min w n` rows, and
`_extrapolate_pinv` extends the edge value as a constant when that matrix has ONE row -- that is
when the window is 1 *or the axis has a single point* (`vandermonde.shape[0] == 1`); so the windows
that reach the 1-D rule are the truncated ones `min w n`. -/
def padRows (m : List (List Rat)) (pad wl wr : Nat) : List (List Rat) :=
  m.map fun row => padEdges row pad (min wl row.length) (min wr row.length)
/-- pad every column (along axis 0) -/
def padCols (m : List (List Rat)) (pad wt wb : Nat) : List (List Rat) := transposeR (padRows (transposeR m) pad wt wb)

def avg2 (a b : List (List Rat)) : List (List Rat) := List.zipWith (List.zipWith fun x y => (x + y) / 2) a b

/-- `_extrapolate2d(y, ((pr, pr), (pc, pc)), ((wt, wb), (wl, wr)))`: the interior and the four strips
are the same in both orders of padding; the corners are the mean of "rows then columns"
(`left_top`, `right_top`, … : the left/right strips extended up and down) and "columns then rows"
(`top_left`, … : the top/bottom strips extended sideways) -/
def extrapolate2d (y : List (List Rat)) (pr pc wt wb wl wr : Nat) : List (List Rat) :=
  avg2 (padCols (padRows y pc wl wr) pr wt wb) (padRows (padCols y pr wt wb) pc wl wr)

/-- (specification side) where the value at output position `k` of a padded axis comes from when the
data are a line: itself, except on a side whose effective window `min w n` is one point, where it is
the edge position -/
def clampIdx (pad n wl wr k : Nat) : Nat :=
  if k < pad then (if min wl n = 1 then pad else k)
  else if pad + n ≤ k then (if min wr n = 1 then pad + n - 1 else k)
  else k

/-- (specification side) the right-hand side of `C18.extrap2d_planar_clamped`: what planar data
`a + b·(pr+i) + c·(pc+j)` are claimed to be padded to -/
def planarClamped (a b c : Rat) (M N pr pc wt wb wl wr : Nat) : List (List Rat) :=
  (List.range (M + 2 * pr)).map fun k => (List.range (N + 2 * pc)).map fun l =>
    a + b * (((clampIdx pr M wt wb k : Nat) : Int) : Rat) + c * (((clampIdx pc N wl wr l : Nat) : Int) : Rat)

/-! ### `pad_edges2d(data, pad_length, 'extrapolate', extrapolate_window)`: the argument handling -/

/-- `_validation._get_row_col_values`: a scalar (or a one-item sequence, which `_check_scalar` treats
as a scalar) gives four copies, two values `(a, b)` give `(a, a, b, b)` = (first row, last row, first
column, last column), four values are taken as given, any other length is a `ValueError` (`none`) -/
def rowColValues : List Int → Option (Int × Int × Int × Int)
  | [a] => some (a, a, a, a)
  | [a, b] => some (a, a, b, b)
  | [a, b, c, d] => some (a, b, c, d)
  | _ => none

inductive Pad2dResult where
  | ok (m : List (List Rat))
  | notImplemented
  | valueError
  deriving DecidableEq, Repr

/-- `_extrapolate2d`: `extrapolate_window=None` means the four pad lengths, else `_get_row_col_values` -/
def windows2d (pad4 : Int × Int × Int × Int) : Option (List Int) → Option (Int × Int × Int × Int)
  | none => some pad4
  | some w => rowColValues w

/-- `utils.pad_edges2d(y, pad_length, 'extrapolate', extrapolate_window)` for two-dimensional `y`:
`pad_length` through `_get_row_col_values`; `_extrapolate2d` first refuses any zero pad length
(`NotImplementedError`), then any negative one (`ValueError`); the windows default to the four pad
lengths, else go through `_get_row_col_values`; a window ≤ 0 is a `ValueError`; **only the first
row value and the first column value of the padding are used** ("pad length for left and right or
top and bottom should be equal, so ignore the repeats"), the four windows are all used. -/
def padEdges2dExtrap (y : List (List Rat)) (pad : List Int) (win : Option (List Int)) : Pad2dResult :=
  match rowColValues pad with
  | none => .valueError
  | some (pt, pb, pl, pr) =>
    if pt = 0 ∨ pb = 0 ∨ pl = 0 ∨ pr = 0 then .notImplemented
    else if pt < 0 ∨ pb < 0 ∨ pl < 0 ∨ pr < 0 then .valueError
    else
      match windows2d (pt, pb, pl, pr) win with
      | none => .valueError
      | some (wt, wb, wl, wr) =>
        if wt ≤ 0 ∨ wb ≤ 0 ∨ wl ≤ 0 ∨ wr ≤ 0 then .valueError
        else .ok (extrapolate2d y pt.toNat pl.toNat wt.toNat wb.toNat wl.toNat wr.toNat)

end PbVerif.Pad
