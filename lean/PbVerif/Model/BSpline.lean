/-! M5: the B-spline kernels of `_spline_utils.py` (`_find_interval`, `_de_boor`,
`__make_design_matrix`, `_numba_btb_bty`), with the array indices they touch.  Import-free. -/
namespace PbVerif.BSpline

/-! ## `_find_interval` — generic in the outcome of the two comparisons, so that the index bounds
hold for arbitrary data (NaN, unsorted) -/

/-- `while x_val < knots[left] and left != spline_degree: left -= 1`; returns the final `left` and
the knot indices read, in order -/
def down (lt : Nat → Bool) (deg : Nat) : Nat → Nat → Nat × List Nat
  | 0, left => (left, [])
  | f+1, left => if lt left && left != deg then
                   let r := down lt deg f (left - 1); (r.1, left :: r.2)
                 else (left, [left])

/-- `while x_val >= knots[left] and left != num_bases: left += 1` -/
def up (ge : Nat → Bool) (numBases : Nat) : Nat → Nat → Nat × List Nat
  | 0, left => (left, [])
  | f+1, left => if ge left && left != numBases then
                   let r := up ge numBases f (left + 1); (r.1, left :: r.2)
                 else (left, [left])

/-- `_find_interval(knots, spline_degree, x_val, last_left, num_bases)`; `lt i` stands for
`x_val < knots[i]`, `ge i` for `x_val >= knots[i]`. Returns (result, knot indices read). -/
def findIntervalT (lt ge : Nat → Bool) (deg lastLeft numBases : Nat) : Nat × List Nat :=
  let l0 := if deg < lastLeft ∧ lastLeft < numBases then lastLeft else deg
  let d := down lt deg (l0 - deg + 1) l0
  let u := up ge numBases (numBases - d.1 + 1) (d.1 + 1)
  (u.1 - 1, d.2 ++ u.2)

def findInterval (knots : List Rat) (deg : Nat) (x : Rat) (lastLeft numBases : Nat) : Nat :=
  (findIntervalT (fun i => decide (x < knots.getD i 0)) (fun i => decide (x ≥ knots.getD i 0)) deg lastLeft numBases).1

/-! ## `_de_boor` -/

/-- one pass `i` of the outer loop, from the old `work[0..i-1]` to the new `work[0..i]` -/
def deBoorStep (knots : List Rat) (x : Rat) (left i : Nat) (old : List Rat) : List Rat :=
  let f : Nat → Rat := fun j =>       -- `factor` of inner iteration j (1 ≤ j ≤ i); 0 on the `continue` branch
    let rk := knots.getD (left + j) 0
    let lk := knots.getD (left + j - i) 0
    if lk = rk then 0 else old.getD (j - 1) 0 / (rk - lk)
  (List.range (i + 1)).map fun j =>
    (if 1 ≤ j then f j * (x - knots.getD (left + j - i) 0) else 0) +
    (if j + 1 ≤ i then f (j + 1) * (knots.getD (left + j + 1) 0 - x) else 0)

/-- the values `work[0..deg]` after `_de_boor(knots, x, deg, left, work)` -/
def deBoorUpTo (knots : List Rat) (x : Rat) (left : Nat) : Nat → List Rat
  | 0 => [1]
  | i+1 => deBoorStep knots x left (i+1) (deBoorUpTo knots x left i)
def deBoor (knots : List Rat) (x : Rat) (deg left : Nat) : List Rat := deBoorUpTo knots x left deg

/-- knot indices read by `_de_boor`: `knots[left+j]`, `knots[left+j-i]` for 1 ≤ j ≤ i ≤ deg (as Int, so
that a negative index would be visible) -/
def deBoorKnotReads (deg left : Nat) : List Int :=
  (List.range deg).flatMap fun i0 => (List.range (i0 + 1)).flatMap fun j0 =>
    [((left + (j0 + 1) : Nat) : Int), ((left + (j0 + 1) : Nat) : Int) - ((i0 + 1 : Nat) : Int)]
/-- `work`/`temp` indices touched: `temp[:i]`, `work[:i]`, `work[0]`, `temp[j-1]`, `work[j-1]`, `work[j]` -/
def deBoorWorkTouch (deg : Nat) : List Nat :=
  0 :: (List.range deg).flatMap fun i0 => (List.range (i0 + 1)).flatMap fun j0 => [j0, j0 + 1]

/-- Cox–de Boor recursion: `B_{i,p}(x)` on the knot vector, with `0/0 := 0`;
degree 0 uses half-open intervals `knots[i] ≤ x < knots[i+1]` -/
def cox (knots : List Rat) : Nat → Nat → Rat → Rat
  | 0, i, x => if knots.getD i 0 ≤ x ∧ x < knots.getD (i+1) 0 then 1 else 0
  | p+1, i, x =>
    let a := knots.getD (i + p + 1) 0 - knots.getD i 0
    let b := knots.getD (i + p + 2) 0 - knots.getD (i + 1) 0
    (if a = 0 then 0 else (x - knots.getD i 0) / a * cox knots p i x) +
    (if b = 0 then 0 else (knots.getD (i + p + 2) 0 - x) / b * cox knots p (i + 1) x)

/-! ## design matrix rows and the banded normal equations -/

structure Row where
  left : Nat            -- interval index; the non-zeros sit in columns left-deg … left
  vals : List Rat       -- deg+1 values
deriving Repr

/-- `__make_design_matrix`: one row per x (CSR data of length N·(deg+1)) -/
def designRows (knots : List Rat) (deg : Nat) (xs : List Rat) : List Row :=
  let numBases := knots.length - (deg + 1)
  (xs.foldl (fun (acc : Nat × List Row) x =>
      let l := findInterval knots deg x acc.1 numBases
      (l, acc.2 ++ [⟨l, deBoor knots x deg l⟩])) (deg, [])).2

/-- dense entry B[i, c] denoted by the rows -/
def Row.at (r : Row) (deg c : Nat) : Rat :=
  if r.left ≤ c + deg ∧ c ≤ r.left then r.vals.getD (c + deg - r.left) 0 else 0

/-- `_numba_btb_bty` accumulation into the lower bands `ab : (deg+1) × numBases` and `rhs` -/
def accRow (deg : Nat) (ab : List (List Rat)) (rhs : List Rat) (r : Row) (y w : Rat) : List (List Rat) × List Rat :=
  let base := r.left - deg
  let ab' := (List.range (deg + 1)).foldl (fun ab j =>
      (List.range (j + 1)).foldl (fun ab k =>
        let v := r.vals.getD j 0 * r.vals.getD k 0 * w
        ab.modify (j - k) (fun row => row.modify (base + k) (· + v))) ab) ab
  let rhs' := (List.range (deg + 1)).foldl (fun rhs j => rhs.modify (base + j) (· + r.vals.getD j 0 * y * w)) rhs
  (ab', rhs')

def btbBty (deg numBases : Nat) (rows : List Row) (ys ws : List Rat) : List (List Rat) × List Rat :=
  ((rows.zip (ys.zip ws)).foldl (fun acc (r, (y, w)) => accRow deg acc.1 acc.2 r y w)
    (List.replicate (deg + 1) (List.replicate numBases 0), List.replicate numBases 0))

/-- (row, column) pairs of `ab` and indices of `rhs` written for one data point -/
def accRowAbWrites (deg left : Nat) : List (Nat × Int) :=
  (List.range (deg + 1)).flatMap fun j => (List.range (j + 1)).map fun (k : Nat) => (j - k, (left : Int) - deg + k)
def accRowRhsWrites (deg left : Nat) : List Int := (List.range (deg + 1)).map fun (j : Nat) => (left : Int) - deg + j

/-- the explicit products: lower band (r, c) of B'WB and entry c of B'Wy -/
def btbSpec (deg : Nat) (rows : List Row) (ws : List Rat) (r c : Nat) : Rat :=
  ((rows.zip ws).map fun (row, w) => w * row.at deg (c + r) * row.at deg c).sum
def btySpec (deg : Nat) (rows : List Row) (ys ws : List Rat) (c : Nat) : Rat :=
  ((rows.zip (ys.zip ws)).map fun (row, (y, w)) => w * y * row.at deg c).sum

/-- `_spline_knots(x, num_knots, spline_degree, penalized=True)` in exact arithmetic -/
def splineKnots (xmin xmax : Rat) (numKnots deg : Nat) : List Rat :=
  let dx := (xmax - xmin) / ((numKnots : Rat) - 1)
  (List.range (numKnots + 2 * deg)).map fun (i : Nat) => xmin + (((i : Int) - (deg : Int) : Int) : Rat) * dx

/-- `x.min()` / `x.max()` of `_spline_knots` (0 for the empty array, which the real code rejects earlier) -/
def xMin : List Rat → Rat
  | [] => 0
  | x :: xs => xs.foldl (fun m v => if v < m then v else m) x
def xMax : List Rat → Rat
  | [] => 0
  | x :: xs => xs.foldl (fun m v => if m < v then v else m) x

/-- `_spline_knots(x, num_knots, spline_degree, True)` followed by `_spline_basis(x, knots, spline_degree)`
(`PSpline._make_basis`): knots from the extremes of x, then the design matrix of x on them -/
def xKnots (xs : List Rat) (numKnots deg : Nat) : List Rat := splineKnots (xMin xs) (xMax xs) numKnots deg
def pSplineBasis (xs : List Rat) (numKnots deg : Nat) : List Row :=
  designRows (xKnots xs numKnots deg) deg xs

/-- `_basis_midpoints` index logic: how many points it returns for `nk` knots in total -/
def basisMidpointsCount (nk deg : Nat) : Nat :=
  if deg % 2 = 1 then (nk - (deg - deg / 2)) - (1 + deg / 2)
  else ((nk - 1) - deg / 2) - deg / 2

end PbVerif.BSpline
