/-! Line protocol helpers shared by the driver: parsing of integers, exact rationals and lists. -/
namespace PbVerif.Proto

def parseInt? (s : String) : Option Int := s.toInt?

def parseNat? (s : String) : Option Nat := s.toNat?

/-- exact rationals travel as `num/den` or `num` -/
def parseRat? (s : String) : Option Rat :=
  match s.splitOn "/" with
  | [a] => a.toInt?.map (fun (n : Int) => (n : Rat))
  | [a, b] => do
      let n ← a.toInt?
      let d ← b.toNat?
      if d = 0 then none else some (mkRat n d)
  | _ => none

def showRat (q : Rat) : String :=
  if q.den = 1 then toString q.num else s!"{q.num}/{q.den}"

/-- comma separated list; the empty string or `-` is the empty list -/
def parseList? {α} (f : String → Option α) (s : String) : Option (List α) :=
  if s = "" || s = "-" then some [] else (s.splitOn ",").mapM f

def showList {α} (f : α → String) (l : List α) : String :=
  if l.isEmpty then "-" else ",".intercalate (l.map f)

def showNats (l : List Nat) : String := showList toString l
def showInts (l : List Int) : String := showList toString l
def showRats (l : List Rat) : String := showList showRat l

end PbVerif.Proto
