import PbVerif.Model.Validate
import PbVerif.Model.Cache
/-! M2: what `_Algorithm._register.inner` / `_Algorithm2D._register.inner` / `_return_results` /
`_class_wrapper` / `_get_method` do with shapes, dtypes, the lazily created x and names.
Import-free (apart from the other models). -/
namespace PbVerif.Wrapper
open PbVerif.Validate

/-- canonical data shape of a 1-D method: `(N,)`, `(N,1)`, `(1,N)` ↦ `[N]` -/
def canon1d (s : List Nat) : Option (List Nat) :=
  match checkArrayShape s true false false with
  | .ok sh => some sh
  | _ => none

/-- canonical data shape of a 2-D method (`ensure_2d=True`): `(M,N)`, `(M,N,1)`, `(1,M,N)`, `(M,1,N)` ↦ `[M,N]` -/
def canon2d (s : List Nat) : Option (List Nat) :=
  match checkArrayShape s false true true with
  | .ok sh => some sh
  | _ => none

inductive DType | f64 | f32 | i64 | i32 | b8
deriving DecidableEq, Repr

/-- the documented output dtype: `output_dtype` of the object if given, else the dtype of the data -/
def outDtype (objDtype : Option DType) (dataDtype : DType) : DType := objDtype.getD dataDtype

/-- an array = shape + row-major data -/
structure Arr where
  shape : List Nat
  data : List Rat
deriving DecidableEq, Repr

/-- canonicalisation keeps the row-major order of the values (ravel / reshape of singleton axes) -/
def canonArr (twoD : Bool) (a : Arr) : Option Arr :=
  ((if twoD then canon2d else canon1d) a.shape).map fun sh => { shape := sh, data := a.data }

/-- shapes of what a call returns around an arbitrary core: the baseline and every per-point
parameter have the canonical data shape -/
def resultShape (twoD : Bool) (s : List Nat) : Option (List Nat) := (if twoD then canon2d else canon1d) s

/-- `x = np.linspace(-1, 1, N)` -/
def linspaceX (n : Nat) : List Rat :=
  (List.range n).map fun (i : Nat) => if n = 1 then -1 else -1 + 2 * ((i : Nat) : Rat) / (((n - 1 : Nat)) : Rat)

/-! ### `_class_wrapper`: `func_signature.bind(*args, **kwargs)`, pop `x_data`, forward -/

/-- bind positional and keyword arguments to parameter names in signature order; `none` on a
duplicate / unknown / too many (TypeError) -/
def bindArgs (params : List String) (args : List Rat) (kwargs : List (String × Rat)) : Option (List (String × Rat)) :=
  if args.length > params.length then none
  else
    let pos := (params.take args.length).zip args
    if kwargs.any (fun kv => !(params.drop args.length).contains kv.1) then none
    else if (kwargs.map (·.1)).eraseDups.length != kwargs.length then none
    else some (pos ++ (params.drop args.length).filterMap fun p => (kwargs.find? (·.1 == p)).map fun kv => (p, kv.2))

/-- what the object method finally receives: x_data separated, the rest in signature order -/
def forward (params : List String) (args : List Rat) (kwargs : List (String × Rat)) :
    Option (Option Rat × List (String × Rat)) :=
  (bindArgs params args kwargs).map fun b =>
    ((b.find? (·.1 == "x_data")).map (·.2), b.filter (·.1 != "x_data"))

/-- `_get_method(name)`: `getattr(self, name.lower())`; `lower` is abstract (ASCII lower-casing) -/
def getMethod (lower : String → String) (registry : List String) (name : String) : Option String :=
  registry.find? (· == lower name)

end PbVerif.Wrapper
