/-! M-Own (C13): an ownership calculus for NumPy buffers.  Buffers are either owned by the caller
(`user k`) or created during the call (`fresh k`); variables alias buffers; operations create views
(same buffer) or new buffers; `write` mutates a variable's buffer in place.  Import-free. -/
namespace PbVerif.Own

inductive Buf
  | user (k : Nat)
  | fresh (k : Nat)
deriving DecidableEq, Repr

inductive Op
  | view (src dst : Nat)            -- basic slicing, ravel/reshape of a contiguous array, asarray without copy
  | newBuf (dst : Nat)              -- copy, fancy indexing, arithmetic result, asarray with conversion, np.empty …
  | write (target : Nat)            -- `a[...] = …`, `a += …`, `out=a`, LAPACK `overwrite_*=True` on a
  | raise                           -- the call raises here: nothing after it is executed
deriving DecidableEq, Repr

structure St where
  alias : List (Nat × Buf)          -- variable ↦ buffer (latest binding first)
  nextFresh : Nat
  version : List (Buf × Nat)        -- number of in-place writes each buffer has received
  raised : Bool
deriving Repr

def lookup (s : St) (v : Nat) : Option Buf := (s.alias.find? (·.1 == v)).map (·.2)
def versionOf (s : St) (b : Buf) : Nat := ((s.version.find? (·.1 == b)).map (·.2)).getD 0

def bump (ver : List (Buf × Nat)) (b : Buf) : List (Buf × Nat) :=
  match ver.find? (·.1 == b) with
  | some _ => ver.map fun p => if p.1 == b then (p.1, p.2 + 1) else p
  | none => (b, 1) :: ver

def step (s : St) : Op → St
  | .view src dst => if s.raised then s else
      match lookup s src with
      | some b => { s with alias := (dst, b) :: s.alias }
      | none => s
  | .newBuf dst => if s.raised then s else
      { s with alias := (dst, .fresh s.nextFresh) :: s.alias, nextFresh := s.nextFresh + 1 }
  | .write t => if s.raised then s else
      match lookup s t with
      | some b => { s with version := bump s.version b }
      | none => s
  | .raise => { s with raised := true }

def run (s : St) (prog : List Op) : St := prog.foldl step s

/-- the discipline: at the moment of each write, the target variable is bound to a fresh buffer -/
def writesFresh (s : St) : List Op → Bool
  | [] => true
  | op :: rest =>
    (match op with
     | .write t => if s.raised then true else
         (match lookup s t with | some (.fresh _) => true | some (.user _) => false | none => true)
     | _ => true) && writesFresh (step s op) rest

/-- initial state: variables 0..n-1 are the caller's objects -/
def initSt (n : Nat) : St :=
  { alias := (List.range n).map fun k => (k, .user k), nextFresh := 0, version := [], raised := false }

/-! ### the wrapper's data path and the weights path as programs -/

/-- how the caller supplied an array argument -/
structure InCfg where
  isNdarray : Bool        -- already an ndarray (else list/tuple: converted = copied)
  dtypeOk : Bool          -- dtype needs no conversion (float64, or any dtype when none is requested)
  needsRavel : Bool       -- shape (N,1) / (1,N): `output.ravel()`
  ravelIsView : Bool      -- the array is contiguous, so ravel returns a view
  sorted : Bool           -- the object has a sort order (x was not sorted): fancy indexing copies
deriving DecidableEq, Repr

/-- variable numbering: 0 = the caller's array; 1 = result handed to the numerical core -/
def arrayPath (c : InCfg) (copyInput : Bool) : List Op :=
  [if c.isNdarray && c.dtypeOk then .view 0 1 else .newBuf 1] ++
  (if c.needsRavel then [if c.ravelIsView then .view 1 1 else .newBuf 1] else []) ++
  (if copyInput then [.newBuf 1] else []) ++
  (if c.sorted then [.newBuf 1] else [])

/-- does the core receive the caller's own buffer? -/
def aliasesUser (c : InCfg) (copyInput : Bool) : Bool :=
  match lookup (run (initSt 1) (arrayPath c copyInput)) 1 with
  | some (.user _) => true
  | _ => false

end PbVerif.Own
