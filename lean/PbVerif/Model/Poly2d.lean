/-! M11b: the 2-D `max_cross` semantics of `_PolyHelper2D.recalc_vandermonde`
(/repo/pybaselines/two_d/_algorithm_setup.py): which columns of the flattened `polyvander2d` matrix are set to
zero, the column order of that matrix, and what this means for the coefficient matrix handed to
`_convert_coef2d` (/repo/pybaselines/utils.py).  Import-free. -/
namespace PbVerif.Poly2d

/-- column of `polyvander2d(X, Z, [a, b]).reshape(-1, (a+1)(b+1))` that holds the monomial `x^i z^j`
(numpy: `vander_x[..., :, None] * vander_z[..., None, :]` flattened in C order) -/
def colIndex (_a b i j : Nat) : Nat := i * (b + 1) + j

/-- `itertools.product(range(a + 1), range(b + 1))` in the order Python yields it -/
def productPairs (a b : Nat) : List (Nat × Nat) :=
  (List.range (a + 1)).flatMap fun (i : Nat) => (List.range (b + 1)).map fun (j : Nat) => (i, j)

/-- the test of the loop body on one `val = (i, j)` for an integer `max_cross = m`:
`0 not in val and any(v > max_cross for v in val)`  (true = the column is set to zero) -/
def zeroedVal (m : Nat) (val : Nat × Nat) : Bool :=
  (!([val.1, val.2].contains 0)) && [val.1, val.2].any fun (v : Nat) => decide (v > m)

/-- `recalc_vandermonde`, the part after `polyvander2d`: one flag per column, `true` = the column is left
as computed, `false` = `vandermonde[:, idx] = 0`.  `max_cross = None` skips the loop.
(`max_cross` has been through `_check_scalar_variable(allow_zero=True, dtype=int)`: a natural number.) -/
def keptCols (a b : Nat) (mc : Option Nat) : List Bool :=
  match mc with
  | none => (productPairs a b).map fun (_ : Nat × Nat) => true
  | some m => (productPairs a b).map fun (val : Nat × Nat) => !(zeroedVal m val)

/-- the same flag computed from the column index alone: `val = (idx / (b+1), idx % (b+1))` -/
def keptCol (_a b : Nat) (mc : Option Nat) (idx : Nat) : Bool :=
  match mc with
  | none => true
  | some m => !(zeroedVal m (idx / (b + 1), idx % (b + 1)))

/-- the documented monomial set: "if max_cross is 1, then x z**2, x**2 z, and x**2 z**2 would all be set to
0"; pure powers are never cross terms; `None` "does not limit the cross terms" -/
def allowed (mc : Option Nat) (i j : Nat) : Bool :=
  match mc with
  | none => true
  | some m => decide (i = 0) || decide (j = 0) || (decide (i ≤ m) && decide (j ≤ m))

/-- the flat coefficient vector (solution of `V c = y`) as the `(a+1) × (b+1)` matrix
`coef.reshape((a + 1, b + 1))` -/
def reshapeCoef (a b : Nat) (coef : List Rat) : List (List Rat) :=
  (List.range (a + 1)).map fun (i : Nat) => (List.range (b + 1)).map fun (j : Nat) => coef.getD (colIndex a b i j) 0

/-- zero the entries of a coefficient matrix that belong to excluded monomials -/
def maskCoef (mc : Option Nat) (c : List (List Rat)) : List (List Rat) :=
  (List.range c.length).map fun (i : Nat) => (List.range (c.getD i []).length).map fun (j : Nat) =>
    if allowed mc i j then (c.getD i []).getD j 0 else 0

/-- one row of the flattened `polyvander2d` matrix, at the mapped point `(x, z)`: column `idx` holds
`x^(idx / (b+1)) · z^(idx % (b+1))` -/
def vanderRow (a b : Nat) (x z : Rat) : List Rat :=
  (List.range ((a + 1) * (b + 1))).map fun (idx : Nat) => x ^ (idx / (b + 1)) * z ^ (idx % (b + 1))

/-- the same row of `self.vandermonde` after the `max_cross` loop -/
def vanderRowMasked (a b : Nat) (mc : Option Nat) (x z : Rat) : List Rat :=
  (List.range ((a + 1) * (b + 1))).map fun (idx : Nat) =>
    if (keptCols a b mc).getD idx true then x ^ (idx / (b + 1)) * z ^ (idx % (b + 1)) else 0

/-- `row @ coef` -/
def dot (r c : List Rat) : Rat :=
  ((List.range r.length).map fun (k : Nat) => r.getD k 0 * c.getD k 0).foldl (· + ·) 0

/-- bitmaps for the driver -/
def showBits (l : List Bool) : String := String.ofList (l.map fun (b : Bool) => if b then '1' else '0')

def allowedRows (a b : Nat) (mc : Option Nat) : List (List Bool) :=
  (List.range (a + 1)).map fun (i : Nat) => (List.range (b + 1)).map fun (j : Nat) => allowed mc i j

end PbVerif.Poly2d
