import PbVerif.Gen.Consts
/-! M-Weighting (C09): the reweighting rules of `_weighting.py`, written once over an arbitrary
number type with `exp`, `sqrt`, `abs` (`Transc`) and instantiated at `Float` for the driver.
Theorems are proved over ordered fields in `Lemmas/Weighting.lean`.  Import-free. -/
namespace PbVerif.Weighting

class Transc (α : Type) where
  exp : α → α
  sqrt : α → α
  abs : α → α

instance : Transc Float := ⟨Float.exp, Float.sqrt, Float.abs⟩
/-- integers enter float arithmetic by conversion (`np.exp(min(iteration, 100))`, `10**k / std`) -/
scoped instance : NatCast Float := ⟨Nat.toFloat⟩
scoped instance : Pow Float Nat := ⟨fun b n => Float.pow b n.toFloat⟩

section rules
variable {α : Type} [Add α] [Sub α] [Mul α] [Div α] [Neg α] [OfNat α 0] [OfNat α 1] [OfNat α 2]
  [LT α] [DecidableLT α] [Transc α]

/-- `scipy.special.expit(x) = 1 / (1 + exp(-x))` -/
def expit (x : α) : α := 1 / (1 + Transc.exp (-x))

/-- asls: `np.where(y > baseline, p, 1 - p)` -/
def aslsW (p r : α) : α := if 0 < r then p else 1 - p

/-- arpls: `expit(-(2 / std) * (residual - (2 * std - mean(neg_residual))))` -/
def arplsW (std mean r : α) : α := expit (-(2 / std) * (r - (2 * std - mean)))

/-- the shared shape of drpls (`K = exp(min(iteration, 100))`) and lsrpls (`K = 10 ** min(iteration, 100)`):
`inner = K / std * (residual - (2 * std - mean))`, `0.5 * (1 - inner / (1 + |inner|))` -/
def drplsW (K std mean r : α) : α :=
  let inner := K / std * (r - (2 * std - mean))
  (1 / 2) * (1 - inner / (1 + Transc.abs inner))

/-- iarpls: `inner = exp(min(iteration, 100)) / std * (residual - 2 * std)`, `0.5 * (1 - inner / sqrt(1 + inner**2))` -/
def iarplsW (K std r : α) : α :=
  let inner := K / std * (r - 2 * std)
  (1 / 2) * (1 - inner / Transc.sqrt (1 + inner * inner))

/-- aspls: `expit(-(asymmetric_coef / std) * (residual - std))` -/
def asplsW (k std r : α) : α := expit (-(k / std) * (r - std))

/-- psalsa: `1 - p` where `residual <= 0`, `p * exp(-residual / k)` where `residual > 0` -/
def psalsaW (p k r : α) : α := if 0 < r then p * Transc.exp (-(r / k)) else 1 - p

/-- derpsalsa: like psalsa with a Gaussian tail, times the fixed partial weight of the point -/
def derpsalsaW (p k pw r : α) : α :=
  (if 0 < r then p * Transc.exp (-((1 / 2) * ((r / k) * (r / k)))) else 1 - p) * pw

/-- airpls before normalisation: `exp(clip(t / S * r, 0, M))` on negative residuals (S = their sum < 0), 0 elsewhere -/
def airplsRaw (t S M r : α) : α :=
  if r < 0 then
    let a := t / S * r
    Transc.exp (if a < 0 then 0 else if M < a then M else a)
  else 0

/-- quantile loss weight (irsqr, quant_reg): `where(r > 0, q, 1 - q) / sqrt(r**2 + eps)` -/
def quantileW (q eps r : α) : α := (if 0 < r then q else 1 - q) / Transc.sqrt (r * r + eps)

/-- brpls given the value `e = erf(u)`: `1 / (1 + m * (1 + e) * exp(u**2))` -/
def brplsW (m u e : α) : α := 1 / (1 + m * (1 + e) * Transc.exp (u * u))

end rules

section caps
variable {α : Type} [NatCast α]
/-- `min(iteration, cap)` of the 1-based integer iteration count, used as a number -/
def capIter (cap it : Nat) : α := ((min it cap : Nat) : α)
/-- drpls, iarpls: `np.exp(min(iteration, 100))` -/
def expK [Transc α] (it : Nat) : α := Transc.exp (capIter 100 it)
/-- lsrpls: `10**(min(iteration, 100))` -/
def tenK [Pow α Nat] (it : Nat) : α := ((10 : Nat) : α) ^ (min it 100)
/-- airpls: `min(iteration, 50)` -/
def airplsT (it : Nat) : α := capIter 50 it
end caps

/-! ### executable vector-level rules at `Float` (what the driver runs) -/

def fsum (l : List Float) : Float := l.foldl (· + ·) 0
def fmean (l : List Float) : Float := fsum l / l.length.toFloat
/-- `array.std(ddof=1)` -/
def fstd1 (l : List Float) : Float :=
  let m := fmean l
  Float.sqrt (fsum (l.map fun v => (v - m) * (v - m)) / (l.length.toFloat - 1))
/-- `_MIN_FLOAT` of `pybaselines.utils` (read from the package on every run, `Gen/Consts.lean`): guard of `_safe_std` -/
def minFloat : Float := Float.ofBits PbVerif.Gen.minFloatBits
def safeStd1 (l : List Float) : Float :=
  if l.length < 2 then minFloat else let s := fstd1 l; if s == 0 then minFloat else s

def negs (r : List Float) : List Float := r.filter (· < 0)

/-- result of a rule on a residual vector: weights and the early-exit flag -/
structure RuleOut where
  w : List Float
  exitEarly : Bool

def zerosLike (r : List Float) : List Float := r.map fun _ => 0

def fmin (a b : Float) : Float := if a < b then a else b

def ruleArpls (r : List Float) : RuleOut :=
  let n := negs r
  if n.length < 2 then ⟨zerosLike r, true⟩ else
    let s := safeStd1 n
    let mu := fmean n
    ⟨r.map (arplsW s mu), false⟩

def ruleDrpls (iteration : Nat) (r : List Float) : RuleOut :=
  let n := negs r
  if n.length < 2 then ⟨zerosLike r, true⟩ else
    let s := safeStd1 n
    ⟨r.map (drplsW (expK iteration) s (fmean n)), false⟩

def ruleLsrpls (iteration : Nat) (r : List Float) : RuleOut :=
  let n := negs r
  if n.length < 2 then ⟨zerosLike r, true⟩ else
    let s := safeStd1 n
    ⟨r.map (drplsW (tenK iteration) s (fmean n)), false⟩

def ruleIarpls (iteration : Nat) (r : List Float) : RuleOut :=
  let n := negs r
  if n.length < 2 then ⟨zerosLike r, true⟩ else
    ⟨r.map (iarplsW (expK iteration) (safeStd1 n)), false⟩

def ruleAspls (k : Float) (r : List Float) : RuleOut :=
  let n := negs r
  if n.length < 2 then ⟨zerosLike r, true⟩ else ⟨r.map (asplsW k (safeStd1 n)), false⟩

/-- airpls: `log_max = log(finfo.max)`, clip upper bound `log_max - spacing(log_max)` passed in as `M` -/
def ruleAirpls (iteration : Nat) (normalize : Bool) (M : Float) (r : List Float) : RuleOut :=
  let n := negs r
  if n.length < 2 then ⟨zerosLike r, true⟩ else
    let S := fsum n
    let raw := r.map (airplsRaw (airplsT iteration) S M)
    if normalize then
      let mx := (raw.zip r).foldl (fun acc (p : Float × Float) => if p.2 < 0 && acc < p.1 then p.1 else acc) 0
      ⟨(raw.zip r).map fun (p : Float × Float) => if p.2 < 0 then p.1 / mx else p.1, false⟩
    else ⟨raw, false⟩

def ruleAsls (p : Float) (r : List Float) : RuleOut := ⟨r.map (aslsW p), false⟩
def rulePsalsa (p k : Float) (r : List Float) : RuleOut := ⟨r.map (psalsaW p k), false⟩
def ruleDerpsalsa (p k : Float) (pw r : List Float) : RuleOut :=
  ⟨(r.zip pw).map fun (x : Float × Float) => derpsalsaW p k x.2 x.1, false⟩
def ruleQuantile (q eps : Float) (r : List Float) : RuleOut := ⟨r.map (quantileW q eps), false⟩

end PbVerif.Weighting
