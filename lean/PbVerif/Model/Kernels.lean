/-! M14: index arithmetic of the remaining JIT kernels (`smooth._directional_min_moving_avg`,
`classification._rolling_std`, `utils._interp_inplace` via `_fill_skips`), as the list of array
indices they touch (as `Int`, so that a negative or too large index is visible).  Import-free. -/
namespace PbVerif.Kernels

/-- the half window after `if half_window > (data_len - 1) // 2: half_window = (data_len - 1) // 2` -/
def clipHw (dataLen hw : Nat) : Nat := if hw > (dataLen - 1) / 2 then (dataLen - 1) / 2 else hw

/-- indices of `y` read or written by `_directional_min_moving_avg(y, data_len, half_window)`
(`y[i] = mean` happens under a data-dependent test; it is included unconditionally) -/
def dirMinMovAvgIdx (dataLen hw0 : Nat) : List Int :=
  let hw := clipHw dataLen hw0
  let L : Int := dataLen
  let h : Int := hw
  -- y[0]
  [(0 : Int)] ++
  -- growing window: for i in 1..hw: for j in [2i-1, 2i+1): y[j]; y[i]
  ((List.range hw).flatMap fun (i0 : Nat) =>
      let i : Int := (i0 : Int) + 1
      [2 * i - 1, 2 * i, i]) ++
  -- full window: for i in hw+1 .. L-hw-1: y[i+hw], y[i-hw-1], y[i]
  ((List.range (dataLen - hw - (hw + 1))).flatMap fun (t : Nat) =>
      let i : Int := h + 1 + (t : Int)
      [i + h, i - h - 1, i]) ++
  -- shrinking window: for i in L-hw .. L-2 (k-th pass has last_window = 2hw+1-2k): y[L-lw], y[L-lw+1], y[i]
  ((List.range (hw - 1)).flatMap fun (k : Nat) =>
      let lw : Int := 2 * h + 1 - 2 * (k : Int)
      [L - lw, L - lw + 1, L - h + (k : Int)])

/-- `_rolling_std(data, half_window, ddof)`: indices of `data` read and of `squared_diff`
read/written; `numY = data.shape[0]` -/
def rollingStdDataIdx (numY hw : Nat) : List Int :=
  let ws := 2 * hw + 1
  [(0 : Int)] ++ ((List.range (ws - 1)).map fun (i0 : Nat) => ((i0 : Int) + 1)) ++
  ((List.range (numY - hw - (hw + 1))).flatMap fun (t : Nat) =>
      let j : Int := (hw : Int) + 1 + (t : Int)
      [j - (hw : Int) - 1, j + (hw : Int)]) ++
  ((List.range (hw - 1)).map fun (t : Nat) => ((numY : Int) - (hw : Int) + 1 + (t : Int)))

def rollingStdSqIdx (numY hw : Nat) : List Int :=
  let ws := 2 * hw + 1
  ((List.range (ws - 1)).flatMap fun (i0 : Nat) => [((i0 : Int) + 1), (i0 : Int)]) ++
  [(hw : Int), ((ws : Int) - 1)] ++
  ((List.range (numY - hw - (hw + 1))).flatMap fun (t : Nat) =>
      let j : Int := (hw : Int) + 1 + (t : Int)
      [j, j - 1]) ++
  ((List.range (hw - 1)).flatMap fun (t : Nat) =>
      let k : Int := (numY : Int) - (hw : Int) + 1 + (t : Int)
      [k, k - 1])

end PbVerif.Kernels
