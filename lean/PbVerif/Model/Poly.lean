/-! M11: polynomial helpers: `mapparms`/`mapdomain`, `utils._poly_transform_matrix`,
`_convert_coef`, `_convert_coef2d`, polynomial evaluation and the weighted normal-equation residual,
in exact rational arithmetic.  Import-free. -/
namespace PbVerif.Poly

def sumL (l : List Rat) : Rat := l.foldl (· + ·) 0

/-- Pascal's triangle: `scipy.special.binom(j, i)` on naturals -/
def binom : Nat → Nat → Nat
  | _, 0 => 1
  | 0, _+1 => 0
  | n+1, k+1 => binom n k + binom n (k+1)

/-- `np.polynomial.polyutils.mapparms(old, new)`: `(offset, scale)` with `new = offset + scale·old` -/
def mapparms (old0 old1 new0 new1 : Rat) : Rat × Rat :=
  let oldlen := old1 - old0
  let newlen := new1 - new0
  ((old1 * new0 - old0 * new1) / oldlen, newlen / oldlen)

/-- `Σ c_j x^j` -/
def evalPoly (c : List Rat) (x : Rat) : Rat :=
  sumL ((List.range c.length).map fun (j : Nat) => c.getD j 0 * x ^ j)

/-- `_poly_transform_matrix(n, domain)` with `(offset, scale) = mapparms([-1, 1], domain)`; entry (i, j).
The `offset == 0` branch is kept as coded. -/
def polyTransformAt (offset scale : Rat) (i j : Nat) : Rat :=
  if offset = 0 then
    if j = i then (binom j i : Nat) * (1 / scale) ^ j else 0
  else
    if i ≤ j then (binom j i : Nat) * (1 / scale) ^ j * (-offset) ^ (j - i)
    else (binom j i : Nat) * (1 / scale) ^ j * (1 / (-offset)) ^ (i - j)   -- binom j i = 0 here

/-- `_convert_coef(coef, domain)` = `T @ coef` -/
def convertCoef (c : List Rat) (offset scale : Rat) : List Rat :=
  (List.range c.length).map fun (i : Nat) =>
    sumL ((List.range c.length).map fun (j : Nat) => polyTransformAt offset scale i j * c.getD j 0)

/-- `Σ_{i,j} C[i][j] x^i z^j` (`polyval2d`) -/
def evalPoly2 (c : List (List Rat)) (x z : Rat) : Rat :=
  sumL ((List.range c.length).map fun (i : Nat) => x ^ i * evalPoly (c.getD i []) z)

/-- `_convert_coef2d` = `T_x @ C @ T_z.T` on an `(a+1) × (b+1)` coefficient matrix -/
def convertCoef2d (c : List (List Rat)) (ox sx oz sz : Rat) : List (List Rat) :=
  let nx := c.length
  let nz := (c.getD 0 []).length
  (List.range nx).map fun (i : Nat) => (List.range nz).map fun (j : Nat) =>
    sumL ((List.range nx).map fun (k : Nat) => sumL ((List.range nz).map fun (l : Nat) =>
      polyTransformAt ox sx i k * (c.getD k []).getD l 0 * polyTransformAt oz sz j l))

/-- weighted normal-equation residual `Σ_i w_i t_i^j r_i` for `j = 0..k` together with the scale
`Σ_i w_i |t_i|^j |r_i|` it has to be small against -/
def normalResidual (t w r : List Rat) (k : Nat) : List (Rat × Rat) :=
  (List.range (k + 1)).map fun (j : Nat) =>
    (sumL ((List.range t.length).map fun (i : Nat) => w.getD i 0 * t.getD i 0 ^ j * r.getD i 0),
     sumL ((List.range t.length).map fun (i : Nat) => w.getD i 0 * (if t.getD i 0 < 0 then -(t.getD i 0) else t.getD i 0) ^ j *
        (if r.getD i 0 < 0 then -(r.getD i 0) else r.getD i 0)))

/-- exact value of the coefficient polynomial at x and the magnitude `Σ |c_j| |x|^j` that bounds the
effect of rounding the coefficients -/
def evalWithBound (c : List Rat) (x : Rat) : Rat × Rat :=
  let ax := if x < 0 then -x else x
  (evalPoly c x, sumL ((List.range c.length).map fun (j : Nat) =>
      (if c.getD j 0 < 0 then -(c.getD j 0) else c.getD j 0) * ax ^ j))

end PbVerif.Poly
