/-! M3: the skeleton shared by the iteratively reweighted methods:

    for i in range(budget):            # budget = max_iter + 1 (most methods) or max_iter
        baseline = solve(weights)
        new_weights, exit_early = rule(y, baseline)      # early exit only for some rules
        if exit_early: break                             # nothing recorded for this step
        tol_history[i] = diff(weights, new_weights)
        if tol_history[i] < tol: break
        weights = new_weights

The numeric work is a parameter: `d k` is the difference recorded at step k if the loop gets there,
`exit k` whether the rule signals the early exit at step k.  Import-free. -/
namespace PbVerif.Loop

inductive Stop | converged | exhausted | early
deriving DecidableEq, Repr

/-- run from step `k` with `r` steps of budget left; returns (length of tol_history, reason) -/
def loopFrom (d : Nat → Rat) (exit : Nat → Bool) (tol : Rat) : Nat → Nat → Nat × Stop
  | 0, k => (k, .exhausted)
  | r+1, k => if exit k then (k, .early)
              else if d k < tol then (k + 1, .converged)
              else loopFrom d exit tol r (k + 1)

def runLoop (budget : Nat) (tol : Rat) (d : Nat → Rat) (exit : Nat → Bool) : Nat × Stop := loopFrom d exit tol budget 0

/-- index j such that the returned weights are `w_j` (`w_0` initial, `w_{k+1} = rule(solve(w_k))`) and
index of the returned baseline `solve(w_k)`; `none` if no step was executed (budget 0) -/
def returned (budget : Nat) (tol : Rat) (d : Nat → Rat) (exit : Nat → Bool) : Nat × Option Nat :=
  match runLoop budget tol d exit with
  | (len, .converged) => (len - 1, some (len - 1))       -- stopped at step len-1 before the update
  | (len, .early) => (len, some len)                      -- stopped at step len before recording
  | (len, .exhausted) => (len, if len = 0 then none else some (len - 1))   -- all updates done

/-- the recorded history -/
def history (budget : Nat) (tol : Rat) (d : Nat → Rat) (exit : Nat → Bool) : List Rat :=
  (List.range (runLoop budget tol d exit).1).map d

end PbVerif.Loop
