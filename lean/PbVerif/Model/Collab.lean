/-! M13 (collab_pls): the planner of `_Optimizers.collab_pls` (`pybaselines/optimizers.py` and
`pybaselines/two_d/optimizers.py`) together with `_Algorithm._setup_optimizer` / `_get_function`
(`_algorithm_setup.py`, `two_d/_algorithm_setup.py`): which calls of the wrapped method are made, in which
order, on which data, with which keyword dictionary; which keys are overridden; how the weights (and alpha)
are averaged; which fits are reported.  The wrapped method is a parameter (`Method`).  Import-free. -/
namespace PbVerif.Collab

/-- a keyword value as `collab_pls` sees it: either something the user supplied (opaque, forwarded as is),
one of the constants the code writes, or something computed from earlier fits (`call` = position of the
fit in the sequence of calls of the wrapped method) -/
inductive Val
  | user (tag : String)            -- the user's own value (never inspected by collab_pls)
  | inf                            -- `np.inf`
  | true_                          -- `True`
  | fitWeights (call : Nat)        -- `fit_params['weights']` of that call
  | fitAlpha (call : Nat)          -- `fit_params['alpha']` of that call
  | meanWeights (calls : List Nat) -- `np.mean(weights, axis=0)`, rows filled in this order
  | meanAlpha (calls : List Nat)   -- `np.mean(alpha, axis=0)`
deriving DecidableEq, Repr

/-- a Python `dict` with string keys (insertion ordered) -/
abbrev Kw := List (String × Val)

/-- `d[key]` (`none` = KeyError) -/
def kwGet : Kw → String → Option Val
  | [], _ => none
  | (k, w) :: t, key => if k = key then some w else kwGet t key

/-- `d[key] = v`: replaces the value in place when the key exists, appends otherwise -/
def kwSet : Kw → String → Val → Kw
  | [], key, v => [(key, v)]
  | (k, w) :: t, key, v => if k = key then (k, v) :: t else (k, w) :: kwSet t key v

/-- the decisions `collab_pls` takes from the (lower-cased) method name -/
structure Family where
  calcAlpha : Bool   -- `method in ('aspls', 'pspline_aspls')`
  setTol : Bool      -- 1-D: `method not in ('mpls', 'pspline_mpls', 'fabc')`; 2-D: unconditional
  setTol2 : Bool     -- `method in ('brpls', 'pspline_brpls')`
  asMask : Bool      -- `method == 'fabc'`
deriving DecidableEq, Repr

/-- `method` is the result of `method.lower()` -/
def family (twoD : Bool) (method : String) : Family :=
  { calcAlpha := method == "aspls" || method == "pspline_aspls"
    setTol := twoD || !(method == "mpls" || method == "pspline_mpls" || method == "fabc")
    setTol2 := method == "brpls" || method == "pspline_brpls"
    asMask := method == "fabc" }

/-- the keys `collab_pls` writes into its copy of `method_kwargs` for this method (step 2) -/
def overridden (fam : Family) : List String :=
  ["weights"] ++ (if fam.calcAlpha then ["alpha"] else []) ++ (if fam.setTol then ["tol"] else []) ++
  (if fam.setTol2 then ["tol_2"] else []) ++ (if fam.asMask then ["weights_as_mask"] else [])

/-- the first positional argument of a call of the wrapped method -/
inductive DataArg
  | mean               -- `np.mean(dataset, axis=0)`
  | entry (i : Nat)    -- `dataset[i]`
deriving DecidableEq, Repr

structure Call where
  data : DataArg
  kw : Kw
deriving DecidableEq, Repr

structure Plan where
  /-- every call of the wrapped method, in the order made -/
  calls : List Call
  /-- positions (in `calls`) of the fits that are returned: `baselines[i]`, `params['method_params'][key][i]` -/
  results : List Nat
  /-- `params['average_weights']` -/
  avgWeights : Val
  /-- `params['average_alpha']` (key absent = `none`) -/
  avgAlpha : Option Val
deriving DecidableEq, Repr

/-- step 1 of `collab_pls`: the fit(s) that produce the weights; the user's dictionary is passed untouched -/
def firstPass (k : Nat) (avg : Bool) (user : Kw) : List Call :=
  if avg then [⟨.mean, user⟩] else (List.range k).map fun i => ⟨.entry i, user⟩

/-- `method_kws['weights']` / `method_kws['alpha']` after step 1 -/
def avgW (k : Nat) (avg : Bool) : Val := if avg then .fitWeights 0 else .meanWeights (List.range k)
def avgA (k : Nat) (avg : Bool) : Val := if avg then .fitAlpha 0 else .meanAlpha (List.range k)

/-- the dictionary every step-2 fit receives, built by the assignments of `collab_pls` in their order -/
def finalKw (fam : Family) (k : Nat) (avg : Bool) (user : Kw) : Kw :=
  let kw := kwSet user "weights" (avgW k avg)
  let kw := if fam.calcAlpha then kwSet kw "alpha" (avgA k avg) else kw
  let kw := if fam.setTol then kwSet kw "tol" .inf else kw
  let kw := if fam.setTol2 then kwSet kw "tol_2" .inf else kw
  if fam.asMask then kwSet kw "weights_as_mask" .true_ else kw

/-- the plan for `k` data sets -/
def collabPlan (twoD : Bool) (method : String) (k : Nat) (avg : Bool) (user : Kw) : Plan :=
  let fam := family twoD method
  let first := firstPass k avg user
  { calls := first ++ (List.range k).map fun i => ⟨.entry i, finalKw fam k avg user⟩
    results := (List.range k).map (· + first.length)
    avgWeights := avgW k avg
    avgAlpha := if fam.calcAlpha then some (avgA k avg) else none }

/-! ### what is raised before any fit (`_setup_optimizer`, then the dimension check) -/
inductive Err | attributeError | keyError | valueError
deriving DecidableEq, Repr

/-- `known` = some module in the optimizer's list has the (lower-cased) method; `ndim` = `dataset.ndim`.
`_get_function` raises first, then the 1-D `_setup_optimizer` rejects an `x_data` key (the 2-D one does not
look), then `collab_pls` checks the number of dimensions. -/
def collabCall (twoD : Bool) (known : Bool) (ndim : Nat) (method : String) (k : Nat) (avg : Bool) (user : Kw) :
    Except Err Plan :=
  if !known then .error .attributeError
  else if !twoD && (kwGet user "x_data").isSome then .error .keyError
  else if ndim ≠ (if twoD then 3 else 2) then .error .valueError
  else .ok (collabPlan twoD method k avg user)

/-! ### meaning of a plan for an arbitrary wrapped method -/

/-- a resolved keyword value -/
inductive Arg
  | user (tag : String) | inf | true_ | arr (v : List Rat)
deriving DecidableEq, Repr

/-- what a fit returns (as far as `collab_pls` looks at it) -/
structure Fit where
  baseline : List Rat
  weights : List Rat
  alpha : List Rat
deriving DecidableEq, Repr, Inhabited

/-- the wrapped method; the first argument is the number of fits made before (the fitter object is
stateful, so nothing is assumed about two calls with equal arguments) -/
abbrev Method := Nat → List Rat → List (String × Arg) → Fit

/-- `np.mean(rows, axis=0)` (exact arithmetic): rows are added in order, then divided by their number -/
def meanRows (rows : List (List Rat)) : List Rat :=
  (List.range (rows.headD []).length).map fun j => (rows.foldl (fun acc r => acc + r.getD j 0) 0) / rows.length

/-- a call as it happened: resolved arguments and the result -/
structure Rec where
  data : List Rat
  kw : List (String × Arg)
  fit : Fit
deriving DecidableEq, Repr, Inhabited

def fitAt (hist : List Rec) (c : Nat) : Fit := (hist.getD c default).fit

def resolve (hist : List Rec) : Val → Arg
  | .user t => .user t
  | .inf => .inf
  | .true_ => .true_
  | .fitWeights c => .arr (fitAt hist c).weights
  | .fitAlpha c => .arr (fitAt hist c).alpha
  | .meanWeights cs => .arr (meanRows (cs.map fun c => (fitAt hist c).weights))
  | .meanAlpha cs => .arr (meanRows (cs.map fun c => (fitAt hist c).alpha))

def resolveKw (hist : List Rec) (kw : Kw) : List (String × Arg) := kw.map fun p => (p.1, resolve hist p.2)

def resolveData (ds : List (List Rat)) : DataArg → List Rat
  | .mean => meanRows ds
  | .entry i => ds.getD i []

def stepCall (f : Method) (ds : List (List Rat)) (hist : List Rec) (c : Call) : List Rec :=
  hist ++ [⟨resolveData ds c.data, resolveKw hist c.kw, f hist.length (resolveData ds c.data) (resolveKw hist c.kw)⟩]

def runCalls (f : Method) (ds : List (List Rat)) (calls : List Call) : List Rec := calls.foldl (stepCall f ds) []

structure Output where
  trace : List Rec
  baselines : List (List Rat)
  avgWeights : Arg
  avgAlpha : Option Arg
deriving DecidableEq, Repr

/-- `collab_pls(dataset, average_dataset=avg, method=…, method_kwargs=user)` for the wrapped method `f` -/
def runCollab (f : Method) (twoD : Bool) (method : String) (avg : Bool) (user : Kw) (ds : List (List Rat)) : Output :=
  let p := collabPlan twoD method ds.length avg user
  let hist := runCalls f ds p.calls
  { trace := hist
    baselines := p.results.map fun c => (fitAt hist c).baseline
    avgWeights := resolve hist p.avgWeights
    avgAlpha := p.avgAlpha.map (resolve hist) }

end PbVerif.Collab
