import PbVerif.Model.Loop
/-! M3, Route A: the meaning of one row of `Gen/Loops.lean` — the iteration loop of a method as
`harness/pbv/translate_loops.py` reads it from the source (pybaselines/whittaker.py:asls … two_d/*.py, every function
assigning `tol_history`):

    tol_history = np.empty(alloc(max_iter))                 # or np.empty((alloc, cols)) / np.zeros
    for i in range(lo, hi(max_iter)):
        … opaque numeric work …
        if <flag>: i -= dec; break                           # Ev.brk .flag dec
        tol_history[i + off] = x                             # Ev.write off
        if x < tol [or e | and e]: break                     # Ev.brk .tol/.tolOr/.tolAnd 0
    params = {…, 'tol_history': tol_history[:i + sliceOff]}

The numeric work is a parameter: `d k` is the value recorded in step k (k = 0, 1, … counts iterations, i = lo + k),
`fl k p` the truth value of the opaque condition tested by the event at position `p` of the body in step k.  The
interpreter tracks WHICH raw indices of the allocated array are written (and in which step), so that "no write outside
the allocation" and "no uninitialised `np.empty` memory inside the returned slice" are statements about its output.
Only core Lean (the file is linked into the driver). -/
namespace PbVerif.LoopTbl
open PbVerif.Loop (Stop)

/-- `coef * max_iter + const` -/
structure Aff where
  coef : Nat
  const : Int
deriving DecidableEq, Repr

def Aff.eval (a : Aff) (n : Nat) : Int := (a.coef : Int) * (n : Int) + a.const

/-- the break tests of the fragment: `x < tol`, `x < tol or e`, `x < tol and e`, `e` (x the value just recorded) -/
inductive Test | tol | tolOr | tolAnd | flag
deriving DecidableEq, Repr

/-- does the test fire, given the truth of `x < tol` and of the opaque condition -/
def Test.fires : Test → Bool → Bool → Bool
  | .tol, lt, _ => lt
  | .tolOr, lt, f => lt || f
  | .tolAnd, lt, f => lt && f
  | .flag, _, f => f

/-- the reason reported when the test fires (`.converged`: the recorded value is below tol) -/
def Test.reason : Test → Bool → Stop
  | .tol, _ => .converged
  | .tolAnd, _ => .converged
  | .tolOr, lt => if lt then .converged else .early
  | .flag, _ => .early

inductive Ev
  | write (off : Int)             -- tol_history[i + off] = x
  | brk (t : Test) (dec : Nat)    -- if <t>: i -= dec; break
deriving DecidableEq, Repr

structure Row where
  key : String        -- public method ("2d." prefix for Baseline2D)
  func : String       -- file:function the row was read from
  alloc : Aff         -- length of the first axis of the allocation
  cols : Nat          -- 1: np.empty(alloc); c > 1: np.empty((alloc, c)), one row of c values per write
  zeroed : Bool       -- np.zeros instead of np.empty
  guard : Nat         -- the fragment is only reached when max_iter ≥ guard (enclosing `if max_iter > g`)
  lo : Int            -- range(lo, hi)
  hi : Aff
  body : List Ev
  sliceOff : Int      -- tol_history[:i + sliceOff]
deriving Repr

structure Res where
  raised : Bool              -- the range was empty: the loop variable is unbound when the slice is taken (NameError)
  writes : List (Int × Nat)  -- (raw index written, step in which it was written), in program order
  slice : Int                -- raw upper bound `i + sliceOff` of the returned slice
  steps : Nat                -- step in which the loop stopped (= number of steps at exhaustion)
  stop : Stop
deriving DecidableEq, Repr

/-- one pass through the (rest of the) body in step `k` with loop variable `i`; `p` is the position of the next
event; returns the writes and, if a break fired, the loop variable after its decrement and the reason -/
def body (tol : Rat) (d : Nat → Rat) (fl : Nat → Nat → Bool) (k : Nat) (i : Int) :
    List Ev → Nat → List (Int × Nat) → List (Int × Nat) × Option (Int × Stop)
  | [], _, w => (w, none)
  | .write off :: es, p, w => body tol d fl k i es (p + 1) (w ++ [(i + off, k)])
  | .brk t dec :: es, p, w =>
      if t.fires (decide (d k < tol)) (fl k p) then (w, some (i - (dec : Int), t.reason (decide (d k < tol))))
      else body tol d fl k i es (p + 1) w

/-- the loop from step `k` with `f` steps left -/
def loop (r : Row) (tol : Rat) (d : Nat → Rat) (fl : Nat → Nat → Bool) : Nat → Nat → List (Int × Nat) → Res
  | 0, k, w => ⟨false, w, r.lo + (k : Int) - 1 + r.sliceOff, k, .exhausted⟩     -- i keeps its last value lo + k - 1
  | f + 1, k, w =>
    match body tol d fl k (r.lo + (k : Int)) r.body 0 w with
    | (w', some (i', s)) => ⟨false, w', i' + r.sliceOff, k, s⟩
    | (w', none) => loop r tol d fl f (k + 1) w'

/-- number of values of `range(lo, hi(max_iter))` -/
def Row.budget (r : Row) (n : Nat) : Nat := (r.hi.eval n - r.lo).toNat

/-- the whole fragment for a given `max_iter = n` -/
def run (r : Row) (n : Nat) (tol : Rat) (d : Nat → Rat) (fl : Nat → Nat → Bool) : Res :=
  if r.budget n = 0 then ⟨true, [], 0, 0, .exhausted⟩ else loop r tol d fl (r.budget n) 0 []

/-- NumPy's length of `a[:s]` for an axis of length `alloc` (a negative bound counts from the end) -/
def sliceLen (alloc s : Int) : Nat := if s < 0 then (alloc + s).toNat else (min s alloc).toNat

/-- how many iterations `max_iter` allows, relative to max_iter: `hi.const - lo` (the "N+1" / "N" / "N-1" of golden/loop_budget.json) -/
def Row.code (r : Row) : Int := r.hi.const - r.lo

/-! ### the decidable conditions a row has to meet (checked by `decide` over the regenerated table) -/

/-- symbolic pass through the body: `wr` = the write of this step has happened.  Every complete pass writes exactly once,
to index (step number); a break before the write hands back `step` entries, a break after it `step + 1`; tests on the
recorded value only occur after the write -/
def bodyOk (lo sl : Int) : List Ev → Bool → Bool
  | [], wr => wr
  | .write off :: es, wr => !wr && decide (lo + off = 0) && bodyOk lo sl es true
  | .brk t dec :: es, wr => decide (lo + sl - (dec : Int) = if wr then 1 else 0) && (wr || t == .flag) && bodyOk lo sl es wr

/-- `a(n) ≤ b(n)` for every n ≥ g (sufficient condition on the coefficients) -/
def Aff.leFrom (a b : Aff) (g : Nat) : Bool := decide (a.coef ≤ b.coef) && decide (a.eval g ≤ b.eval g)

def Row.ok (r : Row) : Bool :=
  bodyOk r.lo r.sliceOff r.body false && decide (r.lo + r.sliceOff = 1) &&
  -- the range fits the allocation, and allows at most max_iter + 1 steps
  (⟨r.hi.coef, r.hi.const - r.lo⟩ : Aff).leFrom r.alloc r.guard && (⟨r.hi.coef, r.hi.const - r.lo⟩ : Aff).leFrom ⟨1, 1⟩ r.guard &&
  decide (1 ≤ r.cols)

/-- the body contains a test that fires whenever the recorded value is below tol (`x < tol`, `x < tol or e`) -/
def hasTol : List Ev → Bool
  | [] => false
  | .brk t _ :: es => t == .tol || t == .tolOr || hasTol es
  | .write _ :: es => hasTol es

/-- the shape shared with the hand skeleton `Loop.runLoop`: [flag exit,] record, test on the recorded value -/
def Row.shape (r : Row) : Option (Bool × Test) :=
  match r.body with
  | [.write _, .brk t 0] => some (false, t)
  | [.brk .flag _, .write _, .brk t 0] => some (true, t)
  | _ => none

/-- the early-exit flag of the skeleton as the row sees it -/
def Row.exitOf (r : Row) (fl : Nat → Nat → Bool) : Nat → Bool :=
  match r.shape with
  | some (true, _) => fun k => fl k 0
  | _ => fun _ => false

/-- position of the final test in the body -/
def Row.testPos (r : Row) : Nat := r.body.length - 1

/-- the final test as a "difference stream" of the skeleton: below tol exactly when the row's test fires -/
def Row.enc (r : Row) (t : Test) (tol : Rat) (d : Nat → Rat) (fl : Nat → Nat → Bool) : Nat → Rat :=
  fun k => if t.fires (decide (d k < tol)) (fl k r.testPos) then tol - 1 else tol

/-! ### the two-level loops (brpls family, goldindec)

    tol_history = np.zeros((max_iter_2 + rows, max(max_iter, max_iter_2) + colc))
    for i in range(max_iter_2 + ohi):
        for j in range(max_iter + ihi):
            <single-loop fragment over j, writing tol_history[i + r, j + c]>
        j_max = max(j, j_max)
        tol_history[<row>, i + c] = …;  if …: break              # tests of the outer level are opaque
    … tol_history[:i + srow, :max(i, j_max) + scol]
-/
inductive NEv
  | write (roff coff : Int)       -- tol_history[i + roff, j + coff] = x
  | brk (t : Test) (dec : Nat)    -- if <t>: j -= dec; break
deriving DecidableEq, Repr

inductive OEv
  | inner                         -- the inner loop
  | jmax                          -- j_max = max(j, j_max)
  | write (row coff : Int)        -- tol_history[row, i + coff] = x
  | brk                           -- if <opaque>: break   (also the if / elif / else: break of goldindec)
deriving DecidableEq, Repr

structure NestRow where
  key : String
  func : String
  zeroed : Bool
  rows : Int          -- allocation (max_iter_2 + rows, max(max_iter, max_iter_2) + colc)
  colc : Int
  ohi : Int           -- for i in range(max_iter_2 + ohi)
  ihi : Int           -- for j in range(max_iter + ihi)
  ibody : List NEv
  outer : List OEv
  jmax0 : Int
  srow : Int          -- [:i + srow, :max(i, j_max) + scol]
  scol : Int
deriving Repr

structure NRes where
  raised : Bool                  -- a loop variable was unbound when read (NameError): empty range
  writes : List (Int × Int)      -- raw (row, column) indices written
  srow : Int                     -- raw slice bounds
  scol : Int
  steps : Nat                    -- outer steps started
deriving DecidableEq, Repr

/-- the inner body in outer step `a` (loop variable i = a), inner step `k` (j = k) -/
def nbody (tol : Rat) (d : Nat → Nat → Rat) (fl : Nat → Nat → Nat → Bool) (a k : Nat) :
    List NEv → Nat → List (Int × Int) → List (Int × Int) × Option Int
  | [], _, w => (w, none)
  | .write ro co :: es, p, w => nbody tol d fl a k es (p + 1) (w ++ [((a : Int) + ro, (k : Int) + co)])
  | .brk t dec :: es, p, w =>
      if t.fires (decide (d a k < tol)) (fl a k p) then (w, some ((k : Int) - (dec : Int)))
      else nbody tol d fl a k es (p + 1) w

/-- the inner loop; returns the writes and the final value of j -/
def nloop (r : NestRow) (tol : Rat) (d : Nat → Nat → Rat) (fl : Nat → Nat → Nat → Bool) (a : Nat) :
    Nat → Nat → List (Int × Int) → List (Int × Int) × Int
  | 0, k, w => (w, (k : Int) - 1)
  | f + 1, k, w =>
    match nbody tol d fl a k r.ibody 0 w with
    | (w', some j) => (w', j)
    | (w', none) => nloop r tol d fl a f (k + 1) w'

/-- state while an outer body runs: writes, j (none = unbound), j_max -/
structure OSt where
  writes : List (Int × Int)
  j : Option Int
  jmax : Int
  raised : Bool
deriving DecidableEq, Repr

/-- the outer body in outer step `a`; `ofl a p` = the opaque break test at position p; returns the state and whether a break fired -/
def obody (r : NestRow) (m : Nat) (tol : Rat) (d : Nat → Nat → Rat) (fl : Nat → Nat → Nat → Bool) (ofl : Nat → Nat → Bool) (a : Nat) :
    List OEv → Nat → OSt → OSt × Bool
  | [], _, s => (s, false)
  | .inner :: es, p, s =>
      let n := ((m : Int) + r.ihi).toNat
      if n = 0 then obody r m tol d fl ofl a es (p + 1) s     -- empty inner range: j keeps its previous binding (or none)
      else
        let (w', j) := nloop r tol d fl a n 0 s.writes
        obody r m tol d fl ofl a es (p + 1) { s with writes := w', j := some j }
  | .jmax :: es, p, s =>
      match s.j with
      | none => ({ s with raised := true }, true)             -- NameError: j unbound
      | some j => obody r m tol d fl ofl a es (p + 1) { s with jmax := max j s.jmax }
  | .write row co :: es, p, s => obody r m tol d fl ofl a es (p + 1) { s with writes := s.writes ++ [(row, (a : Int) + co)] }
  | .brk :: es, p, s => if ofl a p then (s, true) else obody r m tol d fl ofl a es (p + 1) s

def oloop (r : NestRow) (m : Nat) (tol : Rat) (d : Nat → Nat → Rat) (fl : Nat → Nat → Nat → Bool) (ofl : Nat → Nat → Bool) :
    Nat → Nat → OSt → NRes
  | 0, a, s => ⟨false, s.writes, (a : Int) - 1 + r.srow, max ((a : Int) - 1) s.jmax + r.scol, a⟩
  | f + 1, a, s =>
    match obody r m tol d fl ofl a r.outer 0 s with
    | (s', true) => if s'.raised then ⟨true, s'.writes, 0, 0, a + 1⟩ else ⟨false, s'.writes, (a : Int) + r.srow, max (a : Int) s'.jmax + r.scol, a + 1⟩
    | (s', false) => oloop r m tol d fl ofl f (a + 1) s'

/-- the whole fragment for `max_iter = m`, `max_iter_2 = m2` -/
def nrun (r : NestRow) (m m2 : Nat) (tol : Rat) (d : Nat → Nat → Rat) (fl : Nat → Nat → Nat → Bool) (ofl : Nat → Nat → Bool) : NRes :=
  let n := ((m2 : Int) + r.ohi).toNat
  if n = 0 then ⟨true, [], 0, 0, 0⟩ else oloop r m tol d fl ofl n 0 ⟨[], none, r.jmax0, false⟩

def NestRow.allocRows (r : NestRow) (m2 : Nat) : Int := (m2 : Int) + r.rows
def NestRow.allocCols (r : NestRow) (m m2 : Nat) : Int := max (m : Int) (m2 : Int) + r.colc

/-! ### decidable conditions on a two-level row -/

/-- symbolic pass through the inner body (`wr` = a write has happened in this inner step): a break after the write leaves j alone,
a break before it may step j back by at most one — so that j never ends below the last column written -/
def nbodyOk : List NEv → Bool → Bool
  | [], _ => true
  | .write _ _ :: es, _ => nbodyOk es true
  | .brk _ dec :: es, wr => (if wr then dec == 0 else decide (dec ≤ 1)) && nbodyOk es wr

/-- an inner write `tol_history[i + ro, j + co]` stays inside the allocation and inside the final slice -/
def NEv.inb (r : NestRow) : NEv → Bool
  | .write ro co => decide (0 ≤ ro) && decide (ro + r.ohi ≤ r.rows) && decide (ro < r.srow) &&
                    decide (0 ≤ co) && decide (co + r.ihi ≤ r.colc) && decide (co < r.scol)
  | .brk _ _ => true

/-- what may follow `j_max = max(j, j_max)` in the outer body: writes `tol_history[row, i + co]` inside allocation and slice, opaque breaks -/
def OEv.tailOk (r : NestRow) : OEv → Bool
  | .write row co => decide (0 ≤ row) && decide (row + r.ohi ≤ r.rows) && decide (row < r.srow) &&
                     decide (0 ≤ co) && decide (co + r.ohi ≤ r.colc) && decide (co < r.scol)
  | .brk => true
  | _ => false

def NestRow.tail (r : NestRow) : Option (List OEv) :=
  match r.outer with
  | e1 :: e2 :: tl => if e1 = .inner ∧ e2 = .jmax then some tl else none
  | _ => none

def NestRow.ok (r : NestRow) : Bool :=
  r.zeroed && nbodyOk r.ibody false && r.ibody.all (NEv.inb r) &&
  (match r.tail with | some tl => tl.all (OEv.tailOk r) | none => false) &&
  decide (0 ≤ r.srow) && decide (r.ohi - 1 + r.srow ≤ r.rows) &&
  decide (0 ≤ r.scol) && decide (r.ohi - 1 + r.scol ≤ r.colc) && decide (r.ihi - 1 + r.scol ≤ r.colc) &&
  decide (r.jmax0 + r.scol ≤ r.colc + 1 - r.ihi)

/-! no entry of a two-level record is written twice -/
def NEv.wr? : NEv → Option (Int × Int)
  | .write ro co => some (ro, co)
  | .brk _ _ => none

def OEv.wr? : OEv → Option (Int × Int)
  | .write row co => some (row, co)
  | _ => none

/-- exactly one write in the inner body, at a row offset above every (constant) row the outer body writes to, and the outer body's
writes go to pairwise different rows: then no two writes of a run hit the same entry -/
def NestRow.distinct (r : NestRow) : Bool :=
  match r.ibody.filterMap NEv.wr?, r.tail with
  | [(ro, _)], some tl => ((tl.filterMap OEv.wr?).map (·.1)).Nodup && (tl.filterMap OEv.wr?).all (fun e => decide (e.1 < ro))
  | _, _ => false

end PbVerif.LoopTbl
