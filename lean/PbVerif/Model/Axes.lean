/-! M13 (individual_axes): the planner of `Baseline2D.individual_axes`
(`pybaselines/two_d/optimizers.py:_Optimizers.individual_axes`, `_update_params`): normalisation of `axes`,
pairing of `method_kwargs` with the axes, which coordinate vector each 1-D fitter gets, the order of the 1-D
fits (`np.apply_along_axis`), what each axis is fitted on (`data - baseline` so far) and how the partial
baselines are accumulated.  The 1-D method is a parameter.  Import-free. -/
namespace PbVerif.Axes

abbrev Mat := List (List Rat)

/-- the `axes` argument after `_check_scalar(axes, 2, fill_scalar=False, dtype=int)`: a scalar or a pair -/
inductive AxesArg
  | one (a : Nat)
  | two (a b : Nat)
deriving DecidableEq, Repr

/-- the `method_kwargs` argument: `None`, one dict, or a sequence of dicts (a dict is anything: `α`) -/
inductive KwArg (α : Type)
  | none
  | dict (d : α)
  | seq (l : List α)
deriving Repr

inductive Err | valueError
deriving DecidableEq, Repr

/-- `axes = [axes]` for a scalar; a pair must not name the same axis twice.
(The documented values are 0 and 1; the code does not check them: see `AxisOk`.) -/
def normAxes : AxesArg → Except Err (List Nat)
  | .one a => .ok [a]
  | .two a b => if a = b then .error .valueError else .ok [a, b]

/-- the values of `axes` the documentation allows -/
def AxisOk : AxesArg → Prop
  | .one a => a ≤ 1
  | .two a b => a ≤ 1 ∧ b ≤ 1

/-- the `if / elif` chain that turns `method_kwargs` into one dict per axis (`empty` = `{}`) -/
def pairKwargs {α : Type} (empty : α) (num : Nat) : KwArg α → Except Err (List α)
  | .none => .ok (List.replicate num empty)
  | .dict d => .ok (List.replicate num d)
  | .seq l =>
    if l.length = 0 then .ok (List.replicate num empty)
    else if l.length = 1 then .ok (List.replicate num (l.headD empty))
    else if l.length ≠ num then .error .valueError
    else .ok l

/-- which of the caller's coordinate vectors: `(x, z)[axis]` -/
inductive Coord | x | z
deriving DecidableEq, Repr

structure Step (α : Type) where
  axis : Nat
  /-- the 1-D fitter is `Baseline((x, z)[axis], assume_sorted=…)`, x and z in the CALLER's order -/
  coord : Coord
  /-- `method_kwargs[i]` -/
  kw : α
  /-- `keys[axis]`: results go to `params['params_<key>']`, `params['baseline_<key>']` -/
  key : String
deriving Repr

def coordOf (axis : Nat) : Coord := if axis = 0 then .x else .z
def keyOf (axis : Nat) : String := if axis = 0 then "rows" else "columns"

/-- the plan: one step per requested axis, in the order given, kwargs paired by position -/
def individualAxesPlan {α : Type} (empty : α) (axes : AxesArg) (kw : KwArg α) : Except Err (List (Step α)) :=
  match normAxes axes with
  | .error e => .error e
  | .ok ax =>
    match pairKwargs empty ax.length kw with
    | .error e => .error e
    | .ok kws => .ok ((ax.zip kws).map fun p => ⟨p.1, coordOf p.1, p.2, keyOf p.1⟩)

/-- the 1-D fits of a step on an (M, N) array, in the order made: axis 0 → one fit per column j = 0..N-1
(each of length M), axis 1 → one fit per row i = 0..M-1 -/
def stepFits (m n : Nat) (axis : Nat) : List Nat := List.range (if axis = 0 then n else m)

/-! ### meaning of a plan for an arbitrary 1-D method -/

/-- the 1-D method: coordinates → kwargs → data → baseline -/
abbrev Fit1 (α : Type) := List Rat → α → List Rat → List Rat

def col (A : Mat) (j : Nat) : List Rat := A.map (·.getD j 0)
def ncols (A : Mat) : Nat := (A.headD []).length

/-- `np.apply_along_axis(f, axis, A)` for a 2-D array: the 1-D slices along `axis` are replaced by `f(slice)`;
the length of the output along `axis` is taken from the first result -/
def alongAxis (f : List Rat → List Rat) (axis : Nat) (A : Mat) : Mat :=
  if axis = 0 then
    let outs := (List.range (ncols A)).map fun j => f (col A j)
    (List.range (outs.headD []).length).map fun i => outs.map (·.getD i 0)
  else A.map f

def sub (A B : Mat) : Mat := List.zipWith (List.zipWith (· - ·)) A B
def add (A B : Mat) : Mat := List.zipWith (List.zipWith (· + ·)) A B
def zeros (m n : Nat) : Mat := List.replicate m (List.replicate n 0)

def pick (x z : List Rat) : Coord → List Rat
  | .x => x
  | .z => z

/-- one pass of the loop: `partial = apply_along_axis(func, axis, data - baseline); baseline += partial;
params['baseline_<key>'] = partial` -/
def stepRun {α : Type} (fit : Fit1 α) (x z : List Rat) (data : Mat) (acc : Mat × List (String × Mat)) (s : Step α) :
    Mat × List (String × Mat) :=
  let part := alongAxis (fit (pick x z s.coord) s.kw) s.axis (sub data acc.1)
  (add acc.1 part, acc.2 ++ [(s.key, part)])

def runSteps {α : Type} (fit : Fit1 α) (x z : List Rat) (data : Mat) (steps : List (Step α)) : Mat × List (String × Mat) :=
  steps.foldl (stepRun fit x z data) (zeros data.length (ncols data), [])

/-- `Baseline2D(x, z).individual_axes(data, axes, method, method_kwargs)`: (baseline, [(key, partial baseline)]) -/
def individualAxes {α : Type} (fit : Fit1 α) (empty : α) (x z : List Rat) (data : Mat) (axes : AxesArg) (kw : KwArg α) :
    Except Err (Mat × List (String × Mat)) :=
  match individualAxesPlan empty axes kw with
  | .error e => .error e
  | .ok steps => .ok (runSteps fit x z data steps)

/-- numpy fancy indexing of both axes: `A[p][:, s]` -/
def take2 (p s : List Nat) (A : Mat) : Mat := p.map fun i => s.map fun j => (A.getD i []).getD j 0
def take1 (p : List Nat) (v : List Rat) : List Rat := p.map fun i => v.getD i 0

end PbVerif.Axes
