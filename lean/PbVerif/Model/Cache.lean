/-! M6: the caches of a `Baseline` / `Baseline2D` object, sequential semantics.
State = what `_Algorithm.__init__`, `_register.inner`, `_setup_polynomial`, `_PolyHelper(2D)`,
`_setup_spline` (`SplineBasis.same_basis`) and the `banded_solver` setter read and write.
The Vandermonde of order K restricted to its first k+1 columns is the Vandermonde of order k
(`polyvander` column-prefix law), so a stored 1-D Vandermonde is described by its column count.
Import-free. -/
namespace PbVerif.Cache

/-- `_PolyHelper` -/
structure Poly where
  order : Nat          -- poly_order
  cols : Nat           -- vandermonde.shape[1]; the stored matrix is V(x, cols-1)
  stale : Bool         -- pinv_stale
  pinvCols : Option Nat -- columns of the Vandermonde the cached `_pseudo_inverse` was computed from
deriving DecidableEq, Repr

/-- `_PolyHelper2D`; the stored Vandermonde is the one built for `vKey` -/
structure Poly2 where
  orders : Nat × Nat
  maxCross : Option Nat
  vKey : (Nat × Nat) × Option Nat
  stale : Bool
  pinvKey : Option ((Nat × Nat) × Option Nat)
deriving DecidableEq, Repr

structure St where
  twoD : Bool
  size : Option Nat          -- `_size` (None until the first call of an x-less object); 2-D: M*N abstracted as one number
  xUnique : Bool             -- whether the (given or lazily created) x-values are pairwise distinct
  validated : Bool           -- `_validated_x`
  poly : Option Poly
  poly2 : Option Poly2
  spline : Option (Nat × Nat)  -- key (num_knots, spline_degree) of `_spline_basis` (2-D: an encoded pair of pairs)
  solver : Nat               -- `_banded_solver`
  pentapySolver : Nat        -- `_pentapy_solver`
deriving DecidableEq, Repr

/-- what a call needs from the object beyond `inner`'s checks -/
inductive Kind
  | plain                                         -- touches no cache (Whittaker, morphological, …)
  | poly (k : Nat) (weighted : Bool) (pinv : Bool)  -- `_setup_polynomial(calc_vander=True, calc_pinv=pinv)`
  | polyNoVander                                  -- `_setup_polynomial(calc_vander=False)`
  | poly2 (a b : Nat) (mc : Option Nat) (weighted : Bool) (pinv : Bool)
  | spline (knots deg : Nat) (failAfter : Bool)   -- `_setup_spline(make_basis=True)`; `failAfter`: the call raises
                                                  -- after the basis was cached (e.g. diff_order ≥ number of basis functions)
  | failsInside                                   -- raises inside the method body after `inner`'s checks, before any cache write
deriving DecidableEq, Repr

structure Call where
  len : Nat                 -- length of the data argument
  uniqueX : Bool            -- registered with require_unique_x
  kind : Kind
deriving DecidableEq, Repr

inductive Op
  | call (c : Call)
  | setSolver (v : Nat) (isBool : Bool)   -- `obj.banded_solver = v` (`isBool`: v is True/False)
deriving DecidableEq, Repr

/-- which cached objects a returning call computed from -/
inductive Used
  | none
  | poly (vCols : Nat) (pinvCols : Option Nat)       -- Vandermonde columns used; pinv source (unweighted+pinv only)
  | poly2 (vKey : (Nat × Nat) × Option Nat) (pinvKey : Option ((Nat × Nat) × Option Nat))
  | spline (key : Nat × Nat)
deriving DecidableEq, Repr

inductive Outcome
  | ok (u : Used)
  | lenMismatch
  | nonUniqueX
  | failed            -- the method body raised
  | badSolver
  | solverSet
deriving DecidableEq, Repr

/-- `_PolyHelper.recalc_vandermonde` (also the constructor path, which starts from order -1 / None) -/
def recalc (p : Option Poly) (k : Nat) : Poly :=
  match p with
  | none => { order := k, cols := k + 1, stale := true, pinvCols := none }
  | some p =>
    if k > p.order then { p with order := k, cols := k + 1, stale := true }
    else if k < p.order then { p with order := k, cols := min p.cols (k + 1), stale := true }
    else { p with order := k }

/-- the `pseudo_inverse` property -/
def getPinv (p : Poly) : Poly × Nat :=
  if p.stale || p.pinvCols.isNone then ({ p with pinvCols := some p.cols, stale := false }, p.cols)
  else (p, p.pinvCols.getD 0)

def recalc2 (p : Option Poly2) (o : Nat × Nat) (mc : Option Nat) : Poly2 :=
  match p with
  | none => { orders := o, maxCross := mc, vKey := (o, mc), stale := true, pinvKey := none }
  | some p =>
    if p.maxCross != mc || p.orders != o then
      { p with orders := o, maxCross := mc, vKey := (o, mc), stale := true }
    else { p with orders := o, maxCross := mc }

def getPinv2 (p : Poly2) : Poly2 × ((Nat × Nat) × Option Nat) :=
  if p.stale || p.pinvKey.isNone then ({ p with pinvKey := some p.vKey, stale := false }, p.vKey)
  else (p, p.pinvKey.getD ((0, 0), none))

/-- the body of a registered method as far as the caches are concerned -/
def body (s : St) : Kind → St × Outcome
  | .plain => (s, .ok .none)
  | .failsInside => (s, .failed)
  | .polyNoVander => (s, .ok .none)
  | .poly k weighted pinv =>
    let p := recalc s.poly k
    if !pinv then ({ s with poly := some p }, .ok (.poly p.cols none))
    else if weighted then ({ s with poly := some p }, .ok (.poly p.cols none))
    else
      let (p', src) := getPinv p
      ({ s with poly := some p' }, .ok (.poly p'.cols (some src)))
  | .poly2 a b mc weighted pinv =>
    let p := recalc2 s.poly2 (a, b) mc
    if !pinv then ({ s with poly2 := some p }, .ok (.poly2 p.vKey none))
    else if weighted then ({ s with poly2 := some p }, .ok (.poly2 p.vKey none))
    else
      let (p', src) := getPinv2 p
      ({ s with poly2 := some p' }, .ok (.poly2 p'.vKey (some src)))
  | .spline kn dg failAfter =>
    let key := match s.spline with
      | some key => if key == (kn, dg) then key else (kn, dg)   -- `same_basis`, else rebuild
      | none => (kn, dg)
    ({ s with spline := some key }, if failAfter then .failed else .ok (.spline key))

/-- `_register.inner` followed by the body -/
def callStep (s : St) (c : Call) : St × Outcome :=
  match s.size with
  | none =>
    -- x-less object, first call: x := linspace(-1, 1, len) (pairwise distinct), size := len
    body { s with size := some c.len, xUnique := true } c.kind
  | some n =>
    if c.uniqueX && !s.validated && !s.xUnique then (s, .nonUniqueX)
    else
      let s := if c.uniqueX && !s.validated then { s with validated := true } else s
      if c.len != n then (s, .lenMismatch) else body s c.kind

def step (s : St) : Op → St × Outcome
  | .call c => callStep s c
  | .setSolver v isBool =>
    if isBool || !(v == 1 || v == 2 || v == 3 || v == 4) then (s, .badSolver)
    else ({ s with solver := v, pentapySolver := if v < 3 then v else 1 }, .solverSet)

/-- `Baseline(x_data)` / `Baseline()`; `given = some (n, unique)` for supplied x-values -/
def init (twoD : Bool) (given : Option (Nat × Bool)) : St :=
  { twoD := twoD, size := given.map (·.1), xUnique := (given.map (·.2)).getD true,
    validated := given.isNone, poly := none, poly2 := none, spline := none, solver := 2, pentapySolver := 2 }

def run (s : St) (ops : List Op) : St := ops.foldl (fun s o => (step s o).1) s

/-- the x-values a (possibly lazily initialised) object ends up with, as constructor arguments of
the fresh object it is compared with -/
def xOf (s : St) : Option (Nat × Bool) := s.size.map (fun n => (n, s.xUnique))

/-- the fresh specification: the outcome of `c` on a newly constructed object with the same x -/
def freshOutcome (s : St) (c : Call) : Outcome := (callStep (init s.twoD (xOf s)) c).2

end PbVerif.Cache
