import PbVerif.Model.Whittaker
/-! M6b (C10 / C05): `_numba_banded_dot_banded` — the product of two banded matrices computed directly on the
LAPACK band arrays (used by the banded `beads` implementation) — as coded: three nested loops accumulating
`c[row_c, frame + d_c] += a[row_a, frame] * b[row_b, frame + d_b]` into a zeroed array.  Import-free. -/
namespace PbVerif.BandMul
open PbVerif.Whittaker

abbrev Tbl := List (List Rat)
def tget (t : Tbl) (r c : Nat) : Rat := (t.getD r []).getD c 0
def tadd (t : Tbl) (r c : Nat) (v : Rat) : Tbl := t.modify r fun row => row.modify c (· + v)

/-- Python `range(lo, hi)` over the integers -/
def irange (lo hi : Int) : List Int := (List.range (hi - lo).toNat).map fun (k : Nat) => lo + (k : Int)

/-- the innermost loop for one pair of diagonals (o_c, o_a) -/
def frames (a b : Tbl) (au bu cu : Nat) (n : Nat) (oc oa : Int) (c : Tbl) : Tbl :=
  let ob := oc - oa
  let lo := max 0 (max (-oa) ob)
  let hi := max 0 ((n : Int) + min 0 (min (-oa) ob))
  (irange lo hi).foldl (fun (c : Tbl) (fr : Int) =>
    tadd c ((cu : Int) + oc).toNat (fr - ob).toNat
      (tget a ((au : Int) + oa).toNat fr.toNat * tget b ((bu : Int) + ob).toNat (fr - ob).toNat)) c

/-- `_numba_banded_dot_banded(a, b, c, a_lower, a_upper, b_lower, b_upper, c_upper, diag_length, lower_bound)` on a zeroed `c` -/
def bandMul (a b : Tbl) (al au bl bu cu n : Nat) (rows : Nat) (lowerBound : Nat) : Tbl :=
  let c0 : Tbl := List.replicate rows (List.replicate n 0)
  (irange (-((au + bu : Nat) : Int)) ((lowerBound : Int) + 1)).foldl (fun (c : Tbl) (oc : Int) =>
    (irange (-(min (au : Int) ((bl : Int) - oc))) (min (al : Int) ((bu : Int) + oc) + 1)).foldl
      (fun (c : Tbl) (oa : Int) => frames a b au bu cu n oc oa c) c) c0

/-- entry (i, j) of the matrix a band array with `u` upper and `l` lower diagonals denotes (zero outside the band and the matrix) -/
def den (t : Tbl) (l u n : Nat) (i j : Nat) : Rat :=
  if i < n ∧ j < n ∧ j ≤ i + u ∧ i ≤ j + l then tget t (u + i - j) j else 0

/-- `_banded_dot_banded(..., symmetric_output=False)`: all bands of the product -/
def bandedDotBanded (a b : Tbl) (al au bl bu n : Nat) : Tbl :=
  bandMul a b al au bl bu (au + bu) n (al + bl + au + bu + 1) (al + bl)

/-- the dense product entry -/
def prodAt (a b : Tbl) (al au bl bu n : Nat) (i j : Nat) : Rat :=
  sumL ((List.range n).map fun (k : Nat) => den a al au n i k * den b bl bu n k j)

end PbVerif.BandMul
