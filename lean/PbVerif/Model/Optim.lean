/-! M13: the index plumbing of the optimizer methods (`optimizers.py`): padding / cutting back of
per-point keyword arrays in `optimize_extended_range`, the `np.roll(...)[:added]` selection, the
first-minimum rule, the section plan of `custom_bc`, the edge constraints and the order of the four
fits of `adaptive_minmax`.  Import-free. -/
namespace PbVerif.Optim

inductive Side | left | right | both
deriving DecidableEq, Repr

/-- `np.pad(v, [0 if side == 'right' else k, 0 if side == 'left' else k], constant_values=1)` -/
def padSide (side : Side) (k : Nat) (v : List Rat) : List Rat :=
  (if side = .right then [] else List.replicate k 1) ++ v ++ (if side = .left then [] else List.replicate k 1)

/-- `arr[0 if side == 'right' else k : None if side == 'left' else -k]` (k > 0) -/
def cutBack (side : Side) (k : Nat) (v : List Rat) : List Rat :=
  let lo := if side = .right then 0 else k
  let hi := if side = .left then v.length else v.length - k
  (v.take hi).drop lo

/-- `np.roll(b, shift)[:m]`: element j is `b[(j - shift) mod len]` -/
def rollTake (b : List Rat) (shift m : Nat) : List Rat :=
  (List.range m).map fun (j : Nat) => b.getD ((j + b.length - shift % b.length) % b.length) 0

/-- what `optimize_extended_range` compares with `known_background`:
`np.roll(fit_baseline, upper_bound)[:added_len]` -/
def addedPart (side : Side) (k : Nat) (fitBaseline : List Rat) : List Rat :=
  let upper := if side = .left then 0 else k
  let added := if side = .both then 2 * k else k
  rollTake fitBaseline upper added

/-- index of the first minimum, as the loop `if sum_squares < min_sum_squares: best_idx = i` finds it -/
def argminFirst (l : List Rat) : Nat :=
  ((List.range l.length).foldl (fun (acc : Nat × Option Rat) (i : Nat) =>
    match acc.2 with
    | none => (i, some (l.getD i 0))
    | some m => if l.getD i 0 < m then (i, some (l.getD i 0)) else acc) (0, none)).1

/-- `np.linspace(start, stop, sections + 1, dtype=np.intp)` for integer end points: truncation of the
equally spaced values (exact arithmetic) -/
def sectionIdx (start stop step : Nat) : List Nat :=
  let sections := if (stop - start) / step = 0 then 1 else (stop - start) / step
  (List.range (sections + 1)).map fun (i : Nat) => start + i * (stop - start) / sections

/-- `custom_bc`'s plan for one region list: the (left, right) index pairs that are averaged, and the
mask of points kept as they are -/
structure BcPlan where
  sections : List (Nat × Nat)
  mask : List Bool
deriving Repr

def customBcPlan (n : Nat) (regions : List (Nat × Nat × Nat)) : BcPlan :=
  let st := regions.foldl (fun (acc : List (Nat × Nat) × List Bool × Bool × Bool) (r : Nat × Nat × Nat) =>
    let (start, stop, step) := r
    let idx := sectionIdx start stop step
    let pairs := idx.zip idx.tail
    let inclFirst := acc.2.2.1 && !(pairs.any fun p => p.1 == 0 && p.2 == 1)
    let inclLast := acc.2.2.2 && !(pairs.any fun p => p.2 == n && p.1 + 1 == n)
    let mask := (List.range n).map fun (i : Nat) => if start ≤ i ∧ i < stop then false else acc.2.1.getD i true
    (acc.1 ++ pairs, mask, inclFirst, inclLast)) ([], List.replicate n true, true, true)
  let mask := st.2.1
  let mask := if st.2.2.1 then mask.set 0 true else mask
  let mask := if st.2.2.2 then mask.set (n - 1) true else mask
  { sections := st.1, mask := mask }

/-- `adaptive_minmax`: constrained weights: first `c0` points get `w0`, last `c1` points get `w1` -/
def constrainedWeights (w : List Rat) (c0 c1 : Nat) (w0 w1 : Rat) : List Rat :=
  (List.range w.length).map fun (i : Nat) =>
    if w.length - c1 ≤ i then w1 else if i < c0 then w0 else w.getD i 0

/-- the order of the four fits: `itertools.product(poly_orders, (weights, constrained_weights))` -/
def fourFits (o0 o1 : Nat) : List (Nat × Bool) := [(o0, false), (o0, true), (o1, false), (o1, true)]

/-- `np.maximum.reduce(baselines)` -/
def pointwiseMax (bs : List (List Rat)) : List Rat :=
  match bs with
  | [] => []
  | b :: rest => rest.foldl (fun acc r => List.zipWith max acc r) b

end PbVerif.Optim
