import PbVerif.Model.Weighting
/-! M-WExpr (C09, Route A): a small deep-embedded expression language for the FINAL WEIGHT EXPRESSION of each
rule of `pybaselines/_weighting.py`, as produced by `harness/pbv/translate_weights.py` on every run
(`Gen/WeightExprs.lean`).  `eval` gives an expression its meaning over any number type with `exp`, `sqrt`,
`abs` (`Weighting.Transc`): an ordered field for the theorems (`Lemmas/WExpr.lean`), `Float` for the driver
(`c09.wexpr`).  Import-free (core Lean only). -/
namespace PbVerif.WExpr
open PbVerif.Weighting

/-- integer-valued sub-expressions: literals, the 1-based `iteration` argument, Python's `min` of two integers -/
inductive NExpr where
  | lit (n : Nat)
  | var (name : String)
  | min (a b : NExpr)
deriving Repr, BEq

/-- the translated fragment.  One value per data point: `r` is the point's residual `y - baseline`, `var` a named
scalar argument of the rule (`p`, `k`, `asymmetric_coef`, `quantile`, `eps`), a per-point argument
(`partial_weights`) or a STEP STATISTIC that the hand model also takes as a parameter (`std`, `meanNeg`, `sumNeg`,
`clipMax`, `maxNegW`, `minFloat`). -/
inductive Expr where
  | nat (n : Nat)                    -- integer literal
  | rat (n d : Nat)                  -- decimal literal, exactly `n / d`
  | var (name : String)
  | r
  | ofNat (e : NExpr)                -- an integer expression used as a number
  | add (a b : Expr)
  | sub (a b : Expr)
  | mul (a b : Expr)
  | div (a b : Expr)
  | neg (a : Expr)
  | abs (a : Expr)                   -- `np.abs`
  | sqrt (a : Expr)                  -- `np.sqrt`
  | exp (a : Expr)                   -- `np.exp`
  | expit (a : Expr)                 -- `scipy.special.expit`
  | pow (a : Expr) (e : NExpr)       -- `a ** e` with an integer exponent
  | min (a b : Expr)                 -- Python `min(a, b)`; `np.clip(x, lo, hi)` is `min (max x lo) hi`
  | max (a b : Expr)                 -- Python `max(a, b)`
  | iflt (a b t e : Expr)            -- `np.where(a < b, t, e)` / masked assignment over a default
deriving Repr, BEq

/-- the inputs of one data point: its residual, the named numbers and the named integers -/
structure Env (α : Type) where
  r : α
  s : String → α
  n : String → Nat

def evalN (n : String → Nat) : NExpr → Nat
  | .lit k => k
  | .var x => n x
  | .min a b => min (evalN n a) (evalN n b)          -- Python `min` of two integers

section eval
variable {α : Type} [Add α] [Sub α] [Mul α] [Div α] [Neg α] [OfNat α 1] [NatCast α] [Pow α Nat]
  [LT α] [DecidableLT α] [Transc α]

/-- Python `min(a, b)`: `b` if `b < a` else `a` -/
def pmin (a b : α) : α := if b < a then b else a
/-- Python `max(a, b)`: `b` if `b > a` else `a` -/
def pmax (a b : α) : α := if a < b then b else a

def eval (env : Env α) : Expr → α
  | .nat k => (k : α)
  | .rat k d => (k : α) / (d : α)
  | .var x => env.s x
  | .r => env.r
  | .ofNat e => ((evalN env.n e : Nat) : α)
  | .add a b => eval env a + eval env b
  | .sub a b => eval env a - eval env b
  | .mul a b => eval env a * eval env b
  | .div a b => eval env a / eval env b
  | .neg a => -eval env a
  | .abs a => Transc.abs (eval env a)
  | .sqrt a => Transc.sqrt (eval env a)
  | .exp a => Transc.exp (eval env a)
  | .expit a => Weighting.expit (eval env a)
  | .pow a e => eval env a ^ evalN env.n e
  | .min a b => pmin (eval env a) (eval env b)
  | .max a b => pmax (eval env a) (eval env b)
  | .iflt a b t e => if eval env a < eval env b then eval env t else eval env e

end eval

/-- the named integers / named numbers an expression reads (the driver refuses to evaluate when one is not supplied) -/
def NExpr.vars : NExpr → List String
  | .lit _ => []
  | .var x => [x]
  | .min a b => a.vars ++ b.vars
def Expr.nvars : Expr → List String
  | .ofNat e => e.vars
  | .pow a e => a.nvars ++ e.vars
  | .add a b | .sub a b | .mul a b | .div a b | .min a b | .max a b => a.nvars ++ b.nvars
  | .neg a | .abs a | .sqrt a | .exp a | .expit a => a.nvars
  | .iflt a b t e => a.nvars ++ b.nvars ++ t.nvars ++ e.nvars
  | _ => []
def Expr.vars : Expr → List String
  | .var x => [x]
  | .pow a _ => a.vars
  | .add a b | .sub a b | .mul a b | .div a b | .min a b | .max a b => a.vars ++ b.vars
  | .neg a | .abs a | .sqrt a | .exp a | .expit a => a.vars
  | .iflt a b t e => a.vars ++ b.vars ++ t.vars ++ e.vars
  | _ => []

/-- the driver's evaluation of a translated expression at every point of a residual vector; `pv` are the
per-point named inputs (`partial_weights`), looked up before the scalars -/
def evalFloatVec (e : Expr) (scalars : List (String × Float)) (nats : List (String × Nat))
    (pv : List (String × List Float)) (rs : List Float) : Option (List Float) :=
  if !(e.vars.all fun x => pv.any (·.1 == x) || scalars.any (·.1 == x)) || !(e.nvars.all fun x => nats.any (·.1 == x))
      || pv.any (·.2.length != rs.length) then none else
  let look (i : Nat) (x : String) : Float :=
    match pv.find? (·.1 == x) with
    | some (_, l) => l.getD i (0.0 / 0.0)
    | none => match scalars.find? (·.1 == x) with
      | some (_, v) => v
      | none => 0.0 / 0.0
  let lookN (x : String) : Nat := match nats.find? (·.1 == x) with | some (_, v) => v | none => 0
  some ((rs.zipIdx).map fun (r, i) => eval ⟨r, look i, lookN⟩ e)

end PbVerif.WExpr
