/-! M7 (C04): concurrent calls on one shared fitter object.  A call is a *thread program*: a small-step
machine whose atomic actions are single reads / writes of the fields reachable from the shared object
(`x`, `_size`, `_shape`, `_polynomial` and the helper's four fields, `_spline_basis`), with thread-local
computation in between — the granularity at which CPython can pre-empt.  A *schedule* is the list of
thread indices that take the successive steps.  Import-free. -/
namespace PbVerif.Threads

/-- a protocol over shared state `σ` and thread-local state `τ`: one atomic action per step
(finished threads stutter); `α` labels the action for the access-trace correspondence -/
structure Proto (σ τ α : Type) where
  step : σ → τ → σ × τ × Option α

/-- run a schedule -/
def runSched {σ τ α : Type} (P : Proto σ τ α) : σ → List τ → List Nat → σ × List τ
  | s, ts, [] => (s, ts)
  | s, ts, i :: rest =>
    match ts[i]? with
    | none => runSched P s ts rest
    | some t => let r := P.step s t; runSched P r.1 (ts.set i r.2.1) rest

/-- one thread alone, `fuel` steps: the access trace -/
def soloTrace {σ τ α : Type} (P : Proto σ τ α) : Nat → σ → τ → List α
  | 0, _, _ => []
  | n+1, s, t => let r := P.step s t
    match r.2.2 with
    | some a => a :: soloTrace P n r.1 r.2.1
    | none => soloTrace P n r.1 r.2.1

/-! ## first call on a fitter created without x (`_Algorithm._register.inner`) -/
namespace Lazy1

structure Sh where
  x : Bool        -- `self.x is not None`
  size : Bool     -- `self._size is not None` (the setter stores `__size`, then `_shape`)
  shape : Bool
deriving DecidableEq, Repr

inductive PC | start | w1 | w2 | w3 | use | ok | fail
deriving DecidableEq, Repr

inductive Act | rX | wX | wSize | wShape | rSize
deriving DecidableEq, Repr

/-- `xLast = true`: the repaired order (`_size`, `_shape`, then `x`); `false`: the order before the repair (`x` first) -/
def step (xLast : Bool) (s : Sh) (pc : PC) : Sh × PC × Option Act :=
  match pc with
  | .start => if s.x then (s, .use, some .rX) else (s, .w1, some .rX)
  | .w1 => if xLast then ({ s with size := true }, .w2, some .wSize) else ({ s with x := true }, .w2, some .wX)
  | .w2 => if xLast then ({ s with shape := true }, .w3, some .wShape) else ({ s with size := true }, .w3, some .wSize)
  | .w3 => if xLast then ({ s with x := true }, .ok, some .wX) else ({ s with shape := true }, .ok, some .wShape)
  | .use => if s.size && s.shape then (s, .ok, some .rSize) else (s, .fail, some .rSize)   -- `_check_sized_array(data, self._size)`
  | .ok => (s, .ok, none)
  | .fail => (s, .fail, none)

def proto (xLast : Bool) : Proto Sh PC Act := ⟨step xLast⟩
def init : Sh := ⟨false, false, false⟩

end Lazy1

/-! ## first call on a 2-D fitter created without x and / or z (`_Algorithm2D._register.inner`) -/
namespace Lazy2

structure Sh where
  x : Bool
  z : Bool
  s0 : Bool      -- `_shape[0]` is known
  s1 : Bool      -- `_shape[1]` is known
  size : Bool    -- `_size` is known
deriving DecidableEq, Repr

inductive PC
  | start | rz (hx : Bool) | chk (hx hz : Bool) | argX | argZ | rsh (hx hz : Bool) | wsh (hx hz : Bool) (a b : Bool)
  | rprod (hx hz : Bool) | wsize (hx hz : Bool) (c : Bool) | wz (hx hz : Bool) | wx
  -- the order before the repair
  | oWx0 | oWz0 | oRsx (hz : Bool) | oWsx (hz : Bool) (b : Bool) | oWx (hz : Bool) | oRsz | oWsz (a : Bool) | oWz
  | use | ok | fail
deriving DecidableEq, Repr

inductive Act | rX | rZ | rShape | wShape | wSize | wX | wZ
deriving DecidableEq, Repr

def step (fixed : Bool) (s : Sh) (pc : PC) : Sh × PC × Option Act :=
  match pc with
  | .start => (s, .rz s.x, some .rX)
  | .rz hx => (s, .chk hx s.z, some .rZ)
  | .chk hx hz =>
      if hx || hz then
        -- `_check_sized_array(data, expected_shape)` with the components of `_shape` for the axes that are given
        if (!hx || s.s0) && (!hz || s.s1) then
          (s, if hx && hz then .use else (if fixed then .rsh hx hz else (if hx then .oRsz else .oRsx hz)), some .rShape)
        else (s, .fail, some .rShape)
      else (s, if fixed then .argX else .oWx0, none)
  -- `_yxz_arrays(data, self.x, self.z)` evaluates its arguments
  | .argX => (s, .argZ, some .rX)
  | .argZ => (s, .rsh false false, some .rZ)
  -- repaired: complete shape (the setter stores the tuple, then the size), then z, then x
  | .rsh hx hz => (s, .wsh hx hz (if hx then s.s0 else true) (if hz then s.s1 else true), if hx || hz then some .rShape else none)
  | .wsh hx hz a b => ({ s with s0 := a, s1 := b }, .rprod hx hz, some .wShape)
  | .rprod hx hz => (s, .wsize hx hz (s.s0 && s.s1), some .rShape)
  | .wsize hx hz c => ({ s with size := c }, if hz then .wx else .wz hx hz, some .wSize)
  | .wz hx _ => ({ s with z := true }, if hx then .use else .wx, some .wZ)
  | .wx => ({ s with x := true }, .use, some .wX)
  -- before the repair: `y, self.x, self.z = _yxz_arrays(…)` when neither is given, then each axis' shape entry and array in turn
  | .oWx0 => ({ s with x := true }, .oWz0, some .wX)
  | .oWz0 => ({ s with z := true }, .oRsx false, some .wZ)
  | .oRsx hz => (s, .oWsx hz s.s1, some .rShape)
  | .oWsx hz b => ({ s with s0 := true, s1 := b, size := b }, .oWx hz, some .wShape)
  | .oWx hz => ({ s with x := true }, if hz then .use else .oRsz, some .wX)
  | .oRsz => (s, .oWsz s.s0, some .rShape)
  | .oWsz a => ({ s with s0 := a, s1 := true, size := a }, .oWz, some .wShape)
  | .oWz => ({ s with z := true }, .use, some .wZ)
  -- the method body reads the complete shape and the size
  | .use => (s, if s.s0 && s.s1 && s.size then .ok else .fail, some .rShape)
  | .ok => (s, .ok, none)
  | .fail => (s, .fail, none)

def proto (fixed : Bool) : Proto Sh PC Act := ⟨step fixed⟩
/-- a fitter created with the given axes: their shape entries are known; the size only when both are -/
def init (hasX hasZ : Bool) : Sh := ⟨hasX, hasZ, hasX, hasZ, hasX && hasZ⟩

end Lazy2

/-! ## the Vandermonde / pseudo-inverse cache (`_PolyHelper`, `_setup_polynomial`) -/
namespace Poly

structure Helper where
  v : Option Nat      -- order of the stored Vandermonde (its columns − 1); `none` = `None`
  po : Int            -- `poly_order`
  stale : Bool        -- `pinv_stale`
  pinv : Option Nat   -- order of the Vandermonde the stored pseudo-inverse was computed from
deriving DecidableEq, Repr

structure Sh where
  ref : Option Nat    -- `self._polynomial`: index into the heap of helper objects
  heap : List Helper
deriving DecidableEq, Repr

inductive PC
  | start | publish | bind
  | rV0 (h : Nat) | rPo1 (h : Nat) | rPo2 (h : Nat)
  | upV (h : Nat) | upS (h : Nat)
  | dnR (h : Nat) | dnW (h : Nat) (v : Option Nat) | dnS (h : Nat)
  | setPo (h : Nat)
  | pinvBind | pStale (h : Nat) | pNone (h : Nat) | pReadV (h : Nat) | pWrite (h : Nat) (v : Option Nat) | pClear (h : Nat) | pRet (h : Nat)
  | useBind (left : Nat) | useV (h : Nat) (left : Nat)
  | done | error
deriving DecidableEq, Repr

structure Thr where
  k : Nat                              -- the call's `poly_order`
  calcPinv : Bool                      -- `calc_pinv and weights is None`
  uses : Nat                           -- later reads of `self._polynomial.vandermonde`
  pc : PC
  gotPinv : Option (Option Nat)        -- what the `pseudo_inverse` property returned
  usedOk : Bool                        -- every Vandermonde read for use had exactly k + 1 columns
deriving DecidableEq, Repr

inductive Act | rRef | wRef | rV | wV | rPo | wPo | rStale | wStale | rPinv | wPinv
deriving DecidableEq, Repr

def upd (s : Sh) (h : Nat) (f : Helper → Helper) : Sh := { s with heap := s.heap.modify h f }

def afterSetup (t : Thr) : PC := if t.calcPinv then .pinvBind else .useBind t.uses

def step (s : Sh) (t : Thr) : Sh × Thr × Option Act :=
  let goto (pc : PC) : Thr := { t with pc := pc }
  match t.pc with
  | .start => match s.ref with
      | none => (s, goto .publish, some .rRef)
      | some _ => (s, goto .bind, some .rRef)
  -- `self._polynomial = _PolyHelper(x, domain, k)`: built privately, published by one reference write
  | .publish => ({ ref := some s.heap.length, heap := s.heap ++ [⟨some t.k, t.k, true, none⟩] }, goto (afterSetup t), some .wRef)
  | .bind => match s.ref with
      | some h => (s, goto (.rV0 h), some .rRef)
      | none => (s, goto .error, some .rRef)
  -- `recalc_vandermonde`: `if self.vandermonde is None or poly_order > self.poly_order`
  | .rV0 h => match s.heap[h]? with
      | none => (s, goto .error, none)
      | some H => (s, goto (if H.v.isNone then .upV h else .rPo1 h), some .rV)
  | .rPo1 h => match s.heap[h]? with
      | none => (s, goto .error, none)
      | some H => (s, goto (if (t.k : Int) > H.po then .upV h else .rPo2 h), some .rPo)
  -- `elif poly_order < self.poly_order`
  | .rPo2 h => match s.heap[h]? with
      | none => (s, goto .error, none)
      | some H => (s, goto (if (t.k : Int) < H.po then .dnR h else .setPo h), some .rPo)
  | .upV h => (upd s h fun H => { H with v := some t.k }, goto (.upS h), some .wV)
  | .upS h => (upd s h fun H => { H with stale := true }, goto (.setPo h), some .wStale)
  -- `self.vandermonde = self.vandermonde[:, :poly_order + 1]`
  | .dnR h => match s.heap[h]? with
      | none => (s, goto .error, none)
      | some H => (s, goto (.dnW h H.v), some .rV)
  | .dnW h v => match v with
      | none => (s, goto .error, none)
      | some j => (upd s h fun H => { H with v := some (min j t.k) }, goto (.dnS h), some .wV)
  | .dnS h => (upd s h fun H => { H with stale := true }, goto (.setPo h), some .wStale)
  | .setPo h => (upd s h fun H => { H with po := t.k }, goto (afterSetup t), some .wPo)
  -- `self._polynomial.pseudo_inverse`
  | .pinvBind => match s.ref with
      | some h => (s, goto (.pStale h), some .rRef)
      | none => (s, goto .error, some .rRef)
  | .pStale h => match s.heap[h]? with
      | none => (s, goto .error, none)
      | some H => (s, goto (if H.stale then .pReadV h else .pNone h), some .rStale)
  | .pNone h => match s.heap[h]? with
      | none => (s, goto .error, none)
      | some H => (s, goto (if H.pinv.isNone then .pReadV h else .pRet h), some .rPinv)
  | .pReadV h => match s.heap[h]? with
      | none => (s, goto .error, none)
      | some H => (s, goto (.pWrite h H.v), some .rV)
  | .pWrite h v => match v with
      | none => (s, goto .error, none)
      | some j => (upd s h fun H => { H with pinv := some j }, goto (.pClear h), some .wPinv)
  | .pClear h => (upd s h fun H => { H with stale := false }, goto (.pRet h), some .wStale)
  | .pRet h => match s.heap[h]? with
      | none => (s, goto .error, none)
      | some H => (s, { t with pc := .useBind t.uses, gotPinv := some H.pinv }, some .rPinv)
  -- `self._polynomial.vandermonde @ coef` …
  | .useBind 0 => (s, goto .done, none)
  | .useBind (n+1) => match s.ref with
      | some h => (s, goto (.useV h n), some .rRef)
      | none => (s, goto .error, some .rRef)
  | .useV h n => match s.heap[h]? with
      | none => (s, goto .error, none)
      | some H => (s, { t with pc := .useBind n, usedOk := t.usedOk && decide (H.v = some t.k) }, some .rV)
  | .done => (s, t, none)
  | .error => (s, t, none)

def proto : Proto Sh Thr Act := ⟨step⟩

def thread (k : Nat) (calcPinv : Bool) (uses : Nat) : Thr := ⟨k, calcPinv, uses, .start, none, true⟩
/-- a fitter that has not fitted a polynomial yet -/
def cold : Sh := ⟨none, []⟩
/-- a fitter whose helper was left by a sequential call with order j (pseudo-inverse computed or not) -/
def warm (j : Nat) (pinvDone : Bool) : Sh := ⟨some 0, [⟨some j, j, !pinvDone, if pinvDone then some j else none⟩]⟩

/-- the outcome a call has when it runs alone: no error, every use sees its own order, the pseudo-inverse is its own order's -/
def Thr.serialOutcome (t : Thr) : Prop :=
  t.pc ≠ .error ∧ t.usedOk = true ∧ (t.pc = .done → t.calcPinv = true → t.gotPinv = some (some t.k))

instance (t : Thr) : Decidable t.serialOutcome := by unfold Thr.serialOutcome; infer_instance

end Poly

/-! ## the 2-D Vandermonde / pseudo-inverse cache (`_PolyHelper2D`): keyed by (orders, max_cross) -/
namespace Poly2

/-- parameters are codes: `a` for the pair of polynomial orders, `b` for `max_cross` -/
structure Helper where
  v : Option (Nat × Nat)      -- the (orders, max_cross) the stored Vandermonde was completely built for; `none` = `None`
  po : Nat                    -- `poly_order`
  mc : Nat                    -- `max_cross`
  stale : Bool
  pinv : Option (Nat × Nat)
deriving DecidableEq, Repr

structure Sh where
  ref : Option Nat
  heap : List Helper
deriving DecidableEq, Repr

inductive PC
  | start | publish | bind
  | rV0 (h : Nat) | rMc (h : Nat) | rPo (h : Nat)
  | wStale (h : Nat) | wV (h : Nat)
  | setPo (h : Nat) | setMc (h : Nat)
  | pinvBind | pStale (h : Nat) | pNone (h : Nat) | pReadV (h : Nat) | pWrite (h : Nat) (v : Option (Nat × Nat)) | pClear (h : Nat) | pRet (h : Nat)
  | useBind (left : Nat) | useV (h : Nat) (left : Nat)
  | done | error
deriving DecidableEq, Repr

structure Thr where
  a : Nat
  b : Nat
  calcPinv : Bool
  uses : Nat
  pc : PC
  gotPinv : Option (Option (Nat × Nat))
  usedOk : Bool
deriving DecidableEq, Repr

inductive Act | rRef | wRef | rV | wV | rMc | wMc | rPo | wPo | rStale | wStale | rPinv | wPinv
deriving DecidableEq, Repr

def upd (s : Sh) (h : Nat) (f : Helper → Helper) : Sh := { s with heap := s.heap.modify h f }
def afterSetup (t : Thr) : PC := if t.calcPinv then .pinvBind else .useBind t.uses

def step (s : Sh) (t : Thr) : Sh × Thr × Option Act :=
  let goto (pc : PC) : Thr := { t with pc := pc }
  match t.pc with
  | .start => match s.ref with
      | none => (s, goto .publish, some .rRef)
      | some _ => (s, goto .bind, some .rRef)
  | .publish => ({ ref := some s.heap.length, heap := s.heap ++ [⟨some (t.a, t.b), t.a, t.b, true, none⟩] }, goto (afterSetup t), some .wRef)
  | .bind => match s.ref with
      | some h => (s, goto (.rV0 h), some .rRef)
      | none => (s, goto .error, some .rRef)
  -- `if self.vandermonde is None or self.max_cross != max_cross or np.any(self.poly_order != poly_orders)`
  | .rV0 h => match s.heap[h]? with
      | none => (s, goto .error, none)
      | some H => (s, goto (if H.v.isNone then .wStale h else .rMc h), some .rV)
  | .rMc h => match s.heap[h]? with
      | none => (s, goto .error, none)
      | some H => (s, goto (if H.mc ≠ t.b then .wStale h else .rPo h), some .rMc)
  | .rPo h => match s.heap[h]? with
      | none => (s, goto .error, none)
      | some H => (s, goto (if H.po ≠ t.a then .wStale h else .setPo h), some .rPo)
  -- `self.pinv_stale = True`, then the complete matrix (cross terms already removed) is stored
  | .wStale h => (upd s h fun H => { H with stale := true }, goto (.wV h), some .wStale)
  | .wV h => (upd s h fun H => { H with v := some (t.a, t.b) }, goto (.setPo h), some .wV)
  | .setPo h => (upd s h fun H => { H with po := t.a }, goto (.setMc h), some .wPo)
  | .setMc h => (upd s h fun H => { H with mc := t.b }, goto (afterSetup t), some .wMc)
  | .pinvBind => match s.ref with
      | some h => (s, goto (.pStale h), some .rRef)
      | none => (s, goto .error, some .rRef)
  | .pStale h => match s.heap[h]? with
      | none => (s, goto .error, none)
      | some H => (s, goto (if H.stale then .pReadV h else .pNone h), some .rStale)
  | .pNone h => match s.heap[h]? with
      | none => (s, goto .error, none)
      | some H => (s, goto (if H.pinv.isNone then .pReadV h else .pRet h), some .rPinv)
  | .pReadV h => match s.heap[h]? with
      | none => (s, goto .error, none)
      | some H => (s, goto (.pWrite h H.v), some .rV)
  | .pWrite h v => match v with
      | none => (s, goto .error, none)
      | some j => (upd s h fun H => { H with pinv := some j }, goto (.pClear h), some .wPinv)
  | .pClear h => (upd s h fun H => { H with stale := false }, goto (.pRet h), some .wStale)
  | .pRet h => match s.heap[h]? with
      | none => (s, goto .error, none)
      | some H => (s, { t with pc := .useBind t.uses, gotPinv := some H.pinv }, some .rPinv)
  | .useBind 0 => (s, goto .done, none)
  | .useBind (n+1) => match s.ref with
      | some h => (s, goto (.useV h n), some .rRef)
      | none => (s, goto .error, some .rRef)
  | .useV h n => match s.heap[h]? with
      | none => (s, goto .error, none)
      | some H => (s, { t with pc := .useBind n, usedOk := t.usedOk && decide (H.v = some (t.a, t.b)) }, some .rV)
  | .done => (s, t, none)
  | .error => (s, t, none)

def proto : Proto Sh Thr Act := ⟨step⟩
def thread (a b : Nat) (calcPinv : Bool) (uses : Nat) : Thr := ⟨a, b, calcPinv, uses, .start, none, true⟩
def cold : Sh := ⟨none, []⟩
/-- helper left by a sequential call with parameters (a0, b0) -/
def warm (a0 b0 : Nat) (pinvDone : Bool) : Sh := ⟨some 0, [⟨some (a0, b0), a0, b0, !pinvDone, if pinvDone then some (a0, b0) else none⟩]⟩

def Thr.serialOutcome (t : Thr) : Prop :=
  t.pc ≠ .error ∧ t.usedOk = true ∧ (t.pc = .done → t.calcPinv = true → t.gotPinv = some (some (t.a, t.b)))

instance (t : Thr) : Decidable t.serialOutcome := by unfold Thr.serialOutcome; infer_instance

end Poly2

/-! ## the spline-basis cache (`_setup_spline`): whole-object publication -/
namespace Basis

/-- `_spline_basis`: `none`, or the (num_knots, degree) pair the cached basis was built for -/
structure Sh where
  ref : Option (Nat × Nat)
deriving DecidableEq, Repr

inductive PC | start | same | publish | bind | done (got : Option (Nat × Nat))
deriving DecidableEq, Repr

inductive Act | rRef | wRef
deriving DecidableEq, Repr

/-- a call with parameters `p` -/
def step (p : Nat × Nat) (s : Sh) (pc : PC) : Sh × PC × Option Act :=
  match pc with
  | .start => (s, if s.ref.isNone then .publish else .same, some .rRef)           -- `self._spline_basis is None`
  | .same => (s, if s.ref = some p then .bind else .publish, some .rRef)          -- `not self._spline_basis.same_basis(…)`
  | .publish => (⟨some p⟩, .bind, some .wRef)                                      -- `self._spline_basis = SplineBasis(…)`
  | .bind => (s, .done s.ref, some .rRef)                                          -- `PSpline(self._spline_basis, …)`
  | .done g => (s, .done g, none)

def proto (p : Nat × Nat) : Proto Sh PC Act := ⟨step p⟩

end Basis

/-! ## why the caches are replaced and not updated: a spline basis reset field by field -/
namespace BasisInPlace

/-- the cached basis as two fields: the key it answers to in `same_basis`, and the parameters its design matrix was built for -/
structure Sh where
  key : Nat × Nat
  mat : Nat × Nat
deriving DecidableEq, Repr

inductive PC | same | wKey | wMat | use | done (got : Nat × Nat)
deriving DecidableEq, Repr

inductive Act | rKey | wKey | wMat | rMat
deriving DecidableEq, Repr

/-- a call with parameters `p` on a cache that is updated IN PLACE (key first, then the matrix) -/
def step (p : Nat × Nat) (s : Sh) (pc : PC) : Sh × PC × Option Act :=
  match pc with
  | .same => (s, if s.key = p then .use else .wKey, some .rKey)
  | .wKey => ({ s with key := p }, .wMat, some .wKey)
  | .wMat => ({ s with mat := p }, .use, some .wMat)
  | .use => (s, .done s.mat, some .rMat)
  | .done g => (s, .done g, none)

def proto (p : Nat × Nat) : Proto Sh PC Act := ⟨step p⟩

end BasisInPlace

end PbVerif.Threads
