import PbVerif.Model.Loop
/-! M3 (second part): the reweighting loops WITH their state, over abstract `solve` / `rule`, so that "which weights was the returned
baseline solved with" is a statement about the loop and not a definition.  Three skeletons, as coded:

* `whittaker.py` asls, iasls, airpls, arpls, drpls, iarpls, aspls, psalsa, derpsalsa, lsrpls (and their `spline.py` / `two_d` versions):

      for i in range(budget):
          baseline = solve(state)                              # state = weight_array (aspls: weight_array and alpha_array)
          new_state, exit_early, diff = rule(baseline, i, state)
          if exit_early: break
          tol_history[i] = diff
          if diff < tol: break
          state = new_state
      return baseline, state

* `whittaker.py: brpls` (nested loops, `baseline_weights` tracked explicitly);
* `morphological.py: jbcd` (two solves per pass, two stop criteria, multiplicative parameter updates).

Import-free. -/
namespace PbVerif.Loop

/-- what a run hands back -/
structure Ret (S B : Type) where
  state : S                -- `params['weights']` (and `params['alpha']`)
  base : Option B          -- the returned `baseline`; `none` = no pass was executed (empty `range`)
  len : Nat                -- `len(tol_history)`
  stop : Stop

/-- the single-loop skeleton from pass `k` with `r` passes of budget left -/
def runS {S B : Type} (solve : S → B) (rule : B → Nat → S → S × Bool × Rat) (tol : Rat) : Nat → Nat → S → Option B → Ret S B
  | 0, k, s, b => ⟨s, b, k, .exhausted⟩
  | r+1, k, s, _ =>
    let b := solve s
    let o := rule b k s
    if o.2.1 then ⟨s, some b, k, .early⟩
    else if o.2.2 < tol then ⟨s, some b, k + 1, .converged⟩
    else runS solve rule tol r (k + 1) o.1 (some b)

def run {S B : Type} (solve : S → B) (rule : B → Nat → S → S × Bool × Rat) (tol : Rat) (budget : Nat) (s0 : S) : Ret S B :=
  runS solve rule tol budget 0 s0 none

/-- the iterates: `s_0` the initial state, `s_{k+1} = rule(solve(s_k), k, s_k)` -/
def stateSeq {S B : Type} (solve : S → B) (rule : B → Nat → S → S × Bool × Rat) (s0 : S) : Nat → S
  | 0 => s0
  | k+1 => (rule (solve (stateSeq solve rule s0 k)) k (stateSeq solve rule s0 k)).1

/-- index instantiation (what the driver runs): state `k` stands for `s_k`, baseline `k` for `solve(s_k)`;
`ds k` the recorded difference of pass k, `exit k` whether the rule signalled the early exit in pass k -/
def runIdx (budget : Nat) (tol : Rat) (d : Nat → Rat) (exit : Nat → Bool) : Ret Nat Nat :=
  run (S := Nat) (B := Nat) (fun s => s) (fun _ k _ => (k + 1, exit k, d k)) tol budget 0

/-! ### brpls -/

structure BrSt (W B : Type) where
  wa : W             -- `weight_array`
  b : Option B       -- `baseline` (`none` = still the initial `y`, not the result of a solve)
  bw : W             -- `baseline_weights`

/-- inner loop of pass `i`, `r + 1` passes left, at inner index `j`; returns the state, the last `new_weights`, and whether the
rule signalled the early exit.  `conv old new` stands for `relative_difference(baseline, new_baseline) < tol`. -/
def brInner {W B P : Type} (solve : W → B) (rule : B → P → W × Bool) (conv : Option B → B → Bool) (beta : P) (i : Nat) :
    Nat → Nat → BrSt W B → BrSt W B × W × Bool
  | r, j, s =>
    let nb := solve s.wa
    let o := rule nb beta
    if o.2 then (s, o.1, true)
    else if conv s.b nb then ((if i = 0 ∧ j = 0 then { s with b := some nb } else s), o.1, false)
    else
      let s' : BrSt W B := { wa := o.1, b := some nb, bw := s.wa }
      match r with
      | 0 => (s', o.1, false)
      | r'+1 => brInner solve rule conv beta i r' (j + 1) s'

/-- outer loop, `R + 1` passes left; `crit beta new_weights exited` stands for `abs(beta + mean(w) - 1) < tol_2` (with `tol_2 = inf`
after an early exit), `nextBeta w = 1 - mean(w)` -/
def brOuter {W B P : Type} (solve : W → B) (rule : B → P → W × Bool) (conv : Option B → B → Bool) (crit : P → W → Bool → Bool)
    (nextBeta : W → P) (maxIter : Nat) : Nat → Nat → P → BrSt W B → BrSt W B
  | R, i, beta, s =>
    let q := brInner solve rule conv beta i maxIter 0 s
    let s2 : BrSt W B := { q.1 with wa := q.2.1 }
    if crit beta q.2.1 q.2.2 then s2
    else match R with
      | 0 => s2
      | R'+1 => brOuter solve rule conv crit nextBeta maxIter R' (i + 1) (nextBeta q.2.1) s2

/-- `brpls(max_iter, max_iter_2)` from initial weights `w0` and `beta0 = 0.5`: returns (`baseline`, `baseline_weights`) -/
def brRun {W B P : Type} (solve : W → B) (rule : B → P → W × Bool) (conv : Option B → B → Bool) (crit : P → W → Bool → Bool)
    (nextBeta : W → P) (maxIter maxIter2 : Nat) (beta0 : P) (w0 : W) : Option B × W :=
  let s := brOuter solve rule conv crit nextBeta maxIter maxIter2 0 beta0 { wa := w0, b := none, bw := w0 }
  (s.b, s.bw)

/-- index instantiation: every solve uses the latest rule output, so weights `t` = the weights of the t-th solve, baseline `t` its result;
`inner t` ∈ {0 continue, 1 converged, 2 early exit} is what happened after solve t, `outer t` whether the outer loop stops when the
weights after the inner loop are those produced by solve `t - 1` -/
def brIdx (maxIter maxIter2 : Nat) (inner : Nat → Nat) (outer : Nat → Bool) : Option Nat × Nat :=
  brRun (W := Nat) (B := Nat) (P := Unit) (fun w => w) (fun b _ => (b + 1, inner b == 2)) (fun _ nb => inner nb == 1)
    (fun _ w _ => outer w) (fun _ => ()) maxIter maxIter2 () 0

/-! ### jbcd -/

structure JbSt (Sg V P : Type) where
  sOld : Sg
  vOld : V
  gamma : P
  beta : P

/-- `jbcd`: each pass solves the signal from `(gamma, baseline_old)`, then the baseline from `(beta, signal)`;
`crit` = both relative changes below their tolerances.  Returns (baseline, signal, parameters of the last pass, number of passes, reason). -/
def jbRun {Sg V P : Type} (solveS : P → V → Sg) (solveB : P → Sg → V) (crit : Sg → Sg → V → V → Bool) (gm bm : P → P) :
    Nat → Nat → JbSt Sg V P → Option (V × Sg × P × P) → Option (V × Sg × P × P) × Nat × Stop
  | 0, k, _, last => (last, k, .exhausted)
  | r+1, k, s, _ =>
    let sg := solveS s.gamma s.vOld
    let v := solveB s.beta sg
    if crit s.sOld sg s.vOld v then (some (v, sg, s.gamma, s.beta), k + 1, .converged)
    else jbRun solveS solveB crit gm bm r (k + 1) { sOld := sg, vOld := v, gamma := gm s.gamma, beta := bm s.beta }
      (some (v, sg, s.gamma, s.beta))

/-- index instantiation: signal / baseline `k` = those of pass k -/
def jbIdx (budget : Nat) (stopAt : Nat → Bool) : Option (Nat × Nat × Nat × Nat) × Nat × Stop :=
  jbRun (Sg := Nat) (V := Nat) (P := Nat) (fun g _ => g) (fun b _ => b) (fun _ sg _ _ => stopAt sg) (· + 1) (· + 1)
    budget 0 { sOld := 0, vOld := 0, gamma := 0, beta := 0 } none

end PbVerif.Loop
