import PbVerif.Model.BandMul
/-! M14 (continued): index models of the remaining JIT kernels — `misc._numba_banded_dot_banded`,
`spline._quadratic_bezier(_spline)`, `utils._interp_inplace`, `polynomial._loess_solver` — and of the
integer logic of their Python callers (`misc._banded_dot_banded`, `misc._banded_beads`, `np.flatnonzero`
in `spline.corner_cutting`, `polynomial._fill_skips`, the three loess loop kernels, `loess`'s
`total_points` guards, `_spline_knots`, `peak_filling`, `_padded_rolling_std`).
Indices are `Int` so that a negative or too large index is visible.  Mathlib-free. -/
namespace PbVerif.Kernels
open PbVerif.BandMul

/-! ### NumPy / Numba basic slices -/

/-- NumPy's normalisation of one slice bound on an axis of length `n`: a negative bound counts from the
end, then the bound is clipped into `[0, n]` -/
def normIdx (i : Int) (n : Nat) : Int :=
  let j := if i < 0 then i + (n : Int) else i
  max 0 (min j (n : Int))

/-- number of elements of `a[start:stop]` (step 1) on an axis of length `n` -/
def sliceLen (start stop : Int) (n : Nat) : Nat := (normIdx stop n - normIdx start n).toNat

/-! ### `_numba_banded_dot_banded` (misc.py) -/

/-- one execution of the innermost statement
`c[row_c, frame + d_c] += a[row_a, frame + d_a] * b[row_b, frame + d_b]` -/
structure BandAcc where
  ra : Int
  ca : Int
  rb : Int
  cb : Int
  rc : Int
  cc : Int
deriving Repr, DecidableEq

/-- every (row, column) used on `a`, `b`, `c` by
`_numba_banded_dot_banded(a, b, c, a_lower, a_upper, b_lower, b_upper, c_upper, diag_length, lower_bound)`,
in execution order; the three `range`s are those of the source (the same `irange`s as the value model
`BandMul.bandMul`, but WITHOUT the `toNat` clamps) -/
def bandDotIdx (al au bl bu : Nat) (cu : Int) (n lb : Nat) : List BandAcc :=
  (irange (-((au + bu : Nat) : Int)) ((lb : Int) + 1)).flatMap fun (oc : Int) =>
    (irange (-(min (au : Int) ((bl : Int) - oc))) (min (al : Int) ((bu : Int) + oc) + 1)).flatMap fun (oa : Int) =>
      let ob := oc - oa
      (irange (max 0 (max (-oa) ob)) (max 0 ((n : Int) + min 0 (min (-oa) ob)))).map fun (fr : Int) =>
        { ra := (au : Int) + oa, ca := fr, rb := (bu : Int) + ob, cb := fr - ob, rc := cu + oc, cc := fr - ob }

/-- the kernel's precondition on its arguments: `a : rowsA × colsA`, `b : rowsB × colsB`, `c : rowsC × colsC` -/
structure BandPre (rowsA colsA rowsB colsB rowsC colsC al au bl bu : Nat) (cu : Int) (n lb : Nat) : Prop where
  ha : al + au + 1 ≤ rowsA
  hb : bl + bu + 1 ≤ rowsB
  hca : n ≤ colsA
  hcb : n ≤ colsB
  hcc : n ≤ colsC
  hcu : min ((au + bu : Nat) : Int) ((n : Int) - 1) ≤ cu
  hrc : cu + min (lb : Int) ((n : Int) - 1) + 1 ≤ (rowsC : Int)

instance (rowsA colsA rowsB colsB rowsC colsC al au bl bu : Nat) (cu : Int) (n lb : Nat) :
    Decidable (BandPre rowsA colsA rowsB colsB rowsC colsC al au bl bu cu n lb) :=
  decidable_of_iff (al + au + 1 ≤ rowsA ∧ bl + bu + 1 ≤ rowsB ∧ n ≤ colsA ∧ n ≤ colsB ∧ n ≤ colsC ∧
      min ((au + bu : Nat) : Int) ((n : Int) - 1) ≤ cu ∧ cu + min (lb : Int) ((n : Int) - 1) + 1 ≤ (rowsC : Int))
    ⟨fun ⟨a, b, c, d, e, f, g⟩ => ⟨a, b, c, d, e, f, g⟩, fun ⟨a, b, c, d, e, f, g⟩ => ⟨a, b, c, d, e, f, g⟩⟩

def BandAcc.InB (rowsA colsA rowsB colsB rowsC colsC : Nat) (t : BandAcc) : Prop :=
  0 ≤ t.ra ∧ t.ra < rowsA ∧ 0 ≤ t.ca ∧ t.ca < colsA ∧ 0 ≤ t.rb ∧ t.rb < rowsB ∧ 0 ≤ t.cb ∧ t.cb < colsB ∧
  0 ≤ t.rc ∧ t.rc < rowsC ∧ 0 ≤ t.cc ∧ t.cc < colsC

/-- what the Python wrapper `_banded_dot_banded(a, b, a_lu, b_lu, a_full_shape, b_full_shape, symmetric_output)`
computes before the kernel call: `(c_upper, c_lower, lower_bound)`; the output is allocated with
`c_lower + c_upper + 1` rows and `a.shape[1]` columns -/
def bdbArgs (al au bl bu : Nat) (fullA0 fullB1 : Int) (sym : Bool) : Int × Int × Nat :=
  (min ((au + bu : Nat) : Int) (fullB1 - 1), min ((al + bl : Nat) : Int) (fullA0 - 1), if sym then 0 else al + bl)

/-- rows of the output array of `_banded_dot_banded` (`np.zeros` raises for a negative dimension) -/
def bdbRows (al au bl bu : Nat) (fullA0 fullB1 : Int) : Int :=
  (bdbArgs al au bl bu fullA0 fullB1 false).2.1 + (bdbArgs al au bl bu fullA0 fullB1 false).1 + 1

/-! ### `_quadratic_bezier_spline` (spline.py) -/

/-- the accesses of `_quadratic_bezier_spline(x, y, indices)`, raw (un-normalised) values -/
inductive Ev where
  /-- `indices[p]` -/
  | ix (p : Int)
  /-- `x[i]` -/
  | x (i : Int)
  /-- `y[i]` -/
  | y (i : Int)
  /-- the read slice `x[lo:hi]` -/
  | xs (lo hi : Int)
  /-- the slice assignment `output[lo:hi] = …` (right-hand side computed from `x[lo:hi]`) -/
  | os (lo hi : Int)
  /-- `np.argmin(np.abs(x[lo:hi] - …))`: the slice must not be empty -/
  | am (lo hi : Int)
deriving Repr, DecidableEq

/-- in bounds without any wrap-around or clipping (`indices` positions may be negative, as written in the source) -/
def Ev.Ok (N ny M : Nat) : Ev → Prop
  | .ix p => -(M : Int) ≤ p ∧ p < M
  | .x i => 0 ≤ i ∧ i < N
  | .y i => 0 ≤ i ∧ i < ny
  | .xs lo hi => 0 ≤ lo ∧ lo ≤ hi ∧ hi ≤ N
  | .os lo hi => 0 ≤ lo ∧ lo ≤ hi ∧ hi ≤ N
  | .am lo hi => 0 ≤ lo ∧ lo < hi ∧ hi ≤ N

instance (N ny M : Nat) (e : Ev) : Decidable (e.Ok N ny M) := by
  cases e <;> unfold Ev.Ok <;> infer_instance

/-- `indices[p]` with NumPy's wrap-around of a negative position (the position itself is recorded as an
`Ev.ix` event and proved in range, so the default is never what is read) -/
def ixGet (ix : List Int) (p : Int) : Int :=
  if p < 0 then ix.getD ((ix.length : Int) + p).toNat 0 else ix.getD p.toNat 0

/-- `center_idx + np.argmin(np.abs(x[center_idx:next_idx + 1] - …))` for `center_idx = indices[j]`,
`next_idx = indices[j+1]`; `am (j-1)` is the (arbitrary) outcome of the `j`-th `argmin`, which NumPy
guarantees to be a position inside the (non-empty) slice -/
def bezRight (N : Nat) (ix : List Int) (am : Nat → Nat) (j : Nat) : Int :=
  let c := ixGet ix j
  let nx := ixGet ix ((j : Int) + 1)
  c + ((am (j - 1) % sliceLen c (nx + 1) N : Nat) : Int)

/-- first segment (`center_idx = indices[1]`, `next_idx = indices[2]`) -/
def bezFirst (N : Nat) (ix : List Int) (am : Nat → Nat) : List Ev :=
  let c := ixGet ix 1
  let nx := ixGet ix 2
  let i0 := ixGet ix 0
  let r := bezRight N ix am 1
  [.ix 1, .ix 2, .ix 0, .x i0, .x c, .am c (nx + 1), .x nx, .x r, .ix 0, .y i0, .y c, .y nx, .x nx,
   .xs 0 (nx + 1), .os 0 (nx + 1)]

/-- loop body for `i = j`, `center_idx = indices[j]` (`2 ≤ j ≤ M - 3`); `eq j` is the outcome of
`right_x - left_x == 0` -/
def bezIter (N : Nat) (ix : List Int) (am : Nat → Nat) (eq : Nat → Bool) (j : Nat) : List Ev :=
  let c := ixGet ix j
  let nx := ixGet ix ((j : Int) + 1)
  let l := bezRight N ix am (j - 1)
  let r := bezRight N ix am j
  [.ix ((j : Int) + 1), .x c, .am c (nx + 1), .x nx, .x r] ++
    (if eq j then [] else [.y c, .y nx, .x nx, .xs l (r + 1), .os l (r + 1)])

/-- last segment -/
def bezLast (N : Nat) (ix : List Int) (am : Nat → Nat) : List Ev :=
  let r := bezRight N ix am (ix.length - 3)
  [.ix (-2), .y (ixGet ix (-2)), .ix (-1), .y (ixGet ix (-1)), .xs r N, .ix (-1), .x (ixGet ix (-1)), .os r N]

/-- `np.argmin` of an empty array raises `ValueError`: nothing after it is executed (the read `x[next_idx]` that
follows the slice in the trace is part of `argmin`'s argument and is evaluated before the call) -/
def cutAtEmpty (N : Nat) : List Ev → List Ev
  | [] => []
  | .am lo hi :: t => if sliceLen lo hi N = 0 then .am lo hi :: t.take 1 else .am lo hi :: cutAtEmpty N t
  | e :: t => e :: cutAtEmpty N t

/-- `_quadratic_bezier_spline(x, y, indices)` with `N = len(x)`, `ny = len(y)`, `M = len(indices)`:
the two `ValueError` guards, the 2/3 point special cases, and the general spline -/
def bezierTrace (N ny : Nat) (ix : List Int) (am : Nat → Nat) (eq : Nat → Bool) : List Ev :=
  let M := ix.length
  if N ≠ ny then [] else
  if M < 2 then [] else
  if M < 4 then
    let l := ixGet ix 0
    let r := ixGet ix (-1)
    [.ix 0, .ix (-1), .x l, .x r, .y l, .y r] ++ (if M = 2 then [] else [.ix 1, .y (ixGet ix 1)])
  else
    cutAtEmpty N (bezFirst N ix am ++
      ((List.range (M - 4)).flatMap fun (k : Nat) => bezIter N ix am eq (k + 2)) ++ bezLast N ix am)

/-- precondition: every control index is a valid position of `x`, and they are non-decreasing -/
structure BezPre (N : Nat) (ix : List Int) : Prop where
  inb : ∀ p, p < ix.length → 0 ≤ ix.getD p 0 ∧ ix.getD p 0 < N
  mono : ∀ p, p + 1 < ix.length → ix.getD p 0 ≤ ix.getD (p + 1) 0

/-- executable form of `BezPre` (`bezPreB_iff`), used by the pre-monitor of the harness -/
def bezPreB (N : Nat) (ix : List Int) : Bool :=
  ((List.range ix.length).all fun p => decide (0 ≤ ix.getD p 0) && decide (ix.getD p 0 < (N : Int))) &&
  ((List.range (ix.length - 1)).all fun p => decide (ix.getD p 0 ≤ ix.getD (p + 1) 0))

/-- `np.flatnonzero(mask)` -/
def flatnonzero (mask : List Bool) : List Int :=
  ((List.range mask.length).filter fun (i : Nat) => mask.getD i false).map fun (i : Nat) => (i : Int)

/-- `_quadratic_bezier(y_points, t)` reads `y_points[0]`, `y_points[1]`, `y_points[2]` of the 3-element list
both call sites build -/
def quadBezierIdx : List Int := [0, 1, 2]

/-! ### `_interp_inplace` (utils.py) and `_fill_skips` (polynomial.py) -/

/-- scalar indices `_interp_inplace(x, y, y_start, y_end)` uses on `x`, in evaluation order of
`y[1:-1] = y_start + (x[1:-1] - x[0]) * ((y_end - y_start) / (x[-1] - x[0]))` -/
def interpScalarIdx : List Int := [0, -1, 0]

/-- lengths of the two slices of the slice assignment: `(len(y[1:-1]), len(x[1:-1]))` -/
def interpSliceLens (nx ny : Nat) : Nat × Nat := (sliceLen 1 (-1) ny, sliceLen 1 (-1) nx)

/-- `_fill_skips(x, baseline, skips)` for one row `(left, right)` of `skips`: the scalar reads
`baseline[left]`, `baseline[right - 1]` and the lengths of `x[left:right]`, `baseline[left:right]` handed to `_interp_inplace` -/
def fillSkipsCall (nx nb : Nat) (left right : Int) : List Int × Nat × Nat :=
  ([left, right - 1], sliceLen left right nx, sliceLen left right nb)

/-! ### the other caller of `_interp_inplace`: `classification._averaged_interp` / `_find_peak_segments` -/

/-- `_find_peak_segments(mask)` before the in-place adjustments, read left to right:
`peak_starts = flatnonzero(ext[1:-1] < ext[:-2])`, `peak_ends = flatnonzero(ext[1:-1] < ext[2:])` for
`ext = [True] + mask + [True]`; `prevT` is the entry before (True at the left edge), `off` the position -/
def peakSegs (prevT : Bool) (off : Nat) : List Bool → List Nat × List Nat
  | [] => ([], [])
  | m :: rest =>
    let r := peakSegs m (off + 1) rest
    (if !m && prevT then off :: r.1 else r.1, if !m && rest.headD true then off :: r.2 else r.2)

/-- `if len(peak_starts): peak_starts[1 if peak_starts[0] == 0 else 0:] -= 1` -/
def adjStarts : List Nat → List Int
  | [] => []
  | s0 :: t => if s0 = 0 then (0 : Int) :: t.map (fun (p : Nat) => (p : Int) - 1) else (s0 :: t).map (fun (p : Nat) => (p : Int) - 1)

/-- `if len(peak_ends): peak_ends[:-1 if peak_ends[-1] == mask.shape[0] - 1 else None] += 1` -/
def adjEnds (N : Nat) (E : List Nat) : List Int :=
  match E.getLast? with
  | none => []
  | some last =>
    if (last : Int) = (N : Int) - 1 then E.dropLast.map (fun (e : Nat) => (e : Int) + 1) ++ [(last : Int)]
    else E.map (fun (e : Nat) => (e : Int) + 1)

/-- the `(start, end)` pairs `_averaged_interp` loops over (`zip(peak_starts, peak_ends)`); each gives the call
`_interp_inplace(x[start:end + 1], output[start:end + 1], …)` -/
def averagedInterpCalls (mask : List Bool) : List (Int × Int) :=
  (adjStarts (peakSegs true 0 mask).1).zip (adjEnds mask.length (peakSegs true 0 mask).2)

/-! ### `_loess_solver` (polynomial.py) and the three loess loop kernels -/

/-- `np.linalg.solve(AT.dot(AT.T), AT.dot(b))` for `AT : m × w`, `b : wb`: `AT.dot(AT.T)` is `m × m` for every
shape, `AT.dot(b)` needs `w = wb` (Numba raises `ValueError` otherwise); the result has length `m`.
`none` = shape error. -/
def loessSolverShape (m w wb : Nat) : Option Nat := if w = wb then some m else none

/-- index pairs read by the two products, written as loops: `AT[i,k]·AT[j,k]` and `AT[i,k]·b[k]` -/
def loessSolverIdx (m w : Nat) : List (Nat × Nat) × List Nat :=
  ((List.range m).flatMap fun i => (List.range w).map fun k => (i, k),
   (List.range m).flatMap fun _ => List.range w)

/-- one pass of the loop body of `_loess_low_memory` / `_loess_first_loop` / `_loess_nonfirst_loops` for the
fit point `i` with window `(left, right)`, `N` points, `po + 1` polynomial coefficients, `kernels : N × tp`:
the scalar indices used — `x[i]`, `difference[0]`, `difference[-1]` (on the slice of length `wlen`),
`vander[i]`, `baseline[i]`, `coefs[i]`, `kernels[i]` — and the shapes handed to `_loess_solver`:
`kernel * vander_fit[:, left:right]` is `(po+1) × wlen` (broadcast needs `len(kernel) = wlen`), `kernel * y_fit[left:right]` -/
structure LoessIter where
  wlen : Nat            -- len(x[left:right]) = len(vander_fit[:, left:right][r]) = len(y_fit[left:right])
  rowIdx : Int          -- the index `i` used on x, vander, baseline, coefs, kernels
  diffIdx : List Int    -- `difference[0]`, `difference[-1]`
  kernelLen : Nat       -- length of `kernel` (first loop / low memory: wlen; non-first loops: tp, a row of `kernels`)
  solver : Option Nat   -- `_loess_solver` shape outcome
deriving Repr

def loessIter (N po tp : Nat) (cached : Bool) (i left right : Int) : LoessIter :=
  let wlen := sliceLen left right N
  let klen := if cached then tp else wlen
  { wlen := wlen, rowIdx := i, diffIdx := [0, -1], kernelLen := klen,
    solver := if klen = wlen then loessSolverShape (po + 1) wlen wlen else none }

/-- the guards of `_Polynomial.loess` on `total_points` (an `int`; `ceil(fraction * N)` when not given) after
`_setup_polynomial` has rejected a negative `poly_order`: `true` = the call goes on to the kernels -/
def loessGuards (N : Nat) (tp po : Int) : Bool :=
  !(tp < po + 1) && !(tp > (N : Int)) && !(po < 0)

/-! ### remaining callers -/

/-- `peak_filling` (smooth.py), scalar `sections`: the guard `1 ≤ sections ≤ N` (or the default `N // 10`),
`len(y_truncated) = sections + left_pad + right_pad`, `half_win ≥ 1` from `_setup_smooth`
(`max(1, …)` / `_check_half_window(allow_zero=False)`), clipped to `(sections - 1) // 2`; returns
`(len(y_truncated), data_len, first half window)` as passed to `_directional_min_moving_avg` -/
def peakFillingArgs (sections : Int) (leftPad rightPad : Nat) (halfWin : Int) : Int × Int × Int :=
  let hw := if halfWin > (sections - 1) / 2 then (sections - 1) / 2 else halfWin
  (sections + leftPad + rightPad, sections, hw)

/-- `np.pad(data, half_window, 'reflect')` in `_padded_rolling_std`: length of the padded data
(`np.pad` raises `ValueError` for a negative width and for empty data) -/
def paddedLen (n : Nat) (hw : Int) : Option Int := if hw < 0 ∨ n = 0 then none else some ((n : Int) + 2 * hw)

end PbVerif.Kernels
