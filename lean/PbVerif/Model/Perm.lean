/-! M1/M2: the sorting layer of `_Algorithm` / `_Algorithm2D`
(`utils._determine_sorts`, `_inverted_sort`, `_sort_array`, `_sort_array2d`, `_register.inner`,
`_return_results`).  Import-free so that the compiled driver can run it. -/
namespace PbVerif.Perm

/-- numpy fancy indexing `a[idx]` (the default is never used when every index is in range) -/
def takeL {α} (a : List α) (d : α) (idx : List Nat) : List α := idx.map (fun i => a.getD i d)

/-- `inv = np.empty(n); inv[σ[:k]] = arange(k)` -/
def scatterUpTo (σ : List Nat) : Nat → List Nat
  | 0 => List.replicate σ.length 0
  | k+1 => (scatterUpTo σ k).set (σ.getD k 0) k

/-- `utils._inverted_sort` -/
def invertedSort (σ : List Nat) : List Nat := scatterUpTo σ σ.length

/-- stable insertion: a new (key, index) pair goes after every pair whose key is ≤ its key -/
def insertP (p : Rat × Nat) : List (Rat × Nat) → List (Rat × Nat)
  | [] => [p]
  | q :: t => if p.1 < q.1 then p :: q :: t else q :: insertP p t

/-- `data.argsort(kind='mergesort')`: the stable sorting permutation (the stable sort of a list is
unique, so a structurally recursive insertion sort — which the kernel can evaluate — defines the
same function as NumPy's merge sort) -/
def argsort (x : List Rat) : List Nat :=
  ((x.zipIdx).foldl (fun acc p => insertP p acc) []).map (·.2)

/-- `(sort_order[1:] > sort_order[:-1]).all()` -/
def strictlyIncreasing : List Nat → Bool
  | a :: b :: t => decide (a < b) && strictlyIncreasing (b :: t)
  | _ => true

/-- `utils._determine_sorts`: `(None, None)` when the stable sort order is the identity -/
def determineSorts (x : List Rat) : Option (List Nat × List Nat) :=
  let σ := argsort x
  if strictlyIncreasing σ then none else some (σ, invertedSort σ)

/-- `utils._sort_array` on a 1-D array -/
def sortArray {α} (a : List α) (d : α) : Option (List Nat) → List α
  | none => a
  | some σ => takeL a d σ

/-- what `Baseline(x).method(y, weights=w)` does around an arbitrary `core`:
sort x at construction, sort y (and w when given) on the way in, apply the inverse order to the
baseline and to every per-point output on the way out. `core` receives the sorted arrays. -/
def run1d (core : List Rat → List Rat → Option (List Rat) → List Rat × List (List Rat))
    (x y : List Rat) (w : Option (List Rat)) : List Rat × List (List Rat) :=
  match determineSorts x with
  | none => core x y w
  | some (σ, inv) =>
    let r := core (takeL x 0 σ) (takeL y 0 σ) (w.map (takeL · 0 σ))
    (takeL r.1 0 inv, r.2.map (takeL · 0 inv))

/-! 2-D: `_sort_order` is `x_order`, `(..., z_order)` or `(x_order[:, None], z_order[None, :])` -/
def sort2d (m : List (List Rat)) (σx σz : Option (List Nat)) : List (List Rat) :=
  (sortArray m [] σx).map (fun row => sortArray row 0 σz)

def run2d (core : List Rat → List Rat → List (List Rat) → Option (List (List Rat)) →
      List (List Rat) × List (List (List Rat)))
    (x z : List Rat) (y : List (List Rat)) (w : Option (List (List Rat))) :
    List (List Rat) × List (List (List Rat)) :=
  let sx := determineSorts x
  let sz := determineSorts z
  let r := core (sortArray x 0 (sx.map (·.1))) (sortArray z 0 (sz.map (·.1)))
              (sort2d y (sx.map (·.1)) (sz.map (·.1))) (w.map (sort2d · (sx.map (·.1)) (sz.map (·.1))))
  (sort2d r.1 (sx.map (·.2)) (sz.map (·.2)), r.2.map (sort2d · (sx.map (·.2)) (sz.map (·.2))))

/-- `optimize_extended_range`: the sort order of the extended x built from the old one.
side 0 = both, 1 = left, 2 = right; `k` points are added on each used side. The code keeps the
original block's order (shifted) and prepends/appends the new indices, which are already sorted. -/
def extendSortOrder (σ : List Nat) (side k : Nat) : List Nat :=
  let n := σ.length
  match side with
  | 1 => (List.range k) ++ σ.map (· + k)
  | 2 => σ ++ (List.range k).map (· + n)
  | _ => (List.range k) ++ σ.map (· + k) ++ (List.range k).map (· + (n + k))

end PbVerif.Perm
