/-! M12: array algebra of the 2-D systems (`two_d/_whittaker_utils.py`, `two_d/_spline_utils.py`):
face-splitting products, the reshape/transposes that turn `G_r' W G_c` into `B'WB`, right-hand side,
reconstruction `B_r C B_c'`, the eigenvalue penalty.  Matrices are lists of rows over `Rat`.  Import-free. -/
namespace PbVerif.Kron

def sumL (l : List Rat) : Rat := l.foldl (· + ·) 0
abbrev Mat := List (List Rat)
def Mat.at (m : Mat) (i j : Nat) : Rat := (m.getD i []).getD j 0
def Mat.ncols (m : Mat) : Nat := (m.getD 0 []).length

/-- `_face_splitting(B)`: `G[m, i·a + j] = B[m,i]·B[m,j]` (a = number of columns of B) -/
def faceSplit (B : Mat) : Mat :=
  B.map fun row => (List.range (row.length * row.length)).map fun (p : Nat) =>
    row.getD (p / row.length) 0 * row.getD (p % row.length) 0

/-- `G_r.T @ W @ G_c`, entry (p, q) -/
def gwg (Br Bc W : Mat) (p q : Nat) : Rat :=
  let Gr := faceSplit Br
  let Gc := faceSplit Bc
  sumL ((List.range Br.length).map fun (m : Nat) => sumL ((List.range Bc.length).map fun (n : Nat) =>
    Gr.at m p * W.at m n * Gc.at n q))

/-- `_make_btwb`: `transpose(reshape(G_r'WG_c, (a,a,b,b)), [0,2,1,3]).reshape(ab, ab)`, entry (r, c):
r = i·b + k, c = j·b + l ↦ element [i, j, k, l] of the 4-D array = entry (i·a + j, k·b + l) of `G_r'WG_c` -/
def makeBtwb (Br Bc W : Mat) (r c : Nat) : Rat :=
  let a := Br.ncols
  let b := Bc.ncols
  gwg Br Bc W ((r / b) * a + c / b) ((r % b) * b + c % b)

/-- entry ((m,n), r) of the Kronecker product `B_r ⊗ B_c` with row-major (m·N + n) rows and (i·b + k) columns -/
def kronAt (Br Bc : Mat) (m n r : Nat) : Rat := Br.at m (r / Bc.ncols) * Bc.at n (r % Bc.ncols)

/-- `(B_r ⊗ B_c)' diag(vec W) (B_r ⊗ B_c)`, entry (r, c) -/
def kronBtwb (Br Bc W : Mat) (r c : Nat) : Rat :=
  sumL ((List.range Br.length).map fun (m : Nat) => sumL ((List.range Bc.length).map fun (n : Nat) =>
    kronAt Br Bc m n r * W.at m n * kronAt Br Bc m n c))

/-- `(B_r.T @ (W*Y) @ B_c).ravel()`, entry r -/
def rhsCode (Br Bc WY : Mat) (r : Nat) : Rat :=
  let b := Bc.ncols
  sumL ((List.range Br.length).map fun (m : Nat) => sumL ((List.range Bc.length).map fun (n : Nat) =>
    Br.at m (r / b) * WY.at m n * Bc.at n (r % b)))
def kronRhs (Br Bc WY : Mat) (r : Nat) : Rat :=
  sumL ((List.range Br.length).map fun (m : Nat) => sumL ((List.range Bc.length).map fun (n : Nat) =>
    kronAt Br Bc m n r * WY.at m n))

/-- `B_r @ C @ B_c.T` with `C = coef.reshape(a, b)`, entry (m, n) -/
def reconstruct (Br Bc : Mat) (coef : List Rat) (m n : Nat) : Rat :=
  let a := Br.ncols
  let b := Bc.ncols
  sumL ((List.range a).map fun (i : Nat) => sumL ((List.range b).map fun (k : Nat) =>
    Br.at m i * coef.getD (i * b + k) 0 * Bc.at n k))
def kronApply (Br Bc : Mat) (coef : List Rat) (m n : Nat) : Rat :=
  sumL ((List.range (Br.ncols * Bc.ncols)).map fun (r : Nat) => kronAt Br Bc m n r * coef.getD r 0)

/-- `np.repeat(lam_r·Λ_r, b) + np.tile(lam_c·Λ_c, a)`, entry r = i·b + k -/
def eigPenalty (lamr lamc : Rat) (er ec : List Rat) (r : Nat) : Rat :=
  let b := ec.length
  (List.flatten (er.map fun v => List.replicate b (lamr * v))).getD r 0 +
  (List.flatten (List.replicate er.length (ec.map (lamc * ·)))).getD r 0

end PbVerif.Kron
