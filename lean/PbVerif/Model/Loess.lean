/-! M10: `polynomial._determine_fits` (window / fit / skip selection of LOESS), `_fill_skips`,
`_interp_inplace`.  Generic in the outcome of the float comparisons, so that the index bounds hold
for arbitrary data; instantiated with exact rational comparisons for the value theorems.
Import-free. -/
namespace PbVerif.Loess

/-- the three data-dependent tests of `_determine_fits` -/
structure Oracle where
  /-- `x[i+1] < x[lastFit] + delta` (skip point i) -/
  skip : (i lastFit : Nat) → Bool
  /-- `x[i] - x[left] > x[right] - x[i]` (advance the window) -/
  adv : (i left right : Nat) → Bool
  /-- `x[-1] - x[-2] < x[-2] - x[N - total_points]` (special case for the second to last point) -/
  tail : Bool

structure St where
  fits : List Nat
  windows : List (Int × Int)
  skips : List (Nat × Nat)
  skipStart : Nat
  lastFit : Nat
  left : Nat
  right : Nat
deriving Repr

/-- `while right < num_x and adv: left += 1; right += 1` -/
def advance (o : Oracle) (n i : Nat) : Nat → Nat → Nat → Nat × Nat
  | 0, l, r => (l, r)
  | f+1, l, r => if r < n ∧ o.adv i l r then advance o n i f (l + 1) (r + 1) else (l, r)

/-- one iteration `i` (1 ≤ i ≤ N-2) of the main loop -/
def iter (o : Oracle) (n : Nat) (check : Bool) (s : St) (i : Nat) : St :=
  if check && o.skip i s.lastFit then
    { s with skipStart := if s.skipStart = 0 then i else s.skipStart }     -- `continue`
  else
    let s1 : St :=
      if check then
        { s with lastFit := i,
                 skips := if s.skipStart ≠ 0 then s.skips ++ [(s.skipStart - 1, i + 1)] else s.skips,
                 skipStart := 0 }
      else s
    let lr := advance o n i n s1.left s1.right
    { s1 with fits := s1.fits ++ [i], windows := s1.windows ++ [((lr.1 : Int), (lr.2 : Int))],
              left := lr.1, right := lr.2 }

/-- `_determine_fits(x, num_x, total_points, delta)`: returns (windows, fits, skips).
`check` = `delta > 0`. (For `delta ≤ 0` the code pre-fills `fits = arange(N)`; the loop then visits
every index, so appending gives the same list.) -/
def determineFits (o : Oracle) (n tp : Nat) (check : Bool) : List (Int × Int) × List Nat × List (Nat × Nat) :=
  let s0 : St := { fits := [0], windows := [(0, (tp : Int))], skips := [], skipStart := 0, lastFit := 0,
                   left := 0, right := tp }
  let s := ((List.range (n - 2)).map (· + 1)).foldl (iter o n check) s0
  let s :=
    if s.skipStart ≠ 0 then
      let w : Int × Int :=
        if n = tp ∨ o.tail then (((n - tp : Nat) : Int), (n : Int))
        else (((n : Int) - (tp : Int) - 1), ((n : Int) - 1))
      { s with fits := s.fits ++ [n - 2], windows := s.windows ++ [w],
               skips := s.skips ++ [(s.skipStart - 1, n - 1)] }
    else s
  let s := if n > 1 then { s with fits := s.fits ++ [n - 1], windows := s.windows ++ [(((n - tp : Nat) : Int), (n : Int))] } else s
  (s.windows, s.fits, s.skips)

/-- the oracle of the real comparisons on exact x-values -/
def realOracle (x : List Rat) (tp : Nat) (delta : Rat) : Oracle :=
  let g := fun i => x.getD i 0
  let n := x.length
  { skip := fun i lastFit => decide (g (i + 1) < g lastFit + delta),
    adv := fun i l r => decide (g i - g l > g r - g i),
    tail := decide (g (n - 1) - g (n - 2) < g (n - 2) - g (n - tp)) }

def determineFitsX (x : List Rat) (tp : Nat) (delta : Rat) :=
  determineFits (realOracle x tp delta) x.length tp (decide (delta > 0))

/-- `_fill_skips` + `_interp_inplace`: points strictly inside each skip range `[l, r)` are put on the
chord through `(x[l], b[l])` and `(x[r-1], b[r-1])` -/
def fillSkips (x b : List Rat) (skips : List (Nat × Nat)) : List Rat :=
  skips.foldl (fun b (l, r) =>
    let x0 := x.getD l 0
    let x1 := x.getD (r - 1) 0
    let y0 := b.getD l 0
    let y1 := b.getD (r - 1) 0
    (List.range b.length).map fun k =>
      if l < k ∧ k + 1 < r then y0 + (x.getD k 0 - x0) * ((y1 - y0) / (x1 - x0)) else b.getD k 0) b

end PbVerif.Loess
