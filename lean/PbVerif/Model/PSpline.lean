import PbVerif.Model.BSpline
import PbVerif.Model.Whittaker
/-! M5/M4 (C07): the penalised-spline linear system `(B'WB + λ D'D) c = B'W y` as `PSpline.solve_pspline`
assembles it in lower banded storage (`_add_diagonals` pads the array with fewer rows), the iasls
extra terms, and the exact residual of a coefficient vector against the DOCUMENTED system built from
the definition of B-splines.  Import-free. -/
namespace PbVerif.PSpline
open PbVerif.BSpline PbVerif.Whittaker PbVerif.Banded

/-- `_add_diagonals(a, b, lower_only=True)`: the array with fewer rows is padded with zero rows below -/
def addDiagonalsLower (a b : List (List Rat)) (n : Nat) : List (List Rat) :=
  let k := max a.length b.length
  addB (padLower a (k - a.length) n) (padLower b (k - b.length) n)

/-- the lower bands handed to the solver: `B'WB` (deg+1 rows) + `λ·D'D` (d+1 rows) on `nb` basis functions -/
def asmPspline (deg nb d : Nat) (lam : Rat) (rows : List Row) (ys ws : List Rat) : List (List Rat) × List Rat :=
  let r := btbBty deg nb rows ys ws
  (addDiagonalsLower r.1 (scale lam (bandsQ nb d true)) nb, r.2)

/-- documented matrix `B'WB + λ D'D`, entry (i, j) -/
def docPspline (deg nb d : Nat) (lam : Rat) (rows : List Row) (ws : List Rat) (i j : Nat) : Rat :=
  btbSpec deg rows ws (max i j - min i j) (min i j) + lam * dtdQ nb d i j

/-- dense `(B'WB)[i,j] = Σ_k w_k B[k,i] B[k,j]` -/
def btwbAt (deg : Nat) (rows : List Row) (ws : List Rat) (i j : Nat) : Rat :=
  sumL ((rows.zip ws).map fun (p : Row × Rat) => p.2 * p.1.at deg i * p.1.at deg j)

/-- `B c` at every data point -/
def applyB (deg : Nat) (rows : List Row) (c : List Rat) : List Rat :=
  rows.map fun r => sumL ((List.range (deg + 1)).map fun (t : Nat) => r.vals.getD t 0 * c.getD (r.left - deg + t) 0)

/-- `_basis_midpoints(knots, spline_degree)`: the centre of every basis function's support -/
def basisMidpoints (knots : List Rat) (deg : Nat) : List Rat :=
  if deg % 2 = 1 then (knots.take (knots.length - (deg - deg / 2))).drop (1 + deg / 2)
  else
    let mids := List.zipWith (fun a b => (a + b) / 2) (knots.drop 1) knots
    (mids.take (mids.length - deg / 2)).drop (deg / 2)

/-- `np.interp(t, xs, vs)` for increasing `xs`: piecewise linear, clamped at both ends -/
def npInterp (xs vs : List Rat) (t : Rat) : Rat :=
  let n := xs.length
  if n = 0 then 0
  else if t ≤ xs.getD 0 0 then vs.getD 0 0
  else if xs.getD (n - 1) 0 ≤ t then vs.getD (n - 1) 0
  else
    -- last j with xs[j] ≤ t
    let j := (List.range n).foldl (fun (acc j : Nat) => if xs.getD j 0 ≤ t then j else acc) 0
    let x0 := xs.getD j 0
    let x1 := xs.getD (j + 1) 0
    vs.getD j 0 + (t - x0) * (vs.getD (j + 1) 0 - vs.getD j 0) / (x1 - x0)

/-- row scaling of the `λ D'D` penalty: ones (kind 0 std, 1 iasls), `1 − η·w̃` (kind 2, drpls), `α̃` (kind 3, aspls),
where `˜` is interpolation at the basis midpoints -/
def rowScale (kind : Nat) (p1 : Rat) (knots xs ws aux : List Rat) (deg nb : Nat) : List Rat :=
  if kind = 2 then (basisMidpoints knots deg).map fun t => 1 - p1 * npInterp xs ws t
  else if kind = 3 then (basisMidpoints knots deg).map fun t => npInterp xs aux t
  else List.replicate nb 1

/-- exact normwise backward error pieces of a coefficient vector against the documented system
`(B'WB + S·λ D'D + E) c = B'W y + e`:
kind 0: `S = I`, no extras; kind 1 (iasls): `W → W²`, `E = λ₁ B'D₁'D₁B`, `e = λ₁ B'D₁'D₁ y`;
kind 2 (drpls): `S = I − η W̃`, `E = D₁'D₁` (on the coefficients); kind 3 (aspls): `S = diag(α̃)` -/
def backwardErrorP (deg d : Nat) (lam p1 : Rat) (kind : Nat) (knots xs ys ws aux c : List Rat) : Rat × Rat :=
  let iasls := kind == 1
  let nb := knots.length - (deg + 1)
  let rows := designRows knots deg xs
  let w2 := if iasls then ws.map (fun v => v * v) else ws
  let n := xs.length
  let bc := applyB deg rows c
  let wbc := List.zipWith (· * ·) w2 bc
  let t1 := if iasls then (d1y bc).map (p1 * ·) else List.replicate n 0
  let inner := List.zipWith (· + ·) wbc t1
  let bt := fun (v : List Rat) => (List.range nb).map fun (j : Nat) =>
    sumL ((rows.zip v).map fun (p : Row × Rat) => p.1.at deg j * p.2)
  let sc := rowScale kind p1 knots xs ws aux deg nb
  let pen := fun (i j : Nat) => sc.getD i 0 * lam * dtdFastQ nb d i j + (if kind = 2 then dtdFastQ nb 1 i j else 0)
  let ac := List.zipWith (· + ·) (bt inner) (applyBanded pen nb d c)
  let rhs := bt (List.zipWith (· + ·) (List.zipWith (· * ·) w2 ys) (if iasls then (d1y ys).map (p1 * ·) else List.replicate n 0))
  let resid := maxL ((List.zipWith (· - ·) ac rhs).map absQ)
  -- ‖B'WB‖∞ = max_j Σ_k w_k B[k,j] exactly (B ≥ 0 with unit row sums, W ≥ 0)
  let colw := bt (w2.map absQ)
  let colb := maxL (bt (List.replicate n 1))
  let anorm := maxL ((List.range nb).map fun (j : Nat) => colw.getD j 0) + maxL (rowAbsSums pen nb d) +
      (if iasls then 4 * absQ p1 * colb else 0)
  (resid, anorm * maxL (c.map absQ) + maxL (rhs.map absQ))

/-! ### 2-D: `B = B_r ⊗ B_c`, coefficients as an `nbr × nbc` matrix -/

abbrev MatQ := List (List Rat)
def MatQ.at (m : MatQ) (i j : Nat) : Rat := (m.getD i []).getD j 0

/-- `B_r C B_c'` (the surface on the data grid) -/
def applyB2 (degR degC : Nat) (rowsR rowsC : List Row) (C : MatQ) : MatQ :=
  let T : MatQ := C.map fun (ci : List Rat) => applyB degC rowsC ci          -- C B_c' : nbr × n
  rowsR.map fun (r : Row) => (List.range rowsC.length).map fun (l : Nat) =>
    sumL ((List.range (degR + 1)).map fun (s : Nat) => r.vals.getD s 0 * MatQ.at T (r.left - degR + s) l)

/-- `B_r' V B_c` (nbr × nbc) -/
def btVB (degR degC nbr nbc : Nat) (rowsR rowsC : List Row) (V : MatQ) : MatQ :=
  let U : MatQ := V.map fun (vk : List Rat) => (List.range nbc).map fun (j : Nat) =>
    sumL ((rowsC.zip vk).map fun (p : Row × Rat) => p.1.at degC j * p.2)          -- V B_c : m × nbc
  (List.range nbr).map fun (i : Nat) => (List.range nbc).map fun (j : Nat) =>
    sumL ((rowsR.zip U).map fun (p : Row × List Rat) => p.1.at degR i * p.2.getD j 0)

def hadamard (a b : MatQ) : MatQ := List.zipWith (List.zipWith (· * ·)) a b
def maxM (m : MatQ) : Rat := maxL (m.map fun r => maxL (r.map absQ))

def transposeQ (m : MatQ) (ncols : Nat) : MatQ := (List.range ncols).map fun (j : Nat) => m.map fun r => r.getD j 0
def addM (a b : MatQ) : MatQ := List.zipWith (List.zipWith (· + ·)) a b
def scaleM (c : Rat) (a : MatQ) : MatQ := a.map fun r => r.map (c * ·)

/-- `(λ_r D₁'D₁ ⊗ I + I ⊗ λ_c D₁'D₁)` applied to an m × n grid (first-order penalty of 2-D iasls on the data grid) -/
def p1Apply (lamR lamC : Rat) (Z : MatQ) (n : Nat) : MatQ :=
  let alongRows := transposeQ ((transposeQ Z n).map d1y) Z.length     -- D₁'D₁ Z (acts on the row index)
  let alongCols := Z.map d1y                                           -- Z D₁'D₁ (acts on the column index)
  addM (scaleM lamR alongRows) (scaleM lamC alongCols)

/-- exact normwise backward error pieces of a coefficient matrix against
`(B'WB + λ_r D_r'D_r ⊗ I + I ⊗ λ_c D_c'D_c) vec C = B'W vec Y` with `B = B_r ⊗ B_c`;
with `iasls`: `W → W²`, plus `B'P₁B` on the left and `B'P₁ vec Y` on the right -/
def backwardErrorP2 (degR degC dR dC : Nat) (lamR lamC : Rat) (iasls : Bool) (lam1R lam1C : Rat)
    (knotsR knotsC xs zs : List Rat) (Y W C : MatQ) : Rat × Rat :=
  let nbr := knotsR.length - (degR + 1)
  let nbc := knotsC.length - (degC + 1)
  let rowsR := designRows knotsR degR xs
  let rowsC := designRows knotsC degC zs
  let n := zs.length
  let W2 := if iasls then hadamard W W else W
  let Z := applyB2 degR degC rowsR rowsC C
  let inner := if iasls then addM (hadamard W2 Z) (p1Apply lam1R lam1C Z n) else hadamard W2 Z
  let G := btVB degR degC nbr nbc rowsR rowsC inner
  let rin := if iasls then addM (hadamard W2 Y) (p1Apply lam1R lam1C Y n) else hadamard W2 Y
  let rhs := btVB degR degC nbr nbc rowsR rowsC rin
  let pen : MatQ := (List.range nbr).map fun (i : Nat) => (List.range nbc).map fun (j : Nat) =>
    lamR * sumL ((List.range (2 * dR + 1)).map fun (t : Nat) =>
      if i + t < dR then 0 else let i' := i + t - dR; if i' < nbr then dtdFastQ nbr dR i i' * MatQ.at C i' j else 0) +
    lamC * sumL ((List.range (2 * dC + 1)).map fun (t : Nat) =>
      if j + t < dC then 0 else let j' := j + t - dC; if j' < nbc then dtdFastQ nbc dC j j' * MatQ.at C i j' else 0)
  let resid := maxM (List.zipWith (List.zipWith (· - ·)) (List.zipWith (List.zipWith (· + ·)) G pen) rhs)
  let colw := btVB degR degC nbr nbc rowsR rowsC (W2.map fun r => r.map absQ)
  let ones : MatQ := W.map fun r => r.map fun _ => 1
  let colb := maxM (btVB degR degC nbr nbc rowsR rowsC ones)
  let anorm := maxM colw + absQ lamR * maxL (rowAbsSums (fun i j => dtdFastQ nbr dR i j) nbr dR) +
    absQ lamC * maxL (rowAbsSums (fun i j => dtdFastQ nbc dC i j) nbc dC) +
    (if iasls then 4 * (absQ lam1R + absQ lam1C) * colb else 0)
  (resid, anorm * maxM C + maxM rhs)

end PbVerif.PSpline
