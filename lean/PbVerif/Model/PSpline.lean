import PbVerif.Model.BSpline
import PbVerif.Model.Whittaker
/-! M5/M4 (C07): the penalised-spline linear system `(B'WB + λ D'D) c = B'W y` as `PSpline.solve_pspline`
assembles it in lower banded storage (`_add_diagonals` pads the array with fewer rows), the iasls
extra terms, and the exact residual of a coefficient vector against the DOCUMENTED system built from
the definition of B-splines.  Import-free. -/
namespace PbVerif.PSpline
open PbVerif.BSpline PbVerif.Whittaker PbVerif.Banded

/-- `_add_diagonals(a, b, lower_only=True)`: the array with fewer rows is padded with zero rows below -/
def addDiagonalsLower (a b : List (List Rat)) (n : Nat) : List (List Rat) :=
  let k := max a.length b.length
  addB (padLower a (k - a.length) n) (padLower b (k - b.length) n)

/-- the lower bands handed to the solver: `B'WB` (deg+1 rows) + `λ·D'D` (d+1 rows) on `nb` basis functions -/
def asmPspline (deg nb d : Nat) (lam : Rat) (rows : List Row) (ys ws : List Rat) : List (List Rat) × List Rat :=
  let r := btbBty deg nb rows ys ws
  (addDiagonalsLower r.1 (scale lam (bandsQ nb d true)) nb, r.2)

/-- documented matrix `B'WB + λ D'D`, entry (i, j) -/
def docPspline (deg nb d : Nat) (lam : Rat) (rows : List Row) (ws : List Rat) (i j : Nat) : Rat :=
  btbSpec deg rows ws (max i j - min i j) (min i j) + lam * dtdQ nb d i j

/-- dense `(B'WB)[i,j] = Σ_k w_k B[k,i] B[k,j]` -/
def btwbAt (deg : Nat) (rows : List Row) (ws : List Rat) (i j : Nat) : Rat :=
  sumL ((rows.zip ws).map fun (p : Row × Rat) => p.2 * p.1.at deg i * p.1.at deg j)

/-- `B c` at every data point -/
def applyB (deg : Nat) (rows : List Row) (c : List Rat) : List Rat :=
  rows.map fun r => sumL ((List.range (deg + 1)).map fun (t : Nat) => r.vals.getD t 0 * c.getD (r.left - deg + t) 0)

/-- `_basis_midpoints(knots, spline_degree)`: the centre of every basis function's support -/
def basisMidpoints (knots : List Rat) (deg : Nat) : List Rat :=
  if deg % 2 = 1 then (knots.take (knots.length - (deg - deg / 2))).drop (1 + deg / 2)
  else
    let mids := List.zipWith (fun a b => (a + b) / 2) (knots.drop 1) knots
    (mids.take (mids.length - deg / 2)).drop (deg / 2)

/-- `np.interp(t, xs, vs)` for increasing `xs`: piecewise linear, clamped at both ends -/
def npInterp (xs vs : List Rat) (t : Rat) : Rat :=
  let n := xs.length
  if n = 0 then 0
  else if t ≤ xs.getD 0 0 then vs.getD 0 0
  else if xs.getD (n - 1) 0 ≤ t then vs.getD (n - 1) 0
  else
    -- last j with xs[j] ≤ t
    let j := (List.range n).foldl (fun (acc j : Nat) => if xs.getD j 0 ≤ t then j else acc) 0
    let x0 := xs.getD j 0
    let x1 := xs.getD (j + 1) 0
    vs.getD j 0 + (t - x0) * (vs.getD (j + 1) 0 - vs.getD j 0) / (x1 - x0)

/-- row scaling of the `λ D'D` penalty: ones (kind 0 std, 1 iasls), `1 − η·w̃` (kind 2, drpls), `α̃` (kind 3, aspls),
where `˜` is interpolation at the basis midpoints -/
def rowScale (kind : Nat) (p1 : Rat) (knots xs ws aux : List Rat) (deg nb : Nat) : List Rat :=
  if kind = 2 then (basisMidpoints knots deg).map fun t => 1 - p1 * npInterp xs ws t
  else if kind = 3 then (basisMidpoints knots deg).map fun t => npInterp xs aux t
  else List.replicate nb 1

/-- exact normwise backward error pieces of a coefficient vector against the documented system
`(B'WB + S·λ D'D + E) c = B'W y + e`:
kind 0: `S = I`, no extras; kind 1 (iasls): `W → W²`, `E = λ₁ B'D₁'D₁B`, `e = λ₁ B'D₁'D₁ y`;
kind 2 (drpls): `S = I − η W̃`, `E = D₁'D₁` (on the coefficients); kind 3 (aspls): `S = diag(α̃)` -/
def backwardErrorP (deg d : Nat) (lam p1 : Rat) (kind : Nat) (knots xs ys ws aux c : List Rat) : Rat × Rat :=
  let iasls := kind == 1
  let nb := knots.length - (deg + 1)
  let rows := designRows knots deg xs
  let w2 := if iasls then ws.map (fun v => v * v) else ws
  let n := xs.length
  let bc := applyB deg rows c
  let wbc := List.zipWith (· * ·) w2 bc
  let t1 := if iasls then (d1y bc).map (p1 * ·) else List.replicate n 0
  let inner := List.zipWith (· + ·) wbc t1
  let bt := fun (v : List Rat) => (List.range nb).map fun (j : Nat) =>
    sumL ((rows.zip v).map fun (p : Row × Rat) => p.1.at deg j * p.2)
  let sc := rowScale kind p1 knots xs ws aux deg nb
  let pen := fun (i j : Nat) => sc.getD i 0 * lam * dtdFastQ nb d i j + (if kind = 2 then dtdFastQ nb 1 i j else 0)
  let ac := List.zipWith (· + ·) (bt inner) (applyBanded pen nb d c)
  let rhs := bt (List.zipWith (· + ·) (List.zipWith (· * ·) w2 ys) (if iasls then (d1y ys).map (p1 * ·) else List.replicate n 0))
  let resid := maxL ((List.zipWith (· - ·) ac rhs).map absQ)
  -- ‖B'WB‖∞ = max_j Σ_k w_k B[k,j] exactly (B ≥ 0 with unit row sums, W ≥ 0)
  let colw := bt (w2.map absQ)
  let colb := maxL (bt (List.replicate n 1))
  let anorm := maxL ((List.range nb).map fun (j : Nat) => colw.getD j 0) + maxL (rowAbsSums pen nb d) +
      (if iasls then 4 * absQ p1 * colb else 0)
  (resid, anorm * maxL (c.map absQ) + maxL (rhs.map absQ))

/-! ### 2-D: `B = B_r ⊗ B_c`, coefficients as an `nbr × nbc` matrix -/

abbrev MatQ := List (List Rat)
def MatQ.at (m : MatQ) (i j : Nat) : Rat := (m.getD i []).getD j 0

/-- `B_r C B_c'` (the surface on the data grid) -/
def applyB2 (degR degC : Nat) (rowsR rowsC : List Row) (C : MatQ) : MatQ :=
  let T : MatQ := C.map fun (ci : List Rat) => applyB degC rowsC ci          -- C B_c' : nbr × n
  rowsR.map fun (r : Row) => (List.range rowsC.length).map fun (l : Nat) =>
    sumL ((List.range (degR + 1)).map fun (s : Nat) => r.vals.getD s 0 * MatQ.at T (r.left - degR + s) l)

/-- `B_r' V B_c` (nbr × nbc) -/
def btVB (degR degC nbr nbc : Nat) (rowsR rowsC : List Row) (V : MatQ) : MatQ :=
  let U : MatQ := V.map fun (vk : List Rat) => (List.range nbc).map fun (j : Nat) =>
    sumL ((rowsC.zip vk).map fun (p : Row × Rat) => p.1.at degC j * p.2)          -- V B_c : m × nbc
  (List.range nbr).map fun (i : Nat) => (List.range nbc).map fun (j : Nat) =>
    sumL ((rowsR.zip U).map fun (p : Row × List Rat) => p.1.at degR i * p.2.getD j 0)

def hadamard (a b : MatQ) : MatQ := List.zipWith (List.zipWith (· * ·)) a b
def maxM (m : MatQ) : Rat := maxL (m.map fun r => maxL (r.map absQ))

def transposeQ (m : MatQ) (ncols : Nat) : MatQ := (List.range ncols).map fun (j : Nat) => m.map fun r => r.getD j 0
def addM (a b : MatQ) : MatQ := List.zipWith (List.zipWith (· + ·)) a b
def scaleM (c : Rat) (a : MatQ) : MatQ := a.map fun r => r.map (c * ·)

/-- `(λ_r D₁'D₁ ⊗ I + I ⊗ λ_c D₁'D₁)` applied to an m × n grid (first-order penalty of 2-D iasls on the data grid) -/
def p1Apply (lamR lamC : Rat) (Z : MatQ) (n : Nat) : MatQ :=
  let alongRows := transposeQ ((transposeQ Z n).map d1y) Z.length     -- D₁'D₁ Z (acts on the row index)
  let alongCols := Z.map d1y                                           -- Z D₁'D₁ (acts on the column index)
  addM (scaleM lamR alongRows) (scaleM lamC alongCols)

/-- exact normwise backward error pieces of a coefficient matrix against
`(B'WB + λ_r D_r'D_r ⊗ I + I ⊗ λ_c D_c'D_c) vec C = B'W vec Y` with `B = B_r ⊗ B_c`;
with `iasls`: `W → W²`, plus `B'P₁B` on the left and `B'P₁ vec Y` on the right -/
def backwardErrorP2 (degR degC dR dC : Nat) (lamR lamC : Rat) (iasls : Bool) (lam1R lam1C : Rat)
    (knotsR knotsC xs zs : List Rat) (Y W C : MatQ) : Rat × Rat :=
  let nbr := knotsR.length - (degR + 1)
  let nbc := knotsC.length - (degC + 1)
  let rowsR := designRows knotsR degR xs
  let rowsC := designRows knotsC degC zs
  let n := zs.length
  let W2 := if iasls then hadamard W W else W
  let Z := applyB2 degR degC rowsR rowsC C
  let inner := if iasls then addM (hadamard W2 Z) (p1Apply lam1R lam1C Z n) else hadamard W2 Z
  let G := btVB degR degC nbr nbc rowsR rowsC inner
  let rin := if iasls then addM (hadamard W2 Y) (p1Apply lam1R lam1C Y n) else hadamard W2 Y
  let rhs := btVB degR degC nbr nbc rowsR rowsC rin
  let pen : MatQ := (List.range nbr).map fun (i : Nat) => (List.range nbc).map fun (j : Nat) =>
    lamR * sumL ((List.range (2 * dR + 1)).map fun (t : Nat) =>
      if i + t < dR then 0 else let i' := i + t - dR; if i' < nbr then dtdFastQ nbr dR i i' * MatQ.at C i' j else 0) +
    lamC * sumL ((List.range (2 * dC + 1)).map fun (t : Nat) =>
      if j + t < dC then 0 else let j' := j + t - dC; if j' < nbc then dtdFastQ nbc dC j j' * MatQ.at C i j' else 0)
  let resid := maxM (List.zipWith (List.zipWith (· - ·)) (List.zipWith (List.zipWith (· + ·)) G pen) rhs)
  let colw := btVB degR degC nbr nbc rowsR rowsC (W2.map fun r => r.map absQ)
  let ones : MatQ := W.map fun r => r.map fun _ => 1
  let colb := maxM (btVB degR degC nbr nbc rowsR rowsC ones)
  let anorm := maxM colw + absQ lamR * maxL (rowAbsSums (fun i j => dtdFastQ nbr dR i j) nbr dR) +
    absQ lamC * maxL (rowAbsSums (fun i j => dtdFastQ nbc dC i j) nbc dC) +
    (if iasls then 4 * (absQ lam1R + absQ lam1C) * colb else 0)
  (resid, anorm * maxM C + maxM rhs)

end PbVerif.PSpline

namespace PbVerif.PSpline
open PbVerif.BSpline PbVerif.Whittaker PbVerif.Banded

/-! ### the systems of `pspline_iasls`, `pspline_drpls`, `pspline_aspls` (`spline.py`) as handed to
`PenalizedSystem.solve` by `PSpline.solve_pspline` (`_spline_utils.py`)

`x - y` on `Nat` below is the code's own rule: `_pad_diagonals` ignores a non-positive `padding = spline_degree - diff_order`. -/

/-- `_lower_to_full(ab)` (`_banded_utils.py`): the strictly lower bands flipped on top, band k shifted right by k -/
def lowerToFullQ (ab : List (List Rat)) : List (List Rat) :=
  (ab.tail.reverse.zipIdx.map fun (p : List Rat × Nat) => shiftRightQ (ab.length - 1 - p.2) p.1) ++ ab

/-- `_add_diagonals(a, b, lower_only=False)`: the array with fewer rows gets half of the missing rows on top and half
below (the code raises `ValueError` when the mismatch is odd: the theorems assume both row counts odd) -/
def addDiagonalsFull (a b : List (List Rat)) (n : Nat) : List (List Rat) :=
  let k := max a.length b.length
  addB (padFull a ((k - a.length) / 2) n) (padFull b ((k - b.length) / 2) n)

/-- `pspline.penalty` of a `PSpline` with `lower = False`: `lam * _pad_diagonals(original_diagonals, deg - d, lower_only=False)`,
`original_diagonals` reversed when `reverse_diags=True` -/
def penFullP (nb d deg : Nat) (lam : Rat) (reversed : Bool) : List (List Rat) :=
  let o := bandsQ nb d false
  scale lam (padFull (if reversed then o.reverse else o) (deg - d) nb)

/-- `np.interp(_basis_midpoints(knots, deg), x, v)`: a per-point array mapped onto the coefficient grid -/
def interpMid (knots xs vs : List Rat) (deg : Nat) : List Rat := (basisMidpoints knots deg).map (npInterp xs vs)

/-- `spline.py: pspline_drpls` — one pass of the loop: `penalty_bands = pspline.num_bands` (before `add_penalty`),
`diff_n_diagonals = -eta * pspline.penalty[::-1]`, `pspline.add_penalty(diff_penalty_diagonals(nb, 1, False))`,
`_shift_rows(diff_n_diagonals * wt, u, u)`, `_add_diagonals(pspline.penalty, ·, lower_only=False)`; then in
`solve_pspline`: `_lower_to_full(B'WB)` + penalty.  `wt` = the weights interpolated at the basis midpoints. -/
def asmPDrpls (deg nb d : Nat) (lam eta : Rat) (rows : List Row) (ys ws wt : List Rat) : List (List Rat) × List Rat :=
  let r := btbBty deg nb rows ys ws
  let pen := penFullP nb d deg lam false
  let u := d + (deg - d)
  let diffn := scale (-eta) pen.reverse
  let pen1 := addDiagonalsFull pen (bandsQ nb 1 false) nb
  let dw := shiftRows (colScale diffn wt) u u
  (addDiagonalsFull (lowerToFullQ r.1) (addDiagonalsFull pen1 dw nb) nb, r.2)

/-- `spline.py: pspline_aspls` — `reverse_diags=True`; `alpha_penalty = _shift_rows(pspline.penalty * at, u, u)` with
`u = pspline.num_bands`, handed to `solve_pspline` as the penalty.  `at` = alpha interpolated at the basis midpoints. -/
def asmPAspls (deg nb d : Nat) (lam : Rat) (rows : List Row) (ys ws at_ : List Rat) : List (List Rat) × List Rat :=
  let r := btbBty deg nb rows ys ws
  let u := d + (deg - d)
  (addDiagonalsFull (lowerToFullQ r.1) (shiftRows (colScale (penFullP nb d deg lam true) at_) u u) nb, r.2)

/-- column c of the design matrix, as a dense vector over the data points -/
def colB (deg : Nat) (rows : List Row) (c : Nat) : List Rat := rows.map fun r => r.at deg c

/-- ALL lower bands 0 … nb−1 of `B' (lam_1 D₁'D₁) B` (`D₁'D₁` on the N data points), band (r, c) = `Σ_k B[k,c+r]·(lam_1 D₁'D₁ B[:,c])[k]`.
In the code this is `_sparse_to_banded(B.T @ dia(lam_1·diff_penalty_diagonals(N,1,False)) @ B, nb)` (lower half when
`pspline.lower`); its bandwidth depends on how far apart consecutive data points sit in the knot grid, and SciPy stores only the
diagonals up to the last non-zero one: the model keeps every band (the missing ones are zero rows, which denote nothing). -/
def d1Band (deg nb : Nat) (lam1 : Rat) (rows : List Row) : List (List Rat) :=
  let cols := (List.range nb).map fun (c : Nat) => colB deg rows c
  let pcols := cols.map fun v => (d1y v).map (lam1 * ·)
  (List.range nb).map fun (r : Nat) => (List.range nb).map fun (c : Nat) =>
    sumL (List.zipWith (· * ·) (cols.getD (c + r) []) (pcols.getD c []))

/-- `partial_rhs = (B.T @ lam_1 D₁'D₁) @ y` -/
def d1Rhs (deg nb : Nat) (lam1 : Rat) (rows : List Row) (ys : List Rat) : List Rat :=
  (List.range nb).map fun (c : Nat) => sumL (List.zipWith (· * ·) (colB deg rows c) ((d1y ys).map (lam1 * ·)))

/-- `spline.py: pspline_iasls` — `pspline.add_penalty(d1_penalty)`, then `solve_pspline(y, weight_array**2, rhs_extra=partial_rhs)`;
`lower` = `pspline.lower` (True unless `banded_solver = 4`) -/
def asmPIasls (deg nb d : Nat) (lam lam1 : Rat) (rows : List Row) (ys ws : List Rat) (lower : Bool) : List (List Rat) × List Rat :=
  let r := btbBty deg nb rows ys (ws.map fun v => v * v)
  let d1 := d1Band deg nb lam1 rows
  let rhs := List.zipWith (· + ·) r.2 (d1Rhs deg nb lam1 rows ys)
  if lower then
    (addDiagonalsLower r.1 (addDiagonalsLower (scale lam (padLower (bandsQ nb d true) (deg - d) nb)) d1 nb) nb, rhs)
  else
    (addDiagonalsFull (lowerToFullQ r.1) (addDiagonalsFull (penFullP nb d deg lam false) (lowerToFullQ d1) nb) nb, rhs)

/-! documented matrices -/
/-- dense `(B' D₁'D₁ B)[i,j]` and `(B' D₁'D₁ y)[c]` from the definitions -/
def btd1bAt (deg : Nat) (rows : List Row) (i j : Nat) : Rat :=
  sumL ((List.range rows.length).map fun (k : Nat) => sumL ((List.range rows.length).map fun (l : Nat) =>
    (rows.map fun r => r.at deg i).getD k 0 * dtdQ rows.length 1 k l * (rows.map fun r => r.at deg j).getD l 0))
def btd1yAt (deg : Nat) (rows : List Row) (ys : List Rat) (c : Nat) : Rat :=
  sumL ((List.range rows.length).map fun (k : Nat) => sumL ((List.range rows.length).map fun (l : Nat) =>
    (rows.map fun r => r.at deg c).getD k 0 * dtdQ rows.length 1 k l * ys.getD l 0))

/-- `B'W²B + λ₁ B'D₁'D₁B + λ D'D` -/
def docPIasls (deg nb d : Nat) (lam lam1 : Rat) (rows : List Row) (ws : List Rat) (i j : Nat) : Rat :=
  btwbAt deg rows (ws.map fun v => v * v) i j + lam1 * btd1bAt deg rows i j + lam * dtdQ nb d i j
/-- `B'WB + D₁'D₁ + λ (I − η W̃) D'D` -/
def docPDrpls (deg nb d : Nat) (lam eta : Rat) (rows : List Row) (ws wt : List Rat) (i j : Nat) : Rat :=
  btwbAt deg rows ws i j + dtdQ nb 1 i j + lam * (1 - eta * wt.getD i 0) * dtdQ nb d i j
/-- `B'WB + λ diag(α̃) D'D` -/
def docPAspls (deg nb d : Nat) (lam : Rat) (rows : List Row) (ws at_ : List Rat) (i j : Nat) : Rat :=
  btwbAt deg rows ws i j + lam * at_.getD i 0 * dtdQ nb d i j

end PbVerif.PSpline
