import PbVerif.Model.BSpline
import PbVerif.Model.Whittaker
/-! M5/M4 (C07): the penalised-spline linear system `(B'WB + λ D'D) c = B'W y` as `PSpline.solve_pspline`
assembles it in lower banded storage (`_add_diagonals` pads the array with fewer rows), the iasls
extra terms, and the exact residual of a coefficient vector against the DOCUMENTED system built from
the definition of B-splines.  Import-free. -/
namespace PbVerif.PSpline
open PbVerif.BSpline PbVerif.Whittaker PbVerif.Banded

/-- `_add_diagonals(a, b, lower_only=True)`: the array with fewer rows is padded with zero rows below -/
def addDiagonalsLower (a b : List (List Rat)) (n : Nat) : List (List Rat) :=
  let k := max a.length b.length
  addB (padLower a (k - a.length) n) (padLower b (k - b.length) n)

/-- the lower bands handed to the solver: `B'WB` (deg+1 rows) + `λ·D'D` (d+1 rows) on `nb` basis functions -/
def asmPspline (deg nb d : Nat) (lam : Rat) (rows : List Row) (ys ws : List Rat) : List (List Rat) × List Rat :=
  let r := btbBty deg nb rows ys ws
  (addDiagonalsLower r.1 (scale lam (bandsQ nb d true)) nb, r.2)

/-- documented matrix `B'WB + λ D'D`, entry (i, j) -/
def docPspline (deg nb d : Nat) (lam : Rat) (rows : List Row) (ws : List Rat) (i j : Nat) : Rat :=
  btbSpec deg rows ws (max i j - min i j) (min i j) + lam * dtdQ nb d i j

/-- dense `(B'WB)[i,j] = Σ_k w_k B[k,i] B[k,j]` -/
def btwbAt (deg : Nat) (rows : List Row) (ws : List Rat) (i j : Nat) : Rat :=
  sumL ((rows.zip ws).map fun (p : Row × Rat) => p.2 * p.1.at deg i * p.1.at deg j)

/-- `B c` at every data point -/
def applyB (deg : Nat) (rows : List Row) (c : List Rat) : List Rat :=
  rows.map fun r => sumL ((List.range (deg + 1)).map fun (t : Nat) => r.vals.getD t 0 * c.getD (r.left - deg + t) 0)

/-- exact normwise backward error pieces of a coefficient vector against
`(B'WB + λ D'D [+ λ₁ B'D₁'D₁B]) c = B'W y [+ λ₁ B'D₁'D₁ y]` (W replaced by W² and the extras added when `iasls`) -/
def backwardErrorP (deg d : Nat) (lam lam1 : Rat) (iasls : Bool) (knots xs ys ws c : List Rat) : Rat × Rat :=
  let nb := knots.length - (deg + 1)
  let rows := designRows knots deg xs
  let w2 := if iasls then ws.map (fun v => v * v) else ws
  let n := xs.length
  let bc := applyB deg rows c
  -- A c = B'(W (B c)) + λ D'D c (+ λ₁ B' D₁'D₁ (B c))
  let wbc := List.zipWith (· * ·) w2 bc
  let t1 := if iasls then (d1y bc).map (lam1 * ·) else List.replicate n 0
  let inner := List.zipWith (· + ·) wbc t1
  let bt := fun (v : List Rat) => (List.range nb).map fun (j : Nat) =>
    sumL ((rows.zip v).map fun (p : Row × Rat) => p.1.at deg j * p.2)
  let ac := List.zipWith (· + ·) (bt inner) (applyBanded (fun i j => lam * dtdFastQ nb d i j) nb d c)
  let rhs := bt (List.zipWith (· + ·) (List.zipWith (· * ·) w2 ys) (if iasls then (d1y ys).map (lam1 * ·) else List.replicate n 0))
  let resid := maxL ((List.zipWith (· - ·) ac rhs).map absQ)
  -- ‖A‖∞ bound: row sums of |B'WB| ≤ max w · (deg+1)… computed exactly row by row would be O(nb²·N); use the cheap bound Σ_k w_k B[k,j] (B ≥ 0, rows sum to 1)
  let colw := bt (w2.map absQ)
  let colb := maxL (bt (List.replicate n 1))
  let anorm := maxL ((List.range nb).map fun (j : Nat) => colw.getD j 0 + absQ lam * maxL (rowAbsSums (fun i j => dtdFastQ nb d i j) nb d) +
      (if iasls then 4 * absQ lam1 * colb else 0))
  (resid, anorm * maxL (c.map absQ) + maxL (rhs.map absQ))

end PbVerif.PSpline
