/-! M9: the input checkers of `_validation.py` as decision functions over an abstraction of Python
values: `_check_scalar`, `_check_scalar_variable`, `_check_lam`, `_check_half_window`, the dimension
logic of `_check_array`, `_check_sized_array`, finiteness checking, the `banded_solver` setter and the
inline interval guards.  Import-free. -/
namespace PbVerif.Validate

/-- a Python scalar as the checkers see it -/
inductive Sc
  | num (q : Rat)        -- int, float with a finite value (bools are 0/1)
  | nan | pinf | ninf
  | none | str
deriving DecidableEq, Repr

/-- a Python argument: scalar, flat sequence, or nested sequence (which `_check_scalar` ravels) -/
inductive Val
  | sc (s : Sc)
  | arr (l : List Sc)
  | nested (l : List (List Sc))
deriving DecidableEq, Repr

/-- an array element after `np.asarray(..., dtype)` -/
inductive El
  | fin (q : Rat) | nan | pinf | ninf
deriving DecidableEq, Repr

inductive Res
  | ok (vals : List El) (scalar : Bool)
  | valueError | typeError | overflowError
deriving DecidableEq, Repr

def Res.rejected : Res → Bool
  | .ok _ _ => false
  | _ => true

/-- truncation toward zero (`np.asarray(2.5, dtype=np.intp) == 2`) -/
def truncQ (q : Rat) : Rat := ((Int.tdiv q.num q.den : Int) : Rat)

/-- conversion of one scalar by `np.asarray(·, dtype)`; `none` result = ok element -/
def convSc (dtInt : Bool) : Sc → Except Res El
  | .num q => .ok (.fin (if dtInt then truncQ q else q))
  | .nan => if dtInt then .error .valueError else .ok .nan
  | .pinf => if dtInt then .error .overflowError else .ok .pinf
  | .ninf => if dtInt then .error .overflowError else .ok .ninf
  | .none => if dtInt then .error .typeError else .ok .nan     -- np.asarray(None, dtype=float) is nan
  | .str => .error .valueError

def convList (dtInt : Bool) : List Sc → Except Res (List El)
  | [] => .ok []
  | s :: t => do
    let e ← convSc dtInt s
    let r ← convList dtInt t
    pure (e :: r)

/-- `_check_scalar(data, desired_length, fill_scalar, coerce_0d=True, dtype=…)` -/
def checkScalar (v : Val) (desired : Option Nat) (fill : Bool) (dtInt : Bool) : Res :=
  let flat : Except Res (List El × Bool) :=      -- (elements, ndim == 0)
    match v with
    | .sc s => (convSc dtInt s).map fun e => ([e], true)
    | .arr l => (convList dtInt l).map fun es => (es, false)
    | .nested ll => (convList dtInt ll.flatten).map fun es => (es, false)
  match flat with
  | .error r => r
  | .ok (es, zeroDim) =>
    let isScalar := zeroDim || es.length == 1
    if isScalar then
      if fill then
        match desired with
        | none => .valueError
        | some n => .ok (List.replicate n (es.getD 0 .nan)) true
      else .ok [es.getD 0 .nan] true
    else
      match desired with
      | some n => if es.length != n then .valueError else .ok es false
      | none => .ok es false

def El.ltZero : El → Bool
  | .fin q => decide (q < 0) | .ninf => true | _ => false
def El.leZero : El → Bool
  | .fin q => decide (q ≤ 0) | .ninf => true | _ => false

/-- `_check_scalar_variable(value, allow_zero, two_d, dtype)` -/
def checkScalarVariable (v : Val) (allowZero twoD dtInt : Bool) : Res :=
  match checkScalar v (some (if twoD then 2 else 1)) twoD dtInt with
  | .ok es sc => if es.any (if allowZero then El.ltZero else El.leZero) then .valueError else .ok es sc
  | r => r

def checkLam (v : Val) (allowZero twoD : Bool) : Res := checkScalarVariable v allowZero twoD false

/-- the elements of the ORIGINAL argument compared with the converted output by `output != half_window`
(NumPy broadcasting of a scalar against the filled pair / element-wise for sequences) -/
def origEls : Val → List Sc
  | .sc s => [s]
  | .arr l => l
  | .nested ll => ll.flatten

def sameAsInput (es : List El) (v : Val) : Bool :=
  let o := origEls v
  (List.range es.length).all fun i =>
    match es.getD i .nan, (if o.length == 1 then o.getD 0 .nan else o.getD i .nan) with
    | .fin q, .num q' => q == q'
    | _, _ => false

/-- `_check_half_window(half_window, allow_zero, two_d)`: positive (non-negative) AND integer valued,
for one value as well as for the two values of the 2-D / per-side path -/
def checkHalfWindow (v : Val) (allowZero twoD : Bool) : Res :=
  match checkScalarVariable v allowZero twoD true with
  | .ok es sc => if sameAsInput es v then .ok es sc else .typeError
  | r => r

/-! ### arrays -/

/-- shape abstraction of `np.asarray(array)`: number of dimensions and shape -/
structure Shape where
  dims : List Nat
deriving DecidableEq, Repr

inductive ARes
  | ok (shape : List Nat)
  | valueError | typeError
deriving DecidableEq, Repr

/-- the dimension logic of `_check_array(array, ensure_1d, ensure_2d, two_d)` (after the finiteness check) -/
def checkArrayShape (s : List Nat) (ensure1d ensure2d twoD : Bool) : ARes :=
  let nd := s.length
  if nd < 1 then .typeError
  else if ensure1d then
    if nd == 2 && s.contains 1 then .ok [s.foldl (· * ·) 1]
    else if nd != 1 then .valueError else .ok s
  else if twoD then
    if nd < 2 || (nd == 2 && s.contains 1) then .valueError
    else if ensure2d then
      if nd == 3 && s.contains 1 then .ok (s.filter (· != 1))
      else if nd != 2 then .valueError else .ok s
    else .ok s
  else if ensure2d then .valueError
  else .ok s

/-- `np.asarray_chkfinite` then the shape logic; `hasNonFinite` = some entry is nan or ±inf -/
def checkArray (s : List Nat) (hasNonFinite checkFinite ensure1d ensure2d twoD : Bool) : ARes :=
  if checkFinite && hasNonFinite then .valueError else checkArrayShape s ensure1d ensure2d twoD

/-- `_check_sized_array(array, length, axis=-1)` for 1-D use -/
def checkSized (s : List Nat) (hasNonFinite checkFinite : Bool) (length : Nat) : ARes :=
  match checkArray s hasNonFinite checkFinite true false false with
  | .ok sh => if sh.getLast? == some length then .ok sh else .valueError
  | r => r

/-- does a list of elements contain a non-finite entry (at any position)? -/
def anyNonFinite (l : List El) : Bool := l.any fun e => match e with | .fin _ => false | _ => true

/-! ### inline guards -/
def inOpen01 (q : Rat) : Bool := decide (0 < q) && decide (q < 1)
def inClosed01 (q : Rat) : Bool := decide (0 ≤ q) && decide (q ≤ 1)

/-- `banded_solver` setter: `isinstance(solver, bool) or solver not in {1, 2, 3, 4}` → ValueError -/
def solverAccepted (isBool : Bool) (v : Rat) : Bool :=
  !isBool && (v == 1 || v == 2 || v == 3 || v == 4)

end PbVerif.Validate
