import PbVerif.Model.Poly
/-! M10 (second half): the three loop kernels of LOESS, `polynomial._loess_low_memory`,
`polynomial._loess_first_loop`, `polynomial._loess_nonfirst_loops`, the local system handed to
`polynomial._loess_solver`, and the iteration skeleton of `polynomial._PolynomialClass.loess` that chooses between
them (`conserve_memory`).

The scalar operations are a PARAMETER (`Num α`: the strategy theorems hold for every interpretation of
`+ - * / abs < sqrt`, in particular for IEEE doubles), and so is the linear solve (`Solver α`, the body of
`_loess_solver`: `np.linalg.solve(AT.dot(AT.T), AT.dot(b))`).  Instances: exact rationals with a supplied
`sqrt` (theorems; the driver uses a 2⁻¹²⁸-accurate rational square root) and `Float` (driver; bit-exact kernels).
No Mathlib; `PbVerif.Model.Poly` is import-free as well. -/
namespace PbVerif.LoessKern

/-- the scalar operations used by the kernels -/
structure Num (α : Type) where
  zero : α
  one : α
  add : α → α → α
  sub : α → α → α
  mul : α → α → α
  div : α → α → α
  abs : α → α
  /-- `a < b` -/
  lt : α → α → Bool
  sqrt : α → α

/-- the body of `_loess_solver(AT, b)` -/
abbrev Solver (α : Type) := List (List α) → List α → List α

variable {α : Type}

/-- Python's builtin `max(a, b)`: `b` if `b > a` else `a` -/
def pyMax (o : Num α) (a b : α) : α := if o.lt a b then b else a

/-- `v[left:right]` for `0 ≤ left` (NumPy clamps both ends to the length) -/
def slice (v : List α) (left right : Nat) : List α := (v.drop left).take (right - left)

/-- `difference = np.abs(x[left:right] - x[i])` -/
def diffs (o : Num α) (x : List α) (i left right : Nat) : List α :=
  (slice x left right).map fun t => o.abs (o.sub t (x.getD i o.zero))

/-- `max(difference[0], difference[-1])` (the code raises IndexError on an empty window) -/
def kernelDen (o : Num α) (x : List α) (i left right : Nat) : α :=
  pyMax o ((diffs o x i left right).headD o.zero) ((diffs o x i left right).getLastD o.zero)

/-- one entry of the kernel:
`d = d / m; d = d * d * d; d = 1 - d; kernel = np.sqrt(d * d * d)` -/
def tricubeSqrt (o : Num α) (m d : α) : α :=
  let d1 := o.div d m
  let d2 := o.mul (o.mul d1 d1) d1
  let d3 := o.sub o.one d2
  o.sqrt (o.mul (o.mul d3 d3) d3)

/-- the distance-weighted kernel of fit point `i` with window `[left, right)`; the same five statements in
`_loess_low_memory` and in `_loess_first_loop` -/
def kernelOf (o : Num α) (x : List α) (i left right : Nat) : List α :=
  (diffs o x i left right).map (tricubeSqrt o (kernelDen o x i left right))

/-- `y_fit = y * weights` -/
def yFit (o : Num α) (y w : List α) : List α := List.zipWith o.mul y w

/-- number of columns of the Vandermonde matrix (`poly_order + 1`) -/
def ncols (vander : List (List α)) : Nat := (vander.headD []).length

/-- `vander_fit = vander.T * weights`, row `j` is `vander[:, j] * weights` -/
def vanderFit (o : Num α) (vander : List (List α)) (w : List α) : List (List α) :=
  (List.range (ncols vander)).map fun j => List.zipWith (fun row wk => o.mul (row.getD j o.zero) wk) vander w

/-- `a.dot(b)` -/
def dot (o : Num α) (a b : List α) : α := (List.zipWith o.mul a b).foldl o.add o.zero

/-- the two arguments of `_loess_solver`: `kernel * vander_fit[:, left:right]` and `kernel * y_fit[left:right]` -/
def localSystem (o : Num α) (yf : List α) (vf : List (List α)) (kernel : List α) (left right : Nat) :
    List (List α) × List α :=
  (vf.map fun row => List.zipWith o.mul kernel (slice row left right),
   List.zipWith o.mul kernel (slice yf left right))

/-- `coef = _loess_solver(…)` and `vander[i].dot(coef)` -/
def fitAt (o : Num α) (solver : Solver α) (yf : List α) (vf vander : List (List α)) (kernel : List α)
    (i left right : Nat) : List α × α :=
  let s := localSystem o yf vf kernel left right
  let coef := solver s.1 s.2
  (coef, dot o (vander.getD i []) coef)

/-- what a kernel returns/updates: `baseline` (`np.empty(num_x)`: `none` = never written) and the
`coefs` array it was handed (updated in place) -/
structure Out (α : Type) where
  baseline : List (Option α)
  coefs : List (List α)
deriving DecidableEq, Repr

/-- `baseline[i] = vander[i].dot(coef); coefs[i] = coef` -/
def write (s : Out α) (i : Nat) (r : List α × α) : Out α :=
  { baseline := s.baseline.set i (some r.2), coefs := s.coefs.set i r.1 }

def out0 (n : Nat) (coefs : List (List α)) : Out α := { baseline := List.replicate n none, coefs := coefs }

/-- `_loess_low_memory(x, y, weights, coefs, vander, num_x, windows, fits)`; the loop
`for idx in range(fits.shape[0])` pairs `fits[idx]` with `windows[idx]` -/
def lowMemory (o : Num α) (solver : Solver α) (x y w : List α) (coefs vander : List (List α)) (n : Nat)
    (windows : List (Nat × Nat)) (fits : List Nat) : Out α :=
  let yf := yFit o y w
  let vf := vanderFit o vander w
  (fits.zip windows).foldl
    (fun s p => write s p.1 (fitAt o solver yf vf vander (kernelOf o x p.1 p.2.1 p.2.2) p.1 p.2.1 p.2.2))
    (out0 n coefs)

/-- `_loess_first_loop(x, y, weights, coefs, vander, total_points, num_x, windows, fits)`: as above and
additionally `kernels[i] = kernel`; `junk` is the content of `np.empty((num_x, total_points))`.
(`total_points` only shapes `kernels`; the assignment needs `len(kernel) = total_points`.) -/
def firstLoop (o : Num α) (solver : Solver α) (x y w : List α) (coefs vander : List (List α)) (n : Nat)
    (windows : List (Nat × Nat)) (fits : List Nat) (junk : List (List α)) : List (List α) × Out α :=
  let yf := yFit o y w
  let vf := vanderFit o vander w
  (fits.zip windows).foldl
    (fun ks p =>
      let kernel := kernelOf o x p.1 p.2.1 p.2.2
      (ks.1.set p.1 kernel, write ks.2 p.1 (fitAt o solver yf vf vander kernel p.1 p.2.1 p.2.2)))
    (junk, out0 n coefs)

/-- `_loess_nonfirst_loops(y, weights, coefs, vander, kernels, windows, num_x, fits)`: `kernel = kernels[i]` -/
def nonfirstLoops (o : Num α) (solver : Solver α) (y w : List α) (coefs vander kernels : List (List α))
    (windows : List (Nat × Nat)) (n : Nat) (fits : List Nat) : Out α :=
  let yf := yFit o y w
  let vf := vanderFit o vander w
  (fits.zip windows).foldl
    (fun s p => write s p.1 (fitAt o solver yf vf vander (kernels.getD p.1 []) p.1 p.2.1 p.2.2))
    (out0 n coefs)

/-! ### the iteration of `loess` -/

/-- what persists between iterations: the data being fitted (`y`, changed by `use_threshold`), the square
roots of the robustness weights (`sqrt_w`), `coefs`, and everything else (`baseline_old`, `tol_history`,
the iteration count) in `acc` -/
structure LState (α β : Type) where
  y : List α
  w : List α
  coefs : List (List α)
  acc : β
deriving DecidableEq, Repr

/-- the rest of an iteration (`_fill_skips`, `relative_difference`, the `break`, thresholding or
`_tukey_square`) as a parameter: from the accumulated state, the current `y`, `sqrt_w` and the kernel's
raw baseline, the new accumulated state and `none` (stop) or the next `(y, sqrt_w)` -/
abbrev Update (α β : Type) := β → List α → List α → List (Option α) → β × Option (List α × List α)

/-- `for i in range(max_iter + 1)` of `loess` from iteration `it` on, `fuel` iterations left;
`kernels` is the variable of that name (unbound, here `junk`, before the first pass) -/
def loessLoop (conserve : Bool) (o : Num α) (solver : Solver α) (x : List α) (vander : List (List α)) (n : Nat)
    (windows : List (Nat × Nat)) (fits : List Nat) {β : Type} (upd : Update α β) :
    (fuel it : Nat) → LState α β → List (List α) → LState α β
  | 0, _, s, _ => s
  | fuel + 1, it, s, kernels =>
    let r : List (List α) × Out α :=
      if conserve then (kernels, lowMemory o solver x s.y s.w s.coefs vander n windows fits)
      else if it = 0 then firstLoop o solver x s.y s.w s.coefs vander n windows fits kernels
      else (kernels, nonfirstLoops o solver s.y s.w s.coefs vander kernels windows n fits)
    let u := upd s.acc s.y s.w r.2.baseline
    match u.2 with
    | none => { s with coefs := r.2.coefs, acc := u.1 }
    | some yw => loessLoop conserve o solver x vander n windows fits upd fuel (it + 1)
        { y := yw.1, w := yw.2, coefs := r.2.coefs, acc := u.1 } r.1

/-- the `windows` array of `_determine_fits` as the kernels read it (`left = window[0]`, `right = window[1]`; the
entries are non-negative, theorem `windows_size`) -/
def natWindows (ws : List (Int × Int)) : List (Nat × Nat) := ws.map fun w => (w.1.toNat, w.2.toNat)

/-! ### instances -/

/-- exact rationals; `sqrt` is supplied -/
def ratNum (sqrt : Rat → Rat) : Num Rat :=
  { zero := 0, one := 1, add := (· + ·), sub := (· - ·), mul := (· * ·), div := (· / ·),
    abs := fun a => if a < 0 then -a else a, lt := fun a b => decide (a < b), sqrt := sqrt }

/-- IEEE doubles, the operations NumPy performs element by element -/
def floatNum : Num Float :=
  { zero := 0.0, one := 1.0, add := (· + ·), sub := (· - ·), mul := (· * ·), div := (· / ·),
    abs := Float.abs, lt := fun a b => decide (a < b), sqrt := Float.sqrt }

/-- `⌊√(q·4ᵏ)⌋ / 2ᵏ`: a rational square root with absolute error below `2⁻ᵏ` (0 for `q ≤ 0`) -/
def sqrtApprox (k : Nat) (q : Rat) : Rat :=
  if q ≤ 0 then 0 else
    mkRat (Nat.sqrt ((q * ((4 ^ k : Nat) : Rat)).floor.toNat)) (2 ^ k)

/-- `np.polynomial.polynomial.polyvander(x, poly_order)` -/
def vanderOf (x : List Rat) (po : Nat) : List (List Rat) :=
  x.map fun t => (List.range (po + 1)).map fun (j : Nat) => t ^ j

open PbVerif.Poly in
/-- the contract of `_loess_solver(AT, b)` on one input: the returned `c` has one entry per row of `AT`
and satisfies `(AT·ATᵀ) c = AT b` -/
def NormalEq (AT : List (List Rat)) (b c : List Rat) : Prop :=
  c.length = AT.length ∧ ∀ j, j < AT.length →
    sumL ((List.range b.length).map fun (k : Nat) => (AT.getD j []).getD k 0 *
        sumL ((List.range AT.length).map fun (l : Nat) => (AT.getD l []).getD k 0 * c.getD l 0)) =
      sumL ((List.range b.length).map fun (k : Nat) => (AT.getD j []).getD k 0 * b.getD k 0)

instance (AT : List (List Rat)) (b c : List Rat) : Decidable (NormalEq AT b c) := by
  unfold NormalEq; exact inferInstance

/-! ### an exact solver for the driver and the non-vacuity examples -/

/-- Gauss–Jordan elimination on an augmented matrix (rows `[A | b]`), column by column with the first
non-zero pivot; `none` when a column has no pivot (singular) -/
def gaussJordan (m : Nat) : (fuel col : Nat) → List (List Rat) → Option (List (List Rat))
  | 0, _, rows => some rows
  | fuel + 1, col, rows =>
    if col ≥ m then some rows else
    match ((List.range m).filter fun r => col ≤ r ∧ (rows.getD r []).getD col 0 ≠ 0).head? with
    | none => none
    | some p =>
      let prow := rows.getD p []
      let pv := prow.getD col 0
      let prow' := prow.map (· / pv)
      -- swap rows `col` and `p`, normalise, eliminate the column everywhere else
      let swapped := (rows.set p (rows.getD col [])).set col prow'
      let rows' := (List.range m).map fun r =>
        if r = col then prow' else
          let row := swapped.getD r []
          let f := row.getD col 0
          List.zipWith (fun a b => a - f * b) row prow'
      gaussJordan m fuel (col + 1) rows'

/-- `np.linalg.solve(A, rhs)` in exact arithmetic; `none` if singular -/
def solveSquare (A : List (List Rat)) (rhs : List Rat) : Option (List Rat) :=
  let m := A.length
  let aug := (List.range m).map fun r => (A.getD r []) ++ [rhs.getD r 0]
  (gaussJordan m m 0 aug).map fun rows => rows.map fun row => row.getD m 0

open PbVerif.Poly in
/-- `_loess_solver` in exact arithmetic: `solve(AT·ATᵀ, AT·b)`; `none` if singular -/
def solveExact? (AT : List (List Rat)) (b : List Rat) : Option (List Rat) :=
  let m := AT.length
  let G := (List.range m).map fun j => (List.range m).map fun l =>
    sumL ((List.range b.length).map fun (k : Nat) => (AT.getD j []).getD k 0 * (AT.getD l []).getD k 0)
  let r := (List.range m).map fun j =>
    sumL ((List.range b.length).map fun (k : Nat) => (AT.getD j []).getD k 0 * b.getD k 0)
  solveSquare G r

/-- total version (the empty vector stands for `LinAlgError`) -/
def solveExact : Solver Rat := fun AT b => (solveExact? AT b).getD []

end PbVerif.LoessKern
