/-! M7: grey-scale morphology as `scipy.ndimage` computes it (flat centred window of odd size,
`mode='reflect'`), the baselines built from it (`tophat`, `mor`, `imor`, 1-D and 2-D) and the
`snip` clipping loop.  Import-free. -/
namespace PbVerif.Morph

/-- `scipy.ndimage` `mode='reflect'` index map `(d c b a | a b c d | d c b a)`: period 2n -/
def reflIdx (n : Nat) (i : Int) : Nat :=
  let m := i.emod (2 * (n : Int))
  if m < n then m.toNat else (2 * (n : Int) - 1 - m).toNat

/-- the reflected infinite extension of a finite signal -/
def ext (f : List Rat) (i : Int) : Rat := f.getD (reflIdx f.length i) 0

/-- fold `op` over the centred window `i-h … i+h` of an infinite signal -/
def winFold (op : Rat → Rat → Rat) (g : Int → Rat) (h : Nat) (i : Int) : Rat :=
  (List.range (2 * h)).foldl (fun acc (k : Nat) => op acc (g (i - (h : Int) + 1 + (k : Int)))) (g (i - (h : Int)))

def winMin (g : Int → Rat) (h : Nat) (i : Int) : Rat := winFold min g h i
def winMax (g : Int → Rat) (h : Nat) (i : Int) : Rat := winFold max g h i

/-- `grey_erosion(f, [2h+1])`, `grey_dilation(f, [2h+1])`, `grey_opening(f, [2h+1])` -/
def erode (h : Nat) (f : List Rat) : List Rat := (List.range f.length).map fun (i : Nat) => winMin (ext f) h (i : Int)
def dilate (h : Nat) (f : List Rat) : List Rat := (List.range f.length).map fun (i : Nat) => winMax (ext f) h (i : Int)
def opening (h : Nat) (f : List Rat) : List Rat := dilate h (erode h f)

/-- `_avg_opening(y, h, opening)`: `0.5 * (dilation(opening) + erosion(opening))` -/
def avgOfOpening (h : Nat) (op : List Rat) : List Rat :=
  List.zipWith (fun a b => (a + b) / 2) (dilate h op) (erode h op)
def avgOpening (h : Nat) (f : List Rat) : List Rat := avgOfOpening h (opening h f)

def tophat (h : Nat) (f : List Rat) : List Rat := opening h f
def mor (h : Nat) (f : List Rat) : List Rat := List.zipWith min (opening h f) (avgOpening h f)

/-- one `imor` update `np.minimum(y, _avg_opening(baseline, h))` and k of them starting from y -/
def imorStep (h : Nat) (y b : List Rat) : List Rat := List.zipWith min y (avgOpening h b)
def imorIter (h : Nat) (y : List Rat) : Nat → List Rat
  | 0 => y
  | k+1 => imorStep h y (imorIter h y k)

/-! ### 2-D: a flat (2hr+1)×(2hc+1) window is a row pass followed by a column pass -/
def transpose (m : List (List Rat)) : List (List Rat) :=
  match m with
  | [] => []
  | r :: _ => (List.range r.length).map fun j => m.map fun row => row.getD j 0
def rowsThenCols (fr fc : List Rat → List Rat) (m : List (List Rat)) : List (List Rat) :=
  transpose ((transpose (m.map fc)).map fr)
/-- `hr` acts along axis 0 (down the columns), `hc` along axis 1 (along the rows) -/
def erode2d (hr hc : Nat) (m : List (List Rat)) := rowsThenCols (erode hr) (erode hc) m
def dilate2d (hr hc : Nat) (m : List (List Rat)) := rowsThenCols (dilate hr) (dilate hc) m
def opening2d (hr hc : Nat) (m : List (List Rat)) := dilate2d hr hc (erode2d hr hc m)
def zip2 (f : Rat → Rat → Rat) (a b : List (List Rat)) : List (List Rat) := List.zipWith (List.zipWith f) a b
def avgOpening2d (hr hc : Nat) (m : List (List Rat)) : List (List Rat) :=
  let op := opening2d hr hc m
  zip2 (fun a b => (a + b) / 2) (dilate2d hr hc op) (erode2d hr hc op)
def mor2d (hr hc : Nat) (m : List (List Rat)) := zip2 min (opening2d hr hc m) (avgOpening2d hr hc m)
def imorIter2d (hr hc : Nat) (y : List (List Rat)) : Nat → List (List Rat)
  | 0 => y
  | k+1 => zip2 min y (avgOpening2d hr hc (imorIter2d hr hc y k))

/-! ### snip (no smoothing): the clipping loop on the padded array -/

/-- the filter value at padded index j for pass i (`il = min i hwLeft`, `ir = min i hwRight`) -/
def snipFilter (order : Nat) (b : Int → Rat) (j : Int) (il ir : Nat) : Rat :=
  let s (p q : Nat) : Rat := b (j - ((p * il / q : Nat) : Int)) + b (j + ((p * ir / q : Nat) : Int))
  let f2 := s 1 1 / 2
  let f4 := (-(s 1 1) + 4 * s 1 2) / 6
  let f6 := (s 1 1 - 6 * s 2 3 + 15 * s 1 3) / 20
  let f8 := (-(s 1 1) + 8 * s 3 4 - 28 * s 1 2 + 56 * s 1 4) / 70
  let r := f2
  let r := if order > 2 then max r f4 else r
  let r := if order > 4 then max r f6 else r
  if order > 6 then max r f8 else r

/-- one pass: `baseline[i:-i] = where(baseline[i:-i] > filters, filters, baseline[i:-i])` -/
def snipPass (order hwL hwR : Nat) (b : List Rat) (i : Nat) : List Rat :=
  let g : Int → Rat := fun k => b.getD k.toNat 0
  (List.range b.length).map fun j =>
    if i ≤ j ∧ j + i < b.length then
      let f := snipFilter order g j (min i hwL) (min i hwR)
      if b.getD j 0 > f then f else b.getD j 0
    else b.getD j 0

/-- the window schedule: `range(1, M+1)` or `range(M, 0, -1)` -/
def snipSchedule (M : Nat) (decreasing : Bool) : List Nat :=
  let inc := (List.range M).map (· + 1)
  if decreasing then inc.reverse else inc

/-- `snip` on the already padded array (`M = max(hwL, hwR)` points of padding on each side);
returns the un-padded part -/
def snipCore (order hwL hwR : Nat) (decreasing : Bool) (padded : List Rat) : List Rat :=
  let M := max hwL hwR
  let b := (snipSchedule M decreasing).foldl (snipPass order hwL hwR) padded
  (b.drop M).take (b.length - 2 * M)

/-! ### rubberband: certificate that a mask is the lower convex hull of the points -/

def cross (ax ay bx by_ cx cy : Rat) : Rat := (bx - ax) * (cy - ay) - (by_ - ay) * (cx - ax)

/-- `pts` sorted by strictly increasing x. The masked points form a chain that contains both end
points, turns left (or goes straight) at every vertex, and every point lies on or above the chain
segment that spans it. -/
def isLowerHull (pts : List (Rat × Rat)) (mask : List Bool) : Bool :=
  let idx := (List.range pts.length).filter fun i => mask.getD i false
  let p := fun i => pts.getD i (0, 0)
  let pairs := idx.zip idx.tail
  (idx.head? == some 0) && (idx.getLast? == some (pts.length - 1)) &&
  (pairs.zip pairs.tail).all (fun ((a, b), (_, c)) =>
      decide (cross (p a).1 (p a).2 (p b).1 (p b).2 (p c).1 (p c).2 ≥ 0)) &&
  pairs.all (fun (a, b) => (List.range (b - a + 1)).all fun t =>
      decide (cross (p a).1 (p a).2 (p b).1 (p b).2 (p (a + t)).1 (p (a + t)).2 ≥ 0))

/-! ### rubberband: the baseline `np.interp(x, x[mask], y[mask])` through the masked vertices -/

/-- `np.interp(x, xp, fp)` at one abscissa, for `chain = zip xp fp` with `xp` strictly increasing (NumPy
`arr_interp`: `j` = the last sample with `xp[j] ≤ x` — a binary search, here the equivalent linear scan over the
sorted samples; `x < xp[0]` → `fp[0]`, `x ≥ xp[-1]` → `fp[-1]`, `xp[j] == x` → `fp[j]`, otherwise
`slope*(x - xp[j]) + fp[j]` with `slope = (fp[j+1]-fp[j])/(xp[j+1]-xp[j])`).  NumPy raises on an empty sample
list; the `[]` case is a totalisation that no theorem relies on (they assume a non-empty chain). -/
def interp1 : List (Rat × Rat) → Rat → Rat
  | [], _ => 0
  | [p], _ => p.2
  | p :: q :: rest, x =>
      if x < q.1 then (if x ≤ p.1 then p.2 else (q.2 - p.2) / (q.1 - p.1) * (x - p.1) + p.2)
      else interp1 (q :: rest) x

/-- the indices kept by a boolean mask (`x[mask]` with `len(mask) == len(x)`, as in `rubberband`) -/
def maskIdx (n : Nat) (mask : List Bool) : List Nat := (List.range n).filter fun i => mask.getD i false

/-- `pybaselines/classification.py:_Classification.rubberband`, branch `lam is None or lam == 0`:
`baseline = np.interp(self.x, self.x[mask], y[mask])`, one value per data point -/
def hullInterp (pts : List (Rat × Rat)) (mask : List Bool) : List Rat :=
  let chain := (maskIdx pts.length mask).map fun i => pts.getD i (0, 0)
  pts.map fun p => interp1 chain p.1

/-- `y + c` -/
def shiftPts (c : Rat) (pts : List (Rat × Rat)) : List (Rat × Rat) := pts.map fun p => (p.1, p.2 + c)

end PbVerif.Morph
