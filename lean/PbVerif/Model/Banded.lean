/-! M4 (first part): difference matrices, D'D, the hard-coded band tables' interpreter, LAPACK band
layouts and the layout conversions of `_banded_utils.py`.  Import-free. -/
namespace PbVerif.Banded

/-! ## generated tables: `output[row, lo:hi] = val` statements (Route A, see `Gen/Diags.lean`) -/

/-- one numpy statement `output[row, lo:hi] = val` (python indices; `none` = open end).
`fullOnly` = the statement sits under `if not lower_only:`. Scalar column indices are emitted by the
translator as the one-element slice `k:k+1` (`-1:` for `-1`). -/
structure Assign where
  row : Int
  lo  : Option Int
  hi  : Option Int
  val : Int
  fullOnly : Bool
deriving DecidableEq, Repr

/-- `output = np.full((rowsLower if lower_only else rowsFull, data_size), init)` + statements -/
structure DiagTable where
  init : Int
  rowsLower : Nat
  rowsFull : Nat
  assigns : List Assign
deriving Repr

/-- numpy normalisation of a slice bound against length n -/
def normB (b : Int) (n : Nat) : Int := if 0 ≤ b then min b n else max (n + b) 0

def covers (a : Assign) (rows n : Nat) (r c : Nat) : Bool :=
  let rr : Int := if 0 ≤ a.row then a.row else rows + a.row
  let lo : Int := match a.lo with | none => 0 | some b => normB b n
  let hi : Int := match a.hi with | none => n | some b => normB b n
  decide (rr = r) && decide (lo ≤ c) && decide ((c : Int) < hi)

/-- value at (r, c) after executing the statements in order: last writer wins -/
def bandAt (init : Int) (tbl : List Assign) (rows n r c : Nat) : Int :=
  tbl.foldl (fun acc a => if covers a rows n r c then a.val else acc) init

def DiagTable.rows (t : DiagTable) (lowerOnly : Bool) : Nat := if lowerOnly then t.rowsLower else t.rowsFull

def DiagTable.active (t : DiagTable) (lowerOnly : Bool) : List Assign :=
  t.assigns.filter (fun a => !(lowerOnly && a.fullOnly))

/-- the array `_diff_k_diags(n, lower_only)` returns, entry (r, c) -/
def DiagTable.at (t : DiagTable) (lowerOnly : Bool) (n r c : Nat) : Int :=
  bandAt t.init (t.active lowerOnly) (t.rows lowerOnly) n r c

def DiagTable.toRows (t : DiagTable) (lowerOnly : Bool) (n : Nat) : List (List Int) :=
  (List.range (t.rows lowerOnly)).map fun r => (List.range n).map fun c => t.at lowerOnly n r c

/-- clamp a column of an n-wide array to the corresponding column of an n'-wide array -/
def clamp (K n n' c : Nat) : Nat :=
  if c < K then c else if n - 1 - c < K then n' - 1 - (n - 1 - c) else K

/-- all slice constants in the statement are bounded by K -/
def Assign.boundedB (K : Nat) (a : Assign) : Bool :=
  (match a.lo with | none => true | some b => decide (-(K:Int) ≤ b) && decide (b ≤ K)) &&
  (match a.hi with | none => true | some b => decide (-(K:Int) ≤ b) && decide (b ≤ K))

/-! ## specification: the d-th order finite-difference matrix and D'D -/

/-- signed binomial row of the d-th difference: `D[k, k+m] = coef d m` (0 ≤ m ≤ d) -/
def coef : Nat → Nat → Int
  | 0, 0 => 1
  | 0, _+1 => 0
  | d+1, 0 => - coef d 0
  | d+1, m+1 => coef d m - coef d (m+1)

/-- `difference_matrix`'s loop: `diagonals = zeros(2d+1); diagonals[d] = 1;
repeat d times: diagonals = diagonals[:-1] - diagonals[1:]` -/
def diffStep (l : List Int) : List Int := List.zipWith (· - ·) l.dropLast l.tail
def diffIter : Nat → List Int → List Int
  | 0, l => l
  | k+1, l => diffIter k (diffStep l)
def diffCoefCode (d : Nat) : List Int :=
  diffIter d ((List.replicate d 0) ++ [1] ++ (List.replicate d 0))

/-- entry (k, j) of the (n-d) × n difference matrix -/
def Dent (d k j : Nat) : Int := if k ≤ j ∧ j - k ≤ d then coef d (j - k) else 0

/-- dense `(D'D)[i, j] = Σ_k D[k,i] D[k,j]` over the n-d rows of D -/
def DtD (n d i j : Nat) : Int :=
  ((List.range (n - d)).map fun k => Dent d k i * Dent d k j).sum

/-- `(D'D)[i, i+t]` in offset form: only the ≤ d+1 rows `k = i - m` that touch column i -/
def dtdOff (n d i t : Nat) : Int :=
  ((List.range (d+1)).map fun m =>
    if m ≤ i ∧ i - m + d < n ∧ m + t ≤ d then coef d m * coef d (m + t) else 0).sum

/-- LAPACK lower storage `ab[r, c] = A[c + r, c]`, zero past the end -/
def specLower (n d r c : Nat) : Int := if c + r < n then dtdOff n d c r else 0

/-- LAPACK full storage with u = d upper bands: `ab[d + i - j, j] = A[i, j]` -/
def specFull (n d r c : Nat) : Int :=
  if d ≤ r then specLower n d (r - d) c            -- main and lower bands
  else if d - r ≤ c then dtdOff n d (c - (d - r)) (d - r) else 0   -- upper band k = d - r: A[c-k, c]

def specRows (n d : Nat) (lowerOnly : Bool) : List (List Int) :=
  if lowerOnly then (List.range (d+1)).map fun r => (List.range n).map fun c => specLower n d r c
  else (List.range (2*d+1)).map fun r => (List.range n).map fun c => specFull n d r c

/-! ## layout conversions (`_shift_rows`, `_lower_to_full`, `_pad_diagonals`) on row lists -/

/-- shift a row right by s, filling with zeros (`matrix[row, s:] = matrix[row, :-s]; matrix[row, :s] = 0`) -/
def shiftRight (s : Nat) (row : List Int) : List Int :=
  (List.replicate (min s row.length) 0) ++ row.take (row.length - s)

/-- `_lower_to_full`: flip the strictly-lower bands on top and shift band k right by k -/
def lowerToFull (ab : List (List Int)) : List (List Int) :=
  let r := ab.length
  let upper := (ab.tail.reverse).zipIdx.map fun (row, i) => shiftRight (r - 1 - i) row
  upper ++ ab

/-- `_pad_diagonals` -/
def padDiagonals (ab : List (List Int)) (padding : Int) (lowerOnly : Bool) (n : Nat) : List (List Int) :=
  if padding ≤ 0 then ab else
    let z := List.replicate padding.toNat (List.replicate n (0:Int))
    if lowerOnly then ab ++ z else z ++ ab ++ z

/-! ## `PenalizedSystem` reconfiguration state machine (`reset_diagonals`, `reverse_penalty`) -/

structure Cfg where
  diffOrder : Nat
  allowLower : Bool
  reverseDiags : Option Bool     -- None / False / True
  allowPentapy : Bool
  padding : Int
deriving DecidableEq, Repr

structure PSys where
  n : Nat
  hasPentapy : Bool               -- `_HAS_PENTAPY`
  orig : Option (List (List Int)) -- `original_diagonals`
  diffOrder : Nat
  lower : Bool
  reversed : Bool
  usingPentapy : Bool
  padding : Int
deriving DecidableEq, Repr

def usingPentapyOf (hasPentapy : Bool) (c : Cfg) : Bool := c.allowPentapy && hasPentapy && (c.diffOrder == 2)
def lowerOf (hasPentapy : Bool) (c : Cfg) : Bool := c.allowLower && !(usingPentapyOf hasPentapy c)
def reversedOf (hasPentapy : Bool) (c : Cfg) : Bool :=
  match c.reverseDiags with
  | some true => true
  | some false => false
  | none => usingPentapyOf hasPentapy c

/-- what `diff_penalty_diagonals(n, d, lower_only)` returns (padding 0); its hard-coded branch is
proved equal to this in `Props/C11`, the general branch is tied by the correspondence -/
def penaltyDiags (n d : Nat) (lowerOnly : Bool) : List (List Int) := specRows n d lowerOnly

def freshOrig (n : Nat) (hasPentapy : Bool) (c : Cfg) : List (List Int) :=
  let rows := penaltyDiags n c.diffOrder (lowerOf hasPentapy c)
  if reversedOf hasPentapy c then rows.reverse else rows

/-- `PenalizedSystem.reset_diagonals` as coded (after the C11 fix: the stored diagonals are first
brought back to the normal order, converted between lower/full, and then reversed if needed) -/
def reset (s : PSys) (c : Cfg) : PSys :=
  let up := usingPentapyOf s.hasPentapy c
  let lowerOnly := lowerOf s.hasPentapy c
  let needsRev := reversedOf s.hasPentapy c
  let orig :=
    match s.orig with
    | none => freshOrig s.n s.hasPentapy c
    | some o =>
      if s.diffOrder != c.diffOrder then freshOrig s.n s.hasPentapy c
      else
        let o0 := if s.reversed then o.reverse else o
        let o1 := if s.lower && !lowerOnly then lowerToFull o0 else o0
        let o2 := if !s.lower && lowerOnly then o1.drop s.diffOrder else o1
        if needsRev then o2.reverse else o2
  { s with orig := some orig, diffOrder := c.diffOrder, lower := lowerOnly, reversed := needsRev,
           usingPentapy := up, padding := c.padding }

def initSys (n : Nat) (hasPentapy : Bool) : PSys :=
  { n := n, hasPentapy := hasPentapy, orig := none, diffOrder := 0, lower := false, reversed := false,
    usingPentapy := false, padding := 0 }

/-- `PenalizedSystem(n, …cfg)` -/
def fresh (n : Nat) (hasPentapy : Bool) (c : Cfg) : PSys := reset (initSys n hasPentapy) c

/-- `self.penalty` for lam = 1: padded original diagonals -/
def PSys.penalty (s : PSys) : List (List Int) :=
  padDiagonals (s.orig.getD []) s.padding s.lower s.n

end PbVerif.Banded
