import PbVerif.Model.Banded
import PbVerif.Model.Whittaker
/-! M6 (C10): how the `banded_solver` setting (1–4) and the importability of pentapy decide the storage
layout of the penalty and the solver a Whittaker system is handed to, and the matrix each solver reads
from the array it receives (LAPACK lower, LAPACK full, pentapy row-wise).  Import-free. -/
namespace PbVerif.Backend
open PbVerif.Banded PbVerif.Whittaker

inductive Route
  | pentapy (variant : Nat)    -- `pentapy.solve(…, is_flat=True, index_row_wise=True, solver=variant)`
  | solveh                     -- `scipy.linalg.solveh_banded(lower=True)`
  | solveBanded                -- `scipy.linalg.solve_banded((d, d), …)`
deriving DecidableEq, Repr

/-- `_setup_whittaker`: `allow_lower = allow_lower and self.banded_solver < 4` -/
def allowLower (methodAllowLower : Bool) (solver : Nat) : Bool := methodAllowLower && decide (solver < 4)
/-- `allow_pentapy = self.banded_solver < 3` -/
def allowPentapy (solver : Nat) : Bool := decide (solver < 3)
/-- the `banded_solver` setter: `_pentapy_solver = solver if solver < 3 else 1` -/
def pentapyVariant (solver : Nat) : Nat := if solver < 3 then solver else 1

def cfgOf (solver d : Nat) (methodAllowLower : Bool) (rev : Option Bool) : Cfg :=
  { diffOrder := d, allowLower := allowLower methodAllowLower solver, reverseDiags := rev,
    allowPentapy := allowPentapy solver, padding := 0 }

/-- `PenalizedSystem.solve` dispatch -/
def route (s : PSys) (solver : Nat) : Route :=
  if s.usingPentapy then .pentapy (pentapyVariant solver) else if s.lower then .solveh else .solveBanded

/-- the system a method gets from `_setup_whittaker` -/
def setup (n : Nat) (hasPentapy : Bool) (solver d : Nat) (methodAllowLower : Bool) (rev : Option Bool) : PSys :=
  fresh n hasPentapy (cfgOf solver d methodAllowLower rev)

/-- pentapy's row-wise flattened storage with u upper bands: `A[i,j] = ab[u + i − j, i]` -/
def denRowwise (ab : List (List Rat)) (u i j : Nat) : Rat :=
  if j ≤ i + u ∧ u + i - j < ab.length then (ab.getD (u + i - j) []).getD i 0 else 0

/-- the matrix the routed solver reads from the array it is handed -/
def denRoute (r : Route) (ab : List (List Rat)) (d i j : Nat) : Rat :=
  match r with
  | .pentapy _ => denRowwise ab d i j
  | .solveh => denLower ab i j
  | .solveBanded => denFull ab d i j

/-- iasls on the pentapy branch reverses the first-order bands it adds as well (`diff_1_diags[::-1]`): this is `asmIasls … reversed` -/
def asmOf (kind : Kind) (n d : Nat) (lam p1 : Rat) (w alpha : List Rat) (s : PSys) : List (List Rat) :=
  match kind with
  | .std => asmStd n d lam w s.lower s.reversed
  | .iasls => asmIasls n d lam p1 w s.lower s.reversed
  | .aspls => asmAspls n d lam w alpha s.usingPentapy
  | .drpls => asmDrpls n d lam p1 w s.usingPentapy

def docOf (kind : Kind) (n d : Nat) (lam p1 : Rat) (w alpha : List Rat) (i j : Nat) : Rat :=
  match kind with
  | .std => docStd n d lam w i j
  | .iasls => docIasls n d lam p1 w i j
  | .aspls => docAspls n d lam w alpha i j
  | .drpls => docDrpls n d lam p1 w i j

/-- how each method calls `_setup_whittaker`: (allow_lower, reverse_diags) -/
def methodFlags : Kind → Bool × Option Bool
  | .std => (true, none)
  | .iasls => (true, none)
  | .aspls => (false, some true)
  | .drpls => (false, some false)

end PbVerif.Backend
