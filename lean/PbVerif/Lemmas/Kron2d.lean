import PbVerif.Lemmas.Whittaker
import Mathlib.Algebra.BigOperators.Group.Finset.Basic
import Mathlib.Algebra.BigOperators.Ring.Finset
/-! Lemmas for C06 (2-D): the Kronecker-sum penalty acting on the row-major vec, over any commutative ring,
and the documented 2-D system `doc2d` / the assembled `asm2d` as instances. -/
set_option linter.unusedVariables false
namespace PbVerif.Lemmas
open PbVerif.Banded PbVerif.Whittaker Finset

section generic
variable {α : Type} [CommRing α]

/-- entry (a, b) of `A ⊗ B` for an `n × n` right factor, row-major: `A[a / n, b / n] · B[a % n, b % n]` -/
def kronG (A B : Nat → Nat → α) (n a b : Nat) : α := A (a / n) (b / n) * B (a % n) (b % n)
def idG (i j : Nat) : α := if i = j then 1 else 0

theorem sum_range_mul_G (M N : Nat) (f : Nat → α) :
    ∑ b ∈ range (M * N), f b = ∑ i ∈ range M, ∑ j ∈ range N, f (i * N + j) := by
  induction M with
  | zero => simp
  | succ M ih => rw [Nat.succ_mul, sum_range_add, ih, sum_range_succ]

theorem divmod_pair (N p q : Nat) (hq : q < N) : (p * N + q) / N = p ∧ (p * N + q) % N = q := by
  have hN : 0 < N := by omega
  constructor
  · rw [Nat.add_comm, Nat.add_mul_div_right _ _ hN, Nat.div_eq_of_lt hq, Nat.zero_add]
  · rw [Nat.add_comm, Nat.add_mul_mod_self_right, Nat.mod_eq_of_lt hq]

/-- **Kronecker-sum penalty on the row-major vec**: for an `M × N` array `V`,
`(λ_r P_r ⊗ I_N + I_M ⊗ λ_c P_c) vec(V) = vec(λ_r P_r V + λ_c V P_cᵀ)`, entry `(i, j)`, all `M`, `N`, any commutative ring -/
theorem kron_penalty_vec_G (M N : Nat) (lr lc : α) (Pr Pc V : Nat → Nat → α) (i j : Nat) (hi : i < M) (hj : j < N) :
    ∑ b ∈ range (M * N), (kronG (fun p q => lr * Pr p q) idG N (i * N + j) b + kronG idG (fun p q => lc * Pc p q) N (i * N + j) b)
        * V (b / N) (b % N)
      = lr * ∑ i' ∈ range M, Pr i i' * V i' j + lc * ∑ j' ∈ range N, V i j' * Pc j j' := by
  rw [sum_range_mul_G]
  obtain ⟨e1, e2⟩ := divmod_pair N i j hj
  have inner : ∀ i' ∈ range M, ∑ j' ∈ range N, (kronG (fun p q => lr * Pr p q) idG N (i * N + j) (i' * N + j')
        + kronG idG (fun p q => lc * Pc p q) N (i * N + j) (i' * N + j')) * V ((i' * N + j') / N) ((i' * N + j') % N)
      = lr * (Pr i i' * V i' j) + (if i = i' then lc * ∑ j' ∈ range N, V i j' * Pc j j' else 0) := by
    intro i' _
    have h : ∀ j' ∈ range N, (kronG (fun p q => lr * Pr p q) idG N (i * N + j) (i' * N + j')
        + kronG idG (fun p q => lc * Pc p q) N (i * N + j) (i' * N + j')) * V ((i' * N + j') / N) ((i' * N + j') % N)
        = (if j = j' then lr * (Pr i i' * V i' j) else 0) + (if i = i' then lc * (V i j' * Pc j j') else 0) := by
      intro j' hj'
      obtain ⟨f1, f2⟩ := divmod_pair N i' j' (mem_range.mp hj')
      unfold kronG idG
      rw [e1, e2, f1, f2]
      by_cases h1 : j = j' <;> by_cases h2 : i = i'
      · subst h1; subst h2; simp; ring
      · subst h1; simp [h2]; ring
      · subst h2; simp [h1]; ring
      · simp [h1, h2]
    rw [sum_congr rfl h, sum_add_distrib, sum_ite_eq, if_pos (mem_range.mpr hj)]
    by_cases h2 : i = i'
    · simp only [if_pos h2, mul_sum]
    · simp only [if_neg h2, sum_const_zero]
  rw [sum_congr rfl inner, sum_add_distrib, sum_ite_eq, if_pos (mem_range.mpr hi)]
  simp only [mul_sum]

end generic

/-! ### the `Rat` / list-sum instance the certificate evaluates -/

theorem w_foldl_add_eq (l : List Rat) (x : Rat) : l.foldl (· + ·) x = x + l.sum := by
  induction l generalizing x with
  | nil => simp
  | cons h t ih => simp [List.foldl_cons, ih, add_assoc]

theorem sumL_range_eq_finset (n : Nat) (f : Nat → Rat) : sumL ((List.range n).map f) = ∑ i ∈ range n, f i := by
  unfold sumL
  rw [w_foldl_add_eq, zero_add]
  induction n with
  | zero => simp
  | succ n ih => rw [List.range_succ, List.map_append, List.sum_append, ih, sum_range_succ]; simp

/-- the documented 2-D matrix is `diag(w) + λ_r P_r ⊗ I_n + I_m ⊗ λ_c P_c` (entrywise, Kronecker entries as `scipy.sparse.kron`) -/
theorem doc2d_eq_kron (m n dr dc : Nat) (lamr lamc : Rat) (w : List Rat) (a b : Nat) :
    doc2d m n dr dc lamr lamc w a b = delta a b (w.getD a 0) + pen2d m n dr dc lamr lamc a b := by
  unfold doc2d pen2d kronE idE
  simp only []
  by_cases h1 : a % n = b % n <;> by_cases h2 : a / n = b / n <;> simp [h1, h2, add_assoc]

/-- `add_diagonal` on the assembled penalty gives the documented matrix -/
theorem asm2d_eq_doc2d (m n dr dc : Nat) (lamr lamc : Rat) (w : List Rat) (a b : Nat) :
    asm2d m n dr dc lamr lamc w a b = doc2d m n dr dc lamr lamc w a b := by
  rw [doc2d_eq_kron]
  unfold asm2d delta
  by_cases h : a = b
  · subst h; rw [if_pos rfl, if_pos rfl]; ring
  · rw [if_neg h, if_neg h]; ring

/-- … with `P = D'D` (the dense definition) for indices inside the `mn × mn` system -/
theorem pen2d_eq_kron_DtD (m n dr dc : Nat) (lamr lamc : Rat) (a b : Nat) (ha : a < m * n) (hb : b < m * n) :
    pen2d m n dr dc lamr lamc a b
      = kronG (fun p q => lamr * dtdQ m dr p q) idG n a b + kronG idG (fun p q => lamc * dtdQ n dc p q) n a b := by
  have hn : 0 < n := by
    rcases n with _ | n
    · simp at ha
    · omega
  have h1 : a / n < m := Nat.div_lt_of_lt_mul (by rwa [Nat.mul_comm] at ha)
  have h2 : b / n < m := Nat.div_lt_of_lt_mul (by rwa [Nat.mul_comm] at hb)
  unfold pen2d kronE kronG idE idG
  beta_reduce
  rw [dtdFastQ_eq m dr _ _ h1 h2, dtdFastQ_eq n dc _ _ (Nat.mod_lt _ hn) (Nat.mod_lt _ hn)]

/-- **the documented 2-D system applied to a row-major vec**: row `(i, j)` of `doc2d · v` is
`w v + λ_r (D_r'D_r V)[i,j] + λ_c (V D_c'D_c)[i,j]` with `V[p,q] = v[p·n + q]` -/
theorem doc2d_mulVec (m n dr dc : Nat) (lamr lamc : Rat) (w v : List Rat) (i j : Nat) (hi : i < m) (hj : j < n) :
    sumL ((List.range (m * n)).map fun b => doc2d m n dr dc lamr lamc w (i * n + j) b * v.getD b 0)
      = w.getD (i * n + j) 0 * v.getD (i * n + j) 0
        + lamr * sumL ((List.range m).map fun i' => dtdQ m dr i i' * v.getD (i' * n + j) 0)
        + lamc * sumL ((List.range n).map fun j' => v.getD (i * n + j') 0 * dtdQ n dc j j') := by
  have ha : i * n + j < m * n := by
    calc i * n + j < i * n + n := by omega
      _ = (i + 1) * n := by ring
      _ ≤ m * n := Nat.mul_le_mul_right n hi
  rw [sumL_range_eq_finset, sumL_range_eq_finset, sumL_range_eq_finset]
  have key := kron_penalty_vec_G (α := Rat) m n lamr lamc (dtdQ m dr) (dtdQ n dc) (fun p q => v.getD (p * n + q) 0) i j hi hj
  simp only [Nat.div_add_mod'] at key
  rw [add_assoc, ← key, ← sum_ite_eq (range (m * n)) (i * n + j) (fun b => w.getD b 0 * v.getD b 0) |>.trans (if_pos (mem_range.mpr ha)),
    ← sum_add_distrib]
  apply sum_congr rfl
  intro b hb
  rw [doc2d_eq_kron, pen2d_eq_kron_DtD m n dr dc lamr lamc _ b ha (mem_range.mp hb)]
  unfold delta
  by_cases h : i * n + j = b
  · subst h; rw [if_pos rfl, if_pos rfl]; ring
  · rw [if_neg h, if_neg h]; ring

end PbVerif.Lemmas
