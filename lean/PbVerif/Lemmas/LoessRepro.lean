import Mathlib.LinearAlgebra.Vandermonde
import Mathlib.Algebra.Order.BigOperators.Ring.Finset
import Mathlib.Tactic.Ring
import Mathlib.Tactic.Linarith
import PbVerif.Lemmas.Poly
import PbVerif.Lemmas.Loess
import PbVerif.Lemmas.LoessKern
/-! C19: LOESS reproduces polynomials of degree ≤ poly_order (proofs).
Numeric layer, as a hypothesis: `_loess_solver` returns a solution of the normal equations it is handed
(`NormalEq`).  Everything else (what the local system contains, which points carry weight, uniqueness) is proved. -/
namespace PbVerif.Lemmas.LoessKern
open PbVerif.LoessKern PbVerif.Poly PbVerif.Lemmas
open Finset

/-! ### the algebraic core -/

/-- if `e` satisfies the homogeneous weighted normal equations of the monomial design `t_k^l · u_k`, and more
than `deg` nodes with `u_k ≠ 0` are pairwise distinct, then `e = 0` (sum of squares + Vandermonde) -/
theorem wls_core (m n : Nat) (t u e : Nat → Rat)
    (hne : ∀ j, j < n → ∑ k ∈ range m, (t k ^ j * u k) * (∑ l ∈ range n, (t k ^ l * u k) * e l) = 0)
    (good : Fin n → Nat) (hinj : Function.Injective fun a => t (good a))
    (hgm : ∀ a, good a < m) (hgu : ∀ a, u (good a) ≠ 0) :
    ∀ l, l < n → e l = 0 := by
  -- the weighted sum of squares of `A e` vanishes
  have hS : ∑ k ∈ range m, (∑ l ∈ range n, (t k ^ l * u k) * e l) ^ 2 = 0 := by
    have h1 : ∀ k, (∑ l ∈ range n, (t k ^ l * u k) * e l) ^ 2 =
        ∑ j ∈ range n, e j * ((t k ^ j * u k) * (∑ l ∈ range n, (t k ^ l * u k) * e l)) := by
      intro k
      rw [sq, Finset.sum_mul]
      apply Finset.sum_congr rfl
      intro j _
      ring
    simp only [h1]
    rw [Finset.sum_comm]
    apply Finset.sum_eq_zero
    intro j hj
    rw [← Finset.mul_sum, hne j (Finset.mem_range.1 hj), mul_zero]
  have hk : ∀ k ∈ range m, (∑ l ∈ range n, (t k ^ l * u k) * e l) ^ 2 = 0 :=
    (Finset.sum_eq_zero_iff_of_nonneg (fun k _ => sq_nonneg _)).1 hS
  -- at the nodes that carry weight the polynomial with coefficients `e` vanishes
  have hroot : ∀ a : Fin n, ∑ l : Fin n, e l * (t (good a)) ^ (l : ℕ) = 0 := by
    intro a
    have h := hk (good a) (Finset.mem_range.2 (hgm a))
    have h2 : ∑ l ∈ range n, (t (good a) ^ l * u (good a)) * e l = 0 := by
      simpa using h
    have h3 : u (good a) * ∑ l ∈ range n, e l * t (good a) ^ l = 0 := by
      rw [Finset.mul_sum, ← h2]
      apply Finset.sum_congr rfl
      intro l _
      ring
    rcases mul_eq_zero.1 h3 with h4 | h4
    · exact absurd h4 (hgu a)
    · rw [Fin.sum_univ_eq_sum_range (fun l => e l * t (good a) ^ l) n]; exact h4
  have hv := Matrix.eq_zero_of_forall_index_sum_mul_pow_eq_zero (R := Rat)
    (f := fun a => t (good a)) (v := fun l : Fin n => e l) hinj hroot
  intro l hl
  have := congrFun hv ⟨l, hl⟩
  simpa using this

/-- an injective enumeration of the first `n` entries of a duplicate-free list -/
theorem exists_good (g : List Nat) (n : Nat) (hn : n ≤ g.length) (hnd : g.Nodup) :
    ∃ good : Fin n → Nat, Function.Injective good ∧ ∀ a, good a ∈ g := by
  refine ⟨fun a => g[a.1]'(by omega), ?_, fun a => List.getElem_mem _⟩
  intro a b hab
  have := (List.Nodup.getElem_inj_iff hnd).1 hab
  exact Fin.ext this

/-! ### reading the local system -/

theorem getD_zipWith_mul (a b : List Rat) (k : Nat) :
    (List.zipWith (fun p q : Rat => p * q) a b).getD k 0 = a.getD k 0 * b.getD k 0 := by
  simp only [List.getD_eq_getElem?_getD, List.getElem?_zipWith]
  cases a[k]? <;> cases b[k]? <;> simp

theorem getD_slice (v : List Rat) (l r k : Nat) :
    (slice v l r).getD k 0 = if k < r - l then v.getD (l + k) 0 else 0 := by
  unfold slice
  simp only [List.getD_eq_getElem?_getD, List.getElem?_take, List.getElem?_drop]
  split <;> simp

theorem length_slice (v : List Rat) (l r : Nat) (hr : r ≤ v.length) : (slice v l r).length = r - l := by
  unfold slice; simp; omega

theorem vanderOf_getD (x : List Rat) (po k j : Nat) (hk : k < x.length) (hj : j < po + 1) :
    ((vanderOf x po).getD k []).getD j 0 = x.getD k 0 ^ j := by
  unfold vanderOf
  simp [List.getD_eq_getElem?_getD, hk, hj]

theorem vanderOf_row_length (x : List Rat) (po k : Nat) (hk : k < x.length) :
    ((vanderOf x po).getD k []).length = po + 1 := by
  unfold vanderOf
  simp [List.getD_eq_getElem?_getD, hk]

theorem ncols_vanderOf (x : List Rat) (po : Nat) (hx : 0 < x.length) : ncols (vanderOf x po) = po + 1 := by
  unfold ncols
  have := vanderOf_row_length x po 0 hx
  rwa [List.getD_eq_getElem?_getD, ← List.head?_eq_getElem?, ← List.headD_eq_head?_getD] at this

/-- entry `(j, k)` of `vander_fit` -/
theorem vanderFit_getD (sqrt : Rat → Rat) (x w : List Rat) (po j k : Nat) (hw : w.length = x.length)
    (hj : j < po + 1) (hk : k < x.length) :
    ((vanderFit (ratNum sqrt) (vanderOf x po) w).getD j []).getD k 0 = x.getD k 0 ^ j * w.getD k 0 := by
  have hx : 0 < x.length := by omega
  unfold vanderFit
  rw [ncols_vanderOf x po hx]
  have h1 : ((List.range (po + 1)).map fun j => List.zipWith
        (fun row wk => (ratNum sqrt).mul (row.getD j (ratNum sqrt).zero) wk) (vanderOf x po) w).getD j [] =
      List.zipWith (fun row wk => (ratNum sqrt).mul (row.getD j (ratNum sqrt).zero) wk) (vanderOf x po) w := by
    simp [List.getD_eq_getElem?_getD, hj]
  rw [h1]
  have hv : (vanderOf x po).length = x.length := by simp [vanderOf]
  have hkv : k < (vanderOf x po).length := by omega
  have hkw : k < w.length := by omega
  simp only [List.getD_eq_getElem?_getD, List.getElem?_zipWith, List.getElem?_eq_getElem hkv,
    List.getElem?_eq_getElem hkw, Option.getD_some]
  have := vanderOf_getD x po k j hk hj
  simp only [List.getD_eq_getElem?_getD, List.getElem?_eq_getElem hkv, Option.getD_some] at this
  simp only [ratNum]
  rw [this]

theorem sumL_eq_range (L : List Rat) : sumL L = ∑ l ∈ range L.length, L.getD l 0 := by
  rw [← sumL_range_map]
  congr 1
  apply List.ext_getElem
  · simp
  · intro k h1 h2
    simp [List.getD_eq_getElem?_getD, h1]

theorem evalPoly_pad (p : List Rat) (n : Nat) (hp : p.length ≤ n) (t : Rat) :
    evalPoly p t = ∑ l ∈ range n, p.getD l 0 * t ^ l := by
  rw [evalPoly_eq]
  apply Finset.sum_subset
  · intro a ha; rw [Finset.mem_range] at ha ⊢; omega
  · intro l _ hl
    rw [Finset.mem_range] at hl
    simp [List.getD_eq_getElem?_getD, List.getElem?_eq_none (show p.length ≤ l by omega)]

section system
variable (sqrt : Rat → Rat) (x y w kernel : List Rat) (po left right : Nat)

/-- the local system of one fit, written out -/
abbrev sysOf : List (List Rat) × List Rat :=
  localSystem (ratNum sqrt) (yFit (ratNum sqrt) y w) (vanderFit (ratNum sqrt) (vanderOf x po) w) kernel left right

theorem sys_rows (hx : 0 < x.length) : (sysOf sqrt x y w kernel po left right).1.length = po + 1 := by
  simp [sysOf, localSystem, vanderFit, ncols_vanderOf x po hx]

theorem sys_rhs_length (hy : y.length = x.length) (hw : w.length = x.length) (hr : right ≤ x.length)
    (hk : kernel.length = right - left) : (sysOf sqrt x y w kernel po left right).2.length = right - left := by
  have : (yFit (ratNum sqrt) y w).length = x.length := by simp [yFit, hy, hw]
  simp only [sysOf, localSystem, List.length_zipWith, hk]
  rw [length_slice _ _ _ (by omega)]
  simp

theorem sys_entry (hw : w.length = x.length) (hr : right ≤ x.length) (j k : Nat) (hj : j < po + 1)
    (hk : k < right - left) :
    ((sysOf sqrt x y w kernel po left right).1.getD j []).getD k 0 =
      kernel.getD k 0 * (x.getD (left + k) 0 ^ j * w.getD (left + k) 0) := by
  have hx : 0 < x.length := by omega
  have hrow : (sysOf sqrt x y w kernel po left right).1.getD j [] =
      List.zipWith (fun p q : Rat => p * q) kernel
        (slice ((vanderFit (ratNum sqrt) (vanderOf x po) w).getD j []) left right) := by
    have hlen : j < (vanderFit (ratNum sqrt) (vanderOf x po) w).length := by
      simp [vanderFit, ncols_vanderOf x po hx, hj]
    simp only [sysOf, localSystem, List.getD_eq_getElem?_getD, List.getElem?_map,
      List.getElem?_eq_getElem hlen, Option.map_some, Option.getD_some]
    rfl
  rw [hrow, getD_zipWith_mul, getD_slice, if_pos hk, vanderFit_getD sqrt x w po j (left + k) hw hj (by omega)]

theorem sys_rhs (k : Nat) (hk : k < right - left) :
    (sysOf sqrt x y w kernel po left right).2.getD k 0 =
      kernel.getD k 0 * (y.getD (left + k) 0 * w.getD (left + k) 0) := by
  have h : (sysOf sqrt x y w kernel po left right).2 =
      List.zipWith (fun p q : Rat => p * q) kernel
        (slice (List.zipWith (fun p q : Rat => p * q) y w) left right) := rfl
  rw [h, getD_zipWith_mul, getD_slice, if_pos hk, getD_zipWith_mul]

end system

/-- `a.dot(b)` over the rationals -/
theorem dot_eq (sqrt : Rat → Rat) (a b : List Rat) (n : Nat) (ha : a.length = n) (hb : b.length = n) :
    dot (ratNum sqrt) a b = ∑ l ∈ range n, a.getD l 0 * b.getD l 0 := by
  have h : dot (ratNum sqrt) a b = sumL (List.zipWith (fun p q : Rat => p * q) a b) := rfl
  rw [h, sumL_eq_range, List.length_zipWith, ha, hb, Nat.min_self]
  apply Finset.sum_congr rfl
  intro l _
  exact getD_zipWith_mul a b l

/-- **the local solve returns the polynomial's own coefficients.**  Window `[left, right)` inside the data, data
on a polynomial `p` of degree ≤ `poly_order` there, more than `poly_order` window points with non-zero total
weight `kernel·sqrt_w`, pairwise distinct `x`; numeric layer `hsol`: the solver's answer satisfies the normal
equations of the system it was handed.  (Any `kernel` vector, recomputed or cached.) -/
theorem solver_reproduces (sqrt : Rat → Rat) (solver : Solver Rat) (x y w kernel p : List Rat)
    (po left right : Nat) (hx : StrictMonoL x) (hy : y.length = x.length) (hw : w.length = x.length)
    (hlr : left < right) (hr : right ≤ x.length) (hk : kernel.length = right - left)
    (hp : p.length ≤ po + 1)
    (hdata : ∀ k, left ≤ k → k < right → y.getD k 0 = evalPoly p (x.getD k 0))
    (hpos : po < ((List.range (right - left)).filter fun k => kernel.getD k 0 * w.getD (left + k) 0 ≠ 0).length)
    (hsol : NormalEq (sysOf sqrt x y w kernel po left right).1 (sysOf sqrt x y w kernel po left right).2
      (solver (sysOf sqrt x y w kernel po left right).1 (sysOf sqrt x y w kernel po left right).2)) :
    (solver (sysOf sqrt x y w kernel po left right).1 (sysOf sqrt x y w kernel po left right).2).length = po + 1 ∧
    ∀ l, l < po + 1 →
      (solver (sysOf sqrt x y w kernel po left right).1 (sysOf sqrt x y w kernel po left right).2).getD l 0 =
        p.getD l 0 := by
  have hx0 : 0 < x.length := by omega
  set sys := sysOf sqrt x y w kernel po left right with hsys
  set c := solver sys.1 sys.2 with hc
  obtain ⟨hclen, hne⟩ := hsol
  rw [sys_rows sqrt x y w kernel po left right hx0] at hclen hne
  rw [sys_rhs_length sqrt x y w kernel po left right hy hw hr hk] at hne
  -- the nodes, their total weights, the coefficient error
  let t : Nat → Rat := fun k => x.getD (left + k) 0
  let u : Nat → Rat := fun k => kernel.getD k 0 * w.getD (left + k) 0
  let e : Nat → Rat := fun l => p.getD l 0 - c.getD l 0
  have hne' : ∀ j, j < po + 1 → ∑ k ∈ range (right - left),
      (t k ^ j * u k) * (∑ l ∈ range (po + 1), (t k ^ l * u k) * e l) = 0 := by
    intro j hj
    have h := hne j hj
    simp only [sumL_range_map] at h
    have hL : ∑ k ∈ range (right - left), (sys.1.getD j []).getD k 0 *
          ∑ l ∈ range (po + 1), (sys.1.getD l []).getD k 0 * c.getD l 0 =
        ∑ k ∈ range (right - left), (t k ^ j * u k) * ∑ l ∈ range (po + 1), (t k ^ l * u k) * c.getD l 0 := by
      apply Finset.sum_congr rfl
      intro k hk'
      rw [Finset.mem_range] at hk'
      rw [sys_entry sqrt x y w kernel po left right hw hr j k hj hk']
      congr 1
      · ring
      · apply Finset.sum_congr rfl
        intro l hl
        rw [Finset.mem_range] at hl
        rw [sys_entry sqrt x y w kernel po left right hw hr l k hl hk']
        ring
    have hR : ∑ k ∈ range (right - left), (sys.1.getD j []).getD k 0 * sys.2.getD k 0 =
        ∑ k ∈ range (right - left), (t k ^ j * u k) * ∑ l ∈ range (po + 1), (t k ^ l * u k) * p.getD l 0 := by
      apply Finset.sum_congr rfl
      intro k hk'
      rw [Finset.mem_range] at hk'
      rw [sys_entry sqrt x y w kernel po left right hw hr j k hj hk', sys_rhs sqrt x y w kernel po left right k hk',
        hdata (left + k) (by omega) (by omega), evalPoly_pad p (po + 1) hp]
      have hs : ∑ l ∈ range (po + 1), (t k ^ l * u k) * p.getD l 0 =
          u k * ∑ l ∈ range (po + 1), p.getD l 0 * x.getD (left + k) 0 ^ l := by
        rw [Finset.mul_sum]
        apply Finset.sum_congr rfl
        intro l _
        simp only [t]
        ring
      rw [hs]
      simp only [t, u]
      ring
    rw [hL, hR] at h
    have : ∀ k, (t k ^ j * u k) * (∑ l ∈ range (po + 1), (t k ^ l * u k) * e l) =
        (t k ^ j * u k) * (∑ l ∈ range (po + 1), (t k ^ l * u k) * p.getD l 0) -
        (t k ^ j * u k) * (∑ l ∈ range (po + 1), (t k ^ l * u k) * c.getD l 0) := by
      intro k
      rw [← mul_sub, ← Finset.sum_sub_distrib]
      congr 1
      apply Finset.sum_congr rfl
      intro l _
      ring
    simp only [this, Finset.sum_sub_distrib]
    rw [h, sub_self]
  -- more than poly_order distinct nodes carry weight
  obtain ⟨good, hginj, hgmem⟩ := exists_good
    ((List.range (right - left)).filter fun k => kernel.getD k 0 * w.getD (left + k) 0 ≠ 0) (po + 1) hpos
    (List.Nodup.filter _ List.nodup_range)
  have hgm : ∀ a, good a < right - left := fun a => by
    have := (List.mem_filter.1 (hgmem a)).1
    exact List.mem_range.1 this
  have hgu : ∀ a, u (good a) ≠ 0 := fun a => by
    exact of_decide_eq_true (List.mem_filter.1 (hgmem a)).2
  have hinj : Function.Injective fun a => t (good a) := by
    intro a b hab
    apply hginj
    have ha := hgm a
    have hb := hgm b
    by_contra hne2
    rcases Nat.lt_or_gt_of_ne hne2 with h | h
    · have := hx (left + good a) (left + good b) (by omega) (by omega)
      exact absurd hab (ne_of_lt this)
    · have := hx (left + good b) (left + good a) (by omega) (by omega)
      exact absurd hab.symm (ne_of_lt this)
  have he := wls_core (right - left) (po + 1) t u e hne' good hinj hgm hgu
  refine ⟨hclen, fun l hl => ?_⟩
  have h2 : p.getD l 0 - c.getD l 0 = 0 := he l hl
  linarith

/-- … hence `coefs[i]` is `p` (padded with zeros to `poly_order + 1` entries) and `baseline[i] = p(x[i])`,
for ANY evaluation point `i` -/
theorem fitAt_reproduces (sqrt : Rat → Rat) (solver : Solver Rat) (x y w kernel p : List Rat)
    (po i left right : Nat) (hx : StrictMonoL x) (hy : y.length = x.length) (hw : w.length = x.length)
    (hlr : left < right) (hr : right ≤ x.length) (hi : i < x.length) (hk : kernel.length = right - left)
    (hp : p.length ≤ po + 1)
    (hdata : ∀ k, left ≤ k → k < right → y.getD k 0 = evalPoly p (x.getD k 0))
    (hpos : po < ((List.range (right - left)).filter fun k => kernel.getD k 0 * w.getD (left + k) 0 ≠ 0).length)
    (hsol : NormalEq (sysOf sqrt x y w kernel po left right).1 (sysOf sqrt x y w kernel po left right).2
      (solver (sysOf sqrt x y w kernel po left right).1 (sysOf sqrt x y w kernel po left right).2)) :
    let r := fitAt (ratNum sqrt) solver (yFit (ratNum sqrt) y w) (vanderFit (ratNum sqrt) (vanderOf x po) w)
      (vanderOf x po) kernel i left right
    r.1 = (List.range (po + 1)).map (fun l => p.getD l 0) ∧ r.2 = evalPoly p (x.getD i 0) := by
  obtain ⟨hclen, hcl⟩ := solver_reproduces sqrt solver x y w kernel p po left right hx hy hw hlr hr hk hp hdata hpos hsol
  set c := solver (sysOf sqrt x y w kernel po left right).1 (sysOf sqrt x y w kernel po left right).2 with hc
  have h1 : (fitAt (ratNum sqrt) solver (yFit (ratNum sqrt) y w) (vanderFit (ratNum sqrt) (vanderOf x po) w)
      (vanderOf x po) kernel i left right) = (c, dot (ratNum sqrt) ((vanderOf x po).getD i []) c) := rfl
  simp only [h1]
  constructor
  · apply List.ext_getElem
    · simp [hclen]
    · intro l h1 h2
      have := hcl l (by omega)
      simp only [List.getD_eq_getElem?_getD, List.getElem?_eq_getElem h1, Option.getD_some] at this
      simp [this]
  · rw [dot_eq sqrt _ c (po + 1) (vanderOf_row_length x po i hi) hclen, evalPoly_pad p (po + 1) hp]
    apply Finset.sum_congr rfl
    intro l hl
    rw [Finset.mem_range] at hl
    rw [vanderOf_getD x po i l hi hl, hcl l hl]
    ring

/-! ### the guards of the kernel computation -/

theorem diffs_length (sqrt : Rat → Rat) (x : List Rat) (i left right : Nat) (hr : right ≤ x.length) :
    (diffs (ratNum sqrt) x i left right).length = right - left := by
  simp [diffs, length_slice x left right hr]

theorem kernelOf_length (sqrt : Rat → Rat) (x : List Rat) (i left right : Nat) (hr : right ≤ x.length) :
    (kernelOf (ratNum sqrt) x i left right).length = right - left := by
  simp [kernelOf, diffs_length sqrt x i left right hr]

theorem diffs_getD (sqrt : Rat → Rat) (x : List Rat) (i left right k : Nat) (hk : k < right - left)
    (hr : right ≤ x.length) :
    (diffs (ratNum sqrt) x i left right).getD k 0 = |x.getD (left + k) 0 - x.getD i 0| := by
  have hlen := length_slice x left right hr
  have hk' : k < (slice x left right).length := by omega
  have h := getD_slice x left right k
  rw [if_pos hk] at h
  simp only [List.getD_eq_getElem?_getD, List.getElem?_eq_getElem hk', Option.getD_some] at h
  simp only [diffs, List.getD_eq_getElem?_getD, List.getElem?_map, List.getElem?_eq_getElem hk', Option.map_some,
    Option.getD_some, ratNum, h]
  split
  · rename_i hneg; rw [abs_of_neg hneg]
  · rename_i hneg; rw [abs_of_nonneg (not_lt.1 hneg)]

/-- **the kernel never divides by zero** on a window of at least two distinct abscissae that contains its fit
point: `max(difference[0], difference[-1]) > 0` -/
theorem kernelDen_pos (sqrt : Rat → Rat) (x : List Rat) (i left right : Nat) (hx : StrictMonoL x)
    (hli : left ≤ i) (hir : i < right) (h2 : left + 2 ≤ right) (hr : right ≤ x.length) :
    0 < kernelDen (ratNum sqrt) x i left right := by
  have hlen := diffs_length sqrt x i left right hr
  have hhead : (diffs (ratNum sqrt) x i left right).headD 0 = |x.getD left 0 - x.getD i 0| := by
    rw [List.headD_eq_head?_getD, List.head?_eq_getElem?, ← List.getD_eq_getElem?_getD,
      diffs_getD sqrt x i left right 0 (by omega) hr]
    simp
  have hlast : (diffs (ratNum sqrt) x i left right).getLastD 0 = |x.getD (right - 1) 0 - x.getD i 0| := by
    rw [List.getLastD_eq_getLast?, List.getLast?_eq_getElem?, ← List.getD_eq_getElem?_getD, hlen,
      diffs_getD sqrt x i left right (right - left - 1) (by omega) hr]
    congr 3
    omega
  unfold kernelDen pyMax
  have hz : (ratNum sqrt).zero = 0 := rfl
  rw [hz, hhead, hlast]
  by_cases hil : i = left
  · subst hil
    have := hx i (right - 1) (by omega) (by omega)
    have hpos : 0 < |x.getD (right - 1) 0 - x.getD i 0| := abs_pos.2 (by intro h0; linarith)
    simp only [sub_self, abs_zero, ratNum, decide_eq_true_eq]
    rw [if_pos hpos]
    exact hpos
  · have := hx left i (by omega) (by omega)
    have hpos : 0 < |x.getD left 0 - x.getD i 0| := abs_pos.2 (by intro h0; linarith)
    simp only [ratNum, decide_eq_true_eq]
    split
    · rename_i hlt; exact lt_trans hpos hlt
    · exact hpos

/-! ### every fitted point -/

/-- the hypotheses on one (fit `q.1`, window `[q.2.1, q.2.2)`) pair: the window lies inside the data, contains
its fit point and at least two points (the guards under which the kernel is computed without dividing by zero,
`kernelDen_pos`), more than `poly_order` of its points carry non-zero total weight `kernel·sqrt_w`, and — the
NUMERIC LAYER — `_loess_solver` returned a solution of the normal equations of this local system -/
def FitOk (sqrt : Rat → Rat) (solver : Solver Rat) (x y w : List Rat) (po : Nat) (q : Nat × Nat × Nat) : Prop :=
  q.2.1 ≤ q.1 ∧ q.1 < q.2.2 ∧ q.2.1 + 2 ≤ q.2.2 ∧ q.2.2 ≤ x.length ∧
  po < ((List.range (q.2.2 - q.2.1)).filter fun k =>
      (kernelOf (ratNum sqrt) x q.1 q.2.1 q.2.2).getD k 0 * w.getD (q.2.1 + k) 0 ≠ 0).length ∧
  NormalEq (sysOf sqrt x y w (kernelOf (ratNum sqrt) x q.1 q.2.1 q.2.2) po q.2.1 q.2.2).1
    (sysOf sqrt x y w (kernelOf (ratNum sqrt) x q.1 q.2.1 q.2.2) po q.2.1 q.2.2).2
    (solver (sysOf sqrt x y w (kernelOf (ratNum sqrt) x q.1 q.2.1 q.2.2) po q.2.1 q.2.2).1
      (sysOf sqrt x y w (kernelOf (ratNum sqrt) x q.1 q.2.1 q.2.2) po q.2.1 q.2.2).2)

instance (sqrt : Rat → Rat) (solver : Solver Rat) (x y w : List Rat) (po : Nat) (q : Nat × Nat × Nat) :
    Decidable (FitOk sqrt solver x y w po q) := by
  unfold FitOk; exact inferInstance

/-- **polynomial reproduction at every fitted point**, baseline and coefficients -/
theorem lowMemory_reproduces (sqrt : Rat → Rat) (solver : Solver Rat) (x y w p : List Rat)
    (coefs : List (List Rat)) (po : Nat) (windows : List (Nat × Nat)) (fits : List Nat)
    (hx : StrictMonoL x) (hy : y.length = x.length) (hw : w.length = x.length) (hc : coefs.length = x.length)
    (hp : p.length ≤ po + 1)
    (hdata : ∀ k, k < x.length → y.getD k 0 = evalPoly p (x.getD k 0))
    (hfit : ∀ q ∈ fits.zip windows, FitOk sqrt solver x y w po q) :
    let r := lowMemory (ratNum sqrt) solver x y w coefs (vanderOf x po) x.length windows fits
    ∀ q ∈ fits.zip windows,
      r.baseline.getD q.1 none = some (evalPoly p (x.getD q.1 0)) ∧
      r.coefs.getD q.1 [] = (List.range (po + 1)).map (fun l => p.getD l 0) := by
  intro r q hq
  have h := fold_write
    (fun p => fitAt (ratNum sqrt) solver (yFit (ratNum sqrt) y w) (vanderFit (ratNum sqrt) (vanderOf x po) w)
      (vanderOf x po) (kernelOf (ratNum sqrt) x p.1 p.2.1 p.2.2) p.1 p.2.1 p.2.2)
    (fits.zip windows) (out0 x.length coefs)
  obtain ⟨_, _, hj⟩ := h
  obtain ⟨q', hq', hqq, hb, hcf⟩ := (hj q.1).2 (List.mem_map.2 ⟨q, hq, rfl⟩)
  obtain ⟨h1, h2, h3, h4, h5, h6⟩ := hfit q' hq'
  have hrep := fitAt_reproduces sqrt solver x y w (kernelOf (ratNum sqrt) x q'.1 q'.2.1 q'.2.2) p po q'.1 q'.2.1 q'.2.2
    hx hy hw (by omega) h4 (by omega) (kernelOf_length sqrt x q'.1 q'.2.1 q'.2.2 h4) hp
    (fun k _ hk => hdata k (by omega)) h5 h6
  have hq1 : q.1 < x.length := by rw [← hqq]; omega
  constructor
  · have := hb (by simpa [out0] using hq1)
    show (lowMemory (ratNum sqrt) solver x y w coefs (vanderOf x po) x.length windows fits).baseline.getD q.1 none = _
    unfold lowMemory
    rw [this, hrep.2, hqq]
  · have := hcf (by simpa [out0, hc] using hq1)
    show (lowMemory (ratNum sqrt) solver x y w coefs (vanderOf x po) x.length windows fits).coefs.getD q.1 [] = _
    unfold lowMemory
    rw [this, hrep.1]

end PbVerif.Lemmas.LoessKern
