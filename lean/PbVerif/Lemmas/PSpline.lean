import PbVerif.Model.PSpline
import PbVerif.Lemmas.BSpline
import PbVerif.Lemmas.Whittaker
/-! Lemmas for C07. -/
namespace PbVerif.Lemmas
open PbVerif.BSpline PbVerif.Whittaker PbVerif.PSpline PbVerif.Banded

/-- all rows of a band table have length n -/
def RowsLen (a : List (List Rat)) (n : Nat) : Prop := ∀ r ∈ a, r.length = n

/-- `_add_diagonals` (lower storage) adds the denoted matrices, whichever array has fewer rows -/
theorem addDiagonalsLower_den (a b : List (List Rat)) (n : Nat) (ha : RowsLen a n) (hb : RowsLen b n) (i j : Nat) (hi : i < n) (hj : j < n) :
    denLower (addDiagonalsLower a b n) i j = denLower a i j + denLower b i j := by sorry

/-- the explicit product: `btbSpec` at band (|i−j|, min) is the dense `(B'WB)[i,j]` -/
theorem btbSpec_dense (deg : Nat) (rows : List Row) (ws : List Rat) (i j : Nat) :
    btbSpec deg rows ws (max i j - min i j) (min i j) = btwbAt deg rows ws i j := by sorry

/-- **P-spline system**: the lower bands handed to the solver denote `B'WB + λ D'D`, and the right-hand
side is `B'Wy`, for every degree, difference order (smaller or larger than the degree), knot count and weights -/
theorem pspline_asm_den (deg nb d : Nat) (lam : Rat) (rows : List Row) (ys ws : List Rat) (h : RowsWf deg nb rows)
    (hy : ys.length = rows.length) (hw : ws.length = rows.length) (i j : Nat) (hi : i < nb) (hj : j < nb) :
    denLower (asmPspline deg nb d lam rows ys ws).1 i j = docPspline deg nb d lam rows ws i j := by sorry
theorem pspline_asm_rhs (deg nb d : Nat) (lam : Rat) (rows : List Row) (ys ws : List Rat) (h : RowsWf deg nb rows)
    (hy : ys.length = rows.length) (hw : ws.length = rows.length) (c : Nat) (hc : c < nb) :
    (asmPspline deg nb d lam rows ys ws).2.getD c 0 = btySpec deg rows ys ws c := by sorry

end PbVerif.Lemmas
