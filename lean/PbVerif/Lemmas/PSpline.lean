import PbVerif.Model.PSpline
import PbVerif.Lemmas.BSpline
import PbVerif.Lemmas.Whittaker
/-! Lemmas for C07. -/
set_option linter.unusedVariables false
namespace PbVerif.Lemmas
open PbVerif.BSpline PbVerif.Whittaker PbVerif.PSpline PbVerif.Banded

/-- all rows of a band table have length n -/
def RowsLen (a : List (List Rat)) (n : Nat) : Prop := ∀ r ∈ a, r.length = n

theorem ps_shape_of_rowsLen (a : List (List Rat)) (n : Nat) (ha : RowsLen a n) : TblShape a a.length n := by
  refine ⟨rfl, fun r hr => ?_⟩
  rw [List.getD_eq_getElem?_getD, List.getElem?_eq_getElem hr]
  exact ha _ (List.getElem_mem hr)

theorem ps_shape_pad (a : List (List Rat)) (n k : Nat) (ha : RowsLen a n) (hk : a.length ≤ k) :
    TblShape (padLower a (k - a.length) n) k n := by
  have h := shape_padLower a (k - a.length) n _ (ps_shape_of_rowsLen a n ha)
  have e : a.length + (k - a.length) = k := by omega
  rw [e] at h; exact h

/-- `_add_diagonals` (lower storage) adds the denoted matrices, whichever array has fewer rows -/
theorem addDiagonalsLower_den (a b : List (List Rat)) (n : Nat) (ha : RowsLen a n) (hb : RowsLen b n) (i j : Nat) (hi : i < n) (hj : j < n) :
    denLower (addDiagonalsLower a b n) i j = denLower a i j + denLower b i j := by
  rw [denLower_eq, denLower_eq, denLower_eq]
  show ent (addB (padLower a (max a.length b.length - a.length) n) (padLower b (max a.length b.length - b.length) n)) _ _ = _
  rw [ent_addB _ _ (max a.length b.length) n _ _ (ps_shape_pad a n _ ha (Nat.le_max_left _ _))
    (ps_shape_pad b n _ hb (Nat.le_max_right _ _)), ent_padLower, ent_padLower]

theorem ps_foldl_add_eq (l : List Rat) (x : Rat) : l.foldl (· + ·) x = x + l.sum := by
  induction l generalizing x with
  | nil => simp
  | cons h t ih => simp [List.foldl_cons, ih, add_assoc]

theorem ps_sumL_eq_sum (l : List Rat) : sumL l = l.sum := by
  simp [sumL, ps_foldl_add_eq]

/-- the explicit product: `btbSpec` at band (|i−j|, min) is the dense `(B'WB)[i,j]` -/
theorem btbSpec_dense (deg : Nat) (rows : List Row) (ws : List Rat) (i j : Nat) :
    btbSpec deg rows ws (max i j - min i j) (min i j) = btwbAt deg rows ws i j := by
  unfold btbSpec btwbAt
  rw [ps_sumL_eq_sum]
  congr 1
  apply List.map_congr_left
  rintro ⟨row, w⟩ _
  show w * row.at deg (min i j + (max i j - min i j)) * row.at deg (min i j) = w * row.at deg i * row.at deg j
  by_cases h : i ≤ j
  · have e1 : min i j + (max i j - min i j) = j := by omega
    have e2 : min i j = i := by omega
    rw [e1, e2]; ring
  · have e1 : min i j + (max i j - min i j) = i := by omega
    have e2 : min i j = j := by omega
    rw [e1, e2]

theorem ps_sum_map_zero {α} (l : List α) (f : α → Rat) (h : ∀ p ∈ l, f p = 0) : (l.map f).sum = 0 := by
  induction l with
  | nil => rfl
  | cons a l ih =>
    rw [List.map_cons, List.sum_cons, h a (by simp), ih (fun p hp => h p (by simp [hp]))]; simp

/-- outside the band (offset > deg) the product vanishes -/
theorem ps_btbSpec_band (deg : Nat) (rows : List Row) (ws : List Rat) (r c : Nat) (hr : deg < r) :
    btbSpec deg rows ws r c = 0 := by
  unfold btbSpec
  apply ps_sum_map_zero
  rintro ⟨row, w⟩ _
  show w * row.at deg (c + r) * row.at deg c = 0
  unfold Row.at
  by_cases h1 : row.left ≤ c + deg ∧ c ≤ row.left
  · rw [if_neg (show ¬ (row.left ≤ c + r + deg ∧ c + r ≤ row.left) by omega)]; ring
  · rw [if_neg h1]; ring

theorem ps_btb_fold_shape {deg nb : Nat} (L : List (Row × Rat × Rat)) (acc : List (List Rat) × List Rat)
    (h1 : Shape (deg + 1) nb acc.1) :
    Shape (deg + 1) nb (L.foldl (fun acc (r, (y, w)) => accRow deg acc.1 acc.2 r y w) acc).1 := by
  induction L generalizing acc with
  | nil => exact h1
  | cons p L ih =>
    obtain ⟨row, y, w⟩ := p
    simp only [List.foldl_cons]
    exact ih _ (accRow_shape acc.2 row y w h1)

theorem ps_btb_shape (deg nb : Nat) (rows : List Row) (ys ws : List Rat) :
    TblShape (btbBty deg nb rows ys ws).1 (deg + 1) nb :=
  ps_btb_fold_shape (rows.zip (ys.zip ws)) _ (shape_init _ _)

theorem ps_rowsLen_of_shape (a : List (List Rat)) (R n : Nat) (h : TblShape a R n) : RowsLen a n := by
  intro r hr
  obtain ⟨k, hk, rfl⟩ := List.getElem_of_mem hr
  have := h.2 k (by rw [← h.1]; exact hk)
  rwa [List.getD_eq_getElem?_getD, List.getElem?_eq_getElem hk] at this

/-- **P-spline system**: the lower bands handed to the solver denote `B'WB + λ D'D`, and the right-hand
side is `B'Wy`, for every degree, difference order (smaller or larger than the degree), knot count and weights -/
theorem pspline_asm_den (deg nb d : Nat) (lam : Rat) (rows : List Row) (ys ws : List Rat) (h : RowsWf deg nb rows)
    (hy : ys.length = rows.length) (hw : ws.length = rows.length) (i j : Nat) (hi : i < nb) (hj : j < nb) :
    denLower (asmPspline deg nb d lam rows ys ws).1 i j = docPspline deg nb d lam rows ws i j := by
  show denLower (addDiagonalsLower (btbBty deg nb rows ys ws).1 (scale lam (bandsQ nb d true)) nb) i j = _
  have hs := ps_btb_shape deg nb rows ys ws
  rw [addDiagonalsLower_den _ _ nb (ps_rowsLen_of_shape _ _ _ hs)
    (ps_rowsLen_of_shape _ _ _ (shape_scale lam _ _ _ (shape_bandsQ_lower nb d))) i j hi hj]
  unfold docPspline
  congr 1
  · by_cases hb : max i j - min i j ≤ deg
    · exact btb_eq deg nb rows ys ws h hy hw _ _ hb (by omega)
    · rw [denLower_eq, ent_oob_row _ _ _ (by rw [hs.1]; omega), ps_btbSpec_band deg rows ws _ _ (by omega)]
  · rw [denLower_eq, ent_scale, ent_bandsQ_lower_eq nb d i j hi hj]

theorem pspline_asm_rhs (deg nb d : Nat) (lam : Rat) (rows : List Row) (ys ws : List Rat) (h : RowsWf deg nb rows)
    (hy : ys.length = rows.length) (hw : ws.length = rows.length) (c : Nat) (hc : c < nb) :
    (asmPspline deg nb d lam rows ys ws).2.getD c 0 = btySpec deg rows ys ws c :=
  bty_eq deg nb rows ys ws h hy hw c hc

/-- `_basis_midpoints` returns one point per basis function -/
theorem basisMidpoints_length (knots : List Rat) (deg : Nat) :
    (basisMidpoints knots deg).length = basisMidpointsCount knots.length deg := by
  unfold basisMidpoints basisMidpointsCount
  by_cases hd : deg % 2 = 1
  · simp only [hd, if_true, List.length_drop, List.length_take]; omega
  · simp only [hd, if_false, List.length_drop, List.length_take, List.length_zipWith]; omega

/-- equally spaced knots `a + j·h`, `j < K` -/
def apKnots (a h : Rat) (K : Nat) : List Rat := (List.range K).map fun (j : Nat) => a + (j : Rat) * h

/-- on equally spaced knots (what `_spline_knots` builds for penalised splines) the i-th midpoint is the centre of the
support `[t_i, t_{i+deg+1}]` of the i-th basis function, for odd and even degree alike -/
theorem apKnots_getD (a h : Rat) (K j : Nat) (hj : j < K) : (apKnots a h K).getD j 0 = a + (j : Rat) * h := by
  unfold apKnots
  simp [List.getD_eq_getElem?_getD, List.getElem?_map, List.getElem?_range hj]

theorem apKnots_getElem? (a h : Rat) (K j : Nat) (hj : j < K) : (apKnots a h K)[j]? = some (a + (j : Rat) * h) := by
  unfold apKnots
  simp [List.getElem?_map, List.getElem?_range hj]

theorem apKnots_length (a h : Rat) (K : Nat) : (apKnots a h K).length = K := by simp [apKnots]

theorem basisMidpoints_ap (a h : Rat) (K deg i : Nat) (hi : i + deg + 1 < K) :
    (basisMidpoints (apKnots a h K) deg).getD i 0 = ((apKnots a h K).getD i 0 + (apKnots a h K).getD (i + deg + 1) 0) / 2 := by
  rw [apKnots_getD a h K i (by omega), apKnots_getD a h K _ hi]
  unfold basisMidpoints
  have hdm := Nat.div_add_mod deg 2
  by_cases hd : deg % 2 = 1
  · simp only [hd, if_true, apKnots_length]
    rw [List.getD_eq_getElem?_getD, List.getElem?_drop, List.getElem?_take_of_lt (by omega),
      ← List.getD_eq_getElem?_getD, apKnots_getD a h K _ (by omega)]
    have e : deg = 2 * (deg / 2) + 1 := by omega
    generalize deg / 2 = q at e
    subst e; push_cast; ring
  · simp only [hd, if_false, apKnots_length, List.length_zipWith, List.length_drop]
    rw [List.getD_eq_getElem?_getD, List.getElem?_drop, List.getElem?_take_of_lt (by omega),
      List.getElem?_zipWith, List.getElem?_drop, apKnots_getElem? a h K _ (by omega),
      apKnots_getElem? a h K _ (by omega)]
    have e : deg = 2 * (deg / 2) := by omega
    generalize deg / 2 = q at e
    subst e
    simp only [Option.getD_some]; push_cast; ring

/-- the index search inside `npInterp` -/
theorem npInterp_fold_inv (xs : List Rat) (t : Rat) (h0 : xs.getD 0 0 ≤ t) (m : Nat) :
    (((List.range m).foldl (fun (acc j : Nat) => if xs.getD j 0 ≤ t then j else acc) 0 = 0) ∨
      ((List.range m).foldl (fun (acc j : Nat) => if xs.getD j 0 ≤ t then j else acc) 0 < m)) ∧
    xs.getD ((List.range m).foldl (fun (acc j : Nat) => if xs.getD j 0 ≤ t then j else acc) 0) 0 ≤ t ∧
    ∀ k, k < m → xs.getD k 0 ≤ t → k ≤ (List.range m).foldl (fun (acc j : Nat) => if xs.getD j 0 ≤ t then j else acc) 0 := by
  induction m with
  | zero => exact ⟨Or.inl rfl, h0, fun k hk _ => by omega⟩
  | succ m ih =>
    rw [List.range_succ, List.foldl_append, List.foldl_cons, List.foldl_nil]
    generalize (List.range m).foldl (fun (acc j : Nat) => if xs.getD j 0 ≤ t then j else acc) 0 = r at ih
    obtain ⟨h1, h2, h3⟩ := ih
    by_cases hm : xs.getD m 0 ≤ t
    · rw [if_pos hm]
      refine ⟨Or.inr (by omega), hm, fun k hk _ => by omega⟩
    · rw [if_neg hm]
      refine ⟨by omega, h2, fun k hk hkt => ?_⟩
      by_cases hkm : k = m
      · subst hkm; exact absurd hkt hm
      · exact h3 k (by omega) hkt

theorem pairwise_getD_lt (xs : List Rat) (hx : xs.Pairwise (· < ·)) (i j : Nat) (hij : i < j) (hj : j < xs.length) :
    xs.getD i 0 < xs.getD j 0 := by
  rw [List.getD_eq_getElem?_getD, List.getD_eq_getElem?_getD, List.getElem?_eq_getElem hj,
    List.getElem?_eq_getElem (by omega : i < xs.length)]
  exact List.pairwise_iff_getElem.mp hx i j (by omega) hj hij

/-- the three branches of `npInterp` -/
theorem npInterp_cases (xs vs : List Rat) (t : Rat) (hn : 0 < xs.length) :
    (t ≤ xs.getD 0 0 ∧ npInterp xs vs t = vs.getD 0 0) ∨
    (xs.getD 0 0 < t ∧ xs.getD (xs.length - 1) 0 ≤ t ∧ npInterp xs vs t = vs.getD (xs.length - 1) 0) ∨
    (∃ r, r + 1 < xs.length ∧ xs.getD r 0 ≤ t ∧ t < xs.getD (r + 1) 0 ∧
      npInterp xs vs t = vs.getD r 0 + (t - xs.getD r 0) * (vs.getD (r + 1) 0 - vs.getD r 0) / (xs.getD (r + 1) 0 - xs.getD r 0)) := by
  unfold npInterp
  simp only [show ¬ xs.length = 0 by omega, if_false]
  by_cases h1 : t ≤ xs.getD 0 0
  · left; exact ⟨h1, by rw [if_pos h1]⟩
  · rw [if_neg h1]
    have h1' : xs.getD 0 0 < t := lt_of_not_ge h1
    by_cases h2 : xs.getD (xs.length - 1) 0 ≤ t
    · right; left; exact ⟨h1', h2, by rw [if_pos h2]⟩
    · rw [if_neg h2]
      right; right
      obtain ⟨ha, hb, hc⟩ := npInterp_fold_inv xs t (le_of_lt h1') xs.length
      generalize (List.range xs.length).foldl (fun (acc j : Nat) => if xs.getD j 0 ≤ t then j else acc) 0 = r at ha hb hc
      have hr : r + 1 < xs.length := by
        by_cases hr : r = xs.length - 1
        · subst hr; exact absurd hb h2
        · omega
      refine ⟨r, hr, hb, ?_, rfl⟩
      by_contra hlt
      have := hc (r + 1) hr (le_of_not_gt hlt)
      omega

theorem convex_bounds (lo hi v0 v1 x0 x1 t : Rat) (h0 : x0 ≤ t) (h1 : t < x1) (a0 : lo ≤ v0) (b0 : v0 ≤ hi) (a1 : lo ≤ v1) (b1 : v1 ≤ hi) :
    lo ≤ v0 + (t - x0) * (v1 - v0) / (x1 - x0) ∧ v0 + (t - x0) * (v1 - v0) / (x1 - x0) ≤ hi := by
  have hd : 0 < x1 - x0 := by linarith
  have e : v0 + (t - x0) * (v1 - v0) / (x1 - x0) = ((x1 - t) * v0 + (t - x0) * v1) / (x1 - x0) := by
    field_simp; ring
  rw [e, le_div_iff₀ hd, div_le_iff₀ hd]
  have p1 : 0 ≤ t - x0 := by linarith
  have p2 : 0 ≤ x1 - t := by linarith
  constructor
  · nlinarith [mul_nonneg p2 (sub_nonneg.mpr a0), mul_nonneg p1 (sub_nonneg.mpr a1)]
  · nlinarith [mul_nonneg p2 (sub_nonneg.mpr b0), mul_nonneg p1 (sub_nonneg.mpr b1)]

theorem getD_mem_of_lt (vs : List Rat) (k : Nat) (hk : k < vs.length) : vs.getD k 0 ∈ vs := by
  rw [List.getD_eq_getElem?_getD, List.getElem?_eq_getElem hk]; exact List.getElem_mem hk

/-- `np.interp` reproduces the node values on strictly increasing abscissae -/
theorem npInterp_node (xs vs : List Rat) (hx : xs.Pairwise (· < ·)) (hl : vs.length = xs.length) (j : Nat) (hj : j < xs.length) :
    npInterp xs vs (xs.getD j 0) = vs.getD j 0 := by
  have hn : 0 < xs.length := by omega
  rcases npInterp_cases xs vs (xs.getD j 0) hn with ⟨h1, e⟩ | ⟨h0, h1, e⟩ | ⟨r, hr, h1, h2, e⟩
  · rw [e]
    by_cases hj0 : j = 0
    · rw [hj0]
    · exact absurd (pairwise_getD_lt xs hx 0 j (by omega) hj) (not_lt.mpr h1)
  · rw [e]
    by_cases hjn : j = xs.length - 1
    · rw [hjn]
    · exact absurd (pairwise_getD_lt xs hx j (xs.length - 1) (by omega) (by omega)) (not_lt.mpr h1)
  · rw [e]
    have hrj : r = j := by
      by_contra hne
      rcases Nat.lt_or_gt_of_ne hne with hlt | hgt
      · by_cases hs : r + 1 = j
        · rw [hs] at h2; exact lt_irrefl _ h2
        · exact lt_irrefl _ (lt_trans h2 (pairwise_getD_lt xs hx (r + 1) j (by omega) hj))
      · exact absurd (pairwise_getD_lt xs hx j r hgt (by omega)) (not_lt.mpr h1)
    subst hrj
    simp

/-- interpolating a constant gives the constant (unit weights leave the penalty unscaled) -/
theorem npInterp_const (xs : List Rat) (v t : Rat) (hx : xs.Pairwise (· < ·)) (hn : 0 < xs.length) :
    npInterp xs (List.replicate xs.length v) t = v := by
  have hg : ∀ k, k < xs.length → (List.replicate xs.length v).getD k 0 = v := by
    intro k hk
    simp [List.getD_eq_getElem?_getD, hk]
  rcases npInterp_cases xs (List.replicate xs.length v) t hn with ⟨h1, e⟩ | ⟨h0, h1, e⟩ | ⟨r, hr, h1, h2, e⟩
  · rw [e, hg 0 hn]
  · rw [e, hg _ (by omega)]
  · rw [e, hg r (by omega), hg (r + 1) hr]; simp

/-- `np.interp` stays between the smallest and the largest value (so `0 ≤ w ≤ 1` gives `0 ≤ 1 − η w̃ ≤ 1` for `0 ≤ η ≤ 1`) -/
theorem npInterp_bounds (xs vs : List Rat) (lo hi t : Rat) (hx : xs.Pairwise (· < ·)) (hl : vs.length = xs.length) (hn : 0 < xs.length)
    (hb : ∀ v ∈ vs, lo ≤ v ∧ v ≤ hi) : lo ≤ npInterp xs vs t ∧ npInterp xs vs t ≤ hi := by
  rcases npInterp_cases xs vs t hn with ⟨h1, e⟩ | ⟨h0, h1, e⟩ | ⟨r, hr, h1, h2, e⟩
  · rw [e]; exact hb _ (getD_mem_of_lt vs 0 (by omega))
  · rw [e]; exact hb _ (getD_mem_of_lt vs _ (by omega))
  · rw [e]
    have b0 := hb _ (getD_mem_of_lt vs r (by omega))
    have b1 := hb _ (getD_mem_of_lt vs (r + 1) (by omega))
    exact convex_bounds lo hi _ _ _ _ t h1 h2 b0.1 b0.2 b1.1 b1.2

end PbVerif.Lemmas
