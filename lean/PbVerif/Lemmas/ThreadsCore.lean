import PbVerif.Model.Threads
/-! Generic invariant rule for interleavings (C04). -/
namespace PbVerif.Lemmas
open PbVerif.Threads

/-- thread-modular invariant rule: a global invariant `Inv s ts` over the shared state and the list of thread states that
holds initially and is preserved by a step of any thread holds after every schedule -/
theorem runSched_inv {σ τ α : Type} (P : Proto σ τ α) (Inv : σ → List τ → Prop)
    (hstep : ∀ s ts i t, Inv s ts → ts[i]? = some t → Inv (P.step s t).1 (ts.set i (P.step s t).2.1))
    (s : σ) (ts : List τ) (h0 : Inv s ts) (sched : List Nat) :
    Inv (runSched P s ts sched).1 (runSched P s ts sched).2 := by
  induction sched generalizing s ts with
  | nil => simpa [runSched] using h0
  | cons i rest ih =>
    unfold runSched
    cases hi : ts[i]? with
    | none => simpa using ih s ts h0
    | some t => simpa using ih _ _ (hstep s ts i t h0 hi)

theorem runSched_length {σ τ α : Type} (P : Proto σ τ α) (s : σ) (ts : List τ) (sched : List Nat) :
    (runSched P s ts sched).2.length = ts.length := by
  induction sched generalizing s ts with
  | nil => simp [runSched]
  | cons i rest ih =>
    unfold runSched
    cases hi : ts[i]? with
    | none => simpa using ih s ts
    | some t =>
      have := ih (P.step s t).1 (ts.set i (P.step s t).2.1)
      simpa using this

end PbVerif.Lemmas
