import PbVerif.Model.Cache
/-! Helper lemmas for C03 (proofs). -/
namespace PbVerif.Lemmas
open PbVerif.Cache

/-- coherence of the caches -/
def PolyOk (p : Poly) : Prop := p.cols = p.order + 1 ∧ (p.stale = false → p.pinvCols = some p.cols)
def Poly2Ok (p : Poly2) : Prop :=
  p.vKey = (p.orders, p.maxCross) ∧ (p.stale = false → p.pinvKey = some p.vKey)
def Coherent (s : St) : Prop :=
  (∀ p, s.poly = some p → PolyOk p) ∧ (∀ p, s.poly2 = some p → Poly2Ok p) ∧
  (s.validated = true → s.xUnique = true) ∧ (s.size = none → s.poly = none ∧ s.poly2 = none ∧ s.spline = none)

theorem coherent_init (twoD : Bool) (given : Option (Nat × Bool)) (h : ∀ n, given = some (n, false) → True) :
    Coherent (init twoD given) := by sorry

theorem coherent_step (s : St) (o : Op) (h : Coherent s) : Coherent (step s o).1 := by sorry

theorem coherent_run (s : St) (ops : List Op) (h : Coherent s) : Coherent (run s ops) := by sorry

/-- one-step refinement: from a coherent state every call has the fresh object's outcome -/
theorem callStep_refines (s : St) (c : Call) (h : Coherent s) : (callStep s c).2 = freshOutcome s c := by sorry

/-- x (size, uniqueness) is never changed once set -/
theorem xOf_step (s : St) (o : Op) (n : Nat) (u : Bool) (h : xOf s = some (n, u)) : xOf (step s o).1 = some (n, u) := by sorry

/-- powers 1, x, …, x^k: one row of `polyvander`; and the column-prefix law -/
def vanderRow (x : Rat) : Nat → List Rat
  | 0 => [1]
  | k+1 => vanderRow x k ++ [x ^ (k+1)]
theorem vanderRow_length (x : Rat) (k : Nat) : (vanderRow x k).length = k + 1 := by sorry
theorem vanderRow_prefix (x : Rat) (k K : Nat) (h : k ≤ K) : (vanderRow x K).take (k + 1) = vanderRow x k := by sorry

end PbVerif.Lemmas
