import PbVerif.Model.Cache
/-! Helper lemmas for C03 (proofs). -/
namespace PbVerif.Lemmas
open PbVerif.Cache

/-- coherence of the caches -/
def PolyOk (p : Poly) : Prop := p.cols = p.order + 1 ∧ (p.stale = false → p.pinvCols = some p.cols)
def Poly2Ok (p : Poly2) : Prop :=
  p.vKey = (p.orders, p.maxCross) ∧ (p.stale = false → p.pinvKey = some p.vKey)
def Coherent (s : St) : Prop :=
  (∀ p, s.poly = some p → PolyOk p) ∧ (∀ p, s.poly2 = some p → Poly2Ok p) ∧
  (s.validated = true → s.xUnique = true) ∧ (s.size = none → s.poly = none ∧ s.poly2 = none ∧ s.spline = none)

/-! ### the 1-D polynomial cache -/

theorem recalc_ok (sp : Option Poly) (k : Nat) (h : ∀ p, sp = some p → PolyOk p) :
    PolyOk (recalc sp k) ∧ (recalc sp k).order = k := by
  cases sp with
  | none => exact ⟨⟨rfl, fun hc => by cases hc⟩, rfl⟩
  | some p =>
    obtain ⟨h1, h2⟩ := h p rfl
    unfold recalc; dsimp only
    by_cases hgt : k > p.order
    · rw [if_pos hgt]
      exact ⟨⟨rfl, fun hc => by cases hc⟩, rfl⟩
    · rw [if_neg hgt]
      by_cases hlt : k < p.order
      · rw [if_pos hlt]
        refine ⟨⟨?_, fun hc => by cases hc⟩, rfl⟩
        show min p.cols (k + 1) = k + 1
        omega
      · rw [if_neg hlt]
        have : k = p.order := by omega
        subst this
        exact ⟨⟨h1, h2⟩, rfl⟩

theorem getPinv_ok (p : Poly) (h : PolyOk p) :
    PolyOk (getPinv p).1 ∧ (getPinv p).1.cols = p.cols ∧ (getPinv p).2 = p.cols := by
  obtain ⟨h1, h2⟩ := h
  unfold getPinv
  by_cases hc : (p.stale || p.pinvCols.isNone) = true
  · rw [if_pos hc]
    exact ⟨⟨h1, fun _ => rfl⟩, rfl, rfl⟩
  · rw [if_neg hc]
    have hs : p.stale = false := by
      cases hst : p.stale <;> simp [hst] at hc ⊢
    have := h2 hs
    refine ⟨⟨h1, h2⟩, rfl, ?_⟩
    show p.pinvCols.getD 0 = p.cols
    rw [this]; rfl

/-! ### the 2-D polynomial cache -/

theorem recalc2_ok (sp : Option Poly2) (o : Nat × Nat) (mc : Option Nat) (h : ∀ p, sp = some p → Poly2Ok p) :
    Poly2Ok (recalc2 sp o mc) ∧ (recalc2 sp o mc).vKey = (o, mc) := by
  cases sp with
  | none => exact ⟨⟨rfl, fun hc => by cases hc⟩, rfl⟩
  | some p =>
    obtain ⟨h1, h2⟩ := h p rfl
    unfold recalc2; dsimp only
    by_cases hc : (p.maxCross != mc || p.orders != o) = true
    · rw [if_pos hc]
      exact ⟨⟨rfl, fun hc => by cases hc⟩, rfl⟩
    · rw [if_neg hc]
      have hm : p.maxCross = mc := by
        by_cases hm : p.maxCross = mc
        · exact hm
        · exfalso; apply hc; simp [hm]
      have ho : p.orders = o := by
        by_cases ho : p.orders = o
        · exact ho
        · exfalso; apply hc; simp [ho]
      subst hm; subst ho
      exact ⟨⟨h1, h2⟩, h1⟩

theorem getPinv2_ok (p : Poly2) (h : Poly2Ok p) :
    Poly2Ok (getPinv2 p).1 ∧ (getPinv2 p).1.vKey = p.vKey ∧ (getPinv2 p).2 = p.vKey := by
  obtain ⟨h1, h2⟩ := h
  unfold getPinv2
  by_cases hc : (p.stale || p.pinvKey.isNone) = true
  · rw [if_pos hc]
    exact ⟨⟨h1, fun _ => rfl⟩, rfl, rfl⟩
  · rw [if_neg hc]
    have hs : p.stale = false := by
      cases hst : p.stale <;> simp [hst] at hc ⊢
    have := h2 hs
    refine ⟨⟨h1, h2⟩, rfl, ?_⟩
    show p.pinvKey.getD ((0, 0), none) = p.vKey
    rw [this]; rfl

/-! ### the method body -/

/-- the outcome of a body on an object whose caches are coherent (in particular: a fresh one) -/
def bodySpec : Kind → Outcome
  | .plain => .ok .none
  | .failsInside => .failed
  | .polyNoVander => .ok .none
  | .poly k weighted pinv =>
    .ok (.poly (k + 1) (if !pinv then none else if weighted then none else some (k + 1)))
  | .poly2 a b mc weighted pinv =>
    .ok (.poly2 ((a, b), mc) (if !pinv then none else if weighted then none else some ((a, b), mc)))
  | .spline kn dg failAfter => if failAfter then .failed else .ok (.spline (kn, dg))

theorem body_outcome (s : St) (k : Kind) (h1 : ∀ p, s.poly = some p → PolyOk p)
    (h2 : ∀ p, s.poly2 = some p → Poly2Ok p) : (body s k).2 = bodySpec k := by
  cases k with
  | plain => rfl
  | failsInside => rfl
  | polyNoVander => rfl
  | poly k w pv =>
    obtain ⟨hr, hord⟩ := recalc_ok s.poly k h1
    obtain ⟨_, hg1, hg2⟩ := getPinv_ok _ hr
    have hcols : (recalc s.poly k).cols = k + 1 := by rw [hr.1, hord]
    cases pv <;> cases w <;> simp [body, bodySpec, hcols, hg1, hg2]
  | poly2 a b mc w pv =>
    obtain ⟨hr, hkey⟩ := recalc2_ok s.poly2 (a, b) mc h2
    obtain ⟨_, hg1, hg2⟩ := getPinv2_ok _ hr
    cases pv <;> cases w <;> simp [body, bodySpec, hkey, hg1, hg2]
  | spline kn dg fa =>
    unfold body bodySpec
    cases hs : s.spline with
    | none => rfl
    | some key =>
      by_cases hk : key = (kn, dg)
      · subst hk; simp
      · simp [hk]

theorem body_coherent (s : St) (k : Kind) (h : Coherent s) (hs : s.size ≠ none) :
    Coherent (body s k).1 := by
  obtain ⟨h1, h2, h3, h4⟩ := h
  cases k with
  | plain => exact ⟨h1, h2, h3, h4⟩
  | failsInside => exact ⟨h1, h2, h3, h4⟩
  | polyNoVander => exact ⟨h1, h2, h3, h4⟩
  | poly k w pv =>
    obtain ⟨hr, _⟩ := recalc_ok s.poly k h1
    obtain ⟨hg, _, _⟩ := getPinv_ok _ hr
    cases pv <;> cases w <;>
      (refine ⟨?_, ?_, ?_, ?_⟩
       · intro p hp
         simp [body] at hp
         subst hp
         first | exact hr | exact hg
       · exact h2
       · exact h3
       · intro hn; exact absurd hn hs)
  | poly2 a b mc w pv =>
    obtain ⟨hr, _⟩ := recalc2_ok s.poly2 (a, b) mc h2
    obtain ⟨hg, _, _⟩ := getPinv2_ok _ hr
    cases pv <;> cases w <;>
      (refine ⟨?_, ?_, ?_, ?_⟩
       · exact h1
       · intro p hp
         simp [body] at hp
         subst hp
         first | exact hr | exact hg
       · exact h3
       · intro hn; exact absurd hn hs)
  | spline kn dg fa =>
    exact ⟨h1, h2, h3, fun hn => absurd hn hs⟩

theorem body_size (s : St) (k : Kind) :
    (body s k).1.size = s.size ∧ (body s k).1.xUnique = s.xUnique := by
  cases k with
  | plain => exact ⟨rfl, rfl⟩
  | failsInside => exact ⟨rfl, rfl⟩
  | polyNoVander => exact ⟨rfl, rfl⟩
  | poly k w pv => cases pv <;> cases w <;> exact ⟨rfl, rfl⟩
  | poly2 a b mc w pv => cases pv <;> cases w <;> exact ⟨rfl, rfl⟩
  | spline kn dg fa => exact ⟨rfl, rfl⟩

/-! ### the theorems -/

theorem coherent_init (twoD : Bool) (given : Option (Nat × Bool)) (h : ∀ n, given = some (n, false) → True) :
    Coherent (init twoD given) := by
  refine ⟨?_, ?_, ?_, ?_⟩
  · intro p hp; simp [init] at hp
  · intro p hp; simp [init] at hp
  · cases given with
    | none => intro _; rfl
    | some g => intro hv; simp [init] at hv
  · intro _; exact ⟨rfl, rfl, rfl⟩

/-- the state after `inner`'s x-validation -/
def mid (s : St) (c : Call) : St :=
  if c.uniqueX && !s.validated then { s with validated := true } else s

theorem callStep_none (s : St) (c : Call) (hsz : s.size = none) :
    callStep s c = body { s with size := some c.len, xUnique := true } c.kind := by
  unfold callStep
  split
  · rfl
  · next m hm => rw [hsz] at hm; cases hm

theorem callStep_some (s : St) (c : Call) (n : Nat) (hsz : s.size = some n) :
    callStep s c =
      if c.uniqueX && !s.validated && !s.xUnique then (s, .nonUniqueX)
      else if c.len != n then (mid s c, .lenMismatch) else body (mid s c) c.kind := by
  unfold callStep
  split
  · next hm => rw [hsz] at hm; cases hm
  · next m hm => rw [hsz] at hm; cases hm; rfl

theorem mid_fields (s : St) (c : Call) :
    (mid s c).size = s.size ∧ (mid s c).xUnique = s.xUnique ∧ (mid s c).poly = s.poly ∧
    (mid s c).poly2 = s.poly2 ∧ (mid s c).spline = s.spline := by
  unfold mid; split <;> exact ⟨rfl, rfl, rfl, rfl, rfl⟩

theorem mid_coherent (s : St) (c : Call) (h : Coherent s)
    (hA : ¬ (c.uniqueX && !s.validated && !s.xUnique) = true) : Coherent (mid s c) := by
  obtain ⟨h1, h2, h3, h4⟩ := h
  unfold mid
  by_cases hB : (c.uniqueX && !s.validated) = true
  · rw [if_pos hB]
    refine ⟨h1, h2, ?_, h4⟩
    intro _
    cases hx : s.xUnique with
    | true => rfl
    | false => exfalso; apply hA; simp [hB, hx]
  · rw [if_neg hB]
    exact ⟨h1, h2, h3, h4⟩

theorem callStep_coherent (s : St) (c : Call) (h : Coherent s) : Coherent (callStep s c).1 := by
  cases hsz : s.size with
  | none =>
    obtain ⟨h1, h2, h3, h4⟩ := h
    rw [callStep_none s c hsz]
    apply body_coherent
    · exact ⟨h1, h2, fun _ => rfl, fun hn => by cases hn⟩
    · intro hn; cases hn
  | some n =>
    rw [callStep_some s c n hsz]
    by_cases hA : (c.uniqueX && !s.validated && !s.xUnique) = true
    · rw [if_pos hA]; exact h
    · rw [if_neg hA]
      have hm := mid_coherent s c h hA
      by_cases hL : (c.len != n) = true
      · rw [if_pos hL]; exact hm
      · rw [if_neg hL]
        apply body_coherent _ _ hm
        rw [(mid_fields s c).1, hsz]; intro hn; cases hn

theorem coherent_step (s : St) (o : Op) (h : Coherent s) : Coherent (step s o).1 := by
  cases o with
  | call c => exact callStep_coherent s c h
  | setSolver v isBool =>
    dsimp only [step]
    split
    · exact h
    · exact h

theorem coherent_run (s : St) (ops : List Op) (h : Coherent s) : Coherent (run s ops) := by
  unfold run
  induction ops generalizing s with
  | nil => exact h
  | cons o ops ih => exact ih _ (coherent_step s o h)

/-- one-step refinement: from a coherent state every call has the fresh object's outcome -/
theorem callStep_refines (s : St) (c : Call) (h : Coherent s) : (callStep s c).2 = freshOutcome s c := by
  obtain ⟨h1, h2, h3, h4⟩ := h
  have hf1 : ∀ (t : St), t.poly = none → ∀ p, t.poly = some p → PolyOk p := by
    intro t ht p hp; rw [ht] at hp; cases hp
  have hf2 : ∀ (t : St), t.poly2 = none → ∀ p, t.poly2 = some p → Poly2Ok p := by
    intro t ht p hp; rw [ht] at hp; cases hp
  unfold freshOutcome
  cases hsz : s.size with
  | none =>
    have hx : xOf s = none := by unfold xOf; rw [hsz]; rfl
    rw [hx, callStep_none s c hsz, callStep_none _ c rfl]
    rw [body_outcome, body_outcome]
    · exact hf1 _ rfl
    · exact hf2 _ rfl
    · exact h1
    · exact h2
  | some n =>
    have hx : xOf s = some (n, s.xUnique) := by unfold xOf; rw [hsz]; rfl
    rw [hx, callStep_some s c n hsz, callStep_some (init s.twoD (some (n, s.xUnique))) c n rfl]
    generalize hF : init s.twoD (some (n, s.xUnique)) = F
    have hFv : F.validated = false := by rw [← hF]; rfl
    have hFx : F.xUnique = s.xUnique := by rw [← hF]; rfl
    have hFp : F.poly = none := by rw [← hF]; rfl
    have hFp2 : F.poly2 = none := by rw [← hF]; rfl
    by_cases hA : (c.uniqueX && !s.validated && !s.xUnique) = true
    · have hA' : (c.uniqueX && !F.validated && !F.xUnique) = true := by
        rw [hFv, hFx]
        cases hu : c.uniqueX <;> cases hx : s.xUnique <;> simp [hu, hx] at hA ⊢
      rw [if_pos hA, if_pos hA']
    · have hA' : ¬ (c.uniqueX && !F.validated && !F.xUnique) = true := by
        rw [hFv, hFx]
        cases hu : c.uniqueX <;> cases hx : s.xUnique <;> cases hv : s.validated <;>
          simp [hu, hx, hv] at hA h3 ⊢
      rw [if_neg hA, if_neg hA']
      by_cases hL : (c.len != n) = true
      · rw [if_pos hL, if_pos hL]
      · rw [if_neg hL, if_neg hL]
        obtain ⟨_, _, m1, m2, _⟩ := mid_fields s c
        obtain ⟨_, _, f1, f2, _⟩ := mid_fields F c
        rw [body_outcome, body_outcome]
        · rw [f1]; exact hf1 F hFp
        · rw [f2]; exact hf2 F hFp2
        · rw [m1]; exact h1
        · rw [m2]; exact h2

theorem callStep_xOf (s : St) (c : Call) (n : Nat) (u : Bool) (h : xOf s = some (n, u)) :
    xOf (callStep s c).1 = some (n, u) := by
  cases hsz : s.size with
  | none => unfold xOf at h; rw [hsz] at h; cases h
  | some m =>
    rw [callStep_some s c m hsz]
    have hmid : xOf (mid s c) = xOf s := by
      unfold xOf; rw [(mid_fields s c).1, (mid_fields s c).2.1]
    by_cases hA : (c.uniqueX && !s.validated && !s.xUnique) = true
    · rw [if_pos hA]; exact h
    · rw [if_neg hA]
      by_cases hL : (c.len != m) = true
      · rw [if_pos hL]; show xOf (mid s c) = _; rw [hmid]; exact h
      · rw [if_neg hL]
        obtain ⟨e1, e2⟩ := body_size (mid s c) c.kind
        rw [← h, ← hmid]
        unfold xOf
        rw [e1, e2]

/-- x (size, uniqueness) is never changed once set -/
theorem xOf_step (s : St) (o : Op) (n : Nat) (u : Bool) (h : xOf s = some (n, u)) : xOf (step s o).1 = some (n, u) := by
  cases o with
  | call c => exact callStep_xOf s c n u h
  | setSolver v isBool =>
    dsimp only [step]
    split
    · exact h
    · exact h

/-- powers 1, x, …, x^k: one row of `polyvander`; and the column-prefix law -/
def vanderRow (x : Rat) : Nat → List Rat
  | 0 => [1]
  | k+1 => vanderRow x k ++ [x ^ (k+1)]
theorem vanderRow_length (x : Rat) (k : Nat) : (vanderRow x k).length = k + 1 := by
  induction k with
  | zero => rfl
  | succ k ih => simp [vanderRow, ih]
theorem vanderRow_prefix (x : Rat) (k K : Nat) (h : k ≤ K) : (vanderRow x K).take (k + 1) = vanderRow x k := by
  induction K with
  | zero =>
    have : k = 0 := by omega
    subst this; rfl
  | succ K ih =>
    by_cases hk : k = K + 1
    · subst hk
      have := vanderRow_length x (K + 1)
      exact List.take_of_length_le (by omega)
    · have hle : k ≤ K := by omega
      have hlen := vanderRow_length x K
      show (vanderRow x K ++ [x ^ (K + 1)]).take (k + 1) = vanderRow x k
      rw [List.take_append_of_le_length (by omega)]
      exact ih hle

end PbVerif.Lemmas
