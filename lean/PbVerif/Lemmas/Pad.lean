import PbVerif.Model.Pad
/-! Helper lemmas for C18 (proofs). -/
namespace PbVerif.Lemmas
open PbVerif.Pad

theorem padEdges_length (ys : List Rat) (pad wl wr : Nat) : (padEdges ys pad wl wr).length = ys.length + 2 * pad := by sorry

theorem padEdges_interior (ys : List Rat) (pad wl wr i : Nat) (hi : i < ys.length) :
    (padEdges ys pad wl wr).getD (pad + i) 0 = ys.getD i 0 := by sorry

/-- a window of one point repeats the edge value -/
theorem padEdges_window_one (ys : List Rat) (pad k : Nat) (hk : k < pad) (hn : 1 ≤ ys.length) :
    (padEdges ys pad 1 1).getD k 0 = ys.getD 0 0 ∧
    (padEdges ys pad 1 1).getD (pad + ys.length + k) 0 = ys.getD (ys.length - 1) 0 := by sorry

/-- the least-squares line through exactly linear points is that line (at least two points) -/
theorem lsLine_linear_exact (a b : Rat) (x0 : Int) (w : Nat) (hw : 2 ≤ w) :
    lsLine ((List.range w).map fun (i : Nat) => a + b * (((x0 + (i : Int)) : Int) : Rat)) x0 = (a, b) := by sorry

/-- **exactly linear data is continued exactly**, on both sides, for every pad length, every data
length ≥ 2 and all windows ≥ 2 (also windows longer than the data) -/
theorem padEdges_linear_exact (a b : Rat) (n pad wl wr : Nat) (hn : 2 ≤ n) (hwl : 2 ≤ wl) (hwr : 2 ≤ wr) :
    padEdges ((List.range n).map fun (i : Nat) => a + b * (((pad + i : Nat) : Int) : Rat)) pad wl wr =
      (List.range (n + 2 * pad)).map fun (k : Nat) => a + b * (((k : Nat) : Int) : Rat) := by sorry

theorem paddedConvolveCore_length (padded kernel : List Rat) (p : Nat) :
    (paddedConvolveCore padded kernel p).length = padded.length - 2 * p := by sorry

/-- `p = ceil(min(N, K)/2) ≥ 1` for non-empty data and kernel, so `[p:-p]` is a proper slice -/
theorem convPadding_pos (n k : Nat) (hn : 1 ≤ n) (hk : 1 ≤ k) : 1 ≤ convPadding n k := by sorry

/-- constant data stay constant under any normalised kernel no longer than the data, whenever the
padding continues the constant -/
theorem paddedConvolve_const (c : Rat) (n : Nat) (kernel : List Rat) (hk : 1 ≤ kernel.length) (hkn : kernel.length ≤ n)
    (hsum : sumL kernel = 1) (i : Nat) (hi : i < n) :
    (paddedConvolveCore (List.replicate (n + 2 * convPadding n kernel.length) c) kernel (convPadding n kernel.length)).getD i 0 = c := by sorry

theorem normalize_sum (l : List Rat) (h : sumL l ≠ 0) : sumL (normalize l) = 1 := by sorry
theorem normalize_nonneg (l : List Rat) (h : ∀ v ∈ l, 0 ≤ v) : ∀ v ∈ normalize l, 0 ≤ v := by sorry
theorem normalize_symm (l : List Rat) (h : l.reverse = l) : (normalize l).reverse = normalize l := by sorry

theorem optimizeWindow_ge_one (hit : Nat → Bool) (inc maxHits minHw maxHw : Nat) :
    1 ≤ optimizeWindow hit inc maxHits minHw maxHw := by sorry

end PbVerif.Lemmas
