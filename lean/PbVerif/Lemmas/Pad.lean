import PbVerif.Model.Pad
import Mathlib.Tactic.Ring
import Mathlib.Tactic.Linarith
import Mathlib.Tactic.FieldSimp
import Mathlib.Algebra.Order.Field.Rat
/-! Helper lemmas for C18 (proofs). -/
namespace PbVerif.Lemmas
open PbVerif.Pad

/-! ### sums -/
theorem foldl_add_acc (l : List Rat) (a : Rat) :
    l.foldl (· + ·) a = a + l.foldl (· + ·) 0 := by
  induction l generalizing a with
  | nil => simp
  | cons x l ih =>
    simp only [List.foldl_cons]
    rw [ih (a + x), ih (0 + x)]
    ring

theorem sumL_nil : sumL [] = 0 := rfl

theorem sumL_cons (x : Rat) (l : List Rat) : sumL (x :: l) = x + sumL l := by
  unfold sumL
  simp only [List.foldl_cons]
  rw [foldl_add_acc]
  ring

theorem sumL_append (l m : List Rat) : sumL (l ++ m) = sumL l + sumL m := by
  induction l with
  | nil => simp [sumL_nil]
  | cons x l ih => simp only [List.cons_append, sumL_cons, ih]; ring

theorem sumL_map_mul_left {α : Type} (c : Rat) (f : α → Rat) (l : List α) :
    sumL (l.map fun x => c * f x) = c * sumL (l.map f) := by
  induction l with
  | nil => simp [sumL_nil]
  | cons x l ih => simp only [List.map_cons, sumL_cons, ih]; ring

theorem sumL_map_mul_right {α : Type} (c : Rat) (f : α → Rat) (l : List α) :
    sumL (l.map fun x => f x * c) = sumL (l.map f) * c := by
  induction l with
  | nil => simp [sumL_nil]
  | cons x l ih => simp only [List.map_cons, sumL_cons, ih]; ring

theorem sumL_map_div {α : Type} (c : Rat) (f : α → Rat) (l : List α) :
    sumL (l.map fun x => f x / c) = sumL (l.map f) / c := by
  induction l with
  | nil => simp [sumL_nil]
  | cons x l ih => simp only [List.map_cons, sumL_cons, ih]; ring

theorem sumL_map_add {α : Type} (f g : α → Rat) (l : List α) :
    sumL (l.map fun x => f x + g x) = sumL (l.map f) + sumL (l.map g) := by
  induction l with
  | nil => simp [sumL_nil]
  | cons x l ih => simp only [List.map_cons, sumL_cons, ih]; ring

theorem sumL_map_const {α : Type} (c : Rat) (l : List α) :
    sumL (l.map fun _ => c) = (l.length : Rat) * c := by
  induction l with
  | nil => simp [sumL_nil]
  | cons x l ih => simp only [List.map_cons, sumL_cons, ih, List.length_cons]; push_cast; ring

theorem sumL_range_succ (f : Nat → Rat) (w : Nat) :
    sumL ((List.range (w + 1)).map f) = sumL ((List.range w).map f) + f w := by
  rw [List.range_succ, List.map_append, sumL_append]
  simp [sumL_cons, sumL_nil]

theorem sumL_nonneg (l : List Rat) (h : ∀ v ∈ l, 0 ≤ v) : 0 ≤ sumL l := by
  induction l with
  | nil => simp [sumL_nil]
  | cons x l ih =>
    rw [sumL_cons]
    have h1 : 0 ≤ x := h x (by simp)
    have h2 : 0 ≤ sumL l := ih (fun v hv => h v (by simp [hv]))
    linarith

theorem map_getD_range (l : List Rat) : (List.range l.length).map (fun i => l.getD i 0) = l := by
  apply List.ext_getElem
  · simp
  · intro i h1 h2
    simp [List.getD_eq_getElem?_getD, h2]

/-! ### kernels, optimize_window -/
theorem normalize_sum (l : List Rat) (h : sumL l ≠ 0) : sumL (normalize l) = 1 := by
  unfold normalize
  rw [sumL_map_div (sumL l) (fun x => x) l]
  simp only [List.map_id']
  exact div_self h

theorem normalize_nonneg (l : List Rat) (h : ∀ v ∈ l, 0 ≤ v) : ∀ v ∈ normalize l, 0 ≤ v := by
  intro v hv
  unfold normalize at hv
  rw [List.mem_map] at hv
  obtain ⟨x, hx, rfl⟩ := hv
  exact div_nonneg (h x hx) (sumL_nonneg l h)

theorem normalize_symm (l : List Rat) (h : l.reverse = l) : (normalize l).reverse = normalize l := by
  unfold normalize
  rw [← List.map_reverse, h]

theorem optimizeWindow_ge_one (hit : Nat → Bool) (inc maxHits minHw maxHw : Nat) :
    1 ≤ optimizeWindow hit inc maxHits minHw maxHw := by
  unfold optimizeWindow
  exact Nat.le_max_right _ _

theorem paddedConvolveCore_length (padded kernel : List Rat) (p : Nat) :
    (paddedConvolveCore padded kernel p).length = padded.length - 2 * p := by
  simp [paddedConvolveCore]

theorem convPadding_pos (n k : Nat) (hn : 1 ≤ n) (hk : 1 ≤ k) : 1 ≤ convPadding n k := by
  unfold convPadding ceilHalf
  omega

/-! ### pad_edges -/
theorem getEdges_left_length (ys : List Rat) (pad wl wr : Nat) : (getEdges ys pad wl wr).1.length = pad := by
  unfold getEdges
  by_cases h : wl = 1 <;> simp [h]

theorem getEdges_right_length (ys : List Rat) (pad wl wr : Nat) : (getEdges ys pad wl wr).2.length = pad := by
  unfold getEdges
  by_cases h : wr = 1 <;> simp [h]

theorem padEdges_length (ys : List Rat) (pad wl wr : Nat) : (padEdges ys pad wl wr).length = ys.length + 2 * pad := by
  unfold padEdges
  by_cases h : pad = 0
  · simp [h]
  · simp only [h, if_false, List.length_append, getEdges_left_length, getEdges_right_length]
    omega

theorem padEdges_interior (ys : List Rat) (pad wl wr i : Nat) (hi : i < ys.length) :
    (padEdges ys pad wl wr).getD (pad + i) 0 = ys.getD i 0 := by
  unfold padEdges
  by_cases h : pad = 0
  · simp [h]
  · simp only [h, if_false, List.getD_eq_getElem?_getD]
    have hl := getEdges_left_length ys pad wl wr
    rw [List.append_assoc, List.getElem?_append_right (by omega), hl, Nat.add_sub_cancel_left,
      List.getElem?_append_left hi]

/-- a window of one point repeats the edge value -/
theorem padEdges_window_one (ys : List Rat) (pad k : Nat) (hk : k < pad) (hn : 1 ≤ ys.length) :
    (padEdges ys pad 1 1).getD k 0 = ys.getD 0 0 ∧
    (padEdges ys pad 1 1).getD (pad + ys.length + k) 0 = ys.getD (ys.length - 1) 0 := by
  have h : pad ≠ 0 := by omega
  have _ := hn
  unfold padEdges getEdges
  simp only [h, if_false, if_true, List.getD_eq_getElem?_getD]
  constructor
  · rw [List.append_assoc, List.getElem?_append_left (by simpa using hk)]
    simp [hk]
  · rw [List.getElem?_append_right (by simp)]
    simp [hk]

/-! ### least-squares line -/
theorem zipWith_map_same {α : Type} (f : Rat → Rat → Rat) (g h : α → Rat) (l : List α) :
    List.zipWith f (l.map g) (l.map h) = l.map fun i => f (g i) (h i) := by
  induction l with
  | nil => simp
  | cons x l ih => simp [ih]

theorem sum_x_closed (x0 : Rat) (w : Nat) :
    sumL ((List.range w).map fun (i : Nat) => x0 + (i : Rat)) = w * x0 + w * (w - 1) / 2 := by
  induction w with
  | zero => simp [sumL_nil]
  | succ w ih => rw [sumL_range_succ, ih]; push_cast; ring

theorem sum_xx_closed (x0 : Rat) (w : Nat) :
    sumL ((List.range w).map fun (i : Nat) => (x0 + (i : Rat)) * (x0 + (i : Rat))) =
      w * x0 ^ 2 + x0 * w * (w - 1) + (w - 1) * w * (2 * w - 1) / 6 := by
  induction w with
  | zero => simp [sumL_nil]
  | succ w ih => rw [sumL_range_succ, ih]; push_cast; ring

theorem lsLine_core (a b x0 : Rat) (w : Nat) (hw : 2 ≤ w) (s1 s2 t0 t1 : Rat)
    (hs1 : s1 = w * x0 + w * (w - 1) / 2)
    (hs2 : s2 = w * x0 ^ 2 + x0 * w * (w - 1) + (w - 1) * w * (2 * w - 1) / 6)
    (ht0 : t0 = w * a + b * s1) (ht1 : t1 = a * s1 + b * s2) :
    (w * t1 - s1 * t0) / (w * s2 - s1 * s1) = b ∧
      (t0 - b * s1) / w = a := by
  have hw' : (2 : Rat) ≤ w := by exact_mod_cast hw
  have hw0 : (w : Rat) ≠ 0 := by linarith
  have hden : (w : Rat) * s2 - s1 * s1 = w ^ 2 * (w - 1) * (w + 1) / 12 := by
    rw [hs1, hs2]; ring
  have hpos : (0 : Rat) < w ^ 2 * (w - 1) * (w + 1) / 12 := by
    have h1 : (0 : Rat) < w ^ 2 := by positivity
    have h2 : (0 : Rat) < w - 1 := by linarith
    have h3 : (0 : Rat) < w + 1 := by linarith
    exact div_pos (mul_pos (mul_pos h1 h2) h3) (by norm_num)
  have hden0 : (w : Rat) * s2 - s1 * s1 ≠ 0 := by rw [hden]; exact ne_of_gt hpos
  constructor
  · rw [div_eq_iff hden0, ht0, ht1]; ring
  · rw [div_eq_iff hw0, ht0]; ring

/-- the least-squares line through exactly linear points is that line (at least two points) -/
theorem lsLine_linear_exact (a b : Rat) (x0 : Int) (w : Nat) (hw : 2 ≤ w) :
    lsLine ((List.range w).map fun (i : Nat) => a + b * (((x0 + (i : Int)) : Int) : Rat)) x0 = (a, b) := by
  unfold lsLine
  simp only [List.length_map, List.length_range, List.map_map, zipWith_map_same]
  have hx : (fun (i : Nat) => (((x0 + (i : Int)) : Int) : Rat)) = fun (i : Nat) => (x0 : Rat) + (i : Rat) := by
    funext i; push_cast; rfl
  have hs1 := sum_x_closed (x0 : Rat) w
  have hs2 := sum_xx_closed (x0 : Rat) w
  have ht0 : sumL ((List.range w).map fun (i : Nat) => a + b * ((x0 : Rat) + (i : Rat))) =
      w * a + b * sumL ((List.range w).map fun (i : Nat) => (x0 : Rat) + (i : Rat)) := by
    rw [sumL_map_add (fun _ => a) (fun (i : Nat) => b * ((x0 : Rat) + (i : Rat))),
      sumL_map_const, sumL_map_mul_left]
    simp
  have ht1 : sumL ((List.range w).map fun (i : Nat) => ((x0 : Rat) + (i : Rat)) * (a + b * ((x0 : Rat) + (i : Rat)))) =
      a * sumL ((List.range w).map fun (i : Nat) => (x0 : Rat) + (i : Rat)) +
      b * sumL ((List.range w).map fun (i : Nat) => ((x0 : Rat) + (i : Rat)) * ((x0 : Rat) + (i : Rat))) := by
    rw [← sumL_map_mul_left, ← sumL_map_mul_left, ← sumL_map_add]
    congr 1
    apply List.map_congr_left
    intro i _
    ring
  obtain ⟨h1, h2⟩ := lsLine_core a b (x0 : Rat) w hw _ _ _ _ hs1 hs2 ht0 ht1
  simp only [Function.comp_def, Int.cast_add, Int.cast_natCast]
  rw [h1, h2]

theorem lsLine_of_getD (a b : Rat) (x0 : Int) (l : List Rat) (hw : 2 ≤ l.length)
    (hl : ∀ i, i < l.length → l.getD i 0 = a + b * (((x0 + (i : Int)) : Int) : Rat)) :
    lsLine l x0 = (a, b) := by
  have h : l = (List.range l.length).map fun (i : Nat) => a + b * (((x0 + (i : Int)) : Int) : Rat) := by
    conv_lhs => rw [← map_getD_range l]
    apply List.map_congr_left
    intro i hi
    exact hl i (List.mem_range.mp hi)
  rw [h]
  exact lsLine_linear_exact a b x0 l.length hw

theorem getEdges_linear (a b : Rat) (ys : List Rat) (pad wl wr : Nat) (hn : 2 ≤ ys.length)
    (hwl : 2 ≤ wl) (hwr : 2 ≤ wr)
    (hy : ∀ i, i < ys.length → ys.getD i 0 = a + b * (((pad + i : Nat) : Int) : Rat)) :
    getEdges ys pad wl wr =
      ((List.range pad).map fun (k : Nat) => a + b * (((k : Nat) : Int) : Rat),
       (List.range pad).map fun (k : Nat) => a + b * (((pad + ys.length + k : Nat) : Int) : Rat)) := by
  have h1 : wl ≠ 1 := by omega
  have h2 : wr ≠ 1 := by omega
  have hL : lsLine (ys.take wl) (pad : Int) = (a, b) := by
    apply lsLine_of_getD
    · rw [List.length_take]; omega
    · intro i hi
      rw [List.length_take] at hi
      have := hy i (by omega)
      rw [List.getD_eq_getElem?_getD] at this ⊢
      rw [List.getElem?_take, if_pos (by omega), this]
      push_cast; rfl
  have hR : lsLine (ys.drop (ys.length - wr)) ((pad + (ys.length - (ys.drop (ys.length - wr)).length) : Nat) : Int) = (a, b) := by
    apply lsLine_of_getD
    · rw [List.length_drop]; omega
    · intro i hi
      rw [List.length_drop] at hi ⊢
      have := hy (ys.length - wr + i) (by omega)
      rw [List.getD_eq_getElem?_getD] at this ⊢
      rw [List.getElem?_drop, this]
      congr 3
      omega
  unfold getEdges
  simp only [h1, h2, if_false, hL, hR, evalLine]

/-- **exactly linear data is continued exactly**, on both sides, for every pad length, every data
length ≥ 2 and all windows ≥ 2 (also windows longer than the data) -/
theorem padEdges_linear_exact (a b : Rat) (n pad wl wr : Nat) (hn : 2 ≤ n) (hwl : 2 ≤ wl) (hwr : 2 ≤ wr) :
    padEdges ((List.range n).map fun (i : Nat) => a + b * (((pad + i : Nat) : Int) : Rat)) pad wl wr =
      (List.range (n + 2 * pad)).map fun (k : Nat) => a + b * (((k : Nat) : Int) : Rat) := by
  unfold padEdges
  by_cases h : pad = 0
  · simp [h]
  · have hlen : ((List.range n).map fun (i : Nat) => a + b * (((pad + i : Nat) : Int) : Rat)).length = n := by
      simp
    have hE := getEdges_linear a b
      ((List.range n).map fun (i : Nat) => a + b * (((pad + i : Nat) : Int) : Rat)) pad wl wr
      (by rw [hlen]; exact hn) hwl hwr (by
        intro i hi
        rw [hlen] at hi
        simp [List.getD_eq_getElem?_getD, hi])
    rw [hlen] at hE
    simp only [h, if_false, hE]
    have hr : n + 2 * pad = pad + n + pad := by omega
    rw [hr, List.range_add, List.range_add, List.map_append, List.map_append, List.map_map, List.map_map]
    rfl

/-! ### padded_convolve -/
theorem convSame_const (c : Rat) (N : Nat) (kernel : List Rat) (q : Nat)
    (hlo : kernel.length ≤ q + (kernel.length - 1) / 2 + 1)
    (hhi : q + (kernel.length - 1) / 2 < N) :
    convSame (List.replicate N c) kernel q = sumL kernel * c := by
  unfold convSame
  simp only [List.length_replicate]
  rw [List.map_congr_left (g := fun j => kernel.getD j 0 * c)]
  · rw [sumL_map_mul_right, map_getD_range]
  · intro j hj
    rw [List.mem_range] at hj
    have ht : ((q : Int) + (((kernel.length - 1) / 2 : Nat) : Int) - (j : Int)).toNat < N := by omega
    rw [if_pos (by omega)]
    simp only [List.getD_eq_getElem?_getD, List.getElem?_replicate, if_pos ht, Option.getD_some]

/-- constant data stay constant under any normalised kernel no longer than the data, whenever the
padding continues the constant -/
theorem paddedConvolve_const (c : Rat) (n : Nat) (kernel : List Rat) (hk : 1 ≤ kernel.length) (hkn : kernel.length ≤ n)
    (hsum : sumL kernel = 1) (i : Nat) (hi : i < n) :
    (paddedConvolveCore (List.replicate (n + 2 * convPadding n kernel.length) c) kernel (convPadding n kernel.length)).getD i 0 = c := by
  have hp : convPadding n kernel.length = (kernel.length + 1) / 2 := by
    unfold convPadding ceilHalf
    rw [Nat.min_eq_right hkn]
  unfold paddedConvolveCore
  rw [hp]
  simp only [List.length_replicate, Nat.add_sub_cancel, List.getD_eq_getElem?_getD,
    List.getElem?_map, List.getElem?_range hi, Option.map_some, Option.getD_some]
  rw [convSame_const c _ kernel _ (by omega) (by omega), hsum, one_mul]

end PbVerif.Lemmas
