import PbVerif.Model.Kernels
/-! Index-bound lemmas for the remaining kernels (C05). -/
namespace PbVerif.Lemmas
open PbVerif.Kernels

/-- the clipped half window satisfies `2·hw + 1 ≤ dataLen` -/
theorem clipHw_le (dataLen hw : Nat) (h : 1 ≤ dataLen) : 2 * clipHw dataLen hw + 1 ≤ dataLen := by
  unfold clipHw
  split <;> omega

/-- `_directional_min_moving_avg`: for every `half_window ≥ 0` (it is clipped to `(L-1)//2`) and every
`1 ≤ data_len ≤ len(y)`, all indices are inside `[0, data_len)` -/
theorem dirMinMovAvg_inb (dataLen hw : Nat) (h : 1 ≤ dataLen) :
    ∀ i ∈ dirMinMovAvgIdx dataLen hw, 0 ≤ i ∧ i < (dataLen : Int) := by
  intro i hi
  have hc := clipHw_le dataLen hw h
  unfold dirMinMovAvgIdx at hi
  generalize clipHw dataLen hw = c at hi hc
  simp only [List.mem_append, List.mem_flatMap, List.mem_range, List.mem_cons,
    List.not_mem_nil, or_false] at hi
  rcases hi with ((hi | ⟨a, ha, hi⟩) | ⟨a, ha, hi⟩) | ⟨a, ha, hi⟩
  · omega
  · rcases hi with hi | hi | hi <;> omega
  · rcases hi with hi | hi | hi <;> omega
  · rcases hi with hi | hi | hi <;> omega

/-- `_rolling_std` on data padded by `half_window` on both sides (`numY = N + 2·hw`, `N ≥ 1`) -/
theorem rollingStdData_inb (n hw : Nat) (h : 1 ≤ n) :
    ∀ i ∈ rollingStdDataIdx (n + 2 * hw) hw, 0 ≤ i ∧ i < ((n + 2 * hw : Nat) : Int) := by
  intro i hi
  unfold rollingStdDataIdx at hi
  simp only [List.mem_append, List.mem_flatMap, List.mem_map, List.mem_range, List.mem_cons,
    List.not_mem_nil, or_false] at hi
  rcases hi with ((hi | ⟨a, ha, hi⟩) | ⟨a, ha, hi⟩) | ⟨a, ha, hi⟩
  · omega
  · omega
  · rcases hi with hi | hi <;> omega
  · omega

theorem rollingStdSq_inb (n hw : Nat) (h : 1 ≤ n) :
    ∀ i ∈ rollingStdSqIdx (n + 2 * hw) hw, 0 ≤ i ∧ i < ((n + 2 * hw : Nat) : Int) := by
  intro i hi
  unfold rollingStdSqIdx at hi
  simp only [List.mem_append, List.mem_flatMap, List.mem_range, List.mem_cons,
    List.not_mem_nil, or_false] at hi
  rcases hi with ((⟨a, ha, hi⟩ | hi) | ⟨a, ha, hi⟩) | ⟨a, ha, hi⟩
  · rcases hi with hi | hi <;> omega
  · rcases hi with hi | hi <;> omega
  · rcases hi with hi | hi <;> omega
  · rcases hi with hi | hi <;> omega

/-- coverage / non-vacuity: with `half_window = 1` the kernel reads the last element `y[L-1]`
(for `L = 3` through the growing window `y[2i]`, `i = 1`; for `L ≥ 4` through the full window
`y[i + hw]`, `i = L - 2`) -/
theorem dirMinMovAvg_touches_all (dataLen : Nat) (h : 3 ≤ dataLen) :
    ((dataLen - 1 : Nat) : Int) ∈ dirMinMovAvgIdx dataLen 1 := by
  have hc : clipHw dataLen 1 = 1 := by
    unfold clipHw
    split <;> omega
  unfold dirMinMovAvgIdx
  rw [hc]
  simp only [List.mem_append, List.mem_flatMap, List.mem_range, List.mem_cons,
    List.not_mem_nil, or_false]
  by_cases h4 : 4 ≤ dataLen
  · refine Or.inl (Or.inr ⟨dataLen - 4, by omega, Or.inl (by omega)⟩)
  · refine Or.inl (Or.inl (Or.inr ⟨0, by omega, Or.inr (Or.inl (by omega))⟩))

/-- coverage / non-vacuity: `_rolling_std` reads the last element of the padded data -/
theorem rollingStdData_touches_last (n hw : Nat) (h : 1 ≤ n) :
    ((n + 2 * hw - 1 : Nat) : Int) ∈ rollingStdDataIdx (n + 2 * hw) hw := by
  unfold rollingStdDataIdx
  simp only [List.mem_append, List.mem_flatMap, List.mem_map, List.mem_range, List.mem_cons,
    List.not_mem_nil, or_false]
  by_cases h2 : 2 ≤ n
  · refine Or.inl (Or.inr ⟨n - 2, by omega, Or.inr (by omega)⟩)
  · by_cases h0 : hw = 0
    · exact Or.inl (Or.inl (Or.inl (by omega)))
    · refine Or.inl (Or.inl (Or.inr ⟨2 * hw - 1, by omega, by omega⟩))

end PbVerif.Lemmas
