import PbVerif.Model.BandMul
import PbVerif.Lemmas.Whittaker
import Mathlib.Algebra.BigOperators.Group.Finset.Basic
/-! Lemmas for the band product (C10). -/
set_option linter.unusedVariables false
namespace PbVerif.Lemmas
open PbVerif.Whittaker PbVerif.BandMul

/-- a band array with l lower and u upper diagonals of an n × n matrix -/
def BandShape (t : Tbl) (l u n : Nat) : Prop := t.length = l + u + 1 ∧ ∀ r ∈ t, r.length = n

/-- a table with `R` rows of length `n` -/
def bm_Shape (t : Tbl) (R n : Nat) : Prop := t.length = R ∧ ∀ r ∈ t, r.length = n

theorem bm_foldl_add_eq (l : List Rat) (x : Rat) : l.foldl (· + ·) x = x + l.sum := by
  induction l generalizing x with
  | nil => simp
  | cons h t ih => simp [List.foldl_cons, ih, add_assoc]

theorem bm_sumL_eq_sum (l : List Rat) : sumL l = l.sum := by
  simp [sumL, bm_foldl_add_eq]

theorem bm_mem_modify {α} (l : List α) (k : Nat) (f : α → α) (x : α) (hx : x ∈ l.modify k f) :
    x ∈ l ∨ ∃ y ∈ l, x = f y := by
  induction l generalizing k with
  | nil => simp at hx
  | cons h t ih =>
    cases k with
    | zero =>
      simp only [List.modify_zero_cons, List.mem_cons] at hx
      rcases hx with hx | hx
      · exact Or.inr ⟨h, by simp, hx⟩
      · exact Or.inl (by simp [hx])
    | succ k =>
      simp only [List.modify_succ_cons, List.mem_cons] at hx
      rcases hx with hx | hx
      · exact Or.inl (by simp [hx])
      · rcases ih k hx with h1 | ⟨y, hy, h1⟩
        · exact Or.inl (by simp [h1])
        · exact Or.inr ⟨y, by simp [hy], h1⟩

theorem bm_tadd_shape (t : Tbl) (R n r c : Nat) (v : Rat) (ht : bm_Shape t R n) :
    bm_Shape (tadd t r c v) R n := by
  refine ⟨by simp [tadd, ht.1], ?_⟩
  intro row hrow
  rcases bm_mem_modify _ _ _ _ hrow with h | ⟨y, hy, h⟩
  · exact ht.2 _ h
  · rw [h, List.length_modify]; exact ht.2 _ hy

theorem bm_tget_tadd (t : Tbl) (R n r c : Nat) (v : Rat) (ht : bm_Shape t R n) (r' c' : Nat)
    (hr : r' < R) (hc : c' < n) :
    tget (tadd t r c v) r' c' = tget t r' c' + (if r = r' ∧ c = c' then v else 0) := by
  have hr' : r' < t.length := by rw [ht.1]; exact hr
  have hlen : (t[r']).length = n := ht.2 _ (List.getElem_mem hr')
  have hc' : c' < (t[r']).length := by rw [hlen]; exact hc
  simp only [tget, tadd, List.getD_eq_getElem?_getD, List.getElem?_modify,
    List.getElem?_eq_getElem hr', Option.map_eq_map, Option.map_some, Option.getD_some]
  by_cases h1 : r = r'
  · simp only [h1, if_true, true_and, List.getElem?_modify, List.getElem?_eq_getElem hc',
      Option.map_eq_map, Option.map_some, Option.getD_some]
    by_cases h2 : c = c'
    · simp [h2]
    · simp [h2]
  · simp [h1, List.getElem?_eq_getElem hc']

/-- generic accumulation: a fold of shape-preserving steps, each adding `g x` to the cell `(r, c)` -/
theorem bm_fold_cell {ι} (F : ι → Tbl → Tbl) (R n r c : Nat) (g : ι → Rat) (l : List ι)
    (hF : ∀ x ∈ l, ∀ t, bm_Shape t R n → bm_Shape (F x t) R n ∧ tget (F x t) r c = tget t r c + g x)
    (t : Tbl) (ht : bm_Shape t R n) :
    bm_Shape (l.foldl (fun t x => F x t) t) R n ∧
      tget (l.foldl (fun t x => F x t) t) r c = tget t r c + (l.map g).sum := by
  induction l generalizing t with
  | nil => simp [ht]
  | cons h tl ih =>
    have h1 := hF h (by simp) t ht
    have h2 := ih (fun x hx => hF x (by simp [hx])) (F h t) h1.1
    simp only [List.foldl_cons, List.map_cons, List.sum_cons]
    refine ⟨h2.1, ?_⟩
    rw [h2.2, h1.2, add_assoc]

theorem bm_fold_shape {ι} (F : ι → Tbl → Tbl) (R n : Nat) (l : List ι)
    (hF : ∀ x t, bm_Shape t R n → bm_Shape (F x t) R n) (t : Tbl) (ht : bm_Shape t R n) :
    bm_Shape (l.foldl (fun t x => F x t) t) R n := by
  induction l generalizing t with
  | nil => simpa using ht
  | cons h tl ih => exact ih (F h t) (hF h t ht)

theorem bm_frames_shape (a b : Tbl) (au bu cu n : Nat) (oc oa : Int) (c : Tbl) (R : Nat)
    (hc : bm_Shape c R n) : bm_Shape (frames a b au bu cu n oc oa c) R n := by
  unfold frames
  exact bm_fold_shape (fun (fr : Int) (c : Tbl) => tadd c ((cu : Int) + oc).toNat (fr - (oc - oa)).toNat
      (tget a ((au : Int) + oa).toNat fr.toNat * tget b ((bu : Int) + (oc - oa)).toNat (fr - (oc - oa)).toNat))
    R n _ (fun x t ht => bm_tadd_shape t R n _ _ _ ht) c hc

theorem bm_zero_shape (R n : Nat) : bm_Shape (List.replicate R (List.replicate n (0 : Rat))) R n := by
  refine ⟨by simp, ?_⟩
  intro r hr
  rw [List.mem_replicate] at hr
  simp [hr.2]

theorem bm_bandMul_shape (a b : Tbl) (al au bl bu cu n rows lb : Nat) :
    bm_Shape (bandMul a b al au bl bu cu n rows lb) rows n := by
  unfold bandMul
  exact bm_fold_shape (fun (oc : Int) (c : Tbl) =>
      (irange (-(min (au : Int) ((bl : Int) - oc))) (min (al : Int) ((bu : Int) + oc) + 1)).foldl
        (fun (c : Tbl) (oa : Int) => frames a b au bu cu n oc oa c) c) rows n _
    (fun oc t ht => bm_fold_shape (fun (oa : Int) (c : Tbl) => frames a b au bu cu n oc oa c) rows n _
      (fun oa t ht => bm_frames_shape a b au bu cu n oc oa t rows ht) t ht) _ (bm_zero_shape rows n)

theorem bm_mem_irange (lo hi x : Int) : x ∈ irange lo hi ↔ lo ≤ x ∧ x < hi := by
  simp only [irange, List.mem_map, List.mem_range]
  constructor
  · rintro ⟨k, hk, rfl⟩; omega
  · rintro ⟨h1, h2⟩; exact ⟨(x - lo).toNat, by omega, by omega⟩

theorem bm_nodup_irange (lo hi : Int) : (irange lo hi).Nodup := by
  unfold irange
  refine (List.nodup_map_iff_inj_on List.nodup_range).2 ?_
  intro x _ y _ h
  omega

theorem bm_sum_single {ι} [DecidableEq ι] (l : List ι) (hnd : l.Nodup) (f : ι → Rat) (x0 : ι)
    (h0 : ∀ x ∈ l, x ≠ x0 → f x = 0) : (l.map f).sum = if x0 ∈ l then f x0 else 0 := by
  rw [← List.sum_toFinset f hnd]
  by_cases hx : x0 ∈ l
  · rw [if_pos hx]
    exact Finset.sum_eq_single_of_mem x0 (List.mem_toFinset.2 hx)
      (fun b hb hne => h0 b (List.mem_toFinset.1 hb) hne)
  · rw [if_neg hx]
    exact Finset.sum_eq_zero (fun b hb => h0 b (List.mem_toFinset.1 hb) (fun e => hx (e ▸ List.mem_toFinset.1 hb)))

theorem bm_sum_reindex {α β} [DecidableEq α] [DecidableEq β] (l1 : List α) (nd1 : l1.Nodup)
    (l2 : List β) (nd2 : l2.Nodup) (f : α → Rat) (g : β → Rat) (φ : α → β)
    (hφ : ∀ x ∈ l1, f x ≠ 0 → φ x ∈ l2)
    (inj : ∀ x ∈ l1, ∀ y ∈ l1, f x ≠ 0 → f y ≠ 0 → φ x = φ y → x = y)
    (surj : ∀ k ∈ l2, g k ≠ 0 → ∃ x ∈ l1, f x ≠ 0 ∧ φ x = k)
    (h : ∀ x ∈ l1, f x ≠ 0 → f x = g (φ x)) : (l1.map f).sum = (l2.map g).sum := by
  rw [← List.sum_toFinset f nd1, ← List.sum_toFinset g nd2]
  refine Finset.sum_bij_ne_zero (fun x _ _ => φ x) ?_ ?_ ?_ ?_
  · intro x h1 h2; exact List.mem_toFinset.2 (hφ x (List.mem_toFinset.1 h1) h2)
  · intro x h1 h2 y h3 h4 e
    exact inj x (List.mem_toFinset.1 h1) y (List.mem_toFinset.1 h3) h2 h4 e
  · intro k hk hg
    obtain ⟨x, hx, hfx, e⟩ := surj k (List.mem_toFinset.1 hk) hg
    exact ⟨x, List.mem_toFinset.2 hx, hfx, e⟩
  · intro x h1 h2; exact h x (List.mem_toFinset.1 h1) h2

/-- contribution of one innermost iteration to the cell `(r, cc)` -/
def bm_term (a b : Tbl) (au bu cu : Nat) (oc oa : Int) (r cc : Nat) (fr : Int) : Rat :=
  if ((cu : Int) + oc).toNat = r ∧ (fr - (oc - oa)).toNat = cc then
    tget a ((au : Int) + oa).toNat fr.toNat * tget b ((bu : Int) + (oc - oa)).toNat (fr - (oc - oa)).toNat
  else 0

/-- contribution of one `frames` call -/
def bm_H (a b : Tbl) (au bu cu n : Nat) (oc : Int) (r cc : Nat) (oa : Int) : Rat :=
  ((irange (max 0 (max (-oa) (oc - oa))) (max 0 ((n : Int) + min 0 (min (-oa) (oc - oa))))).map
    (bm_term a b au bu cu oc oa r cc)).sum

/-- contribution of one outer iteration -/
def bm_G (a b : Tbl) (al au bl bu cu n : Nat) (r cc : Nat) (oc : Int) : Rat :=
  ((irange (-(min (au : Int) ((bl : Int) - oc))) (min (al : Int) ((bu : Int) + oc) + 1)).map
    (bm_H a b au bu cu n oc r cc)).sum

theorem bm_frames_cell (a b : Tbl) (au bu cu n : Nat) (oc oa : Int) (c : Tbl) (R : Nat)
    (hc : bm_Shape c R n) (r cc : Nat) (hr : r < R) (hcc : cc < n) :
    bm_Shape (frames a b au bu cu n oc oa c) R n ∧
    tget (frames a b au bu cu n oc oa c) r cc = tget c r cc + bm_H a b au bu cu n oc r cc oa := by
  unfold frames bm_H
  exact bm_fold_cell (fun (fr : Int) (c : Tbl) => tadd c ((cu : Int) + oc).toNat (fr - (oc - oa)).toNat
      (tget a ((au : Int) + oa).toNat fr.toNat * tget b ((bu : Int) + (oc - oa)).toNat (fr - (oc - oa)).toNat))
    R n r cc (bm_term a b au bu cu oc oa r cc) _
    (fun x _ t ht => ⟨bm_tadd_shape t R n _ _ _ ht, by
      rw [bm_tget_tadd t R n _ _ _ ht r cc hr hcc]; rfl⟩) c hc

theorem bm_bandMul_cell (a b : Tbl) (al au bl bu cu n rows lb : Nat) (r cc : Nat) (hr : r < rows) (hcc : cc < n) :
    tget (bandMul a b al au bl bu cu n rows lb) r cc =
      ((irange (-((au + bu : Nat) : Int)) ((lb : Int) + 1)).map (bm_G a b al au bl bu cu n r cc)).sum := by
  unfold bandMul
  have h := bm_fold_cell (fun (oc : Int) (c : Tbl) =>
      (irange (-(min (au : Int) ((bl : Int) - oc))) (min (al : Int) ((bu : Int) + oc) + 1)).foldl
        (fun (c : Tbl) (oa : Int) => frames a b au bu cu n oc oa c) c) rows n r cc
      (bm_G a b al au bl bu cu n r cc) (irange (-((au + bu : Nat) : Int)) ((lb : Int) + 1))
      (fun oc _ t ht => by
        unfold bm_G
        exact bm_fold_cell (fun (oa : Int) (c : Tbl) => frames a b au bu cu n oc oa c) rows n r cc
          (bm_H a b au bu cu n oc r cc) _
          (fun oa _ t ht => bm_frames_cell a b au bu cu n oc oa t rows ht r cc hr hcc) t ht)
      _ (bm_zero_shape rows n)
  rw [h.2]
  have h0 : tget (List.replicate rows (List.replicate n (0 : Rat))) r cc = 0 := by
    simp [tget, List.getD_eq_getElem?_getD, hr, hcc]
  rw [h0, zero_add]

theorem bm_sum_zero {ι} (l : List ι) (f : ι → Rat) (h : ∀ x ∈ l, f x = 0) : (l.map f).sum = 0 := by
  apply List.sum_eq_zero
  intro y hy
  obtain ⟨x, hx, rfl⟩ := List.mem_map.1 hy
  exact h x hx

theorem bm_G_zero (a b : Tbl) (al au bl bu cu n : Nat) (i j : Nat) (hij : j ≤ i + cu) (oc : Int)
    (h1 : -(cu : Int) ≤ oc) (h2 : oc ≠ (i : Int) - j) :
    bm_G a b al au bl bu cu n (cu + i - j) j oc = 0 := by
  unfold bm_G
  apply bm_sum_zero
  intro oa _
  unfold bm_H
  apply bm_sum_zero
  intro fr _
  unfold bm_term
  rw [if_neg]
  rintro ⟨h, _⟩
  omega

theorem bm_H_simpl (a b : Tbl) (au bu cu n : Nat) (i j : Nat) (hi : i < n) (hj : j < n) (hij : j ≤ i + cu)
    (oa : Int) :
    bm_H a b au bu cu n ((i : Int) - j) (cu + i - j) j oa =
      if 0 ≤ (i : Int) - oa ∧ (i : Int) - oa < n then
        tget a ((au : Int) + oa).toNat ((i : Int) - oa).toNat *
          tget b ((bu : Int) + ((i : Int) - j - oa)).toNat j
      else 0 := by
  unfold bm_H
  rw [bm_sum_single _ (bm_nodup_irange _ _) _ ((i : Int) - oa)]
  · by_cases hk : 0 ≤ (i : Int) - oa ∧ (i : Int) - oa < n
    · have hm : (i : Int) - oa ∈ irange (max 0 (max (-oa) ((i : Int) - j - oa)))
          (max 0 ((n : Int) + min 0 (min (-oa) ((i : Int) - j - oa)))) := by
        rw [bm_mem_irange]; omega
      rw [if_pos hm, if_pos hk]
      unfold bm_term
      have e : ((i : Int) - oa - ((i : Int) - j - oa)).toNat = j := by omega
      rw [if_pos ⟨by omega, e⟩, e]
    · have hm : ¬ (i : Int) - oa ∈ irange (max 0 (max (-oa) ((i : Int) - j - oa)))
          (max 0 ((n : Int) + min 0 (min (-oa) ((i : Int) - j - oa)))) := by
        rw [bm_mem_irange]; omega
      rw [if_neg hm, if_neg hk]
  · intro fr hfr hne
    rw [bm_mem_irange] at hfr
    unfold bm_term
    rw [if_neg]
    rintro ⟨_, h⟩
    omega

theorem bm_den_ne (t : Tbl) (l u n i j : Nat) (h : den t l u n i j ≠ 0) :
    i < n ∧ j < n ∧ j ≤ i + u ∧ i ≤ j + l := by
  unfold den at h
  by_contra hc
  rw [if_neg hc] at h
  exact h rfl

theorem bm_H_ne (a b : Tbl) (au bu cu n : Nat) (i j : Nat) (hi : i < n) (hj : j < n) (hij : j ≤ i + cu)
    (oa : Int) (h : bm_H a b au bu cu n ((i : Int) - j) (cu + i - j) j oa ≠ 0) :
    0 ≤ (i : Int) - oa ∧ (i : Int) - oa < n := by
  rw [bm_H_simpl a b au bu cu n i j hi hj hij] at h
  by_contra hc
  rw [if_neg hc] at h
  exact h rfl

theorem bm_H_den (a b : Tbl) (al au bl bu cu n : Nat) (i j : Nat) (hi : i < n) (hj : j < n) (hij : j ≤ i + cu)
    (oa : Int)
    (hm : oa ∈ irange (-(min (au : Int) ((bl : Int) - ((i : Int) - j)))) (min (al : Int) ((bu : Int) + ((i : Int) - j)) + 1))
    (hk : 0 ≤ (i : Int) - oa ∧ (i : Int) - oa < n) :
    bm_H a b au bu cu n ((i : Int) - j) (cu + i - j) j oa =
      den a al au n i ((i : Int) - oa).toNat * den b bl bu n ((i : Int) - oa).toNat j := by
  rw [bm_H_simpl a b au bu cu n i j hi hj hij, if_pos hk]
  rw [bm_mem_irange] at hm
  unfold den
  rw [if_pos (by omega), if_pos (by omega)]
  have e1 : ((au : Int) + oa).toNat = au + i - ((i : Int) - oa).toNat := by omega
  have e2 : ((bu : Int) + ((i : Int) - j - oa)).toNat = bu + ((i : Int) - oa).toNat - j := by omega
  rw [e1, e2]

/-- **the band product is the matrix product**: for all band widths and every size, every entry of the array computed by the
three nested accumulation loops of `_numba_banded_dot_banded` denotes `Σ_k A[i,k]·B[k,j]` -/
theorem bandedDotBanded_den (a b : Tbl) (al au bl bu n : Nat) (ha : BandShape a al au n) (hb : BandShape b bl bu n)
    (i j : Nat) (hi : i < n) (hj : j < n) :
    den (bandedDotBanded a b al au bl bu n) (al + bl) (au + bu) n i j = prodAt a b al au bl bu n i j := by
  unfold prodAt
  rw [bm_sumL_eq_sum]
  by_cases hg : j ≤ i + (au + bu) ∧ i ≤ j + (al + bl)
  · have hden : den (bandedDotBanded a b al au bl bu n) (al + bl) (au + bu) n i j =
        tget (bandedDotBanded a b al au bl bu n) (au + bu + i - j) j := by
      unfold den; rw [if_pos ⟨hi, hj, hg.1, hg.2⟩]
    rw [hden]
    unfold bandedDotBanded
    rw [bm_bandMul_cell a b al au bl bu (au + bu) n _ _ _ _ (by omega) hj]
    rw [bm_sum_single _ (bm_nodup_irange _ _) _ ((i : Int) - j)
      (fun oc hoc hne => bm_G_zero a b al au bl bu (au + bu) n i j hg.1 oc
        (by rw [bm_mem_irange] at hoc; omega) hne)]
    rw [if_pos (by rw [bm_mem_irange]; omega)]
    unfold bm_G
    refine bm_sum_reindex _ (bm_nodup_irange _ _) _ List.nodup_range _ _
      (fun oa => ((i : Int) - oa).toNat) ?_ ?_ ?_ ?_
    · intro oa _ hne
      have := bm_H_ne a b au bu (au + bu) n i j hi hj hg.1 oa hne
      rw [List.mem_range]; omega
    · intro x _ y _ hx hy e
      have h1 := bm_H_ne a b au bu (au + bu) n i j hi hj hg.1 x hx
      have h2 := bm_H_ne a b au bu (au + bu) n i j hi hj hg.1 y hy
      omega
    · intro k hk hne
      rw [List.mem_range] at hk
      have h1 := bm_den_ne _ _ _ _ _ _ (left_ne_zero_of_mul hne)
      have h2 := bm_den_ne _ _ _ _ _ _ (right_ne_zero_of_mul hne)
      have hm : (i : Int) - k ∈ irange (-(min (au : Int) ((bl : Int) - ((i : Int) - j))))
          (min (al : Int) ((bu : Int) + ((i : Int) - j)) + 1) := by
        rw [bm_mem_irange]; omega
      have e : ((i : Int) - ((i : Int) - k)).toNat = k := by omega
      refine ⟨(i : Int) - k, hm, ?_, e⟩
      rw [bm_H_den a b al au bl bu (au + bu) n i j hi hj hg.1 _ hm (by omega), e]
      exact hne
    · intro oa hm hne
      exact bm_H_den a b al au bl bu (au + bu) n i j hi hj hg.1 oa hm
        (bm_H_ne a b au bu (au + bu) n i j hi hj hg.1 oa hne)
  · have hden : den (bandedDotBanded a b al au bl bu n) (al + bl) (au + bu) n i j = 0 := by
      unfold den; rw [if_neg (fun h => hg ⟨h.2.2.1, h.2.2.2⟩)]
    rw [hden]
    symm
    apply bm_sum_zero
    intro k _
    by_cases h1 : den a al au n i k = 0
    · rw [h1, zero_mul]
    · by_cases h2 : den b bl bu n k j = 0
      · rw [h2, mul_zero]
      · have g1 := bm_den_ne _ _ _ _ _ _ h1
        have g2 := bm_den_ne _ _ _ _ _ _ h2
        exfalso; omega

/-- the result has the shape the wrapper allocates -/
theorem bandedDotBanded_shape (a b : Tbl) (al au bl bu n : Nat) :
    BandShape (bandedDotBanded a b al au bl bu n) (al + bl) (au + bu) n := by
  have h := bm_bandMul_shape a b al au bl bu (au + bu) n (al + bl + au + bu + 1) (al + bl)
  refine ⟨?_, h.2⟩
  have := h.1
  unfold bandedDotBanded
  omega

end PbVerif.Lemmas
