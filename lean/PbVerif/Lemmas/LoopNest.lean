import PbVerif.Model.LoopTbl
import Mathlib.Tactic.Linarith
/-! Lemmas about the two-level rows (`NestRow`: brpls family, goldindec) of the table interpreter: proved once for the generic
row shape `NestRow.ok`. -/
namespace PbVerif.Lemmas.LoopNest
open PbVerif.LoopTbl

/-- a write made by the inner body in outer step `a`, inner step `k` -/
def NewW (r : NestRow) (a k : Nat) (x : Int × Int) : Prop :=
  (a : Int) ≤ x.1 ∧ x.1 + r.ohi ≤ (a : Int) + r.rows ∧ x.1 < (a : Int) + r.srow ∧
  (k : Int) ≤ x.2 ∧ x.2 + r.ihi ≤ (k : Int) + r.colc ∧ x.2 < (k : Int) + r.scol

/-- a write made by the outer body in outer step `a` -/
def OutW (r : NestRow) (a : Nat) (x : Int × Int) : Prop :=
  0 ≤ x.1 ∧ x.1 + r.ohi ≤ r.rows ∧ x.1 < r.srow ∧ (a : Int) ≤ x.2 ∧ x.2 + r.ohi ≤ (a : Int) + r.colc ∧ x.2 < (a : Int) + r.scol

theorem nbody_spec (r : NestRow) (tol : Rat) (d : Nat → Nat → Rat) (fl : Nat → Nat → Nat → Bool) (a k : Nat) :
    ∀ (es : List NEv) (wr : Bool) (p : Nat) (w : List (Int × Int)),
      es.all (NEv.inb r) = true → nbodyOk es wr = true →
      (∀ x ∈ (nbody tol d fl a k es p w).1, x ∈ w ∨ NewW r a k x) ∧
      (∀ j, (nbody tol d fl a k es p w).2 = some j →
        j = (k : Int) ∨ (wr = false ∧ j = (k : Int) - 1 ∧ (nbody tol d fl a k es p w).1 = w)) := by
  intro es
  induction es with
  | nil => intro wr p w _ _; exact ⟨fun x hx => .inl (by simpa [nbody] using hx), by simp [nbody]⟩
  | cons e es ih =>
    intro wr p w hin hok
    simp only [List.all_cons, Bool.and_eq_true] at hin
    obtain ⟨he, hin⟩ := hin
    cases e with
    | write ro co =>
      simp only [nbodyOk] at hok
      simp only [NEv.inb, Bool.and_eq_true, decide_eq_true_eq] at he
      simp only [nbody]
      obtain ⟨h1, h2⟩ := ih true (p + 1) (w ++ [((a : Int) + ro, (k : Int) + co)]) hin hok
      refine ⟨fun x hx => ?_, fun j hj => ?_⟩
      · rcases h1 x hx with h | h
        · rcases List.mem_append.mp h with h | h
          · exact .inl h
          · simp only [List.mem_singleton] at h
            subst h
            exact .inr ⟨by simp; omega, by simp; omega, by simp; omega, by simp; omega, by simp; omega, by simp; omega⟩
        · exact .inr h
      · rcases h2 j hj with h | ⟨h, -, -⟩
        · exact .inl h
        · simp at h
    | brk t dec =>
      simp only [nbodyOk, Bool.and_eq_true] at hok
      obtain ⟨hdec, hok⟩ := hok
      simp only [nbody]
      split
      · refine ⟨fun x hx => .inl hx, fun j hj => ?_⟩
        simp only [Option.some.injEq] at hj
        subst hj
        cases wr
        · simp only [Bool.false_eq_true, if_false, decide_eq_true_eq] at hdec
          rcases Nat.le_one_iff_eq_zero_or_eq_one.mp hdec with rfl | rfl
          · exact .inl (by simp)
          · exact .inr ⟨rfl, by simp, rfl⟩
        · simp only [if_true, beq_iff_eq] at hdec
          subst hdec
          exact .inl (by simp)
      · exact ih wr (p + 1) w hin hok

theorem nloop_spec (r : NestRow) (hin : r.ibody.all (NEv.inb r) = true) (hok : nbodyOk r.ibody false = true)
    (tol : Rat) (d : Nat → Nat → Rat) (fl : Nat → Nat → Nat → Bool) (a : Nat) :
    ∀ (f k : Nat) (w : List (Int × Int)),
      (∀ x ∈ (nloop r tol d fl a f k w).1, x ∈ w ∨ ∃ k' : Nat, k ≤ k' ∧ (k' : Int) ≤ (nloop r tol d fl a f k w).2 ∧ k' < k + f ∧ NewW r a k' x) ∧
      (nloop r tol d fl a f k w).2 ≤ (k : Int) + (f : Int) - 1 ∧ (k : Int) - 1 ≤ (nloop r tol d fl a f k w).2 := by
  intro f
  induction f with
  | zero => intro k w; exact ⟨fun x hx => .inl (by simpa [nloop] using hx), by simp [nloop], by simp [nloop]⟩
  | succ f ih =>
    intro k w
    have hb := nbody_spec r tol d fl a k r.ibody false 0 w hin hok
    rw [nloop]
    generalize nbody tol d fl a k r.ibody 0 w = bd at hb
    obtain ⟨w', o⟩ := bd
    cases o with
    | some j =>
      simp only
      rcases hb.2 j rfl with h | ⟨-, h, hw⟩
      · subst h
        refine ⟨fun x hx => ?_, by omega, by omega⟩
        rcases hb.1 x hx with h | h
        · exact .inl h
        · exact .inr ⟨k, le_refl _, le_refl _, by omega, h⟩
      · simp only at hw
        subst h hw
        exact ⟨fun x hx => .inl hx, by omega, by omega⟩
    | none =>
      simp only
      obtain ⟨h1, h2, h3⟩ := ih (k + 1) w'
      refine ⟨fun x hx => ?_, by push_cast at h2 ⊢; omega, by push_cast at h3; omega⟩
      rcases h1 x hx with h | ⟨k', hk1, hk2, hk3, hk4⟩
      · rcases hb.1 x h with h | h
        · exact .inl h
        · exact .inr ⟨k, le_refl _, by push_cast at h3; omega, by omega, h⟩
      · exact .inr ⟨k', by omega, hk2, by omega, hk4⟩

theorem otail_spec (r : NestRow) (m : Nat) (tol : Rat) (d : Nat → Nat → Rat) (fl : Nat → Nat → Nat → Bool) (ofl : Nat → Nat → Bool) (a : Nat) :
    ∀ (tl : List OEv) (p : Nat) (s : OSt), tl.all (OEv.tailOk r) = true →
      (obody r m tol d fl ofl a tl p s).1.j = s.j ∧ (obody r m tol d fl ofl a tl p s).1.jmax = s.jmax ∧
      (obody r m tol d fl ofl a tl p s).1.raised = s.raised ∧
      ∀ x ∈ (obody r m tol d fl ofl a tl p s).1.writes, x ∈ s.writes ∨ OutW r a x := by
  intro tl
  induction tl with
  | nil => intro p s _; exact ⟨by simp [obody], by simp [obody], by simp [obody], fun x hx => .inl (by simpa [obody] using hx)⟩
  | cons e tl ih =>
    intro p s h
    simp only [List.all_cons, Bool.and_eq_true] at h
    obtain ⟨he, h⟩ := h
    cases e with
    | inner => simp [OEv.tailOk] at he
    | jmax => simp [OEv.tailOk] at he
    | write row co =>
      simp only [OEv.tailOk, Bool.and_eq_true, decide_eq_true_eq] at he
      simp only [obody]
      obtain ⟨h1, h2, h3, h4⟩ := ih (p + 1) { s with writes := s.writes ++ [(row, (a : Int) + co)] } h
      refine ⟨h1, h2, h3, fun x hx => ?_⟩
      rcases h4 x hx with hx | hx
      · rcases List.mem_append.mp hx with hx | hx
        · exact .inl hx
        · simp only [List.mem_singleton] at hx
          subst hx
          exact .inr ⟨by simp; omega, by simp; omega, by simp; omega, by simp; omega, by simp; omega, by simp; omega⟩
      · exact .inr hx
    | brk =>
      simp only [obody]
      split
      · exact ⟨rfl, rfl, rfl, fun x hx => .inl hx⟩
      · exact ih (p + 1) s h

theorem tail_eq {r : NestRow} {tl : List OEv} (h : r.tail = some tl) : r.outer = .inner :: .jmax :: tl := by
  unfold NestRow.tail at h
  split at h
  · rename_i e1 e2 tl' ho
    split at h
    · rename_i hc
      simp only [Option.some.injEq] at h
      rw [ho, hc.1, hc.2, h]
    · simp at h
  · simp at h

/-- a recorded entry is inside the allocation and inside the slice `[:b + srow, :max(b, J) + scol]` -/
def Wfin (r : NestRow) (m m2 : Nat) (b J : Int) (x : Int × Int) : Prop :=
  0 ≤ x.1 ∧ x.1 < r.allocRows m2 ∧ 0 ≤ x.2 ∧ x.2 < r.allocCols m m2 ∧ x.1 < b + r.srow ∧ x.2 < max b J + r.scol

/-- what `NestRow.ok` gives for a run that does not raise -/
structure NGood (r : NestRow) (m m2 : Nat) (res : NRes) : Prop where
  notRaised : res.raised = false
  /-- every write is inside the allocation AND inside the returned slice -/
  writes : ∀ x ∈ res.writes, 0 ≤ x.1 ∧ x.1 < r.allocRows m2 ∧ 0 ≤ x.2 ∧ x.2 < r.allocCols m m2 ∧ x.1 < res.srow ∧ x.2 < res.scol
  srow_in : 0 ≤ res.srow ∧ res.srow ≤ r.allocRows m2
  scol_in : 0 ≤ res.scol ∧ res.scol ≤ r.allocCols m m2

theorem oloop_spec (r : NestRow) (hok : r.ok = true) (m m2 : Nat) (hm : 1 ≤ (m : Int) + r.ihi) (tol : Rat) (d : Nat → Nat → Rat)
    (fl : Nat → Nat → Nat → Bool) (ofl : Nat → Nat → Bool) :
    ∀ (f a : Nat) (s : OSt), (a : Int) + (f : Int) = (m2 : Int) + r.ohi → 1 ≤ a + f → s.raised = false →
      (∀ x ∈ s.writes, Wfin r m m2 ((a : Int) - 1) s.jmax x) → s.jmax ≤ max r.jmax0 ((m : Int) + r.ihi - 1) →
      NGood r m m2 (oloop r m tol d fl ofl f a s) := by
  simp only [NestRow.ok, Bool.and_eq_true, decide_eq_true_eq] at hok
  obtain ⟨⟨⟨⟨⟨⟨⟨⟨⟨-, hnb⟩, hin⟩, htl⟩, hs0⟩, hs1⟩, hc0⟩, hc1⟩, hc2⟩, hc3⟩ := hok
  have houter : ∃ tl, r.outer = .inner :: .jmax :: tl ∧ tl.all (OEv.tailOk r) = true := by
    split at htl
    · rename_i tl h; exact ⟨tl, tail_eq h, htl⟩
    · simp at htl
  obtain ⟨tl, houter, htl⟩ := houter
  intro f
  induction f with
  | zero =>
    intro a s haf ha1 hr hw hj
    simp only [oloop]
    have : (1 : Int) ≤ a := by omega
    refine ⟨rfl, fun x hx => ?_, ?_, ?_⟩
    · obtain ⟨h1, h2, h3, h4, h5, h6⟩ := hw x hx
      exact ⟨h1, h2, h3, h4, h5, h6⟩
    · simp only [NestRow.allocRows]; omega
    · simp only [NestRow.allocCols]; omega
  | succ f ih =>
    intro a s haf ha1 hr hw hj
    rw [oloop, houter]
    have hn : ((m : Int) + r.ihi).toNat ≠ 0 := by omega
    simp only [obody, hn, if_false]
    have hsp := nloop_spec r hin hnb tol d fl a ((m : Int) + r.ihi).toNat 0 s.writes
    generalize nloop r tol d fl a ((m : Int) + r.ihi).toNat 0 s.writes = nl at hsp
    obtain ⟨w1, j1⟩ := nl
    simp only at hsp ⊢
    obtain ⟨hw1, hj1, hj1'⟩ := hsp
    have hts := otail_spec r m tol d fl ofl a tl (0 + 1 + 1) { writes := w1, j := some j1, jmax := max j1 s.jmax, raised := s.raised } htl
    generalize obody r m tol d fl ofl a tl (0 + 1 + 1) { writes := w1, j := some j1, jmax := max j1 s.jmax, raised := s.raised } = ob at hts
    obtain ⟨s2, brk⟩ := ob
    simp only at hts
    obtain ⟨-, hjm, hrs, hw2⟩ := hts
    have hfa : (a : Int) ≤ (m2 : Int) + r.ohi - 1 := by omega
    -- every entry recorded so far is inside the allocation and inside the slice taken at outer step a
    have hall : ∀ x ∈ s2.writes, Wfin r m m2 (a : Int) s2.jmax x := by
      intro x hx
      rw [hjm]
      rcases hw2 x hx with hx | hx
      · rcases hw1 x hx with hx | ⟨k', -, hk2, hk3, hk4⟩
        · obtain ⟨h1, h2, h3, h4, h5, h6⟩ := hw x hx
          exact ⟨h1, h2, h3, h4, by omega, by omega⟩
        · obtain ⟨g1, g2, g3, g4, g5, g6⟩ := hk4
          have : (k' : Int) ≤ (m : Int) + r.ihi - 1 := by omega
          refine ⟨by omega, ?_, by omega, ?_, by omega, by omega⟩
          · simp only [NestRow.allocRows]; omega
          · simp only [NestRow.allocCols]; omega
      · obtain ⟨g1, g2, g3, g4, g5, g6⟩ := hx
        refine ⟨g1, ?_, by omega, ?_, by omega, by omega⟩
        · simp only [NestRow.allocRows]; omega
        · simp only [NestRow.allocCols]; omega
    have hjm2 : s2.jmax ≤ max r.jmax0 ((m : Int) + r.ihi - 1) := by rw [hjm]; omega
    cases brk with
    | true =>
      simp only [hrs, hr, Bool.false_eq_true, if_false]
      refine ⟨rfl, fun x hx => ?_, ?_, ?_⟩
      · obtain ⟨h1, h2, h3, h4, h5, h6⟩ := hall x hx
        exact ⟨h1, h2, h3, h4, h5, h6⟩
      · simp only [NestRow.allocRows]; omega
      · simp only [NestRow.allocCols]; omega
    | false =>
      simp only
      refine ih (a + 1) s2 (by push_cast; omega) (by omega) (by rw [hrs]; exact hr) (fun x hx => ?_) hjm2
      have := hall x hx
      simpa using this

/-- everything `NestRow.ok` implies about a run, for every max_iter, max_iter_2 and every numeric behaviour -/
structure NSafe (r : NestRow) (m m2 : Nat) (res : NRes) : Prop where
  /-- the run raises (a loop variable is unbound when read) exactly when one of the two ranges is empty -/
  raised_iff : res.raised = true ↔ ((m2 : Int) + r.ohi ≤ 0 ∨ (m : Int) + r.ihi ≤ 0)
  ran : res.raised = false → NGood r m m2 res

theorem ok_nsafe (r : NestRow) (hok : r.ok = true) (m m2 : Nat) (tol : Rat) (d : Nat → Nat → Rat)
    (fl : Nat → Nat → Nat → Bool) (ofl : Nat → Nat → Bool) : NSafe r m m2 (nrun r m m2 tol d fl ofl) := by
  by_cases ho : (m2 : Int) + r.ohi ≤ 0
  · have : ((m2 : Int) + r.ohi).toNat = 0 := by omega
    simp only [nrun, this, if_true]
    exact ⟨by simp [ho], by simp⟩
  · have hn : ((m2 : Int) + r.ohi).toNat ≠ 0 := by omega
    by_cases hi : (m : Int) + r.ihi ≤ 0
    · -- the inner range is empty: j is unbound at `j_max = max(j, j_max)` in the first outer step
      have htl : ∃ tl, r.outer = .inner :: .jmax :: tl := by
        simp only [NestRow.ok, Bool.and_eq_true] at hok
        have h := hok.1.1.1.1.1.1.2
        split at h
        · rename_i tl h'; exact ⟨tl, tail_eq h'⟩
        · simp at h
      obtain ⟨tl, htl⟩ := htl
      have hz : ((m : Int) + r.ihi).toNat = 0 := by omega
      obtain ⟨f, hf⟩ : ∃ f, ((m2 : Int) + r.ohi).toNat = f + 1 := ⟨((m2 : Int) + r.ohi).toNat - 1, by omega⟩
      simp only [nrun, hf, oloop, htl, obody, hz, if_true]
      exact ⟨by simp [hi], by simp⟩
    · have g := oloop_spec r hok m m2 (by omega) tol d fl ofl ((m2 : Int) + r.ohi).toNat 0 ⟨[], none, r.jmax0, false⟩
        (by omega) (by omega) rfl (by simp) (by simp only []; omega)
      simp only [nrun, hn, if_false]
      exact ⟨by simp [g.notRaised, ho, hi], fun _ => g⟩

end PbVerif.Lemmas.LoopNest
