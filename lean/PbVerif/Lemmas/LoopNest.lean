import PbVerif.Model.LoopTbl
import Mathlib.Tactic.Linarith
import Mathlib.Data.List.Nodup
/-! Lemmas about the two-level rows (`NestRow`: brpls family, goldindec) of the table interpreter: proved once for the generic
row shape `NestRow.ok`. -/
namespace PbVerif.Lemmas.LoopNest
open PbVerif.LoopTbl

/-- a write made by the inner body in outer step `a`, inner step `k` -/
def NewW (r : NestRow) (a k : Nat) (x : Int × Int) : Prop :=
  (a : Int) ≤ x.1 ∧ x.1 + r.ohi ≤ (a : Int) + r.rows ∧ x.1 < (a : Int) + r.srow ∧
  (k : Int) ≤ x.2 ∧ x.2 + r.ihi ≤ (k : Int) + r.colc ∧ x.2 < (k : Int) + r.scol

/-- a write made by the outer body in outer step `a` -/
def OutW (r : NestRow) (a : Nat) (x : Int × Int) : Prop :=
  0 ≤ x.1 ∧ x.1 + r.ohi ≤ r.rows ∧ x.1 < r.srow ∧ (a : Int) ≤ x.2 ∧ x.2 + r.ohi ≤ (a : Int) + r.colc ∧ x.2 < (a : Int) + r.scol

theorem nbody_spec (r : NestRow) (tol : Rat) (d : Nat → Nat → Rat) (fl : Nat → Nat → Nat → Bool) (a k : Nat) :
    ∀ (es : List NEv) (wr : Bool) (p : Nat) (w : List (Int × Int)),
      es.all (NEv.inb r) = true → nbodyOk es wr = true →
      (∀ x ∈ (nbody tol d fl a k es p w).1, x ∈ w ∨ NewW r a k x) ∧
      (∀ j, (nbody tol d fl a k es p w).2 = some j →
        j = (k : Int) ∨ (wr = false ∧ j = (k : Int) - 1 ∧ (nbody tol d fl a k es p w).1 = w)) := by
  intro es
  induction es with
  | nil => intro wr p w _ _; exact ⟨fun x hx => .inl (by simpa [nbody] using hx), by simp [nbody]⟩
  | cons e es ih =>
    intro wr p w hin hok
    simp only [List.all_cons, Bool.and_eq_true] at hin
    obtain ⟨he, hin⟩ := hin
    cases e with
    | write ro co =>
      simp only [nbodyOk] at hok
      simp only [NEv.inb, Bool.and_eq_true, decide_eq_true_eq] at he
      simp only [nbody]
      obtain ⟨h1, h2⟩ := ih true (p + 1) (w ++ [((a : Int) + ro, (k : Int) + co)]) hin hok
      refine ⟨fun x hx => ?_, fun j hj => ?_⟩
      · rcases h1 x hx with h | h
        · rcases List.mem_append.mp h with h | h
          · exact .inl h
          · simp only [List.mem_singleton] at h
            subst h
            exact .inr ⟨by simp; omega, by simp; omega, by simp; omega, by simp; omega, by simp; omega, by simp; omega⟩
        · exact .inr h
      · rcases h2 j hj with h | ⟨h, -, -⟩
        · exact .inl h
        · simp at h
    | brk t dec =>
      simp only [nbodyOk, Bool.and_eq_true] at hok
      obtain ⟨hdec, hok⟩ := hok
      simp only [nbody]
      split
      · refine ⟨fun x hx => .inl hx, fun j hj => ?_⟩
        simp only [Option.some.injEq] at hj
        subst hj
        cases wr
        · simp only [Bool.false_eq_true, if_false, decide_eq_true_eq] at hdec
          rcases Nat.le_one_iff_eq_zero_or_eq_one.mp hdec with rfl | rfl
          · exact .inl (by simp)
          · exact .inr ⟨rfl, by simp, rfl⟩
        · simp only [if_true, beq_iff_eq] at hdec
          subst hdec
          exact .inl (by simp)
      · exact ih wr (p + 1) w hin hok

theorem nloop_spec (r : NestRow) (hin : r.ibody.all (NEv.inb r) = true) (hok : nbodyOk r.ibody false = true)
    (tol : Rat) (d : Nat → Nat → Rat) (fl : Nat → Nat → Nat → Bool) (a : Nat) :
    ∀ (f k : Nat) (w : List (Int × Int)),
      (∀ x ∈ (nloop r tol d fl a f k w).1, x ∈ w ∨ ∃ k' : Nat, k ≤ k' ∧ (k' : Int) ≤ (nloop r tol d fl a f k w).2 ∧ k' < k + f ∧ NewW r a k' x) ∧
      (nloop r tol d fl a f k w).2 ≤ (k : Int) + (f : Int) - 1 ∧ (k : Int) - 1 ≤ (nloop r tol d fl a f k w).2 := by
  intro f
  induction f with
  | zero => intro k w; exact ⟨fun x hx => .inl (by simpa [nloop] using hx), by simp [nloop], by simp [nloop]⟩
  | succ f ih =>
    intro k w
    have hb := nbody_spec r tol d fl a k r.ibody false 0 w hin hok
    rw [nloop]
    generalize nbody tol d fl a k r.ibody 0 w = bd at hb
    obtain ⟨w', o⟩ := bd
    cases o with
    | some j =>
      simp only
      rcases hb.2 j rfl with h | ⟨-, h, hw⟩
      · subst h
        refine ⟨fun x hx => ?_, by omega, by omega⟩
        rcases hb.1 x hx with h | h
        · exact .inl h
        · exact .inr ⟨k, le_refl _, le_refl _, by omega, h⟩
      · simp only at hw
        subst h hw
        exact ⟨fun x hx => .inl hx, by omega, by omega⟩
    | none =>
      simp only
      obtain ⟨h1, h2, h3⟩ := ih (k + 1) w'
      refine ⟨fun x hx => ?_, by push_cast at h2 ⊢; omega, by push_cast at h3; omega⟩
      rcases h1 x hx with h | ⟨k', hk1, hk2, hk3, hk4⟩
      · rcases hb.1 x h with h | h
        · exact .inl h
        · exact .inr ⟨k, le_refl _, by push_cast at h3; omega, by omega, h⟩
      · exact .inr ⟨k', by omega, hk2, by omega, hk4⟩

theorem otail_spec (r : NestRow) (m : Nat) (tol : Rat) (d : Nat → Nat → Rat) (fl : Nat → Nat → Nat → Bool) (ofl : Nat → Nat → Bool) (a : Nat) :
    ∀ (tl : List OEv) (p : Nat) (s : OSt), tl.all (OEv.tailOk r) = true →
      (obody r m tol d fl ofl a tl p s).1.j = s.j ∧ (obody r m tol d fl ofl a tl p s).1.jmax = s.jmax ∧
      (obody r m tol d fl ofl a tl p s).1.raised = s.raised ∧
      ∀ x ∈ (obody r m tol d fl ofl a tl p s).1.writes, x ∈ s.writes ∨ OutW r a x := by
  intro tl
  induction tl with
  | nil => intro p s _; exact ⟨by simp [obody], by simp [obody], by simp [obody], fun x hx => .inl (by simpa [obody] using hx)⟩
  | cons e tl ih =>
    intro p s h
    simp only [List.all_cons, Bool.and_eq_true] at h
    obtain ⟨he, h⟩ := h
    cases e with
    | inner => simp [OEv.tailOk] at he
    | jmax => simp [OEv.tailOk] at he
    | write row co =>
      simp only [OEv.tailOk, Bool.and_eq_true, decide_eq_true_eq] at he
      simp only [obody]
      obtain ⟨h1, h2, h3, h4⟩ := ih (p + 1) { s with writes := s.writes ++ [(row, (a : Int) + co)] } h
      refine ⟨h1, h2, h3, fun x hx => ?_⟩
      rcases h4 x hx with hx | hx
      · rcases List.mem_append.mp hx with hx | hx
        · exact .inl hx
        · simp only [List.mem_singleton] at hx
          subst hx
          exact .inr ⟨by simp; omega, by simp; omega, by simp; omega, by simp; omega, by simp; omega, by simp; omega⟩
      · exact .inr hx
    | brk =>
      simp only [obody]
      split
      · exact ⟨rfl, rfl, rfl, fun x hx => .inl hx⟩
      · exact ih (p + 1) s h

theorem tail_eq {r : NestRow} {tl : List OEv} (h : r.tail = some tl) : r.outer = .inner :: .jmax :: tl := by
  unfold NestRow.tail at h
  split at h
  · rename_i e1 e2 tl' ho
    split at h
    · rename_i hc
      simp only [Option.some.injEq] at h
      rw [ho, hc.1, hc.2, h]
    · simp at h
  · simp at h

/-- a recorded entry is inside the allocation and inside the slice `[:b + srow, :max(b, J) + scol]` -/
def Wfin (r : NestRow) (m m2 : Nat) (b J : Int) (x : Int × Int) : Prop :=
  0 ≤ x.1 ∧ x.1 < r.allocRows m2 ∧ 0 ≤ x.2 ∧ x.2 < r.allocCols m m2 ∧ x.1 < b + r.srow ∧ x.2 < max b J + r.scol

/-- what `NestRow.ok` gives for a run that does not raise -/
structure NGood (r : NestRow) (m m2 : Nat) (res : NRes) : Prop where
  notRaised : res.raised = false
  /-- every write is inside the allocation AND inside the returned slice -/
  writes : ∀ x ∈ res.writes, 0 ≤ x.1 ∧ x.1 < r.allocRows m2 ∧ 0 ≤ x.2 ∧ x.2 < r.allocCols m m2 ∧ x.1 < res.srow ∧ x.2 < res.scol
  srow_in : 0 ≤ res.srow ∧ res.srow ≤ r.allocRows m2
  scol_in : 0 ≤ res.scol ∧ res.scol ≤ r.allocCols m m2

theorem oloop_spec (r : NestRow) (hok : r.ok = true) (m m2 : Nat) (hm : 1 ≤ (m : Int) + r.ihi) (tol : Rat) (d : Nat → Nat → Rat)
    (fl : Nat → Nat → Nat → Bool) (ofl : Nat → Nat → Bool) :
    ∀ (f a : Nat) (s : OSt), (a : Int) + (f : Int) = (m2 : Int) + r.ohi → 1 ≤ a + f → s.raised = false →
      (∀ x ∈ s.writes, Wfin r m m2 ((a : Int) - 1) s.jmax x) → s.jmax ≤ max r.jmax0 ((m : Int) + r.ihi - 1) →
      NGood r m m2 (oloop r m tol d fl ofl f a s) := by
  simp only [NestRow.ok, Bool.and_eq_true, decide_eq_true_eq] at hok
  obtain ⟨⟨⟨⟨⟨⟨⟨⟨⟨-, hnb⟩, hin⟩, htl⟩, hs0⟩, hs1⟩, hc0⟩, hc1⟩, hc2⟩, hc3⟩ := hok
  have houter : ∃ tl, r.outer = .inner :: .jmax :: tl ∧ tl.all (OEv.tailOk r) = true := by
    split at htl
    · rename_i tl h; exact ⟨tl, tail_eq h, htl⟩
    · simp at htl
  obtain ⟨tl, houter, htl⟩ := houter
  intro f
  induction f with
  | zero =>
    intro a s haf ha1 hr hw hj
    simp only [oloop]
    have : (1 : Int) ≤ a := by omega
    refine ⟨rfl, fun x hx => ?_, ?_, ?_⟩
    · obtain ⟨h1, h2, h3, h4, h5, h6⟩ := hw x hx
      exact ⟨h1, h2, h3, h4, h5, h6⟩
    · simp only [NestRow.allocRows]; omega
    · simp only [NestRow.allocCols]; omega
  | succ f ih =>
    intro a s haf ha1 hr hw hj
    rw [oloop, houter]
    have hn : ((m : Int) + r.ihi).toNat ≠ 0 := by omega
    simp only [obody, hn, if_false]
    have hsp := nloop_spec r hin hnb tol d fl a ((m : Int) + r.ihi).toNat 0 s.writes
    generalize nloop r tol d fl a ((m : Int) + r.ihi).toNat 0 s.writes = nl at hsp
    obtain ⟨w1, j1⟩ := nl
    simp only at hsp ⊢
    obtain ⟨hw1, hj1, hj1'⟩ := hsp
    have hts := otail_spec r m tol d fl ofl a tl (0 + 1 + 1) { writes := w1, j := some j1, jmax := max j1 s.jmax, raised := s.raised } htl
    generalize obody r m tol d fl ofl a tl (0 + 1 + 1) { writes := w1, j := some j1, jmax := max j1 s.jmax, raised := s.raised } = ob at hts
    obtain ⟨s2, brk⟩ := ob
    simp only at hts
    obtain ⟨-, hjm, hrs, hw2⟩ := hts
    have hfa : (a : Int) ≤ (m2 : Int) + r.ohi - 1 := by omega
    -- every entry recorded so far is inside the allocation and inside the slice taken at outer step a
    have hall : ∀ x ∈ s2.writes, Wfin r m m2 (a : Int) s2.jmax x := by
      intro x hx
      rw [hjm]
      rcases hw2 x hx with hx | hx
      · rcases hw1 x hx with hx | ⟨k', -, hk2, hk3, hk4⟩
        · obtain ⟨h1, h2, h3, h4, h5, h6⟩ := hw x hx
          exact ⟨h1, h2, h3, h4, by omega, by omega⟩
        · obtain ⟨g1, g2, g3, g4, g5, g6⟩ := hk4
          have : (k' : Int) ≤ (m : Int) + r.ihi - 1 := by omega
          refine ⟨by omega, ?_, by omega, ?_, by omega, by omega⟩
          · simp only [NestRow.allocRows]; omega
          · simp only [NestRow.allocCols]; omega
      · obtain ⟨g1, g2, g3, g4, g5, g6⟩ := hx
        refine ⟨g1, ?_, by omega, ?_, by omega, by omega⟩
        · simp only [NestRow.allocRows]; omega
        · simp only [NestRow.allocCols]; omega
    have hjm2 : s2.jmax ≤ max r.jmax0 ((m : Int) + r.ihi - 1) := by rw [hjm]; omega
    cases brk with
    | true =>
      simp only [hrs, hr, Bool.false_eq_true, if_false]
      refine ⟨rfl, fun x hx => ?_, ?_, ?_⟩
      · obtain ⟨h1, h2, h3, h4, h5, h6⟩ := hall x hx
        exact ⟨h1, h2, h3, h4, h5, h6⟩
      · simp only [NestRow.allocRows]; omega
      · simp only [NestRow.allocCols]; omega
    | false =>
      simp only
      refine ih (a + 1) s2 (by push_cast; omega) (by omega) (by rw [hrs]; exact hr) (fun x hx => ?_) hjm2
      have := hall x hx
      simpa using this

/-- everything `NestRow.ok` implies about a run, for every max_iter, max_iter_2 and every numeric behaviour -/
structure NSafe (r : NestRow) (m m2 : Nat) (res : NRes) : Prop where
  /-- the run raises (a loop variable is unbound when read) exactly when one of the two ranges is empty -/
  raised_iff : res.raised = true ↔ ((m2 : Int) + r.ohi ≤ 0 ∨ (m : Int) + r.ihi ≤ 0)
  ran : res.raised = false → NGood r m m2 res

theorem ok_nsafe (r : NestRow) (hok : r.ok = true) (m m2 : Nat) (tol : Rat) (d : Nat → Nat → Rat)
    (fl : Nat → Nat → Nat → Bool) (ofl : Nat → Nat → Bool) : NSafe r m m2 (nrun r m m2 tol d fl ofl) := by
  by_cases ho : (m2 : Int) + r.ohi ≤ 0
  · have : ((m2 : Int) + r.ohi).toNat = 0 := by omega
    simp only [nrun, this, if_true]
    exact ⟨by simp [ho], by simp⟩
  · have hn : ((m2 : Int) + r.ohi).toNat ≠ 0 := by omega
    by_cases hi : (m : Int) + r.ihi ≤ 0
    · -- the inner range is empty: j is unbound at `j_max = max(j, j_max)` in the first outer step
      have htl : ∃ tl, r.outer = .inner :: .jmax :: tl := by
        simp only [NestRow.ok, Bool.and_eq_true] at hok
        have h := hok.1.1.1.1.1.1.2
        split at h
        · rename_i tl h'; exact ⟨tl, tail_eq h'⟩
        · simp at h
      obtain ⟨tl, htl⟩ := htl
      have hz : ((m : Int) + r.ihi).toNat = 0 := by omega
      obtain ⟨f, hf⟩ : ∃ f, ((m2 : Int) + r.ohi).toNat = f + 1 := ⟨((m2 : Int) + r.ohi).toNat - 1, by omega⟩
      simp only [nrun, hf, oloop, htl, obody, hz, if_true]
      exact ⟨by simp [hi], by simp⟩
    · have g := oloop_spec r hok m m2 (by omega) tol d fl ofl ((m2 : Int) + r.ohi).toNat 0 ⟨[], none, r.jmax0, false⟩
        (by omega) (by omega) rfl (by simp) (by simp only []; omega)
      simp only [nrun, hn, if_false]
      exact ⟨by simp [g.notRaised, ho, hi], fun _ => g⟩

end PbVerif.Lemmas.LoopNest

/-! ### no entry is written twice (`NestRow.distinct`) -/
namespace PbVerif.Lemmas.LoopNest
open PbVerif.LoopTbl

/-- exact account of what one pass through the inner body appends: the positions of a prefix of its write events (all of them if no
break fired) -/
theorem nbody_writes (tol : Rat) (d : Nat → Nat → Rat) (fl : Nat → Nat → Nat → Bool) (a k : Nat) :
    ∀ (es : List NEv) (p : Nat) (w : List (Int × Int)),
      ∃ ws, ws <+: es.filterMap NEv.wr? ∧
        (nbody tol d fl a k es p w).1 = w ++ ws.map (fun e => ((a : Int) + e.1, (k : Int) + e.2)) ∧
        ((nbody tol d fl a k es p w).2 = none → ws = es.filterMap NEv.wr?) := by
  intro es
  induction es with
  | nil => intro p w; exact ⟨[], by simp, by simp [nbody], by simp⟩
  | cons e es ih =>
    intro p w
    cases e with
    | write ro co =>
      obtain ⟨ws, h1, h2, h3⟩ := ih (p + 1) (w ++ [((a : Int) + ro, (k : Int) + co)])
      refine ⟨(ro, co) :: ws, ?_, ?_, ?_⟩
      · simpa [NEv.wr?] using h1
      · simp only [nbody, h2]; simp
      · intro h; simp only [nbody] at h; simp [NEv.wr?, h3 h]
    | brk t dec =>
      simp only [nbody]
      split
      · exact ⟨[], by simp, by simp, by simp⟩
      · obtain ⟨ws, h1, h2, h3⟩ := ih (p + 1) w
        have he : (NEv.brk t dec :: es).filterMap NEv.wr? = es.filterMap NEv.wr? := rfl
        rw [he]
        exact ⟨ws, h1, h2, h3⟩

/-- the inner loop with a single write event `(ro, co)`: entries of row `a + ro` are appended left to right -/
theorem nloop_nodup (r : NestRow) (ro co : Int) (hw : r.ibody.filterMap NEv.wr? = [(ro, co)])
    (tol : Rat) (d : Nat → Nat → Rat) (fl : Nat → Nat → Nat → Bool) (a : Nat) :
    ∀ (f k : Nat) (w : List (Int × Int)), w.Nodup →
      (∀ x ∈ w, x.1 < (a : Int) + ro ∨ (x.1 = (a : Int) + ro ∧ x.2 < (k : Int) + co)) →
      (nloop r tol d fl a f k w).1.Nodup ∧ ∀ x ∈ (nloop r tol d fl a f k w).1, x ∈ w ∨ x.1 = (a : Int) + ro := by
  intro f
  induction f with
  | zero => intro k w hn _; exact ⟨by simpa [nloop] using hn, fun x hx => .inl (by simpa [nloop] using hx)⟩
  | succ f ih =>
    intro k w hn hinv
    obtain ⟨ws, h1, h2, h3⟩ := nbody_writes tol d fl a k r.ibody 0 w
    rw [hw] at h1 h3
    rw [nloop]
    generalize nbody tol d fl a k r.ibody 0 w = bd at h2 h3
    obtain ⟨w', o⟩ := bd
    simp only at h2 h3
    -- ws is [] or [(ro, co)]
    have hws : ws = [] ∨ ws = [(ro, co)] := by
      rcases ws with _ | ⟨e, ws⟩
      · exact .inl rfl
      · have := List.IsPrefix.length_le h1
        have hl : ws = [] := by
          cases ws with
          | nil => rfl
          | cons _ _ => simp at this
        subst hl
        have := List.prefix_iff_eq_take.mp h1
        simp at this
        exact .inr (by rw [this])
    have hnew : ((a : Int) + ro, (k : Int) + co) ∉ w := by
      intro hx
      rcases hinv _ hx with h | ⟨_, h⟩ <;> simp at h
    have hw' : w'.Nodup ∧ (∀ x ∈ w', x ∈ w ∨ x.1 = (a : Int) + ro) ∧
        (∀ x ∈ w', x.1 < (a : Int) + ro ∨ (x.1 = (a : Int) + ro ∧ x.2 < ((k + 1 : Nat) : Int) + co)) := by
      rcases hws with rfl | rfl
      · simp only [List.map_nil, List.append_nil] at h2
        subst h2
        refine ⟨hn, fun x hx => .inl hx, fun x hx => ?_⟩
        rcases hinv x hx with h | ⟨h, h'⟩
        · exact .inl h
        · exact .inr ⟨h, by push_cast; omega⟩
      · simp only [List.map_cons, List.map_nil] at h2
        subst h2
        refine ⟨?_, fun x hx => ?_, fun x hx => ?_⟩
        · exact List.Nodup.append hn (by simp) (by
            intro x hx hx'
            simp only [List.mem_singleton] at hx'
            subst hx'
            exact hnew hx)
        · rcases List.mem_append.mp hx with h | h
          · exact .inl h
          · simp only [List.mem_singleton] at h; subst h; exact .inr rfl
        · rcases List.mem_append.mp hx with h | h
          · rcases hinv x h with h | ⟨h, h'⟩
            · exact .inl h
            · exact .inr ⟨h, by push_cast; omega⟩
          · simp only [List.mem_singleton] at h; subst h; exact .inr ⟨rfl, by push_cast; omega⟩
    cases o with
    | some j => exact ⟨hw'.1, hw'.2.1⟩
    | none =>
      simp only
      obtain ⟨g1, g2⟩ := ih (k + 1) w' hw'.1 hw'.2.2
      refine ⟨g1, fun x hx => ?_⟩
      rcases g2 x hx with h | h
      · exact hw'.2.1 x h
      · exact .inr h

/-- the rest of the outer body in step `a`: each pending write `(row, a + co)` lands right of everything already in its row -/
theorem otail_nodup (r : NestRow) (m : Nat) (tol : Rat) (d : Nat → Nat → Rat) (fl : Nat → Nat → Nat → Bool) (ofl : Nat → Nat → Bool)
    (a : Nat) (all : List (Int × Int)) (hall : (all.map (·.1)).Nodup) :
    ∀ (tl : List OEv) (p : Nat) (s : OSt), tl.all (OEv.tailOk r) = true →
      (∀ e ∈ tl.filterMap OEv.wr?, e ∈ all) → ((tl.filterMap OEv.wr?).map (·.1)).Nodup →
      s.writes.Nodup →
      (∀ x ∈ s.writes, ∀ e ∈ all, x.1 = e.1 → x.2 < (a : Int) + 1 + e.2) →
      (∀ x ∈ s.writes, ∀ e ∈ tl.filterMap OEv.wr?, x.1 = e.1 → x.2 < (a : Int) + e.2) →
      (obody r m tol d fl ofl a tl p s).1.writes.Nodup ∧
      (∀ x ∈ (obody r m tol d fl ofl a tl p s).1.writes, ∀ e ∈ all, x.1 = e.1 → x.2 < (a : Int) + 1 + e.2) ∧
      (∀ x ∈ (obody r m tol d fl ofl a tl p s).1.writes, x ∈ s.writes ∨ ∃ e ∈ all, x.1 = e.1) := by
  intro tl
  induction tl with
  | nil =>
    intro p s _ _ _ hn hA _
    exact ⟨by simpa [obody] using hn, by simpa [obody] using hA, fun x hx => .inl (by simpa [obody] using hx)⟩
  | cons ev tl ih =>
    intro p s hok hsub hnd hn hA hP
    simp only [List.all_cons, Bool.and_eq_true] at hok
    obtain ⟨hev, hok⟩ := hok
    cases ev with
    | inner => simp [OEv.tailOk] at hev
    | jmax => simp [OEv.tailOk] at hev
    | brk =>
      have he : (OEv.brk :: tl).filterMap OEv.wr? = tl.filterMap OEv.wr? := rfl
      rw [he] at hsub hnd hP
      simp only [obody]
      split
      · exact ⟨hn, hA, fun x hx => .inl hx⟩
      · exact ih (p + 1) s hok hsub hnd hn hA hP
    | write row co =>
      have he : (OEv.write row co :: tl).filterMap OEv.wr? = (row, co) :: tl.filterMap OEv.wr? := rfl
      rw [he] at hsub hnd hP
      have hmem : (row, co) ∈ all := hsub (row, co) (by simp)
      have hsub' : ∀ e ∈ tl.filterMap OEv.wr?, e ∈ all := fun e he => hsub e (by simp [he])
      simp only [List.map_cons, List.nodup_cons] at hnd
      obtain ⟨hrow, hnd'⟩ := hnd
      have hfresh : (row, (a : Int) + co) ∉ s.writes := by
        intro hx
        have := hP _ hx (row, co) (by simp) rfl
        simp at this
      -- rows of `all` are pairwise different
      have hinj : ∀ e ∈ all, e.1 = row → e = (row, co) := fun e he h => List.inj_on_of_nodup_map hall he hmem h
      simp only [obody]
      obtain ⟨g1, g2, g3⟩ := ih (p + 1) { s with writes := s.writes ++ [(row, (a : Int) + co)] } hok hsub' hnd'
        (List.Nodup.append hn (by simp) (by
          intro x hx hx'
          simp only [List.mem_singleton] at hx'
          subst hx'
          exact hfresh hx))
        (by
          intro x hx e he hxe
          rcases List.mem_append.mp hx with h | h
          · exact hA x h e he hxe
          · simp only [List.mem_singleton] at h
            subst h
            have := hinj e he hxe.symm
            subst this
            simp)
        (by
          intro x hx e he hxe
          rcases List.mem_append.mp hx with h | h
          · exact hP x h e (by simp [he]) hxe
          · simp only [List.mem_singleton] at h
            subst h
            -- a later write of this step goes to another row
            exact absurd (List.mem_map.mpr ⟨e, he, hxe.symm⟩) hrow)
      refine ⟨g1, g2, fun x hx => ?_⟩
      rcases g3 x hx with h | h
      · rcases List.mem_append.mp h with h | h
        · exact .inl h
        · simp only [List.mem_singleton] at h
          subst h
          exact .inr ⟨(row, co), hmem, rfl⟩
      · exact .inr h

theorem distinct_spec {r : NestRow} (h : r.distinct = true) :
    ∃ ro co tl, r.ibody.filterMap NEv.wr? = [(ro, co)] ∧ r.outer = .inner :: .jmax :: tl ∧
      ((tl.filterMap OEv.wr?).map (·.1)).Nodup ∧ ∀ e ∈ tl.filterMap OEv.wr?, e.1 < ro := by
  unfold NestRow.distinct at h
  split at h
  · rename_i ro co tl h1 h2
    simp only [Bool.and_eq_true, List.all_eq_true, decide_eq_true_eq] at h
    exact ⟨ro, co, tl, h1, tail_eq h2, by simpa using h.1, h.2⟩
  · simp at h

/-- no entry of the record is written twice, whatever the numeric work does -/
theorem oloop_nodup (r : NestRow) (hok : r.ok = true) (hd : r.distinct = true) (m : Nat) (tol : Rat) (d : Nat → Nat → Rat)
    (fl : Nat → Nat → Nat → Bool) (ofl : Nat → Nat → Bool) :
    ∃ (ro : Int) (all : List (Int × Int)), ∀ (f a : Nat) (s : OSt), s.writes.Nodup →
      (∀ x ∈ s.writes, ∀ e ∈ all, x.1 = e.1 → x.2 < (a : Int) + e.2) → (∀ x ∈ s.writes, x.1 < (a : Int) + ro) →
      (oloop r m tol d fl ofl f a s).writes.Nodup := by
  obtain ⟨ro, co, tl, hw, houter, hnd, hlt⟩ := distinct_spec hd
  have htl : tl.all (OEv.tailOk r) = true := by
    simp only [NestRow.ok, Bool.and_eq_true] at hok
    have h := hok.1.1.1.1.1.1.2
    split at h
    · rename_i tl' h'
      have := tail_eq h'
      rw [houter] at this
      simp only [List.cons.injEq, true_and] at this
      rw [this]; exact h
    · simp at h
  refine ⟨ro, tl.filterMap OEv.wr?, ?_⟩
  intro f
  induction f with
  | zero => intro a s hn _ _; simpa [oloop] using hn
  | succ f ih =>
    intro a s hn hA hB
    rw [oloop, houter]
    by_cases hz : ((m : Int) + r.ihi).toNat = 0
    · -- empty inner range: j keeps its binding
      simp only [obody, hz, if_true]
      cases hj : s.j with
      | none => simpa using hn
      | some j =>
        simp only
        obtain ⟨g1, g2, g3⟩ := otail_nodup r m tol d fl ofl a (tl.filterMap OEv.wr?) hnd tl (0 + 1 + 1) { writes := s.writes, j := some j, jmax := max j s.jmax, raised := s.raised } htl
          (fun e he => he) hnd hn (fun x hx e he hxe => by have := hA x hx e he hxe; omega) hA
        generalize obody r m tol d fl ofl a tl (0 + 1 + 1) { writes := s.writes, j := some j, jmax := max j s.jmax, raised := s.raised } = ob at g1 g2 g3
        obtain ⟨s2, brk⟩ := ob
        simp only at g1 g2 g3
        cases brk with
        | true => simp only; split <;> exact g1
        | false =>
          simp only
          refine ih (a + 1) s2 g1 (fun x hx e he hxe => by have := g2 x hx e he hxe; push_cast; omega) (fun x hx => ?_)
          rcases g3 x hx with h | ⟨e, he, hxe⟩
          · have := hB x h; push_cast; omega
          · have := hlt e he; push_cast; omega
    · simp only [obody, hz, if_false]
      have hsp := nloop_nodup r ro co hw tol d fl a ((m : Int) + r.ihi).toNat 0 s.writes hn
        (fun x hx => .inl (hB x hx))
      generalize nloop r tol d fl a ((m : Int) + r.ihi).toNat 0 s.writes = nl at hsp
      obtain ⟨w1, j1⟩ := nl
      simp only at hsp ⊢
      obtain ⟨hn1, hnew⟩ := hsp
      -- entries of the inner loop lie in row a + ro, above every row of the outer writes
      have hA1 : ∀ x ∈ w1, ∀ e ∈ tl.filterMap OEv.wr?, x.1 = e.1 → x.2 < (a : Int) + e.2 := by
        intro x hx e he hxe
        rcases hnew x hx with h | h
        · exact hA x h e he hxe
        · have := hlt e he; omega
      obtain ⟨g1, g2, g3⟩ := otail_nodup r m tol d fl ofl a (tl.filterMap OEv.wr?) hnd tl (0 + 1 + 1)
        { writes := w1, j := some j1, jmax := max j1 s.jmax, raised := s.raised } htl
        (fun e he => he) hnd hn1 (fun x hx e he hxe => by have := hA1 x hx e he hxe; omega) hA1
      generalize obody r m tol d fl ofl a tl (0 + 1 + 1) { writes := w1, j := some j1, jmax := max j1 s.jmax, raised := s.raised } = ob at g1 g2 g3
      obtain ⟨s2, brk⟩ := ob
      simp only at g1 g2 g3
      cases brk with
      | true => simp only; split <;> exact g1
      | false =>
        simp only
        refine ih (a + 1) s2 g1 (fun x hx e he hxe => by have := g2 x hx e he hxe; push_cast; omega) (fun x hx => ?_)
        rcases g3 x hx with h | ⟨e, he, hxe⟩
        · rcases hnew x h with h | h
          · have := hB x h; push_cast; omega
          · push_cast; omega
        · have := hlt e he; push_cast; omega

theorem nrun_nodup (r : NestRow) (hok : r.ok = true) (hd : r.distinct = true) (m m2 : Nat) (tol : Rat) (d : Nat → Nat → Rat)
    (fl : Nat → Nat → Nat → Bool) (ofl : Nat → Nat → Bool) : (nrun r m m2 tol d fl ofl).writes.Nodup := by
  obtain ⟨ro, all, h⟩ := oloop_nodup r hok hd m tol d fl ofl
  simp only [nrun]
  split
  · simp
  · exact h _ 0 ⟨[], none, r.jmax0, false⟩ (by simp) (by simp) (by simp)

end PbVerif.Lemmas.LoopNest
