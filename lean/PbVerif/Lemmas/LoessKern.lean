import PbVerif.Model.LoessKern
/-! C19: the two memory strategies of LOESS compute the same thing (proofs; core Lean only).
Everything here holds for EVERY interpretation of the scalar operations and of the solver. -/
namespace PbVerif.Lemmas.LoessKern
open PbVerif.LoessKern

variable {α : Type}

/-- what `_loess_first_loop` leaves in `kernels` -/
def storeAll (o : Num α) (x : List α) (L : List (Nat × Nat × Nat)) (ks : List (List α)) : List (List α) :=
  L.foldl (fun ks p => ks.set p.1 (kernelOf o x p.1 p.2.1 p.2.2)) ks

/-- `kernels[i]` is the kernel of fit point `i` for every (fit, window) pair of the traversal -/
def Stored (o : Num α) (x : List α) (kernels : List (List α)) (L : List (Nat × Nat × Nat)) : Prop :=
  ∀ p ∈ L, kernels.getD p.1 [] = kernelOf o x p.1 p.2.1 p.2.2

theorem foldl_congr_mem {σ τ : Type} (f g : σ → τ → σ) (L : List τ) (h : ∀ s, ∀ p ∈ L, f s p = g s p) (s : σ) :
    L.foldl f s = L.foldl g s := by
  induction L generalizing s with
  | nil => rfl
  | cons p L ih =>
    simp only [List.foldl_cons]
    rw [h s p (List.mem_cons_self ..)]
    exact ih (fun s q hq => h s q (List.mem_cons_of_mem _ hq)) _

/-- the fold of `_loess_first_loop`, split into its two components -/
theorem first_fold (o : Num α) (solver : Solver α) (x yf : List α) (vf vander : List (List α))
    (L : List (Nat × Nat × Nat)) (ks : List (List α)) (s : Out α) :
    L.foldl (fun (ks : List (List α) × Out α) p =>
        let kernel := kernelOf o x p.1 p.2.1 p.2.2
        (ks.1.set p.1 kernel, write ks.2 p.1 (fitAt o solver yf vf vander kernel p.1 p.2.1 p.2.2))) (ks, s) =
      (storeAll o x L ks,
       L.foldl (fun s p => write s p.1 (fitAt o solver yf vf vander (kernelOf o x p.1 p.2.1 p.2.2) p.1 p.2.1 p.2.2)) s) := by
  induction L generalizing ks s with
  | nil => rfl
  | cons p L ih => simp only [List.foldl_cons, storeAll]; rw [ih]; rfl

theorem firstLoop_eq (o : Num α) (solver : Solver α) (x y w : List α) (coefs vander : List (List α)) (n : Nat)
    (windows : List (Nat × Nat)) (fits : List Nat) (junk : List (List α)) :
    firstLoop o solver x y w coefs vander n windows fits junk =
      (storeAll o x (fits.zip windows) junk, lowMemory o solver x y w coefs vander n windows fits) := by
  unfold firstLoop lowMemory
  exact first_fold ..

theorem storeAll_length (o : Num α) (x : List α) (L : List (Nat × Nat × Nat)) (ks : List (List α)) :
    (storeAll o x L ks).length = ks.length := by
  induction L generalizing ks with
  | nil => rfl
  | cons p L ih => simp only [storeAll, List.foldl_cons]; exact (ih _).trans (List.length_set ..)

theorem storeAll_other (o : Num α) (x : List α) (L : List (Nat × Nat × Nat)) (ks : List (List α)) (j : Nat)
    (hj : j ∉ L.map Prod.fst) : (storeAll o x L ks).getD j [] = ks.getD j [] := by
  induction L generalizing ks with
  | nil => rfl
  | cons p L ih =>
    simp only [List.map_cons, List.mem_cons, not_or] at hj
    simp only [storeAll, List.foldl_cons]
    have := ih (ks.set p.1 (kernelOf o x p.1 p.2.1 p.2.2)) hj.2
    simp only [storeAll] at this
    rw [this]
    simp only [List.getD_eq_getElem?_getD, List.getElem?_set]
    rw [if_neg (fun h => hj.1 h.symm)]

/-- distinct, in-range fit indices: after the first pass `kernels[i]` holds the kernel of every fitted `i`
(with a repeated index the later write would win; with `i ≥ num_x` the real assignment raises) -/
theorem storeAll_stored (o : Num α) (x : List α) (L : List (Nat × Nat × Nat)) (ks : List (List α))
    (hnd : (L.map Prod.fst).Nodup) (hlt : ∀ p ∈ L, p.1 < ks.length) :
    Stored o x (storeAll o x L ks) L := by
  induction L generalizing ks with
  | nil => intro p hp; cases hp
  | cons q L ih =>
    simp only [List.map_cons, List.nodup_cons] at hnd
    intro p hp
    simp only [storeAll, List.foldl_cons]
    rcases List.mem_cons.1 hp with rfl | hp
    · have := storeAll_other o x L (ks.set p.1 (kernelOf o x p.1 p.2.1 p.2.2)) p.1 hnd.1
      simp only [storeAll] at this
      rw [this]
      have hlt' := hlt p (List.mem_cons_self ..)
      simp [List.getD_eq_getElem?_getD, hlt']
    · have := ih (ks.set q.1 (kernelOf o x q.1 q.2.1 q.2.2)) hnd.2
        (fun p hp => by rw [List.length_set]; exact hlt p (List.mem_cons_of_mem _ hp)) p hp
      simpa only [storeAll] using this

theorem zip_fst_nodup (fits : List Nat) (windows : List (Nat × Nat)) (hnd : fits.Nodup) :
    ((fits.zip windows).map Prod.fst).Nodup := by
  induction fits generalizing windows with
  | nil => simp
  | cons a fits ih =>
    cases windows with
    | nil => simp
    | cons b windows =>
      simp only [List.nodup_cons] at hnd
      simp only [List.zip_cons_cons, List.map_cons, List.nodup_cons]
      refine ⟨fun h => hnd.1 ?_, ih windows hnd.2⟩
      obtain ⟨p, hp, rfl⟩ := List.mem_map.1 h
      exact (List.of_mem_zip hp).1

/-- **the cache is right**: after `_loess_first_loop` the stored kernels are those `_loess_low_memory`
recomputes, for any data, weights and solver used in that first pass -/
theorem firstLoop_stored (o : Num α) (solver : Solver α) (x y w : List α) (coefs vander : List (List α)) (n : Nat)
    (windows : List (Nat × Nat)) (fits : List Nat) (junk : List (List α))
    (hnd : fits.Nodup) (hlt : ∀ i ∈ fits, i < junk.length) :
    Stored o x (firstLoop o solver x y w coefs vander n windows fits junk).1 (fits.zip windows) := by
  rw [firstLoop_eq]
  exact storeAll_stored o x _ junk (zip_fst_nodup fits windows hnd)
    (fun p hp => hlt p.1 (List.of_mem_zip hp).1)

/-- `_loess_nonfirst_loops` reading a correct cache is `_loess_low_memory` -/
theorem nonfirst_eq_lowMemory (o : Num α) (solver : Solver α) (x y w : List α) (coefs vander kernels : List (List α))
    (n : Nat) (windows : List (Nat × Nat)) (fits : List Nat) (hst : Stored o x kernels (fits.zip windows)) :
    nonfirstLoops o solver y w coefs vander kernels windows n fits =
      lowMemory o solver x y w coefs vander n windows fits := by
  unfold nonfirstLoops lowMemory
  apply foldl_congr_mem
  intro s p hp
  rw [hst p hp]

/-- from the second iteration on, with a correct cache -/
theorem loop_later (o : Num α) (solver : Solver α) (x : List α) (vander : List (List α)) (n : Nat)
    (windows : List (Nat × Nat)) (fits : List Nat) {β : Type} (upd : Update α β) (fuel : Nat) :
    ∀ (it : Nat) (s : LState α β) (k1 k2 : List (List α)), it ≠ 0 → Stored o x k2 (fits.zip windows) →
      loessLoop true o solver x vander n windows fits upd fuel it s k1 =
        loessLoop false o solver x vander n windows fits upd fuel it s k2 := by
  induction fuel with
  | zero => intros; rfl
  | succ fuel ih =>
    intro it s k1 k2 hit hst
    simp only [loessLoop, if_true, Bool.false_eq_true, if_false, if_neg hit]
    rw [nonfirst_eq_lowMemory o solver x s.y s.w s.coefs vander k2 n windows fits hst]
    cases (upd s.acc s.y s.w (lowMemory o solver x s.y s.w s.coefs vander n windows fits).baseline).2 with
    | none => rfl
    | some yw => exact ih (it + 1) _ k1 k2 (Nat.succ_ne_zero it) hst

/-- **`conserve_memory` does not change the result of `loess`**: every iteration budget, every update rule -/
theorem loop_strategies (o : Num α) (solver : Solver α) (x : List α) (vander : List (List α)) (n : Nat)
    (windows : List (Nat × Nat)) (fits : List Nat) {β : Type} (upd : Update α β) (fuel : Nat)
    (s : LState α β) (junk : List (List α)) (hnd : fits.Nodup) (hlt : ∀ i ∈ fits, i < junk.length) :
    loessLoop true o solver x vander n windows fits upd fuel 0 s junk =
      loessLoop false o solver x vander n windows fits upd fuel 0 s junk := by
  cases fuel with
  | zero => rfl
  | succ fuel =>
    have hst := firstLoop_stored o solver x s.y s.w s.coefs vander n windows fits junk hnd hlt
    simp only [loessLoop, if_true, Bool.false_eq_true, if_false]
    rw [firstLoop_eq] at hst ⊢
    cases (upd s.acc s.y s.w (lowMemory o solver x s.y s.w s.coefs vander n windows fits).baseline).2 with
    | none => rfl
    | some yw => exact loop_later o solver x vander n windows fits upd fuel 1 _ junk _ (by decide) hst

/-! ### what a pass writes -/

theorem write_lengths (s : Out α) (i : Nat) (r : List α × α) :
    (write s i r).baseline.length = s.baseline.length ∧ (write s i r).coefs.length = s.coefs.length := by
  simp [write]

theorem write_other (s : Out α) (i j : Nat) (r : List α × α) (h : j ≠ i) :
    (write s i r).baseline.getD j none = s.baseline.getD j none ∧
      (write s i r).coefs.getD j [] = s.coefs.getD j [] := by
  simp only [write, List.getD_eq_getElem?_getD, List.getElem?_set]
  rw [if_neg (fun e => h e.symm), if_neg (fun e => h e.symm)]
  exact ⟨rfl, rfl⟩

theorem write_self (s : Out α) (i : Nat) (r : List α × α) :
    (i < s.baseline.length → (write s i r).baseline.getD i none = some r.2) ∧
      (i < s.coefs.length → (write s i r).coefs.getD i [] = r.1) := by
  constructor <;> intro h <;> simp [write, List.getD_eq_getElem?_getD, h]

/-- a pass `for idx …: baseline[i] = …; coefs[i] = …` over the (fit, window) pairs `L`: entries of indices not
in `fits` are untouched, every other entry holds what the LAST pair with that index wrote -/
theorem fold_write (g : Nat × Nat × Nat → List α × α) (L : List (Nat × Nat × Nat)) (s : Out α) :
    let r := L.foldl (fun s p => write s p.1 (g p)) s
    r.baseline.length = s.baseline.length ∧ r.coefs.length = s.coefs.length ∧
    ∀ j, (j ∉ L.map Prod.fst → r.baseline.getD j none = s.baseline.getD j none ∧
            r.coefs.getD j [] = s.coefs.getD j []) ∧
         (j ∈ L.map Prod.fst → ∃ q ∈ L, q.1 = j ∧
            (j < s.baseline.length → r.baseline.getD j none = some (g q).2) ∧
            (j < s.coefs.length → r.coefs.getD j [] = (g q).1)) := by
  induction L generalizing s with
  | nil => exact ⟨rfl, rfl, fun j => ⟨fun _ => ⟨rfl, rfl⟩, fun h => by cases h⟩⟩
  | cons p L ih =>
    simp only [List.foldl_cons]
    obtain ⟨hb, hc, hj⟩ := ih (write s p.1 (g p))
    obtain ⟨hwb, hwc⟩ := write_lengths s p.1 (g p)
    refine ⟨hb.trans hwb, hc.trans hwc, fun j => ⟨fun hnot => ?_, fun hin => ?_⟩⟩
    · simp only [List.map_cons, List.mem_cons, not_or] at hnot
      obtain ⟨h1, h2⟩ := (hj j).1 hnot.2
      obtain ⟨h3, h4⟩ := write_other s p.1 j (g p) hnot.1
      exact ⟨h1.trans h3, h2.trans h4⟩
    · by_cases hjL : j ∈ L.map Prod.fst
      · obtain ⟨q, hq, hqj, h1, h2⟩ := (hj j).2 hjL
        exact ⟨q, List.mem_cons_of_mem _ hq, hqj, fun h => h1 (hwb ▸ h), fun h => h2 (hwc ▸ h)⟩
      · have hjp : j = p.1 := by
          simp only [List.map_cons, List.mem_cons] at hin
          exact hin.resolve_right hjL
        subst hjp
        obtain ⟨h1, h2⟩ := (hj p.1).1 hjL
        obtain ⟨h3, h4⟩ := write_self s p.1 (g p)
        exact ⟨p, List.mem_cons_self .., rfl, fun h => h1.trans (h3 h), fun h => h2.trans (h4 h)⟩

theorem zip_map_fst (fits : List Nat) (windows : List (Nat × Nat)) (h : windows.length = fits.length) :
    (fits.zip windows).map Prod.fst = fits := by
  induction fits generalizing windows with
  | nil => simp
  | cons a fits ih =>
    cases windows with
    | nil => simp at h
    | cons b windows =>
      simp only [List.zip_cons_cons, List.map_cons]
      rw [ih windows (by simpa using h)]

/-- `_loess_low_memory` writes `baseline[i]` exactly for the fitted indices `i` (the rest stays as `np.empty`
left it, to be filled by `_fill_skips`), and leaves the `coefs` rows of the other indices alone -/
theorem lowMemory_written (o : Num α) (solver : Solver α) (x y w : List α) (coefs vander : List (List α)) (n : Nat)
    (windows : List (Nat × Nat)) (fits : List Nat) (hlen : windows.length = fits.length)
    (hlt : ∀ i ∈ fits, i < n) (j : Nat) (hj : j < n) :
    let r := lowMemory o solver x y w coefs vander n windows fits
    r.baseline.length = n ∧ (r.baseline.getD j none ≠ none ↔ j ∈ fits) ∧
      (j ∉ fits → r.coefs.getD j [] = coefs.getD j []) := by
  have _ := hlt
  unfold lowMemory
  have h := fold_write
    (fun p => fitAt o solver (yFit o y w) (vanderFit o vander w) vander (kernelOf o x p.1 p.2.1 p.2.2) p.1 p.2.1 p.2.2)
    (fits.zip windows) (out0 n coefs)
  rw [zip_map_fst fits windows hlen] at h
  obtain ⟨hb, _, hjj⟩ := h
  have hn0 : (out0 n coefs).baseline.length = n := by simp [out0]
  refine ⟨hb.trans hn0, ⟨fun hne => ?_, fun hin => ?_⟩, fun hnot => ((hjj j).1 hnot).2⟩
  · exact Decidable.byContradiction fun hnot => hne (by
      rw [((hjj j).1 hnot).1]
      simp [out0, List.getD_eq_getElem?_getD, hj])
  · obtain ⟨q, _, _, h1, _⟩ := (hjj j).2 hin
    rw [h1 (by rw [hn0]; exact hj)]
    exact Option.some_ne_none _

end PbVerif.Lemmas.LoessKern
