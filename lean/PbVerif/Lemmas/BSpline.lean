import PbVerif.Model.BSpline
/-! Helper lemmas for C12 and the spline part of C05 (proofs). -/
namespace PbVerif.Lemmas
open PbVerif.BSpline

/-! ### index bounds (C05), for arbitrary comparison outcomes -/

theorem down_bounds (lt : Nat → Bool) (deg fuel left : Nat) (h : deg ≤ left) :
    deg ≤ (down lt deg fuel left).1 ∧ (down lt deg fuel left).1 ≤ left ∧
    ∀ i ∈ (down lt deg fuel left).2, deg ≤ i ∧ i ≤ left := by sorry

theorem up_bounds (ge : Nat → Bool) (nb fuel left : Nat) (h : left ≤ nb) :
    left ≤ (up ge nb fuel left).1 ∧ (up ge nb fuel left).1 ≤ nb ∧
    ∀ i ∈ (up ge nb fuel left).2, left ≤ i ∧ i ≤ nb := by sorry

/-- the fuel given by `findIntervalT` is enough: more fuel changes nothing (so the `0`-fuel
equations of `down`/`up` are never used and the model is the `while` loop) -/
theorem down_fuel (lt : Nat → Bool) (deg f left : Nat) (h : left - deg + 1 ≤ f) :
    down lt deg f left = down lt deg (left - deg + 1) left := by sorry
theorem up_fuel (ge : Nat → Bool) (nb f left : Nat) (h : nb - left + 1 ≤ f) (hl : left ≤ nb) :
    up ge nb f left = up ge nb (nb - left + 1) left := by sorry

/-- `_find_interval`: for every comparison outcome (NaN, unsorted knots, any `last_left`) the result
lies in `[deg, numBases)` and every knot index read is ≤ numBases -/
theorem findIntervalT_inb (lt ge : Nat → Bool) (deg lastLeft nb : Nat) (h : deg < nb) :
    deg ≤ (findIntervalT lt ge deg lastLeft nb).1 ∧ (findIntervalT lt ge deg lastLeft nb).1 < nb ∧
    ∀ i ∈ (findIntervalT lt ge deg lastLeft nb).2, i ≤ nb := by sorry

theorem deBoorKnotReads_inb (deg left nb : Nat) (h1 : deg ≤ left) (h2 : left < nb) :
    ∀ i ∈ deBoorKnotReads deg left, 0 ≤ i ∧ i < ((nb + deg + 1 : Nat) : Int) := by sorry
theorem deBoorWorkTouch_inb (deg : Nat) : ∀ i ∈ deBoorWorkTouch deg, i < 2 * (deg + 1) := by sorry
theorem accRowAbWrites_inb (deg left nb : Nat) (h1 : deg ≤ left) (h2 : left < nb) :
    ∀ p ∈ accRowAbWrites deg left, p.1 < deg + 1 ∧ 0 ≤ p.2 ∧ p.2 < (nb : Int) := by sorry
theorem accRowRhsWrites_inb (deg left nb : Nat) (h1 : deg ≤ left) (h2 : left < nb) :
    ∀ i ∈ accRowRhsWrites deg left, 0 ≤ i ∧ i < (nb : Int) := by sorry

/-! ### values (C12) -/

theorem deBoor_length (knots : List Rat) (x : Rat) (deg left : Nat) : (deBoor knots x deg left).length = deg + 1 := by sorry

/-- hypotheses under which de Boor's recursion is evaluated by the library: non-decreasing knots,
x inside the non-degenerate interval `[knots[left], knots[left+1]]` -/
structure InInterval (knots : List Rat) (x : Rat) (left : Nat) : Prop where
  sorted : knots.Pairwise (· ≤ ·)
  inb : left + 1 < knots.length
  lo : knots.getD left 0 ≤ x
  hi : x ≤ knots.getD (left + 1) 0
  nondeg : knots.getD left 0 < knots.getD (left + 1) 0

theorem deBoor_nonneg (knots : List Rat) (x : Rat) (deg left : Nat) (h : InInterval knots x left)
    (hd : deg ≤ left) (hk : left + deg < knots.length) :
    ∀ v ∈ deBoor knots x deg left, 0 ≤ v := by sorry
theorem deBoor_sum_one (knots : List Rat) (x : Rat) (deg left : Nat) (h : InInterval knots x left)
    (hd : deg ≤ left) (hk : left + deg < knots.length) :
    (deBoor knots x deg left).sum = 1 := by sorry

/-- the values are the Cox–de Boor basis functions `B_{left-deg+j, deg}(x)` (x in the half-open interval) -/
theorem deBoor_eq_cox (knots : List Rat) (x : Rat) (deg left : Nat) (h : InInterval knots x left)
    (hx : x < knots.getD (left + 1) 0) (hd : deg ≤ left) (hk : left + deg < knots.length) (j : Nat) (hj : j ≤ deg) :
    (deBoor knots x deg left).getD j 0 = cox knots deg (left - deg + j) x := by sorry

/-- `_find_interval` returns the interval containing x (the last one at the right end), whatever
`last_left` was -/
theorem findInterval_spec (knots : List Rat) (deg nb : Nat) (x : Rat) (lastLeft : Nat)
    (hs : knots.Pairwise (· ≤ ·)) (hlen : knots.length = nb + deg + 1) (hd : deg < nb)
    (hlo : knots.getD deg 0 ≤ x) :
    let r := findInterval knots deg x lastLeft nb
    deg ≤ r ∧ r < nb ∧ knots.getD r 0 ≤ x ∧ (x < knots.getD (r + 1) 0 ∨ r + 1 = nb) := by sorry

/-- well-formed CSR rows -/
def RowsWf (deg nb : Nat) (rows : List Row) : Prop :=
  ∀ r ∈ rows, r.vals.length = deg + 1 ∧ deg ≤ r.left ∧ r.left < nb

theorem designRows_wf (knots : List Rat) (deg : Nat) (xs : List Rat) (h : deg < knots.length - (deg + 1)) :
    RowsWf deg (knots.length - (deg + 1)) (designRows knots deg xs) ∧ (designRows knots deg xs).length = xs.length := by sorry

/-- **the banded normal equations are exact**: the accumulated lower bands are `B'WB` and the
right-hand side is `B'Wy`, for every weight vector (zeros included) -/
theorem btb_eq (deg nb : Nat) (rows : List Row) (ys ws : List Rat) (h : RowsWf deg nb rows)
    (hy : ys.length = rows.length) (hw : ws.length = rows.length) (r c : Nat) (hr : r ≤ deg) (hc : c + r < nb) :
    ((btbBty deg nb rows ys ws).1.getD r []).getD c 0 = btbSpec deg rows ws r c := by sorry
theorem bty_eq (deg nb : Nat) (rows : List Row) (ys ws : List Rat) (h : RowsWf deg nb rows)
    (hy : ys.length = rows.length) (hw : ws.length = rows.length) (c : Nat) (hc : c < nb) :
    (btbBty deg nb rows ys ws).2.getD c 0 = btySpec deg rows ys ws c := by sorry

theorem splineKnots_length (a b : Rat) (nk deg : Nat) : (splineKnots a b nk deg).length = nk + 2 * deg := by sorry
theorem basisMidpointsCount_eq (numKnots deg : Nat) (h : 2 ≤ numKnots) :
    basisMidpointsCount (numKnots + 2 * deg) deg = numKnots + deg - 1 := by sorry

end PbVerif.Lemmas
