import PbVerif.Model.BSpline
import Mathlib.Tactic.Ring
import Mathlib.Tactic.Linarith
import Mathlib.Tactic.FieldSimp
import Mathlib.Algebra.Order.Field.Rat
/-! Helper lemmas for C12 and the spline part of C05 (proofs). -/
set_option linter.unusedVariables false
namespace PbVerif.Lemmas
open PbVerif.BSpline

/-! ### index bounds (C05), for arbitrary comparison outcomes -/

theorem down_bounds (lt : Nat → Bool) (deg fuel left : Nat) (h : deg ≤ left) :
    deg ≤ (down lt deg fuel left).1 ∧ (down lt deg fuel left).1 ≤ left ∧
    ∀ i ∈ (down lt deg fuel left).2, deg ≤ i ∧ i ≤ left := by
  induction fuel generalizing left with
  | zero => simp [down, h]
  | succ f ih =>
    simp only [down]
    split
    · rename_i hc
      simp only [Bool.and_eq_true, bne_iff_ne, ne_eq] at hc
      have := ih (left - 1) (by omega)
      refine ⟨this.1, by omega, ?_⟩
      intro i hi
      simp only [List.mem_cons] at hi
      rcases hi with rfl | hi
      · omega
      · have := this.2.2 i hi; omega
    · simp [h]

theorem up_bounds (ge : Nat → Bool) (nb fuel left : Nat) (h : left ≤ nb) :
    left ≤ (up ge nb fuel left).1 ∧ (up ge nb fuel left).1 ≤ nb ∧
    ∀ i ∈ (up ge nb fuel left).2, left ≤ i ∧ i ≤ nb := by
  induction fuel generalizing left with
  | zero => simp [up, h]
  | succ f ih =>
    simp only [up]
    split
    · rename_i hc
      simp only [Bool.and_eq_true, bne_iff_ne, ne_eq] at hc
      have := ih (left + 1) (by omega)
      refine ⟨by omega, this.2.1, ?_⟩
      intro i hi
      simp only [List.mem_cons] at hi
      rcases hi with rfl | hi
      · omega
      · have := this.2.2 i hi; omega
    · simp [h]

theorem down_fuel_gen (lt : Nat → Bool) (deg f g left : Nat) (hl : deg ≤ left)
    (h : left - deg + 1 ≤ f) (h' : left - deg + 1 ≤ g) :
    down lt deg f left = down lt deg g left := by
  induction f generalizing left g with
  | zero => omega
  | succ f ih =>
    cases g with
    | zero => omega
    | succ g =>
      simp only [down]
      split
      · rename_i hc
        simp only [Bool.and_eq_true, bne_iff_ne, ne_eq] at hc
        rw [ih g (left - 1) (by omega) (by omega) (by omega)]
      · rfl

theorem up_fuel_gen (ge : Nat → Bool) (nb f g left : Nat) (hl : left ≤ nb)
    (h : nb - left + 1 ≤ f) (h' : nb - left + 1 ≤ g) :
    up ge nb f left = up ge nb g left := by
  induction f generalizing left g with
  | zero => omega
  | succ f ih =>
    cases g with
    | zero => omega
    | succ g =>
      simp only [up]
      split
      · rename_i hc
        simp only [Bool.and_eq_true, bne_iff_ne, ne_eq] at hc
        rw [ih g (left + 1) (by omega) (by omega) (by omega)]
      · rfl

/-- the fuel given by `findIntervalT` is enough: more fuel changes nothing (so the `0`-fuel
equations of `down`/`up` are never used and the model is the `while` loop). The hypothesis
`deg ≤ left` is what `findIntervalT` guarantees (its start index is `last_left` only if
`deg < last_left`, else `deg`); without it the statement is false:
`down (fun _ => true) 5 2 3 = (1, [3, 2])` but `down (fun _ => true) 5 1 3 = (2, [3])`. -/
theorem down_fuel (lt : Nat → Bool) (deg f left : Nat) (hl : deg ≤ left) (h : left - deg + 1 ≤ f) :
    down lt deg f left = down lt deg (left - deg + 1) left :=
  down_fuel_gen lt deg f _ left hl h (Nat.le_refl _)
theorem up_fuel (ge : Nat → Bool) (nb f left : Nat) (h : nb - left + 1 ≤ f) (hl : left ≤ nb) :
    up ge nb f left = up ge nb (nb - left + 1) left :=
  up_fuel_gen ge nb f _ left hl h (Nat.le_refl _)

theorem findIntervalT_inb (lt ge : Nat → Bool) (deg lastLeft nb : Nat) (h : deg < nb) :
    deg ≤ (findIntervalT lt ge deg lastLeft nb).1 ∧ (findIntervalT lt ge deg lastLeft nb).1 < nb ∧
    ∀ i ∈ (findIntervalT lt ge deg lastLeft nb).2, i ≤ nb := by
  simp only [findIntervalT]
  generalize hl0 : (if deg < lastLeft ∧ lastLeft < nb then lastLeft else deg) = l0
  have hl0a : deg ≤ l0 ∧ l0 < nb := by subst hl0; split <;> omega
  have hd := down_bounds lt deg (l0 - deg + 1) l0 hl0a.1
  generalize down lt deg (l0 - deg + 1) l0 = d at hd
  have hu := up_bounds ge nb (nb - d.1 + 1) (d.1 + 1) (by omega)
  generalize up ge nb (nb - d.1 + 1) (d.1 + 1) = u at hu
  refine ⟨by omega, by omega, ?_⟩
  intro i hi
  simp only [List.mem_append] at hi
  rcases hi with hi | hi
  · have := hd.2.2 i hi; omega
  · have := hu.2.2 i hi; omega

theorem deBoorKnotReads_inb (deg left nb : Nat) (h1 : deg ≤ left) (h2 : left < nb) :
    ∀ i ∈ deBoorKnotReads deg left, 0 ≤ i ∧ i < ((nb + deg + 1 : Nat) : Int) := by
  intro i hi
  simp only [deBoorKnotReads, List.mem_flatMap, List.mem_range, List.mem_cons, List.not_mem_nil, or_false] at hi
  obtain ⟨i0, hi0, j0, hj0, hi⟩ := hi
  rcases hi with rfl | rfl <;> omega

theorem deBoorWorkTouch_inb (deg : Nat) : ∀ i ∈ deBoorWorkTouch deg, i < 2 * (deg + 1) := by
  intro i hi
  simp only [deBoorWorkTouch, List.mem_flatMap, List.mem_range, List.mem_cons, List.not_mem_nil, or_false] at hi
  rcases hi with rfl | ⟨i0, hi0, j0, hj0, hi⟩
  · omega
  · rcases hi with rfl | rfl <;> omega

theorem accRowAbWrites_inb (deg left nb : Nat) (h1 : deg ≤ left) (h2 : left < nb) :
    ∀ p ∈ accRowAbWrites deg left, p.1 < deg + 1 ∧ 0 ≤ p.2 ∧ p.2 < (nb : Int) := by
  intro p hp
  simp only [accRowAbWrites, List.mem_flatMap, List.mem_range, List.mem_map] at hp
  obtain ⟨j, hj, k, hk, rfl⟩ := hp
  simp only
  omega

theorem accRowRhsWrites_inb (deg left nb : Nat) (h1 : deg ≤ left) (h2 : left < nb) :
    ∀ i ∈ accRowRhsWrites deg left, 0 ≤ i ∧ i < (nb : Int) := by
  intro i hi
  simp only [accRowRhsWrites, List.mem_map, List.mem_range] at hi
  obtain ⟨j, hj, rfl⟩ := hi
  omega

/-! ### values (C12) -/

theorem deBoorStep_length (knots : List Rat) (x : Rat) (left i : Nat) (old : List Rat) :
    (deBoorStep knots x left i old).length = i + 1 := by
  simp [deBoorStep]

theorem deBoorUpTo_length (knots : List Rat) (x : Rat) (left i : Nat) :
    (deBoorUpTo knots x left i).length = i + 1 := by
  cases i with
  | zero => rfl
  | succ i => simp [deBoorUpTo, deBoorStep_length]

theorem deBoor_length (knots : List Rat) (x : Rat) (deg left : Nat) : (deBoor knots x deg left).length = deg + 1 :=
  deBoorUpTo_length knots x left deg

/-- hypotheses under which de Boor's recursion is evaluated by the library: non-decreasing knots,
x inside the non-degenerate interval `[knots[left], knots[left+1]]` -/
structure InInterval (knots : List Rat) (x : Rat) (left : Nat) : Prop where
  sorted : knots.Pairwise (· ≤ ·)
  inb : left + 1 < knots.length
  lo : knots.getD left 0 ≤ x
  hi : x ≤ knots.getD (left + 1) 0
  nondeg : knots.getD left 0 < knots.getD (left + 1) 0

theorem getD_lt {α} (l : List α) (d : α) (n : Nat) (h : n < l.length) : l.getD n d = l[n] := by
  simp [List.getD_eq_getElem?_getD, h]
theorem getD_ge {α} (l : List α) (d : α) (n : Nat) (h : l.length ≤ n) : l.getD n d = d := by
  simp [List.getD_eq_getElem?_getD, h]

theorem knots_mono (knots : List Rat) (hs : knots.Pairwise (· ≤ ·)) {i j : Nat} (hij : i ≤ j)
    (hj : j < knots.length) : knots.getD i 0 ≤ knots.getD j 0 := by
  rw [getD_lt _ _ _ hj, getD_lt _ _ _ (by omega : i < knots.length)]
  rcases Nat.eq_or_lt_of_le hij with rfl | h
  · exact Rat.le_refl
  · exact (List.pairwise_iff_getElem.mp hs) i j _ _ h

/-! sums over `List.range` -/
def sumTo (g : Nat → Rat) : Nat → Rat
  | 0 => 0
  | n+1 => sumTo g n + g n

theorem sum_map_range (g : Nat → Rat) (n : Nat) : ((List.range n).map g).sum = sumTo g n := by
  induction n with
  | zero => rfl
  | succ n ih => simp [List.range_succ, List.sum_append, ih, sumTo]

theorem sumTo_add (a b : Nat → Rat) (n : Nat) : sumTo (fun j => a j + b j) n = sumTo a n + sumTo b n := by
  induction n with
  | zero => simp [sumTo]
  | succ n ih => simp only [sumTo, ih]; ring

theorem sumTo_congr (a b : Nat → Rat) (n : Nat) (h : ∀ j, j < n → a j = b j) : sumTo a n = sumTo b n := by
  induction n with
  | zero => rfl
  | succ n ih => simp only [sumTo]; rw [ih (fun j hj => h j (by omega)), h n (by omega)]

theorem sumTo_shift (g : Nat → Rat) (n : Nat) : sumTo g (n+1) = g 0 + sumTo (fun j => g (j+1)) n := by
  induction n with
  | zero => simp [sumTo]
  | succ n ih => rw [sumTo, ih]; simp only [sumTo]; ring

theorem sum_eq_sumTo (l : List Rat) : l.sum = sumTo (fun j => l.getD j 0) l.length := by
  induction l with
  | nil => rfl
  | cons a l ih =>
    rw [List.length_cons, sumTo_shift, List.sum_cons, ih]
    simp

/-- the two knots of inner iteration `j` of pass `i` bracket the interval -/
theorem knot_bracket (knots : List Rat) (x : Rat) (left i j : Nat) (h : InInterval knots x left)
    (hil : i ≤ left) (hk : left + i < knots.length) (hj1 : 1 ≤ j) (hji : j ≤ i) :
    knots.getD (left + j - i) 0 ≤ x ∧ x ≤ knots.getD (left + j) 0 ∧
    knots.getD (left + j - i) 0 < knots.getD (left + j) 0 := by
  have h1 := knots_mono knots h.sorted (by omega : left + j - i ≤ left) (by omega)
  have h2 := knots_mono knots h.sorted (by omega : left + 1 ≤ left + j) (by omega)
  have := h.lo; have := h.hi; have := h.nondeg
  refine ⟨by linarith, by linarith, by linarith⟩

theorem deBoorStep_getD (knots : List Rat) (x : Rat) (left i : Nat) (old : List Rat) (j : Nat) (hj : j ≤ i) :
    (deBoorStep knots x left i old).getD j 0 =
    (if 1 ≤ j then (if knots.getD (left + j - i) 0 = knots.getD (left + j) 0 then 0 else
        old.getD (j - 1) 0 / (knots.getD (left + j) 0 - knots.getD (left + j - i) 0)) * (x - knots.getD (left + j - i) 0) else 0) +
    (if j + 1 ≤ i then (if knots.getD (left + (j + 1) - i) 0 = knots.getD (left + (j + 1)) 0 then 0 else
        old.getD j 0 / (knots.getD (left + (j + 1)) 0 - knots.getD (left + (j + 1) - i) 0)) * (knots.getD (left + j + 1) 0 - x) else 0) := by
  simp only [deBoorStep, List.getD_eq_getElem?_getD, List.getElem?_map, List.getElem?_range (by omega : j < i + 1)]
  simp

theorem deBoorStep_nonneg (knots : List Rat) (x : Rat) (left i : Nat) (old : List Rat) (h : InInterval knots x left)
    (hil : i ≤ left) (hk : left + i < knots.length) (hold : ∀ j, 0 ≤ old.getD j 0) (j : Nat) :
    0 ≤ (deBoorStep knots x left i old).getD j 0 := by
  by_cases hj : j ≤ i
  · rw [deBoorStep_getD _ _ _ _ _ _ hj]
    apply add_nonneg
    · split
      · rename_i h1
        have hb := knot_bracket knots x left i j h hil hk h1 hj
        rw [if_neg (ne_of_lt hb.2.2)]
        apply mul_nonneg
        · apply div_nonneg (hold _); linarith
        · linarith
      · exact le_refl _
    · split
      · rename_i h1
        have hb := knot_bracket knots x left i (j+1) h hil hk (by omega) h1
        rw [if_neg (ne_of_lt hb.2.2)]
        apply mul_nonneg
        · apply div_nonneg (hold _); linarith
        · have := hb.2.1; rw [← Nat.add_assoc] at this; linarith
      · exact le_refl _
  · rw [getD_ge _ _ _ (by rw [deBoorStep_length]; omega)]

theorem deBoorStep_sum (knots : List Rat) (x : Rat) (left i : Nat) (old : List Rat) (h : InInterval knots x left)
    (hil : i ≤ left) (hk : left + i < knots.length) (hlen : old.length = i) :
    (deBoorStep knots x left i old).sum = old.sum := by
  rw [sum_eq_sumTo, deBoorStep_length, sum_eq_sumTo old, hlen]
  rw [sumTo_congr _ _ _ (fun j hj => deBoorStep_getD knots x left i old j (by omega))]
  rw [sumTo_add, sumTo_shift, sumTo]
  simp only [Nat.not_succ_le_self, if_false]
  rw [show ∀ a b : Rat, 0 + a + (b + 0) = a + b from fun a b => by ring, ← sumTo_add]
  apply sumTo_congr
  intro j hj
  have hb := knot_bracket knots x left i (j+1) h hil hk (by omega) (by omega)
  simp only [← Nat.add_assoc] at hb ⊢
  simp only [Nat.le_add_left, if_true, Nat.add_sub_cancel, if_pos (show j + 1 ≤ i by omega),
    if_neg (ne_of_lt hb.2.2)]
  have hne : knots.getD (left + j + 1) 0 - knots.getD (left + j + 1 - i) 0 ≠ 0 := by
    have := hb.2.2; intro e; linarith
  field_simp
  ring

theorem deBoorUpTo_inv (knots : List Rat) (x : Rat) (left i : Nat) (h : InInterval knots x left)
    (hil : i ≤ left) (hk : left + i < knots.length) :
    (∀ j, 0 ≤ (deBoorUpTo knots x left i).getD j 0) ∧ (deBoorUpTo knots x left i).sum = 1 := by
  induction i with
  | zero =>
    refine ⟨?_, by simp [deBoorUpTo]⟩
    intro j
    cases j <;> simp [deBoorUpTo]
  | succ i ih =>
    have := ih (by omega) (by omega)
    simp only [deBoorUpTo]
    refine ⟨deBoorStep_nonneg _ _ _ _ _ h hil hk this.1, ?_⟩
    rw [deBoorStep_sum _ _ _ _ _ h hil hk (deBoorUpTo_length _ _ _ _), this.2]

theorem deBoor_nonneg (knots : List Rat) (x : Rat) (deg left : Nat) (h : InInterval knots x left)
    (hd : deg ≤ left) (hk : left + deg < knots.length) :
    ∀ v ∈ deBoor knots x deg left, 0 ≤ v := by
  intro v hv
  obtain ⟨n, hn, rfl⟩ := List.getElem_of_mem hv
  have := (deBoorUpTo_inv knots x left deg h hd hk).1 n
  change 0 ≤ (deBoor knots x deg left).getD n 0 at this
  rwa [getD_lt _ _ _ hn] at this
theorem deBoor_sum_one (knots : List Rat) (x : Rat) (deg left : Nat) (h : InInterval knots x left)
    (hd : deg ≤ left) (hk : left + deg < knots.length) :
    (deBoor knots x deg left).sum = 1 := (deBoorUpTo_inv knots x left deg h hd hk).2


theorem cox_zero_left (knots : List Rat) (hs : knots.Pairwise (· ≤ ·)) (x : Rat) (p m : Nat)
    (hm : m + p < knots.length) (hx : x < knots.getD m 0) : cox knots p m x = 0 := by
  induction p generalizing m with
  | zero =>
    simp only [cox]
    rw [if_neg]; intro h; linarith [h.1]
  | succ p ih =>
    have h1 := knots_mono knots hs (Nat.le_succ m) (by omega)
    simp only [cox, ih m (by omega) hx, ih (m + 1) (by omega) (by linarith)]
    simp

theorem cox_zero_right (knots : List Rat) (hs : knots.Pairwise (· ≤ ·)) (x : Rat) (p m : Nat)
    (hm : m + p + 1 < knots.length) (hx : knots.getD (m + p + 1) 0 ≤ x) : cox knots p m x = 0 := by
  induction p generalizing m with
  | zero =>
    simp only [cox]
    rw [if_neg]; intro h; have := h.2; simp only [Nat.add_zero] at hx; linarith
  | succ p ih =>
    have h1 := knots_mono knots hs (Nat.le_succ (m + p + 1)) (by omega)
    have e : m + 1 + p + 1 = m + (p + 1) + 1 := by omega
    simp only [cox, ih m (by omega) (by rw [← Nat.add_assoc] at hx; linarith), ih (m + 1) (by omega) (by rw [e]; exact hx)]
    simp

theorem deBoorUpTo_eq_cox (knots : List Rat) (x : Rat) (left i : Nat) (h : InInterval knots x left)
    (hx : x < knots.getD (left + 1) 0) (hil : i ≤ left) (hk : left + i < knots.length) (j : Nat) (hj : j ≤ i) :
    (deBoorUpTo knots x left i).getD j 0 = cox knots i (left - i + j) x := by
  induction i generalizing j with
  | zero =>
    have : j = 0 := by omega
    subst this
    simp only [deBoorUpTo, cox, Nat.sub_zero, Nat.add_zero]
    rw [if_pos ⟨h.lo, hx⟩]; rfl
  | succ p ih =>
    have ih' := fun j hj => ih (by omega) (by omega) j hj
    simp only [deBoorUpTo]
    rw [deBoorStep_getD _ _ _ _ _ _ hj]
    simp only [cox]
    have e1 : left - (p + 1) + j + p + 1 = left + j := by omega
    have e2 : left - (p + 1) + j + p + 2 = left + j + 1 := by omega
    have e3 : left - (p + 1) + j + 1 = left + (j + 1) - (p + 1) := by omega
    have e4 : left - (p + 1) + j = left + j - (p + 1) := by omega
    rw [e1, e2]
    congr 1
    · by_cases h1 : 1 ≤ j
      · have hb := knot_bracket knots x left (p + 1) j h hil hk h1 hj
        have e5 : left - (p + 1) + j = left - p + (j - 1) := by omega
        rw [if_pos h1, if_neg (ne_of_lt hb.2.2), ih' (j - 1) (by omega), ← e5, ← e4]
        have hne : knots.getD (left + j) 0 - knots.getD (left - (p + 1) + j) 0 ≠ 0 := by
          have := hb.2.2; rw [← e4] at this; intro e; linarith
        rw [if_neg hne]
        field_simp
      · have hj0 : j = 0 := by omega
        subst hj0
        rw [if_neg h1, cox_zero_right knots h.sorted x p (left - (p + 1) + 0) (by omega)
          (by rw [show left - (p + 1) + 0 + p + 1 = left by omega]; exact h.lo)]
        simp
    · by_cases h1 : j + 1 ≤ p + 1
      · have hb := knot_bracket knots x left (p + 1) (j + 1) h hil hk (by omega) h1
        have e5 : left - (p + 1) + j + 1 = left - p + j := by omega
        rw [if_pos h1, if_neg (ne_of_lt hb.2.2), e5, ← ih' j (by omega), ← e5, e3]
        have hne : knots.getD (left + j + 1) 0 - knots.getD (left + (j + 1) - (p + 1)) 0 ≠ 0 :=
          sub_ne_zero.mpr (ne_of_gt hb.2.2)
        rw [if_neg hne, show left + (j + 1) = left + j + 1 from rfl]
        field_simp
      · have hj0 : j = p + 1 := by omega
        subst hj0
        rw [if_neg h1, cox_zero_left knots h.sorted x p (left - (p + 1) + (p + 1) + 1) (by omega)
          (by rw [show left - (p + 1) + (p + 1) + 1 = left + 1 by omega]; exact hx)]
        simp

/-- the values are the Cox–de Boor basis functions `B_{left-deg+j, deg}(x)` (x in the half-open interval) -/
theorem deBoor_eq_cox (knots : List Rat) (x : Rat) (deg left : Nat) (h : InInterval knots x left)
    (hx : x < knots.getD (left + 1) 0) (hd : deg ≤ left) (hk : left + deg < knots.length) (j : Nat) (hj : j ≤ deg) :
    (deBoor knots x deg left).getD j 0 = cox knots deg (left - deg + j) x :=
  deBoorUpTo_eq_cox knots x left deg h hx hd hk j hj

theorem down_stop (lt : Nat → Bool) (deg f left : Nat) (hl : deg ≤ left) (hf : left - deg + 1 ≤ f) :
    lt (down lt deg f left).1 = false ∨ (down lt deg f left).1 = deg := by
  induction f generalizing left with
  | zero => omega
  | succ f ih =>
    simp only [down]
    split
    · rename_i hc
      simp only [Bool.and_eq_true, bne_iff_ne, ne_eq] at hc
      exact ih (left - 1) (by omega) (by omega)
    · rename_i hc
      simp only [Bool.and_eq_true, bne_iff_ne, ne_eq, not_and, Decidable.not_not] at hc
      by_cases h : lt left = true
      · right; exact hc h
      · left; simpa using h

theorem up_stop (ge : Nat → Bool) (nb f left : Nat) (hl : left ≤ nb) (hf : nb - left + 1 ≤ f) :
    (ge (up ge nb f left).1 = false ∨ (up ge nb f left).1 = nb) ∧
    ∀ i, left ≤ i → i < (up ge nb f left).1 → ge i = true := by
  induction f generalizing left with
  | zero => omega
  | succ f ih =>
    simp only [up]
    split
    · rename_i hc
      simp only [Bool.and_eq_true, bne_iff_ne, ne_eq] at hc
      have := ih (left + 1) (by omega) (by omega)
      refine ⟨this.1, ?_⟩
      intro i h1 h2
      by_cases h : i = left
      · subst h; exact hc.1
      · exact this.2 i (by omega) h2
    · rename_i hc
      simp only [Bool.and_eq_true, bne_iff_ne, ne_eq, not_and, Decidable.not_not] at hc
      refine ⟨?_, fun i h1 h2 => by omega⟩
      by_cases h : ge left = true
      · right; exact hc h
      · left; simpa using h

theorem findInterval_spec (knots : List Rat) (deg nb : Nat) (x : Rat) (lastLeft : Nat)
    (hs : knots.Pairwise (· ≤ ·)) (hlen : knots.length = nb + deg + 1) (hd : deg < nb)
    (hlo : knots.getD deg 0 ≤ x) :
    let r := findInterval knots deg x lastLeft nb
    deg ≤ r ∧ r < nb ∧ knots.getD r 0 ≤ x ∧ (x < knots.getD (r + 1) 0 ∨ r + 1 = nb) := by
  simp only [findInterval, findIntervalT]
  generalize hl0 : (if deg < lastLeft ∧ lastLeft < nb then lastLeft else deg) = l0
  have hl0a : deg ≤ l0 ∧ l0 < nb := by subst hl0; split <;> omega
  generalize hlt : (fun i => decide (x < knots.getD i 0)) = lt
  generalize hge : (fun i => decide (x ≥ knots.getD i 0)) = ge
  have hdb := down_bounds lt deg (l0 - deg + 1) l0 hl0a.1
  have hds := down_stop lt deg (l0 - deg + 1) l0 hl0a.1 (Nat.le_refl _)
  generalize (down lt deg (l0 - deg + 1) l0).1 = l at hdb hds
  have hub := up_bounds ge nb (nb - l + 1) (l + 1) (by omega)
  have hus := up_stop ge nb (nb - l + 1) (l + 1) (by omega) (by omega)
  generalize (up ge nb (nb - l + 1) (l + 1)).1 = m at hub hus
  have hl : knots.getD l 0 ≤ x := by
    rcases hds with h | h
    · subst hlt; simpa using h
    · subst h; exact hlo
  refine ⟨by omega, by omega, ?_, ?_⟩
  · by_cases h : m = l + 1
    · subst h; simpa using hl
    · have := hus.2 (m - 1) (by omega) (by omega)
      subst hge; simpa using this
  · rcases hus.1 with h | h
    · left
      subst hge
      have e : m - 1 + 1 = m := by omega
      rw [e]; simpa using h
    · right; omega


/-- well-formed CSR rows -/
def RowsWf (deg nb : Nat) (rows : List Row) : Prop :=
  ∀ r ∈ rows, r.vals.length = deg + 1 ∧ deg ≤ r.left ∧ r.left < nb

theorem designRows_fold (knots : List Rat) (deg nb : Nat) (xs : List Rat) (h : deg < nb)
    (acc : Nat × List Row) (hacc : RowsWf deg nb acc.2) :
    RowsWf deg nb (xs.foldl (fun (acc : Nat × List Row) x =>
      let l := findInterval knots deg x acc.1 nb
      (l, acc.2 ++ [⟨l, deBoor knots x deg l⟩])) acc).2 ∧
    (xs.foldl (fun (acc : Nat × List Row) x =>
      let l := findInterval knots deg x acc.1 nb
      (l, acc.2 ++ [⟨l, deBoor knots x deg l⟩])) acc).2.length = acc.2.length + xs.length := by
  induction xs generalizing acc with
  | nil => exact ⟨hacc, rfl⟩
  | cons x xs ih =>
    simp only [List.foldl_cons]
    have := ih (findInterval knots deg x acc.1 nb, acc.2 ++ [⟨findInterval knots deg x acc.1 nb, deBoor knots x deg (findInterval knots deg x acc.1 nb)⟩]) (by
      intro r hr
      simp only [List.mem_append, List.mem_singleton] at hr
      rcases hr with hr | rfl
      · exact hacc r hr
      · have := findIntervalT_inb (fun i => decide (x < knots.getD i 0)) (fun i => decide (x ≥ knots.getD i 0)) deg acc.1 nb h
        exact ⟨deBoor_length _ _ _ _, this.1, this.2.1⟩)
    refine ⟨this.1, ?_⟩
    rw [this.2]
    simp only [List.length_append, List.length_cons, List.length_nil]
    omega

theorem designRows_wf (knots : List Rat) (deg : Nat) (xs : List Rat) (h : deg < knots.length - (deg + 1)) :
    RowsWf deg (knots.length - (deg + 1)) (designRows knots deg xs) ∧ (designRows knots deg xs).length = xs.length := by
  have := designRows_fold knots deg (knots.length - (deg + 1)) xs h (deg, []) (by intro r hr; simp at hr)
  simpa [designRows] using this


/-! ### the banded normal equations -/

theorem getD_modify {α} (l : List α) (d : α) (f : α → α) (i j : Nat) :
    (l.modify i f).getD j d = if i = j ∧ j < l.length then f (l.getD j d) else l.getD j d := by
  simp only [List.getD_eq_getElem?_getD, List.getElem?_modify]
  by_cases hj : j < l.length
  · simp only [List.getElem?_eq_getElem hj, hj, and_true]
    split <;> simp
  · simp only [hj, and_false, if_false]
    rw [List.getElem?_eq_none (by omega)]; rfl

/-- the rhs loop of `accRow` -/
theorem rhs_fold (base : Nat) (g : Nat → Rat) (n : Nat) (rhs : List Rat) (c : Nat) :
    ((List.range n).foldl (fun rhs j => rhs.modify (base + j) (· + g j)) rhs).length = rhs.length ∧
    ((List.range n).foldl (fun rhs j => rhs.modify (base + j) (· + g j)) rhs).getD c 0 =
      rhs.getD c 0 + (if base ≤ c ∧ c < base + n ∧ c < rhs.length then g (c - base) else 0) := by
  induction n with
  | zero => simp; intros; omega
  | succ n ih =>
    rw [List.range_succ, List.foldl_append]
    simp only [List.foldl_cons, List.foldl_nil, List.length_modify, getD_modify]
    refine ⟨ih.1, ?_⟩
    rw [ih.1, ih.2]
    by_cases h1 : base + n = c
    · subst h1
      have h3 : base + n < base + (n + 1) := by omega
      by_cases h2 : base + n < rhs.length <;> simp [h2, h3]
    · simp only [h1, false_and, if_false]
      congr 1
      have : (c < base + n) ↔ (c < base + (n + 1)) := by omega
      simp only [this]


def entry (ab : List (List Rat)) (r c : Nat) : Rat := (ab.getD r []).getD c 0
def Shape (m nb : Nat) (ab : List (List Rat)) : Prop :=
  ab.length = m ∧ ∀ r, r < m → (ab.getD r []).length = nb
def upd (ab : List (List Rat)) (r c : Nat) (v : Rat) : List (List Rat) :=
  ab.modify r (fun row => row.modify c (· + v))

theorem upd_shape {m nb : Nat} {ab : List (List Rat)} (h : Shape m nb ab) (r' c' : Nat) (v : Rat) :
    Shape m nb (upd ab r' c' v) := by
  refine ⟨by simp [upd, h.1], ?_⟩
  intro r hr
  simp only [upd, getD_modify]
  split
  · rw [List.length_modify]; exact h.2 r hr
  · exact h.2 r hr

theorem upd_entry {m nb : Nat} {ab : List (List Rat)} (h : Shape m nb ab) (r' c' : Nat) (v : Rat)
    (r c : Nat) (hr : r < m) (hc : c < nb) :
    entry (upd ab r' c' v) r c = entry ab r c + (if r' = r ∧ c' = c then v else 0) := by
  simp only [entry, upd, getD_modify, h.1, hr, and_true]
  by_cases h1 : r' = r
  · simp only [h1, if_true, true_and]
    rw [getD_modify, h.2 r hr]
    by_cases h2 : c' = c
    · simp only [h2, hc, and_self, if_true]
    · simp only [h2, false_and, if_false, Rat.add_zero]
  · simp only [h1, false_and, if_false, Rat.add_zero]

theorem inner_fold {m nb : Nat} (base j : Nat) (v : Nat → Rat) (n : Nat) {ab : List (List Rat)}
    (h : Shape m nb ab) (r c : Nat) (hr : r < m) (hc : c < nb) :
    Shape m nb ((List.range n).foldl (fun ab k => upd ab (j - k) (base + k) (v k)) ab) ∧
    entry ((List.range n).foldl (fun ab k => upd ab (j - k) (base + k) (v k)) ab) r c =
      entry ab r c + (if base ≤ c ∧ c - base < n ∧ j - (c - base) = r then v (c - base) else 0) := by
  induction n with
  | zero => simp [h]
  | succ n ih =>
    rw [List.range_succ, List.foldl_append]
    simp only [List.foldl_cons, List.foldl_nil]
    refine ⟨upd_shape ih.1 _ _ _, ?_⟩
    rw [upd_entry ih.1 _ _ _ _ _ hr hc, ih.2, Rat.add_assoc]
    congr 1
    by_cases h1 : base + n = c
    · subst h1
      have e : base + n - base = n := by omega
      simp only [e, Nat.lt_irrefl, false_and, and_false, if_false, Nat.le_add_right, true_and,
        Nat.lt_add_one, and_true, Rat.zero_add]
    · simp only [h1, and_false, if_false, Rat.add_zero]
      by_cases hb : base ≤ c
      · have e : (c - base < n) ↔ (c - base < n + 1) := by omega
        simp only [e]
      · simp only [hb, false_and, if_false]

theorem outer_fold {m nb : Nat} (base : Nat) (V : Nat → Nat → Rat) (n : Nat) {ab : List (List Rat)}
    (h : Shape m nb ab) (r c : Nat) (hr : r < m) (hc : c < nb) :
    Shape m nb ((List.range n).foldl (fun ab j =>
      (List.range (j + 1)).foldl (fun ab k => upd ab (j - k) (base + k) (V j k)) ab) ab) ∧
    entry ((List.range n).foldl (fun ab j =>
      (List.range (j + 1)).foldl (fun ab k => upd ab (j - k) (base + k) (V j k)) ab) ab) r c =
      entry ab r c + (if base ≤ c ∧ c - base + r < n then V (c - base + r) (c - base) else 0) := by
  induction n with
  | zero => simp [h]
  | succ n ih =>
    rw [List.range_succ, List.foldl_append]
    simp only [List.foldl_cons, List.foldl_nil]
    have := inner_fold base n (V n) (n + 1) ih.1 r c hr hc
    refine ⟨this.1, ?_⟩
    rw [this.2, ih.2, Rat.add_assoc]
    congr 1
    by_cases h1 : base ≤ c ∧ c - base + r = n
    · have e1 : ¬ (c - base + r < n) := by omega
      have e2 : c - base < n + 1 ∧ n - (c - base) = r ∧ c - base + r < n + 1 := by omega
      obtain ⟨h1a, h1b⟩ := h1
      simp only [e2, h1a, h1b, and_self, if_true, Nat.lt_irrefl, and_false, if_false,
        Nat.lt_add_one, Rat.zero_add]
    · have e1 : ¬ (base ≤ c ∧ c - base < n + 1 ∧ n - (c - base) = r) := by omega
      simp only [e1, if_false, Rat.add_zero]
      by_cases hb : base ≤ c
      · have e2 : (c - base + r < n) ↔ (c - base + r < n + 1) := by omega
        simp only [e2]
      · simp only [hb, false_and, if_false]


theorem accRow_fst (deg : Nat) (ab : List (List Rat)) (rhs : List Rat) (row : Row) (y w : Rat) :
    (accRow deg ab rhs row y w).1 = (List.range (deg + 1)).foldl (fun ab j =>
      (List.range (j + 1)).foldl (fun ab k => upd ab (j - k) (row.left - deg + k)
        (row.vals.getD j 0 * row.vals.getD k 0 * w)) ab) ab := rfl

theorem accRow_snd (deg : Nat) (ab : List (List Rat)) (rhs : List Rat) (row : Row) (y w : Rat) :
    (accRow deg ab rhs row y w).2 = (List.range (deg + 1)).foldl (fun rhs j =>
      rhs.modify (row.left - deg + j) (· + row.vals.getD j 0 * y * w)) rhs := rfl

theorem outer_shape {m nb : Nat} (base : Nat) (V : Nat → Nat → Rat) (n : Nat) {ab : List (List Rat)}
    (h : Shape m nb ab) :
    Shape m nb ((List.range n).foldl (fun ab j =>
      (List.range (j + 1)).foldl (fun ab k => upd ab (j - k) (base + k) (V j k)) ab) ab) := by
  induction n with
  | zero => simpa using h
  | succ n ih =>
    rw [List.range_succ, List.foldl_append]
    simp only [List.foldl_cons, List.foldl_nil]
    generalize n + 1 = k
    induction k with
    | zero => simpa using ih
    | succ k ih2 =>
      rw [List.range_succ, List.foldl_append]
      simp only [List.foldl_cons, List.foldl_nil]
      exact upd_shape ih2 _ _ _

theorem accRow_shape {deg nb : Nat} {ab : List (List Rat)} (rhs : List Rat) (row : Row) (y w : Rat)
    (h : Shape (deg + 1) nb ab) : Shape (deg + 1) nb (accRow deg ab rhs row y w).1 := by
  rw [accRow_fst]
  exact outer_shape _ _ _ h

theorem accRow_rhs_length {deg : Nat} (ab : List (List Rat)) (rhs : List Rat) (row : Row) (y w : Rat) :
    (accRow deg ab rhs row y w).2.length = rhs.length := by
  rw [accRow_snd]
  exact (rhs_fold (row.left - deg) (fun j => row.vals.getD j 0 * y * w) (deg + 1) rhs 0).1

theorem accRow_entry {deg nb : Nat} {ab : List (List Rat)} (rhs : List Rat) (row : Row) (y w : Rat)
    (h : Shape (deg + 1) nb ab) (hrow : deg ≤ row.left)
    (r c : Nat) (hr : r ≤ deg) (hc : c + r < nb) :
    Shape (deg + 1) nb (accRow deg ab rhs row y w).1 ∧
    entry (accRow deg ab rhs row y w).1 r c = entry ab r c + w * row.at deg (c + r) * row.at deg c := by
  rw [accRow_fst]
  have := outer_fold (row.left - deg) (fun j k => row.vals.getD j 0 * row.vals.getD k 0 * w) (deg + 1) h r c
    (by omega) (by omega)
  refine ⟨this.1, ?_⟩
  rw [this.2]
  congr 1
  simp only [Row.at]
  by_cases h1 : row.left - deg ≤ c ∧ c - (row.left - deg) + r < deg + 1
  · have e1 : row.left ≤ c + r + deg ∧ c + r ≤ row.left := by omega
    have e2 : row.left ≤ c + deg ∧ c ≤ row.left := by omega
    have e3 : c - (row.left - deg) + r = c + r + deg - row.left := by omega
    have e4 : c - (row.left - deg) = c + deg - row.left := by omega
    rw [if_pos h1, if_pos e1, if_pos e2, e3, e4]
    ring
  · rw [if_neg h1]
    by_cases e2 : row.left ≤ c + deg ∧ c ≤ row.left
    · have e1 : ¬ (row.left ≤ c + r + deg ∧ c + r ≤ row.left) := by omega
      rw [if_neg e1]; ring
    · rw [if_neg e2]; ring

theorem accRow_rhs {deg nb : Nat} (ab : List (List Rat)) {rhs : List Rat} (row : Row) (y w : Rat)
    (h : rhs.length = nb) (hrow : deg ≤ row.left) (c : Nat) (hc : c < nb) :
    (accRow deg ab rhs row y w).2.length = nb ∧
    (accRow deg ab rhs row y w).2.getD c 0 = rhs.getD c 0 + w * y * row.at deg c := by
  rw [accRow_snd]
  have := rhs_fold (row.left - deg) (fun j => row.vals.getD j 0 * y * w) (deg + 1) rhs c
  refine ⟨this.1.trans h, ?_⟩
  rw [this.2]
  congr 1
  simp only [Row.at]
  by_cases h1 : row.left - deg ≤ c ∧ c < row.left - deg + (deg + 1) ∧ c < rhs.length
  · have e2 : row.left ≤ c + deg ∧ c ≤ row.left := by omega
    have e4 : c - (row.left - deg) = c + deg - row.left := by omega
    rw [if_pos h1, if_pos e2, e4]
    ring
  · have e2 : ¬ (row.left ≤ c + deg ∧ c ≤ row.left) := by omega
    rw [if_neg h1, if_neg e2]; ring

theorem btb_fold {deg nb : Nat} (L : List (Row × Rat × Rat)) (hL : ∀ p ∈ L, deg ≤ p.1.left)
    (acc : List (List Rat) × List Rat) (h1 : Shape (deg + 1) nb acc.1) (h2 : acc.2.length = nb) :
    (∀ r c, r ≤ deg → c + r < nb →
      entry (L.foldl (fun acc (r, (y, w)) => accRow deg acc.1 acc.2 r y w) acc).1 r c =
        entry acc.1 r c + (L.map fun (row, (y, w)) => w * row.at deg (c + r) * row.at deg c).sum) ∧
    (∀ c, c < nb →
      (L.foldl (fun acc (r, (y, w)) => accRow deg acc.1 acc.2 r y w) acc).2.getD c 0 =
        acc.2.getD c 0 + (L.map fun (row, (y, w)) => w * y * row.at deg c).sum) := by
  induction L generalizing acc with
  | nil => simp
  | cons p L ih =>
    obtain ⟨row, y, w⟩ := p
    have hrow : deg ≤ row.left := hL (row, y, w) (by simp)
    simp only [List.foldl_cons, List.map_cons, List.sum_cons]
    have hs : Shape (deg + 1) nb (accRow deg acc.1 acc.2 row y w).1 := accRow_shape acc.2 row y w h1
    have ih' := ih (fun p hp => hL p (by simp [hp])) (accRow deg acc.1 acc.2 row y w) hs
      ((accRow_rhs_length acc.1 acc.2 row y w).trans h2)
    refine ⟨?_, ?_⟩
    · intro r c hr hc
      rw [ih'.1 r c hr hc, (accRow_entry acc.2 row y w h1 hrow r c hr hc).2, Rat.add_assoc]
    · intro c hc
      rw [ih'.2 c hc, (accRow_rhs acc.1 row y w h2 hrow c hc).2, Rat.add_assoc]


theorem zip3_map_drop_y {β} (F : Row → Rat → β) (rows : List Row) (ys ws : List Rat)
    (hy : ys.length = rows.length) (hw : ws.length = rows.length) :
    (rows.zip (ys.zip ws)).map (fun (row, (y, w)) => F row w) = (rows.zip ws).map (fun (row, w) => F row w) := by
  induction rows generalizing ys ws with
  | nil => simp
  | cons r rows ih =>
    cases ys with
    | nil => simp at hy
    | cons y ys =>
      cases ws with
      | nil => simp at hw
      | cons w ws =>
        simp only [List.length_cons, Nat.add_right_cancel_iff] at hy hw
        simp only [List.zip_cons_cons, List.map_cons, ih ys ws hy hw]

theorem shape_init (m nb : Nat) : Shape m nb (List.replicate m (List.replicate nb (0 : Rat))) := by
  refine ⟨by simp, ?_⟩
  intro r hr
  simp [List.getD_eq_getElem?_getD, hr]

theorem entry_init (m nb r c : Nat) : entry (List.replicate m (List.replicate nb (0 : Rat))) r c = 0 := by
  simp only [entry, List.getD_eq_getElem?_getD, List.getElem?_replicate]
  split
  · simp only [Option.getD_some, List.getElem?_replicate]
    split <;> rfl
  · rfl

theorem zip_wf {deg nb : Nat} {rows : List Row} (h : RowsWf deg nb rows) (ys ws : List Rat) :
    ∀ p ∈ rows.zip (ys.zip ws), deg ≤ p.1.left := by
  intro p hp
  obtain ⟨row, y, w⟩ := p
  exact (h row (List.of_mem_zip hp).1).2.1

/-- **the banded normal equations are exact**: the accumulated lower bands are `B'WB` and the
right-hand side is `B'Wy`, for every weight vector (zeros included) -/
theorem btb_eq (deg nb : Nat) (rows : List Row) (ys ws : List Rat) (h : RowsWf deg nb rows)
    (hy : ys.length = rows.length) (hw : ws.length = rows.length) (r c : Nat) (hr : r ≤ deg) (hc : c + r < nb) :
    ((btbBty deg nb rows ys ws).1.getD r []).getD c 0 = btbSpec deg rows ws r c := by
  have := (btb_fold (rows.zip (ys.zip ws)) (zip_wf h ys ws)
    (List.replicate (deg + 1) (List.replicate nb 0), List.replicate nb 0) (shape_init _ _) (by simp)).1 r c hr hc
  rw [entry_init, Rat.zero_add] at this
  rw [btbSpec, ← zip3_map_drop_y (fun row w => w * row.at deg (c + r) * row.at deg c) rows ys ws hy hw]
  exact this

theorem bty_eq (deg nb : Nat) (rows : List Row) (ys ws : List Rat) (h : RowsWf deg nb rows)
    (hy : ys.length = rows.length) (hw : ws.length = rows.length) (c : Nat) (hc : c < nb) :
    (btbBty deg nb rows ys ws).2.getD c 0 = btySpec deg rows ys ws c := by
  have := (btb_fold (rows.zip (ys.zip ws)) (zip_wf h ys ws)
    (List.replicate (deg + 1) (List.replicate nb 0), List.replicate nb 0) (shape_init _ _) (by simp)).2 c hc
  have e : (List.replicate nb (0 : Rat)).getD c 0 = 0 := by
    simp only [List.getD_eq_getElem?_getD, List.getElem?_replicate]; split <;> rfl
  rw [e, Rat.zero_add] at this
  exact this


theorem splineKnots_length (a b : Rat) (nk deg : Nat) : (splineKnots a b nk deg).length = nk + 2 * deg := by
  simp [splineKnots]
theorem basisMidpointsCount_eq (numKnots deg : Nat) (h : 2 ≤ numKnots) :
    basisMidpointsCount (numKnots + 2 * deg) deg = numKnots + deg - 1 := by
  unfold basisMidpointsCount
  split <;> omega


end PbVerif.Lemmas
