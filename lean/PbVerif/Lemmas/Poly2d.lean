import PbVerif.Lemmas.Poly
import PbVerif.Model.Poly2d
/-! Lemmas for the 2-D `max_cross` semantics (C08). -/
namespace PbVerif.Lemmas
open PbVerif.Poly PbVerif.Poly2d

/-! ### the column order: `itertools.product` against `divmod` -/

theorem productPairs_eq (a b : Nat) :
    productPairs a b = (List.range ((a + 1) * (b + 1))).map fun idx => (idx / (b + 1), idx % (b + 1)) := by
  unfold productPairs
  induction a with
  | zero =>
    simp only [Nat.zero_add, Nat.one_mul, List.range_one, List.flatMap_cons, List.flatMap_nil, List.append_nil]
    apply List.map_congr_left
    intro j hj
    rw [List.mem_range] at hj
    rw [Nat.div_eq_of_lt hj, Nat.mod_eq_of_lt hj]
  | succ a ih =>
    rw [List.range_succ (n := a + 1), List.flatMap_append, ih]
    have hN : (a + 1 + 1) * (b + 1) = (a + 1) * (b + 1) + (b + 1) := by rw [Nat.succ_mul]
    rw [hN, List.range_add (n := (a + 1) * (b + 1)) (m := b + 1), List.map_append]
    congr 1
    simp only [List.flatMap_cons, List.flatMap_nil, List.append_nil, List.map_map]
    apply List.map_congr_left
    intro j hj
    rw [List.mem_range] at hj
    simp only [Function.comp]
    have h1 : ((a + 1) * (b + 1) + j) / (b + 1) = a + 1 := by
      rw [Nat.mul_comm, Nat.mul_add_div (Nat.succ_pos b), Nat.div_eq_of_lt hj]
    have h2 : ((a + 1) * (b + 1) + j) % (b + 1) = j := by
      rw [Nat.mul_comm, Nat.mul_add_mod, Nat.mod_eq_of_lt hj]
    rw [h1, h2]

theorem productPairs_length (a b : Nat) : (productPairs a b).length = (a + 1) * (b + 1) := by
  rw [productPairs_eq, List.length_map, List.length_range]

theorem keptCols_length (a b : Nat) (mc : Option Nat) : (keptCols a b mc).length = (a + 1) * (b + 1) := by
  cases mc <;> simp only [keptCols, List.length_map, productPairs_length]

/-- the flags produced by the transcribed loop are the flags computed from the column index -/
theorem keptCols_eq (a b : Nat) (mc : Option Nat) :
    keptCols a b mc = (List.range ((a + 1) * (b + 1))).map (keptCol a b mc) := by
  cases mc with
  | none => simp only [keptCols, productPairs_eq, List.map_map]; rfl
  | some m => simp only [keptCols, productPairs_eq, List.map_map]; rfl

theorem keptCols_getD (a b : Nat) (mc : Option Nat) (idx : Nat) (d : Bool) (h : idx < (a + 1) * (b + 1)) :
    (keptCols a b mc).getD idx d = keptCol a b mc idx := by
  rw [keptCols_eq]
  simp [List.getD_eq_getElem?_getD, h]

/-! ### index map -/

theorem colIndex_lt (a b i j : Nat) (hi : i ≤ a) (hj : j ≤ b) : colIndex a b i j < (a + 1) * (b + 1) := by
  unfold colIndex
  have : i * (b + 1) + (b + 1) ≤ (a + 1) * (b + 1) := by
    rw [← Nat.succ_mul]; exact Nat.mul_le_mul_right _ (Nat.succ_le_succ hi)
  omega

theorem colIndex_div (a b i j : Nat) (hj : j ≤ b) : colIndex a b i j / (b + 1) = i := by
  unfold colIndex
  rw [Nat.mul_comm, Nat.mul_add_div (Nat.succ_pos b), Nat.div_eq_of_lt (by omega)]; rfl

theorem colIndex_mod (a b i j : Nat) (hj : j ≤ b) : colIndex a b i j % (b + 1) = j := by
  unfold colIndex
  rw [Nat.mul_comm, Nat.mul_add_mod, Nat.mod_eq_of_lt (by omega)]

theorem div_le_of_lt_mul (a b idx : Nat) (h : idx < (a + 1) * (b + 1)) : idx / (b + 1) ≤ a := by
  have : idx / (b + 1) < a + 1 := (Nat.div_lt_iff_lt_mul (Nat.succ_pos b)).2 h
  omega

theorem colIndex_divmod (a b idx : Nat) : colIndex a b (idx / (b + 1)) (idx % (b + 1)) = idx := by
  unfold colIndex
  rw [Nat.mul_comm]; exact Nat.div_add_mod idx (b + 1)

/-! ### the loop test against the documented set -/

theorem zeroedVal_eq (m i j : Nat) : zeroedVal m (i, j) = !(allowed (some m) i j) := by
  unfold zeroedVal allowed
  simp only [List.contains_cons, List.contains_nil, List.any_cons, List.any_nil, Bool.or_false]
  by_cases hi : i = 0
  · subst hi; simp
  · by_cases hj : j = 0
    · subst hj; simp
    · by_cases h1 : i ≤ m <;> by_cases h2 : j ≤ m <;> simp [hi, hj, h1, h2] <;> omega

theorem keptCol_eq_allowed (a b : Nat) (mc : Option Nat) (idx : Nat) :
    keptCol a b mc idx = allowed mc (idx / (b + 1)) (idx % (b + 1)) := by
  cases mc with
  | none => rfl
  | some m => simp only [keptCol, zeroedVal_eq, Bool.not_not]

theorem allowed_iff (m i j : Nat) : allowed (some m) i j = true ↔ i = 0 ∨ j = 0 ∨ (i ≤ m ∧ j ≤ m) := by
  simp [allowed, or_assoc]

theorem allowed_down (mc : Option Nat) (i j k l : Nat) (h : allowed mc i j = true) (hk : k ≤ i) (hl : l ≤ j) :
    allowed mc k l = true := by
  cases mc with
  | none => rfl
  | some m =>
    rw [allowed_iff] at h ⊢
    omega

theorem allowed_mono (m m' i j : Nat) (hm : m ≤ m') (h : allowed (some m) i j = true) :
    allowed (some m') i j = true := by
  rw [allowed_iff] at h ⊢
  omega

theorem allowed_all_iff (a b m : Nat) :
    (∀ i j, i ≤ a → j ≤ b → allowed (some m) i j = true) ↔ a = 0 ∨ b = 0 ∨ (a ≤ m ∧ b ≤ m) := by
  constructor
  · intro h
    have := (allowed_iff m a b).1 (h a b (Nat.le_refl _) (Nat.le_refl _))
    exact this
  · intro h i j hi hj
    rw [allowed_iff]
    omega

/-! ### the masked Vandermonde matrix applied to a coefficient vector -/

theorem sum_range_mul_eq (n m : Nat) (f : Nat → Rat) :
    ∑ k ∈ Finset.range (n * m), f k = ∑ i ∈ Finset.range n, ∑ j ∈ Finset.range m, f (i * m + j) := by
  induction n with
  | zero => simp
  | succ n ih =>
    rw [Nat.succ_mul, Finset.sum_range_add, ih, Finset.sum_range_succ]

theorem getD_range_map {α : Type} (n i : Nat) (f : Nat → α) (d : α) (h : i < n) :
    ((List.range n).map f).getD i d = f i := by
  simp [List.getD_eq_getElem?_getD, h]

theorem dot_eq (r c : List Rat) : dot r c = ∑ k ∈ Finset.range r.length, r.getD k 0 * c.getD k 0 := by
  have : dot r c = sumL ((List.range r.length).map fun (k : Nat) => r.getD k 0 * c.getD k 0) := rfl
  rw [this, sumL_range_map]

theorem reshapeCoef_length (a b : Nat) (coef : List Rat) : (reshapeCoef a b coef).length = a + 1 := by
  simp [reshapeCoef]

theorem reshapeCoef_row (a b : Nat) (coef : List Rat) (i : Nat) (hi : i < a + 1) :
    (reshapeCoef a b coef).getD i [] = (List.range (b + 1)).map fun (j : Nat) => coef.getD (colIndex a b i j) 0 := by
  unfold reshapeCoef
  rw [getD_range_map _ _ _ _ hi]

theorem maskCoef_length (mc : Option Nat) (c : List (List Rat)) : (maskCoef mc c).length = c.length := by
  simp [maskCoef]

theorem maskCoef_row (mc : Option Nat) (c : List (List Rat)) (i : Nat) (hi : i < c.length) :
    (maskCoef mc c).getD i [] = (List.range (c.getD i []).length).map fun (j : Nat) =>
      if allowed mc i j then (c.getD i []).getD j 0 else 0 := by
  unfold maskCoef
  rw [getD_range_map _ _ _ _ hi]

/-- entries of the masked matrix -/
theorem maskCoef_entry (mc : Option Nat) (c : List (List Rat)) (i j : Nat) (hi : i < c.length)
    (hj : j < (c.getD i []).length) :
    ((maskCoef mc c).getD i []).getD j 0 = if allowed mc i j then (c.getD i []).getD j 0 else 0 := by
  rw [maskCoef_row mc c i hi, getD_range_map _ _ _ _ hj]

/-- `V_masked[row] @ coef = polyval2d(x, z, mask(coef.reshape(a+1, b+1)))`: whatever vector the solver
returns, the surface it produces is the polynomial whose excluded monomials have coefficient 0, and the
columns are in the order `x^i z^j ↦ i (b+1) + j` -/
theorem vander_masked_apply (a b : Nat) (mc : Option Nat) (coef : List Rat) (x z : Rat) :
    dot (vanderRowMasked a b mc x z) coef = evalPoly2 (maskCoef mc (reshapeCoef a b coef)) x z := by
  rw [dot_eq, evalPoly2_eq, maskCoef_length, reshapeCoef_length]
  have hlen : (vanderRowMasked a b mc x z).length = (a + 1) * (b + 1) := by simp [vanderRowMasked]
  rw [hlen, sum_range_mul_eq]
  apply Finset.sum_congr rfl
  intro i hi
  rw [Finset.mem_range] at hi
  rw [maskCoef_row mc _ i (by rw [reshapeCoef_length]; exact hi), reshapeCoef_row a b coef i hi,
    List.length_map, List.length_range, evalPoly_range_map, Finset.mul_sum]
  apply Finset.sum_congr rfl
  intro j hj
  rw [Finset.mem_range] at hj
  have hlt : i * (b + 1) + j < (a + 1) * (b + 1) := colIndex_lt a b i j (by omega) (by omega)
  have hd : (i * (b + 1) + j) / (b + 1) = i := colIndex_div a b i j (by omega)
  have hm : (i * (b + 1) + j) % (b + 1) = j := colIndex_mod a b i j (by omega)
  unfold vanderRowMasked
  rw [getD_range_map _ _ _ _ hlt, keptCols_getD a b mc _ true hlt, keptCol_eq_allowed, hd, hm,
    getD_range_map _ _ _ _ hj]
  unfold colIndex
  cases allowed mc i j
  · simp
  · simp only [if_true]; ring

/-- the unmasked matrix: the column order of `polyvander2d(...).reshape(-1, (a+1)(b+1))` is the order of
`coef.reshape(a+1, b+1)` read by `polyval2d` -/
theorem vander_apply (a b : Nat) (coef : List Rat) (x z : Rat) :
    dot (vanderRow a b x z) coef = evalPoly2 (reshapeCoef a b coef) x z := by
  have h1 : vanderRow a b x z = vanderRowMasked a b none x z := by
    unfold vanderRow vanderRowMasked
    apply List.map_congr_left
    intro idx hidx
    rw [List.mem_range] at hidx
    rw [keptCols_getD a b none idx true hidx]; rfl
  have h2 : maskCoef none (reshapeCoef a b coef) = reshapeCoef a b coef := by
    unfold maskCoef
    rw [reshapeCoef_length]
    unfold reshapeCoef
    apply List.map_congr_left
    intro i hi
    rw [List.mem_range] at hi
    rw [getD_range_map _ _ _ _ hi, List.length_map, List.length_range]
    apply List.map_congr_left
    intro j hj
    rw [List.mem_range] at hj
    rw [getD_range_map _ _ _ _ hj]; rfl
  rw [h1, vander_masked_apply, h2]

/-! ### `_convert_coef2d` keeps excluded monomials at zero -/

theorem polyTransformAt_zero_of_lt (offset scale : Rat) (i k : Nat) (h : k < i) :
    polyTransformAt offset scale i k = 0 := by
  rw [polyTransformAt_eq, if_neg (by omega)]

/-- entries of `T_x C T_z'` -/
theorem convertCoef2d_entry (c : List (List Rat)) (ox sx oz sz : Rat) (i j : Nat) (hi : i < c.length)
    (hj : j < (c.getD 0 []).length) :
    ((convertCoef2d c ox sx oz sz).getD i []).getD j 0 =
      ∑ k ∈ Finset.range c.length, ∑ l ∈ Finset.range (c.getD 0 []).length,
        polyTransformAt ox sx i k * (c.getD k []).getD l 0 * polyTransformAt oz sz j l := by
  unfold convertCoef2d
  simp only []
  rw [getD_range_map _ _ _ _ hi, getD_range_map _ _ _ _ hj, sumL_range_map]
  apply Finset.sum_congr rfl
  intro k _
  rw [sumL_range_map]

theorem convertCoef2d_excluded (mc : Option Nat) (c : List (List Rat)) (ox sx oz sz : Rat)
    (hex : ∀ k l, k < c.length → l < (c.getD 0 []).length → allowed mc k l = false → (c.getD k []).getD l 0 = 0)
    (i j : Nat) (hi : i < c.length) (hj : j < (c.getD 0 []).length) (hij : allowed mc i j = false) :
    ((convertCoef2d c ox sx oz sz).getD i []).getD j 0 = 0 := by
  rw [convertCoef2d_entry c ox sx oz sz i j hi hj]
  apply Finset.sum_eq_zero
  intro k hk
  apply Finset.sum_eq_zero
  intro l hl
  rw [Finset.mem_range] at hk hl
  by_cases hik : i ≤ k
  · by_cases hjl : j ≤ l
    · have hkl : allowed mc k l = false := by
        cases h : allowed mc k l with
        | false => rfl
        | true => rw [allowed_down mc k l i j h hik hjl] at hij; exact absurd hij (by decide)
      rw [hex k l hk hl hkl]; ring
    · rw [polyTransformAt_zero_of_lt oz sz j l (by omega)]; ring
  · rw [polyTransformAt_zero_of_lt ox sx i k (by omega)]; ring

/-! ### when the loop changes nothing -/

theorem keptCols_some_eq_none_iff (a b m : Nat) :
    keptCols a b (some m) = keptCols a b none ↔ a = 0 ∨ b = 0 ∨ (a ≤ m ∧ b ≤ m) := by
  rw [keptCols_eq, keptCols_eq, List.map_inj_left, ← allowed_all_iff]
  constructor
  · intro h i j hi hj
    have := h (colIndex a b i j) (List.mem_range.2 (colIndex_lt a b i j hi hj))
    rw [keptCol_eq_allowed, keptCol_eq_allowed, colIndex_div a b i j hj, colIndex_mod a b i j hj] at this
    exact this
  · intro h idx hidx
    rw [List.mem_range] at hidx
    rw [keptCol_eq_allowed, keptCol_eq_allowed]
    exact h _ _ (div_le_of_lt_mul a b idx hidx) (by have := Nat.mod_lt idx (show b + 1 > 0 by omega); omega)

theorem maskCoef_excluded (mc : Option Nat) (c : List (List Rat)) (i j : Nat) (hi : i < c.length)
    (hj : j < (c.getD i []).length) (h : allowed mc i j = false) :
    ((maskCoef mc c).getD i []).getD j 0 = 0 := by
  rw [maskCoef_entry mc c i j hi hj, h]; rfl

theorem maskCoef_allowed (mc : Option Nat) (c : List (List Rat)) (i j : Nat) (hi : i < c.length)
    (hj : j < (c.getD i []).length) (h : allowed mc i j = true) :
    ((maskCoef mc c).getD i []).getD j 0 = (c.getD i []).getD j 0 := by
  rw [maskCoef_entry mc c i j hi hj, h]; rfl

theorem maskCoef_reshape_rect (a b : Nat) (mc : Option Nat) (coef : List Rat) :
    ∀ row ∈ maskCoef mc (reshapeCoef a b coef), row.length = b + 1 := by
  intro row hrow
  unfold maskCoef at hrow
  rw [List.mem_map] at hrow
  obtain ⟨i, hi, rfl⟩ := hrow
  rw [List.mem_range, reshapeCoef_length] at hi
  rw [List.length_map, List.length_range, reshapeCoef_row a b coef i hi, List.length_map, List.length_range]

end PbVerif.Lemmas
