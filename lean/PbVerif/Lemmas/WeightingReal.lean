import Mathlib.Analysis.Complex.Exponential
import Mathlib.Analysis.Real.Sqrt
import PbVerif.Lemmas.Weighting
/-! C09: the hypotheses `TranscOk` placed on `exp`, `sqrt`, `|·|` are those of the real functions — the theorems of
Props/C09 are therefore not vacuous, and hold in particular for the real-number reading of `_weighting.py`. -/
namespace PbVerif.Lemmas
open PbVerif.Weighting

@[reducible] noncomputable def realTransc : Transc ℝ := ⟨Real.exp, Real.sqrt, fun x => |x|⟩

theorem realTranscOk : TranscOk realTransc where
  exp_pos := Real.exp_pos
  exp_mono := fun _ _ h => Real.exp_le_exp.mpr h
  exp_zero := Real.exp_zero
  sqrt_nonneg := Real.sqrt_nonneg
  sqrt_sq := fun _ h => Real.mul_self_sqrt h
  abs_eq := fun _ => rfl

end PbVerif.Lemmas
