import PbVerif.Model.Morph
import Mathlib.Algebra.Order.Field.Rat
import Mathlib.Tactic.Ring
import Mathlib.Tactic.Linarith
import Mathlib.Tactic.LinearCombination
import Mathlib.Tactic.FieldSimp
/-! C14, rubberband: what the decidable lower-hull certificate `isLowerHull` implies for the baseline
`hullInterp` (= `np.interp(x, x[mask], y[mask])`).  Part 1 is division-free geometry of sequences, part 2 ties
the list-level model (`isLowerHull`, `interp1`, `hullInterp`) to it. -/
namespace PbVerif.Lemmas.Hull
open PbVerif.Morph

/-! ### part 1: geometry on sequences (no division) -/

theorem cross_cyc (ax ay bx by_ cx cy : Rat) : cross ax ay bx by_ cx cy = cross cx cy ax ay bx by_ := by
  unfold cross; ring
theorem cross_self_left (ax ay bx by_ : Rat) : cross ax ay bx by_ ax ay = 0 := by unfold cross; ring
theorem cross_self_right (ax ay bx by_ : Rat) : cross ax ay bx by_ bx by_ = 0 := by unfold cross; ring
theorem cross_shift (ax ay bx by_ cx cy c : Rat) :
    cross ax (ay + c) bx (by_ + c) cx (cy + c) = cross ax ay bx by_ cx cy := by unfold cross; ring

/-- left turn at (i, j, k) of the polygon `t ↦ (X t, Y t)` -/
def cr (X Y : Nat → Rat) (i j k : Nat) : Rat := cross (X i) (Y i) (X j) (Y j) (X k) (Y k)

theorem nonneg_of_mul_pos {a d b : Rat} (h : a * d = b) (hd : 0 < d) (hb : 0 ≤ b) : 0 ≤ a := by
  by_contra hn
  have : a * d < 0 := mul_neg_of_neg_of_pos (not_le.mp hn) hd
  linarith

/-- a polygon over strictly increasing abscissae that turns left at every vertex turns left at every triple -/
theorem convex_local_to_global (X Y : Nat → Rat) (m : Nat)
    (hX : ∀ i j, i < j → j < m → X i < X j)
    (hloc : ∀ t, t + 2 < m → 0 ≤ cr X Y t (t + 1) (t + 2)) :
    ∀ i j k, i < j → j < k → k < m → 0 ≤ cr X Y i j k := by
  -- step 1: the last two indices adjacent
  have s1 : ∀ i j, i + 1 ≤ j → j + 1 < m → 0 ≤ cr X Y i j (j + 1) := by
    intro i j hij
    induction j, hij using Nat.le_induction with
    | base => intro h; exact hloc i h
    | succ j hij ih =>
      intro h
      have h1 := ih (by omega)
      have h2 := hloc j (by omega)
      have e : cr X Y i (j + 1) (j + 1 + 1) * (X (j + 1) - X j)
          = cr X Y i j (j + 1) * (X (j + 1 + 1) - X (j + 1)) + cr X Y j (j + 1) (j + 2) * (X (j + 1) - X i) := by
        unfold cr cross; ring
      have d1 := hX j (j + 1) (by omega) (by omega)
      have d2 := hX (j + 1) (j + 1 + 1) (by omega) (by omega)
      have d3 := hX i (j + 1) (by omega) (by omega)
      refine nonneg_of_mul_pos e (by linarith) ?_
      have := mul_nonneg h1 (by linarith : 0 ≤ X (j + 1 + 1) - X (j + 1))
      have := mul_nonneg h2 (by linarith : 0 ≤ X (j + 1) - X i)
      linarith
  intro i j k hij hjk
  induction k, (show j + 1 ≤ k from hjk) using Nat.le_induction with
  | base => intro h; exact s1 i j hij h
  | succ k hjk ih =>
    intro h
    have h1 := ih (by omega) (by omega)
    have h2 := s1 j k (by omega) h
    have e : cr X Y i j (k + 1) * (X k - X j)
        = cr X Y i j k * (X (k + 1) - X j) + cr X Y j k (k + 1) * (X j - X i) := by
      unfold cr cross; ring
    have d1 := hX j k (by omega) (by omega)
    have d2 := hX j (k + 1) (by omega) (by omega)
    have d3 := hX i j (by omega) (by omega)
    refine nonneg_of_mul_pos e (by linarith) ?_
    have := mul_nonneg h1 (by linarith : 0 ≤ X (k + 1) - X j)
    have := mul_nonneg h2 (by linarith : 0 ≤ X j - X i)
    linarith

/-- what the certificate says in index form: `v 0 < v 1 < … < v (m-1)` are the masked indices of a grid of `n`
points, the first is 0 and the last is n-1, the chain turns left at every vertex and every grid point between two
consecutive vertices lies on or above their segment -/
structure Chain (x y : Nat → Rat) (n m : Nat) (v : Nat → Nat) : Prop where
  mpos : 0 < m
  first : v 0 = 0
  last : v (m - 1) + 1 = n
  inc : ∀ s t, s < t → t < m → v s < v t
  turn : ∀ t, t + 2 < m →
    0 ≤ cross (x (v t)) (y (v t)) (x (v (t + 1))) (y (v (t + 1))) (x (v (t + 2))) (y (v (t + 2)))
  above : ∀ t, t + 1 < m → ∀ i, v t ≤ i → i ≤ v (t + 1) →
    0 ≤ cross (x (v t)) (y (v t)) (x (v (t + 1))) (y (v (t + 1))) (x i) (y i)

/-- `h` is the polygon through the chain vertices (the segment equation in product form, no division) -/
structure Interp (x y h : Nat → Rat) (m : Nat) (v : Nat → Nat) : Prop where
  vert : ∀ t, t < m → h (v t) = y (v t)
  seg : ∀ t, t + 1 < m → ∀ i, v t ≤ i → i ≤ v (t + 1) →
    (x (v (t + 1)) - x (v t)) * (h i - y (v t)) = (y (v (t + 1)) - y (v t)) * (x i - x (v t))

/-- strictly increasing abscissae on the grid -/
def XIncF (x : Nat → Rat) (n : Nat) : Prop := ∀ i j, i < j → j < n → x i < x j

/-- three-point convexity of `g` on the grid `x 0 < … < x (n-1)` -/
def Convex3F (x g : Nat → Rat) (n : Nat) : Prop :=
  ∀ i j k, i < j → j < k → k < n → (x k - x i) * g j ≤ (x k - x j) * g i + (x j - x i) * g k

section chain
variable {x y h : Nat → Rat} {n m : Nat} {v : Nat → Nat}

theorem Chain.lt_n (c : Chain x y n m v) {t : Nat} (ht : t < m) : v t < n := by
  have hl := c.last
  by_cases e : t = m - 1
  · subst e; omega
  · have := c.inc t (m - 1) (by omega) (by omega); omega

/-- every grid point is a lone vertex (n = 1) or lies between two consecutive vertices -/
theorem Chain.cover (c : Chain x y n m v) {i : Nat} (hi : i < n) :
    (m = 1 ∧ i = 0) ∨ ∃ t, t + 1 < m ∧ v t ≤ i ∧ i ≤ v (t + 1) := by
  have key : ∀ t, t < m → i ≤ v t → t = 0 ∨ ∃ s, s + 1 < m ∧ v s ≤ i ∧ i ≤ v (s + 1) := by
    intro t
    induction t with
    | zero => intro _ _; exact Or.inl rfl
    | succ t ih =>
      intro ht hit
      by_cases hv : v t ≤ i
      · exact Or.inr ⟨t, ht, hv, hit⟩
      · rcases ih (by omega) (by omega) with h0 | h1
        · subst h0; have := c.first; omega
        · exact Or.inr h1
  have hl := c.last
  rcases key (m - 1) (by have := c.mpos; omega) (by omega) with h0 | h1
  · left
    have hm : m = 1 := by have := c.mpos; omega
    refine ⟨hm, ?_⟩
    subst hm; have := c.first; simp at hl; omega
  · exact Or.inr h1

/-- (a) the polygon never exceeds the data -/
theorem chain_le (hx : XIncF x n) (c : Chain x y n m v) (ip : Interp x y h m v) {i : Nat} (hi : i < n) :
    h i ≤ y i := by
  rcases c.cover hi with ⟨hm, h0⟩ | ⟨t, ht, h1, h2⟩
  · subst h0; have := ip.vert 0 c.mpos; rw [c.first] at this; exact le_of_eq this
  · have hs := ip.seg t ht i h1 h2
    have ha := c.above t ht i h1 h2
    have hd := hx (v t) (v (t + 1)) (c.inc t (t + 1) (by omega) ht) (c.lt_n ht)
    have e : (y i - h i) * (x (v (t + 1)) - x (v t))
        = cross (x (v t)) (y (v t)) (x (v (t + 1))) (y (v (t + 1))) (x i) (y i) := by
      unfold cross; linear_combination (-1 : Rat) * hs
    have := nonneg_of_mul_pos e (by linarith) ha
    linarith

/-- all chain vertices are in convex position -/
theorem chain_global (hx : XIncF x n) (c : Chain x y n m v) :
    ∀ s t u, s < t → t < u → u < m → 0 ≤ cr (fun t => x (v t)) (fun t => y (v t)) s t u := by
  apply convex_local_to_global
  · intro i j hij hj; exact hx _ _ (c.inc i j hij hj) (c.lt_n hj)
  · intro t ht; exact c.turn t ht

/-- every chain vertex lies on or above the line of every chain segment -/
theorem chain_vertex_above (hx : XIncF x n) (c : Chain x y n m v) {t u : Nat} (ht : t + 1 < m) (hu : u < m) :
    0 ≤ cross (x (v t)) (y (v t)) (x (v (t + 1))) (y (v (t + 1))) (x (v u)) (y (v u)) := by
  have g := chain_global hx c
  rcases Nat.lt_trichotomy u t with h1 | h1 | h1
  · have := g u t (t + 1) h1 (by omega) ht
    rw [cross_cyc]; exact this
  · subst h1; rw [cross_self_left]
  · by_cases e : u = t + 1
    · subst e; rw [cross_self_right]
    · exact g t (t + 1) u (by omega) (by omega) hu

/-- every point of the polygon lies on or above the line of every chain segment (supporting lines) -/
theorem chain_support (hx : XIncF x n) (c : Chain x y n m v) (ip : Interp x y h m v)
    {t i : Nat} (ht : t + 1 < m) (hi : i < n) :
    0 ≤ cross (x (v t)) (y (v t)) (x (v (t + 1))) (y (v (t + 1))) (x i) (h i) := by
  rcases c.cover hi with ⟨hm, _⟩ | ⟨s, hs, h1, h2⟩
  · omega
  · have e0 := ip.seg s hs i h1 h2
    have ca := chain_vertex_above hx c ht (show s < m by omega)
    have cb := chain_vertex_above hx c ht hs
    have hd := hx (v s) (v (s + 1)) (c.inc s (s + 1) (by omega) hs) (c.lt_n hs)
    have hn1 : v (s + 1) < n := c.lt_n hs
    have x1 : x (v s) ≤ x i := by
      rcases Nat.eq_or_lt_of_le h1 with e | e
      · rw [e]
      · exact le_of_lt (hx _ _ e hi)
    have x2 : x i ≤ x (v (s + 1)) := by
      rcases Nat.eq_or_lt_of_le h2 with e | e
      · rw [e]
      · exact le_of_lt (hx _ _ e hn1)
    have e : cross (x (v t)) (y (v t)) (x (v (t + 1))) (y (v (t + 1))) (x i) (h i) * (x (v (s + 1)) - x (v s))
        = cross (x (v t)) (y (v t)) (x (v (t + 1))) (y (v (t + 1))) (x (v s)) (y (v s)) * (x (v (s + 1)) - x i)
        + cross (x (v t)) (y (v t)) (x (v (t + 1))) (y (v (t + 1))) (x (v (s + 1))) (y (v (s + 1))) * (x i - x (v s)) := by
      unfold cross; linear_combination (x (v (t + 1)) - x (v t)) * e0
    refine nonneg_of_mul_pos e (by linarith) ?_
    have := mul_nonneg ca (by linarith : 0 ≤ x (v (s + 1)) - x i)
    have := mul_nonneg cb (by linarith : 0 ≤ x i - x (v s))
    linarith

/-- (c) the polygon is convex on the grid -/
theorem chain_convex (hx : XIncF x n) (c : Chain x y n m v) (ip : Interp x y h m v) : Convex3F x h n := by
  intro i j k hij hjk hk
  rcases c.cover (show j < n by omega) with ⟨_, h0⟩ | ⟨t, ht, h1, h2⟩
  · omega
  · have e0 := ip.seg t ht j h1 h2
    have ci := chain_support hx c ip ht (show i < n by omega)
    have ck := chain_support hx c ip ht hk
    have hd := hx (v t) (v (t + 1)) (c.inc t (t + 1) (by omega) ht) (c.lt_n ht)
    have d1 := hx i j hij (by omega)
    have d2 := hx j k hjk hk
    have e : ((x k - x j) * h i + (x j - x i) * h k - (x k - x i) * h j) * (x (v (t + 1)) - x (v t))
        = cross (x (v t)) (y (v t)) (x (v (t + 1))) (y (v (t + 1))) (x i) (h i) * (x k - x j)
        + cross (x (v t)) (y (v t)) (x (v (t + 1))) (y (v (t + 1))) (x k) (h k) * (x j - x i) := by
      unfold cross; linear_combination (-(x k - x i)) * e0
    have := nonneg_of_mul_pos e (by linarith) (by
      have := mul_nonneg ci (by linarith : 0 ≤ x k - x j)
      have := mul_nonneg ck (by linarith : 0 ≤ x j - x i)
      linarith)
    linarith

/-- the polygon is the GREATEST convex minorant of the data on the grid -/
theorem chain_greatest (hx : XIncF x n) (c : Chain x y n m v) (ip : Interp x y h m v)
    {g : Nat → Rat} (hg : Convex3F x g n) (hle : ∀ i, i < n → g i ≤ y i) {i : Nat} (hi : i < n) : g i ≤ h i := by
  rcases c.cover hi with ⟨hm, h0⟩ | ⟨t, ht, h1, h2⟩
  · subst h0; have := ip.vert 0 c.mpos; rw [c.first] at this; rw [this]; exact hle 0 hi
  · have hb : v (t + 1) < n := c.lt_n ht
    rcases Nat.eq_or_lt_of_le h1 with e | e1
    · rw [← e, ip.vert t (by omega)]; exact hle _ (by omega)
    rcases Nat.eq_or_lt_of_le h2 with e | e2
    · rw [e, ip.vert (t + 1) ht]; exact hle _ hb
    have e0 := ip.seg t ht i h1 h2
    have cv := hg (v t) i (v (t + 1)) e1 e2 hb
    have la := hle (v t) (by omega)
    have lb := hle (v (t + 1)) hb
    have d1 := hx (v t) i e1 hi
    have d2 := hx i (v (t + 1)) e2 hb
    have e : (h i - g i) * (x (v (t + 1)) - x (v t))
        = ((x (v (t + 1)) - x i) * g (v t) + (x i - x (v t)) * g (v (t + 1)) - (x (v (t + 1)) - x (v t)) * g i)
        + (x (v (t + 1)) - x i) * (y (v t) - g (v t)) + (x i - x (v t)) * (y (v (t + 1)) - g (v (t + 1))) := by
      linear_combination e0
    have := nonneg_of_mul_pos e (by linarith) (by
      have := mul_nonneg (by linarith : 0 ≤ x (v (t + 1)) - x i) (by linarith : 0 ≤ y (v t) - g (v t))
      have := mul_nonneg (by linarith : 0 ≤ x i - x (v t)) (by linarith : 0 ≤ y (v (t + 1)) - g (v (t + 1)))
      linarith)
    linarith

end chain

/-- two certified chains over the same data carry the same polygon -/
theorem chain_unique {x y h h' : Nat → Rat} {n m m' : Nat} {v v' : Nat → Nat} (hx : XIncF x n)
    (c : Chain x y n m v) (ip : Interp x y h m v) (c' : Chain x y n m' v') (ip' : Interp x y h' m' v')
    {i : Nat} (hi : i < n) : h i = h' i :=
  le_antisymm
    (chain_greatest hx c' ip' (chain_convex hx c ip) (fun _ hj => chain_le hx c ip hj) hi)
    (chain_greatest hx c ip (chain_convex hx c' ip') (fun _ hj => chain_le hx c' ip' hj) hi)

/-! ### part 2: the list model (`interp1`, `hullInterp`, `isLowerHull`) -/

/-- samples with strictly increasing abscissae -/
def XInc (pts : List (Rat × Rat)) : Prop := pts.Pairwise fun p q => p.1 < q.1

theorem interp1_cons2 (p q : Rat × Rat) (rest : List (Rat × Rat)) (x : Rat) :
    interp1 (p :: q :: rest) x =
      if x < q.1 then (if x ≤ p.1 then p.2 else (q.2 - p.2) / (q.1 - p.1) * (x - p.1) + p.2)
      else interp1 (q :: rest) x := by
  simp [interp1]

/-- at or left of the first sample `np.interp` returns the first ordinate -/
theorem interp1_le_head (p : Rat × Rat) (rest : List (Rat × Rat)) (hs : XInc (p :: rest)) (x : Rat) (hx : x ≤ p.1) :
    interp1 (p :: rest) x = p.2 := by
  cases rest with
  | nil => simp [interp1]
  | cons q rest =>
    have : p.1 < q.1 := by
      have := List.rel_of_pairwise_cons hs (List.mem_cons_self); exact this
    rw [interp1_cons2, if_pos (by linarith), if_pos hx]

/-- between two consecutive samples `np.interp` lies on their segment (product form) -/
theorem interp1_seg (ch : List (Rat × Rat)) (hs : XInc ch) (t : Nat) (ht : t + 1 < ch.length) (x : Rat)
    (h1 : (ch[t]).1 ≤ x) (h2 : x ≤ (ch[t + 1]).1) :
    ((ch[t + 1]).1 - (ch[t]).1) * (interp1 ch x - (ch[t]).2) = ((ch[t + 1]).2 - (ch[t]).2) * (x - (ch[t]).1) := by
  induction ch generalizing t with
  | nil => simp at ht
  | cons p ch ih =>
    cases ch with
    | nil => simp at ht
    | cons q rest =>
      have hpq : p.1 < q.1 := List.rel_of_pairwise_cons hs (List.mem_cons_self)
      have hs' : XInc (q :: rest) := List.Pairwise.of_cons hs
      cases t with
      | zero =>
        simp only [List.getElem_cons_zero, List.getElem_cons_succ, Nat.zero_add] at h1 h2 ⊢
        rw [interp1_cons2]
        by_cases hx : x < q.1
        · rw [if_pos hx]
          by_cases hx0 : x ≤ p.1
          · rw [if_pos hx0]; have : x = p.1 := le_antisymm hx0 h1; subst this; ring
          · rw [if_neg hx0]
            have : q.1 - p.1 ≠ 0 := by linarith
            field_simp
            ring
        · rw [if_neg hx]
          have : x = q.1 := le_antisymm h2 (not_lt.mp hx)
          rw [interp1_le_head q rest hs' x h2, this]; ring
      | succ t =>
        simp only [List.getElem_cons_succ] at h1 h2 ⊢
        have hq : q.1 ≤ x := by
          refine le_trans ?_ h1
          cases t with
          | zero => simp
          | succ t =>
            have hlen : t + 1 < (q :: rest).length := by simp at ht ⊢; omega
            have : (q :: rest)[t + 1] ∈ rest := by simp
            exact le_of_lt (List.rel_of_pairwise_cons hs' this)
        rw [interp1_cons2, if_neg (not_lt.mpr hq)]
        exact ih hs' t (by simpa using ht) h1 h2


theorem all_zip_tail {α : Type} (l : List α) (f : α × α → Bool) (h : (l.zip l.tail).all f = true) (t : Nat)
    (ht : t + 1 < l.length) : f (l[t], l[t + 1]) = true := by
  rw [List.all_eq_true] at h
  apply h
  rw [List.mem_iff_getElem]
  exact ⟨t, by simp; omega, by simp⟩

theorem maskIdx_pairwise (n : Nat) (mask : List Bool) : (maskIdx n mask).Pairwise (· < ·) :=
  List.Pairwise.filter _ List.pairwise_lt_range

theorem maskIdx_lt {n : Nat} {mask : List Bool} {i : Nat} (h : i ∈ maskIdx n mask) : i < n := by
  simp [maskIdx] at h; exact h.1

theorem mem_maskIdx {n : Nat} {mask : List Bool} {i : Nat} : i ∈ maskIdx n mask ↔ i < n ∧ mask.getD i false = true := by
  simp [maskIdx]

def px (pts : List (Rat × Rat)) (i : Nat) : Rat := (pts.getD i (0, 0)).1
def py (pts : List (Rat × Rat)) (i : Nat) : Rat := (pts.getD i (0, 0)).2
def vt (n : Nat) (mask : List Bool) (t : Nat) : Nat := (maskIdx n mask).getD t 0

/-- `isLowerHull` with the index list and the point lookup abstracted -/
def certOn (p : Nat → Rat × Rat) (n : Nat) (idx : List Nat) : Bool :=
  let pairs := idx.zip idx.tail
  (idx.head? == some 0) && (idx.getLast? == some (n - 1)) &&
  (pairs.zip pairs.tail).all (fun ((a, b), (_, c)) =>
      decide (cross (p a).1 (p a).2 (p b).1 (p b).2 (p c).1 (p c).2 ≥ 0)) &&
  pairs.all (fun (a, b) => (List.range (b - a + 1)).all fun t =>
      decide (cross (p a).1 (p a).2 (p b).1 (p b).2 (p (a + t)).1 (p (a + t)).2 ≥ 0))

theorem isLowerHull_eq_certOn (pts : List (Rat × Rat)) (mask : List Bool) :
    isLowerHull pts mask = certOn (fun i => pts.getD i (0, 0)) pts.length (maskIdx pts.length mask) := rfl

theorem certOn_chain (p : Nat → Rat × Rat) (n : Nat) (idx : List Nat) (hpw : idx.Pairwise (· < ·))
    (hlt : ∀ i ∈ idx, i < n) (hc : certOn p n idx = true) :
    Chain (fun i => (p i).1) (fun i => (p i).2) n idx.length (fun t => idx.getD t 0) := by
  simp only [certOn, Bool.and_eq_true] at hc
  obtain ⟨⟨⟨h1, h2⟩, h3⟩, h4⟩ := hc
  rw [beq_iff_eq] at h1 h2
  have hmpos : 0 < idx.length := by
    cases idx with
    | nil => simp at h1
    | cons a l => simp
  have ve : ∀ t (ht : t < idx.length), idx.getD t 0 = idx[t] := fun t ht => by simp [ht]
  refine ⟨hmpos, ?_, ?_, ?_, ?_, ?_⟩
  · show idx.getD 0 0 = 0
    rw [ve 0 hmpos]
    rw [List.head?_eq_getElem?, List.getElem?_eq_getElem hmpos] at h1
    exact Option.some.inj h1
  · have hl : idx.length - 1 < idx.length := by omega
    show idx.getD (idx.length - 1) 0 + 1 = n
    rw [ve _ hl]
    rw [List.getLast?_eq_getElem?, List.getElem?_eq_getElem hl] at h2
    have := Option.some.inj h2
    have hlt := hlt _ (List.getElem_mem hl)
    omega
  · intro s t hst ht
    show idx.getD s 0 < idx.getD t 0
    rw [ve t ht, ve s (by omega)]
    exact (List.pairwise_iff_getElem.mp hpw) s t (by omega) ht hst
  · intro t ht
    have e := all_zip_tail _ _ h3 t (by simp; omega)
    simp only [List.getElem_zip, List.getElem_tail, decide_eq_true_eq, ge_iff_le] at e
    show 0 ≤ cross (p (idx.getD t 0)).1 _ (p (idx.getD (t + 1) 0)).1 _ (p (idx.getD (t + 2) 0)).1 _
    rw [ve t (by omega), ve (t + 1) (by omega), ve (t + 2) ht]
    exact e
  · intro t ht i hi1 hi2
    have e := all_zip_tail _ _ h4 t ht
    change idx.getD t 0 ≤ i at hi1
    change i ≤ idx.getD (t + 1) 0 at hi2
    rw [ve t (by omega)] at hi1
    rw [ve (t + 1) ht] at hi2
    show 0 ≤ cross (p (idx.getD t 0)).1 _ (p (idx.getD (t + 1) 0)).1 _ (p i).1 _
    rw [ve t (by omega), ve (t + 1) ht]
    rw [List.all_eq_true] at e
    have e2 := e (i - idx[t]) (by simp; omega)
    simp only [decide_eq_true_eq, ge_iff_le] at e2
    rw [show idx[t] + (i - idx[t]) = i by omega] at e2
    exact e2


/-- at a sample abscissa `np.interp` returns the sample ordinate -/
theorem interp1_vert (ch : List (Rat × Rat)) (hs : XInc ch) (t : Nat) (ht : t < ch.length) :
    interp1 ch (ch[t]).1 = (ch[t]).2 := by
  have hlt : ∀ a b (ha : a < b) (hb : b < ch.length), (ch[a]).1 < (ch[b]).1 := fun a b ha hb =>
    (List.pairwise_iff_getElem.mp hs) a b (by omega) hb ha
  by_cases h1 : t + 1 < ch.length
  · have e := interp1_seg ch hs t h1 (ch[t]).1 (le_refl _) (le_of_lt (hlt t (t + 1) (by omega) h1))
    have d := hlt t (t + 1) (by omega) h1
    rw [sub_self, mul_zero] at e
    rcases mul_eq_zero.mp e with e | e
    · linarith
    · linarith
  · cases t with
    | zero =>
      match ch, ht, h1 with
      | [p], _, _ => simp [interp1]
      | _ :: _ :: _, _, h1 => simp at h1
    | succ t =>
      have e := interp1_seg ch hs t ht (ch[t + 1]).1 (le_of_lt (hlt t (t + 1) (by omega) ht)) (le_refl _)
      have d := hlt t (t + 1) (by omega) ht
      have : ((ch[t + 1]).1 - (ch[t]).1) * (interp1 ch (ch[t + 1]).1 - (ch[t + 1]).2) = 0 := by
        linear_combination e
      rcases mul_eq_zero.mp this with e | e
      · linarith
      · linarith

theorem xinc_F {pts : List (Rat × Rat)} (hx : XInc pts) : XIncF (px pts) pts.length := by
  intro i j hij hj
  have := (List.pairwise_iff_getElem.mp hx) i j (by omega) hj hij
  simpa [px, hj, (by omega : i < pts.length)] using this

theorem hullInterp_length (pts : List (Rat × Rat)) (mask : List Bool) : (hullInterp pts mask).length = pts.length := by
  simp [hullInterp]

/-- the chain handed to `np.interp` -/
def chainOf (pts : List (Rat × Rat)) (mask : List Bool) : List (Rat × Rat) :=
  (maskIdx pts.length mask).map fun i => pts.getD i (0, 0)

theorem hullInterp_getD (pts : List (Rat × Rat)) (mask : List Bool) {i : Nat} (hi : i < pts.length) :
    (hullInterp pts mask).getD i 0 = interp1 (chainOf pts mask) (px pts i) := by
  simp [hullInterp, chainOf, px, hi]

theorem chainOf_xinc {pts : List (Rat × Rat)} (hx : XInc pts) (mask : List Bool) : XInc (chainOf pts mask) := by
  unfold XInc chainOf
  rw [List.pairwise_map]
  refine List.Pairwise.imp_of_mem ?_ (maskIdx_pairwise pts.length mask)
  intro a b ha hb hab
  exact xinc_F hx a b hab (maskIdx_lt hb)

theorem hull_interp (pts : List (Rat × Rat)) (mask : List Bool) (hx : XInc pts) :
    Interp (px pts) (py pts) (fun i => (hullInterp pts mask).getD i 0) (maskIdx pts.length mask).length
      (fun t => (maskIdx pts.length mask).getD t 0) := by
  have hs := chainOf_xinc hx mask
  have hxF := xinc_F hx
  have ve : ∀ t (ht : t < (maskIdx pts.length mask).length),
      (maskIdx pts.length mask).getD t 0 = (maskIdx pts.length mask)[t] := fun t ht => by simp [ht]
  have hn : ∀ t (ht : t < (maskIdx pts.length mask).length), (maskIdx pts.length mask)[t] < pts.length :=
    fun t ht => maskIdx_lt (List.getElem_mem ht)
  have hlen : (chainOf pts mask).length = (maskIdx pts.length mask).length := by simp [chainOf]
  have hch : ∀ t (ht : t < (maskIdx pts.length mask).length),
      (chainOf pts mask)[t]'(by omega) = (px pts (maskIdx pts.length mask)[t], py pts (maskIdx pts.length mask)[t]) := by
    intro t ht; simp [chainOf, px, py]
  constructor
  · intro t ht
    show (hullInterp pts mask).getD ((maskIdx pts.length mask).getD t 0) 0 = py pts ((maskIdx pts.length mask).getD t 0)
    rw [ve t ht, hullInterp_getD pts mask (hn t ht)]
    have := interp1_vert (chainOf pts mask) hs t (by omega)
    rw [hch t ht] at this
    exact this
  · intro t ht i h1 h2
    change (maskIdx pts.length mask).getD t 0 ≤ i at h1
    change i ≤ (maskIdx pts.length mask).getD (t + 1) 0 at h2
    show (px pts ((maskIdx pts.length mask).getD (t + 1) 0) - px pts ((maskIdx pts.length mask).getD t 0))
        * ((hullInterp pts mask).getD i 0 - py pts ((maskIdx pts.length mask).getD t 0))
      = (py pts ((maskIdx pts.length mask).getD (t + 1) 0) - py pts ((maskIdx pts.length mask).getD t 0))
        * (px pts i - px pts ((maskIdx pts.length mask).getD t 0))
    rw [ve t (by omega)] at h1 ⊢
    rw [ve (t + 1) ht] at h2 ⊢
    have hb := hn (t + 1) ht
    have hi : i < pts.length := by omega
    rw [hullInterp_getD pts mask hi]
    have x1 : px pts (maskIdx pts.length mask)[t] ≤ px pts i := by
      rcases Nat.eq_or_lt_of_le h1 with e | e
      · rw [e]
      · exact le_of_lt (hxF _ _ e hi)
    have x2 : px pts i ≤ px pts (maskIdx pts.length mask)[t + 1] := by
      rcases Nat.eq_or_lt_of_le h2 with e | e
      · rw [e]
      · exact le_of_lt (hxF _ _ e hb)
    have := interp1_seg (chainOf pts mask) hs t (by omega) (px pts i)
      (by rw [hch t (by omega)]; exact x1) (by rw [hch (t + 1) ht]; exact x2)
    rw [hch t (by omega), hch (t + 1) ht] at this
    exact this

theorem hull_chain (pts : List (Rat × Rat)) (mask : List Bool) (hc : isLowerHull pts mask = true) :
    Chain (px pts) (py pts) pts.length (maskIdx pts.length mask).length
      (fun t => (maskIdx pts.length mask).getD t 0) :=
  certOn_chain (fun i => pts.getD i (0, 0)) pts.length (maskIdx pts.length mask) (maskIdx_pairwise _ _)
    (fun _ h => maskIdx_lt h) (by rw [← isLowerHull_eq_certOn]; exact hc)


/-! ### the statements on the list model -/

/-- three-point convexity of the values `g` over the abscissae of `pts` -/
def Convex3 (pts : List (Rat × Rat)) (g : Nat → Rat) : Prop := Convex3F (px pts) g pts.length

theorem cert_le (pts : List (Rat × Rat)) (mask : List Bool) (hx : XInc pts) (hc : isLowerHull pts mask = true)
    {i : Nat} (hi : i < pts.length) : (hullInterp pts mask).getD i 0 ≤ py pts i :=
  chain_le (xinc_F hx) (hull_chain pts mask hc) (hull_interp pts mask hx) hi

theorem cert_touch (pts : List (Rat × Rat)) (mask : List Bool) (hx : XInc pts)
    {i : Nat} (hi : i < pts.length) (hm : mask.getD i false = true) : (hullInterp pts mask).getD i 0 = py pts i := by
  have hmem : i ∈ maskIdx pts.length mask := mem_maskIdx.mpr ⟨hi, hm⟩
  obtain ⟨t, ht, e⟩ := List.mem_iff_getElem.mp hmem
  have hv := (hull_interp pts mask hx).vert t ht
  have ev : (maskIdx pts.length mask).getD t 0 = i := by simp [ht, e]
  simp only [ev] at hv
  exact hv

theorem cert_convex (pts : List (Rat × Rat)) (mask : List Bool) (hx : XInc pts) (hc : isLowerHull pts mask = true) :
    Convex3 pts (fun i => (hullInterp pts mask).getD i 0) :=
  chain_convex (xinc_F hx) (hull_chain pts mask hc) (hull_interp pts mask hx)

theorem cert_greatest (pts : List (Rat × Rat)) (mask : List Bool) (hx : XInc pts) (hc : isLowerHull pts mask = true)
    (g : Nat → Rat) (hg : Convex3 pts g) (hle : ∀ i, i < pts.length → g i ≤ py pts i)
    {i : Nat} (hi : i < pts.length) : g i ≤ (hullInterp pts mask).getD i 0 :=
  chain_greatest (xinc_F hx) (hull_chain pts mask hc) (hull_interp pts mask hx) hg hle hi

theorem cert_unique (pts : List (Rat × Rat)) (m1 m2 : List Bool) (hx : XInc pts)
    (h1 : isLowerHull pts m1 = true) (h2 : isLowerHull pts m2 = true) : hullInterp pts m1 = hullInterp pts m2 := by
  apply List.ext_getElem
  · rw [hullInterp_length, hullInterp_length]
  · intro i hi1 hi2
    have hi : i < pts.length := by rw [hullInterp_length] at hi1; exact hi1
    have := chain_unique (xinc_F hx) (hull_chain pts m1 h1) (hull_interp pts m1 hx) (hull_chain pts m2 h2)
      (hull_interp pts m2 hx) hi
    simpa [List.getD_eq_getElem?_getD, List.getElem?_eq_getElem hi1, List.getElem?_eq_getElem hi2] using this

/-- slope form of the three-point inequality -/
theorem convex3_slopes {x g : Nat → Rat} {i j k : Nat} (hij : x i < x j) (hjk : x j < x k) :
    (x k - x i) * g j ≤ (x k - x j) * g i + (x j - x i) * g k ↔
      (g j - g i) / (x j - x i) ≤ (g k - g j) / (x k - x j) := by
  rw [div_le_div_iff₀ (by linarith) (by linarith)]
  constructor <;> intro h <;> linarith

/-! ### shifts -/

theorem all_congr_mem {α : Type} (l : List α) (f g : α → Bool) (h : ∀ a ∈ l, f a = g a) : l.all f = l.all g := by
  induction l with
  | nil => rfl
  | cons a l ih =>
    simp only [List.all_cons]
    rw [h a (by simp), ih (fun b hb => h b (by simp [hb]))]

theorem certOn_congr_shift (p p' : Nat → Rat × Rat) (c : Rat) (n : Nat) (idx : List Nat) (hlt : ∀ i ∈ idx, i < n)
    (hp : ∀ i, i < n → p' i = ((p i).1, (p i).2 + c)) : certOn p' n idx = certOn p n idx := by
  unfold certOn
  simp only []
  congr 1
  · congr 1
    apply all_congr_mem
    rintro ⟨⟨a, b⟩, ⟨b', d⟩⟩ hm
    have h1 := (List.of_mem_zip hm).1
    have h2 := List.mem_of_mem_tail (List.of_mem_zip hm).2
    have ha := hlt a (List.of_mem_zip h1).1
    have hb := hlt b (List.mem_of_mem_tail (List.of_mem_zip h1).2)
    have hd := hlt d (List.mem_of_mem_tail (List.of_mem_zip h2).2)
    simp only [hp a ha, hp b hb, hp d hd, cross_shift]
  · apply all_congr_mem
    rintro ⟨a, b⟩ hm
    have ha := hlt a (List.of_mem_zip hm).1
    have hb := hlt b (List.mem_of_mem_tail (List.of_mem_zip hm).2)
    apply all_congr_mem
    intro t ht
    have ht' : a + t < n := by simp at ht; omega
    simp only [hp a ha, hp b hb, hp (a + t) ht', cross_shift]

theorem shiftPts_length (c : Rat) (pts : List (Rat × Rat)) : (shiftPts c pts).length = pts.length := by
  simp [shiftPts]

theorem shiftPts_getD (c : Rat) (pts : List (Rat × Rat)) {i : Nat} (hi : i < pts.length) :
    (shiftPts c pts).getD i (0, 0) = ((pts.getD i (0, 0)).1, (pts.getD i (0, 0)).2 + c) := by
  simp [shiftPts, hi]

theorem isLowerHull_shift (c : Rat) (pts : List (Rat × Rat)) (mask : List Bool) :
    isLowerHull (shiftPts c pts) mask = isLowerHull pts mask := by
  rw [isLowerHull_eq_certOn, isLowerHull_eq_certOn, shiftPts_length]
  exact certOn_congr_shift _ _ c pts.length _ (fun _ h => maskIdx_lt h) (fun i hi => shiftPts_getD c pts hi)

theorem interp1_shift (c : Rat) (ch : List (Rat × Rat)) (hne : ch ≠ []) (x : Rat) :
    interp1 (ch.map fun p => (p.1, p.2 + c)) x = interp1 ch x + c := by
  induction ch with
  | nil => exact absurd rfl hne
  | cons p ch ih =>
    cases ch with
    | nil => simp [interp1]
    | cons q rest =>
      have ih' := ih (by simp)
      simp only [List.map_cons] at ih' ⊢
      rw [interp1_cons2, interp1_cons2]
      by_cases h1 : x < q.1
      · simp only [if_pos h1]
        by_cases h2 : x ≤ p.1
        · simp only [if_pos h2]
        · simp only [if_neg h2]; ring
      · simp only [if_neg h1]; exact ih'

theorem hullInterp_shift (c : Rat) (pts : List (Rat × Rat)) (mask : List Bool)
    (hm : ∃ i, i < pts.length ∧ mask.getD i false = true) :
    hullInterp (shiftPts c pts) mask = (hullInterp pts mask).map (· + c) := by
  obtain ⟨i0, hi0, hm0⟩ := hm
  have hne : chainOf pts mask ≠ [] := by
    have : i0 ∈ maskIdx pts.length mask := mem_maskIdx.mpr ⟨hi0, hm0⟩
    intro h
    simp only [chainOf, List.map_eq_nil_iff] at h
    rw [h] at this; cases this
  have hch : chainOf (shiftPts c pts) mask = (chainOf pts mask).map fun p => (p.1, p.2 + c) := by
    unfold chainOf
    rw [shiftPts_length, List.map_map]
    apply List.map_congr_left
    intro i hi
    exact shiftPts_getD c pts (maskIdx_lt hi)
  show (shiftPts c pts).map (fun p => interp1 (chainOf (shiftPts c pts) mask) p.1)
      = (pts.map fun p => interp1 (chainOf pts mask) p.1).map (· + c)
  rw [hch]
  simp only [shiftPts, List.map_map]
  apply List.map_congr_left
  intro p _
  simp only [Function.comp]
  exact interp1_shift c _ hne p.1

/-! ### segments: `np.interp` over the whole mask is, on each segment, the interpolant of that segment -/

/-- left of (or at) some sample of the first block, the samples of a second block do not matter -/
theorem interp1_append_left (c1 c2 : List (Rat × Rat)) (hs : XInc (c1 ++ c2)) (x : Rat)
    (hw : ∃ p ∈ c1, x ≤ p.1) : interp1 (c1 ++ c2) x = interp1 c1 x := by
  induction c1 with
  | nil => obtain ⟨p, hp, _⟩ := hw; cases hp
  | cons p c1 ih =>
    cases c1 with
    | nil =>
      obtain ⟨p', hp', hx⟩ := hw
      simp only [List.mem_singleton] at hp'
      subst hp'
      rw [List.singleton_append, interp1_le_head p' c2 hs x hx]; simp [interp1]
    | cons q r =>
      have hs' : XInc ((q :: r) ++ c2) := List.Pairwise.of_cons hs
      have hpq : p.1 < q.1 := List.rel_of_pairwise_cons hs (by simp)
      show interp1 (p :: q :: (r ++ c2)) x = interp1 (p :: q :: r) x
      rw [interp1_cons2, interp1_cons2]
      by_cases h1 : x < q.1
      · simp only [if_pos h1]
      · simp only [if_neg h1]
        apply ih hs'
        obtain ⟨p', hp', hx⟩ := hw
        rcases List.mem_cons.mp hp' with e | e
        · subst e; exact absurd (lt_of_le_of_lt hx hpq) h1
        · exact ⟨p', e, hx⟩

/-- right of (or at) some sample of the second block, the samples of a first block do not matter -/
theorem interp1_append_right (c1 c2 : List (Rat × Rat)) (hs : XInc (c1 ++ c2)) (x : Rat)
    (hw : ∃ p ∈ c2, p.1 ≤ x) : interp1 (c1 ++ c2) x = interp1 c2 x := by
  induction c1 with
  | nil => rfl
  | cons p c1 ih =>
    have hs' : XInc (c1 ++ c2) := List.Pairwise.of_cons hs
    obtain ⟨w, hw2, hwx⟩ := hw
    cases hl : c1 ++ c2 with
    | nil => rw [List.append_eq_nil_iff] at hl; rw [hl.2] at hw2; cases hw2
    | cons q rest =>
      have hq : q.1 ≤ x := by
        have hwm : w ∈ q :: rest := by rw [← hl]; exact List.mem_append_right _ hw2
        rcases List.mem_cons.mp hwm with e | e
        · rw [← e]; exact hwx
        · rw [hl] at hs'
          exact le_trans (le_of_lt (List.rel_of_pairwise_cons hs' e)) hwx
      show interp1 (p :: (c1 ++ c2)) x = interp1 c2 x
      rw [hl, interp1_cons2, if_neg (not_lt.mpr hq), ← hl]
      exact ih hs'

theorem maskIdx_append (a b : Nat) (mA mB : List Bool) (hlen : mA.length = a) :
    maskIdx (a + b) (mA ++ mB) = maskIdx a mA ++ (maskIdx b mB).map (a + ·) := by
  unfold maskIdx
  rw [List.range_add, List.filter_append, List.filter_map]
  congr 1
  · apply List.filter_congr
    intro i hi
    have : i < mA.length := by rw [hlen]; exact List.mem_range.mp hi
    simp [List.getD_eq_getElem?_getD, List.getElem?_append_left this]
  · congr 1
    apply List.filter_congr
    intro j _
    simp [List.getD_eq_getElem?_getD, List.getElem?_append_right, hlen]

theorem chainOf_append (A B : List (Rat × Rat)) (mA mB : List Bool) (hlen : mA.length = A.length) :
    chainOf (A ++ B) (mA ++ mB) = chainOf A mA ++ chainOf B mB := by
  unfold chainOf
  rw [List.length_append, maskIdx_append _ _ _ _ hlen, List.map_append, List.map_map]
  congr 1
  · apply List.map_congr_left
    intro i hi
    have : i < A.length := maskIdx_lt hi
    simp [List.getD_eq_getElem?_getD, List.getElem?_append_left this]
  · apply List.map_congr_left
    intro j _
    simp [List.getD_eq_getElem?_getD, List.getElem?_append_right]

/-- `rubberband(segments=…)`: when the last point of one segment and the first point of the next are both masked (they are
hull vertices of their segments), `np.interp` over the whole mask is the concatenation of the per-segment interpolants -/
theorem hullInterp_append (A B : List (Rat × Rat)) (mA mB : List Bool) (hx : XInc (A ++ B)) (hlen : mA.length = A.length)
    (hA : 0 < A.length) (hlastA : mA.getD (A.length - 1) false = true)
    (hB : 0 < B.length) (hfirstB : mB.getD 0 false = true) :
    hullInterp (A ++ B) (mA ++ mB) = hullInterp A mA ++ hullInterp B mB := by
  have hxA : XInc A := (List.pairwise_append.mp hx).1
  have hxB : XInc B := (List.pairwise_append.mp hx).2.1
  have hs : XInc (chainOf A mA ++ chainOf B mB) := by
    rw [← chainOf_append A B mA mB hlen]; exact chainOf_xinc hx _
  have hwA : A.getD (A.length - 1) (0, 0) ∈ chainOf A mA :=
    List.mem_map.mpr ⟨A.length - 1, mem_maskIdx.mpr ⟨by omega, hlastA⟩, rfl⟩
  have hwB : B.getD 0 (0, 0) ∈ chainOf B mB :=
    List.mem_map.mpr ⟨0, mem_maskIdx.mpr ⟨hB, hfirstB⟩, rfl⟩
  show (A ++ B).map (fun p => interp1 (chainOf (A ++ B) (mA ++ mB)) p.1)
      = A.map (fun p => interp1 (chainOf A mA) p.1) ++ B.map (fun p => interp1 (chainOf B mB) p.1)
  rw [chainOf_append A B mA mB hlen, List.map_append]
  congr 1
  · apply List.map_congr_left
    intro p hp
    apply interp1_append_left _ _ hs
    refine ⟨_, hwA, ?_⟩
    obtain ⟨i, hi, e⟩ := List.mem_iff_getElem.mp hp
    have := xinc_F hxA
    rcases Nat.eq_or_lt_of_le (show i ≤ A.length - 1 by omega) with h | h
    · subst e; rw [← h]; simp [hi]
    · have := this i (A.length - 1) h (by omega)
      subst e
      simpa [px, hi] using le_of_lt this
  · apply List.map_congr_left
    intro p hp
    apply interp1_append_right _ _ hs
    refine ⟨_, hwB, ?_⟩
    obtain ⟨i, hi, e⟩ := List.mem_iff_getElem.mp hp
    have := xinc_F hxB
    rcases Nat.eq_zero_or_pos i with h | h
    · subst e; subst h; simp [hi]
    · have := this 0 i h hi
      subst e
      simpa [px, hi, hB] using le_of_lt this

end PbVerif.Lemmas.Hull
