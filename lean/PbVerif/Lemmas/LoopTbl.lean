import PbVerif.Model.LoopTbl
import PbVerif.Lemmas.Wrapper
/-! Lemmas about the table interpreter `PbVerif.LoopTbl`: proved ONCE for the generic row shape (`Row.ok`, a decidable
condition on the row), so that the per-method statements of Props/C01 / Props/C09 follow by `decide` over the regenerated
table `Gen.loopTable`. -/
namespace PbVerif.Lemmas.LoopTbl
open PbVerif.LoopTbl PbVerif.Loop

/-- index k written in step k, for k < n: the record a correct loop has produced after n recorded steps -/
def pairs (n : Nat) : List (Int × Nat) := (List.range n).map fun (k : Nat) => ((k : Int), k)

theorem pairs_succ (n : Nat) : pairs (n + 1) = pairs n ++ [((n : Int), n)] := by
  simp [pairs, List.range_succ]

theorem mem_pairs {n : Nat} {x : Int × Nat} : x ∈ pairs n ↔ x.2 < n ∧ x.1 = (x.2 : Int) := by
  obtain ⟨a, b⟩ := x
  simp only [pairs, List.mem_map, List.mem_range, Prod.mk.injEq]
  constructor
  · rintro ⟨k, hk, rfl, rfl⟩; exact ⟨hk, rfl⟩
  · rintro ⟨h1, h2⟩; exact ⟨b, h1, h2.symm, rfl⟩

theorem body_spec (lo sl : Int) (tol : Rat) (d : Nat → Rat) (fl : Nat → Nat → Bool) (k : Nat) :
    ∀ (es : List Ev) (wr : Bool) (p : Nat) (w : List (Int × Nat)),
      bodyOk lo sl es wr = true → w = pairs (if wr then k + 1 else k) →
      ((body tol d fl k (lo + (k : Int)) es p w).2 = none →
          (body tol d fl k (lo + (k : Int)) es p w).1 = pairs (k + 1) ∧ (hasTol es = true → ¬ d k < tol)) ∧
      (∀ i' s, (body tol d fl k (lo + (k : Int)) es p w).2 = some (i', s) →
          ∃ m : Nat, m ≤ k + 1 ∧ (body tol d fl k (lo + (k : Int)) es p w).1 = pairs m ∧ i' + sl = (m : Int) ∧
            (s = .converged → m = k + 1 ∧ d k < tol) ∧ (s = .early → ∃ q, fl k q = true) ∧ s ≠ .exhausted) := by
  intro es
  induction es with
  | nil =>
    intro wr p w hok hw
    simp only [bodyOk] at hok
    subst hok
    simp [body, hw, hasTol]
  | cons e es ih =>
    intro wr p w hok hw
    cases e with
    | write off =>
      simp only [bodyOk, Bool.and_eq_true, Bool.not_eq_true', decide_eq_true_eq] at hok
      obtain ⟨⟨hwr, hoff⟩, hrest⟩ := hok
      subst hwr
      simp only [body, hasTol]
      have hw' : w ++ [(lo + (k : Int) + off, k)] = pairs (if true then k + 1 else k) := by
        simp only [if_true, pairs_succ]
        simp only [Bool.false_eq_true, if_false] at hw
        rw [hw]
        congr 2
        ext <;> simp; omega
      exact ih true (p + 1) _ hrest hw'
    | brk t dec =>
      simp only [bodyOk, Bool.and_eq_true, decide_eq_true_eq, Bool.or_eq_true, beq_iff_eq] at hok
      obtain ⟨⟨hdec, hflag⟩, hrest⟩ := hok
      by_cases hf : t.fires (decide (d k < tol)) (fl k p) = true
      · simp only [body, hf, if_true]
        refine ⟨by simp, ?_⟩
        intro i' s hs
        simp only [Option.some.injEq, Prod.mk.injEq] at hs
        obtain ⟨hi, hs⟩ := hs
        refine ⟨if wr then k + 1 else k, by split <;> omega, hw, ?_, ?_, ?_, ?_⟩
        · subst hi
          cases wr <;> simp at hdec ⊢ <;> omega
        · intro hc
          subst hs
          cases t <;> simp [Test.reason] at hc hf hflag ⊢
          · simp [Test.fires] at hf; subst hflag; exact ⟨by simp, hf⟩
          · simp [Test.fires] at hf; subst hflag; exact ⟨by simp, hc⟩
          · simp [Test.fires] at hf; subst hflag; exact ⟨by simp, hf.1⟩
        · intro hc
          subst hs
          cases t <;> simp [Test.reason, Test.fires] at hc hf ⊢
          · rcases hf with hf | hf
            · exact absurd hf (not_lt.mpr hc)
            · exact ⟨p, hf⟩
          · exact ⟨p, hf⟩
        · subst hs
          cases t <;> simp [Test.reason]
          split <;> simp
      · simp only [body, hf, Bool.false_eq_true, if_false]
        have := ih wr (p + 1) w hrest hw
        refine ⟨fun hn => ⟨(this.1 hn).1, fun ht => ?_⟩, this.2⟩
        simp only [hasTol, Bool.or_eq_true, beq_iff_eq] at ht
        rcases ht with (ht | ht) | ht
        · subst ht; simpa [Test.fires] using hf
        · subst ht; simp [Test.fires] at hf; simpa using hf.1
        · exact (this.1 hn).2 ht

/-- what a run of an `ok` row looks like from step `k` on, whatever the numeric work does -/
structure Good (r : Row) (tol : Rat) (d : Nat → Rat) (fl : Nat → Nat → Bool) (k f : Nat) (res : Res) : Prop where
  notRaised : res.raised = false
  len_le : res.slice.toNat ≤ k + f
  slice_eq : res.slice = (res.slice.toNat : Int)
  writes_eq : res.writes = pairs res.slice.toNat
  conv : res.stop = .converged → 1 ≤ res.slice.toNat ∧ d (res.slice.toNat - 1) < tol ∧ res.steps = res.slice.toNat - 1
  exh : res.stop = .exhausted → res.slice.toNat = k + f ∧ res.steps = k + f
  early : res.stop = .early → (∃ q, fl res.steps q = true) ∧ res.steps < k + f ∧ res.slice.toNat ≤ res.steps + 1 ∧ res.steps ≤ res.slice.toNat
  first : hasTol r.body = true → ∀ j, k ≤ j → j < res.steps → ¬ d j < tol
  steps_ge : k ≤ res.steps

theorem loop_spec (r : Row) (hb : bodyOk r.lo r.sliceOff r.body false = true) (hls : r.lo + r.sliceOff = 1)
    (tol : Rat) (d : Nat → Rat) (fl : Nat → Nat → Bool) :
    ∀ (f k : Nat) (w : List (Int × Nat)), w = pairs k → Good r tol d fl k f (loop r tol d fl f k w) := by
  intro f
  induction f with
  | zero =>
    intro k w hw
    have hs : r.lo + (k : Int) - 1 + r.sliceOff = (k : Int) := by omega
    simp only [loop, hs]
    exact ⟨rfl, by simp, by simp, by simpa using hw, by simp, by simp, by simp, fun _ j h1 h2 => by simp at h2; omega, by simp⟩
  | succ f ih =>
    intro k w hw
    have hsp := body_spec r.lo r.sliceOff tol d fl k r.body false 0 w hb (by simpa using hw)
    rw [loop]
    generalize hbd : body tol d fl k (r.lo + (k : Int)) r.body 0 w = bd at hsp
    obtain ⟨w', o⟩ := bd
    cases o with
    | none =>
      obtain ⟨hw', hnt⟩ := hsp.1 rfl
      simp only at hw' hnt ⊢
      have g := ih (k + 1) w' hw'
      refine ⟨g.notRaised, by have := g.len_le; omega, g.slice_eq, g.writes_eq, g.conv, ?_, ?_, ?_, by have := g.steps_ge; omega⟩
      · intro h; have := g.exh h; omega
      · intro h; obtain ⟨a, b, c⟩ := g.early h; exact ⟨a, by omega, c⟩
      · intro ht j h1 h2
        by_cases hj : j = k
        · subst hj; exact hnt ht
        · exact g.first ht j (by omega) h2
    | some is =>
      obtain ⟨i', s⟩ := is
      obtain ⟨m, hm, hw', hi, hc, he, hx⟩ := hsp.2 i' s rfl
      simp only at hw' ⊢
      have hsl : i' + r.sliceOff = (m : Int) := hi
      simp only [hsl]
      refine ⟨rfl, by simp; omega, by simp, by simpa using hw', ?_, ?_, ?_, fun _ j h1 h2 => by simp at h2; omega, by simp⟩
      · intro h
        obtain ⟨h1, h2⟩ := hc h
        subst h1
        simp only [Int.toNat_natCast]
        exact ⟨by omega, by simpa using h2, by simp⟩
      · intro h; exact absurd h hx
      · intro h
        refine ⟨he h, by simp, by simp; omega, ?_⟩
        simp only [Int.toNat_natCast]
        -- a break never hands back fewer than the entries recorded before this step
        have : pairs k <+: w' := by
          have := body_prefix tol d fl k (r.lo + (k : Int)) r.body 0 w
          rw [hbd, hw] at this
          exact this
        rw [hw'] at this
        have := this.length_le
        simpa [pairs] using this
where
  body_prefix (tol : Rat) (d : Nat → Rat) (fl : Nat → Nat → Bool) (k : Nat) (i : Int) :
      ∀ (es : List Ev) (p : Nat) (w : List (Int × Nat)), w <+: (body tol d fl k i es p w).1 := by
    intro es
    induction es with
    | nil => intro p w; simp [body]
    | cons e es ih =>
      intro p w
      cases e with
      | write off =>
        simp only [body]
        exact (List.prefix_append w _).trans (ih (p + 1) _)
      | brk t dec =>
        simp only [body]
        split
        · simp
        · exact ih (p + 1) w

/-! ### affine bounds -/
theorem Aff.leFrom_sound {a b : Aff} {g : Nat} (h : a.leFrom b g = true) (n : Nat) (hn : g ≤ n) : a.eval n ≤ b.eval n := by
  simp only [Aff.leFrom, Bool.and_eq_true, decide_eq_true_eq] at h
  obtain ⟨hc, hg⟩ := h
  simp only [Aff.eval] at hg ⊢
  obtain ⟨e, rfl⟩ := Nat.exists_eq_add_of_le hn
  have h1 : (a.coef : Int) * (e : Int) ≤ (b.coef : Int) * (e : Int) := by
    apply Int.mul_le_mul_of_nonneg_right <;> omega
  push_cast
  nlinarith

/-- what `ok` implies about a run that does not raise, for every numeric behaviour -/
structure Ran (r : Row) (n : Nat) (tol : Rat) (d : Nat → Rat) (fl : Nat → Nat → Bool) : Prop where
  budget_alloc : (r.budget n : Int) ≤ r.alloc.eval n
  /-- (a) every write is inside the allocation — no IndexError and no wrap-around through a negative index -/
  writes_in : ∀ x ∈ (run r n tol d fl).writes, 0 ≤ x.1 ∧ x.1 < r.alloc.eval n
  /-- (b) the slice bound is within the allocation and every entry of the slice was written (in step = its index) -/
  slice_in : 0 ≤ (run r n tol d fl).slice ∧ (run r n tol d fl).slice ≤ r.alloc.eval n
  slice_len : sliceLen (r.alloc.eval n) (run r n tol d fl).slice = (run r n tol d fl).slice.toNat
  slice_written : ∀ j : Nat, j < sliceLen (r.alloc.eval n) (run r n tol d fl).slice → ((j : Int), j) ∈ (run r n tol d fl).writes
  /-- nothing is recorded outside the returned slice -/
  written_in_slice : ∀ x ∈ (run r n tol d fl).writes, x.1 < (run r n tol d fl).slice
  /-- (c) at most budget ≤ max_iter + 1 entries -/
  len_le : (run r n tol d fl).slice.toNat ≤ r.budget n
  good : Good r tol d fl 0 (r.budget n) (run r n tol d fl)

/-- everything a row's `ok` implies about a run, for every max_iter ≥ guard and every numeric behaviour -/
structure Safe (r : Row) (n : Nat) (tol : Rat) (d : Nat → Rat) (fl : Nat → Nat → Bool) : Prop where
  /-- the range is empty exactly when the loop variable is unbound at the slice (an ordinary exception) -/
  raised_iff : (run r n tol d fl).raised = true ↔ r.budget n = 0
  budget_le : r.budget n ≤ n + 1
  ran : r.budget n ≠ 0 → Ran r n tol d fl

theorem ok_safe (r : Row) (h : r.ok = true) (n : Nat) (hn : r.guard ≤ n) (tol : Rat) (d : Nat → Rat) (fl : Nat → Nat → Bool) :
    Safe r n tol d fl := by
  simp only [Row.ok, Bool.and_eq_true, decide_eq_true_eq] at h
  obtain ⟨⟨⟨⟨hb, hls⟩, ha⟩, h1⟩, -⟩ := h
  have hA := Aff.leFrom_sound ha n hn
  have h1' := Aff.leFrom_sound h1 n hn
  have e1 : (⟨r.hi.coef, r.hi.const - r.lo⟩ : Aff).eval n = r.hi.eval n - r.lo := by simp [Aff.eval]; omega
  have e2 : (⟨1, 1⟩ : Aff).eval n = (n : Int) + 1 := by simp [Aff.eval]
  rw [e1] at hA h1'
  rw [e2] at h1'
  have hbl : r.budget n ≤ n + 1 := by simp only [Row.budget]; omega
  by_cases hz : r.budget n = 0
  · exact ⟨by simp [run, hz], hbl, fun h => absurd hz h⟩
  · have hrun : run r n tol d fl = loop r tol d fl (r.budget n) 0 [] := by simp [run, hz]
    have g := loop_spec r hb hls tol d fl (r.budget n) 0 [] (by simp [pairs])
    rw [← hrun] at g
    have hba : (r.budget n : Int) ≤ r.alloc.eval n := by simp only [Row.budget] at hz ⊢; omega
    have hlen := g.len_le
    have hse := g.slice_eq
    have hw := g.writes_eq
    refine ⟨by simp [g.notRaised, hz] , hbl, fun _ => ⟨hba, ?_, ?_, ?_, ?_, ?_, by omega, g⟩⟩
    · intro x hx
      rw [hw, mem_pairs] at hx
      omega
    · omega
    · simp only [sliceLen]; rw [hse]; split <;> omega
    · intro j hj
      have : sliceLen (r.alloc.eval n) (run r n tol d fl).slice = (run r n tol d fl).slice.toNat := by
        simp only [sliceLen]; rw [hse]; split <;> omega
      rw [this] at hj
      rw [hw, mem_pairs]
      exact ⟨hj, rfl⟩
    · intro x hx
      rw [hw, mem_pairs] at hx
      omega

/-! ### (d) a row of the shared shape IS the hand skeleton `Loop.runLoop` -/

theorem shape_body {r : Row} {b : Bool} {t : Test} (h : r.shape = some (b, t)) :
    (b = false ∧ ∃ off, r.body = [.write off, .brk t 0]) ∨ (b = true ∧ ∃ dec off, r.body = [.brk .flag dec, .write off, .brk t 0]) := by
  unfold Row.shape at h
  split at h
  · rename_i off t' hb
    simp only [Option.some.injEq, Prod.mk.injEq] at h
    exact .inl ⟨h.1.symm, off, by rw [hb, h.2]⟩
  · rename_i dec off t' hb
    simp only [Option.some.injEq, Prod.mk.injEq] at h
    exact .inr ⟨h.1.symm, dec, off, by rw [hb, h.2]⟩
  · simp at h

theorem fires_flag (a b : Bool) : Test.fires .flag a b = b := rfl
theorem reason_flag (a : Bool) : Test.reason .flag a = .early := rfl

theorem enc_lt (r : Row) (t : Test) (tol : Rat) (d : Nat → Rat) (fl : Nat → Nat → Bool) (k : Nat) :
    r.enc t tol d fl k < tol ↔ t.fires (decide (d k < tol)) (fl k r.testPos) = true := by
  unfold Row.enc
  split <;> simp_all

/-- the skeleton only looks at whether `d k < tol` -/
theorem loopFrom_congr (d d' : Nat → Rat) (exit : Nat → Bool) (tol : Rat) (h : ∀ k, d k < tol ↔ d' k < tol) :
    ∀ f k, loopFrom d exit tol f k = loopFrom d' exit tol f k := by
  intro f
  induction f with
  | zero => intro k; simp [loopFrom]
  | succ f ih =>
    intro k
    simp only [loopFrom, ih, h k]

/-- the same length as the skeleton fed with the row's final test; the same stop reason when that test is on the recorded
value alone (`x < tol`, `x < tol and e`) -/
theorem loop_eq_skeleton (r : Row) (hls : r.lo + r.sliceOff = 1) (b : Bool) (t : Test) (hs : r.shape = some (b, t))
    (hb : bodyOk r.lo r.sliceOff r.body false = true) (tol : Rat) (d : Nat → Rat) (fl : Nat → Nat → Bool) :
    ∀ (f k : Nat) (w : List (Int × Nat)),
      (loop r tol d fl f k w).slice = ((loopFrom (r.enc t tol d fl) (r.exitOf fl) tol f k).1 : Int) ∧
      ((loop r tol d fl f k w).stop = .exhausted ↔ (loopFrom (r.enc t tol d fl) (r.exitOf fl) tol f k).2 = .exhausted) ∧
      (t = .tol ∨ t = .tolAnd → (loop r tol d fl f k w).stop = (loopFrom (r.enc t tol d fl) (r.exitOf fl) tol f k).2) := by
  intro f
  induction f with
  | zero =>
    intro k w
    simp only [loop, loopFrom]
    exact ⟨by omega, by simp, by simp⟩
  | succ f ih =>
    intro k w
    have hlt := enc_lt r t tol d fl k
    rcases shape_body hs with ⟨rfl, off, hbody⟩ | ⟨rfl, dec, off, hbody⟩
    · have hex : r.exitOf fl = fun _ => false := by simp [Row.exitOf, hs]
      have htp : r.testPos = 1 := by simp [Row.testPos, hbody]
      rw [htp] at hlt
      rw [loop, loopFrom, hbody, hex]
      simp only [body, Bool.false_eq_true, if_false]
      by_cases hf : t.fires (decide (d k < tol)) (fl k (0 + 1)) = true
      · have hf' : r.enc t tol d fl k < tol := hlt.mpr (by simpa using hf)
        simp only [hf, if_true, hf']
        refine ⟨by push_cast; omega, ?_, ?_⟩
        · cases t <;> simp [Test.reason]
          split <;> simp
        · rintro (rfl | rfl) <;> simp [Test.reason]
      · have hf' : ¬ r.enc t tol d fl k < tol := fun h => hf (by simpa using hlt.mp h)
        simp only [hf, Bool.false_eq_true, if_false, hf']
        have := ih (k + 1) (w ++ [(r.lo + (k : Int) + off, k)])
        rw [hex] at this
        exact this
    · have hex : r.exitOf fl = fun k => fl k 0 := by simp [Row.exitOf, hs]
      have htp : r.testPos = 2 := by simp [Row.testPos, hbody]
      rw [htp] at hlt
      have hdec : r.lo + r.sliceOff - (dec : Int) = 0 := by
        rw [hbody] at hb
        simp only [bodyOk, Bool.and_eq_true, decide_eq_true_eq] at hb
        simpa using hb.1.1
      rw [loop, loopFrom, hbody, hex]
      simp only [body, fires_flag, reason_flag]
      by_cases he : fl k 0 = true
      · simp only [he, if_true]
        exact ⟨by omega, by simp, by simp⟩
      · simp only [he, Bool.false_eq_true, if_false]
        by_cases hf : t.fires (decide (d k < tol)) (fl k (0 + 1 + 1)) = true
        · have hf' : r.enc t tol d fl k < tol := hlt.mpr (by simpa using hf)
          simp only [hf, if_true, hf']
          refine ⟨by push_cast; omega, ?_, ?_⟩
          · cases t <;> simp [Test.reason]
            split <;> simp
          · rintro (rfl | rfl) <;> simp [Test.reason]
        · have hf' : ¬ r.enc t tol d fl k < tol := fun h => hf (by simpa using hlt.mp h)
          simp only [hf, Bool.false_eq_true, if_false, hf']
          have := ih (k + 1) (w ++ [(r.lo + (k : Int) + off, k)])
          rw [hex] at this
          exact this

/-- (d) for the rows whose final test is `x < tol`: length and stop reason are those of `Loop.runLoop` with the row's budget,
fed with the very same difference stream -/
theorem run_eq_runLoop (r : Row) (h : r.ok = true) (b : Bool) (hs : r.shape = some (b, .tol)) (n : Nat) (hn : r.budget n ≠ 0)
    (tol : Rat) (d : Nat → Rat) (fl : Nat → Nat → Bool) :
    ((run r n tol d fl).slice.toNat, (run r n tol d fl).stop) = runLoop (r.budget n) tol d (r.exitOf fl) := by
  simp only [Row.ok, Bool.and_eq_true, decide_eq_true_eq] at h
  obtain ⟨⟨⟨⟨hb, hls⟩, -⟩, -⟩, -⟩ := h
  have hrun : run r n tol d fl = loop r tol d fl (r.budget n) 0 [] := by simp [run, hn]
  obtain ⟨h1, -, h3⟩ := loop_eq_skeleton r hls b .tol hs hb tol d fl (r.budget n) 0 []
  have hc : ∀ k, r.enc .tol tol d fl k < tol ↔ d k < tol := fun k => by
    rw [enc_lt]; simp [Test.fires]
  rw [loopFrom_congr _ d _ _ hc] at h1 h3
  rw [hrun, runLoop]
  ext
  · simp [h1]
  · simp [h3]

/-- … and for every shape-sharing row, whatever its final test: the length is that of the skeleton run on the test's outcomes -/
theorem run_len_eq_runLoop (r : Row) (h : r.ok = true) (b : Bool) (t : Test) (hs : r.shape = some (b, t)) (n : Nat) (hn : r.budget n ≠ 0)
    (tol : Rat) (d : Nat → Rat) (fl : Nat → Nat → Bool) :
    (run r n tol d fl).slice.toNat = (runLoop (r.budget n) tol (r.enc t tol d fl) (r.exitOf fl)).1 ∧
    ((run r n tol d fl).stop = .exhausted ↔ (runLoop (r.budget n) tol (r.enc t tol d fl) (r.exitOf fl)).2 = .exhausted) := by
  simp only [Row.ok, Bool.and_eq_true, decide_eq_true_eq] at h
  obtain ⟨⟨⟨⟨hb, hls⟩, -⟩, -⟩, -⟩ := h
  have hrun : run r n tol d fl = loop r tol d fl (r.budget n) 0 [] := by simp [run, hn]
  obtain ⟨h1, h2, -⟩ := loop_eq_skeleton r hls b t hs hb tol d fl (r.budget n) 0 []
  rw [hrun, runLoop]
  exact ⟨by simp [h1], h2⟩

/-- the budget code ("N+1" / "N" / "N-1") is read off the row -/
theorem budget_code (r : Row) (hc : r.hi.coef = 1) (n : Nat) : r.budget n = ((n : Int) + r.code).toNat := by
  simp [Row.budget, Row.code, Aff.eval, hc]; congr 1; omega

end PbVerif.Lemmas.LoopTbl
