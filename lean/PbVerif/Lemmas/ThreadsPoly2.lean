import PbVerif.Lemmas.ThreadsCore
/-! C04: the 2-D Vandermonde / pseudo-inverse cache under every interleaving of calls with the same (orders, max_cross). -/
set_option linter.unusedVariables false
namespace PbVerif.Lemmas
open PbVerif.Threads PbVerif.Threads.Poly2

def poly2Threads (a b : Nat) (cfg : List (Bool × Nat)) : List Thr := cfg.map fun c => thread a b c.1 c.2

/-! ## the invariant (same architecture as `PolyInv`): `G` on the shared state, `L` per thread -/
namespace Poly2Inv

/-- a helper whose two key fields both already hold the common parameters: its matrix is the one for `(a, b)` and a
non-stale pseudo-inverse was computed from that matrix -/
def Pub (a b : Nat) (H : Helper) : Prop :=
  H.po = a ∧ H.mc = b ∧ H.v = some (a, b) ∧ (H.stale = false → H.pinv = some (a, b))

/-- as soon as both key fields hold `(a, b)` the helper is published; nothing is required of a helper with an old key field -/
def OK (a b : Nat) (H : Helper) : Prop := H.po = a → H.mc = b → Pub a b H

structure Evo (a b : Nat) (H H' : Helper) : Prop where
  ok : OK a b H → OK a b H'
  pub : Pub a b H → Pub a b H'
  v : H.v = some (a, b) → H'.v = some (a, b)
  pinv : Pub a b H → H.pinv = some (a, b) → H'.pinv = some (a, b)
  st : Pub a b H ∨ H.stale = true → Pub a b H' ∨ H'.stale = true
  po : H.po = a → H'.po = a
  mc : H.mc = b → H'.mc = b

theorem Evo.refl (a b : Nat) (H : Helper) : Evo a b H H := ⟨id, id, id, fun _ h => h, id, id, id⟩

def At (s : Sh) (h : Nat) (p : Helper → Prop) : Prop := ∃ H, s.heap[h]? = some H ∧ p H

def RefPub (a b : Nat) (s : Sh) : Prop := ∃ r, s.ref = some r ∧ At s r (Pub a b)

structure Ext (a b : Nat) (s s' : Sh) : Prop where
  heap : ∀ (h : Nat) (H : Helper), s.heap[h]? = some H → ∃ H', s'.heap[h]? = some H' ∧ Evo a b H H'
  ref : s'.ref = s.ref ∨ RefPub a b s'

theorem Ext.refl (a b : Nat) (s : Sh) : Ext a b s s := ⟨fun h H hH => ⟨H, hH, Evo.refl a b H⟩, Or.inl rfl⟩

structure G (a b : Nat) (s : Sh) : Prop where
  ok : ∀ (h : Nat) (H : Helper), s.heap[h]? = some H → OK a b H
  ref : ∀ (r : Nat), s.ref = some r → ∃ H, s.heap[r]? = some H

def Bound (a b : Nat) (s : Sh) (h : Nat) : Prop := At s h (fun _ => True) ∧ (RefPub a b s ∨ s.ref = some h)

theorem At.mono {s : Sh} {h : Nat} {p q : Helper → Prop} (hpq : ∀ H, p H → q H) : At s h p → At s h q := by
  rintro ⟨H, h1, h2⟩; exact ⟨H, h1, hpq H h2⟩

theorem At.stable {a b : Nat} {s s' : Sh} {h : Nat} {p : Helper → Prop} (hE : Ext a b s s')
    (hp : ∀ H H', Evo a b H H' → p H → p H') : At s h p → At s' h p := by
  rintro ⟨H, h1, h2⟩
  obtain ⟨H', h3, h4⟩ := hE.heap h H h1
  exact ⟨H', h3, hp H H' h4 h2⟩

theorem At.pub {a b : Nat} {s s' : Sh} {h : Nat} (hE : Ext a b s s') : At s h (Pub a b) → At s' h (Pub a b) :=
  At.stable hE fun H H' e => e.pub

theorem At.valid {a b : Nat} {s s' : Sh} {h : Nat} (hE : Ext a b s s') :
    At s h (fun _ => True) → At s' h (fun _ => True) :=
  At.stable hE fun H H' e => id

theorem At.mcb {a b : Nat} {s s' : Sh} {h : Nat} (hE : Ext a b s s') :
    At s h (fun H => H.mc = b) → At s' h (fun H => H.mc = b) :=
  At.stable hE fun H H' e => e.mc

theorem At.stl {a b : Nat} {s s' : Sh} {h : Nat} (hE : Ext a b s s') :
    At s h (fun H => Pub a b H ∨ H.stale = true) → At s' h (fun H => Pub a b H ∨ H.stale = true) :=
  At.stable hE fun H H' e => e.st

theorem At.pinvk {a b : Nat} {s s' : Sh} {h : Nat} (hE : Ext a b s s') :
    At s h (fun H => Pub a b H ∧ H.pinv = some (a, b)) → At s' h (fun H => Pub a b H ∧ H.pinv = some (a, b)) :=
  At.stable hE fun H H' e hp => ⟨e.pub hp.1, e.pinv hp.1 hp.2⟩

theorem At.setk {a b : Nat} {s s' : Sh} {h : Nat} (hE : Ext a b s s') :
    At s h (fun H => H.v = some (a, b) ∧ (Pub a b H ∨ H.stale = true)) →
    At s' h (fun H => H.v = some (a, b) ∧ (Pub a b H ∨ H.stale = true)) :=
  At.stable hE fun H H' e hp => ⟨e.v hp.1, e.st hp.2⟩

theorem At.setm {a b : Nat} {s s' : Sh} {h : Nat} (hE : Ext a b s s') :
    At s h (fun H => H.v = some (a, b) ∧ (Pub a b H ∨ H.stale = true) ∧ H.po = a) →
    At s' h (fun H => H.v = some (a, b) ∧ (Pub a b H ∨ H.stale = true) ∧ H.po = a) :=
  At.stable hE fun H H' e hp => ⟨e.v hp.1, e.st hp.2.1, e.po hp.2.2⟩

theorem RefPub.stable {a b : Nat} {s s' : Sh} (hE : Ext a b s s') : RefPub a b s → RefPub a b s' := by
  rintro ⟨r, h1, h2⟩
  rcases hE.ref with h | h
  · exact ⟨r, h.trans h1, At.pub hE h2⟩
  · exact h

theorem Bound.stable {a b : Nat} {s s' : Sh} {h : Nat} (hE : Ext a b s s') : Bound a b s h → Bound a b s' h := by
  rintro ⟨h1, h2⟩
  refine ⟨At.valid hE h1, ?_⟩
  rcases h2 with h2 | h2
  · exact Or.inl (RefPub.stable hE h2)
  · rcases hE.ref with h | h
    · exact Or.inr (h.trans h2)
    · exact Or.inl h

theorem refne_stable {a b : Nat} {s s' : Sh} (hE : Ext a b s s') : s.ref ≠ none → s'.ref ≠ none := by
  intro h1
  rcases hE.ref with h | ⟨r, h, _⟩
  · rw [h]; exact h1
  · rw [h]; simp

def Got (a b : Nat) (t : Thr) : Prop := t.calcPinv = true → t.gotPinv = some (some (a, b))

/-- what a thread at a given program counter knows about the shared state -/
def Lpc (a b : Nat) (s : Sh) (t : Thr) : PC → Prop
  | .start => True
  | .publish => True
  | .bind => s.ref ≠ none
  | .rV0 h => Bound a b s h
  | .rMc h => Bound a b s h
  | .rPo h => Bound a b s h ∧ At s h (fun H => H.mc = b)
  | .wStale h => Bound a b s h
  | .wV h => Bound a b s h ∧ At s h (fun H => Pub a b H ∨ H.stale = true)
  | .setPo h => Bound a b s h ∧ At s h (fun H => H.v = some (a, b) ∧ (Pub a b H ∨ H.stale = true))
  | .setMc h => Bound a b s h ∧ At s h (fun H => H.v = some (a, b) ∧ (Pub a b H ∨ H.stale = true) ∧ H.po = a)
  | .pinvBind => RefPub a b s
  | .pStale h => RefPub a b s ∧ At s h (Pub a b)
  | .pNone h => RefPub a b s ∧ At s h (fun H => Pub a b H ∧ H.pinv = some (a, b))
  | .pReadV h => RefPub a b s ∧ At s h (Pub a b)
  | .pWrite h v => RefPub a b s ∧ At s h (Pub a b) ∧ v = some (a, b)
  | .pClear h => RefPub a b s ∧ At s h (fun H => Pub a b H ∧ H.pinv = some (a, b))
  | .pRet h => RefPub a b s ∧ At s h (fun H => Pub a b H ∧ H.pinv = some (a, b))
  | .useBind _ => RefPub a b s ∧ Got a b t
  | .useV h _ => RefPub a b s ∧ At s h (Pub a b) ∧ Got a b t
  | .done => Got a b t
  | .error => False

def L (a b : Nat) (s : Sh) (t : Thr) : Prop := t.a = a ∧ t.b = b ∧ t.usedOk = true ∧ Lpc a b s t t.pc

theorem Lpc.stable {a b : Nat} {s s' : Sh} (hE : Ext a b s s') (t : Thr) (pc : PC) :
    Lpc a b s t pc → Lpc a b s' t pc := by
  cases pc <;> simp only [Lpc]
  case start => exact id
  case publish => exact id
  case bind => exact refne_stable hE
  case rV0 h => exact Bound.stable hE
  case rMc h => exact Bound.stable hE
  case rPo h => exact fun ⟨x, y⟩ => ⟨Bound.stable hE x, At.mcb hE y⟩
  case wStale h => exact Bound.stable hE
  case wV h => exact fun ⟨x, y⟩ => ⟨Bound.stable hE x, At.stl hE y⟩
  case setPo h => exact fun ⟨x, y⟩ => ⟨Bound.stable hE x, At.setk hE y⟩
  case setMc h => exact fun ⟨x, y⟩ => ⟨Bound.stable hE x, At.setm hE y⟩
  case pinvBind => exact RefPub.stable hE
  case pStale h => exact fun ⟨x, y⟩ => ⟨RefPub.stable hE x, At.pub hE y⟩
  case pNone h => exact fun ⟨x, y⟩ => ⟨RefPub.stable hE x, At.pinvk hE y⟩
  case pReadV h => exact fun ⟨x, y⟩ => ⟨RefPub.stable hE x, At.pub hE y⟩
  case pWrite h v => exact fun ⟨x, y, z⟩ => ⟨RefPub.stable hE x, At.pub hE y, z⟩
  case pClear h => exact fun ⟨x, y⟩ => ⟨RefPub.stable hE x, At.pinvk hE y⟩
  case pRet h => exact fun ⟨x, y⟩ => ⟨RefPub.stable hE x, At.pinvk hE y⟩
  case useBind n => exact fun ⟨x, y⟩ => ⟨RefPub.stable hE x, y⟩
  case useV h n => exact fun ⟨x, y, z⟩ => ⟨RefPub.stable hE x, At.pub hE y, z⟩
  case done => exact id
  case error => exact id

theorem L.stable {a b : Nat} {s s' : Sh} (hE : Ext a b s s') (t : Thr) : L a b s t → L a b s' t :=
  fun ⟨x, y, z, w⟩ => ⟨x, y, z, Lpc.stable hE t t.pc w⟩

/-! ### writes to one helper -/

theorem getElem?_upd (s : Sh) (h : Nat) (f : Helper → Helper) (j : Nat) :
    (upd s h f).heap[j]? = if h = j then s.heap[j]?.map f else s.heap[j]? := by
  simp only [upd, List.getElem?_modify]
  by_cases hj : h = j
  · simp [hj]
  · simp [hj]

theorem Ext_upd {a b : Nat} (s : Sh) (h : Nat) (f : Helper → Helper)
    (hE : ∀ H, s.heap[h]? = some H → Evo a b H (f H)) : Ext a b s (upd s h f) := by
  refine ⟨fun j H hH => ?_, Or.inl rfl⟩
  rw [getElem?_upd]
  by_cases hj : h = j
  · subst hj
    exact ⟨f H, by simp [hH], hE H hH⟩
  · exact ⟨H, by simp [hj, hH], Evo.refl a b H⟩

theorem G_upd {a b : Nat} (s : Sh) (h : Nat) (f : Helper → Helper) (hG : G a b s)
    (hE : ∀ H, s.heap[h]? = some H → Evo a b H (f H)) : G a b (upd s h f) := by
  refine ⟨fun j H' hH' => ?_, fun r hr => ?_⟩
  · rw [getElem?_upd] at hH'
    by_cases hj : h = j
    · subst hj
      simp only [if_true] at hH'
      cases hH : s.heap[h]? with
      | none => simp [hH] at hH'
      | some H =>
        simp [hH] at hH'
        subst hH'
        exact (hE H hH).ok (hG.ok h H hH)
    · simp only [hj, if_false] at hH'
      exact hG.ok j H' hH'
  · obtain ⟨H, hH⟩ := hG.ref r hr
    obtain ⟨H', h1, _⟩ := (Ext_upd (a := a) (b := b) s h f hE).heap r H hH
    exact ⟨H', h1⟩

theorem At_upd_self (s : Sh) (h : Nat) (f : Helper → Helper) (p : Helper → Prop) :
    At s h (fun H => p (f H)) → At (upd s h f) h p := by
  rintro ⟨H, h1, h2⟩
  exact ⟨f H, by simp [getElem?_upd, h1], h2⟩

theorem At.get {s : Sh} {h : Nat} {p : Helper → Prop} {H : Helper} (hA : At s h p) (hH : s.heap[h]? = some H) : p H := by
  obtain ⟨H2, h2, hp⟩ := hA
  rw [hH] at h2
  cases h2
  exact hp

/-! ### the individual writes -/

theorem Pub_setV (a b : Nat) (H : Helper) (hp : Pub a b H) : Pub a b { H with v := some (a, b) } :=
  ⟨hp.1, hp.2.1, rfl, hp.2.2.2⟩

theorem Evo_setV (a b : Nat) (H : Helper) : Evo a b H { H with v := some (a, b) } where
  ok := fun hok hpo hmc => Pub_setV a b H (hok hpo hmc)
  pub := Pub_setV a b H
  v := fun _ => rfl
  pinv := fun _ h => h
  st := by
    rintro (hp | hs)
    · exact Or.inl (Pub_setV a b H hp)
    · exact Or.inr hs
  po := id
  mc := id

theorem Pub_setStale (a b : Nat) (H : Helper) (hp : Pub a b H) : Pub a b { H with stale := true } :=
  ⟨hp.1, hp.2.1, hp.2.2.1, fun h => by cases h⟩

theorem Evo_setStale (a b : Nat) (H : Helper) : Evo a b H { H with stale := true } where
  ok := fun hok hpo hmc => Pub_setStale a b H (hok hpo hmc)
  pub := Pub_setStale a b H
  v := fun h => h
  pinv := fun _ h => h
  st := fun _ => Or.inr rfl
  po := id
  mc := id

theorem Pub_of (a b : Nat) (H : Helper) (hpo : H.po = a) (hmc : H.mc = b) (hv : H.v = some (a, b))
    (hs : Pub a b H ∨ H.stale = true) : Pub a b H := by
  refine ⟨hpo, hmc, hv, fun hst => ?_⟩
  rcases hs with hp | hs
  · exact hp.2.2.2 hst
  · rw [hs] at hst; cases hst

theorem st_setPo (a b : Nat) (H : Helper) (hs : Pub a b H ∨ H.stale = true) :
    Pub a b { H with po := a } ∨ ({ H with po := a } : Helper).stale = true := by
  rcases hs with hp | hs
  · exact Or.inl ⟨rfl, hp.2.1, hp.2.2.1, hp.2.2.2⟩
  · exact Or.inr hs

theorem Evo_setPo (a b : Nat) (H : Helper) (hv : H.v = some (a, b)) (hs : Pub a b H ∨ H.stale = true) :
    Evo a b H { H with po := a } where
  ok := fun _ hpo hmc => Pub_of a b _ rfl hmc hv (st_setPo a b H hs)
  pub := fun hp => ⟨rfl, hp.2.1, hp.2.2.1, hp.2.2.2⟩
  v := fun h => h
  pinv := fun _ h => h
  st := fun _ => st_setPo a b H hs
  po := fun _ => rfl
  mc := id

theorem Pub_setMc (a b : Nat) (H : Helper) (hv : H.v = some (a, b)) (hs : Pub a b H ∨ H.stale = true) (hpo : H.po = a) :
    Pub a b { H with mc := b } := by
  refine ⟨hpo, rfl, hv, fun hst => ?_⟩
  rcases hs with hp | hs
  · exact hp.2.2.2 hst
  · simp only at hst; rw [hs] at hst; cases hst

theorem Evo_setMc (a b : Nat) (H : Helper) (hv : H.v = some (a, b)) (hs : Pub a b H ∨ H.stale = true) (hpo : H.po = a) :
    Evo a b H { H with mc := b } where
  ok := fun _ _ _ => Pub_setMc a b H hv hs hpo
  pub := fun _ => Pub_setMc a b H hv hs hpo
  v := fun h => h
  pinv := fun _ h => h
  st := fun _ => Or.inl (Pub_setMc a b H hv hs hpo)
  po := id
  mc := fun _ => rfl

theorem Pub_setPinv (a b : Nat) (H : Helper) (hp : Pub a b H) : Pub a b { H with pinv := some (a, b) } :=
  ⟨hp.1, hp.2.1, hp.2.2.1, fun _ => rfl⟩

theorem Evo_setPinv (a b : Nat) (H : Helper) : Evo a b H { H with pinv := some (a, b) } where
  ok := fun hok hpo hmc => Pub_setPinv a b H (hok hpo hmc)
  pub := Pub_setPinv a b H
  v := fun h => h
  pinv := fun _ _ => rfl
  st := by
    rintro (hp | hs)
    · exact Or.inl (Pub_setPinv a b H hp)
    · exact Or.inr hs
  po := id
  mc := id

theorem Pub_clear (a b : Nat) (H : Helper) (hp : Pub a b H) (hpi : H.pinv = some (a, b)) :
    Pub a b { H with stale := false } :=
  ⟨hp.1, hp.2.1, hp.2.2.1, fun _ => hpi⟩

theorem Evo_clear (a b : Nat) (H : Helper) (hp : Pub a b H) (hpi : H.pinv = some (a, b)) :
    Evo a b H { H with stale := false } where
  ok := fun _ _ _ => Pub_clear a b H hp hpi
  pub := fun _ => Pub_clear a b H hp hpi
  v := fun h => h
  pinv := fun _ h => h
  st := fun _ => Or.inl (Pub_clear a b H hp hpi)
  po := id
  mc := id

def Post (a b : Nat) (s : Sh) (r : Sh × Thr × Option Act) : Prop := Ext a b s r.1 ∧ G a b r.1 ∧ L a b r.1 r.2.1

theorem Post.same {a b : Nat} {s : Sh} {t' : Thr} (hG : G a b s) (hL : L a b s t') {x : Option Act} :
    Post a b s (s, t', x) := ⟨Ext.refl a b s, hG, hL⟩

theorem Post.upd {a b : Nat} {s : Sh} {t' : Thr} {h : Nat} {f : Helper → Helper} (hG : G a b s)
    (hE : ∀ H, s.heap[h]? = some H → Evo a b H (f H))
    (hL : Ext a b s (upd s h f) → L a b (upd s h f) t') {x : Option Act} :
    Post a b s (upd s h f, t', x) := ⟨Ext_upd s h f hE, G_upd s h f hG hE, hL (Ext_upd s h f hE)⟩

theorem L_after {a b : Nat} {s' : Sh} (t : Thr) (ha : t.a = a) (hb : t.b = b) (hok : t.usedOk = true) (hR : RefPub a b s') :
    L a b s' { t with pc := afterSetup t } := by
  refine ⟨ha, hb, hok, ?_⟩
  simp only [afterSetup]
  cases hc : t.calcPinv <;> simp [Lpc, hR, Got]

theorem Pub_new (a b : Nat) : Pub a b ⟨some (a, b), a, b, true, none⟩ := ⟨rfl, rfl, rfl, fun h => by cases h⟩

theorem publish_post {a b : Nat} (s : Sh) (hG : G a b s) :
    let s' : Sh := { ref := some s.heap.length, heap := s.heap ++ [⟨some (a, b), a, b, true, none⟩] }
    Ext a b s s' ∧ G a b s' ∧ RefPub a b s' := by
  intro s'
  have hnew : s'.heap[s.heap.length]? = some ⟨some (a, b), a, b, true, none⟩ := by
    simp [s']
  have hR : RefPub a b s' := ⟨s.heap.length, rfl, _, hnew, Pub_new a b⟩
  have hold : ∀ (j : Nat) (H : Helper), s.heap[j]? = some H → s'.heap[j]? = some H := by
    intro j H hH
    have hj : j < s.heap.length := (List.getElem?_eq_some_iff.1 hH).1
    simp only [s']
    rw [List.getElem?_append_left hj]; exact hH
  refine ⟨⟨fun j H hH => ⟨H, hold j H hH, Evo.refl a b H⟩, Or.inr hR⟩, ⟨fun j H hH => ?_, fun r hr => ?_⟩, hR⟩
  · rcases Nat.lt_or_ge j s.heap.length with hj | hj
    · simp only [s'] at hH
      rw [List.getElem?_append_left hj] at hH
      exact hG.ok j H hH
    · simp only [s'] at hH
      rw [List.getElem?_append_right hj] at hH
      have : H = ⟨some (a, b), a, b, true, none⟩ := by
        cases hjj : j - s.heap.length with
        | zero => rw [hjj] at hH; simpa using hH.symm
        | succ n => rw [hjj] at hH; simp at hH
      subst this
      exact fun _ _ => Pub_new a b
  · simp only [s'] at hr
    cases hr
    exact ⟨_, hnew⟩

theorem step_post {a b : Nat} (s : Sh) (t : Thr) (hG : G a b s) (hL : L a b s t) : Post a b s (step s t) := by
  obtain ⟨a', b', cp, u, pc, g, ok⟩ := t
  obtain ⟨ha, hb, hok, hpc⟩ := hL
  simp only at ha hb hok hpc
  subst ha hb hok
  cases pc <;> simp only [Lpc] at hpc <;> simp only [step]
  case start =>
    cases hr : s.ref <;> exact Post.same hG (by exact ⟨rfl, rfl, rfl, by simp [Lpc, hr]⟩)
  case publish =>
    obtain ⟨h1, h2, h3⟩ := publish_post (a := a') (b := b') s hG
    exact ⟨h1, h2, L_after ⟨a', b', cp, u, .publish, g, true⟩ rfl rfl rfl h3⟩
  case bind =>
    cases hr : s.ref with
    | none => exact absurd hr hpc
    | some h =>
      obtain ⟨H, hH⟩ := hG.ref h hr
      exact Post.same hG (by exact ⟨rfl, rfl, rfl, ⟨H, hH, trivial⟩, Or.inr hr⟩)
  case rV0 h =>
    obtain ⟨H, hH, -⟩ := hpc.1
    rw [hH]
    apply Post.same hG
    refine ⟨rfl, rfl, rfl, ?_⟩
    dsimp only
    split <;> exact hpc
  case rMc h =>
    obtain ⟨H, hH, -⟩ := hpc.1
    rw [hH]
    apply Post.same hG
    refine ⟨rfl, rfl, rfl, ?_⟩
    dsimp only
    split
    · exact hpc
    · rename_i hne
      exact ⟨hpc, H, hH, Decidable.of_not_not hne⟩
  case rPo h =>
    obtain ⟨hB, hM⟩ := hpc
    obtain ⟨H, hH, -⟩ := hB.1
    rw [hH]
    apply Post.same hG
    refine ⟨rfl, rfl, rfl, ?_⟩
    dsimp only
    split
    · exact hB
    · rename_i hne
      have hp : Pub a' b' H := hG.ok h H hH (Decidable.of_not_not hne) (hM.get hH)
      exact ⟨hB, H, hH, hp.2.2.1, Or.inl hp⟩
  case wStale h =>
    exact Post.upd hG (fun H _ => Evo_setStale a' b' H)
      (fun hE => by exact ⟨rfl, rfl, rfl, Bound.stable hE hpc, At_upd_self _ _ _ _ (hpc.1.mono fun _ _ => Or.inr rfl)⟩)
  case wV h =>
    exact Post.upd hG (fun H _ => Evo_setV a' b' H)
      (fun hE => by exact ⟨rfl, rfl, rfl, Bound.stable hE hpc.1,
        At_upd_self _ _ _ _ (hpc.2.mono fun H hs => ⟨rfl, (Evo_setV a' b' H).st hs⟩)⟩)
  case setPo h =>
    obtain ⟨hB, hA⟩ := hpc
    exact Post.upd hG (fun H hH => Evo_setPo a' b' H (hA.get hH).1 (hA.get hH).2)
      (fun hE => by exact ⟨rfl, rfl, rfl, Bound.stable hE hB,
        At_upd_self _ _ _ _ (hA.mono fun H hp => ⟨hp.1, st_setPo a' b' H hp.2, rfl⟩)⟩)
  case setMc h =>
    obtain ⟨hB, hA⟩ := hpc
    refine Post.upd hG (fun H hH => Evo_setMc a' b' H (hA.get hH).1 (hA.get hH).2.1 (hA.get hH).2.2) (fun hE => ?_)
    refine L_after ⟨a', b', cp, u, .setMc h, g, true⟩ rfl rfl rfl ?_
    rcases hB.2 with hR | hr
    · exact RefPub.stable hE hR
    · exact ⟨h, hr, At_upd_self _ _ _ _ (hA.mono fun H hp => Pub_setMc a' b' H hp.1 hp.2.1 hp.2.2)⟩
  case pinvBind =>
    obtain ⟨r, hr, hA⟩ := hpc
    rw [hr]
    exact Post.same hG (by exact ⟨rfl, rfl, rfl, ⟨r, hr, hA⟩, hA⟩)
  case pStale h =>
    obtain ⟨hR, H, hH, hp⟩ := hpc
    rw [hH]
    apply Post.same hG
    refine ⟨rfl, rfl, rfl, ?_⟩
    dsimp only
    split
    · exact ⟨hR, H, hH, hp⟩
    · rename_i hs
      exact ⟨hR, H, hH, hp, hp.2.2.2 (by simpa using hs)⟩
  case pNone h =>
    obtain ⟨hR, H, hH, hp, hpi⟩ := hpc
    rw [hH]
    apply Post.same hG
    refine ⟨rfl, rfl, rfl, ?_⟩
    dsimp only
    split
    · exact ⟨hR, H, hH, hp⟩
    · exact ⟨hR, H, hH, hp, hpi⟩
  case pReadV h =>
    obtain ⟨hR, H, hH, hp⟩ := hpc
    rw [hH]
    exact Post.same hG (by exact ⟨rfl, rfl, rfl, hR, ⟨H, hH, hp⟩, hp.2.2.1⟩)
  case pWrite h v =>
    obtain ⟨hR, hA, rfl⟩ := hpc
    exact Post.upd hG (fun H _ => Evo_setPinv a' b' H)
      (fun hE => by exact ⟨rfl, rfl, rfl, RefPub.stable hE hR,
        At_upd_self _ _ _ _ (hA.mono fun H hp => ⟨Pub_setPinv a' b' H hp, rfl⟩)⟩)
  case pClear h =>
    obtain ⟨hR, hA⟩ := hpc
    exact Post.upd hG (fun H hH => Evo_clear a' b' H (hA.get hH).1 (hA.get hH).2)
      (fun hE => by exact ⟨rfl, rfl, rfl, RefPub.stable hE hR, At.pinvk hE hA⟩)
  case pRet h =>
    obtain ⟨hR, H, hH, hp, hpi⟩ := hpc
    rw [hH]
    exact Post.same hG (by exact ⟨rfl, rfl, rfl, hR, fun _ => by rw [hpi]⟩)
  case useBind n =>
    obtain ⟨hR, hg⟩ := hpc
    cases n with
    | zero => exact Post.same hG (by exact ⟨rfl, rfl, rfl, hg⟩)
    | succ n =>
      obtain ⟨r, hr, hA⟩ := hR
      simp only [hr]
      exact Post.same hG (by exact ⟨rfl, rfl, rfl, ⟨r, hr, hA⟩, hA, hg⟩)
  case useV h n =>
    obtain ⟨hR, ⟨H, hH, hp⟩, hg⟩ := hpc
    rw [hH]
    exact Post.same hG (by exact ⟨rfl, rfl, by simp [hp.2.2.1], hR, hg⟩)
  case done => exact Post.same hG (by exact ⟨rfl, rfl, rfl, hpc⟩)

def Inv (a b : Nat) (s : Sh) (ts : List Thr) : Prop := G a b s ∧ ∀ t ∈ ts, L a b s t

theorem Inv_step (a b : Nat) (s : Sh) (ts : List Thr) (i : Nat) (t : Thr) (hI : Inv a b s ts) (hi : ts[i]? = some t) :
    Inv a b (proto.step s t).1 (ts.set i (proto.step s t).2.1) := by
  obtain ⟨hG, hL⟩ := hI
  obtain ⟨hE, hG', hL'⟩ := step_post s t hG (hL t (List.mem_of_getElem? hi))
  refine ⟨hG', fun u hu => ?_⟩
  rcases List.mem_or_eq_of_mem_set hu with hu | hu
  · exact L.stable hE u (hL u hu)
  · subst hu; exact hL'

theorem L.serial {a b : Nat} {s : Sh} {t : Thr} (hL : L a b s t) : t.serialOutcome := by
  obtain ⟨a', b', cp, u, pc, g, ok⟩ := t
  obtain ⟨ha, hb, hok, hpc⟩ := hL
  simp only at ha hb hok hpc
  subst ha hb hok
  refine ⟨?_, rfl, ?_⟩
  · intro h
    simp only at h
    subst h
    exact hpc
  · intro h
    simp only at h
    subst h
    exact hpc

theorem safe_of_init (a b : Nat) (s : Sh) (hG : G a b s) (cfg : List (Bool × Nat)) (sched : List Nat) :
    ∀ t ∈ (runSched proto s (cfg.map fun c => thread a b c.1 c.2) sched).2, t.serialOutcome := by
  have h0 : Inv a b s (cfg.map fun c => thread a b c.1 c.2) := by
    refine ⟨hG, fun t ht => ?_⟩
    obtain ⟨c, -, rfl⟩ := List.mem_map.1 ht
    exact ⟨rfl, rfl, rfl, trivial⟩
  have := runSched_inv proto (Inv a b) (Inv_step a b) s _ h0 sched
  exact fun t ht => (this.2 t ht).serial

theorem G_cold (a b : Nat) : G a b cold :=
  ⟨fun h H hH => by simp [cold] at hH, fun r hr => by simp [cold] at hr⟩

theorem G_warm (a0 b0 a b : Nat) (pinvDone : Bool) : G a b (warm a0 b0 pinvDone) := by
  refine ⟨fun h H hH => ?_, fun r hr => ?_⟩
  · cases h with
    | succ n => simp [warm] at hH
    | zero =>
      simp only [warm, List.getElem?_cons_zero, Option.some.injEq] at hH
      subst hH
      intro hpo hmc
      simp only at hpo hmc
      subst hpo hmc
      refine ⟨rfl, rfl, rfl, ?_⟩
      cases pinvDone <;> simp
  · simp only [warm, Option.some.injEq] at hr
    subst hr
    exact ⟨_, rfl⟩

end Poly2Inv

/-- first polynomial fit on the 2-D object (`_polynomial is None`): every interleaving gives every call its serial outcome -/
theorem poly2_cold_safe (a b : Nat) (cfg : List (Bool × Nat)) (sched : List Nat) :
    ∀ t ∈ (runSched proto cold (poly2Threads a b cfg) sched).2, t.serialOutcome :=
  Poly2Inv.safe_of_init a b cold (Poly2Inv.G_cold a b) cfg sched

/-- helper left by an earlier sequential call with any parameters (a0, b0): same, other orders, other max_cross, or both -/
theorem poly2_warm_safe (a0 b0 a b : Nat) (pinvDone : Bool) (cfg : List (Bool × Nat)) (sched : List Nat) :
    ∀ t ∈ (runSched proto (warm a0 b0 pinvDone) (poly2Threads a b cfg) sched).2, t.serialOutcome :=
  Poly2Inv.safe_of_init a b (warm a0 b0 pinvDone) (Poly2Inv.G_warm a0 b0 a b pinvDone) cfg sched

/-! ## termination: `p2rank` bounds the remaining own steps -/

def p2rank (t : Thr) : Nat :=
  match t.pc with
  | .start => 2*t.uses + 17
  | .publish => 2*t.uses + 9
  | .bind => 2*t.uses + 16
  | .rV0 _ => 2*t.uses + 15
  | .rMc _ => 2*t.uses + 14
  | .rPo _ => 2*t.uses + 13
  | .wStale _ => 2*t.uses + 12
  | .wV _ => 2*t.uses + 11
  | .setPo _ => 2*t.uses + 10
  | .setMc _ => 2*t.uses + 9
  | .pinvBind => 2*t.uses + 8
  | .pStale _ => 2*t.uses + 7
  | .pNone _ => 2*t.uses + 6
  | .pReadV _ => 2*t.uses + 5
  | .pWrite _ _ => 2*t.uses + 4
  | .pClear _ => 2*t.uses + 3
  | .pRet _ => 2*t.uses + 2
  | .useBind n => 2*n + 1
  | .useV _ n => 2*n + 2
  | .done => 0
  | .error => 0

theorem p2rank_step (s : Sh) (t : Thr) : p2rank (step s t).2.1 ≤ p2rank t - 1 ∧ (step s t).2.1.uses = t.uses := by
  obtain ⟨a, b, cp, u, pc, g, ok⟩ := t
  cases pc
  case useBind n =>
    cases n <;> simp only [step] <;> (try split) <;> simp [p2rank] <;> omega
  all_goals
    simp only [step, afterSetup]
    repeat' split
    all_goals simp [p2rank]
    all_goals omega

theorem p2rank_zero (t : Thr) (h : p2rank t = 0) : t.pc = .done ∨ t.pc = .error := by
  obtain ⟨a, b, cp, u, pc, g, ok⟩ := t
  cases pc <;> simp [p2rank] at h ⊢

theorem poly2_term_aux (i : Nat) (sched : List Nat) : ∀ (s : Sh) (ts : List Thr) (t : Thr), ts[i]? = some t →
    p2rank t ≤ sched.count i → ∃ t', (runSched proto s ts sched).2[i]? = some t' ∧ p2rank t' = 0 := by
  induction sched with
  | nil => intro s ts t h0 hc; exact ⟨t, by simpa [runSched] using h0, by simpa using hc⟩
  | cons j rest ih =>
    intro s ts t h0 hc
    unfold runSched
    by_cases hji : j = i
    · subst hji
      rw [h0]
      simp only [List.count_cons_self] at hc
      have hr := (p2rank_step s t).1
      refine ih _ _ (proto.step s t).2.1 ?_ ?_
      · have : j < ts.length := by
          rcases Nat.lt_or_ge j ts.length with h | h
          · exact h
          · simp [List.getElem?_eq_none h] at h0
        simp [List.getElem?_set_self this]
      · show p2rank (step s t).2.1 ≤ _
        omega
    · have hc' : p2rank t ≤ rest.count i := by
        rwa [List.count_cons_of_ne hji] at hc
      cases hj : ts[j]? with
      | none => exact ih s ts t h0 hc'
      | some u =>
        refine ih _ _ t ?_ hc'
        rw [List.getElem?_set_ne hji]; exact h0

/-- every call finishes within `20 + 2·uses` of its own steps -/
theorem poly2_terminates (s : Sh) (ts : List Thr) (sched : List Nat) (i : Nat) (t : Thr) (h0 : ts[i]? = some t) (hs : t.pc = .start)
    (hc : 20 + 2 * t.uses ≤ sched.count i) :
    ∃ t', (runSched proto s ts sched).2[i]? = some t' ∧ (t'.pc = .done ∨ t'.pc = .error) := by
  have hr : p2rank t ≤ sched.count i := by
    have : p2rank t = 2 * t.uses + 17 := by
      obtain ⟨a, b, cp, u, pc, g, ok⟩ := t
      simp only at hs; subst hs; rfl
    omega
  obtain ⟨t', h1, h2⟩ := poly2_term_aux i sched s ts t h0 hr
  exact ⟨t', h1, p2rank_zero t' h2⟩

end PbVerif.Lemmas
