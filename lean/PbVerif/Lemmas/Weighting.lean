import Mathlib.Algebra.Order.Field.Basic
import Mathlib.Algebra.Order.AbsoluteValue.Basic
import Mathlib.Tactic.Linarith
import Mathlib.Tactic.Positivity
import Mathlib.Tactic.Ring
import PbVerif.Model.Weighting
/-! Lemmas for C09: every reweighting rule maps into [0, 1] and never increases as the residual
increases, over an arbitrary linear ordered field with an arbitrary positive monotone `exp`, a `sqrt`
satisfying its defining properties and the field's `abs` — hence in particular for the real functions. -/
namespace PbVerif.Lemmas
open PbVerif.Weighting

variable {α : Type} [Field α] [LinearOrder α] [IsStrictOrderedRing α]

/-- the assumptions on the transcendental functions: what `exp`, `sqrt`, `|·|` of the reals satisfy -/
structure TranscOk (T : Transc α) : Prop where
  exp_pos : ∀ x, 0 < T.exp x
  exp_mono : ∀ x y, x ≤ y → T.exp x ≤ T.exp y
  exp_zero : T.exp 0 = 1
  sqrt_nonneg : ∀ x, 0 ≤ T.sqrt x
  sqrt_sq : ∀ x, 0 ≤ x → T.sqrt x * T.sqrt x = x
  abs_eq : ∀ x, T.abs x = |x|

/-! ### pure ordered-field helpers -/

/-- `u / (1 + |u|)` lies strictly between −1 and 1 -/
theorem softsign_range (u : α) : -1 < u / (1 + |u|) ∧ u / (1 + |u|) < 1 := by
  have hpos : 0 < 1 + |u| := by positivity
  rw [lt_div_iff₀ hpos, div_lt_iff₀ hpos]
  constructor
  · linarith [neg_abs_le u]
  · linarith [le_abs_self u]

/-- `u / (1 + |u|)` is monotone -/
theorem softsign_mono (u v : α) (h : u ≤ v) : u / (1 + |u|) ≤ v / (1 + |v|) := by
  have hu : 0 < 1 + |u| := by positivity
  have hv : 0 < 1 + |v| := by positivity
  rw [div_le_div_iff₀ hu hv]
  rcases le_total 0 u with h0u | h0u <;> rcases le_total 0 v with h0v | h0v
  · rw [abs_of_nonneg h0u, abs_of_nonneg h0v]; nlinarith
  · have hu0 : u = 0 := le_antisymm (h.trans h0v) h0u
    have hv0 : v = 0 := le_antisymm h0v (hu0 ▸ h)
    subst hu0; rw [hv0]
  · rw [abs_of_nonpos h0u, abs_of_nonneg h0v]
    nlinarith [mul_nonneg (neg_nonneg.mpr h0u) h0v]
  · rw [abs_of_nonpos h0u, abs_of_nonpos h0v]; nlinarith

/-- for non-negative `u ≤ v` and `a = √(1+u²)`, `b = √(1+v²)`: `u·b ≤ v·a` -/
theorem invsqrt_key_nonneg (u v a b : α) (hu : 0 ≤ u) (huv : u ≤ v) (ha : 0 ≤ a)
    (ha2 : a * a = 1 + u * u) (hb2 : b * b = 1 + v * v) : u * b ≤ v * a := by
  by_contra hlt
  have hlt := not_le.mp hlt
  have h1 := mul_self_lt_mul_self (mul_nonneg (hu.trans huv) ha) hlt
  have e1 : (v * a) * (v * a) = v * v * (a * a) := by ring
  have e2 : (u * b) * (u * b) = u * u * (b * b) := by ring
  rw [e1, e2, ha2, hb2] at h1
  have h2 := mul_self_le_mul_self hu huv
  nlinarith

/-- `u / √(1+u²)` is monotone (stated with the square roots abstracted) -/
theorem invsqrt_key (u v a b : α) (huv : u ≤ v) (ha : 0 < a) (hb : 0 < b)
    (ha2 : a * a = 1 + u * u) (hb2 : b * b = 1 + v * v) : u * b ≤ v * a := by
  rcases le_total 0 u with h0u | h0u
  · exact invsqrt_key_nonneg u v a b h0u huv ha.le ha2 hb2
  · rcases le_total 0 v with h0v | h0v
    · have h1 : u * b ≤ 0 := mul_nonpos_of_nonpos_of_nonneg h0u hb.le
      have h2 : 0 ≤ v * a := mul_nonneg h0v ha.le
      exact h1.trans h2
    · have := invsqrt_key_nonneg (-v) (-u) b a (neg_nonneg.mpr h0v) (neg_le_neg huv) hb.le
        (by rw [hb2]; ring) (by rw [ha2]; ring)
      linarith

/-- `|u| < a` when `a ≥ 0`, `a² = 1 + u²` -/
theorem invsqrt_bound (u a : α) (ha : 0 ≤ a) (ha2 : a * a = 1 + u * u) : -a < u ∧ u < a := by
  constructor
  · by_contra hc
    have hc := not_lt.mp hc
    have h1 : a ≤ -u := by linarith
    have h2 := mul_self_le_mul_self ha h1
    nlinarith
  · by_contra hc
    have hc := not_lt.mp hc
    have h2 := mul_self_le_mul_self ha hc
    nlinarith

omit [IsStrictOrderedRing α] in
/-- clipping to `[0, M]` is monotone -/
theorem clip_mono (M a b : α) (hM : 0 ≤ M) (h : a ≤ b) :
    (if a < 0 then 0 else if M < a then M else a) ≤ (if b < 0 then 0 else if M < b then M else b) := by
  by_cases ha : a < 0
  · rw [if_pos ha]
    by_cases hb : b < 0
    · rw [if_pos hb]
    · rw [if_neg hb]
      by_cases hb' : M < b
      · rw [if_pos hb']; exact hM
      · rw [if_neg hb']; exact not_lt.mp hb
  · have hb : ¬ b < 0 := fun hb => ha (lt_of_le_of_lt h hb)
    rw [if_neg ha, if_neg hb]
    by_cases ha' : M < a
    · have hb' : M < b := lt_of_lt_of_le ha' h
      rw [if_pos ha', if_pos hb']
    · rw [if_neg ha']
      by_cases hb' : M < b
      · rw [if_pos hb']; exact not_lt.mp ha'
      · rw [if_neg hb']; exact h

variable [T : Transc α] (hT : TranscOk T)
include hT
set_option linter.unusedSectionVars false

/-- logistic function: in (0, 1) and increasing -/
theorem expit_range (x : α) : 0 < expit x ∧ expit x < 1 := by
  have h := hT.exp_pos (-x)
  unfold expit
  have hd : 0 < 1 + Transc.exp (-x) := by linarith
  constructor
  · exact div_pos one_pos hd
  · rw [div_lt_one hd]; linarith
theorem expit_mono (x y : α) (h : x ≤ y) : expit x ≤ expit y := by
  unfold expit
  have h1 := hT.exp_mono (-y) (-x) (by linarith)
  have h2 := hT.exp_pos (-y)
  exact one_div_le_one_div_of_le (by linarith) (by linarith)

/-- asls: in [0, 1] for p ∈ [0, 1]; antitone in the residual exactly when p ≤ 1 − p -/
theorem asls_range (p r : α) (hp : 0 ≤ p ∧ p ≤ 1) : 0 ≤ aslsW p r ∧ aslsW p r ≤ 1 := by
  unfold aslsW
  split_ifs <;> constructor <;> linarith [hp.1, hp.2]
theorem asls_antitone (p r₁ r₂ : α) (hp : p ≤ 1 - p) (h : r₁ ≤ r₂) : aslsW p r₂ ≤ aslsW p r₁ := by
  unfold aslsW
  split_ifs with h2 h1 h1
  · exact le_refl _
  · exact hp
  · exact absurd (lt_of_lt_of_le h1 h) h2
  · exact le_refl _
/-- the hypothesis is necessary: for p > 1 − p the weight increases across r = 0 -/
theorem asls_not_antitone (p : α) (hp : 1 - p < p) : aslsW p (-1) < aslsW p 1 := by
  unfold aslsW
  have h1 : ¬ (0 : α) < -1 := by intro h; linarith
  rw [if_neg h1, if_pos one_pos]
  exact hp

theorem arpls_range (std mean r : α) : 0 ≤ arplsW std mean r ∧ arplsW std mean r ≤ 1 :=
  ⟨(expit_range hT _).1.le, (expit_range hT _).2.le⟩
theorem arpls_antitone (std mean r₁ r₂ : α) (hs : 0 < std) (h : r₁ ≤ r₂) :
    arplsW std mean r₂ ≤ arplsW std mean r₁ := by
  unfold arplsW
  apply expit_mono hT
  have hc : 0 ≤ 2 / std := by positivity
  have := mul_le_mul_of_nonneg_left h hc
  linarith

theorem aspls_range (k std r : α) : 0 ≤ asplsW k std r ∧ asplsW k std r ≤ 1 :=
  ⟨(expit_range hT _).1.le, (expit_range hT _).2.le⟩
theorem aspls_antitone (k std r₁ r₂ : α) (hk : 0 ≤ k) (hs : 0 < std) (h : r₁ ≤ r₂) :
    asplsW k std r₂ ≤ asplsW k std r₁ := by
  unfold asplsW
  apply expit_mono hT
  have hc : 0 ≤ k / std := div_nonneg hk hs.le
  have := mul_le_mul_of_nonneg_left h hc
  linarith

/-- drpls / lsrpls: `½(1 − u/(1+|u|))` -/
theorem drpls_range (K std mean r : α) : 0 ≤ drplsW K std mean r ∧ drplsW K std mean r ≤ 1 := by
  simp only [drplsW, hT.abs_eq]
  obtain ⟨h1, h2⟩ := softsign_range (K / std * (r - (2 * std - mean)))
  constructor <;> linarith
theorem drpls_antitone (K std mean r₁ r₂ : α) (hK : 0 ≤ K) (hs : 0 < std) (h : r₁ ≤ r₂) :
    drplsW K std mean r₂ ≤ drplsW K std mean r₁ := by
  simp only [drplsW, hT.abs_eq]
  have hc : 0 ≤ K / std := div_nonneg hK hs.le
  have hi : K / std * (r₁ - (2 * std - mean)) ≤ K / std * (r₂ - (2 * std - mean)) :=
    mul_le_mul_of_nonneg_left (by linarith) hc
  have := softsign_mono _ _ hi
  linarith

/-- iarpls: `½(1 − u/√(1+u²))` -/
theorem iarpls_sqrt (u : α) :
    0 < Transc.sqrt (1 + u * u) ∧ Transc.sqrt (1 + u * u) * Transc.sqrt (1 + u * u) = 1 + u * u := by
  have h0 : (0 : α) < 1 + u * u := by nlinarith [mul_self_nonneg u]
  have h1 := hT.sqrt_nonneg (1 + u * u)
  have h2 := hT.sqrt_sq (1 + u * u) h0.le
  refine ⟨?_, h2⟩
  rcases eq_or_lt_of_le h1 with he | hl
  · rw [← he] at h2; simp at h2; linarith
  · exact hl
theorem iarpls_range (K std r : α) : 0 ≤ iarplsW K std r ∧ iarplsW K std r ≤ 1 := by
  simp only [iarplsW]
  obtain ⟨hpos, hsq⟩ := iarpls_sqrt hT (K / std * (r - 2 * std))
  obtain ⟨h1, h2⟩ := invsqrt_bound _ _ hpos.le hsq
  have h3 : -1 < K / std * (r - 2 * std) / Transc.sqrt (1 + K / std * (r - 2 * std) * (K / std * (r - 2 * std))) := by
    rw [lt_div_iff₀ hpos]; linarith
  have h4 : K / std * (r - 2 * std) / Transc.sqrt (1 + K / std * (r - 2 * std) * (K / std * (r - 2 * std))) < 1 := by
    rw [div_lt_iff₀ hpos]; linarith
  constructor <;> linarith
theorem iarpls_antitone (K std r₁ r₂ : α) (hK : 0 ≤ K) (hs : 0 < std) (h : r₁ ≤ r₂) :
    iarplsW K std r₂ ≤ iarplsW K std r₁ := by
  simp only [iarplsW]
  have hc : 0 ≤ K / std := div_nonneg hK hs.le
  have hi : K / std * (r₁ - 2 * std) ≤ K / std * (r₂ - 2 * std) :=
    mul_le_mul_of_nonneg_left (by linarith) hc
  obtain ⟨ha, ha2⟩ := iarpls_sqrt hT (K / std * (r₁ - 2 * std))
  obtain ⟨hb, hb2⟩ := iarpls_sqrt hT (K / std * (r₂ - 2 * std))
  have key := invsqrt_key _ _ _ _ hi ha hb ha2 hb2
  have := (div_le_div_iff₀ ha hb).mpr key
  linarith

/-- psalsa / derpsalsa -/
theorem psalsa_range (p k r : α) (hp : 0 ≤ p ∧ p ≤ 1) (hk : 0 < k) :
    0 ≤ psalsaW p k r ∧ psalsaW p k r ≤ 1 := by
  unfold psalsaW
  split_ifs with hr
  · have he : Transc.exp (-(r / k)) ≤ 1 := by
      exact (hT.exp_mono _ 0 (neg_nonpos.mpr (div_nonneg hr.le hk.le))).trans_eq hT.exp_zero
    have hpos := hT.exp_pos (-(r / k))
    have := mul_le_mul_of_nonneg_left he hp.1
    exact ⟨mul_nonneg hp.1 hpos.le, by linarith [hp.2]⟩
  · constructor <;> linarith [hp.1, hp.2]
theorem psalsa_antitone (p k r₁ r₂ : α) (hp : 0 ≤ p ∧ p ≤ 1 - p) (hk : 0 < k) (h : r₁ ≤ r₂) :
    psalsaW p k r₂ ≤ psalsaW p k r₁ := by
  unfold psalsaW
  by_cases h2 : 0 < r₂
  · rw [if_pos h2]
    by_cases h1 : 0 < r₁
    · rw [if_pos h1]
      apply mul_le_mul_of_nonneg_left _ hp.1
      apply hT.exp_mono
      have := div_le_div_of_nonneg_right h hk.le
      linarith
    · rw [if_neg h1]
      have he : Transc.exp (-(r₂ / k)) ≤ 1 := by
        exact (hT.exp_mono _ 0 (neg_nonpos.mpr (div_nonneg h2.le hk.le))).trans_eq hT.exp_zero
      have := mul_le_mul_of_nonneg_left he hp.1
      linarith [hp.2]
  · have h1 : ¬ 0 < r₁ := fun h1 => h2 (lt_of_lt_of_le h1 h)
    rw [if_neg h2, if_neg h1]
set_option linter.unusedVariables false in
theorem derpsalsa_range (p k pw r : α) (hp : 0 ≤ p ∧ p ≤ 1) (hk : 0 < k) (hpw : 0 ≤ pw ∧ pw ≤ 1) :
    0 ≤ derpsalsaW p k pw r ∧ derpsalsaW p k pw r ≤ 1 := by
  unfold derpsalsaW
  have hb : 0 ≤ (if 0 < r then p * Transc.exp (-((1 / 2) * ((r / k) * (r / k)))) else 1 - p) ∧
      (if 0 < r then p * Transc.exp (-((1 / 2) * ((r / k) * (r / k)))) else 1 - p) ≤ 1 := by
    split_ifs with hr
    · have he : Transc.exp (-((1 / 2) * ((r / k) * (r / k)))) ≤ 1 := by
        have := mul_self_nonneg (r / k)
        exact (hT.exp_mono _ 0 (by linarith)).trans_eq hT.exp_zero
      have hpos := hT.exp_pos (-((1 / 2) * ((r / k) * (r / k))))
      have := mul_le_mul_of_nonneg_left he hp.1
      exact ⟨mul_nonneg hp.1 hpos.le, by linarith [hp.2]⟩
    · constructor <;> linarith [hp.1, hp.2]
  obtain ⟨hb1, hb2⟩ := hb
  refine ⟨mul_nonneg hb1 hpw.1, ?_⟩
  have := mul_le_mul hb2 hpw.2 hpw.1 zero_le_one
  linarith
theorem derpsalsa_antitone (p k pw r₁ r₂ : α) (hp : 0 ≤ p ∧ p ≤ 1 - p) (hk : 0 < k) (hpw : 0 ≤ pw) (h : r₁ ≤ r₂) :
    derpsalsaW p k pw r₂ ≤ derpsalsaW p k pw r₁ := by
  unfold derpsalsaW
  apply mul_le_mul_of_nonneg_right _ hpw
  by_cases h2 : 0 < r₂
  · rw [if_pos h2]
    by_cases h1 : 0 < r₁
    · rw [if_pos h1]
      apply mul_le_mul_of_nonneg_left _ hp.1
      apply hT.exp_mono
      have hd := div_le_div_of_nonneg_right h hk.le
      have hd0 : 0 ≤ r₁ / k := div_nonneg h1.le hk.le
      have := mul_self_le_mul_self hd0 hd
      linarith
    · rw [if_neg h1]
      have he : Transc.exp (-((1 / 2) * ((r₂ / k) * (r₂ / k)))) ≤ 1 := by
        have := mul_self_nonneg (r₂ / k)
        exact (hT.exp_mono _ 0 (by linarith)).trans_eq hT.exp_zero
      have := mul_le_mul_of_nonneg_left he hp.1
      linarith [hp.2]
  · have h1 : ¬ 0 < r₁ := fun h1 => h2 (lt_of_lt_of_le h1 h)
    rw [if_neg h2, if_neg h1]

/-- airpls before normalisation: ≥ 0, zero for non-negative residuals, antitone (t ≥ 0, S < 0, M ≥ 0);
after dividing by the maximum over the negative residuals it lies in [0, 1] -/
theorem airpls_nonneg (t S M r : α) : 0 ≤ airplsRaw t S M r := by
  by_cases hr : r < 0
  · simp only [airplsRaw, if_pos hr]
    exact (hT.exp_pos _).le
  · simp only [airplsRaw, if_neg hr]
    exact le_refl _
theorem airpls_antitone (t S M r₁ r₂ : α) (ht : 0 ≤ t) (hS : S < 0) (hM : 0 ≤ M) (h : r₁ ≤ r₂) :
    airplsRaw t S M r₂ ≤ airplsRaw t S M r₁ := by
  by_cases h2 : r₂ < 0
  · have h1 : r₁ < 0 := lt_of_le_of_lt h h2
    simp only [airplsRaw, if_pos h2, if_pos h1]
    apply hT.exp_mono
    apply clip_mono M _ _ hM
    exact mul_le_mul_of_nonpos_left h (div_nonpos_of_nonneg_of_nonpos ht hS.le)
  · have : airplsRaw t S M r₂ = 0 := by simp only [airplsRaw, if_neg h2]
    rw [this]
    exact airpls_nonneg hT t S M r₁
theorem airpls_normalised_le_one (t S M r mx : α) (hmx : 0 < mx) (hle : airplsRaw t S M r ≤ mx) :
    0 ≤ airplsRaw t S M r / mx ∧ airplsRaw t S M r / mx ≤ 1 :=
  ⟨div_nonneg (airpls_nonneg hT t S M r) hmx.le, (div_le_one hmx).mpr hle⟩

/-- quantile weight (documented as `ρ(r)/√(r²+eps)`): positive, bounded by `max(q, 1−q)/√eps`; it is NOT confined to [0, 1] -/
theorem quantile_sqrt_pos (eps r : α) (he : 0 < eps) : 0 < Transc.sqrt (r * r + eps) := by
  have h0 : (0 : α) < r * r + eps := by nlinarith [mul_self_nonneg r]
  have h1 := hT.sqrt_nonneg (r * r + eps)
  have h2 := hT.sqrt_sq (r * r + eps) h0.le
  rcases eq_or_lt_of_le h1 with he' | hl
  · rw [← he'] at h2; simp at h2; linarith
  · exact hl
theorem quantile_pos (q eps r : α) (hq : 0 < q ∧ q < 1) (he : 0 < eps) : 0 < quantileW q eps r := by
  unfold quantileW
  apply div_pos _ (quantile_sqrt_pos hT eps r he)
  split_ifs <;> linarith [hq.1, hq.2]
theorem quantile_bound (q eps r : α) (hq : 0 < q ∧ q < 1) (he : 0 < eps) :
    quantileW q eps r * Transc.sqrt eps ≤ max q (1 - q) := by
  unfold quantileW
  have hs := quantile_sqrt_pos hT eps r he
  have h0 : (0 : α) < r * r + eps := by nlinarith [mul_self_nonneg r]
  have hs2 := hT.sqrt_sq (r * r + eps) h0.le
  have hse := hT.sqrt_nonneg eps
  have hse2 := hT.sqrt_sq eps he.le
  have hle : Transc.sqrt eps ≤ Transc.sqrt (r * r + eps) := by
    by_contra hc
    have hc := not_le.mp hc
    have := mul_self_lt_mul_self hs.le hc
    nlinarith [mul_self_nonneg r]
  have hn : (if 0 < r then q else 1 - q) ≤ max q (1 - q) := by
    split_ifs
    · exact le_max_left _ _
    · exact le_max_right _ _
  have hmax : 0 ≤ max q (1 - q) := le_trans hq.1.le (le_max_left _ _)
  rw [div_mul_eq_mul_div, div_le_iff₀ hs]
  exact mul_le_mul hn hle hse hmax

/-- brpls for ANY value e ∈ [−1, 1] supplied for erf(u): in (0, 1] when the multiplier m ≥ 0 -/
theorem brpls_range (m u e : α) (hm : 0 ≤ m) (he : -1 ≤ e ∧ e ≤ 1) :
    0 < brplsW m u e ∧ brplsW m u e ≤ 1 := by
  unfold brplsW
  have hx := hT.exp_pos (u * u)
  have h1 : 0 ≤ m * (1 + e) * Transc.exp (u * u) :=
    mul_nonneg (mul_nonneg hm (by linarith [he.1])) hx.le
  have hd : 0 < 1 + m * (1 + e) * Transc.exp (u * u) := by linarith
  exact ⟨div_pos one_pos hd, (div_le_one hd).mpr (by linarith)⟩

end PbVerif.Lemmas
