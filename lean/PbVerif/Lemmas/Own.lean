import PbVerif.Model.Own
/-! Lemmas for C13 (proofs). -/
namespace PbVerif.Lemmas
open PbVerif.Own

private theorem find_map_bump_ne (ver : List (Buf × Nat)) (b c : Buf) (h : b ≠ c) :
    ((ver.map fun p => if p.1 == b then (p.1, p.2 + 1) else p).find? (·.1 == c)).map (·.2)
      = (ver.find? (·.1 == c)).map (·.2) := by
  induction ver with
  | nil => rfl
  | cons p rest ih =>
    simp only [List.map_cons, List.find?_cons]
    by_cases hb : p.1 = b
    · have hc : (p.1 == c) = false := by
        simp only [beq_eq_false_iff_ne, ne_eq]; intro hc; exact h (hb ▸ hc)
      simp only [hb, beq_self_eq_true, if_true]
      rw [hb] at hc
      simp only [hc]
      exact ih
    · have hb' : (p.1 == b) = false := by simpa using hb
      simp only [hb']
      cases hc : (p.1 == c)
      · simpa [hc] using ih
      · simp [hc]

private theorem find_bump_ne (ver : List (Buf × Nat)) (b c : Buf) (h : b ≠ c) :
    ((bump ver b).find? (·.1 == c)).map (·.2) = (ver.find? (·.1 == c)).map (·.2) := by
  unfold bump
  split
  · exact find_map_bump_ne ver b c h
  · have hc : (b == c) = false := by simpa using h
    simp [hc]

private theorem step_version (s : St) (op : Op) (k : Nat)
    (h : (match op with
     | .write t => if s.raised then true else
         (match lookup s t with | some (.fresh _) => true | some (.user _) => false | none => true)
     | _ => true) = true) :
    versionOf (step s op) (.user k) = versionOf s (.user k) := by
  cases op with
  | view src dst =>
    simp only [step]
    split
    · rfl
    · split <;> rfl
  | newBuf dst =>
    simp only [step]
    split <;> rfl
  | raise => rfl
  | write t =>
    simp only [step]
    simp only at h
    cases hr : s.raised
    · simp only [hr, Bool.false_eq_true, if_false] at h ⊢
      cases hl : lookup s t with
      | none => rfl
      | some b =>
        cases b with
        | user j => simp [hl] at h
        | fresh j =>
          simp only [versionOf]
          rw [find_bump_ne _ _ _ (by simp)]
    · simp

/-- **soundness of the discipline**: if at the moment of every in-place write the target is bound to a
buffer created during the call, no buffer of the caller is ever written — whether the call returns or
raises in the middle -/
theorem own_sound (s : St) (prog : List Op) (h : writesFresh s prog = true) (k : Nat) :
    versionOf (run s prog) (.user k) = versionOf s (.user k) := by
  induction prog generalizing s with
  | nil => rfl
  | cons op rest ih =>
    simp only [writesFresh, Bool.and_eq_true] at h
    have h1 := ih (step s op) h.2
    simp only [run, List.foldl_cons] at h1 ⊢
    rw [h1]
    exact step_version s op k h.1

/-- exactly when the numerical core receives the caller's own buffer -/
theorem aliasesUser_iff (c : InCfg) (copyInput : Bool) :
    aliasesUser c copyInput = true ↔
      (c.isNdarray = true ∧ c.dtypeOk = true ∧ (c.needsRavel = true → c.ravelIsView = true) ∧ copyInput = false ∧ c.sorted = false) := by
  cases c; rename_i a b c d e
  cases a <;> cases b <;> cases c <;> cases d <;> cases e <;> cases copyInput <;> decide

/-- with unsorted x, or with `copy_input=True`, nothing the core receives aliases the caller's array -/
theorem sorted_or_copy_fresh (c : InCfg) (copyInput : Bool) (h : c.sorted = true ∨ copyInput = true) :
    aliasesUser c copyInput = false := by
  cases c; rename_i a b c d e
  revert h
  cases a <;> cases b <;> cases c <;> cases d <;> cases e <;> cases copyInput <;> decide

/-- a write to the array handed to the core is safe under the discipline iff that array does not alias
the caller's: the program `arrayPath ++ [write 1]` satisfies `writesFresh` exactly in that case -/
theorem write_after_path (c : InCfg) (copyInput : Bool) :
    writesFresh (initSt 1) (arrayPath c copyInput ++ [.write 1]) = !aliasesUser c copyInput := by
  cases c; rename_i a b c d e
  cases a <;> cases b <;> cases c <;> cases d <;> cases e <;> cases copyInput <;> decide

end PbVerif.Lemmas
