import PbVerif.Model.Backend
import PbVerif.Lemmas.Whittaker
/-! Lemmas for C10. -/
set_option linter.unusedVariables false
namespace PbVerif.Lemmas
open PbVerif.Banded PbVerif.Whittaker PbVerif.Backend

theorem setup_usingPentapy (n : Nat) (hasPentapy : Bool) (solver d : Nat) (al : Bool) (rev : Option Bool) :
    (setup n hasPentapy solver d al rev).usingPentapy = (decide (solver < 3) && hasPentapy && decide (d = 2)) := by
  by_cases h : d = 2 <;> simp [setup, fresh, reset, initSys, cfgOf, usingPentapyOf, allowPentapy, h]

theorem setup_lower (n : Nat) (hasPentapy : Bool) (solver d : Nat) (al : Bool) (rev : Option Bool) :
    (setup n hasPentapy solver d al rev).lower =
      (al && decide (solver < 4) && !(decide (solver < 3) && hasPentapy && decide (d = 2))) := by
  by_cases h : d = 2 <;> simp [setup, fresh, reset, initSys, cfgOf, usingPentapyOf, lowerOf, allowPentapy, allowLower, h]

theorem setup_reversed (n : Nat) (hasPentapy : Bool) (solver d : Nat) (al : Bool) (rev : Option Bool) :
    (setup n hasPentapy solver d al rev).reversed =
      (match rev with | some b => b | none => (decide (solver < 3) && hasPentapy && decide (d = 2))) := by
  by_cases h : d = 2 <;> rcases rev with _ | (_ | _) <;>
  simp [setup, fresh, reset, initSys, cfgOf, usingPentapyOf, reversedOf, allowPentapy, h]

theorem setup_diffOrder (n : Nat) (hasPentapy : Bool) (solver d : Nat) (al : Bool) (rev : Option Bool) :
    (setup n hasPentapy solver d al rev).diffOrder = d := by
  simp [setup, fresh, reset, initSys, cfgOf]

/-- which solver a freshly set-up system is routed to -/
theorem route_pentapy_iff (n : Nat) (hasPentapy : Bool) (solver d : Nat) (al : Bool) (rev : Option Bool) (v : Nat) :
    route (setup n hasPentapy solver d al rev) solver = .pentapy v ↔ (hasPentapy = true ∧ solver < 3 ∧ d = 2 ∧ v = pentapyVariant solver) := by
  unfold route
  rw [setup_usingPentapy, setup_lower]
  by_cases h1 : solver < 3 <;> by_cases h2 : d = 2 <;> cases hasPentapy <;> cases al <;>
    simp [h1, h2] <;> first | (split <;> simp) | (constructor <;> intro h <;> exact h.symm)
theorem route_solveh_iff (n : Nat) (hasPentapy : Bool) (solver d : Nat) (al : Bool) (rev : Option Bool) :
    route (setup n hasPentapy solver d al rev) solver = .solveh ↔ (al = true ∧ solver < 4 ∧ ¬ (hasPentapy = true ∧ solver < 3 ∧ d = 2)) := by
  unfold route
  rw [setup_usingPentapy, setup_lower]
  by_cases h1 : solver < 3 <;> by_cases h2 : d = 2 <;> by_cases h3 : solver < 4 <;> cases hasPentapy <;> cases al <;>
    simp [h1, h2, h3]
/-- the layout flags of a freshly set-up system -/
theorem setup_flags (n : Nat) (hasPentapy : Bool) (solver d : Nat) (al : Bool) (rev : Option Bool) :
    let s := setup n hasPentapy solver d al rev
    s.usingPentapy = (decide (solver < 3) && hasPentapy && decide (d = 2)) ∧
    s.lower = (al && decide (solver < 4) && !s.usingPentapy) ∧
    s.reversed = (match rev with | some b => b | none => s.usingPentapy) ∧ s.diffOrder = d := by
  intro s
  refine ⟨setup_usingPentapy .., ?_, ?_, setup_diffOrder ..⟩
  · show (setup n hasPentapy solver d al rev).lower = _
    rw [setup_lower]; show _ = (_ && _ && !(setup n hasPentapy solver d al rev).usingPentapy); rw [setup_usingPentapy]
  · show (setup n hasPentapy solver d al rev).reversed = _
    rw [setup_reversed]; show _ = (match rev with | some b => b | none => (setup n hasPentapy solver d al rev).usingPentapy); rw [setup_usingPentapy]


theorem denRowwise_eq (ab : List (List Rat)) (u i j : Nat) :
    denRowwise ab u i j = if j ≤ i + u ∧ u + i - j < ab.length then ent ab (u + i - j) i else 0 := rfl

/-- pentapy's row-wise storage is LAPACK's storage of the transpose with the rows reversed -/
theorem denRowwise_reverse (ab : List (List Rat)) (u i j : Nat) (h : ab.length = 2 * u + 1) :
    denRowwise ab.reverse u i j = denFull ab u j i := by
  rw [denRowwise_eq, denFull_eq, List.length_reverse, h]
  by_cases hb : j ≤ i + u ∧ i ≤ j + u
  · rw [if_pos ⟨hb.1, by omega⟩, if_pos ⟨hb.2, by omega⟩, ent_reverse _ _ _ _ h, if_pos (by omega)]
    congr 1; omega
  · rw [if_neg (by omega), if_neg (by omega)]

theorem docStd_symm (n d : Nat) (lam : Rat) (w : List Rat) (i j : Nat) : docStd n d lam w j i = docStd n d lam w i j := by
  unfold docStd delta
  rw [dtdQ_symm n d j i]
  by_cases h : i = j
  · subst h; rfl
  · rw [if_neg h, if_neg (by omega)]

theorem docIasls_symm (n d : Nat) (lam lam1 : Rat) (w : List Rat) (i j : Nat) :
    docIasls n d lam lam1 w j i = docIasls n d lam lam1 w i j := by
  unfold docIasls delta
  rw [dtdQ_symm n d j i, dtdQ_symm n 1 j i]
  by_cases h : i = j
  · subst h; rfl
  · rw [if_neg h, if_neg (by omega)]

theorem std_asm_den_pentapy (n d : Nat) (lam : Rat) (w : List Rat) (hw : w.length = n) (i j : Nat) (hi : i < n) (hj : j < n) :
    denRowwise (asmStd n d lam w false true) d i j = docStd n d lam w i j := by
  have e : asmStd n d lam w false true = (asmStd n d lam w false false).reverse := by
    rw [← std_asm_reversed, List.reverse_reverse]
  have hl : (asmStd n d lam w false false).length = 2 * d + 1 :=
    (shape_addRow _ d w _ _ (shape_scale lam _ _ _ (shape_bandsQ_full n d)) hw).1
  rw [e, denRowwise_reverse _ _ _ _ hl, std_asm_den_full n d lam w hw j i hj hi, docStd_symm]

theorem reverse_addB (a b : List (List Rat)) (h : a.length = b.length) : (addB a b).reverse = addB a.reverse b.reverse := by
  unfold addB
  rw [List.reverse_zipWith h]

theorem iasls_asm_reversed (n d : Nat) (lam lam1 : Rat) (w : List Rat) (hd : 1 ≤ d) :
    (asmIasls n d lam lam1 w false true).reverse = asmIasls n d lam lam1 w false false := by
  show (addRow (addB (scale lam (bandsQ n d false)).reverse (scale lam1 (padFull (bandsQ n 1 false) (d - 1) n)).reverse) d
      (w.map fun v => v * v)).reverse
    = addRow (addB (scale lam (bandsQ n d false)) (scale lam1 (padFull (bandsQ n 1 false) (d - 1) n))) d (w.map fun v => v * v)
  have hs1 := shape_scale lam _ _ _ (shape_bandsQ_full n d)
  have hs2 := shape_scale lam1 _ _ _ (shape_padFull_D1 n d hd)
  have hl := (shape_addB _ _ _ _ hs1 hs2).1
  rw [← reverse_addB _ _ (by rw [hs1.1, hs2.1])]
  unfold addRow
  rw [reverse_modify_reverse _ _ _ (by omega), hl]
  congr 1; omega

theorem iasls_asm_den_pentapy (n d : Nat) (lam lam1 : Rat) (w : List Rat) (hw : w.length = n) (hd : 1 ≤ d)
    (i j : Nat) (hi : i < n) (hj : j < n) :
    denRowwise (asmIasls n d lam lam1 w false true) d i j = docIasls n d lam lam1 w i j := by
  have e : asmIasls n d lam lam1 w false true = (asmIasls n d lam lam1 w false false).reverse := by
    rw [← iasls_asm_reversed n d lam lam1 w hd, List.reverse_reverse]
  have hl : (asmIasls n d lam lam1 w false false).length = 2 * d + 1 :=
    (shape_addRow _ d _ _ _ (shape_addB _ _ _ _ (shape_scale lam _ _ _ (shape_bandsQ_full n d))
      (shape_scale lam1 _ _ _ (shape_padFull_D1 n d hd))) (by simpa using hw)).1
  rw [e, denRowwise_reverse _ _ _ _ hl, iasls_asm_den_full n d lam lam1 w hw hd j i hj hi, docIasls_symm]

theorem aspls_asm_den_pentapy (n d : Nat) (lam : Rat) (w alpha : List Rat) (hw : w.length = n) (ha : alpha.length = n)
    (i j : Nat) (hi : i < n) (hj : j < n) :
    denRowwise (asmAspls n d lam w alpha true) d i j = docAspls n d lam w alpha i j := by
  show denRowwise (addRow (colScale (scale lam (bandsQ n d false)).reverse alpha) d w) d i j = _
  have hs0 := shape_scale lam _ _ _ (shape_bandsQ_full n d)
  have hs1 := shape_colScale _ alpha _ _ (shape_reverse _ _ _ hs0) ha
  rw [denRowwise_eq, (shape_addRow _ d w _ _ hs1 hw).1]
  unfold docAspls delta
  by_cases hb : j ≤ i + d ∧ d + i - j < 2 * d + 1
  · have hb' : i ≤ j + d := by omega
    have hv : ent (colScale (scale lam (bandsQ n d false)).reverse alpha) (d + i - j) i
        = lam * dtdQ n d i j * alpha.getD i 0 := by
      rw [ent_colScale, ent_reverse _ _ _ _ hs0.1, if_pos (by omega), ent_scale]
      have e : 2 * d + 1 - 1 - (d + i - j) = d + j - i := by omega
      rw [e, ent_bandsQ_full_eq n d j i hj hi hb' hb.1, dtdQ_symm n d j i]
    rw [if_pos hb, ent_addRow _ _ _ _ n _ _ hs1 hw, hv]
    by_cases h2 : i = j
    · subst h2
      rw [if_pos ⟨by omega, by omega⟩, if_pos rfl]; ring
    · rw [if_neg (by omega), if_neg h2]; ring
  · rw [if_neg hb, if_neg (by omega), dtdQ_band n d i j (by omega)]; ring

theorem drpls_asm_den_pentapy (n d : Nat) (lam eta : Rat) (w : List Rat) (hw : w.length = n) (hd : 1 ≤ d)
    (i j : Nat) (hi : i < n) (hj : j < n) :
    denRowwise (asmDrpls n d lam eta w true) d i j = docDrpls n d lam eta w i j := by
  show denRowwise (addB (addB (scale lam (bandsQ n d false)) (padFull (bandsQ n 1 false) (d - 1) n)).reverse
    (colScale (addRowC (scale (-eta) (scale lam (bandsQ n d false))).reverse d 1) w)) d i j = _
  have hs0 := shape_scale lam _ _ _ (shape_bandsQ_full n d)
  have hs1 := shape_padFull_D1 n d hd
  have hsb := shape_addB _ _ _ _ hs0 hs1
  have hsr := shape_reverse _ _ _ hsb
  have hs2 := shape_scale (-eta) _ _ _ hs0
  have hs3 := shape_reverse _ _ _ hs2
  have hs4 := shape_colScale _ w _ _ (shape_addRowC _ d 1 _ _ hs3) hw
  rw [denRowwise_eq, (shape_addB _ _ _ _ hsr hs4).1]
  unfold docDrpls delta
  by_cases hb : j ≤ i + d ∧ d + i - j < 2 * d + 1
  · have hb' : i ≤ j + d := by omega
    have e : 2 * d + 1 - 1 - (d + i - j) = d + j - i := by omega
    have hv : ent (scale (-eta) (scale lam (bandsQ n d false))).reverse (d + i - j) i
        = -eta * (lam * dtdQ n d i j) := by
      rw [ent_reverse _ _ _ _ hs2.1, if_pos (by omega), ent_scale, ent_scale]
      rw [e, ent_bandsQ_full_eq n d j i hj hi hb' hb.1, dtdQ_symm n d j i]
    rw [if_pos hb, ent_addB _ _ _ _ _ _ hsr hs4, ent_reverse _ _ _ _ hsb.1, if_pos (by omega), e,
      ent_addB _ _ _ _ _ _ hs0 hs1, ent_scale,
      ent_bandsQ_full_eq n d j i hj hi hb' hb.1, ent_padFull_D1 n d j i hd hj hi hb' hb.1,
      ent_colScale, ent_addRowC _ _ _ _ n _ _ hs3, hv, dtdQ_symm n d j i, dtdQ_symm n 1 j i]
    by_cases h2 : i = j
    · subst h2
      rw [if_pos ⟨by omega, by omega, hi⟩, if_pos rfl]; ring
    · rw [if_neg (by omega), if_neg h2]; ring
  · rw [if_neg hb, if_neg (by omega), dtdQ_band n d i j (by omega), dtdQ_band n 1 i j (by omega)]; ring

/-- **back-end independence of the linear system**: for every `banded_solver` value, with or without pentapy, the array each
Whittaker method hands to the solver it is routed to denotes — under THAT solver's storage convention — the same documented
matrix -/
theorem backend_independent (kind : Kind) (solver : Nat) (hs : 1 ≤ solver ∧ solver ≤ 4) (hasPentapy : Bool) (n d : Nat) (lam p1 : Rat)
    (w alpha : List Rat) (hw : w.length = n) (ha : alpha.length = n) (hd : 1 ≤ d) (i j : Nat) (hi : i < n) (hj : j < n) :
    denRoute (route (setup n hasPentapy solver d (methodFlags kind).1 (methodFlags kind).2) solver)
      (asmOf kind n d lam p1 w alpha (setup n hasPentapy solver d (methodFlags kind).1 (methodFlags kind).2)) d i j
      = docOf kind n d lam p1 w alpha i j := by
  cases kind <;>
    simp only [methodFlags, asmOf, docOf, route, setup_usingPentapy, setup_lower, setup_reversed] <;>
    generalize (decide (solver < 3) && hasPentapy && decide (d = 2)) = b <;>
    cases b <;> by_cases h4 : solver < 4 <;> simp [h4, denRoute]
  all_goals first
    | exact std_asm_den_lower n d lam w hw i j hi hj
    | exact std_asm_den_full n d lam w hw i j hi hj
    | exact std_asm_den_pentapy n d lam w hw i j hi hj
    | exact iasls_asm_den_lower n d lam p1 w hw hd i j hi hj
    | exact iasls_asm_den_full n d lam p1 w hw hd i j hi hj
    | exact iasls_asm_den_pentapy n d lam p1 w hw hd i j hi hj
    | exact drpls_asm_den n d lam p1 w hw hd i j hi hj
    | exact drpls_asm_den_pentapy n d lam p1 w hw hd i j hi hj
    | exact aspls_asm_den n d lam w alpha hw ha i j hi hj
    | exact aspls_asm_den_pentapy n d lam w alpha hw ha i j hi hj

end PbVerif.Lemmas
