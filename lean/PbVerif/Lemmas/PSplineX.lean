import PbVerif.Lemmas.PSpline
import PbVerif.Lemmas.Kron2d
import Mathlib.Algebra.BigOperators.Group.Finset.Sigma
/-! Lemmas for C07 (second part): full-band layout helpers (`_lower_to_full`, `_add_diagonals(lower_only=False)`), and the systems of
`pspline_iasls`, `pspline_drpls`, `pspline_aspls`. -/
set_option linter.unusedVariables false
namespace PbVerif.Lemmas
open PbVerif.BSpline PbVerif.Whittaker PbVerif.PSpline PbVerif.Banded

/-! ### `_lower_to_full` -/

theorem length_lowerToFullQ (ab : List (List Rat)) : (lowerToFullQ ab).length = (ab.length - 1) + ab.length := by
  simp [lowerToFullQ]

theorem getD_lowerToFullQ_upper (ab : List (List Rat)) (t : Nat) (ht : t + 1 < ab.length) :
    (lowerToFullQ ab).getD t [] = shiftRightQ (ab.length - 1 - t) (ab.getD (ab.length - 1 - t) []) := by
  unfold lowerToFullQ
  rw [getD_append', if_pos (by simp; omega)]
  simp only [List.getD_eq_getElem?_getD, List.getElem?_map, List.getElem?_zipIdx]
  rw [List.getElem?_reverse (by simp; omega), List.getElem?_tail, List.length_tail]
  have e : ab.length - 1 - 1 - t + 1 = ab.length - 1 - t := by omega
  rw [e, List.getElem?_eq_getElem (by omega)]
  simp

theorem getD_lowerToFullQ_lower (ab : List (List Rat)) (t : Nat) (ht : ab.length ≤ t + 1) :
    (lowerToFullQ ab).getD t [] = ab.getD (t - (ab.length - 1)) [] := by
  unfold lowerToFullQ
  rw [getD_append', if_neg (by simp; omega)]
  simp

theorem shape_lowerToFullQ (ab : List (List Rat)) (R n : Nat) (h : TblShape ab R n) (hR : 1 ≤ R) :
    TblShape (lowerToFullQ ab) (2 * (R - 1) + 1) n := by
  refine ⟨by rw [length_lowerToFullQ, h.1]; omega, fun r hr => ?_⟩
  by_cases h1 : r + 1 < R
  · rw [getD_lowerToFullQ_upper ab r (by rw [h.1]; exact h1), length_shiftRightQ, h.1]
    exact h.2 _ (by omega)
  · rw [getD_lowerToFullQ_lower ab r (by rw [h.1]; omega), h.1]
    exact h.2 _ (by omega)

/-- `_lower_to_full` keeps the matrix: the full-band reading of the result is the symmetric reading of the lower bands -/
theorem denFull_lowerToFullQ (ab : List (List Rat)) (R n : Nat) (h : TblShape ab R n) (hR : 1 ≤ R) (i j : Nat) (hi : i < n) (hj : j < n) :
    denFull (lowerToFullQ ab) (R - 1) i j = denLower ab i j := by
  rw [denFull_eq, denLower_eq, length_lowerToFullQ, h.1]
  by_cases hb : j ≤ i + (R - 1) ∧ R - 1 + i - j < R - 1 + R
  · rw [if_pos hb]
    unfold ent
    by_cases hji : j ≤ i
    · rw [getD_lowerToFullQ_lower ab _ (by rw [h.1]; omega), h.1]
      have e1 : R - 1 + i - j - (R - 1) = max i j - min i j := by omega
      have e2 : min i j = j := by omega
      rw [e1, e2]
    · rw [getD_lowerToFullQ_upper ab _ (by rw [h.1]; omega), h.1, getD_shiftRightQ, h.2 _ (by omega)]
      have e0 : R - 1 - (R - 1 + i - j) = j - i := by omega
      rw [e0, if_neg (by omega)]
      have e1 : max i j - min i j = j - i := by omega
      have e2 : min i j = i := by omega
      have e3 : j - (j - i) = i := by omega
      rw [e1, e2, e3]
  · rw [if_neg hb]
    symm
    apply ent_oob_row
    rw [h.1]; omega

/-! ### full-band padding and `_add_diagonals(lower_only=False)` -/

theorem denFull_padFull (T : List (List Rat)) (u p n : Nat) (h : TblShape T (2 * u + 1) n) (i j : Nat) :
    denFull (padFull T p n) (u + p) i j = denFull T u i j := by
  rw [denFull_eq, denFull_eq, (shape_padFull T p n _ h).1, h.1]
  by_cases hb : j ≤ i + (u + p) ∧ u + p + i - j < p + (2 * u + 1) + p
  · rw [if_pos hb, ent_padFull]
    by_cases h2 : p ≤ u + p + i - j
    · rw [if_pos h2]
      have e : u + p + i - j - p = u + i - j := by omega
      rw [e]
      by_cases h3 : u + i - j < 2 * u + 1
      · rw [if_pos ⟨by omega, h3⟩]
      · rw [if_neg (by omega), ent_oob_row _ _ _ (by rw [h.1]; omega)]
    · rw [if_neg h2, if_neg (by omega)]
  · rw [if_neg hb, if_neg (by omega)]

theorem denFull_addB (a b : List (List Rat)) (u n : Nat) (ha : TblShape a (2 * u + 1) n) (hb : TblShape b (2 * u + 1) n) (i j : Nat) :
    denFull (addB a b) u i j = denFull a u i j + denFull b u i j := by
  rw [denFull_eq, denFull_eq, denFull_eq, (shape_addB a b _ _ ha hb).1, ha.1, hb.1]
  by_cases h : j ≤ i + u ∧ u + i - j < 2 * u + 1
  · rw [if_pos h, if_pos h, if_pos h, ent_addB a b _ n _ _ ha hb]
  · rw [if_neg h, if_neg h, if_neg h]; ring

theorem denFull_scale (c : Rat) (T : List (List Rat)) (u i j : Nat) : denFull (scale c T) u i j = c * denFull T u i j := by
  rw [denFull_eq, denFull_eq]
  have : (scale c T).length = T.length := by simp [scale]
  rw [this]
  split
  · rw [ent_scale]
  · ring

theorem shape_padFull' (T : List (List Rat)) (u p n : Nat) (h : TblShape T (2 * u + 1) n) : TblShape (padFull T p n) (2 * (u + p) + 1) n := by
  have := shape_padFull T p n _ h
  have e : p + (2 * u + 1) + p = 2 * (u + p) + 1 := by omega
  rw [e] at this; exact this

theorem shape_addDiagonalsFull (a b : List (List Rat)) (ua ub n : Nat) (ha : TblShape a (2 * ua + 1) n) (hb : TblShape b (2 * ub + 1) n) :
    TblShape (addDiagonalsFull a b n) (2 * max ua ub + 1) n := by
  unfold addDiagonalsFull
  simp only [ha.1, hb.1]
  have e1 : (max (2 * ua + 1) (2 * ub + 1) - (2 * ua + 1)) / 2 = max ua ub - ua := by omega
  have e2 : (max (2 * ua + 1) (2 * ub + 1) - (2 * ub + 1)) / 2 = max ua ub - ub := by omega
  rw [e1, e2]
  have sa := shape_padFull' a ua (max ua ub - ua) n ha
  have sb := shape_padFull' b ub (max ua ub - ub) n hb
  have f1 : ua + (max ua ub - ua) = max ua ub := by omega
  have f2 : ub + (max ua ub - ub) = max ua ub := by omega
  rw [f1] at sa; rw [f2] at sb
  exact shape_addB _ _ _ _ sa sb

/-- `_add_diagonals(a, b, lower_only=False)` adds the denoted matrices (both arrays with an odd number of rows) -/
theorem addDiagonalsFull_den (a b : List (List Rat)) (ua ub n : Nat) (ha : TblShape a (2 * ua + 1) n) (hb : TblShape b (2 * ub + 1) n) (i j : Nat) :
    denFull (addDiagonalsFull a b n) (max ua ub) i j = denFull a ua i j + denFull b ub i j := by
  unfold addDiagonalsFull
  simp only [ha.1, hb.1]
  have e1 : (max (2 * ua + 1) (2 * ub + 1) - (2 * ua + 1)) / 2 = max ua ub - ua := by omega
  have e2 : (max (2 * ua + 1) (2 * ub + 1) - (2 * ub + 1)) / 2 = max ua ub - ub := by omega
  rw [e1, e2]
  have sa := shape_padFull' a ua (max ua ub - ua) n ha
  have sb := shape_padFull' b ub (max ua ub - ub) n hb
  have da := denFull_padFull a ua (max ua ub - ua) n ha i j
  have db := denFull_padFull b ub (max ua ub - ub) n hb i j
  have f1 : ua + (max ua ub - ua) = max ua ub := by omega
  have f2 : ub + (max ua ub - ub) = max ua ub := by omega
  rw [f1] at sa da; rw [f2] at sb db
  rw [denFull_addB _ _ _ n sa sb, da, db]

/-! ### row-shifted, column-scaled, reversed bands: `diag(w) · P` for ANY full-band table -/

/-- **`_shift_rows(P[::-1] * w, u, u)` denotes `diag(w) · Pᵀ`** (so `diag(w) · P` for a symmetric `P`), for every table with `2u+1` rows -/
theorem denFull_shift_rev_colScale (P : List (List Rat)) (u n : Nat) (w : List Rat) (h : TblShape P (2 * u + 1) n) (hw : w.length = n)
    (i j : Nat) (hi : i < n) (hj : j < n) :
    denFull (shiftRows (colScale P.reverse w) u u) u i j = w.getD i 0 * denFull P u j i := by
  rw [denFull_shiftRows _ u n i j (shape_colScale _ w _ _ (shape_reverse _ _ _ h) hw) hi hj, denFull_eq, h.1]
  by_cases hb : j ≤ i + u ∧ i ≤ j + u
  · rw [if_pos hb, if_pos ⟨hb.2, by omega⟩, ent_colScale, ent_reverse _ _ _ _ h.1, if_pos (by omega)]
    have e : 2 * u + 1 - 1 - (u + i - j) = u + j - i := by omega
    rw [e]; ring
  · rw [if_neg hb, if_neg (by omega)]; ring

theorem padFull_reverse (T : List (List Rat)) (p n : Nat) : padFull T.reverse p n = (padFull T p n).reverse := by
  unfold padFull
  simp [List.reverse_append, List.append_assoc]

theorem shape_penFullP (nb d deg : Nat) (lam : Rat) (rev : Bool) : TblShape (penFullP nb d deg lam rev) (2 * (d + (deg - d)) + 1) nb := by
  unfold penFullP
  apply shape_scale
  apply shape_padFull'
  cases rev
  · exact shape_bandsQ_full nb d
  · exact shape_reverse _ _ _ (shape_bandsQ_full nb d)

/-- the (non-reversed) padded penalty of a `PSpline` with full bands denotes `λ D'D` -/
theorem denFull_penFullP (nb d deg : Nat) (lam : Rat) (i j : Nat) (hi : i < nb) (hj : j < nb) :
    denFull (penFullP nb d deg lam false) (d + (deg - d)) i j = lam * dtdQ nb d i j := by
  unfold penFullP
  simp only [Bool.false_eq_true, if_false]
  rw [denFull_scale, denFull_padFull _ d _ nb (shape_bandsQ_full nb d), denFull_bandsQ nb d i j hi hj]

theorem penFullP_true (nb d deg : Nat) (lam : Rat) : penFullP nb d deg lam true = (penFullP nb d deg lam false).reverse := by
  unfold penFullP scale
  simp only [if_true, Bool.false_eq_true, if_false]
  rw [padFull_reverse, List.map_reverse]

/-! ### `B'WB` in both layouts -/

theorem denLower_btb (deg nb : Nat) (rows : List Row) (ys ws : List Rat) (h : RowsWf deg nb rows)
    (hy : ys.length = rows.length) (hw : ws.length = rows.length) (i j : Nat) (hi : i < nb) (hj : j < nb) :
    denLower (btbBty deg nb rows ys ws).1 i j = btwbAt deg rows ws i j := by
  rw [← btbSpec_dense]
  have hs := ps_btb_shape deg nb rows ys ws
  by_cases hb : max i j - min i j ≤ deg
  · exact btb_eq deg nb rows ys ws h hy hw _ _ hb (by omega)
  · rw [denLower_eq, ent_oob_row _ _ _ (by rw [hs.1]; omega), ps_btbSpec_band deg rows ws _ _ (by omega)]

theorem denFull_btb (deg nb : Nat) (rows : List Row) (ys ws : List Rat) (h : RowsWf deg nb rows)
    (hy : ys.length = rows.length) (hw : ws.length = rows.length) (i j : Nat) (hi : i < nb) (hj : j < nb) :
    denFull (lowerToFullQ (btbBty deg nb rows ys ws).1) deg i j = btwbAt deg rows ws i j := by
  have := denFull_lowerToFullQ _ (deg + 1) nb (ps_btb_shape deg nb rows ys ws) (by omega) i j hi hj
  rw [Nat.add_sub_cancel] at this
  rw [this, denLower_btb deg nb rows ys ws h hy hw i j hi hj]

theorem shape_btbFull (deg nb : Nat) (rows : List Row) (ys ws : List Rat) :
    TblShape (lowerToFullQ (btbBty deg nb rows ys ws).1) (2 * deg + 1) nb := by
  have := shape_lowerToFullQ _ (deg + 1) nb (ps_btb_shape deg nb rows ys ws) (by omega)
  rwa [Nat.add_sub_cancel] at this

/-! ### pspline_drpls, pspline_aspls -/

/-- **pspline_drpls**: the full-band array handed to the solver denotes `B'WB + D₁'D₁ + λ (I − η W̃) D'D`, for every spline degree,
difference order ≥ 1 (the code demands ≥ 2), padding (`deg − d` positive or not), weights and interpolated weights -/
theorem pdrpls_asm_den (deg nb d : Nat) (lam eta : Rat) (rows : List Row) (ys ws wt : List Rat) (h : RowsWf deg nb rows)
    (hy : ys.length = rows.length) (hw : ws.length = rows.length) (hwt : wt.length = nb) (hd : 1 ≤ d)
    (i j : Nat) (hi : i < nb) (hj : j < nb) :
    denFull (asmPDrpls deg nb d lam eta rows ys ws wt).1 (d + (deg - d)) i j = docPDrpls deg nb d lam eta rows ws wt i j := by
  show denFull (addDiagonalsFull (lowerToFullQ (btbBty deg nb rows ys ws).1)
    (addDiagonalsFull (addDiagonalsFull (penFullP nb d deg lam false) (bandsQ nb 1 false) nb)
      (shiftRows (colScale (scale (-eta) (penFullP nb d deg lam false).reverse) wt) (d + (deg - d)) (d + (deg - d))) nb) nb) _ i j = _
  have hu1 : max (d + (deg - d)) 1 = d + (deg - d) := by omega
  have hu2 : max deg (d + (deg - d)) = d + (deg - d) := by omega
  have sP := shape_penFullP nb d deg lam false
  have s1 := shape_addDiagonalsFull _ _ _ 1 nb sP (shape_bandsQ_full nb 1)
  rw [hu1] at s1
  have hrev : scale (-eta) (penFullP nb d deg lam false).reverse = (scale (-eta) (penFullP nb d deg lam false)).reverse := by
    simp [scale]
  have sN := shape_scale (-eta) _ _ _ sP
  have sdw : TblShape (shiftRows (colScale (scale (-eta) (penFullP nb d deg lam false).reverse) wt) (d + (deg - d)) (d + (deg - d)))
      (2 * (d + (deg - d)) + 1) nb := by
    rw [hrev]
    exact shape_shiftRows _ _ _ _ _ (shape_colScale _ wt _ _ (shape_reverse _ _ _ sN) hwt)
  have s2 := shape_addDiagonalsFull _ _ _ _ nb s1 sdw
  rw [Nat.max_self] at s2
  have k3 := addDiagonalsFull_den _ _ deg _ nb (shape_btbFull deg nb rows ys ws) s2 i j
  have k2 := addDiagonalsFull_den _ _ _ _ nb s1 sdw i j
  have k1 := addDiagonalsFull_den _ _ _ 1 nb sP (shape_bandsQ_full nb 1) i j
  rw [Nat.max_self] at k2
  rw [hu1] at k1
  rw [hu2] at k3
  rw [k3, k2, k1, denFull_btb deg nb rows ys ws h hy hw i j hi hj, denFull_penFullP nb d deg lam i j hi hj,
    denFull_bandsQ nb 1 i j hi hj, hrev, denFull_shift_rev_colScale _ _ nb wt sN hwt i j hi hj, denFull_scale,
    denFull_penFullP nb d deg lam j i hj hi, dtdQ_symm nb d j i]
  unfold docPDrpls
  ring

/-- **pspline_aspls**: the full-band array handed to the solver denotes `B'WB + λ diag(α̃) D'D` -/
theorem paspls_asm_den (deg nb d : Nat) (lam : Rat) (rows : List Row) (ys ws at_ : List Rat) (h : RowsWf deg nb rows)
    (hy : ys.length = rows.length) (hw : ws.length = rows.length) (hat : at_.length = nb)
    (i j : Nat) (hi : i < nb) (hj : j < nb) :
    denFull (asmPAspls deg nb d lam rows ys ws at_).1 (d + (deg - d)) i j = docPAspls deg nb d lam rows ws at_ i j := by
  show denFull (addDiagonalsFull (lowerToFullQ (btbBty deg nb rows ys ws).1)
    (shiftRows (colScale (penFullP nb d deg lam true) at_) (d + (deg - d)) (d + (deg - d))) nb) _ i j = _
  have hu2 : max deg (d + (deg - d)) = d + (deg - d) := by omega
  have sP := shape_penFullP nb d deg lam false
  rw [penFullP_true]
  have sdw := shape_shiftRows _ (d + (deg - d)) (d + (deg - d)) _ _ (shape_colScale _ at_ _ _ (shape_reverse _ _ _ sP) hat)
  have k := addDiagonalsFull_den _ _ deg _ nb (shape_btbFull deg nb rows ys ws) sdw i j
  rw [hu2] at k
  rw [k, denFull_btb deg nb rows ys ws h hy hw i j hi hj, denFull_shift_rev_colScale _ _ nb at_ sP hat i j hi hj,
    denFull_penFullP nb d deg lam j i hj hi, dtdQ_symm nb d j i]
  unfold docPAspls
  ring

/-- the interpolated arrays have one entry per basis function (knot vector of `_spline_knots`: `num_knots + 2·deg` knots) -/
theorem interpMid_length (knots xs vs : List Rat) (deg numKnots : Nat) (hk : knots.length = numKnots + 2 * deg) (h2 : 2 ≤ numKnots) :
    (interpMid knots xs vs deg).length = knots.length - (deg + 1) := by
  unfold interpMid
  rw [List.length_map, basisMidpoints_length, hk, basisMidpointsCount_eq numKnots deg h2]
  omega

/-! ### pspline_iasls: the first-order penalty on the data grid, seen from the coefficients -/

open Finset in
theorem sumL_zipWith_mul (a b : List Rat) (N : Nat) (ha : a.length = N) (hb : b.length = N) :
    sumL (List.zipWith (· * ·) a b) = ∑ k ∈ range N, a.getD k 0 * b.getD k 0 := by
  rw [← sumL_range_eq_finset]
  congr 1
  apply List.ext_getElem?
  intro k
  rw [List.getElem?_zipWith, List.getElem?_map]
  by_cases hk : k < N
  · rw [List.getElem?_eq_getElem (by omega), List.getElem?_eq_getElem (by omega), List.getElem?_range hk]
    simp [List.getD_eq_getElem?_getD, ha, hb, hk]
  · have hk' : N ≤ k := Nat.le_of_not_lt hk
    rw [List.getElem?_eq_none (l := a) (by omega), List.getElem?_eq_none (l := List.range N) (by rw [List.length_range]; exact hk')]
    simp

theorem length_d1y (y : List Rat) : (d1y y).length = y.length := by simp [d1y]
theorem length_colB (deg : Nat) (rows : List Row) (c : Nat) : (colB deg rows c).length = rows.length := by simp [colB]

open Finset in
/-- `Σ_k a_k · (λ₁ · d1y b)_k = λ₁ Σ_k Σ_l a_k (D₁'D₁)[k,l] b_l` -/
theorem sum_mul_d1y (a b : List Rat) (lam1 : Rat) (N : Nat) (ha : a.length = N) (hb : b.length = N) (hN : 2 ≤ N) :
    sumL (List.zipWith (· * ·) a ((d1y b).map (lam1 * ·)))
      = lam1 * ∑ k ∈ range N, ∑ l ∈ range N, a.getD k 0 * dtdQ N 1 k l * b.getD l 0 := by
  rw [sumL_zipWith_mul _ _ N ha (by rw [List.length_map, length_d1y, hb]), mul_sum]
  apply sum_congr rfl
  intro k hk
  rw [getD_map' (d1y b) (lam1 * ·) k 0 0 (by simp), iasls_rhs b (by omega) k (by rw [hb]; exact mem_range.mp hk), hb,
    sumL_range_eq_finset, mul_sum, mul_sum, mul_sum]
  apply sum_congr rfl
  intro l _
  ring

open Finset in
theorem quad_symm (a b : List Rat) (N : Nat) :
    (∑ k ∈ range N, ∑ l ∈ range N, a.getD k 0 * dtdQ N 1 k l * b.getD l 0)
      = ∑ k ∈ range N, ∑ l ∈ range N, b.getD k 0 * dtdQ N 1 k l * a.getD l 0 := by
  rw [sum_comm]
  apply sum_congr rfl; intro k _; apply sum_congr rfl; intro l _
  rw [dtdQ_symm N 1 l k]; ring

open Finset in
theorem btd1bAt_eq (deg : Nat) (rows : List Row) (i j : Nat) :
    btd1bAt deg rows i j = ∑ k ∈ range rows.length, ∑ l ∈ range rows.length,
      (colB deg rows i).getD k 0 * dtdQ rows.length 1 k l * (colB deg rows j).getD l 0 := by
  unfold btd1bAt colB
  rw [sumL_range_eq_finset]
  apply sum_congr rfl; intro k _
  rw [sumL_range_eq_finset]

open Finset in
theorem btd1yAt_eq (deg : Nat) (rows : List Row) (ys : List Rat) (c : Nat) :
    btd1yAt deg rows ys c = ∑ k ∈ range rows.length, ∑ l ∈ range rows.length,
      (colB deg rows c).getD k 0 * dtdQ rows.length 1 k l * ys.getD l 0 := by
  unfold btd1yAt colB
  rw [sumL_range_eq_finset]
  apply sum_congr rfl; intro k _
  rw [sumL_range_eq_finset]

theorem shape_d1Band (deg nb : Nat) (lam1 : Rat) (rows : List Row) : TblShape (d1Band deg nb lam1 rows) nb nb := by
  refine ⟨by simp [d1Band], fun r hr => ?_⟩
  unfold d1Band
  simp only []
  rw [getD_map_range, if_pos hr]; simp

theorem ent_d1Band (deg nb : Nat) (lam1 : Rat) (rows : List Row) (r c : Nat) (hc : c + r < nb) :
    ent (d1Band deg nb lam1 rows) r c
      = sumL (List.zipWith (· * ·) (colB deg rows (c + r)) ((d1y (colB deg rows c)).map (lam1 * ·))) := by
  unfold ent d1Band
  simp only []
  rw [getD_map_range, if_pos (by omega), getD_map_range, if_pos (by omega), getD_map_range, if_pos hc,
    getD_map' _ (fun v => (d1y v).map (lam1 * ·)) c [] [] (by simp [d1y]), getD_map_range, if_pos (by omega)]

/-- the lower bands of `B' (λ₁ D₁'D₁) B` denote `λ₁ B'D₁'D₁B` (dense double sum over the data points) -/
theorem denLower_d1Band (deg nb : Nat) (lam1 : Rat) (rows : List Row) (hN : 2 ≤ rows.length) (i j : Nat) (hi : i < nb) (hj : j < nb) :
    denLower (d1Band deg nb lam1 rows) i j = lam1 * btd1bAt deg rows i j := by
  rw [denLower_eq, ent_d1Band deg nb lam1 rows _ _ (by omega),
    sum_mul_d1y _ _ lam1 rows.length (length_colB _ _ _) (length_colB _ _ _) hN, btd1bAt_eq]
  by_cases h : j ≤ i
  · have e1 : min i j + (max i j - min i j) = i := by omega
    have e2 : min i j = j := by omega
    rw [e1, e2]
  · have e1 : min i j + (max i j - min i j) = j := by omega
    have e2 : min i j = i := by omega
    rw [e1, e2, quad_symm]

theorem length_btbBty_rhs (deg nb : Nat) (rows : List Row) (ys ws : List Rat) : (btbBty deg nb rows ys ws).2.length = nb := by
  unfold btbBty
  generalize hacc : (List.replicate (deg + 1) (List.replicate nb (0:Rat)), List.replicate nb (0:Rat)) = acc
  have h0 : acc.2.length = nb := by rw [← hacc]; simp
  clear hacc
  induction (rows.zip (ys.zip ws)) generalizing acc with
  | nil => exact h0
  | cons p L ih =>
    obtain ⟨row, y, w⟩ := p
    simp only [List.foldl_cons]
    exact ih _ ((accRow_rhs_length acc.1 acc.2 row y w).trans h0)

theorem rowsLen_addDiagonalsLower (a b : List (List Rat)) (n : Nat) (ha : RowsLen a n) (hb : RowsLen b n) :
    RowsLen (addDiagonalsLower a b n) n := by
  unfold addDiagonalsLower
  exact ps_rowsLen_of_shape _ _ _ (shape_addB _ _ _ _ (ps_shape_pad a n _ ha (Nat.le_max_left _ _)) (ps_shape_pad b n _ hb (Nat.le_max_right _ _)))

theorem length_map_sq (ws : List Rat) : (ws.map fun v => v * v).length = ws.length := by simp

/-- **pspline_iasls, lower bands** (`banded_solver` 1–3): the array handed to the solver denotes `B'W²B + λ₁ B'D₁'D₁B + λ D'D` -/
theorem piasls_asm_den_lower (deg nb d : Nat) (lam lam1 : Rat) (rows : List Row) (ys ws : List Rat) (h : RowsWf deg nb rows)
    (hy : ys.length = rows.length) (hw : ws.length = rows.length) (hN : 2 ≤ rows.length) (i j : Nat) (hi : i < nb) (hj : j < nb) :
    denLower (asmPIasls deg nb d lam lam1 rows ys ws true).1 i j = docPIasls deg nb d lam lam1 rows ws i j := by
  show denLower (addDiagonalsLower (btbBty deg nb rows ys (ws.map fun v => v * v)).1
    (addDiagonalsLower (scale lam (padLower (bandsQ nb d true) (deg - d) nb)) (d1Band deg nb lam1 rows) nb) nb) i j = _
  have r1 := ps_rowsLen_of_shape _ _ _ (ps_btb_shape deg nb rows ys (ws.map fun v => v * v))
  have r2 := ps_rowsLen_of_shape _ _ _ (shape_scale lam _ _ _ (shape_padLower _ (deg - d) nb _ (shape_bandsQ_lower nb d)))
  have r3 := ps_rowsLen_of_shape _ _ _ (shape_d1Band deg nb lam1 rows)
  rw [addDiagonalsLower_den _ _ nb r1 (rowsLen_addDiagonalsLower _ _ nb r2 r3) i j hi hj,
    addDiagonalsLower_den _ _ nb r2 r3 i j hi hj,
    denLower_btb deg nb rows ys _ h hy (by rw [length_map_sq, hw]) i j hi hj,
    denLower_d1Band deg nb lam1 rows hN i j hi hj,
    denLower_eq, ent_scale, ent_padLower, ent_bandsQ_lower_eq nb d i j hi hj]
  unfold docPIasls
  ring

/-- **pspline_iasls, full bands** (`banded_solver = 4`) -/
theorem piasls_asm_den_full (deg nb d : Nat) (lam lam1 : Rat) (rows : List Row) (ys ws : List Rat) (h : RowsWf deg nb rows)
    (hy : ys.length = rows.length) (hw : ws.length = rows.length) (hN : 2 ≤ rows.length) (hdeg : deg < nb) (hd : d < nb)
    (i j : Nat) (hi : i < nb) (hj : j < nb) :
    denFull (asmPIasls deg nb d lam lam1 rows ys ws false).1 (nb - 1) i j = docPIasls deg nb d lam lam1 rows ws i j := by
  show denFull (addDiagonalsFull (lowerToFullQ (btbBty deg nb rows ys (ws.map fun v => v * v)).1)
    (addDiagonalsFull (penFullP nb d deg lam false) (lowerToFullQ (d1Band deg nb lam1 rows)) nb) nb) _ i j = _
  have sP := shape_penFullP nb d deg lam false
  have sD := shape_lowerToFullQ _ nb nb (shape_d1Band deg nb lam1 rows) (by omega)
  have hu1 : max (d + (deg - d)) (nb - 1) = nb - 1 := by omega
  have hu2 : max deg (nb - 1) = nb - 1 := by omega
  have s1 := shape_addDiagonalsFull _ _ _ _ nb sP sD
  have k1 := addDiagonalsFull_den _ _ _ _ nb sP sD i j
  rw [hu1] at s1 k1
  have k2 := addDiagonalsFull_den _ _ deg _ nb (shape_btbFull deg nb rows ys (ws.map fun v => v * v)) s1 i j
  rw [hu2] at k2
  rw [k2, k1, denFull_btb deg nb rows ys _ h hy (by rw [length_map_sq, hw]) i j hi hj, denFull_penFullP nb d deg lam i j hi hj,
    denFull_lowerToFullQ _ nb nb (shape_d1Band deg nb lam1 rows) (by omega) i j hi hj, denLower_d1Band deg nb lam1 rows hN i j hi hj]
  unfold docPIasls
  ring

/-- **pspline_iasls, right-hand side**: `B'W²y + λ₁ B'D₁'D₁y` (either layout) -/
theorem piasls_asm_rhs (deg nb d : Nat) (lam lam1 : Rat) (rows : List Row) (ys ws : List Rat) (lower : Bool) (h : RowsWf deg nb rows)
    (hy : ys.length = rows.length) (hw : ws.length = rows.length) (hN : 2 ≤ rows.length) (c : Nat) (hc : c < nb) :
    (asmPIasls deg nb d lam lam1 rows ys ws lower).2.getD c 0
      = btySpec deg rows ys (ws.map fun v => v * v) c + lam1 * btd1yAt deg rows ys c := by
  have e : (asmPIasls deg nb d lam lam1 rows ys ws lower).2
      = List.zipWith (· + ·) (btbBty deg nb rows ys (ws.map fun v => v * v)).2 (d1Rhs deg nb lam1 rows ys) := by
    unfold asmPIasls; cases lower <;> rfl
  rw [e, getD_zipWith_add _ _ _ (by rw [length_btbBty_rhs]; simp [d1Rhs]),
    bty_eq deg nb rows ys _ h hy (by rw [length_map_sq, hw]) c hc]
  congr 1
  unfold d1Rhs
  rw [getD_map_range, if_pos hc, sum_mul_d1y _ _ lam1 rows.length (length_colB _ _ _) hy hN, btd1yAt_eq]

end PbVerif.Lemmas
