import PbVerif.Lemmas.Pad2d
/-! The two corner estimates of `utils._extrapolate2d` are the same number.

Every entry of the 1-D `padEdges` is a fixed linear combination of the data (the weights depend on
the sizes, the pad length, the windows and the position only): the data themselves, an edge value,
or the value of a least-squares line, which is `A·Σy + B·Σx·y`.  Padding the rows and padding the
columns are therefore a right and a left multiplication by fixed matrices, and these commute. -/
namespace PbVerif.Lemmas
open PbVerif.Pad

/-- `Φ` is a fixed linear combination of the first `N` values of its argument -/
def IsLin (N : Nat) (Φ : (Nat → Rat) → Rat) : Prop :=
  ∃ K : Nat → Rat, ∀ g, Φ g = sumL ((List.range N).map fun j => K j * g j)

theorem isLin_zero (N : Nat) : IsLin N (fun _ => 0) := by
  refine ⟨fun _ => 0, fun g => ?_⟩
  have : ((List.range N).map fun j => (0 : Rat) * g j) = (List.range N).map fun _ => (0 : Rat) :=
    List.map_congr_left fun j _ => by ring
  rw [this, sumL_map_const]
  ring

theorem isLin_add (N : Nat) (Φ Ψ : (Nat → Rat) → Rat) (h1 : IsLin N Φ) (h2 : IsLin N Ψ) :
    IsLin N (fun g => Φ g + Ψ g) := by
  obtain ⟨K1, hK1⟩ := h1
  obtain ⟨K2, hK2⟩ := h2
  refine ⟨fun j => K1 j + K2 j, fun g => ?_⟩
  beta_reduce
  rw [hK1, hK2, ← sumL_map_add]
  congr 1
  exact List.map_congr_left fun j _ => by ring

theorem isLin_smul (N : Nat) (c : Rat) (Φ : (Nat → Rat) → Rat) (h : IsLin N Φ) : IsLin N (fun g => c * Φ g) := by
  obtain ⟨K, hK⟩ := h
  refine ⟨fun j => c * K j, fun g => ?_⟩
  beta_reduce
  rw [hK, ← sumL_map_mul_left]
  congr 1
  exact List.map_congr_left fun j _ => by ring

theorem sumL_indicator (N j0 : Nat) (g : Nat → Rat) :
    sumL ((List.range N).map fun j => (if j = j0 then (1 : Rat) else 0) * g j) = if j0 < N then g j0 else 0 := by
  induction N with
  | zero => simp [sumL_nil]
  | succ N ih =>
    rw [sumL_range_succ, ih]
    by_cases h1 : j0 < N
    · have h2 : N ≠ j0 := by omega
      have h3 : j0 < N + 1 := by omega
      simp [h1, h2, h3]
    · by_cases h2 : N = j0
      · subst h2
        simp
      · have h3 : ¬ j0 < N + 1 := by omega
        simp [h1, h2, h3]

theorem isLin_eval (N j0 : Nat) (h : j0 < N) : IsLin N (fun g => g j0) := by
  refine ⟨fun j => if j = j0 then 1 else 0, fun g => ?_⟩
  rw [sumL_indicator, if_pos h]

/-- a weighted sum over the first `w ≤ N` values, shifted by `d` -/
theorem isLin_sum (N d w : Nat) (c : Nat → Rat) (h : d + w ≤ N) :
    IsLin N (fun g => sumL ((List.range w).map fun j => c j * g (d + j))) := by
  induction w with
  | zero =>
    simp only [List.range_zero, List.map_nil, sumL_nil]
    exact isLin_zero N
  | succ w ih =>
    have h1 := ih (by omega)
    have h2 := isLin_smul N (c w) _ (isLin_eval N (d + w) (by omega))
    have h3 := isLin_add N _ _ h1 h2
    refine Eq.mp ?_ h3
    congr 1
    funext g
    rw [sumL_range_succ]

theorem isLin_congr (N : Nat) (Φ Ψ : (Nat → Rat) → Rat) (h : ∀ g, Φ g = Ψ g) (hΨ : IsLin N Ψ) : IsLin N Φ := by
  have : Φ = Ψ := funext h
  rw [this]
  exact hΨ

/-! ### the value of the least-squares line is linear in the data -/
theorem lsLine_eval_lin (w : Nat) (h : Nat → Rat) (x0 x : Int) :
    ∃ A B : Rat, ∀ h : Nat → Rat,
      evalLine (lsLine ((List.range w).map h) x0) x =
        A * sumL ((List.range w).map fun (i : Nat) => 1 * h (0 + i)) +
        B * sumL ((List.range w).map fun (i : Nat) => ((((x0 + (i : Int)) : Int) : Rat)) * h (0 + i)) := by
  have _ := h
  let xs : List Rat := (List.range w).map fun (i : Nat) => (((x0 + (i : Int)) : Int) : Rat)
  let s1 := sumL xs
  let s2 := sumL (xs.map fun x => x * x)
  let W : Rat := (w : Nat)
  let den := W * s2 - s1 * s1
  refine ⟨1 / W + s1 * s1 / den / W - s1 / den * (x : Rat), - (W * s1 / den / W) + W / den * (x : Rat), fun h => ?_⟩
  unfold lsLine evalLine
  simp only [List.length_map, List.length_range, zipWith_map_same, Nat.zero_add, one_mul]
  ring

theorem padEdges_right_getD (ys : List Rat) (pad wl wr k : Nat) (hk : k < pad) :
    (padEdges ys pad wl wr).getD (pad + ys.length + k) 0 = (getEdges ys pad wl wr).2.getD k 0 := by
  have h : pad ≠ 0 := by omega
  unfold padEdges
  simp only [h, if_false, List.getD_eq_getElem?_getD]
  rw [List.getElem?_append_right (by simp [getEdges_left_length])]
  congr 2
  simp [getEdges_left_length]

theorem getEdges_right_line (ys : List Rat) (pad wl wr : Nat) (h : wr ≠ 1) :
    (getEdges ys pad wl wr).2 = (List.range pad).map fun (k : Nat) =>
      evalLine (lsLine (ys.drop (ys.length - wr)) ((pad + (ys.length - (ys.drop (ys.length - wr)).length) : Nat) : Int))
        ((pad + ys.length + k : Nat) : Int) := by
  unfold getEdges
  simp only [h, if_false]

/-- every entry of `padEdges` is a fixed linear combination of the data -/
theorem padEdges_getD_isLin (N pad w1 w2 l : Nat) (hN : 1 ≤ N) :
    IsLin N (fun g => (padEdges ((List.range N).map g) pad w1 w2).getD l 0) := by
  have hlenE : ∀ g : Nat → Rat, ((List.range N).map g).length = N := by intro g; simp
  by_cases hp : pad = 0
  · -- no padding
    subst hp
    by_cases hl : l < N
    · refine isLin_congr N _ _ (fun g => ?_) (isLin_eval N l hl)
      unfold padEdges
      simp only [if_true]
      exact range_map_getD N g l hl
    · refine isLin_congr N _ _ (fun g => ?_) (isLin_zero N)
      unfold padEdges
      simp only [if_true, List.getD_eq_getElem?_getD]
      rw [List.getElem?_eq_none (by simp; omega)]
      rfl
  · by_cases hl1 : l < pad
    · -- left edge
      by_cases hw : w1 = 1
      · subst hw
        refine isLin_congr N _ _ (fun g => ?_) (isLin_eval N 0 (by omega))
        rw [padEdges_left_one _ _ _ _ hl1]
        exact range_map_getD N g 0 (by omega)
      · obtain ⟨A, B, hAB⟩ := lsLine_eval_lin (min w1 N) (fun _ => 0) (pad : Int) (l : Int)
        have hlin := isLin_add N _ _
          (isLin_smul N A _ (isLin_sum N 0 (min w1 N) (fun _ => 1) (by omega)))
          (isLin_smul N B _ (isLin_sum N 0 (min w1 N) (fun i => ((((pad : Int) + (i : Int)) : Int) : Rat)) (by omega)))
        refine isLin_congr N _ _ (fun g => ?_) hlin
        rw [← hAB g]
        unfold padEdges getEdges
        simp only [hp, hw, if_false, List.getD_eq_getElem?_getD]
        rw [List.append_assoc, List.getElem?_append_left (by simpa using hl1)]
        simp only [List.getElem?_map, List.getElem?_range hl1, Option.map_some, Option.getD_some]
        rw [← List.map_take, List.take_range]
    · by_cases hl2 : l < pad + N
      · -- interior
        obtain ⟨i, rfl⟩ : ∃ i, l = pad + i := ⟨l - pad, by omega⟩
        refine isLin_congr N _ _ (fun g => ?_) (isLin_eval N i (by omega))
        rw [padEdges_interior _ _ _ _ _ (by rw [hlenE]; omega)]
        exact range_map_getD N g i (by omega)
      · by_cases hl3 : l < pad + N + pad
        · -- right edge
          obtain ⟨k, rfl⟩ : ∃ k, l = pad + N + k := ⟨l - (pad + N), by omega⟩
          have hk : k < pad := by omega
          by_cases hw : w2 = 1
          · subst hw
            refine isLin_congr N _ _ (fun g => ?_) (isLin_eval N (N - 1) (by omega))
            have := padEdges_right_one ((List.range N).map g) pad w1 k hk
            rw [hlenE] at this
            rw [this]
            exact range_map_getD N g (N - 1) (by omega)
          · have hdrop : ∀ g : Nat → Rat, ((List.range N).map g).drop (N - w2) =
                (List.range (min w2 N)).map fun j => g ((N - w2) + j) := by
              intro g
              apply List.ext_getElem
              · simp; omega
              · intro i h1 h2
                simp
            obtain ⟨A, B, hAB⟩ := lsLine_eval_lin (min w2 N) (fun _ => 0)
              ((pad + (N - min w2 N) : Nat) : Int) ((pad + N + k : Nat) : Int)
            have hlin := isLin_add N _ _
              (isLin_smul N A _ (isLin_sum N (N - w2) (min w2 N) (fun _ => 1) (by omega)))
              (isLin_smul N B _ (isLin_sum N (N - w2) (min w2 N)
                (fun i => (((((pad + (N - min w2 N) : Nat) : Int) + (i : Int)) : Int) : Rat)) (by omega)))
            refine isLin_congr N _ _ (fun g => ?_) hlin
            have h' := hAB (fun j => g ((N - w2) + j))
            simp only [Nat.zero_add, one_mul] at h' ⊢
            rw [← h']
            have e := padEdges_right_getD ((List.range N).map g) pad w1 w2 k hk
            rw [hlenE] at e
            rw [e, getEdges_right_line _ _ _ _ hw, range_map_getD _ _ k hk, hlenE, hdrop]
            simp only [List.length_map, List.length_range]
        · -- outside
          refine isLin_congr N _ _ (fun g => ?_) (isLin_zero N)
          rw [List.getD_eq_getElem?_getD, List.getElem?_eq_none (by rw [padEdges_length, hlenE]; omega)]
          rfl

/-! ### rows-then-columns = columns-then-rows -/
theorem sumL_swap (M N : Nat) (a b : Nat → Rat) (f : Nat → Nat → Rat) :
    sumL ((List.range M).map fun i => a i * sumL ((List.range N).map fun j => b j * f i j)) =
      sumL ((List.range N).map fun j => b j * sumL ((List.range M).map fun i => a i * f i j)) := by
  induction M with
  | zero =>
    simp only [List.range_zero, List.map_nil, sumL_nil, mul_zero]
    rw [sumL_map_const]
    ring
  | succ M ih =>
    rw [sumL_range_succ, ih, ← sumL_map_mul_left, ← sumL_map_add]
    congr 1
    apply List.map_congr_left
    intro j _
    rw [sumL_range_succ]
    ring

theorem colExt_rowExt_comm (M N pr pc wt wb wl wr : Nat) (f : Nat → Nat → Rat) (hM : 1 ≤ M) (hN : 1 ≤ N) (k l : Nat) :
    colExt M pr wt wb (rowExt N pc wl wr f) k l = rowExt N pc wl wr (colExt M pr wt wb f) k l := by
  obtain ⟨Kc, hKc'⟩ := padEdges_getD_isLin M pr (min wt M) (min wb M) k hM
  obtain ⟨Kr, hKr'⟩ := padEdges_getD_isLin N pc (min wl N) (min wr N) l hN
  have hKc : ∀ g : Nat → Rat, (padEdges ((List.range M).map g) pr (min wt M) (min wb M)).getD k 0 =
      sumL ((List.range M).map fun j => Kc j * g j) := hKc'
  have hKr : ∀ g : Nat → Rat, (padEdges ((List.range N).map g) pc (min wl N) (min wr N)).getD l 0 =
      sumL ((List.range N).map fun j => Kr j * g j) := hKr'
  have e1 : colExt M pr wt wb (rowExt N pc wl wr f) k l =
      sumL ((List.range M).map fun i => Kc i * sumL ((List.range N).map fun j => Kr j * f i j)) := by
    unfold colExt
    rw [hKc (fun i => rowExt N pc wl wr f i l)]
    congr 1
    apply List.map_congr_left
    intro i _
    unfold rowExt
    rw [hKr (fun j => f i j)]
  have e2 : rowExt N pc wl wr (colExt M pr wt wb f) k l =
      sumL ((List.range N).map fun j => Kr j * sumL ((List.range M).map fun i => Kc i * f i j)) := by
    unfold rowExt
    rw [hKr (fun j => colExt M pr wt wb f k j)]
    congr 1
    apply List.map_congr_left
    intro j _
    unfold colExt
    rw [hKc (fun i => f i j)]
  rw [e1, e2, sumL_swap]

/-- the two orders of padding give the same matrix, so the average in the corners is the average of
a number with itself: `_extrapolate2d` IS "pad the rows, then pad the columns" (and the converse) -/
theorem extrapolate2d_eq_orders (y : List (List Rat)) (M N pr pc wt wb wl wr : Nat) (hM : y.length = M)
    (hrect : ∀ row ∈ y, row.length = N) (hM1 : 1 ≤ M) (hN1 : 1 ≤ N) :
    padCols (padRows y pc wl wr) pr wt wb = padRows (padCols y pr wt wb) pc wl wr ∧
    extrapolate2d y pr pc wt wb wl wr = padRows (padCols y pr wt wb) pc wl wr := by
  have h := eq_tab y M N hM hrect
  generalize ent y = f at h
  subst h
  have hcomm : padCols (padRows (tab M N f) pc wl wr) pr wt wb = padRows (padCols (tab M N f) pr wt wb) pc wl wr := by
    rw [padRows_tab, padCols_tab _ _ _ _ _ _ hM1 (by omega), padCols_tab _ _ _ _ _ _ hM1 hN1, padRows_tab]
    apply tab_congr
    intro k l _ _
    exact colExt_rowExt_comm M N pr pc wt wb wl wr f hM1 hN1 k l
  refine ⟨hcomm, ?_⟩
  rw [extrapolate2d_tab _ _ _ _ _ _ _ _ _ hM1 hN1, padCols_tab _ _ _ _ _ _ hM1 hN1, padRows_tab]
  apply tab_congr
  intro k l _ _
  rw [colExt_rowExt_comm M N pr pc wt wb wl wr f hM1 hN1 k l, half_self]

/-- hence EVERY row of the result — the top and bottom strips with their corners too — is the 1-D
`padEdges` of the corresponding row of the column-padded data -/
theorem extrapolate2d_all_rows (y : List (List Rat)) (M N pr pc wt wb wl wr : Nat) (hM : y.length = M)
    (hrect : ∀ row ∈ y, row.length = N) (hM1 : 1 ≤ M) (hN1 : 1 ≤ N) (k : Nat) (hk : k < M + 2 * pr) :
    (extrapolate2d y pr pc wt wb wl wr).getD k [] =
      padEdges ((padCols y pr wt wb).getD k []) pc (min wl N) (min wr N) := by
  rw [(extrapolate2d_eq_orders y M N pr pc wt wb wl wr hM hrect hM1 hN1).2]
  have h := eq_tab y M N hM hrect
  generalize ent y = f at h
  subst h
  rw [padCols_tab _ _ _ _ _ _ hM1 hN1, padRows_tab, tab_getD _ _ _ _ hk, tab_getD _ _ _ _ hk]
  have hl := padEdges_length ((List.range N).map fun j => colExt M pr wt wb f k j) pc (min wl N) (min wr N)
  simp only [List.length_map, List.length_range] at hl
  conv_rhs => rw [← map_getD_range (padEdges ((List.range N).map fun j => colExt M pr wt wb f k j) pc (min wl N) (min wr N)), hl]
  rfl

end PbVerif.Lemmas
