import Mathlib.Data.Fintype.BigOperators
import Mathlib.Algebra.BigOperators.Group.Finset.Basic
import Mathlib.Algebra.Order.Field.Rat
import Mathlib.Algebra.BigOperators.Ring.Finset
import Mathlib.Algebra.Order.BigOperators.Ring.Finset
import Mathlib.Algebra.BigOperators.Intervals
import Mathlib.Data.Nat.Choose.Sum
import Mathlib.Tactic.Ring
import Mathlib.Tactic.Linarith
import Mathlib.Tactic.FieldSimp
import PbVerif.Model.Poly
/-! Helper lemmas for C08 (proofs). -/
namespace PbVerif.Lemmas
open PbVerif.Poly

/-! ### bridges from the import-free model to Mathlib sums -/

theorem foldl_add_eq (l : List Rat) (a : Rat) : l.foldl (· + ·) a = a + l.sum := by
  induction l generalizing a with
  | nil => simp
  | cons x xs ih => simp only [List.foldl_cons, List.sum_cons, ih]; ring

theorem sumL_eq_sum (l : List Rat) : sumL l = l.sum := by
  unfold sumL; rw [foldl_add_eq]; simp

theorem sumL_range_map (n : Nat) (f : Nat → Rat) :
    sumL ((List.range n).map f) = ∑ i ∈ Finset.range n, f i := by
  rw [sumL_eq_sum]
  induction n with
  | zero => simp
  | succ n ih =>
    rw [List.range_succ, List.map_append, List.sum_append, ih, Finset.sum_range_succ]
    simp

theorem binom_eq_choose (n k : Nat) : binom n k = Nat.choose n k := by
  induction n generalizing k with
  | zero => cases k <;> simp [binom]
  | succ n ih =>
    cases k with
    | zero => simp [binom]
    | succ k => simp [binom, ih, Nat.choose_succ_succ]

/-- unified closed form of the transform matrix entry, valid for every offset -/
theorem polyTransformAt_eq (offset scale : Rat) (i j : Nat) :
    polyTransformAt offset scale i j =
      if i ≤ j then (Nat.choose j i : Rat) * (1 / scale) ^ j * (-offset) ^ (j - i) else 0 := by
  unfold polyTransformAt
  rw [binom_eq_choose]
  by_cases ho : offset = 0
  · subst ho
    rw [if_pos rfl]
    by_cases hji : j = i
    · subst hji; simp
    · rw [if_neg hji]
      by_cases hle : i ≤ j
      · rw [if_pos hle]
        have : j - i ≠ 0 := by omega
        simp [this]
      · rw [if_neg hle]
  · rw [if_neg ho]
    by_cases hle : i ≤ j
    · rw [if_pos hle, if_pos hle]
    · rw [if_neg hle, if_neg hle, Nat.choose_eq_zero_of_lt (by omega)]
      simp

/-- the `offset == 0` branch of `_poly_transform_matrix` equals the general formula with `0⁰ = 1` -/
theorem polyTransformAt_offset_zero (scale : Rat) (i j : Nat) :
    polyTransformAt 0 scale i j =
      if i ≤ j then (binom j i : Nat) * (1 / scale) ^ j * (-(0 : Rat)) ^ (j - i) else 0 := by
  rw [polyTransformAt_eq, binom_eq_choose]

theorem binom_eq_zero (n k : Nat) (h : n < k) : binom n k = 0 := by
  rw [binom_eq_choose]; exact Nat.choose_eq_zero_of_lt h

/-- column `j` of the transform matrix, evaluated at `x`, is the mapped monomial -/
theorem transform_col (offset scale x : Rat) (n j : Nat) (hj : j < n) :
    ∑ i ∈ Finset.range n, polyTransformAt offset scale i j * x ^ i = ((x - offset) / scale) ^ j := by
  have hsub : Finset.range (j + 1) ⊆ Finset.range n := by
    intro a ha; rw [Finset.mem_range] at ha ⊢; omega
  rw [← Finset.sum_subset hsub]
  · rw [div_pow, sub_eq_add_neg, add_pow, div_eq_mul_one_div, Finset.sum_mul]
    apply Finset.sum_congr rfl
    intro i hi
    rw [Finset.mem_range] at hi
    rw [polyTransformAt_eq, if_pos (by omega), one_div_pow]
    ring
  · intro i _ hi
    rw [Finset.mem_range] at hi
    rw [polyTransformAt_eq, if_neg (by omega), zero_mul]

theorem transform_sum (offset scale x : Rat) (n : Nat) (f : Nat → Rat) :
    ∑ i ∈ Finset.range n, (∑ j ∈ Finset.range n, polyTransformAt offset scale i j * f j) * x ^ i =
      ∑ j ∈ Finset.range n, f j * ((x - offset) / scale) ^ j := by
  simp only [Finset.sum_mul]
  rw [Finset.sum_comm]
  apply Finset.sum_congr rfl
  intro j hj
  rw [← transform_col offset scale x n j (Finset.mem_range.1 hj), Finset.mul_sum]
  apply Finset.sum_congr rfl
  intro i _
  ring

/-- evaluating a polynomial whose coefficient list is `(range n).map f` -/
theorem evalPoly_range_map (n : Nat) (f : Nat → Rat) (x : Rat) :
    evalPoly ((List.range n).map f) x = ∑ i ∈ Finset.range n, f i * x ^ i := by
  unfold evalPoly
  rw [sumL_range_map, List.length_map, List.length_range]
  apply Finset.sum_congr rfl
  intro i hi
  rw [Finset.mem_range] at hi
  simp [List.getD_eq_getElem?_getD, hi]

theorem evalPoly_eq (c : List Rat) (x : Rat) :
    evalPoly c x = ∑ j ∈ Finset.range c.length, c.getD j 0 * x ^ j := by
  unfold evalPoly; rw [sumL_range_map]

/-- **converted coefficients evaluate identically**: with `x = offset + scale·t` (scale ≠ 0),
`Σ (T c)_i x^i = Σ c_j ((x − offset)/scale)^j` for every x, every coefficient vector, every domain -/
theorem convertCoef_eval (c : List Rat) (offset scale x : Rat) (hs : scale ≠ 0) :
    evalPoly (convertCoef c offset scale) x = evalPoly c ((x - offset) / scale) := by
  have _ := hs
  unfold convertCoef
  rw [evalPoly_range_map, evalPoly_eq]
  simp only [sumL_range_map]
  exact transform_sum offset scale x c.length _

theorem evalPoly2_eq (c : List (List Rat)) (x z : Rat) :
    evalPoly2 c x z = ∑ i ∈ Finset.range c.length, x ^ i * evalPoly (c.getD i []) z := by
  unfold evalPoly2; rw [sumL_range_map]

/-- 2-D analogue: `polyval2d(x, z, T_x C T_z') = polyval2d((x−o_x)/s_x, (z−o_z)/s_z, C)` for a
rectangular coefficient matrix -/
theorem convertCoef2d_eval (c : List (List Rat)) (nz : Nat) (hrect : ∀ row ∈ c, row.length = nz)
    (ox sx oz sz x z : Rat) (hsx : sx ≠ 0) (hsz : sz ≠ 0) :
    evalPoly2 (convertCoef2d c ox sx oz sz) x z = evalPoly2 c ((x - ox) / sx) ((z - oz) / sz) := by
  have _ := hsx; have _ := hsz
  have hlen : ∀ k, k < c.length → (c.getD k []).length = nz := by
    intro k hk
    apply hrect
    simp [List.getD_eq_getElem?_getD, hk]
  rw [evalPoly2_eq, evalPoly2_eq]
  unfold convertCoef2d
  simp only [List.length_map, List.length_range]
  by_cases hc : c.length = 0
  · rw [hc]; simp
  have h0 : (c.getD 0 []).length = nz := hlen 0 (by omega)
  rw [h0]
  -- rewrite each row of the converted matrix
  have hrow : ∀ i ∈ Finset.range c.length,
      x ^ i * evalPoly (((List.range c.length).map fun (i : Nat) => (List.range nz).map fun (j : Nat) =>
        sumL ((List.range c.length).map fun (k : Nat) => sumL ((List.range nz).map fun (l : Nat) =>
          polyTransformAt ox sx i k * (c.getD k []).getD l 0 * polyTransformAt oz sz j l))).getD i []) z
      = (∑ k ∈ Finset.range c.length, polyTransformAt ox sx i k *
            evalPoly (c.getD k []) ((z - oz) / sz)) * x ^ i := by
    intro i hi
    rw [Finset.mem_range] at hi
    have hget : ((List.range c.length).map fun (i : Nat) => (List.range nz).map fun (j : Nat) =>
        sumL ((List.range c.length).map fun (k : Nat) => sumL ((List.range nz).map fun (l : Nat) =>
          polyTransformAt ox sx i k * (c.getD k []).getD l 0 * polyTransformAt oz sz j l))).getD i []
        = (List.range nz).map fun (j : Nat) =>
        sumL ((List.range c.length).map fun (k : Nat) => sumL ((List.range nz).map fun (l : Nat) =>
          polyTransformAt ox sx i k * (c.getD k []).getD l 0 * polyTransformAt oz sz j l)) := by
      simp [List.getD_eq_getElem?_getD, hi]
    rw [hget, evalPoly_range_map, mul_comm]
    congr 1
    simp only [sumL_range_map]
    -- ∑_j (∑_k ∑_l Tx i k * c_kl * Tz j l) z^j = ∑_k Tx i k * ∑_l c_kl Z^l
    simp only [Finset.sum_mul]
    rw [Finset.sum_comm]
    apply Finset.sum_congr rfl
    intro k hk
    rw [Finset.mem_range] at hk
    rw [evalPoly_eq, hlen k hk, ← transform_sum oz sz z nz (fun l => (c.getD k []).getD l 0),
      Finset.mul_sum]
    apply Finset.sum_congr rfl
    intro j _
    simp only [Finset.sum_mul, Finset.mul_sum]
    apply Finset.sum_congr rfl
    intro l _
    ring
  rw [Finset.sum_congr rfl hrow, transform_sum ox sx x c.length
    (fun k => evalPoly (c.getD k []) ((z - oz) / sz))]
  apply Finset.sum_congr rfl
  intro k _
  ring

/-- `mapparms` really maps the old interval onto the new one -/
theorem mapparms_maps (o0 o1 n0 n1 : Rat) (h : o1 ≠ o0) :
    let p := mapparms o0 o1 n0 n1
    p.1 + p.2 * o0 = n0 ∧ p.1 + p.2 * o1 = n1 := by
  have h' : o1 - o0 ≠ 0 := sub_ne_zero.2 h
  simp only [mapparms]
  constructor <;> (field_simp; ring)

/-- Pythagoras for the weighted residual under the normal equations -/
theorem ls_expand (n k : Nat) (A : Fin n → Fin k → Rat) (w b : Fin n → Rat) (c c' : Fin k → Rat)
    (hne : ∀ j, (Finset.univ.sum fun i => w i * A i j * (b i - Finset.univ.sum fun l => A i l * c l)) = 0) :
    (Finset.univ.sum fun i => w i * (b i - Finset.univ.sum fun l => A i l * c' l) ^ 2) =
    (Finset.univ.sum fun i => w i * (b i - Finset.univ.sum fun l => A i l * c l) ^ 2) +
    (Finset.univ.sum fun i => w i * (Finset.univ.sum fun l => A i l * (c l - c' l)) ^ 2) := by
  have cross : (∑ i, w i * (b i - ∑ l, A i l * c l) * (∑ l, A i l * (c l - c' l))) = 0 := by
    simp only [Finset.mul_sum]
    rw [Finset.sum_comm]
    apply Finset.sum_eq_zero
    intro l _
    have : ∑ i, w i * (b i - ∑ l, A i l * c l) * (A i l * (c l - c' l)) =
        (c l - c' l) * ∑ i, w i * A i l * (b i - ∑ l, A i l * c l) := by
      rw [Finset.mul_sum]
      apply Finset.sum_congr rfl
      intro i _
      ring
    rw [this, hne l, mul_zero]
  have h1 : ∀ i, b i - ∑ l, A i l * c' l =
      (b i - ∑ l, A i l * c l) + ∑ l, A i l * (c l - c' l) := by
    intro i
    simp only [mul_sub, Finset.sum_sub_distrib]
    ring
  have h2 : ∀ i, w i * (b i - ∑ l, A i l * c' l) ^ 2 =
      w i * (b i - ∑ l, A i l * c l) ^ 2 +
      2 * (w i * (b i - ∑ l, A i l * c l) * (∑ l, A i l * (c l - c' l))) +
      w i * (∑ l, A i l * (c l - c' l)) ^ 2 := by
    intro i
    rw [h1 i]
    ring
  simp only [h2, Finset.sum_add_distrib, ← Finset.mul_sum, cross]
  ring

/-- **normal equations ⇒ weighted least-squares minimiser** (non-negative weights): if the residual
`r = b − A c` is W-orthogonal to every column of `A`, no other coefficient vector has a smaller
weighted sum of squares. Vectors are functions on `Fin n`, `A i j` the design matrix. -/
theorem normal_eq_minimiser (n k : Nat) (A : Fin n → Fin k → Rat) (w b : Fin n → Rat) (c c' : Fin k → Rat)
    (hw : ∀ i, 0 ≤ w i)
    (hne : ∀ j, (Finset.univ.sum fun i => w i * A i j * (b i - Finset.univ.sum fun l => A i l * c l)) = 0) :
    (Finset.univ.sum fun i => w i * (b i - Finset.univ.sum fun l => A i l * c l) ^ 2) ≤
    (Finset.univ.sum fun i => w i * (b i - Finset.univ.sum fun l => A i l * c' l) ^ 2) := by
  rw [ls_expand n k A w b c c' hne]
  have : 0 ≤ ∑ i, w i * (∑ l, A i l * (c l - c' l)) ^ 2 :=
    Finset.sum_nonneg fun i _ => mul_nonneg (hw i) (sq_nonneg _)
  linarith

/-- … and it is the unique one when `A'WA` is non-singular in the sense that `‖A d‖_W = 0 → d = 0` -/
theorem normal_eq_unique (n k : Nat) (A : Fin n → Fin k → Rat) (w b : Fin n → Rat) (c c' : Fin k → Rat)
    (hw : ∀ i, 0 ≤ w i)
    (hne : ∀ j, (Finset.univ.sum fun i => w i * A i j * (b i - Finset.univ.sum fun l => A i l * c l)) = 0)
    (hinj : ∀ d : Fin k → Rat, (Finset.univ.sum fun i => w i * (Finset.univ.sum fun l => A i l * d l) ^ 2) = 0 → d = 0)
    (heq : (Finset.univ.sum fun i => w i * (b i - Finset.univ.sum fun l => A i l * c' l) ^ 2) =
           (Finset.univ.sum fun i => w i * (b i - Finset.univ.sum fun l => A i l * c l) ^ 2)) :
    c' = c := by
  have _ := hw
  rw [ls_expand n k A w b c c' hne] at heq
  have h0 : ∑ i, w i * (∑ l, A i l * (c l - c' l)) ^ 2 = 0 := by linarith
  have hd := hinj (fun l => c l - c' l) h0
  funext l
  have := congrFun hd l
  simp only [Pi.zero_apply] at this
  linarith

end PbVerif.Lemmas
