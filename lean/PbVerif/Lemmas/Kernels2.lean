import PbVerif.Model.Kernels2
import PbVerif.Lemmas.BandMul
import PbVerif.Lemmas.Loess
import PbVerif.Lemmas.Kernels
import PbVerif.Lemmas.BSpline
/-! Index-bound lemmas for `_numba_banded_dot_banded`, `_quadratic_bezier_spline`, `_interp_inplace`,
`_loess_solver` and the caller lemmas (C05). -/
namespace PbVerif.Lemmas
open PbVerif.Kernels PbVerif.BandMul PbVerif.Loess PbVerif.BSpline

/-! ### slices -/

theorem normIdx_nonneg_le (i : Int) (n : Nat) : 0 ≤ normIdx i n ∧ normIdx i n ≤ n := by
  simp only [normIdx]
  split <;> omega

/-- a slice whose raw bounds satisfy `0 ≤ lo ≤ hi ≤ n` is not clipped -/
theorem sliceLen_of_inb (lo hi : Int) (n : Nat) (h0 : 0 ≤ lo) (h1 : lo ≤ hi) (h2 : hi ≤ n) :
    (sliceLen lo hi n : Int) = hi - lo := by
  simp only [sliceLen, normIdx]
  rw [if_neg (by omega), if_neg (by omega)]
  omega

/-- slices with the same raw bounds of two arrays of the same length have the same length -/
theorem sliceLen_congr (lo hi : Int) (n m : Nat) (h : n = m) : sliceLen lo hi n = sliceLen lo hi m := by
  rw [h]

/-! ### `_numba_banded_dot_banded` -/

theorem bandDotIdx_inb (rowsA colsA rowsB colsB rowsC colsC al au bl bu : Nat) (cu : Int) (n lb : Nat)
    (h : BandPre rowsA colsA rowsB colsB rowsC colsC al au bl bu cu n lb) :
    ∀ t ∈ bandDotIdx al au bl bu cu n lb, t.InB rowsA colsA rowsB colsB rowsC colsC := by
  intro t ht
  obtain ⟨ha, hb, hca, hcb, hcc, hcu, hrc⟩ := h
  unfold bandDotIdx at ht
  simp only [List.mem_flatMap, List.mem_map, bm_mem_irange] at ht
  obtain ⟨oc, ⟨hoc1, hoc2⟩, oa, ⟨hoa1, hoa2⟩, fr, ⟨hfr1, hfr2⟩, rfl⟩ := ht
  unfold BandAcc.InB
  simp only
  omega

/-- the accesses are exactly the `toNat`-free reading of the value model's loops: the value model
`BandMul.frames` (C10) clamps with `toNat`; under `BandPre` no clamp is active -/
theorem bandDotIdx_nonneg (rowsA colsA rowsB colsB rowsC colsC al au bl bu : Nat) (cu : Int) (n lb : Nat)
    (h : BandPre rowsA colsA rowsB colsB rowsC colsC al au bl bu cu n lb) :
    ∀ t ∈ bandDotIdx al au bl bu cu n lb,
      ((t.ra.toNat : Int) = t.ra ∧ (t.ca.toNat : Int) = t.ca ∧ (t.rb.toNat : Int) = t.rb ∧
       (t.cb.toNat : Int) = t.cb ∧ (t.rc.toNat : Int) = t.rc ∧ (t.cc.toNat : Int) = t.cc) := by
  intro t ht
  have := bandDotIdx_inb rowsA colsA rowsB colsB rowsC colsC al au bl bu cu n lb h t ht
  unfold BandAcc.InB at this
  omega

/-- caller lemma, `_banded_dot_banded`: band arrays with exactly `lower + upper + 1` rows and `n ≥ 1` columns,
both full shapes `(n, n)` (the wrapper checks `a.shape[1] == b.shape[1]`; `beads` passes
`full_shape = (num_y, num_y)` for arrays with `num_y` columns), output allocated by the wrapper -/
theorem pre_bandedDotBanded_of_wrapper (al au bl bu n : Nat) (sym : Bool) (hn : 1 ≤ n) :
    BandPre (al + au + 1) n (bl + bu + 1) n (bdbRows al au bl bu n n).toNat n al au bl bu
      (bdbArgs al au bl bu n n sym).1 n (bdbArgs al au bl bu n n sym).2.2 := by
  unfold bdbRows bdbArgs
  cases sym <;> constructor <;> (try simp only [Bool.false_eq_true, if_true, if_false]) <;> omega

/-- caller lemma, `_banded_beads` (misc.py): `filter_type ≥ 1` (`_high_pass_filter` raises otherwise), `A`, `B` have
`2·filter_type + 1` rows and `num_y` columns, `d_diags` has 5 rows.
Call 1 `_banded_dot_banded(B, B, ab_lu, ab_lu, …, True)` happens for every `num_y ≥ 1`;
calls 2 and 3 `_banded_dot_banded(_banded_dot_banded(A, d_diags, ab_lu, (2, 2), …), A, (ft+2, ft+2), ab_lu, …, True)`
are inside the loop, which is only reached when the earlier `gbmv` call (SciPy's wrapper demands
`m ≥ kl + ku + 1 = 4·filter_type + 1`) has succeeded.  The third call passes the OUTPUT of the second as `a`
with `a_lu = (ft+2, ft+2)`: it has the `2(ft+2)+1` rows this promises only because `num_y - 1 ≥ ft + 2`. -/
theorem pre_bandedDotBanded_of_beads (ft n : Nat) (hft : 1 ≤ ft) :
    (1 ≤ n → BandPre (2 * ft + 1) n (2 * ft + 1) n (bdbRows ft ft ft ft n n).toNat n ft ft ft ft
        (bdbArgs ft ft ft ft n n true).1 n (bdbArgs ft ft ft ft n n true).2.2) ∧
    (4 * ft + 1 ≤ n →
      BandPre (2 * ft + 1) n 5 n (bdbRows ft ft 2 2 n n).toNat n ft ft 2 2
        (bdbArgs ft ft 2 2 n n false).1 n (bdbArgs ft ft 2 2 n n false).2.2 ∧
      BandPre (bdbRows ft ft 2 2 n n).toNat n (2 * ft + 1) n (bdbRows (ft + 2) (ft + 2) ft ft n n).toNat n
        (ft + 2) (ft + 2) ft ft
        (bdbArgs (ft + 2) (ft + 2) ft ft n n true).1 n (bdbArgs (ft + 2) (ft + 2) ft ft n n true).2.2) := by
  refine ⟨fun hn => ?_, fun hn => ⟨?_, ?_⟩⟩
  · have := pre_bandedDotBanded_of_wrapper ft ft ft ft n true hn
    rwa [show ft + ft + 1 = 2 * ft + 1 by omega] at this
  · have := pre_bandedDotBanded_of_wrapper ft ft 2 2 n false (by omega)
    rwa [show ft + ft + 1 = 2 * ft + 1 by omega] at this
  · have := pre_bandedDotBanded_of_wrapper (ft + 2) (ft + 2) ft ft n true (by omega)
    have hr : (bdbRows ft ft 2 2 n n).toNat = ft + 2 + (ft + 2) + 1 := by
      unfold bdbRows bdbArgs
      simp only
      omega
    rw [hr]
    rwa [show ft + ft + 1 = 2 * ft + 1 by omega] at this

/-- without the `gbmv` guard the third call would NOT satisfy the precondition: for `num_y ≤ ft + 2` the second call
returns fewer rows than `a_lu = (ft+2, ft+2)` promises -/
theorem beads_third_call_needs_guard : ¬ BandPre (bdbRows 1 1 2 2 3 3).toNat 3 3 3
    (bdbRows 3 3 1 1 3 3).toNat 3 3 3 1 1 (bdbArgs 3 3 1 1 3 3 true).1 3 (bdbArgs 3 3 1 1 3 3 true).2.2 := by
  decide

/-! ### `_quadratic_bezier_spline` -/

theorem ixGet_nonneg (ix : List Int) (p : Int) (j : Nat) (h : p = (j : Int)) : ixGet ix p = ix.getD j 0 := by
  subst h
  unfold ixGet
  rw [if_neg (by omega)]
  simp

theorem ixGet_neg (ix : List Int) (p : Int) (j : Nat) (h : (ix.length : Int) + p = (j : Int)) (hp : p < 0) :
    ixGet ix p = ix.getD j 0 := by
  unfold ixGet
  rw [if_pos hp, h]
  simp

theorem BezPre.get_inb {N : Nat} {ix : List Int} (h : BezPre N ix) (j : Nat) (hj : j < ix.length) :
    0 ≤ ix.getD j 0 ∧ ix.getD j 0 < N := h.inb j hj

theorem BezPre.get_mono {N : Nat} {ix : List Int} (h : BezPre N ix) (j : Nat) (hj : j + 1 < ix.length) :
    ix.getD j 0 ≤ ix.getD (j + 1) 0 := h.mono j hj

theorem bezPreB_iff (N : Nat) (ix : List Int) : bezPreB N ix = true ↔ BezPre N ix := by
  unfold bezPreB
  simp only [Bool.and_eq_true, List.all_eq_true, List.mem_range, decide_eq_true_eq]
  constructor
  · rintro ⟨h1, h2⟩
    exact ⟨fun p hp => h1 p hp, fun p hp => h2 p (by omega)⟩
  · rintro ⟨h1, h2⟩
    exact ⟨fun p hp => h1 p hp, fun p hp => h2 p (by omega)⟩

/-- the half-way index lies between its two control points (for EVERY outcome of `argmin`) -/
theorem bezRight_bounds {N : Nat} {ix : List Int} (h : BezPre N ix) (am : Nat → Nat) (j : Nat)
    (hj : j + 1 < ix.length) :
    ix.getD j 0 ≤ bezRight N ix am j ∧ bezRight N ix am j ≤ ix.getD (j + 1) 0 := by
  have h1 := h.inb j (by omega)
  have h2 := h.inb (j + 1) hj
  have h3 := h.mono j hj
  unfold bezRight
  simp only
  rw [ixGet_nonneg ix (j : Int) j rfl, ixGet_nonneg ix ((j : Int) + 1) (j + 1) (by omega)]
  have hs := sliceLen_of_inb (ix.getD j 0) (ix.getD (j + 1) 0 + 1) N (by omega) (by omega) (by omega)
  have hpos : 0 < sliceLen (ix.getD j 0) (ix.getD (j + 1) 0 + 1) N := by omega
  have hm := Nat.mod_lt (am (j - 1)) hpos
  omega

theorem mem_cutAtEmpty (N : Nat) (e : Ev) : ∀ l : List Ev, e ∈ cutAtEmpty N l → e ∈ l := by
  intro l
  induction l with
  | nil => intro h; simp [cutAtEmpty] at h
  | cons a t ih =>
    intro h
    cases a with
    | am lo hi =>
      simp only [cutAtEmpty] at h
      split at h
      · simp only [List.mem_cons] at h
        rcases h with h | h
        · simp [h]
        · exact List.mem_cons_of_mem _ (List.mem_of_mem_take h)
      · simp only [List.mem_cons] at h
        rcases h with h | h
        · simp [h]
        · exact List.mem_cons_of_mem _ (ih h)
    | _ =>
      simp only [cutAtEmpty, List.mem_cons] at h
      rcases h with h | h
      · simp [h]
      · exact List.mem_cons_of_mem _ (ih h)

theorem bezFirst_ok {N : Nat} {ix : List Int} (h : BezPre N ix) (am : Nat → Nat) (hM : 4 ≤ ix.length) :
    ∀ e ∈ bezFirst N ix am, e.Ok N N ix.length := by
  have b := bezRight_bounds h am 1 (by omega)
  rw [show (1 + 1 : Nat) = 2 from rfl] at b
  have g0 := h.inb 0 (by omega)
  have g1 := h.inb 1 (by omega)
  have g2 := h.inb 2 (by omega)
  have m1 := h.mono 1 (by omega)
  intro e he
  unfold bezFirst at he
  simp only [ixGet_nonneg ix 1 1 rfl, ixGet_nonneg ix 2 2 rfl, ixGet_nonneg ix 0 0 rfl] at he
  simp only [List.mem_cons, List.not_mem_nil, or_false] at he
  rcases he with rfl | rfl | rfl | rfl | rfl | rfl | rfl | rfl | rfl | rfl | rfl | rfl | rfl | rfl | rfl <;>
    simp only [Ev.Ok] <;> omega

theorem bezIter_ok {N : Nat} {ix : List Int} (h : BezPre N ix) (am : Nat → Nat) (eq : Nat → Bool) (j : Nat)
    (hj2 : 2 ≤ j) (hj : j + 2 < ix.length) :
    ∀ e ∈ bezIter N ix am eq j, e.Ok N N ix.length := by
  have bl := bezRight_bounds h am (j - 1) (by omega)
  have br := bezRight_bounds h am j (by omega)
  have hjj : j - 1 + 1 = j := by omega
  rw [hjj] at bl
  have gp := h.inb (j - 1) (by omega)
  have g1 := h.inb j (by omega)
  have g2 := h.inb (j + 1) (by omega)
  intro e he
  unfold bezIter at he
  simp only [ixGet_nonneg ix (j : Int) j rfl, ixGet_nonneg ix ((j : Int) + 1) (j + 1) (by omega)] at he
  simp only [List.mem_append, List.mem_cons, List.not_mem_nil, or_false] at he
  rcases he with (rfl | rfl | rfl | rfl | rfl) | he
  · simp only [Ev.Ok]; omega
  · simp only [Ev.Ok]; omega
  · simp only [Ev.Ok]; omega
  · simp only [Ev.Ok]; omega
  · simp only [Ev.Ok]; omega
  · split at he
    · simp at he
    · simp only [List.mem_cons, List.not_mem_nil, or_false] at he
      rcases he with rfl | rfl | rfl | rfl | rfl <;> simp only [Ev.Ok] <;> omega

theorem bezLast_ok {N : Nat} {ix : List Int} (h : BezPre N ix) (am : Nat → Nat) (hM : 4 ≤ ix.length) :
    ∀ e ∈ bezLast N ix am, e.Ok N N ix.length := by
  have b := bezRight_bounds h am (ix.length - 3) (by omega)
  have hjj : ix.length - 3 + 1 = ix.length - 2 := by omega
  rw [hjj] at b
  have g3 := h.inb (ix.length - 3) (by omega)
  have g2 := h.inb (ix.length - 2) (by omega)
  have g1 := h.inb (ix.length - 1) (by omega)
  intro e he
  unfold bezLast at he
  simp only [ixGet_neg ix (-2) (ix.length - 2) (by omega) (by omega),
    ixGet_neg ix (-1) (ix.length - 1) (by omega) (by omega)] at he
  simp only [List.mem_cons, List.not_mem_nil, or_false] at he
  rcases he with rfl | rfl | rfl | rfl | rfl | rfl | rfl | rfl <;> simp only [Ev.Ok] <;> omega

/-- `_quadratic_bezier_spline`: control indices inside `x` and non-decreasing ⇒ every scalar index is inside its
array, no slice is clipped, every `argmin` sees a non-empty slice — for every outcome of `argmin` and of the
`right_x - left_x == 0` test, every number of control points and every `N` -/
theorem bezierTrace_ok {N ny : Nat} {ix : List Int} (h : BezPre N ix) (am : Nat → Nat) (eq : Nat → Bool) :
    ∀ e ∈ bezierTrace N ny ix am eq, e.Ok N ny ix.length := by
  intro e he
  unfold bezierTrace at he
  simp only at he
  split at he
  · simp at he
  · rename_i hN
    have hN : N = ny := by omega
    subst hN
    split at he
    · simp at he
    · rename_i hM2
      split at he
      · rename_i hM4
        have g0 := h.inb 0 (by omega)
        have gl := h.inb (ix.length - 1) (by omega)
        simp only [ixGet_nonneg ix 0 0 rfl, ixGet_neg ix (-1) (ix.length - 1) (by omega) (by omega),
          ixGet_nonneg ix 1 1 rfl] at he
        simp only [List.mem_append, List.mem_cons, List.not_mem_nil, or_false] at he
        rcases he with (rfl | rfl | rfl | rfl | rfl | rfl) | he
        · simp only [Ev.Ok]; omega
        · simp only [Ev.Ok]; omega
        · simp only [Ev.Ok]; omega
        · simp only [Ev.Ok]; omega
        · simp only [Ev.Ok]; omega
        · simp only [Ev.Ok]; omega
        · split at he
          · simp at he
          · have g1 := h.inb 1 (by omega)
            simp only [List.mem_cons, List.not_mem_nil, or_false] at he
            rcases he with rfl | rfl <;> simp only [Ev.Ok] <;> omega
      · rename_i hM4
        have he' := mem_cutAtEmpty N e _ he
        simp only [List.mem_append, List.mem_flatMap, List.mem_range] at he'
        rcases he' with (he' | ⟨k, hk, he'⟩) | he'
        · exact bezFirst_ok h am (by omega) e he'
        · exact bezIter_ok h am eq (k + 2) (by omega) (by omega) e he'
        · exact bezLast_ok h am (by omega) e he'

/-- under the precondition no `argmin` is applied to an empty slice, so nothing is cut from the trace:
the whole spline is constructed -/
theorem cutAtEmpty_eq_self (N ny M : Nat) : ∀ l : List Ev, (∀ e ∈ l, e.Ok N ny M) → cutAtEmpty N l = l := by
  intro l
  induction l with
  | nil => intro _; rfl
  | cons a t ih =>
    intro hl
    have ht := ih (fun e he => hl e (List.mem_cons_of_mem _ he))
    cases a with
    | am lo hi =>
      have ha := hl (.am lo hi) (by simp)
      simp only [Ev.Ok] at ha
      have hs := sliceLen_of_inb lo hi N (by omega) (by omega) (by omega)
      simp only [cutAtEmpty]
      rw [if_neg (by omega), ht]
    | _ => simp only [cutAtEmpty, ht]

/-- caller lemma, `corner_cutting` (spline.py): the control points are `np.flatnonzero(mask)` of a Boolean mask
with one entry per data point — strictly increasing positions inside `[0, N)` -/
theorem pre_bezierSpline_of_flatnonzero (mask : List Bool) : BezPre mask.length (flatnonzero mask) := by
  have hpw : ((List.range mask.length).filter fun (i : Nat) => mask.getD i false).Pairwise (· < ·) :=
    List.Pairwise.filter _ List.pairwise_lt_range
  have hget : ∀ p, p < (flatnonzero mask).length → ∃ (hp : p < ((List.range mask.length).filter
      fun (i : Nat) => mask.getD i false).length),
      (flatnonzero mask).getD p 0 = ((((List.range mask.length).filter fun (i : Nat) => mask.getD i false)[p] : Nat) : Int) := by
    intro p hp
    unfold flatnonzero at hp ⊢
    rw [List.length_map] at hp
    refine ⟨hp, ?_⟩
    rw [List.getD_eq_getElem?_getD, List.getElem?_map, List.getElem?_eq_getElem hp]
    rfl
  constructor
  · intro p hp
    obtain ⟨hp', he⟩ := hget p hp
    rw [he]
    have hm := List.getElem_mem hp'
    rw [List.mem_filter, List.mem_range] at hm
    omega
  · intro p hp
    obtain ⟨hp1, he1⟩ := hget p (by omega)
    obtain ⟨hp2, he2⟩ := hget (p + 1) hp
    rw [he1, he2]
    have := (List.pairwise_iff_getElem.1 hpw) p (p + 1) hp1 hp2 (by omega)
    omega

/-! ### `_interp_inplace`, `_fill_skips` -/

/-- `_interp_inplace(x, y, …)` with `len(x) = len(y) ≥ 1`: `x[0]`, `x[-1]` exist and the slice assignment
`y[1:-1] = f(x[1:-1])` has matching lengths -/
theorem interpInplace_inb' (nx ny : Nat) (h1 : 1 ≤ nx) (hxy : nx = ny) :
    (∀ i ∈ interpScalarIdx, -(nx : Int) ≤ i ∧ i < nx) ∧ (interpSliceLens nx ny).1 = (interpSliceLens nx ny).2 := by
  subst hxy
  refine ⟨?_, rfl⟩
  intro i hi
  simp only [interpScalarIdx, List.mem_cons, List.not_mem_nil, or_false] at hi
  rcases hi with rfl | rfl | rfl <;> omega

/-- caller lemma, `_fill_skips`: every skip range `(left, right)` produced by `_determine_fits` gives scalar
reads inside `baseline` and two equally long, non-empty (≥ 2 points) slices for `_interp_inplace` -/
theorem pre_interpInplace_of_fillSkips' (o : Oracle) (n tp : Nat) (check : Bool) (hn : 1 ≤ n) :
    ∀ s ∈ (determineFits o n tp check).2.2,
      (∀ i ∈ (fillSkipsCall n n (s.1 : Int) (s.2 : Int)).1, 0 ≤ i ∧ i < (n : Int)) ∧
      (fillSkipsCall n n (s.1 : Int) (s.2 : Int)).2.1 = (fillSkipsCall n n (s.1 : Int) (s.2 : Int)).2.2 ∧
      2 ≤ (fillSkipsCall n n (s.1 : Int) (s.2 : Int)).2.1 := by
  intro s hs
  have h := determineFits_skips_inb o n tp check hn s hs
  have hl := sliceLen_of_inb (s.1 : Int) (s.2 : Int) n (by omega) (by omega) (by omega)
  refine ⟨?_, rfl, ?_⟩
  · intro i hi
    simp only [fillSkipsCall, List.mem_cons, List.not_mem_nil, or_false] at hi
    rcases hi with rfl | rfl <;> omega
  · simp only [fillSkipsCall]
    omega

/-! ### `_loess_solver` and the loess loops -/

theorem loessSolver_inb' (m w wb : Nat) (h : w = wb) :
    loessSolverShape m w wb = some m ∧ (∀ p ∈ (loessSolverIdx m w).1, p.1 < m ∧ p.2 < w) ∧
    ∀ k ∈ (loessSolverIdx m w).2, k < wb := by
  subst h
  refine ⟨by simp [loessSolverShape], ?_, ?_⟩
  · intro p hp
    simp only [loessSolverIdx, List.mem_flatMap, List.mem_map, List.mem_range] at hp
    obtain ⟨i, hi, k, hk, rfl⟩ := hp
    exact ⟨hi, hk⟩
  · intro k hk
    simp only [loessSolverIdx, List.mem_flatMap, List.mem_range] at hk
    obtain ⟨_, _, hk⟩ := hk
    exact hk

/-- caller lemma for `_loess_solver` and the scalar indices of the three loess loops: a window `(left, right)` of exactly
`total_points ≥ 1` indices inside `[0, N)` and a fit index inside `[0, N)` -/
theorem pre_loessSolver_of_window' (N po tp : Nat) (cached : Bool) (i left right : Int)
    (hl : 0 ≤ left) (hr : right ≤ N) (hw : right - left = tp) (htp : 1 ≤ tp) (hi : 0 ≤ i ∧ i < N) :
    (loessIter N po tp cached i left right).wlen = tp ∧
    (loessIter N po tp cached i left right).kernelLen = tp ∧
    (loessIter N po tp cached i left right).solver = some (po + 1) ∧
    (∀ d ∈ (loessIter N po tp cached i left right).diffIdx, -(tp : Int) ≤ d ∧ d < tp) ∧
    0 ≤ (loessIter N po tp cached i left right).rowIdx ∧ (loessIter N po tp cached i left right).rowIdx < N := by
  have hs := sliceLen_of_inb left right N hl (by omega) hr
  have hs' : sliceLen left right N = tp := by omega
  unfold loessIter
  simp only [hs']
  refine ⟨trivial, by cases cached <;> simp, by cases cached <;> simp [loessSolverShape], ?_, hi.1, hi.2⟩
  intro d hd
  simp only [List.mem_cons, List.not_mem_nil, or_false] at hd
  rcases hd with rfl | rfl <;> omega

/-- caller lemma, `loess`: the two `raise` guards on `total_points` together with the `poly_order ≥ 0` check of
`_setup_polynomial` give `1 ≤ total_points ≤ N` (and hence `N ≥ 1`) -/
theorem pre_loess_of_guards' (N : Nat) (tp po : Int) (h : loessGuards N tp po = true) :
    1 ≤ tp ∧ tp ≤ N ∧ 1 ≤ N ∧ ((tp.toNat : Nat) : Int) = tp := by
  simp only [loessGuards, Bool.and_eq_true, Bool.not_eq_true', decide_eq_false_iff_not] at h
  omega

/-! ### remaining callers -/

/-- caller lemma, P-spline family: `num_knots ≥ 2` (`_spline_knots` raises otherwise) ⇒ the knot vector has
`num_bases + degree + 1` entries with `num_bases = num_knots + degree - 1 > degree` -/
theorem pre_spline_of_guards' (a b : Rat) (nk deg : Nat) (h : 2 ≤ nk) :
    deg < (splineKnots a b nk deg).length - (deg + 1) ∧
    (splineKnots a b nk deg).length = ((splineKnots a b nk deg).length - (deg + 1)) + deg + 1 ∧
    (splineKnots a b nk deg).length - (deg + 1) = nk + deg - 1 := by
  rw [splineKnots_length]
  omega

/-- caller lemma, `peak_filling` (scalar `sections`, the only path that reaches the kernel): `1 ≤ sections`,
`half_win ≥ 1` before clipping ⇒ `1 ≤ data_len ≤ len(y_truncated)` and a non-negative half window, hence
(`dirMinMovAvg_inb`) every index is inside `y_truncated`, for the first and for EVERY later non-negative half window -/
theorem pre_dirMinMovingAvg_of_guards' (sections : Int) (lp rp : Nat) (halfWin : Int)
    (hs : 1 ≤ sections) (hh : 1 ≤ halfWin) :
    1 ≤ (peakFillingArgs sections lp rp halfWin).2.1 ∧
    (peakFillingArgs sections lp rp halfWin).2.1 ≤ (peakFillingArgs sections lp rp halfWin).1 ∧
    0 ≤ (peakFillingArgs sections lp rp halfWin).2.2 ∧
    ∀ hw : Nat, ∀ i ∈ dirMinMovAvgIdx (peakFillingArgs sections lp rp halfWin).2.1.toNat hw,
      0 ≤ i ∧ i < (peakFillingArgs sections lp rp halfWin).1 := by
  simp only [peakFillingArgs]
  refine ⟨hs, by omega, by split <;> omega, ?_⟩
  intro hw i hi
  have := dirMinMovAvg_inb sections.toNat hw (by omega) i hi
  omega

/-- caller lemma, `_padded_rolling_std`: when `np.pad(data, half_window, 'reflect')` succeeds the kernel gets
`N + 2·half_window` points with `N ≥ 1`, `half_window ≥ 0` -/
theorem pre_rollingStd_of_guards' (n : Nat) (hw L : Int) (h : paddedLen n hw = some L) :
    0 ≤ hw ∧ 1 ≤ n ∧ L = ((n + 2 * hw.toNat : Nat) : Int) ∧
    (∀ i ∈ rollingStdDataIdx (n + 2 * hw.toNat) hw.toNat, 0 ≤ i ∧ i < L) ∧
    (∀ i ∈ rollingStdSqIdx (n + 2 * hw.toNat) hw.toNat, 0 ≤ i ∧ i < L) := by
  unfold paddedLen at h
  split at h
  · simp at h
  · rename_i hc
    simp only [Option.some.injEq] at h
    have hL : L = ((n + 2 * hw.toNat : Nat) : Int) := by omega
    refine ⟨by omega, by omega, hL, ?_, ?_⟩
    · intro i hi
      have := rollingStdData_inb n hw.toNat (by omega) i hi
      omega
    · intro i hi
      have := rollingStdSq_inb n hw.toNat (by omega) i hi
      omega

end PbVerif.Lemmas
