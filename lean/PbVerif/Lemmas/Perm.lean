import PbVerif.Model.Perm
/-! Helper lemmas for C02 (proofs). -/
namespace PbVerif.Lemmas
open PbVerif.Perm

theorem invertedSort_left (σ : List Nat) (hσ : σ.Perm (List.range σ.length)) (i : Nat) (hi : i < σ.length) :
    (invertedSort σ).getD (σ.getD i 0) 0 = i := by sorry

theorem take_take_inverted {α} (a : List α) (d : α) (σ : List Nat) (hσ : σ.Perm (List.range σ.length))
    (ha : a.length = σ.length) : takeL (takeL a d σ) d (invertedSort σ) = a := by sorry

theorem take_inverted_take {α} (a : List α) (d : α) (σ : List Nat) (hσ : σ.Perm (List.range σ.length))
    (ha : a.length = σ.length) : takeL (takeL a d (invertedSort σ)) d σ = a := by sorry

theorem argsort_perm (x : List Rat) : (argsort x).Perm (List.range x.length) := by sorry
theorem argsort_sorted (x : List Rat) : (takeL x 0 (argsort x)).Pairwise (· ≤ ·) := by sorry

theorem determineSorts_none_iff (x : List Rat) : determineSorts x = none ↔ x.Pairwise (· ≤ ·) := by sorry

theorem run1d_equivariant
    (core : List Rat → List Rat → Option (List Rat) → List Rat × List (List Rat))
    (hcore : ∀ xs ys ws, (core xs ys ws).1.length = xs.length ∧ ∀ a ∈ (core xs ys ws).2, a.length = xs.length)
    (x y : List Rat) (w : Option (List Rat)) (π : List Nat)
    (hx : x.Nodup) (hy : y.length = x.length) (hw : ∀ v, w = some v → v.length = x.length)
    (hπ : π.Perm (List.range x.length)) :
    run1d core (takeL x 0 π) (takeL y 0 π) (w.map (takeL · 0 π)) =
      ((takeL (run1d core x y w).1 0 π), (run1d core x y w).2.map (takeL · 0 π)) := by sorry

theorem run2d_equivariant
    (core : List Rat → List Rat → List (List Rat) → Option (List (List Rat)) →
      List (List Rat) × List (List (List Rat)))
    (hcore : ∀ xs zs ys ws, let r := core xs zs ys ws
        (r.1.length = xs.length ∧ ∀ row ∈ r.1, row.length = zs.length) ∧
        ∀ a ∈ r.2, a.length = xs.length ∧ ∀ row ∈ a, row.length = zs.length)
    (x z : List Rat) (y : List (List Rat)) (w : Option (List (List Rat))) (πx πz : List Nat)
    (hx : x.Nodup) (hz : z.Nodup)
    (hy : y.length = x.length ∧ ∀ row ∈ y, row.length = z.length)
    (hw : ∀ v, w = some v → v.length = x.length ∧ ∀ row ∈ v, row.length = z.length)
    (hπx : πx.Perm (List.range x.length)) (hπz : πz.Perm (List.range z.length)) :
    run2d core (takeL x 0 πx) (takeL z 0 πz) (sort2d y (some πx) (some πz))
        (w.map (sort2d · (some πx) (some πz))) =
      (sort2d (run2d core x z y w).1 (some πx) (some πz),
       (run2d core x z y w).2.map (sort2d · (some πx) (some πz))) := by sorry

theorem extendSortOrder_perm (σ : List Nat) (side k : Nat) (hσ : σ.Perm (List.range σ.length)) :
    (extendSortOrder σ side k).Perm (List.range (extendSortOrder σ side k).length) := by sorry

theorem extendSortOrder_left (σ : List Nat) (k i : Nat) (hi : i < k) :
    (extendSortOrder σ 1 k).getD i 0 = i ∧ (extendSortOrder σ 0 k).getD i 0 = i := by sorry
theorem extendSortOrder_mid (σ : List Nat) (k i : Nat) (hi : i < σ.length) :
    (extendSortOrder σ 1 k).getD (k + i) 0 = σ.getD i 0 + k ∧
    (extendSortOrder σ 0 k).getD (k + i) 0 = σ.getD i 0 + k ∧
    (extendSortOrder σ 2 k).getD i 0 = σ.getD i 0 := by sorry

end PbVerif.Lemmas
