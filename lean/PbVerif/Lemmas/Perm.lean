import PbVerif.Model.Perm
/-! Helper lemmas for C02 (proofs). -/
namespace PbVerif.Lemmas
open PbVerif.Perm

/-! ### basic `takeL` facts -/

theorem nodup_getElem_inj {α} {l : List α} (h : l.Nodup) {i j : Nat} (hi : i < l.length)
    (hj : j < l.length) (e : l[i] = l[j]) : i = j := by
  have h' := List.pairwise_iff_getElem.1 h
  rcases Nat.lt_trichotomy i j with h1 | h1 | h1
  · exact absurd e (h' i j hi hj h1)
  · exact h1
  · exact absurd e.symm (h' j i hj hi h1)

@[simp] theorem takeL_length {α} (a : List α) (d : α) (idx : List Nat) :
    (takeL a d idx).length = idx.length := by simp [takeL]

theorem takeL_getElem {α} (a : List α) (d : α) (idx : List Nat) (i : Nat) (hi : i < idx.length) :
    (takeL a d idx)[i]'(by simpa using hi) = a.getD idx[i] d := by simp [takeL]

theorem takeL_range {α} (a : List α) (d : α) : takeL a d (List.range a.length) = a := by
  apply List.ext_getElem
  · simp
  · intro i h1 h2
    simp [takeL, List.getD_eq_getElem?_getD, h2]

theorem takeL_takeL {α} (a : List α) (d : α) (π idx : List Nat) (h : ∀ i ∈ idx, i < π.length) :
    takeL (takeL a d π) d idx = takeL a d (takeL π 0 idx) := by
  unfold takeL
  rw [List.map_map]
  apply List.map_congr_left
  intro i hi
  have := h i hi
  simp [List.getD_eq_getElem?_getD, this]

theorem takeL_map {α β} (l : List α) (f : α → β) (d : α) (d' : β) (idx : List Nat)
    (h : ∀ i ∈ idx, i < l.length) : takeL (l.map f) d' idx = (takeL l d idx).map f := by
  unfold takeL
  rw [List.map_map]
  apply List.map_congr_left
  intro i hi
  have := h i hi
  simp [List.getD_eq_getElem?_getD, this]

theorem perm_range_lt {σ : List Nat} {n : Nat} (h : σ.Perm (List.range n)) : ∀ i ∈ σ, i < n := by
  intro i hi
  exact List.mem_range.1 (h.mem_iff.1 hi)

theorem perm_range_nodup {σ : List Nat} {n : Nat} (h : σ.Perm (List.range n)) : σ.Nodup :=
  h.nodup_iff.2 List.nodup_range

theorem perm_range_length {σ : List Nat} {n : Nat} (h : σ.Perm (List.range n)) : σ.length = n := by
  simpa using h.length_eq

theorem takeL_perm {α} (a : List α) (d : α) (τ : List Nat) (h : τ.Perm (List.range a.length)) :
    (takeL a d τ).Perm a := by
  have := h.map (fun i => a.getD i d)
  have e := takeL_range a d
  unfold takeL at *
  rwa [e] at this


/-! ### `invertedSort` -/

theorem scatterUpTo_length (σ : List Nat) (k : Nat) : (scatterUpTo σ k).length = σ.length := by
  induction k with
  | zero => simp [scatterUpTo]
  | succ k ih => simp [scatterUpTo, ih]

theorem scatterUpTo_spec (σ : List Nat) (hn : σ.Nodup) (hlt : ∀ i ∈ σ, i < σ.length) (k : Nat)
    (hk : k ≤ σ.length) (i : Nat) (hi : i < k) :
    (scatterUpTo σ k).getD (σ.getD i 0) 0 = i := by
  induction k with
  | zero => omega
  | succ k ih =>
    have hkl : k < σ.length := by omega
    have hil : i < σ.length := by omega
    simp only [scatterUpTo, List.getD_eq_getElem?_getD]
    by_cases hik : i = k
    · subst hik
      have : σ[i] < (scatterUpTo σ i).length := by
        rw [scatterUpTo_length]; exact hlt _ (List.getElem_mem _)
      simp [hil, this]
    · have hne : σ[k] ≠ σ[i] := fun e => hik (nodup_getElem_inj hn hil hkl e.symm)
      have := ih (by omega) (by omega)
      simp only [List.getD_eq_getElem?_getD] at this
      simp only [List.getElem?_eq_getElem hkl, List.getElem?_eq_getElem hil, Option.getD_some] at this ⊢
      rw [List.getElem?_set_ne hne]
      exact this

theorem invertedSort_length (σ : List Nat) : (invertedSort σ).length = σ.length :=
  scatterUpTo_length σ σ.length

theorem invertedSort_left (σ : List Nat) (hσ : σ.Perm (List.range σ.length)) (i : Nat) (hi : i < σ.length) :
    (invertedSort σ).getD (σ.getD i 0) 0 = i :=
  scatterUpTo_spec σ (perm_range_nodup hσ) (perm_range_lt hσ) σ.length (Nat.le_refl _) i hi

/-- every `j < n` is `σ[k]` for some `k < n` -/
theorem perm_range_surj {σ : List Nat} (hσ : σ.Perm (List.range σ.length)) {j : Nat} (hj : j < σ.length) :
    ∃ k, ∃ hk : k < σ.length, σ[k] = j := by
  have : j ∈ σ := hσ.mem_iff.2 (List.mem_range.2 hj)
  obtain ⟨k, hk, e⟩ := List.getElem_of_mem this
  exact ⟨k, hk, e⟩

theorem invertedSort_right (σ : List Nat) (hσ : σ.Perm (List.range σ.length)) (j : Nat) (hj : j < σ.length) :
    (invertedSort σ).getD j 0 < σ.length ∧ σ.getD ((invertedSort σ).getD j 0) 0 = j := by
  obtain ⟨k, hk, e⟩ := perm_range_surj hσ hj
  have := invertedSort_left σ hσ k hk
  simp only [List.getD_eq_getElem?_getD, List.getElem?_eq_getElem hk, Option.getD_some, e] at this
  simp only [List.getD_eq_getElem?_getD, this]
  simp [hk, e]

theorem invertedSort_lt (σ : List Nat) (hσ : σ.Perm (List.range σ.length)) :
    ∀ i ∈ invertedSort σ, i < σ.length := by
  intro i hi
  obtain ⟨j, hj, e⟩ := List.getElem_of_mem hi
  have hj' : j < σ.length := by rwa [invertedSort_length] at hj
  have := (invertedSort_right σ hσ j hj').1
  simpa [List.getD_eq_getElem?_getD, hj, e] using this

theorem take_take_inverted {α} (a : List α) (d : α) (σ : List Nat) (hσ : σ.Perm (List.range σ.length))
    (ha : a.length = σ.length) : takeL (takeL a d σ) d (invertedSort σ) = a := by
  rw [takeL_takeL _ _ _ _ (invertedSort_lt σ hσ)]
  apply List.ext_getElem
  · simp [invertedSort_length, ha]
  · intro j h1 h2
    have hj : j < σ.length := by omega
    have hj' : j < (invertedSort σ).length := by rw [invertedSort_length]; exact hj
    have := (invertedSort_right σ hσ j hj).2
    simp only [List.getD_eq_getElem?_getD, List.getElem?_eq_getElem hj', Option.getD_some] at this
    simp [takeL, List.getD_eq_getElem?_getD, this, h2]

theorem take_inverted_take {α} (a : List α) (d : α) (σ : List Nat) (hσ : σ.Perm (List.range σ.length))
    (ha : a.length = σ.length) : takeL (takeL a d (invertedSort σ)) d σ = a := by
  rw [takeL_takeL _ _ _ _ (by rw [invertedSort_length]; exact perm_range_lt hσ)]
  apply List.ext_getElem
  · simp [ha]
  · intro j h1 h2
    have hj : j < σ.length := by omega
    have := invertedSort_left σ hσ j hj
    simp only [List.getD_eq_getElem?_getD, List.getElem?_eq_getElem hj, Option.getD_some] at this
    simp [takeL, List.getD_eq_getElem?_getD, this, h2]


/-! ### `argsort` -/

/-- strict lexicographic order on (key, index) pairs -/
def lexLt (p q : Rat × Nat) : Prop := p.1 < q.1 ∨ (p.1 = q.1 ∧ p.2 < q.2)

theorem insertP_perm (p : Rat × Nat) (l : List (Rat × Nat)) : (insertP p l).Perm (p :: l) := by
  induction l with
  | nil => simp [insertP]
  | cons q t ih =>
    simp only [insertP]
    split
    · exact List.Perm.refl _
    · exact (List.Perm.cons q ih).trans (List.Perm.swap p q t)

theorem insertP_sorted (p : Rat × Nat) (l : List (Rat × Nat)) (hl : l.Pairwise lexLt)
    (hp : ∀ q ∈ l, q.2 < p.2) : (insertP p l).Pairwise lexLt := by
  induction l with
  | nil => simp [insertP]
  | cons q t ih =>
    simp only [insertP]
    have hq := List.pairwise_cons.1 hl
    split
    · rename_i hlt
      refine List.pairwise_cons.2 ⟨?_, hl⟩
      intro r hr
      rcases List.mem_cons.1 hr with rfl | hr
      · exact Or.inl hlt
      · rcases hq.1 r hr with h | ⟨h1, _⟩
        · exact Or.inl (Std.lt_trans hlt h)
        · exact Or.inl (h1 ▸ hlt)
    · rename_i hnlt
      refine List.pairwise_cons.2 ⟨?_, ih hq.2 (fun r hr => hp r (List.mem_cons_of_mem _ hr))⟩
      intro r hr
      rcases List.mem_cons.1 ((insertP_perm p t).mem_iff.1 hr) with rfl | hr
      · have hle : q.1 ≤ r.1 := Rat.not_lt.1 hnlt
        rcases Rat.le_iff_lt_or_eq.1 hle with h | h
        · exact Or.inl h
        · exact Or.inr ⟨h, hp q (List.mem_cons_self ..)⟩
      · exact hq.1 r hr

theorem foldl_insertP (l acc : List (Rat × Nat)) (hacc : acc.Pairwise lexLt)
    (hlt : ∀ q ∈ acc, ∀ p ∈ l, q.2 < p.2) (hl : l.Pairwise (fun p q => p.2 < q.2)) :
    (l.foldl (fun acc p => insertP p acc) acc).Pairwise lexLt ∧
    (l.foldl (fun acc p => insertP p acc) acc).Perm (acc ++ l) := by
  induction l generalizing acc with
  | nil => simpa using hacc
  | cons p t ih =>
    simp only [List.foldl_cons]
    have hp := List.pairwise_cons.1 hl
    have := ih (insertP p acc)
      (insertP_sorted p acc hacc (fun q hq => hlt q hq p (List.mem_cons_self ..)))
      (by
        intro q hq r hr
        rcases List.mem_cons.1 ((insertP_perm p acc).mem_iff.1 hq) with rfl | hq
        · exact hp.1 r hr
        · exact hlt q hq r (List.mem_cons_of_mem _ hr))
      hp.2
    refine ⟨this.1, this.2.trans ?_⟩
    have h1 : (insertP p acc ++ t).Perm ((p :: acc) ++ t) := (insertP_perm p acc).append_right t
    refine h1.trans ?_
    simpa using (List.perm_middle (a := p) (l₁ := acc) (l₂ := t)).symm

/-- the sorted list of (key, index) pairs whose second components are `argsort x` -/
def sortedPairs (x : List Rat) : List (Rat × Nat) := (x.zipIdx).foldl (fun acc p => insertP p acc) []

theorem argsort_eq (x : List Rat) : argsort x = (sortedPairs x).map (·.2) := rfl

theorem sortedPairs_spec (x : List Rat) :
    (sortedPairs x).Pairwise lexLt ∧ (sortedPairs x).Perm x.zipIdx := by
  have := foldl_insertP x.zipIdx [] List.Pairwise.nil (by simp)
    (by
      have h : (x.zipIdx.map Prod.snd).Pairwise (· < ·) := by
        rw [List.zipIdx_map_snd]; exact List.pairwise_lt_range' 
      exact List.pairwise_map.1 h)
  simpa [sortedPairs] using this

theorem sortedPairs_mem (x : List Rat) {p : Rat × Nat} (hp : p ∈ sortedPairs x) :
    p.2 < x.length ∧ x.getD p.2 0 = p.1 := by
  have := (sortedPairs_spec x).2.mem_iff.1 hp
  have := List.mem_zipIdx (x := p.1) (i := p.2) this
  simp only [List.getD_eq_getElem?_getD]
  have h : p.2 < x.length := by omega
  simp [h, this.2.2]

theorem argsort_perm (x : List Rat) : (argsort x).Perm (List.range x.length) := by
  rw [argsort_eq]
  have := (sortedPairs_spec x).2.map Prod.snd
  rwa [List.zipIdx_map_snd, ← List.range_eq_range'] at this

theorem takeL_argsort (x : List Rat) : takeL x 0 (argsort x) = (sortedPairs x).map (·.1) := by
  rw [argsort_eq, takeL, List.map_map]
  apply List.map_congr_left
  intro p hp
  exact (sortedPairs_mem x hp).2

theorem argsort_sorted (x : List Rat) : (takeL x 0 (argsort x)).Pairwise (· ≤ ·) := by
  rw [takeL_argsort, List.pairwise_map]
  refine (sortedPairs_spec x).1.imp ?_
  intro p q h
  rcases h with h | ⟨h, _⟩
  · exact Rat.le_of_lt h
  · exact h ▸ Rat.le_refl


/-! ### `determineSorts` -/

theorem strictlyIncreasing_iff (σ : List Nat) : strictlyIncreasing σ = true ↔ σ.Pairwise (· < ·) := by
  induction σ with
  | nil => simp [strictlyIncreasing]
  | cons a t ih =>
    cases t with
    | nil => simp [strictlyIncreasing]
    | cons b t =>
      simp only [strictlyIncreasing, Bool.and_eq_true, decide_eq_true_eq, ih]
      constructor
      · rintro ⟨hab, hb⟩
        refine List.pairwise_cons.2 ⟨?_, hb⟩
        intro c hc
        rcases List.mem_cons.1 hc with rfl | hc
        · exact hab
        · exact Nat.lt_trans hab ((List.pairwise_cons.1 hb).1 c hc)
      · intro h
        have := List.pairwise_cons.1 h
        exact ⟨this.1 b (List.mem_cons_self ..), this.2⟩

theorem eq_range_of_pairwise_lt {σ : List Nat} {n : Nat} (hσ : σ.Perm (List.range n))
    (h : σ.Pairwise (· < ·)) : σ = List.range n :=
  List.Perm.eq_of_pairwise (fun a b _ _ h1 h2 => by omega) h List.pairwise_lt_range hσ

theorem determineSorts_none_iff' (x : List Rat) :
    determineSorts x = none ↔ strictlyIncreasing (argsort x) = true := by
  unfold determineSorts
  simp only []
  split <;> simp_all

theorem argsort_of_sorted (x : List Rat) (hx : x.Pairwise (· ≤ ·)) : argsort x = List.range x.length := by
  apply eq_range_of_pairwise_lt (argsort_perm x)
  rw [argsort_eq, List.pairwise_map]
  refine (sortedPairs_spec x).1.imp_of_mem ?_
  intro p q hp hq h
  obtain ⟨hp1, hp2⟩ := sortedPairs_mem x hp
  obtain ⟨hq1, hq2⟩ := sortedPairs_mem x hq
  rcases h with h | ⟨_, h⟩
  · refine Nat.lt_of_not_le (fun hle => ?_)
    have : x.getD q.2 0 ≤ x.getD p.2 0 := by
      rcases Nat.lt_or_eq_of_le hle with hlt | heq
      · have := List.pairwise_iff_getElem.1 hx q.2 p.2 hq1 hp1 hlt
        simpa [List.getD_eq_getElem?_getD, hq1, hp1] using this
      · rw [heq]; exact Rat.le_refl
    rw [hp2, hq2] at this
    exact absurd h (Rat.not_lt.2 this)
  · exact h

theorem determineSorts_none_iff (x : List Rat) : determineSorts x = none ↔ x.Pairwise (· ≤ ·) := by
  rw [determineSorts_none_iff', strictlyIncreasing_iff]
  constructor
  · intro h
    have e := eq_range_of_pairwise_lt (argsort_perm x) h
    have := argsort_sorted x
    rwa [e, takeL_range] at this
  · intro h
    rw [argsort_of_sorted x h]
    exact List.pairwise_lt_range

/-! ### `extendSortOrder` -/

theorem perm_range_of_perm {l : List Nat} {m : Nat} (h : l.Perm (List.range m)) :
    l.Perm (List.range l.length) := by
  rwa [perm_range_length h]

theorem extendSortOrder_perm (σ : List Nat) (side k : Nat) (hσ : σ.Perm (List.range σ.length)) :
    (extendSortOrder σ side k).Perm (List.range (extendSortOrder σ side k).length) := by
  have h1 : (List.range k ++ σ.map (· + k)).Perm (List.range (k + σ.length)) := by
    rw [List.range_add]
    refine List.Perm.append (List.Perm.refl _) ?_
    have := hσ.map (· + k)
    refine this.trans (List.Perm.of_eq ?_)
    exact List.map_congr_left (fun a _ => Nat.add_comm a k)
  unfold extendSortOrder
  simp only []
  split
  · exact perm_range_of_perm h1
  · apply perm_range_of_perm (m := σ.length + k)
    rw [List.range_add]
    refine List.Perm.append hσ (List.Perm.of_eq ?_)
    exact List.map_congr_left (fun a _ => Nat.add_comm a _)
  · apply perm_range_of_perm (m := (k + σ.length) + k)
    rw [List.range_add]
    refine List.Perm.append h1 (List.Perm.of_eq ?_)
    exact List.map_congr_left (fun a _ => by omega)

theorem extendSortOrder_left (σ : List Nat) (k i : Nat) (hi : i < k) :
    (extendSortOrder σ 1 k).getD i 0 = i ∧ (extendSortOrder σ 0 k).getD i 0 = i := by
  simp [extendSortOrder, List.getD_eq_getElem?_getD, List.getElem?_append, hi]

theorem extendSortOrder_mid (σ : List Nat) (k i : Nat) (hi : i < σ.length) :
    (extendSortOrder σ 1 k).getD (k + i) 0 = σ.getD i 0 + k ∧
    (extendSortOrder σ 0 k).getD (k + i) 0 = σ.getD i 0 + k ∧
    (extendSortOrder σ 2 k).getD i 0 = σ.getD i 0 := by
  have : ¬ (k + i < k) := by omega
  simp [extendSortOrder, List.getD_eq_getElem?_getD, List.getElem?_append, hi, this]


/-! ### equivariance, 1-D -/

theorem takeL_range' {α} (a : List α) (d : α) (n : Nat) (h : a.length = n) :
    takeL a d (List.range n) = a := by subst h; exact takeL_range a d

theorem perm_range_self {σ : List Nat} {n : Nat} (h : σ.Perm (List.range n)) :
    σ.Perm (List.range σ.length) := by rwa [perm_range_length h]

theorem invertedSort_left' {σ : List Nat} {n : Nat} (hσ : σ.Perm (List.range n)) (k : Nat)
    (hk : k < σ.length) : (invertedSort σ).getD σ[k] 0 = k := by
  have := invertedSort_left σ (perm_range_self hσ) k hk
  simpa [List.getD_eq_getElem?_getD, hk] using this

theorem invertedSort_range (n : Nat) : invertedSort (List.range n) = List.range n := by
  apply List.ext_getElem
  · simp [invertedSort_length]
  · intro i h1 h2
    have hi : i < (List.range n).length := by simpa using h2
    have := invertedSort_left' (σ := List.range n) (List.Perm.refl _) i hi
    simpa [List.getD_eq_getElem?_getD, h1] using this

theorem determineSorts_cases (x : List Rat) :
    (determineSorts x = none ∧ argsort x = List.range x.length) ∨
    determineSorts x = some (argsort x, invertedSort (argsort x)) := by
  by_cases h : strictlyIncreasing (argsort x) = true
  · left
    exact ⟨(determineSorts_none_iff' x).2 h,
      eq_range_of_pairwise_lt (argsort_perm x) ((strictlyIncreasing_iff _).1 h)⟩
  · right
    unfold determineSorts
    simp only []
    rw [if_neg h]

theorem sortArray_fst {α} (x : List Rat) (a : List α) (d : α) (ha : a.length = x.length) :
    sortArray a d ((determineSorts x).map (·.1)) = takeL a d (argsort x) := by
  rcases determineSorts_cases x with ⟨h, e⟩ | h
  · rw [h, e, takeL_range' a d _ ha]; rfl
  · rw [h]; rfl

theorem sortArray_snd {α} (x : List Rat) (a : List α) (d : α) (ha : a.length = x.length) :
    sortArray a d ((determineSorts x).map (·.2)) = takeL a d (invertedSort (argsort x)) := by
  rcases determineSorts_cases x with ⟨h, e⟩ | h
  · rw [h, e, invertedSort_range, takeL_range' a d _ ha]; rfl
  · rw [h]; rfl

theorem map_takeL_range {α} (l : List (List α)) (d : α) (n : Nat) (h : ∀ a ∈ l, a.length = n) :
    l.map (takeL · d (List.range n)) = l := by
  conv => rhs; rw [← List.map_id l]
  exact List.map_congr_left (fun a ha => takeL_range' a d n (h a ha))

theorem optmap_takeL_range {α} (w : Option (List α)) (d : α) (n : Nat) (h : ∀ v, w = some v → v.length = n) :
    w.map (takeL · d (List.range n)) = w := by
  cases w with
  | none => rfl
  | some v => simp [takeL_range' v d n (h v rfl)]

/-- `run1d` always behaves as if it sorted with `argsort x` (also when the sort is skipped) -/
theorem run1d_normal
    (core : List Rat → List Rat → Option (List Rat) → List Rat × List (List Rat))
    (hcore : ∀ xs ys ws, (core xs ys ws).1.length = xs.length ∧ ∀ a ∈ (core xs ys ws).2, a.length = xs.length)
    (x y : List Rat) (w : Option (List Rat))
    (hy : y.length = x.length) (hw : ∀ v, w = some v → v.length = x.length) :
    run1d core x y w =
      (takeL (core (takeL x 0 (argsort x)) (takeL y 0 (argsort x)) (w.map (takeL · 0 (argsort x)))).1 0
          (invertedSort (argsort x)),
       (core (takeL x 0 (argsort x)) (takeL y 0 (argsort x)) (w.map (takeL · 0 (argsort x)))).2.map
          (takeL · 0 (invertedSort (argsort x)))) := by
  unfold run1d
  rcases determineSorts_cases x with ⟨h, e⟩ | h
  · rw [h, e, invertedSort_range, takeL_range, takeL_range' y 0 _ hy, optmap_takeL_range w 0 _ hw]
    simp only []
    rw [takeL_range' _ 0 _ (hcore x y w).1, map_takeL_range _ 0 _ (hcore x y w).2]
  · rw [h]

theorem takeL_inj (x : List Rat) (hx : x.Nodup) (τ₁ τ₂ : List Nat)
    (h₁ : ∀ i ∈ τ₁, i < x.length) (h₂ : ∀ i ∈ τ₂, i < x.length)
    (h : takeL x 0 τ₁ = takeL x 0 τ₂) : τ₁ = τ₂ := by
  have hlen : τ₁.length = τ₂.length := by simpa using congrArg List.length h
  apply List.ext_getElem hlen
  intro i hi1 hi2
  have e : (takeL x 0 τ₁)[i]'(by simpa using hi1) = (takeL x 0 τ₂)[i]'(by simpa using hi2) := by
    simp only [h]
  rw [takeL_getElem _ _ _ _ hi1, takeL_getElem _ _ _ _ hi2] at e
  have l1 := h₁ _ (List.getElem_mem hi1)
  have l2 := h₂ _ (List.getElem_mem hi2)
  simp only [List.getD_eq_getElem?_getD, List.getElem?_eq_getElem l1, List.getElem?_eq_getElem l2,
    Option.getD_some] at e
  exact nodup_getElem_inj hx l1 l2 e

/-- Key fact: sorting the permuted array composes with the permutation to the original order. -/
theorem argsort_takeL (x : List Rat) (hx : x.Nodup) (π : List Nat) (hπ : π.Perm (List.range x.length)) :
    takeL π 0 (argsort (takeL x 0 π)) = argsort x := by
  have hπl : π.length = x.length := perm_range_length hπ
  have hσ' : (argsort (takeL x 0 π)).Perm (List.range π.length) := by
    simpa using argsort_perm (takeL x 0 π)
  have hτ : (takeL π 0 (argsort (takeL x 0 π))).Perm (List.range x.length) :=
    (takeL_perm π 0 _ hσ').trans hπ
  apply takeL_inj x hx _ _ (perm_range_lt hτ) (perm_range_lt (argsort_perm x))
  have e : takeL x 0 (takeL π 0 (argsort (takeL x 0 π))) =
      takeL (takeL x 0 π) 0 (argsort (takeL x 0 π)) :=
    (takeL_takeL x 0 π _ (perm_range_lt hσ')).symm
  refine List.Perm.eq_of_pairwise (le := (· ≤ ·)) (fun a b _ _ h1 h2 => Rat.le_antisymm h1 h2) ?_
    (argsort_sorted x) ((takeL_perm x 0 _ hτ).trans (takeL_perm x 0 _ (argsort_perm x)).symm)
  rw [e]
  exact argsort_sorted _

theorem invertedSort_comp (σ σ' π : List Nat) (n : Nat) (hσ : σ.Perm (List.range n))
    (hσ' : σ'.Perm (List.range n)) (hπ : π.Perm (List.range n)) (h : takeL π 0 σ' = σ) :
    invertedSort σ' = takeL (invertedSort σ) 0 π := by
  have lσ := perm_range_length hσ
  have lσ' := perm_range_length hσ'
  have lπ := perm_range_length hπ
  apply List.ext_getElem
  · simp [invertedSort_length, lσ', lπ]
  · intro j h1 h2
    have hj : j < σ'.length := by rwa [invertedSort_length] at h1
    obtain ⟨k, hk, e⟩ := perm_range_surj (perm_range_self hσ') hj
    have hkσ : k < σ.length := by omega
    have hjπ : j < π.length := by omega
    have L := invertedSort_left' hσ' k hk
    have R := invertedSort_left' hσ k hkσ
    have hσk : σ[k] = π[j] := by
      subst h
      rw [takeL_getElem _ _ _ _ hk]
      simp [List.getD_eq_getElem?_getD, e, hjπ]
    rw [takeL_getElem _ _ _ _ hjπ, ← hσk, R]
    rw [e] at L
    simpa [List.getD_eq_getElem?_getD, h1] using L

theorem run1d_equivariant
    (core : List Rat → List Rat → Option (List Rat) → List Rat × List (List Rat))
    (hcore : ∀ xs ys ws, (core xs ys ws).1.length = xs.length ∧ ∀ a ∈ (core xs ys ws).2, a.length = xs.length)
    (x y : List Rat) (w : Option (List Rat)) (π : List Nat)
    (hx : x.Nodup) (hy : y.length = x.length) (hw : ∀ v, w = some v → v.length = x.length)
    (hπ : π.Perm (List.range x.length)) :
    run1d core (takeL x 0 π) (takeL y 0 π) (w.map (takeL · 0 π)) =
      ((takeL (run1d core x y w).1 0 π), (run1d core x y w).2.map (takeL · 0 π)) := by
  have hπl : π.length = x.length := perm_range_length hπ
  have hσ' : (argsort (takeL x 0 π)).Perm (List.range π.length) := by
    simpa using argsort_perm (takeL x 0 π)
  have hσ'lt := perm_range_lt hσ'
  have key := argsort_takeL x hx π hπ
  rw [run1d_normal core hcore x y w hy hw,
    run1d_normal core hcore (takeL x 0 π) (takeL y 0 π) (w.map (takeL · 0 π)) (by simp)
      (by
        intro v hv
        cases w with
        | none => simp at hv
        | some u => simp at hv; subst hv; simp)]
  have ex : takeL (takeL x 0 π) 0 (argsort (takeL x 0 π)) = takeL x 0 (argsort x) := by
    rw [takeL_takeL _ _ _ _ hσ'lt, key]
  have ey : takeL (takeL y 0 π) 0 (argsort (takeL x 0 π)) = takeL y 0 (argsort x) := by
    rw [takeL_takeL _ _ _ _ hσ'lt, key]
  have ew : (w.map (takeL · 0 π)).map (takeL · 0 (argsort (takeL x 0 π))) =
      w.map (takeL · 0 (argsort x)) := by
    cases w with
    | none => rfl
    | some u => simp only [Option.map_some]; rw [takeL_takeL _ _ _ _ hσ'lt, key]
  have einv : invertedSort (argsort (takeL x 0 π)) = takeL (invertedSort (argsort x)) 0 π :=
    invertedSort_comp _ _ π x.length (argsort_perm x) (hπl ▸ hσ') hπ key
  have hπlt : ∀ i ∈ π, i < (invertedSort (argsort x)).length := by
    rw [invertedSort_length, perm_range_length (argsort_perm x)]
    exact perm_range_lt hπ
  rw [ex, ey, ew, einv]
  simp only []
  rw [takeL_takeL _ _ _ _ hπlt, List.map_map]
  congr 1
  apply List.map_congr_left
  intro a _
  exact (takeL_takeL _ _ _ _ hπlt).symm


/-! ### equivariance, 2-D -/

theorem mem_takeL {α} {a : List α} {d : α} {idx : List Nat} (h : ∀ i ∈ idx, i < a.length)
    {r : α} (hr : r ∈ takeL a d idx) : r ∈ a := by
  unfold takeL at hr
  obtain ⟨i, hi, rfl⟩ := List.mem_map.1 hr
  have := h i hi
  simp [List.getD_eq_getElem?_getD, this]

theorem sort2d_some (m : List (List Rat)) (τx τz : List Nat) :
    sort2d m (some τx) (some τz) = (takeL m [] τx).map (takeL · 0 τz) := rfl

theorem sort2d_dims (m : List (List Rat)) (τx τz : List Nat) :
    (sort2d m (some τx) (some τz)).length = τx.length ∧
    ∀ row ∈ sort2d m (some τx) (some τz), row.length = τz.length := by
  rw [sort2d_some]
  refine ⟨by simp, ?_⟩
  intro row hrow
  obtain ⟨r, _, rfl⟩ := List.mem_map.1 hrow
  simp

theorem sort2d_comp (m : List (List Rat)) (π₁ π₂ τ₁ τ₂ : List Nat)
    (h₁ : ∀ i ∈ τ₁, i < π₁.length) (h₂ : ∀ i ∈ τ₂, i < π₂.length) :
    sort2d (sort2d m (some π₁) (some π₂)) (some τ₁) (some τ₂) =
      sort2d m (some (takeL π₁ 0 τ₁)) (some (takeL π₂ 0 τ₂)) := by
  simp only [sort2d_some]
  rw [takeL_map (takeL m [] π₁) (takeL · 0 π₂) [] [] τ₁ (by simpa using h₁),
    takeL_takeL _ _ _ _ h₁, List.map_map]
  apply List.map_congr_left
  intro row _
  exact takeL_takeL _ _ _ _ h₂

theorem sort2d_fst (x z : List Rat) (m : List (List Rat)) (hm : m.length = x.length)
    (hrow : ∀ row ∈ m, row.length = z.length) :
    sort2d m ((determineSorts x).map (·.1)) ((determineSorts z).map (·.1)) =
      sort2d m (some (argsort x)) (some (argsort z)) := by
  unfold sort2d
  rw [sortArray_fst x m [] hm]
  apply List.map_congr_left
  intro row hr
  have : row ∈ m := mem_takeL (by rw [hm]; exact perm_range_lt (argsort_perm x)) hr
  exact sortArray_fst z row 0 (hrow row this)

theorem sort2d_snd (x z : List Rat) (m : List (List Rat)) (hm : m.length = x.length)
    (hrow : ∀ row ∈ m, row.length = z.length) :
    sort2d m ((determineSorts x).map (·.2)) ((determineSorts z).map (·.2)) =
      sort2d m (some (invertedSort (argsort x))) (some (invertedSort (argsort z))) := by
  unfold sort2d
  rw [sortArray_snd x m [] hm]
  apply List.map_congr_left
  intro row hr
  have : row ∈ m := mem_takeL (by
    rw [hm]
    have := invertedSort_lt _ (perm_range_self (argsort_perm x))
    rwa [perm_range_length (argsort_perm x)] at this) hr
  exact sortArray_snd z row 0 (hrow row this)

/-- the arguments handed to `core` by `run2d`, in normal form -/
def core2dArgs (core : List Rat → List Rat → List (List Rat) → Option (List (List Rat)) →
      List (List Rat) × List (List (List Rat)))
    (x z : List Rat) (y : List (List Rat)) (w : Option (List (List Rat))) :=
  core (takeL x 0 (argsort x)) (takeL z 0 (argsort z))
    (sort2d y (some (argsort x)) (some (argsort z)))
    (w.map (sort2d · (some (argsort x)) (some (argsort z))))

theorem run2d_normal
    (core : List Rat → List Rat → List (List Rat) → Option (List (List Rat)) →
      List (List Rat) × List (List (List Rat)))
    (hcore : ∀ xs zs ys ws, let r := core xs zs ys ws
        (r.1.length = xs.length ∧ ∀ row ∈ r.1, row.length = zs.length) ∧
        ∀ a ∈ r.2, a.length = xs.length ∧ ∀ row ∈ a, row.length = zs.length)
    (x z : List Rat) (y : List (List Rat)) (w : Option (List (List Rat)))
    (hy : y.length = x.length ∧ ∀ row ∈ y, row.length = z.length)
    (hw : ∀ v, w = some v → v.length = x.length ∧ ∀ row ∈ v, row.length = z.length) :
    run2d core x z y w =
      (sort2d (core2dArgs core x z y w).1 (some (invertedSort (argsort x))) (some (invertedSort (argsort z))),
       (core2dArgs core x z y w).2.map
         (sort2d · (some (invertedSort (argsort x))) (some (invertedSort (argsort z))))) := by
  have ew : w.map (sort2d · ((determineSorts x).map (·.1)) ((determineSorts z).map (·.1))) =
      w.map (sort2d · (some (argsort x)) (some (argsort z))) := by
    cases w with
    | none => rfl
    | some v =>
      simp only [Option.map_some]
      rw [sort2d_fst x z v (hw v rfl).1 (hw v rfl).2]
  unfold run2d
  simp only []
  rw [sortArray_fst x x 0 rfl, sortArray_fst z z 0 rfl, sort2d_fst x z y hy.1 hy.2, ew]
  have hc := hcore (takeL x 0 (argsort x)) (takeL z 0 (argsort z))
    (sort2d y (some (argsort x)) (some (argsort z)))
    (w.map (sort2d · (some (argsort x)) (some (argsort z))))
  simp only [takeL_length, perm_range_length (argsort_perm x), perm_range_length (argsort_perm z)] at hc
  unfold core2dArgs
  rw [sort2d_snd x z _ hc.1.1 hc.1.2]
  congr 1
  apply List.map_congr_left
  intro a ha
  exact sort2d_snd x z a (hc.2 a ha).1 (hc.2 a ha).2

theorem run2d_equivariant
    (core : List Rat → List Rat → List (List Rat) → Option (List (List Rat)) →
      List (List Rat) × List (List (List Rat)))
    (hcore : ∀ xs zs ys ws, let r := core xs zs ys ws
        (r.1.length = xs.length ∧ ∀ row ∈ r.1, row.length = zs.length) ∧
        ∀ a ∈ r.2, a.length = xs.length ∧ ∀ row ∈ a, row.length = zs.length)
    (x z : List Rat) (y : List (List Rat)) (w : Option (List (List Rat))) (πx πz : List Nat)
    (hx : x.Nodup) (hz : z.Nodup)
    (hy : y.length = x.length ∧ ∀ row ∈ y, row.length = z.length)
    (hw : ∀ v, w = some v → v.length = x.length ∧ ∀ row ∈ v, row.length = z.length)
    (hπx : πx.Perm (List.range x.length)) (hπz : πz.Perm (List.range z.length)) :
    run2d core (takeL x 0 πx) (takeL z 0 πz) (sort2d y (some πx) (some πz))
        (w.map (sort2d · (some πx) (some πz))) =
      (sort2d (run2d core x z y w).1 (some πx) (some πz),
       (run2d core x z y w).2.map (sort2d · (some πx) (some πz))) := by
  have hπxl : πx.length = x.length := perm_range_length hπx
  have hπzl : πz.length = z.length := perm_range_length hπz
  have hσx' : (argsort (takeL x 0 πx)).Perm (List.range πx.length) := by
    simpa using argsort_perm (takeL x 0 πx)
  have hσz' : (argsort (takeL z 0 πz)).Perm (List.range πz.length) := by
    simpa using argsort_perm (takeL z 0 πz)
  have hσx'lt := perm_range_lt hσx'
  have hσz'lt := perm_range_lt hσz'
  have keyx := argsort_takeL x hx πx hπx
  have keyz := argsort_takeL z hz πz hπz
  have hy' : (sort2d y (some πx) (some πz)).length = (takeL x 0 πx).length ∧
      ∀ row ∈ sort2d y (some πx) (some πz), row.length = (takeL z 0 πz).length := by
    simpa using sort2d_dims y πx πz
  have hw' : ∀ v, w.map (sort2d · (some πx) (some πz)) = some v →
      v.length = (takeL x 0 πx).length ∧ ∀ row ∈ v, row.length = (takeL z 0 πz).length := by
    intro v hv
    cases w with
    | none => simp at hv
    | some u =>
      simp only [Option.map_some, Option.some.injEq] at hv
      subst hv
      simpa using sort2d_dims u πx πz
  rw [run2d_normal core hcore x z y w hy hw, run2d_normal core hcore _ _ _ _ hy' hw']
  have eargs : core2dArgs core (takeL x 0 πx) (takeL z 0 πz) (sort2d y (some πx) (some πz))
      (w.map (sort2d · (some πx) (some πz))) = core2dArgs core x z y w := by
    unfold core2dArgs
    have ew : (w.map (sort2d · (some πx) (some πz))).map
          (sort2d · (some (argsort (takeL x 0 πx))) (some (argsort (takeL z 0 πz)))) =
        w.map (sort2d · (some (argsort x)) (some (argsort z))) := by
      cases w with
      | none => rfl
      | some u =>
        simp only [Option.map_some]
        rw [sort2d_comp _ _ _ _ _ hσx'lt hσz'lt, keyx, keyz]
    rw [ew, sort2d_comp _ _ _ _ _ hσx'lt hσz'lt, takeL_takeL _ _ _ _ hσx'lt,
      takeL_takeL _ _ _ _ hσz'lt, keyx, keyz]
  have einvx : invertedSort (argsort (takeL x 0 πx)) = takeL (invertedSort (argsort x)) 0 πx :=
    invertedSort_comp _ _ πx x.length (argsort_perm x) (hπxl ▸ hσx') hπx keyx
  have einvz : invertedSort (argsort (takeL z 0 πz)) = takeL (invertedSort (argsort z)) 0 πz :=
    invertedSort_comp _ _ πz z.length (argsort_perm z) (hπzl ▸ hσz') hπz keyz
  have hπxlt : ∀ i ∈ πx, i < (invertedSort (argsort x)).length := by
    rw [invertedSort_length, perm_range_length (argsort_perm x)]
    exact perm_range_lt hπx
  have hπzlt : ∀ i ∈ πz, i < (invertedSort (argsort z)).length := by
    rw [invertedSort_length, perm_range_length (argsort_perm z)]
    exact perm_range_lt hπz
  rw [eargs, einvx, einvz]
  simp only []
  rw [sort2d_comp _ _ _ _ _ hπxlt hπzlt, List.map_map]
  congr 1
  apply List.map_congr_left
  intro a _
  exact (sort2d_comp _ _ _ _ _ hπxlt hπzlt).symm

end PbVerif.Lemmas
