import PbVerif.Model.Validate
/-! Helper lemmas for C15 (proofs). -/
namespace PbVerif.Lemmas
open PbVerif.Validate

theorem truncQ_den (q : Rat) : (truncQ q).den = 1 := by simp [truncQ]

theorem truncQ_nonpos {q : Rat} (hq : q ≤ 0) : truncQ q ≤ 0 := by
  unfold truncQ
  rw [Rat.intCast_nonpos]
  have h1 : q.num ≤ 0 := by
    have : 0 ≤ (-q).num := Rat.num_nonneg.mpr (by
      have := Rat.neg_le_neg hq
      simpa using this)
    rw [Rat.neg_num] at this; omega
  have h2 : (0:Int) ≤ q.den := Int.natCast_nonneg _
  have := Int.tdiv_nonneg (a := -q.num) (b := q.den) (by omega) h2
  rw [Int.neg_tdiv] at this
  omega

theorem truncQ_ne {q : Rat} (hq : q.den ≠ 1) : truncQ q ≠ q := by
  intro h
  apply hq
  rw [← h]; exact truncQ_den q

def flatOf (dtInt : Bool) : Val → Except Res (List El × Bool)
  | .sc s => (convSc dtInt s).map fun e => ([e], true)
  | .arr l => (convList dtInt l).map fun es => (es, false)
  | .nested ll => (convList dtInt ll.flatten).map fun es => (es, false)

def finish (es : List El) (zeroDim : Bool) (desired : Option Nat) (fill : Bool) : Res :=
    let isScalar := zeroDim || es.length == 1
    if isScalar then
      if fill then
        match desired with
        | none => .valueError
        | some n => .ok (List.replicate n (es.getD 0 .nan)) true
      else .ok [es.getD 0 .nan] true
    else
      match desired with
      | some n => if es.length != n then .valueError else .ok es false
      | none => .ok es false

theorem checkScalar_eq (v : Val) (d : Option Nat) (fill dt : Bool) :
    checkScalar v d fill dt = match flatOf dt v with
      | .error r => r
      | .ok (es, z) => finish es z d fill := by
  cases v <;> rfl

theorem convList_cons (dt : Bool) (s : Sc) (t : List Sc) :
    convList dt (s :: t) = match convSc dt s with
      | .error r => .error r
      | .ok e => match convList dt t with
        | .error r => .error r
        | .ok es => .ok (e :: es) := by
  simp only [convList]
  cases convSc dt s <;> cases convList dt t <;> rfl

theorem convSc_error {dt : Bool} {s : Sc} {r : Res} (h : convSc dt s = .error r) : r.rejected = true := by
  cases s <;> cases dt <;> simp [convSc] at h <;> subst h <;> rfl

theorem convList_error {dt : Bool} {l : List Sc} {r : Res} (h : convList dt l = .error r) : r.rejected = true := by
  induction l with
  | nil => simp [convList] at h
  | cons s t ih =>
    rw [convList_cons] at h
    cases hs : convSc dt s with
    | error r' => rw [hs] at h; simp at h; subst h; exact convSc_error hs
    | ok e =>
      rw [hs] at h
      cases ht : convList dt t with
      | error r' => rw [ht] at h; simp at h; subst h; exact ih ht
      | ok es => rw [ht] at h; simp at h

theorem convList_length {dt : Bool} {l : List Sc} {es : List El} (h : convList dt l = .ok es) : es.length = l.length := by
  induction l generalizing es with
  | nil => simp [convList] at h; subst h; rfl
  | cons s t ih =>
    rw [convList_cons] at h
    cases hs : convSc dt s with
    | error r' => rw [hs] at h; simp at h
    | ok e =>
      rw [hs] at h
      cases ht : convList dt t with
      | error r' => rw [ht] at h; simp at h
      | ok es' => rw [ht] at h; simp at h; subst h; simp [ih ht]

theorem convSc_int {s : Sc} {e : El} (h : convSc true s = .ok e) : ∃ z : Int, e = .fin (z : Rat) := by
  cases s <;> simp [convSc] at h
  subst h; exact ⟨_, rfl⟩

theorem convList_int {l : List Sc} {es : List El} (h : convList true l = .ok es) :
    ∀ e ∈ es, ∃ z : Int, e = .fin (z : Rat) := by
  induction l generalizing es with
  | nil => simp [convList] at h; subst h; simp
  | cons s t ih =>
    rw [convList_cons] at h
    cases hs : convSc true s with
    | error r' => rw [hs] at h; simp at h
    | ok e =>
      rw [hs] at h
      cases ht : convList true t with
      | error r' => rw [ht] at h; simp at h
      | ok es' =>
        rw [ht] at h; simp at h; subst h
        intro x hx
        rcases List.mem_cons.mp hx with rfl | hx
        · exact convSc_int hs
        · exact ih ht x hx

theorem flatOf_error {dt : Bool} {v : Val} {r : Res} (h : flatOf dt v = .error r) : r.rejected = true := by
  cases v with
  | sc s =>
    simp only [flatOf] at h
    cases hs : convSc dt s with
    | error r' => rw [hs] at h; simp [Except.map] at h; subst h; exact convSc_error hs
    | ok e => rw [hs] at h; simp [Except.map] at h
  | arr l =>
    simp only [flatOf] at h
    cases hs : convList dt l with
    | error r' => rw [hs] at h; simp [Except.map] at h; subst h; exact convList_error hs
    | ok e => rw [hs] at h; simp [Except.map] at h
  | nested l =>
    simp only [flatOf] at h
    cases hs : convList dt l.flatten with
    | error r' => rw [hs] at h; simp [Except.map] at h; subst h; exact convList_error hs
    | ok e => rw [hs] at h; simp [Except.map] at h

theorem flatOf_int {v : Val} {es : List El} {z : Bool} (h : flatOf true v = .ok (es, z)) :
    (∀ e ∈ es, ∃ k : Int, e = .fin (k : Rat)) ∧ (z = true → es.length = 1) := by
  cases v with
  | sc s =>
    simp only [flatOf] at h
    cases hs : convSc true s with
    | error r' => rw [hs] at h; simp [Except.map] at h
    | ok e =>
      rw [hs] at h; simp [Except.map] at h
      obtain ⟨rfl, rfl⟩ := h
      simp; exact convSc_int hs
  | arr l =>
    simp only [flatOf] at h
    cases hs : convList true l with
    | error r' => rw [hs] at h; simp [Except.map] at h
    | ok e =>
      rw [hs] at h; simp [Except.map] at h
      obtain ⟨rfl, rfl⟩ := h
      simp; exact convList_int hs
  | nested l =>
    simp only [flatOf] at h
    cases hs : convList true l.flatten with
    | error r' => rw [hs] at h; simp [Except.map] at h
    | ok e =>
      rw [hs] at h; simp [Except.map] at h
      obtain ⟨rfl, rfl⟩ := h
      simp; exact convList_int hs

theorem getD_zero_mem {es : List El} (h : es.length = 1) : es.getD 0 .nan ∈ es := by
  match es, h with
  | [e], _ => simp

theorem finish_mem {P : El → Prop} {es : List El} {z : Bool} {d : Option Nat} {fill : Bool} {es' : List El} {sc : Bool}
    (hP : ∀ e ∈ es, P e) (hz : z = true → es.length = 1) (h : finish es z d fill = .ok es' sc) :
    ∀ e ∈ es', P e := by
  unfold finish at h
  simp only at h
  split at h
  · rename_i hs
    have hl : es.length = 1 := by
      cases z
      · simpa using hs
      · exact hz rfl
    have h0 := hP _ (getD_zero_mem hl)
    split at h
    · cases d with
      | none => simp at h
      | some n =>
        simp at h
        obtain ⟨rfl, rfl⟩ := h
        intro e he
        rw [List.mem_replicate] at he
        rw [he.2]; simpa using h0
    · simp at h
      obtain ⟨rfl, rfl⟩ := h
      simpa using h0
  · cases d with
    | none => simp at h; obtain ⟨rfl, rfl⟩ := h; exact hP
    | some n =>
      simp only at h
      split at h
      · simp at h
      · simp at h; obtain ⟨rfl, rfl⟩ := h; exact hP

theorem checkScalar_int {v : Val} {d : Option Nat} {fill : Bool} {es : List El} {sc : Bool}
    (h : checkScalar v d fill true = .ok es sc) : ∀ e ∈ es, ∃ k : Int, e = .fin (k : Rat) := by
  rw [checkScalar_eq] at h
  cases hf : flatOf true v with
  | error r => rw [hf] at h; simp at h; subst h; have := flatOf_error hf; simp [Res.rejected] at this
  | ok p =>
    obtain ⟨es0, z⟩ := p
    rw [hf] at h; simp at h
    obtain ⟨h1, h2⟩ := flatOf_int hf
    exact finish_mem h1 h2 h

theorem csv_ok {v : Val} {az twoD dt : Bool} {es : List El} {sc : Bool}
    (h : checkScalarVariable v az twoD dt = .ok es sc) :
    checkScalar v (some (if twoD then 2 else 1)) twoD dt = .ok es sc ∧
      es.any (if az then El.ltZero else El.leZero) = false := by
  unfold checkScalarVariable at h
  split at h
  · rename_i es' sc' heq
    cases hany : es'.any (if az then El.ltZero else El.leZero) with
    | true => rw [hany] at h; simp at h
    | false =>
      rw [hany] at h; simp at h; obtain ⟨rfl, rfl⟩ := h
      exact ⟨heq, hany⟩
  · rename_i hne; exact absurd h (hne _ _)

theorem hw_ok {v : Val} {az twoD : Bool} {es : List El} {sc : Bool}
    (h : checkHalfWindow v az twoD = .ok es sc) :
    checkScalarVariable v az twoD true = .ok es sc ∧ sameAsInput es v = true := by
  unfold checkHalfWindow at h
  split at h
  · rename_i es' sc' heq
    split at h
    · rename_i hs
      simp at h; obtain ⟨rfl, rfl⟩ := h
      exact ⟨heq, hs⟩
    · simp at h
  · rename_i hne; exact absurd h (hne _ _)

theorem getD_num_mem {l : List Sc} {i : Nat} {q : Rat} (h : l.getD i .nan = .num q) : Sc.num q ∈ l := by
  simp only [List.getD_eq_getElem?_getD] at h
  cases hi : l[i]? with
  | none => rw [hi] at h; simp at h
  | some x => rw [hi] at h; simp at h; subst h; exact List.mem_of_getElem? hi

theorem sameAsInput_mem {es : List El} {v : Val} (h : sameAsInput es v = true) :
    ∀ e ∈ es, ∃ q, e = .fin q ∧ Sc.num q ∈ origEls v := by
  intro e he
  obtain ⟨i, hi, rfl⟩ := List.mem_iff_getElem.mp he
  unfold sameAsInput at h
  simp only [List.all_eq_true, List.mem_range] at h
  have h' := h i hi
  split at h'
  · rename_i q q' h1 h2
    have hq : q = q' := by simpa using h'
    subst hq
    refine ⟨q, ?_, ?_⟩
    · simpa [List.getD_eq_getElem?_getD, hi] using h1
    · split at h2
      · exact getD_num_mem h2
      · exact getD_num_mem h2
  · simp at h'

/-- an accepted half window is a positive integer equal to what the caller passed — for one value and
for the pair of the 2-D / per-side path alike -/
theorem halfWindow_ok_dom (v : Val) (twoD : Bool) (es : List El) (sc : Bool)
    (h : checkHalfWindow v false twoD = .ok es sc) :
    ∀ e ∈ es, ∃ q : Rat, e = .fin q ∧ 0 < q ∧ q.den = 1 ∧ (.num q) ∈ origEls v := by
  obtain ⟨h1, h2⟩ := hw_ok h
  obtain ⟨h3, h4⟩ := csv_ok h1
  intro e he
  obtain ⟨q, rfl, hm⟩ := sameAsInput_mem h2 _ he
  obtain ⟨k, hk⟩ := checkScalar_int h3 _ he
  have hqk : q = (k : Rat) := by simpa using hk
  refine ⟨q, rfl, ?_, ?_, hm⟩
  · have := List.any_eq_false.mp h4 _ he
    simpa [El.leZero, Rat.not_le] using this
  · rw [hqk]; exact Rat.den_intCast k

/-- with `allow_zero` the accepted values are non-negative integers -/
theorem halfWindow_ok_dom_zero (v : Val) (twoD : Bool) (es : List El) (sc : Bool)
    (h : checkHalfWindow v true twoD = .ok es sc) :
    ∀ e ∈ es, ∃ q : Rat, e = .fin q ∧ 0 ≤ q ∧ q.den = 1 := by
  obtain ⟨h1, h2⟩ := hw_ok h
  obtain ⟨h3, h4⟩ := csv_ok h1
  intro e he
  obtain ⟨k, rfl⟩ := checkScalar_int h3 _ he
  refine ⟨k, rfl, ?_, Rat.den_intCast k⟩
  have := List.any_eq_false.mp h4 _ he
  simpa [El.ltZero, Rat.not_lt] using this

/-- an accepted `lam` has no entry that is ≤ 0 (or −∞) -/
theorem lam_ok_dom (v : Val) (twoD : Bool) (es : List El) (sc : Bool) (h : checkLam v false twoD = .ok es sc) :
    ∀ e ∈ es, e.leZero = false := by
  obtain ⟨_, h4⟩ := csv_ok (show checkScalarVariable v false twoD false = .ok es sc from h)
  intro e he
  have := List.any_eq_false.mp h4 _ he
  simpa using this

/-- zero, negative numbers, and sequences containing one are rejected by `_check_lam`, 1-D and 2-D -/
theorem lam_rejects_nonpos (q : Rat) (hq : q ≤ 0) (twoD : Bool) : (checkLam (.sc (.num q)) false twoD).rejected = true := by
  cases twoD <;>
    simp [checkLam, checkScalarVariable, checkScalar, convSc, Except.map, El.leZero, hq, Res.rejected]
theorem lam_rejects_nonpos_in_pair (a b : Rat) (h : a ≤ 0 ∨ b ≤ 0) : (checkLam (.arr [.num a, .num b]) false true).rejected = true := by
  have : (decide (a ≤ 0) || decide (b ≤ 0)) = true := by simpa using h
  simp [checkLam, checkScalarVariable, checkScalar, convList, convSc, Except.map, bind, Except.bind, pure, Except.pure,
    El.leZero, this, Res.rejected]

theorem checkScalar_arr_len {l : List Sc} {n : Nat} {fill dt : Bool} (h1 : l.length ≠ 1) (hn : l.length ≠ n) :
    (checkScalar (.arr l) (some n) fill dt).rejected = true := by
  rw [checkScalar_eq]
  simp only [flatOf]
  cases hc : convList dt l with
  | error r => simp [Except.map]; exact convList_error hc
  | ok es =>
    have hl := convList_length hc
    simp [Except.map, finish, hl, h1, hn, Res.rejected]

theorem csv_rejected_of {v : Val} {az twoD dt : Bool}
    (h : (checkScalar v (some (if twoD then 2 else 1)) twoD dt).rejected = true) :
    (checkScalarVariable v az twoD dt).rejected = true := by
  unfold checkScalarVariable
  split
  · rename_i heq; rw [heq] at h; simp [Res.rejected] at h
  · exact h

/-- a sequence of two or more values where a single value is required is rejected -/
theorem scalar_rejects_sequence (l : List Sc) (hl : 2 ≤ l.length) (az dt : Bool) :
    (checkScalarVariable (.arr l) az false dt).rejected = true := by
  apply csv_rejected_of
  apply checkScalar_arr_len <;> simp <;> omega
/-- a sequence of the wrong length is rejected where a pair is required -/
theorem pair_rejects_wrong_length (l : List Sc) (hl : l.length ≠ 1 ∧ l.length ≠ 2) (az dt : Bool) :
    (checkScalarVariable (.arr l) az true dt).rejected = true := by
  apply csv_rejected_of
  apply checkScalar_arr_len <;> simp <;> omega

/-- every non-integer or non-positive half window is rejected (one value) -/
theorem halfWindow_rejects (q : Rat) (h : q ≤ 0 ∨ q.den ≠ 1) (twoD : Bool) :
    (checkHalfWindow (.sc (.num q)) false twoD).rejected = true := by
  by_cases hq : truncQ q ≤ 0
  · cases twoD <;>
      simp [checkHalfWindow, checkScalarVariable, checkScalar, convSc, Except.map, El.leZero, hq, Res.rejected]
  · have hne : truncQ q ≠ q := by
      rcases h with h | h
      · exact absurd (truncQ_nonpos h) hq
      · exact truncQ_ne h
    cases twoD <;>
      simp [checkHalfWindow, checkScalarVariable, checkScalar, convSc, Except.map, El.leZero, hq, Res.rejected,
        sameAsInput, origEls, hne, List.range_succ]
/-- … and in a pair -/
theorem halfWindow_rejects_in_pair (a b : Rat) (h : a ≤ 0 ∨ a.den ≠ 1 ∨ b ≤ 0 ∨ b.den ≠ 1) :
    (checkHalfWindow (.arr [.num a, .num b]) false true).rejected = true := by
  by_cases hq : truncQ a ≤ 0 ∨ truncQ b ≤ 0
  · have : (decide (truncQ a ≤ 0) || decide (truncQ b ≤ 0)) = true := by simpa using hq
    simp [checkHalfWindow, checkScalarVariable, checkScalar, convList, convSc, Except.map, bind, Except.bind, pure,
      Except.pure, El.leZero, this, Res.rejected]
  · have hq' : (decide (truncQ a ≤ 0) || decide (truncQ b ≤ 0)) = false := by simpa using hq
    have hne : truncQ a ≠ a ∨ truncQ b ≠ b := by
      rcases h with h | h | h | h
      · exact absurd (Or.inl (truncQ_nonpos h)) hq
      · exact Or.inl (truncQ_ne h)
      · exact absurd (Or.inr (truncQ_nonpos h)) hq
      · exact Or.inr (truncQ_ne h)
    have hne' : (truncQ a == a && truncQ b == b) = false := by
      rcases hne with h | h <;> simp [h]
    simp [checkHalfWindow, checkScalarVariable, checkScalar, convList, convSc, Except.map, bind, Except.bind, pure,
      Except.pure, El.leZero, hq', Res.rejected, sameAsInput, origEls, List.range_succ, hne']

/-- integer-typed parameters (poly_order, num_knots, spline_degree, diff_order): negative values are rejected,
with `allow_zero = false` zero as well -/
theorem intVariable_rejects (q : Rat) (az : Bool) (h : truncQ q < 0 ∨ (az = false ∧ truncQ q ≤ 0)) (twoD : Bool) :
    (checkScalarVariable (.sc (.num q)) az twoD true).rejected = true := by
  cases az
  · have hq : truncQ q ≤ 0 := by
      rcases h with h | h
      · exact Rat.le_of_lt h
      · exact h.2
    cases twoD <;>
      simp [checkScalarVariable, checkScalar, convSc, Except.map, El.leZero, hq, Res.rejected]
  · have hq : truncQ q < 0 := by
      rcases h with h | h
      · exact h
      · simp at h
    cases twoD <;>
      simp [checkScalarVariable, checkScalar, convSc, Except.map, El.ltZero, hq, Res.rejected]

/-- a non-finite entry at ANY position makes a finiteness-checked array raise ValueError -/
theorem nonfinite_any_pos (pre post : List El) (e : El) (he : ∀ q, e ≠ .fin q) (s : List Nat) (e1 e2 td : Bool) :
    anyNonFinite (pre ++ e :: post) = true ∧
    checkArray s (anyNonFinite (pre ++ e :: post)) true e1 e2 td = .valueError := by
  have h1 : anyNonFinite (pre ++ e :: post) = true := by
    cases e with
    | fin q => exact absurd rfl (he q)
    | _ => simp [anyNonFinite]
  exact ⟨h1, by simp [checkArray, h1]⟩

/-- a per-point array of the wrong length is rejected, whatever its length and orientation -/
theorem len_mismatch_rejected (n m : Nat) (h : n ≠ m) (nf cf : Bool) :
    checkSized [n] nf cf m = .valueError ∧ checkSized [n, 1] nf cf m = .valueError ∧ checkSized [1, n] nf cf m = .valueError := by
  cases nf <;> cases cf <;> simp [checkSized, checkArray, checkArrayShape, h]
/-- … and one of the right length (N,), (N,1) or (1,N) is accepted as a length-N array (N ≥ 2) -/
theorem len_match_accepted (n : Nat) (hn : 2 ≤ n) :
    checkSized [n] false true n = .ok [n] ∧ checkSized [n, 1] false true n = .ok [n] ∧ checkSized [1, n] false true n = .ok [n] := by
  simp [checkSized, checkArray, checkArrayShape]

/-- scalars and arrays of more than two dimensions (three in 2-D) are never accepted as data -/
theorem data_dims_rejected (s : List Nat) (cf nf : Bool) :
    (s.length = 0 → checkArray s nf cf true false false = .typeError ∨ checkArray s nf cf true false false = .valueError) ∧
    (3 ≤ s.length → checkArray s nf cf true false false = .valueError) ∧
    (4 ≤ s.length → checkArray s nf cf false true true = .valueError) := by
  refine ⟨?_, ?_, ?_⟩
  · intro h
    cases nf <;> cases cf <;> simp [checkArray, checkArrayShape, h]
  · intro h
    have h1 : ¬ s.length < 1 := by omega
    have h2 : ¬ s.length = 2 := by omega
    have h3 : ¬ s.length = 1 := by omega
    cases nf <;> cases cf <;> simp [checkArray, checkArrayShape, h1, h2, h3]
  · intro h
    have h1 : ¬ s.length < 1 := by omega
    have h2 : ¬ s.length = 2 := by omega
    have h3 : ¬ s.length = 3 := by omega
    have h4 : ¬ s.length < 2 := by omega
    cases nf <;> cases cf <;> simp [checkArray, checkArrayShape, h1, h2, h3, h4]

theorem solver_accepted_iff (isBool : Bool) (v : Rat) :
    solverAccepted isBool v = true ↔ isBool = false ∧ (v = 1 ∨ v = 2 ∨ v = 3 ∨ v = 4) := by
  simp [solverAccepted, or_assoc]

theorem inOpen01_iff (q : Rat) : inOpen01 q = true ↔ 0 < q ∧ q < 1 := by simp [inOpen01]
theorem inClosed01_iff (q : Rat) : inClosed01 q = true ↔ 0 ≤ q ∧ q ≤ 1 := by simp [inClosed01]

end PbVerif.Lemmas
