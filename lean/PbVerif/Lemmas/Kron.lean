import Mathlib.Data.Matrix.Mul
import Mathlib.Algebra.Order.Field.Rat
import Mathlib.Tactic.Ring
import Mathlib.Tactic.Abel
import Mathlib.Data.List.GetD
import PbVerif.Model.Kron
/-! Lemmas for C20. -/
namespace PbVerif.Lemmas
open PbVerif.Kron

/-- well-shaped matrix: every row has the same length `c` -/
def Rect (M : Mat) (c : Nat) : Prop := ∀ row ∈ M, row.length = c

theorem foldl_add_eq (l : List Rat) (x : Rat) : l.foldl (· + ·) x = x + l.sum := by
  induction l generalizing x with
  | nil => simp
  | cons h t ih => simp [List.foldl_cons, ih, add_assoc]

theorem sumL_eq_sum (l : List Rat) : sumL l = l.sum := by
  simp [sumL, foldl_add_eq]

theorem sumL_congr (l : List Nat) (f g : Nat → Rat) (h : ∀ i ∈ l, f i = g i) :
    sumL (l.map f) = sumL (l.map g) := by
  rw [List.map_congr_left h]

theorem ncols_eq (B : Mat) (a : Nat) (hB : Rect B a) (h0 : 0 < B.length) : B.ncols = a := by
  unfold Mat.ncols
  rw [List.getD_eq_getElem?_getD, List.getElem?_eq_getElem h0]
  exact hB _ (List.getElem_mem h0)

theorem faceSplit_at (B : Mat) (a m p : Nat) (hB : Rect B a) (hm : m < B.length) (hp : p < a * a) :
    (faceSplit B).at m p = B.at m (p / a) * B.at m (p % a) := by
  have hlen : (B[m]).length = a := hB _ (List.getElem_mem hm)
  simp only [Mat.at, faceSplit, List.getD_eq_getElem?_getD, List.getElem?_map,
    List.getElem?_eq_getElem hm, Option.map_some, Option.getD_some, hlen]
  rw [List.getElem?_range hp]
  simp

/-- **array algebra = Kronecker normal matrix**: the reshape/transposes of `G_r' W G_c` give exactly
`(B_r ⊗ B_c)' diag(vec W) (B_r ⊗ B_c)`, entry by entry, for all shapes -/
theorem makeBtwb_eq_kron (Br Bc W : Mat) (a b : Nat) (hr : Rect Br a) (hc : Rect Bc b) (ha : 0 < Br.length) (hb : 0 < Bc.length)
    (r c : Nat) (hr' : r < a * b) (hc' : c < a * b) :
    makeBtwb Br Bc W r c = kronBtwb Br Bc W r c := by
  have hbpos : 0 < b := by
    rcases b with _ | b
    · simp at hr'
    · omega
  have hna : Br.ncols = a := ncols_eq Br a hr ha
  have hnb : Bc.ncols = b := ncols_eq Bc b hc hb
  unfold makeBtwb kronBtwb gwg
  simp only [hna, hnb]
  apply sumL_congr; intro m hm; apply sumL_congr; intro n hn
  rw [List.mem_range] at hm hn
  have h1 : r / b < a := Nat.div_lt_of_lt_mul (by rwa [Nat.mul_comm] at hr')
  have h2 : c / b < a := Nat.div_lt_of_lt_mul (by rwa [Nat.mul_comm] at hc')
  have h3 : r % b < b := Nat.mod_lt _ hbpos
  have h4 : c % b < b := Nat.mod_lt _ hbpos
  have hp : r / b * a + c / b < a * a := by
    calc r / b * a + c / b < r / b * a + a := by omega
      _ = (r / b + 1) * a := by ring
      _ ≤ a * a := Nat.mul_le_mul_right a h1
  have hq : r % b * b + c % b < b * b := by
    calc r % b * b + c % b < r % b * b + b := by omega
      _ = (r % b + 1) * b := by ring
      _ ≤ b * b := Nat.mul_le_mul_right b h3
  rw [faceSplit_at Br a m _ hr hm hp, faceSplit_at Bc b n _ hc hn hq]
  have e1 : (r / b * a + c / b) / a = r / b := by
    rw [Nat.add_comm, Nat.add_mul_div_right _ _ (Nat.lt_of_le_of_lt (Nat.zero_le _) h1), Nat.div_eq_of_lt h2, Nat.zero_add]
  have e2 : (r / b * a + c / b) % a = c / b := by
    rw [Nat.add_comm, Nat.add_mul_mod_self_right, Nat.mod_eq_of_lt h2]
  have e3 : (r % b * b + c % b) / b = r % b := by
    rw [Nat.add_comm, Nat.add_mul_div_right _ _ hbpos, Nat.div_eq_of_lt h4, Nat.zero_add]
  have e4 : (r % b * b + c % b) % b = c % b := by
    rw [Nat.add_comm, Nat.add_mul_mod_self_right, Nat.mod_eq_of_lt h4]
  rw [e1, e2, e3, e4]
  unfold kronAt
  rw [hnb]
  ring

theorem rhs_eq_kron (Br Bc WY : Mat) (r : Nat) : rhsCode Br Bc WY r = kronRhs Br Bc WY r := by
  unfold rhsCode kronRhs
  apply sumL_congr; intro m _; apply sumL_congr; intro n _
  unfold kronAt
  ring

theorem sumL_range_mul (a b : Nat) (f : Nat → Rat) :
    sumL ((List.range (a * b)).map f) =
      sumL ((List.range a).map fun i => sumL ((List.range b).map fun k => f (i * b + k))) := by
  simp only [sumL_eq_sum]
  induction a with
  | zero => simp
  | succ a ih =>
    rw [Nat.succ_mul, List.range_add, List.map_append, List.sum_append, ih, List.range_succ,
      List.map_append, List.sum_append]
    simp [List.map_map, Function.comp_def]

/-- `B_r C B_c'` is `(B_r ⊗ B_c) vec C` reshaped -/
theorem reconstruct_eq_kron (Br Bc : Mat) (coef : List Rat) (m n : Nat) (hb : 0 < Bc.ncols) :
    reconstruct Br Bc coef m n = kronApply Br Bc coef m n := by
  unfold reconstruct kronApply
  rw [sumL_range_mul]
  apply sumL_congr; intro i _; apply sumL_congr; intro k hk
  rw [List.mem_range] at hk
  unfold kronAt
  have e1 : (i * Bc.ncols + k) / Bc.ncols = i := by
    rw [Nat.add_comm, Nat.add_mul_div_right _ _ hb, Nat.div_eq_of_lt hk, Nat.zero_add]
  have e2 : (i * Bc.ncols + k) % Bc.ncols = k := by
    rw [Nat.add_comm, Nat.add_mul_mod_self_right, Nat.mod_eq_of_lt hk]
  rw [e1, e2]
  ring

theorem getD_flatten_rep (l : List Rat) (g : Rat → Rat) (b i k : Nat) (hi : i < l.length) (hk : k < b) :
    (List.flatten (l.map fun v => List.replicate b (g v))).getD (i * b + k) 0 = g (l.getD i 0) := by
  induction l generalizing i with
  | nil => simp at hi
  | cons h t ih =>
    rw [List.map_cons, List.flatten_cons]
    rcases i with _ | i
    · rw [List.getD_append _ _ _ _ (by simpa using hk)]
      simp [List.getD_eq_getElem?_getD, hk]
    · rw [List.getD_append_right _ _ _ _ (by simp [Nat.succ_mul]; omega)]
      have : (i + 1) * b + k - (List.replicate b (g h)).length = i * b + k := by
        simp [Nat.succ_mul]; omega
      rw [this, ih i (by simpa using hi)]
      simp

theorem getD_flatten_tile (m : List Rat) (a i k : Nat) (hi : i < a) (hk : k < m.length) :
    (List.flatten (List.replicate a m)).getD (i * m.length + k) 0 = m.getD k 0 := by
  induction a generalizing i with
  | zero => omega
  | succ a ih =>
    rw [List.replicate_succ, List.flatten_cons]
    rcases i with _ | i
    · rw [List.getD_append _ _ _ _ (by simpa using hk)]
      simp
    · rw [List.getD_append_right _ _ _ _ (by simp [Nat.succ_mul]; omega)]
      have : (i + 1) * m.length + k - m.length = i * m.length + k := by
        simp [Nat.succ_mul]; omega
      rw [this, ih i (by omega)]

/-- the eigenvalue penalty is the diagonal of `λ_r Λ_r ⊗ I + I ⊗ λ_c Λ_c` -/
theorem eigPenalty_entry (lamr lamc : Rat) (er ec : List Rat) (i k : Nat) (hi : i < er.length) (hk : k < ec.length) :
    eigPenalty lamr lamc er ec (i * ec.length + k) = lamr * er.getD i 0 + lamc * ec.getD k 0 := by
  unfold eigPenalty
  simp only []
  rw [getD_flatten_rep er (fun v => lamr * v) ec.length i k hi hk]
  have := getD_flatten_tile (ec.map (lamc * ·)) er.length i k hi (by simpa using hk)
  rw [List.length_map] at this
  rw [this]
  simp [List.getD_eq_getElem?_getD, List.getElem?_map, List.getElem?_eq_getElem hk]

/-! ### eigen-hypotheses ⇒ Galerkin / full-system statements (any orthonormal basis `B`, `P` the full penalty) -/

open Matrix in
/-- **truncated eigenbasis = Galerkin solution**: if the columns of `B` satisfy `B'PB = Λ` (e.g. are eigenvectors of `P`)
and `c` solves the reduced system `(B'WB + Λ) c = B'W y`, then `v = B c` satisfies the Galerkin equations
`B'(W (y − v) − P v) = 0` of the documented system in that basis -/
theorem truncated_is_galerkin {N K : Type} [Fintype N] [Fintype K] [DecidableEq N] [DecidableEq K]
    (B : Matrix N K ℚ) (W P : Matrix N N ℚ) (L : Matrix K K ℚ) (y : N → ℚ) (c : K → ℚ)
    (hL : Bᵀ * P * B = L) (hc : (Bᵀ * W * B + L).mulVec c = Bᵀ.mulVec (W.mulVec y)) :
    Bᵀ.mulVec (W.mulVec (y - B.mulVec c) - P.mulVec (B.mulVec c)) = 0 := by
  rw [Matrix.mulVec_sub, Matrix.mulVec_sub, Matrix.mulVec_sub, ← hc, Matrix.add_mulVec, ← hL]
  simp only [Matrix.mulVec_mulVec, Matrix.mul_assoc]
  abel

open Matrix in
/-- **all eigenvectors = direct solution**: with a square orthogonal basis (`B B' = I`) the Galerkin equations are the
full system `(W + P) v = W y` -/
theorem full_eigen_eq_direct {N : Type} [Fintype N] [DecidableEq N]
    (B : Matrix N N ℚ) (W P : Matrix N N ℚ) (y v : N → ℚ) (hB : B * Bᵀ = 1)
    (hg : Bᵀ.mulVec (W.mulVec (y - v) - P.mulVec v) = 0) :
    (W + P).mulVec v = W.mulVec y := by
  have h := congrArg B.mulVec hg
  rw [Matrix.mulVec_mulVec, hB, Matrix.one_mulVec, Matrix.mulVec_zero, Matrix.mulVec_sub] at h
  rw [Matrix.add_mulVec]
  have h2 : W.mulVec y = W.mulVec v + P.mulVec v := by
    rw [sub_sub, sub_eq_zero] at h
    exact h
  exact h2.symm

end PbVerif.Lemmas
