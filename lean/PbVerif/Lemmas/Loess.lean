import PbVerif.Model.Loess
/-! Lemmas about `_determine_fits` / `_fill_skips` (C05 index safety for arbitrary comparison
outcomes; C19 postconditions for sorted x). -/
namespace PbVerif.Lemmas
open PbVerif.Loess

/-! ### helpers -/

theorem loop_succ (m : Nat) :
    (List.range (m+1)).map (· + 1) = (List.range m).map (· + 1) ++ [m+1] := by
  simp [List.range_succ]

/-- generic invariant rule for the main loop -/
theorem fold_inv (o : Oracle) (n : Nat) (check : Bool) (P : Nat → St → Prop) (s0 : St)
    (h0 : P 0 s0) (m : Nat)
    (hstep : ∀ i s, i < m → P i s → P (i+1) (iter o n check s (i+1))) :
    P m (((List.range m).map (· + 1)).foldl (iter o n check) s0) := by
  induction m with
  | zero => simpa
  | succ k ih =>
    rw [loop_succ, List.foldl_append]
    simp only [List.foldl_cons, List.foldl_nil]
    exact hstep k _ (by omega) (ih (fun i s hi => hstep i s (by omega)))

theorem zip_tail_append (l : List Nat) (L a : Nat) (h : l.getLast? = some L) :
    (l ++ [a]).zip (l ++ [a]).tail = l.zip l.tail ++ [(L, a)] := by
  induction l with
  | nil => simp at h
  | cons b t ih =>
    cases t with
    | nil => simp at h; simp [h]
    | cons c t' =>
      have := ih (by simpa [List.getLast?_cons_cons] using h)
      simpa using this

/-- the part of the loop invariant that does not mention the skip bookkeeping:
`L` is the last fitted index, `i` the last processed index -/
structure Core (i : Nat) (s : St) (L : Nat) : Prop where
  wlen : s.windows.length = s.fits.length
  head : s.fits.head? = some 0
  pw : s.fits.Pairwise (· < ·)
  last : s.fits.getLast? = some L
  le : ∀ f ∈ s.fits, f ≤ L
  flen : s.fits.length ≤ L + 1
  Li : L ≤ i
  sklen : s.skips.length + 1 ≤ s.fits.length
  skinb : ∀ p ∈ s.skips, p.1 + 1 < p.2 ∧ p.2 ≤ i + 1
  gaps : s.skips.filter (fun p => p.1 + 2 < p.2) =
    ((s.fits.zip s.fits.tail).filter (fun p => p.1 + 1 < p.2)).map (fun p => (p.1, p.2 + 1))

theorem Core.mono {i i' : Nat} {s s' : St} {L : Nat} (c : Core i s L) (hi : i ≤ i')
    (hf : s'.fits = s.fits) (hw : s'.windows = s.windows) (hs : s'.skips = s.skips) :
    Core i' s' L := by
  refine ⟨?_, ?_, ?_, ?_, ?_, ?_, ?_, ?_, ?_, ?_⟩
  · rw [hf, hw]; exact c.wlen
  · rw [hf]; exact c.head
  · rw [hf]; exact c.pw
  · rw [hf]; exact c.last
  · rw [hf]; exact c.le
  · rw [hf]; exact c.flen
  · have := c.Li; omega
  · rw [hf, hs]; exact c.sklen
  · rw [hs]; intro p hp; have := c.skinb p hp; omega
  · rw [hf, hs]; exact c.gaps

theorem Core.append {i i' j : Nat} {s s' : St} {L : Nat} {w : Int × Int} (c : Core i s L)
    (hLj : L < j) (hj : j ≤ i') (hii : i ≤ i')
    (hf : s'.fits = s.fits ++ [j]) (hw : s'.windows = s.windows ++ [w])
    (hs : (s'.skips = s.skips ∧ j = L + 1) ∨ s'.skips = s.skips ++ [(L, j + 1)]) :
    Core i' s' j := by
  refine ⟨?_, ?_, ?_, ?_, ?_, ?_, ?_, ?_, ?_, ?_⟩
  · rw [hf, hw]; simp [c.wlen]
  · rw [hf]; have := c.head
    cases hfs : s.fits with
    | nil => simp [hfs] at this
    | cons a t => simpa [hfs] using this
  · rw [hf, List.pairwise_append]
    refine ⟨c.pw, by simp, ?_⟩
    intro a ha b hb
    simp at hb
    have := c.le a ha; omega
  · rw [hf]; simp
  · rw [hf]; intro f hf'
    simp at hf'
    rcases hf' with h | h
    · have := c.le f h; omega
    · omega
  · rw [hf]; have := c.flen; simp; omega
  · omega
  · have := c.sklen
    rcases hs with ⟨h, _⟩ | h <;> rw [h, hf] <;> simp <;> omega
  · intro p hp
    rcases hs with ⟨h, _⟩ | h
    · rw [h] at hp; have := c.skinb p hp; omega
    · rw [h] at hp; simp at hp
      rcases hp with hp | hp
      · have := c.skinb p hp; omega
      · subst hp; simp; omega
  · rw [hf, zip_tail_append _ _ _ c.last, List.filter_append, List.map_append, ← c.gaps]
    rcases hs with ⟨h, h2⟩ | h
    · rw [h]; subst h2; simp
    · rw [h, List.filter_append]
      congr 1
      by_cases hg : L + 1 < j
      · have : L + 2 < j + 1 := by omega
        simp [hg, this]
      · have : ¬ (L + 2 < j + 1) := by omega
        simp [hg, this]

/-- relation between the skip bookkeeping and the last fitted index -/
structure Link (check : Bool) (i : Nat) (s : St) (L : Nat) : Prop where
  z : s.skipStart = 0 → L = i
  nz : s.skipStart ≠ 0 → L + 1 = s.skipStart ∧ s.skipStart ≤ i ∧ check = true
  lf : check = true → s.lastFit = L

def LInv (check : Bool) (i : Nat) (s : St) : Prop := ∃ L, Core i s L ∧ Link check i s L

def st0 (tp : Nat) : St :=
  { fits := [0], windows := [(0, (tp : Int))], skips := [], skipStart := 0, lastFit := 0,
    left := 0, right := tp }

def loop (o : Oracle) (n tp : Nat) (check : Bool) : St :=
  ((List.range (n - 2)).map (· + 1)).foldl (iter o n check) (st0 tp)

def special (o : Oracle) (n tp : Nat) (s : St) : St :=
  if s.skipStart ≠ 0 then
    let w : Int × Int :=
      if n = tp ∨ o.tail then (((n - tp : Nat) : Int), (n : Int))
      else (((n : Int) - (tp : Int) - 1), ((n : Int) - 1))
    { s with fits := s.fits ++ [n - 2], windows := s.windows ++ [w],
             skips := s.skips ++ [(s.skipStart - 1, n - 1)] }
  else s

def final (n tp : Nat) (s : St) : St :=
  if n > 1 then { s with fits := s.fits ++ [n - 1],
                         windows := s.windows ++ [(((n - tp : Nat) : Int), (n : Int))] } else s

theorem determineFits_eq (o : Oracle) (n tp : Nat) (check : Bool) :
    determineFits o n tp check =
      ((final n tp (special o n tp (loop o n tp check))).windows,
       (final n tp (special o n tp (loop o n tp check))).fits,
       (final n tp (special o n tp (loop o n tp check))).skips) := rfl

theorem st0_LInv (check : Bool) (tp : Nat) : LInv check 0 (st0 tp) := by
  refine ⟨0, ⟨?_, ?_, ?_, ?_, ?_, ?_, ?_, ?_, ?_, ?_⟩, ⟨?_, ?_, ?_⟩⟩ <;> simp [st0]

theorem iter_LInv (o : Oracle) (n : Nat) (check : Bool) (i : Nat) (s : St)
    (h : LInv check i s) : LInv check (i+1) (iter o n check s (i+1)) := by
  obtain ⟨L, c, k⟩ := h
  unfold iter
  by_cases hb : (check && o.skip (i+1) s.lastFit) = true
  · rw [if_pos hb]
    have hc : check = true := by simp at hb; exact hb.1
    refine ⟨L, c.mono (by omega) rfl rfl rfl, ⟨?_, ?_, ?_⟩⟩
    · intro h0; exfalso
      by_cases hz : s.skipStart = 0 <;> simp [hz] at h0
    · intro _
      by_cases hz : s.skipStart = 0
      · have := k.z hz; simp [hz, hc]; omega
      · have := k.nz hz; simp [hz, hc]; omega
    · intro h; exact k.lf h
  · rw [if_neg hb]
    cases check with
    | false =>
      have hz : s.skipStart = 0 := by
        apply Decidable.byContradiction; intro hz
        have := (k.nz hz).2.2; simp at this
      have hL := k.z hz
      refine ⟨i+1, c.append (by omega) (Nat.le_refl _) (by omega) rfl rfl
        (Or.inl ⟨rfl, by omega⟩), ⟨?_, ?_, ?_⟩⟩
      · intro _; rfl
      · intro h; exact absurd hz h
      · intro h; simp at h
    | true =>
      have hLi := c.Li
      refine ⟨i+1, c.append (by omega) (Nat.le_refl _) (by omega) rfl rfl ?_, ⟨?_, ?_, ?_⟩⟩
      · by_cases hz : s.skipStart = 0
        · left; have := k.z hz; simp [hz]; omega
        · right; have := k.nz hz
          have e : s.skipStart - 1 = L := by omega
          simp [hz, e]
      · intro _; rfl
      · intro h; simp at h
      · intro _; rfl

theorem loop_LInv (o : Oracle) (n tp : Nat) (check : Bool) :
    LInv check (n - 2) (loop o n tp check) :=
  fold_inv o n check (LInv check) (st0 tp) (st0_LInv check tp) (n - 2)
    (fun i s _ h => iter_LInv o n check i s h)

/-- after the special case for the second to last point -/
theorem special_Core (o : Oracle) (n tp : Nat) (check : Bool) :
    Core (n - 2) (special o n tp (loop o n tp check)) (n - 2) := by
  obtain ⟨L, c, k⟩ := loop_LInv o n tp check
  unfold special
  by_cases hz : (loop o n tp check).skipStart = 0
  · rw [if_neg (by simpa using hz)]
    have := k.z hz; subst this; exact c
  · rw [if_pos hz]
    have := k.nz hz
    refine c.append (by omega) (Nat.le_refl _) (Nat.le_refl _) rfl rfl (Or.inr ?_)
    have e : (loop o n tp check).skipStart - 1 = L := by omega
    have e2 : n - 1 = n - 2 + 1 := by omega
    simp [e, e2]

theorem final_Core (o : Oracle) (n tp : Nat) (check : Bool) :
    Core (n - 1) (final n tp (special o n tp (loop o n tp check))) (n - 1) := by
  have c := special_Core o n tp check
  unfold final
  by_cases hn : n > 1
  · rw [if_pos hn]
    exact c.append (by omega) (Nat.le_refl _) (by omega) rfl rfl (Or.inl ⟨rfl, by omega⟩)
  · rw [if_neg hn]
    have e : n - 1 = n - 2 := by omega
    rw [e]; exact c

/-! ### for ARBITRARY comparison outcomes (NaN, unsorted x): index safety -/

theorem determineFits_lengths (o : Oracle) (n tp : Nat) (check : Bool) :
    (determineFits o n tp check).1.length = (determineFits o n tp check).2.1.length := by
  rw [determineFits_eq]; exact (final_Core o n tp check).wlen

/-- every write `fits[total_fits]`, `windows[total_fits]` is inside the length-N arrays -/
theorem determineFits_count (o : Oracle) (n tp : Nat) (check : Bool) (hn : 1 ≤ n) :
    (determineFits o n tp check).2.1.length ≤ n := by
  rw [determineFits_eq]; have := (final_Core o n tp check).flen; simp only; omega

/-- every write `skips[total_skips]` is inside the (N, 2) array -/
theorem determineFits_skips_count (o : Oracle) (n tp : Nat) (check : Bool) (hn : 1 ≤ n) :
    (determineFits o n tp check).2.2.length ≤ n := by
  rw [determineFits_eq]
  have := (final_Core o n tp check).flen
  have := (final_Core o n tp check).sklen
  simp only; omega

theorem determineFits_fits_lt (o : Oracle) (n tp : Nat) (check : Bool) (hn : 1 ≤ n) :
    ∀ f ∈ (determineFits o n tp check).2.1, f < n := by
  rw [determineFits_eq]; intro f hf
  have := (final_Core o n tp check).le f hf; omega

/-- every skip range `[a, b)` handed to `_fill_skips` is non-empty and inside the data -/
theorem determineFits_skips_inb (o : Oracle) (n tp : Nat) (check : Bool) (hn : 1 ≤ n) :
    ∀ s ∈ (determineFits o n tp check).2.2, s.1 + 2 < s.2 + 1 ∧ s.2 ≤ n := by
  rw [determineFits_eq]; intro p hp
  have := (final_Core o n tp check).skinb p hp; omega

/-! windows -/

theorem advance_spec (o : Oracle) (n i tp : Nat) : ∀ f l r, r = l + tp → r ≤ n →
    (advance o n i f l r).2 = (advance o n i f l r).1 + tp ∧ l ≤ (advance o n i f l r).1 ∧
      (advance o n i f l r).2 ≤ n := by
  intro f
  induction f with
  | zero => intro l r h1 h2; simp [advance]; omega
  | succ f ih =>
    intro l r h1 h2
    unfold advance
    by_cases hc : r < n ∧ o.adv i l r = true
    · rw [if_pos hc]
      have := ih (l+1) (r+1) (by omega) (by omega)
      omega
    · rw [if_neg hc]; simp; omega

def WOk (n tp : Nat) (w : Int × Int) : Prop := 0 ≤ w.1 ∧ w.2 ≤ (n : Int) ∧ w.2 - w.1 = (tp : Int)

def WInv (n tp : Nat) (s : St) : Prop :=
  s.right = s.left + tp ∧ s.right ≤ n ∧ ∀ w ∈ s.windows, WOk n tp w

/-- the fit branch of `iter` -/
def fitSt (o : Oracle) (n i : Nat) (s1 : St) : St :=
  let lr := advance o n i n s1.left s1.right
  { s1 with fits := s1.fits ++ [i], windows := s1.windows ++ [((lr.1 : Int), (lr.2 : Int))],
            left := lr.1, right := lr.2 }

theorem iter_eq (o : Oracle) (n : Nat) (check : Bool) (s : St) (i : Nat) :
    iter o n check s i =
      if check && o.skip i s.lastFit then
        { s with skipStart := if s.skipStart = 0 then i else s.skipStart }
      else fitSt o n i
        (if check then
          { s with lastFit := i,
                   skips := if s.skipStart ≠ 0 then s.skips ++ [(s.skipStart - 1, i + 1)] else s.skips,
                   skipStart := 0 }
         else s) := rfl

theorem fitSt_WInv (o : Oracle) (n tp i : Nat) (s s1 : St) (h : WInv n tp s)
    (e1 : s1.left = s.left) (e2 : s1.right = s.right) (e3 : s1.windows = s.windows) :
    WInv n tp (fitSt o n i s1) := by
  obtain ⟨h1, h2, h3⟩ := h
  have := advance_spec o n i tp n s.left s.right h1 h2
  unfold fitSt
  simp only [e1, e2, e3]
  refine ⟨this.1, this.2.2, ?_⟩
  intro w hw
  simp at hw
  rcases hw with hw | hw
  · exact h3 w hw
  · subst hw; simp only [WOk]; omega

theorem iter_WInv (o : Oracle) (n tp : Nat) (check : Bool) (i : Nat) (s : St)
    (h : WInv n tp s) : WInv n tp (iter o n check s i) := by
  rw [iter_eq]
  by_cases hb : (check && o.skip i s.lastFit) = true
  · rw [if_pos hb]; exact h
  · rw [if_neg hb]
    cases check with
    | false => exact fitSt_WInv o n tp i s _ h rfl rfl rfl
    | true => exact fitSt_WInv o n tp i s _ h rfl rfl rfl

theorem loop_WInv (o : Oracle) (n tp : Nat) (check : Bool) (htpn : tp ≤ n) :
    WInv n tp (loop o n tp check) := by
  refine fold_inv o n check (fun _ s => WInv n tp s) (st0 tp) ?_ (n - 2)
    (fun i s _ h => iter_WInv o n tp check (i+1) s h)
  refine ⟨by simp [st0], by simpa [st0] using htpn, ?_⟩
  intro w hw; simp [st0] at hw; subst hw; simp [WOk]; omega

/-- **every window is exactly `total_points` indices inside `[0, N)`** — what makes the slices
`x[left:right]`, `kernels[i] = kernel`, `difference[0]`, `difference[-1]` of the loess kernels safe -/
theorem determineFits_windows_inb (o : Oracle) (n tp : Nat) (check : Bool) (hn : 1 ≤ n)
    (htp : 1 ≤ tp) (htpn : tp ≤ n) :
    ∀ w ∈ (determineFits o n tp check).1, 0 ≤ w.1 ∧ w.2 ≤ (n : Int) ∧ w.2 - w.1 = (tp : Int) := by
  rw [determineFits_eq]
  have h3 := (loop_WInv o n tp check htpn).2.2
  have hlast : WOk n tp (((n - tp : Nat) : Int), (n : Int)) := by simp only [WOk]; omega
  have hs : ∀ w ∈ (special o n tp (loop o n tp check)).windows, WOk n tp w := by
    unfold special
    by_cases hz : (loop o n tp check).skipStart ≠ 0
    · rw [if_pos hz]
      intro w hw
      simp only [List.mem_append, List.mem_singleton] at hw
      rcases hw with hw | hw
      · exact h3 w hw
      · by_cases ht : n = tp ∨ o.tail = true
        · rw [if_pos ht] at hw; subst hw; exact hlast
        · rw [if_neg ht] at hw; subst hw; simp only [WOk]; omega
    · rw [if_neg hz]; exact h3
  unfold final
  by_cases h1 : n > 1
  · rw [if_pos h1]
    intro w hw
    simp only [List.mem_append, List.mem_singleton] at hw
    rcases hw with hw | hw
    · exact hs w hw
    · subst hw; exact hlast
  · rw [if_neg h1]; exact hs

/-! ### for sorted, pairwise distinct x (what `loess` passes): the documented behaviour -/

/-- strictly increasing x -/
def StrictMonoL (x : List Rat) : Prop := ∀ i j, i < j → j < x.length → x.getD i 0 < x.getD j 0

/-- the first and last points are always fitted and fits are strictly increasing -/
theorem fits_sorted_ends (x : List Rat) (tp : Nat) (delta : Rat) (hn : 2 ≤ x.length) :
    let fits := (determineFitsX x tp delta).2.1
    fits.Pairwise (· < ·) ∧ fits.head? = some 0 ∧ fits.getLast? = some (x.length - 1) := by
  unfold determineFitsX
  rw [determineFits_eq]
  have c := final_Core (realOracle x tp delta) x.length tp (decide (delta > 0))
  exact ⟨c.pw, c.head, c.last⟩

def DInv (i : Nat) (s : St) : Prop := s.fits = List.range (i+1) ∧ s.skips = [] ∧ s.skipStart = 0

theorem iter_DInv (o : Oracle) (n i : Nat) (s : St) (h : DInv i s) :
    DInv (i+1) (iter o n false s (i+1)) := by
  obtain ⟨h1, h2, h3⟩ := h
  rw [iter_eq]
  simp only [Bool.false_and, Bool.false_eq_true, if_false]
  unfold fitSt
  refine ⟨?_, h2, h3⟩
  simp only [h1]
  exact (List.range_succ (n := i+1)).symm

theorem loop_DInv (o : Oracle) (n tp : Nat) : DInv (n - 2) (loop o n tp false) :=
  fold_inv o n false DInv (st0 tp) (by simp [DInv, st0, List.range_succ]) (n - 2)
    (fun i s _ h => iter_DInv o n i s h)

/-- with `delta ≤ 0` every point is fitted individually and nothing is skipped -/
theorem delta0_all (x : List Rat) (tp : Nat) (delta : Rat) (hd : delta ≤ 0) (hn : 1 ≤ x.length) :
    (determineFitsX x tp delta).2.1 = List.range x.length ∧ (determineFitsX x tp delta).2.2 = [] := by
  unfold determineFitsX
  have hc : decide (delta > 0) = false := by
    simp only [decide_eq_false_iff_not]; exact Rat.not_lt.mpr hd
  rw [hc, determineFits_eq]
  obtain ⟨h1, h2, h3⟩ := loop_DInv (realOracle x tp delta) x.length tp
  have hs : special (realOracle x tp delta) x.length tp (loop (realOracle x tp delta) x.length tp false)
      = loop (realOracle x tp delta) x.length tp false := by
    unfold special; rw [if_neg (by simpa using h3)]
  rw [hs]
  unfold final
  by_cases h : x.length > 1
  · rw [if_pos h]
    refine ⟨?_, h2⟩
    simp only [h1]
    have e : x.length = (x.length - 2 + 1) + 1 := by omega
    have e2 : x.length - 1 = x.length - 2 + 1 := by omega
    rw [e2]
    conv => rhs; rw [e]
    exact (List.range_succ (n := x.length - 2 + 1)).symm
  · rw [if_neg h]
    refine ⟨?_, h2⟩
    rw [h1]
    have e : x.length - 2 + 1 = x.length := by omega
    rw [e]

/-- the skip ranges with a non-empty interior are exactly the gaps between consecutive fitted points:
a range `(a, b)` means `a` and `b - 1` are consecutive fits with at least one skipped point between
them. (When the tail is skipped the code also records the range `(last regular fit, N-1)`, whose
interior is empty if only the second to last point — which is then fitted itself — was skipped.) -/
theorem skips_are_gaps (x : List Rat) (tp : Nat) (delta : Rat) (hn : 2 ≤ x.length) :
    let r := determineFitsX x tp delta
    r.2.2.filter (fun s => s.1 + 2 < s.2) =
      ((r.2.1.zip r.2.1.tail).filter (fun p => p.1 + 1 < p.2)).map (fun p => (p.1, p.2 + 1)) := by
  unfold determineFitsX
  rw [determineFits_eq]
  exact (final_Core (realOracle x tp delta) x.length tp (decide (delta > 0))).gaps

/-- `_fill_skips`: a skipped point lies on the chord through its two fitted neighbours; fitted
points and points outside every skip range are unchanged -/
theorem fillSkips_chord (x b : List Rat) (l r k : Nat) (hlen : x.length = b.length) (hk : l < k ∧ k + 1 < r) (hr : r ≤ b.length) :
    (fillSkips x b [(l, r)]).getD k 0 =
      b.getD l 0 + (x.getD k 0 - x.getD l 0) * ((b.getD (r - 1) 0 - b.getD l 0) / (x.getD (r - 1) 0 - x.getD l 0)) := by
  have hkb : k < b.length := by omega
  simp [fillSkips, List.getD_eq_getElem?_getD, hkb, hk]
theorem fillSkips_fixed (x b : List Rat) (l r k : Nat) (hk : ¬ (l < k ∧ k + 1 < r)) (hkb : k < b.length) :
    (fillSkips x b [(l, r)]).getD k 0 = b.getD k 0 := by
  simp only [fillSkips, List.foldl_cons, List.foldl_nil, List.getD_eq_getElem?_getD]
  rw [List.getElem?_map, List.getElem?_range hkb]
  simp only [Option.map_some, Option.getD_some]
  rw [if_neg hk]

/-! windows contain the fitted point -/

theorem advance_contains (x : List Rat) (tp : Nat) (delta : Rat) (hx : StrictMonoL x) (i : Nat)
    (hi : i + 1 < x.length) (htp : 1 ≤ tp) : ∀ f l r, r = l + tp → r ≤ x.length → l ≤ i →
    x.length - r ≤ f →
    (advance (realOracle x tp delta) x.length i f l r).1 ≤ i ∧
      i < (advance (realOracle x tp delta) x.length i f l r).2 := by
  intro f
  induction f with
  | zero => intro l r h1 h2 h3 h4; simp [advance]; omega
  | succ f ih =>
    intro l r h1 h2 h3 h4
    unfold advance
    by_cases hc : r < x.length ∧ (realOracle x tp delta).adv i l r = true
    · rw [if_pos hc]
      have hl : l < i := by
        apply Decidable.byContradiction; intro hl
        have e : l = i := by omega
        subst e
        have h5 := hc.2
        simp only [realOracle, decide_eq_true_eq] at h5
        have := hx l r (by omega) hc.1
        grind
      exact ih (l+1) (r+1) (by omega) (by omega) (by omega) (by omega)
    · rw [if_neg hc]
      refine ⟨h3, ?_⟩
      apply Decidable.byContradiction; intro hr
      have hrn : r < x.length := by omega
      apply hc
      refine ⟨hrn, ?_⟩
      simp only [realOracle, decide_eq_true_eq]
      have a1 := hx l i (by omega) (by omega)
      by_cases e : r = i
      · subst e; grind
      · have a2 := hx r i (by omega) (by omega)
        grind

def Cont (p : (Int × Int) × Nat) : Prop := p.1.1 ≤ (p.2 : Int) ∧ (p.2 : Int) < p.1.2

def CInv (n tp i : Nat) (s : St) : Prop :=
  s.right = s.left + tp ∧ s.right ≤ n ∧ s.left ≤ i ∧ s.windows.length = s.fits.length ∧
    ∀ p ∈ s.windows.zip s.fits, Cont p

theorem fitSt_CInv (x : List Rat) (tp : Nat) (delta : Rat) (hx : StrictMonoL x) (htp : 1 ≤ tp)
    (i : Nat) (hi : i + 1 < x.length) (s s1 : St) (h : CInv x.length tp i s)
    (e1 : s1.left = s.left) (e2 : s1.right = s.right) (e3 : s1.windows = s.windows)
    (e4 : s1.fits = s.fits) :
    CInv x.length tp i (fitSt (realOracle x tp delta) x.length i s1) := by
  obtain ⟨h1, h2, h3, h4, h5⟩ := h
  have a := advance_spec (realOracle x tp delta) x.length i tp x.length s.left s.right h1 h2
  have b := advance_contains x tp delta hx i hi htp x.length s.left s.right h1 h2 h3 (by omega)
  unfold fitSt
  simp only [e1, e2, e3, e4]
  refine ⟨a.1, a.2.2, b.1, by simp [h4], ?_⟩
  rw [List.zip_append h4]
  intro p hp
  simp only [List.mem_append, List.zip_cons_cons, List.zip_nil_right, List.mem_singleton] at hp
  rcases hp with hp | hp
  · exact h5 p hp
  · subst hp; simp only [Cont]; omega

theorem iter_CInv (x : List Rat) (tp : Nat) (delta : Rat) (hx : StrictMonoL x) (htp : 1 ≤ tp)
    (check : Bool) (i : Nat) (hi : i + 2 < x.length) (s : St) (h : CInv x.length tp i s) :
    CInv x.length tp (i+1) (iter (realOracle x tp delta) x.length check s (i+1)) := by
  have h' : CInv x.length tp (i+1) s := by
    obtain ⟨h1, h2, h3, h4, h5⟩ := h
    exact ⟨h1, h2, by omega, h4, h5⟩
  rw [iter_eq]
  by_cases hb : (check && (realOracle x tp delta).skip (i+1) s.lastFit) = true
  · rw [if_pos hb]; exact h'
  · rw [if_neg hb]
    cases check with
    | false => exact fitSt_CInv x tp delta hx htp (i+1) (by omega) s _ h' rfl rfl rfl rfl
    | true => exact fitSt_CInv x tp delta hx htp (i+1) (by omega) s _ h' rfl rfl rfl rfl

theorem loop_CInv (x : List Rat) (tp : Nat) (delta : Rat) (hx : StrictMonoL x) (htp : 1 ≤ tp)
    (htpn : tp ≤ x.length) (check : Bool) :
    CInv x.length tp (x.length - 2) (loop (realOracle x tp delta) x.length tp check) := by
  refine fold_inv (realOracle x tp delta) x.length check (CInv x.length tp) (st0 tp) ?_
    (x.length - 2) (fun i s hi h => iter_CInv x tp delta hx htp check i (by omega) s h)
  refine ⟨by simp [st0], by simpa [st0] using htpn, by simp [st0], by simp [st0], ?_⟩
  intro p hp; simp [st0] at hp; subst hp; simp [Cont]; omega

theorem getD_of_zip (ws : List (Int × Int)) (fs : List Nat) (hlen : ws.length = fs.length)
    (h : ∀ p ∈ ws.zip fs, Cont p) (k : Nat) (hk : k < fs.length) :
    (ws.getD k (0, 0)).1 ≤ ((fs.getD k 0 : Nat) : Int) ∧
      ((fs.getD k 0 : Nat) : Int) < (ws.getD k (0, 0)).2 := by
  have hkw : k < ws.length := by omega
  have hm : (ws[k], fs[k]) ∈ ws.zip fs := by
    rw [List.mem_iff_getElem]
    exact ⟨k, by simp; omega, by simp⟩
  have := h _ hm
  simp only [List.getD_eq_getElem?_getD, List.getElem?_eq_getElem hkw, List.getElem?_eq_getElem hk,
    Option.getD_some]
  exact this

/-- every local fit's window contains the point being fitted -/
theorem windows_contain_fit (x : List Rat) (tp : Nat) (delta : Rat) (hx : StrictMonoL x)
    (hn : 1 ≤ x.length) (htp : 1 ≤ tp) (htpn : tp ≤ x.length) :
    let r := determineFitsX x tp delta
    ∀ k, k < r.2.1.length → (r.1.getD k (0, 0)).1 ≤ ((r.2.1.getD k 0 : Nat) : Int) ∧
      ((r.2.1.getD k 0 : Nat) : Int) < (r.1.getD k (0, 0)).2 := by
  unfold determineFitsX
  rw [determineFits_eq]
  generalize hck : decide (delta > 0) = check
  have hlenF := (final_Core (realOracle x tp delta) x.length tp check).wlen
  have hlenS := (special_Core (realOracle x tp delta) x.length tp check).wlen
  obtain ⟨-, -, -, h4, h5⟩ := loop_CInv x tp delta hx htp htpn check
  obtain ⟨L, c, lk⟩ := loop_LInv (realOracle x tp delta) x.length tp check
  -- after the special case
  have hs : ∀ p ∈ (special (realOracle x tp delta) x.length tp
      (loop (realOracle x tp delta) x.length tp check)).windows.zip
      (special (realOracle x tp delta) x.length tp
        (loop (realOracle x tp delta) x.length tp check)).fits, Cont p := by
    unfold special
    by_cases hz : (loop (realOracle x tp delta) x.length tp check).skipStart ≠ 0
    · rw [if_pos hz]
      have hnz := lk.nz hz
      have hn3 : 3 ≤ x.length := by omega
      simp only
      rw [List.zip_append h4]
      intro p hp
      simp only [List.mem_append, List.zip_cons_cons, List.zip_nil_right, List.mem_singleton] at hp
      rcases hp with hp | hp
      · exact h5 p hp
      · by_cases ht : x.length = tp ∨ (realOracle x tp delta).tail = true
        · rw [if_pos ht] at hp; subst hp
          simp only [Cont]
          rcases ht with ht | ht
          · omega
          · have htp2 : 2 ≤ tp := by
              apply Decidable.byContradiction; intro h1
              have e : tp = 1 := by omega
              subst e
              simp only [realOracle, decide_eq_true_eq] at ht
              have := hx (x.length - 2) (x.length - 1) (by omega) (by omega)
              grind
            omega
        · rw [if_neg ht] at hp; subst hp
          simp only [Cont]; omega
    · rw [if_neg hz]; exact h5
  have hf : ∀ p ∈ (final x.length tp (special (realOracle x tp delta) x.length tp
      (loop (realOracle x tp delta) x.length tp check))).windows.zip
      (final x.length tp (special (realOracle x tp delta) x.length tp
        (loop (realOracle x tp delta) x.length tp check))).fits, Cont p := by
    unfold final
    by_cases h1 : x.length > 1
    · rw [if_pos h1]
      simp only
      rw [List.zip_append hlenS]
      intro p hp
      simp only [List.mem_append, List.zip_cons_cons, List.zip_nil_right, List.mem_singleton] at hp
      rcases hp with hp | hp
      · exact hs p hp
      · subst hp; simp only [Cont]; omega
    · rw [if_neg h1]; exact hs
  intro r k hk
  exact getD_of_zip _ _ hlenF hf k hk
